import N0Verif.Model.Xml
import N0Verif.Proofs.Digits
/-! Helper lemmas for C12: the reader machine on the fragments the writer emits. -/
set_option linter.unusedSimpArgs false
set_option linter.unusedVariables false
namespace N0.Xml
open N0 N0.Py

/-! ### run -/

theorem run_append_ok {st st' : RSt} {a : Str} (b : Str) (h : run st a = .ok st') :
    run st (a ++ b) = run st' b := by
  induction a generalizing st with
  | nil => simp [run] at h; subst h; rfl
  | cons c a ih =>
    simp only [List.cons_append, run] at h ⊢
    cases hs : step st c with
    | error e => rw [hs] at h; simp at h
    | ok s1 => rw [hs] at h; simp only at h ⊢; exact ih h

/-! ### character classes -/

/-- character data that the machine copies as is -/
def Plain (c : Char) : Prop := isXmlChar c = true ∧ c ≠ '<' ∧ c ≠ '&' ∧ c ≠ '>'

def Blank (w : Str) : Prop := ∀ c ∈ w, c = ' ' ∨ c = '\n'

theorem plain_space : Plain ' ' := by unfold Plain; decide
theorem plain_nl : Plain '\n' := by unfold Plain; decide

theorem Blank.plain {w : Str} (h : Blank w) : ∀ c ∈ w, Plain c := by
  intro c hc
  rcases h c hc with rfl | rfl
  · exact plain_space
  · exact plain_nl

theorem Blank.append {a b : Str} (ha : Blank a) (hb : Blank b) : Blank (a ++ b) := by
  intro c hc
  rcases List.mem_append.1 hc with h | h
  · exact ha c h
  · exact hb c h

theorem blank_spaces (n : Nat) : Blank (spaces n) := by
  intro c hc
  left
  exact (List.mem_replicate.1 hc).2

theorem blank_nl : Blank ['\n'] := by
  intro c hc; right; simpa using hc

theorem blank_nil : Blank [] := by intro c hc; simp at hc

/-! ### reading inside an element -/

/-- `s`, read as content of an open element, adds `w` to its character data and `ks` to its children -/
def ReadsIn (s w : Str) (ks : List Elem) : Prop :=
  ∀ (cur : Frame) (stack : List Frame) (rb : Nat), stack ≠ [] →
    ∃ rb', run ⟨cur, stack, .text rb⟩ s = .ok ⟨⟨cur.name, cur.data ++ w, cur.kids ++ ks⟩, stack, .text rb'⟩

/-- `s` is one element `e`, wherever an element may start -/
def ReadsElem (s : Str) (e : Elem) : Prop :=
  ∀ (cur : Frame) (stack : List Frame) (rb : Nat), (stack = [] → cur.kids = []) →
    run ⟨cur, stack, .text rb⟩ s = .ok ⟨⟨cur.name, cur.data, cur.kids ++ [e]⟩, stack, .text 0⟩

theorem ReadsIn.nil : ReadsIn [] [] [] := by
  intro cur stack rb _
  exact ⟨rb, by simp [run]⟩

theorem ReadsIn.append {s1 s2 w1 w2 : Str} {k1 k2 : List Elem}
    (h1 : ReadsIn s1 w1 k1) (h2 : ReadsIn s2 w2 k2) : ReadsIn (s1 ++ s2) (w1 ++ w2) (k1 ++ k2) := by
  intro cur stack rb hs
  obtain ⟨rb1, e1⟩ := h1 cur stack rb hs
  obtain ⟨rb2, e2⟩ := h2 ⟨cur.name, cur.data ++ w1, cur.kids ++ k1⟩ stack rb1 hs
  refine ⟨rb2, ?_⟩
  rw [run_append_ok _ e1, e2]
  simp [List.append_assoc]

theorem ReadsElem.readsIn {s : Str} {e : Elem} (h : ReadsElem s e) : ReadsIn s [] [e] := by
  intro cur stack rb hs
  refine ⟨0, ?_⟩
  rw [h cur stack rb (fun h0 => absurd h0 hs)]
  simp

theorem stepText_plain (cur : Frame) (stack : List Frame) (rb : Nat) (hs : stack ≠ []) (c : Char) (hc : Plain c) :
    ∃ rb', step ⟨cur, stack, .text rb⟩ c = .ok ⟨⟨cur.name, cur.data ++ [c], cur.kids⟩, stack, .text rb'⟩ := by
  obtain ⟨hx, h1, h2, h3⟩ := hc
  have hne : stack.isEmpty = false := by cases stack <;> simp_all
  have hcr : c ≠ '\r' := by
    intro h; subst h; revert hx; decide
  by_cases hb : c = ']'
  · exact ⟨rb + 1, by simp [step, stepText, h1, h2, h3, hne, hb, addData]⟩
  · exact ⟨0, by simp [step, stepText, h1, h2, h3, hne, hb, hcr, hx, addData]⟩

theorem ReadsIn.plain (s : Str) (h : ∀ c ∈ s, Plain c) : ReadsIn s s [] := by
  induction s with
  | nil => exact ReadsIn.nil
  | cons c s ih =>
    intro cur stack rb hs
    obtain ⟨rb1, e1⟩ := stepText_plain cur stack rb hs c (h c (by simp))
    obtain ⟨rb2, e2⟩ := ih (fun d hd => h d (by simp [hd])) ⟨cur.name, cur.data ++ [c], cur.kids⟩ stack rb1 hs
    refine ⟨rb2, ?_⟩
    simp only [run, e1, e2]
    simp [List.append_assoc]

theorem ReadsIn.blank {w : Str} (h : Blank w) : ReadsIn w w [] := ReadsIn.plain w h.plain

/-! ### names and tags -/

theorem isName_cons {k : Str} (h : isName k = true) :
    ∃ c cs, k = c :: cs ∧ isNameStart c = true ∧ ∀ d ∈ cs, isNameChar d = true := by
  cases k with
  | nil => simp [isName] at h
  | cons c cs =>
    refine ⟨c, cs, rfl, ?_, ?_⟩
    · simp only [isName, Bool.and_eq_true] at h
      simpa [isNameStart] using h.1
    · intro d hd
      simp only [isName, Bool.and_eq_true, List.all_eq_true] at h
      have := h.2 d hd
      simp only [isNameChar, isNameStart]
      simp only [Bool.or_eq_true, decide_eq_true_eq] at this ⊢
      rcases this with (((h1 | h1) | h1) | h1) | h1
      · exact Or.inl (Or.inl (Or.inl (Or.inl h1)))
      · exact Or.inl (Or.inl (Or.inr h1))
      · exact Or.inl (Or.inl (Or.inl (Or.inr h1)))
      · exact Or.inl (Or.inr h1)
      · exact Or.inr h1

theorem run_otag (cur : Frame) (stack : List Frame) (acc cs rest : Str) (h : ∀ d ∈ cs, isNameChar d = true) :
    run ⟨cur, stack, .otag acc⟩ (cs ++ rest) = run ⟨cur, stack, .otag (acc ++ cs)⟩ rest := by
  induction cs generalizing acc with
  | nil => simp
  | cons c cs ih =>
    have hc := h c (by simp)
    simp only [List.cons_append, run, step, stepOtag, hc, if_true]
    rw [ih (acc ++ [c]) (fun d hd => h d (by simp [hd]))]
    simp [List.append_assoc]

theorem run_ctag (cur : Frame) (stack : List Frame) (acc cs rest : Str) (h : ∀ d ∈ cs, isNameChar d = true) :
    run ⟨cur, stack, .ctag acc⟩ (cs ++ rest) = run ⟨cur, stack, .ctag (acc ++ cs)⟩ rest := by
  induction cs generalizing acc with
  | nil => simp
  | cons c cs ih =>
    have hc := h c (by simp)
    simp only [List.cons_append, run, step, stepCtag, hc, if_true]
    rw [ih (acc ++ [c]) (fun d hd => h d (by simp [hd]))]
    simp [List.append_assoc]

theorem nameStart_facts {c : Char} (h : isNameStart c = true) : c ≠ '/' ∧ c ≠ '!' ∧ c ≠ '?' ∧ c ≠ '>' := by
  refine ⟨?_, ?_, ?_, ?_⟩ <;> (intro hc; subst hc; revert h; decide)

theorem run_open (cur : Frame) (stack : List Frame) (rb : Nat) (k rest : Str) (hk : isName k = true)
    (hroot : stack = [] → cur.kids = []) :
    run ⟨cur, stack, .text rb⟩ (openTag k [] ++ rest) = run ⟨⟨k, [], []⟩, cur :: stack, .text 0⟩ rest := by
  obtain ⟨c, cs, rfl, hc, hcs⟩ := isName_cons hk
  obtain ⟨n1, n2, n3, n4⟩ := nameStart_facts hc
  have hpush : (stack.isEmpty && !cur.kids.isEmpty) = false := by
    cases stack with
    | nil => simp [hroot rfl]
    | cons a b => simp
  simp only [openTag, List.cons_append, List.append_nil, run, step, stepText, if_true, stepLt, n1, n2, n3, hc, if_false]
  rw [List.append_assoc, run_otag cur stack [c] cs _ hcs]
  have hgt : isNameChar '>' = false := by decide
  simp [run, step, stepOtag, hgt, pushElem, hpush]

theorem run_empty (cur : Frame) (stack : List Frame) (rb : Nat) (k rest : Str) (hk : isName k = true)
    (hroot : stack = [] → cur.kids = []) :
    run ⟨cur, stack, .text rb⟩ (emptyTag k [] ++ rest)
      = run ⟨⟨cur.name, cur.data, cur.kids ++ [Elem.mk k [] []]⟩, stack, .text 0⟩ rest := by
  obtain ⟨c, cs, rfl, hc, hcs⟩ := isName_cons hk
  obtain ⟨n1, n2, n3, n4⟩ := nameStart_facts hc
  have hpush : (stack.isEmpty && !cur.kids.isEmpty) = false := by
    cases stack with
    | nil => simp [hroot rfl]
    | cons a b => simp
  simp only [emptyTag, List.cons_append, List.append_nil, run, step, stepText, if_true, stepLt, n1, n2, n3, hc, if_false]
  rw [List.append_assoc, run_otag cur stack [c] cs _ hcs]
  have hsl : isNameChar '/' = false := by decide
  simp [run, step, stepOtag, hsl, stepOslash, emptyElem, hpush]

theorem run_close (k d : Str) (ks : List Elem) (parent : Frame) (stack : List Frame) (rb : Nat) (rest : Str)
    (hk : isName k = true) :
    run ⟨⟨k, d, ks⟩, parent :: stack, .text rb⟩ (closeTag k ++ rest)
      = run ⟨⟨parent.name, parent.data, parent.kids ++ [Elem.mk k d ks]⟩, stack, .text 0⟩ rest := by
  obtain ⟨c, cs, rfl, hc, hcs⟩ := isName_cons hk
  simp only [closeTag, List.cons_append, run, step, stepText, if_true, stepLt, stepCtag0, hc]
  rw [List.append_assoc, run_ctag _ _ [c] cs _ hcs]
  have hgt : isNameChar '>' = false := by decide
  simp [run, step, stepCtag, hgt, popElem]

theorem ReadsElem.elem {k body w : Str} {ks : List Elem} (hk : isName k = true) (hb : ReadsIn body w ks) :
    ReadsElem (openTag k [] ++ body ++ closeTag k) (Elem.mk k w ks) := by
  intro cur stack rb hroot
  rw [List.append_assoc, run_open cur stack rb k _ hk hroot]
  obtain ⟨rb', e⟩ := hb ⟨k, [], []⟩ (cur :: stack) 0 (by simp)
  rw [run_append_ok _ e]
  have := run_close k ([] ++ w) ([] ++ ks) cur stack rb' [] hk
  simp only [List.append_nil] at this
  rw [this]
  simp [run]

theorem ReadsElem.empty {k : Str} (hk : isName k = true) : ReadsElem (emptyTag k []) (Elem.mk k [] []) := by
  intro cur stack rb hroot
  have := run_empty cur stack rb k [] hk hroot
  simp only [List.append_nil] at this
  rw [this]
  simp [run]

/-! ### escaped text -/

theorem lookupTab_mem {n : Nat} {tb : List (Nat × Str)} {e : Str} (h : lookupTab n tb = some e) : (n, e) ∈ tb := by
  induction tb with
  | nil => simp [lookupTab] at h
  | cons p tb ih =>
    obtain ⟨k, e'⟩ := p
    simp only [lookupTab] at h
    split at h
    · rename_i hk
      simp at h; subst h; subst hk; simp
    · exact List.mem_cons_of_mem _ (ih h)

theorem entryOk_cases {n : Nat} {e : Str} (h : entryOk (n, e) = true) :
    (n = 0x3C ∧ e = ['&', 'l', 't', ';']) ∨ (n = 0x3E ∧ e = ['&', 'g', 't', ';']) ∨
    (n = 0x26 ∧ e = ['&', 'a', 'm', 'p', ';']) ∨ (n = 0x22 ∧ e = ['&', 'q', 'u', 'o', 't', ';']) ∨
    (n = 0x27 ∧ e = ['&', 'a', 'p', 'o', 's', ';']) := by
  simp only [entryOk, predefined, List.any_cons, List.any_nil, Bool.or_false, Bool.or_eq_true,
    Bool.and_eq_true, decide_eq_true_eq, beq_iff_eq] at h
  rcases h with h | h | h | h | h
  · exact Or.inl ⟨h.1.symm, h.2⟩
  · exact Or.inr (Or.inl ⟨h.1.symm, h.2⟩)
  · exact Or.inr (Or.inr (Or.inl ⟨h.1.symm, h.2⟩))
  · exact Or.inr (Or.inr (Or.inr (Or.inl ⟨h.1.symm, h.2⟩)))
  · exact Or.inr (Or.inr (Or.inr (Or.inr ⟨h.1.symm, h.2⟩)))

theorem reads_entity (name : Str) (ch : Char) (c0 : Char) (cs : Str) (hname : name = c0 :: cs)
    (h0 : isNameStart c0 = true) (hcs : ∀ d ∈ cs, isNameChar d = true)
    (hdec : decodeEnt name predefined = some ch) :
    ReadsIn ('&' :: name ++ [';']) [ch] [] := by
  intro cur stack rb hs
  refine ⟨0, ?_⟩
  have hne : stack.isEmpty = false := by cases stack <;> simp_all
  subst hname
  have hsemi0 : c0 ≠ ';' := by intro h; subst h; revert h0; decide
  have hhash0 : c0 ≠ '#' := by intro h; subst h; revert h0; decide
  have key : ∀ (cs acc rest : Str), acc ≠ [] → (∀ d ∈ cs, isNameChar d = true) →
      run ⟨cur, stack, .ent acc⟩ (cs ++ rest) = run ⟨cur, stack, .ent (acc ++ cs)⟩ rest := by
    intro cs
    induction cs with
    | nil => intro acc rest _ _; simp
    | cons d cs ih =>
      intro acc rest hacc hd
      have hdn := hd d (by simp)
      have hsemi : d ≠ ';' := by intro h; subst h; revert hdn; decide
      have hhash : d ≠ '#' := by intro h; subst h; revert hdn; decide
      have hae : acc.isEmpty = false := by cases acc <;> simp_all
      have hstep : step ⟨cur, stack, .ent acc⟩ d = .ok ⟨cur, stack, .ent (acc ++ [d])⟩ := by
        simp [step, stepEnt, hsemi, hae, hdn, hhash]
      rw [List.cons_append, run, hstep]
      simp only
      rw [ih (acc ++ [d]) rest (by simp) (fun x hx => hd x (by simp [hx]))]
      simp [List.append_assoc]
  have hs1 : step ⟨cur, stack, .text rb⟩ '&' = .ok ⟨cur, stack, .ent []⟩ := by
    simp [step, stepText, hne]
  have hs2 : step ⟨cur, stack, .ent []⟩ c0 = .ok ⟨cur, stack, .ent [c0]⟩ := by
    simp [step, stepEnt, hsemi0, hhash0, h0]
  rw [List.cons_append, run, hs1]
  simp only
  rw [List.cons_append, run, hs2]
  simp only
  rw [key cs [c0] [';'] (by simp) hcs]
  simp [run, step, stepEnt, hdec, addData]

theorem ReadsIn.escChar {tb : List (Nat × Str)} (htb : tableOk tb = true) (c : Char) (hc : isXmlChar c = true) :
    ReadsIn (escChar tb c) [c] [] := by
  simp only [tableOk, Bool.and_eq_true, List.all_eq_true] at htb
  obtain ⟨⟨⟨hall, hlt⟩, hamp⟩, hgt⟩ := htb
  unfold Xml.escChar
  cases hl : lookupTab c.toNat tb with
  | some e =>
    simp only
    have hmem := lookupTab_mem hl
    have hok := hall _ hmem
    rcases entryOk_cases hok with ⟨hn, he⟩ | ⟨hn, he⟩ | ⟨hn, he⟩ | ⟨hn, he⟩ | ⟨hn, he⟩
    · have : c = '<' := Char.toNat_inj.1 (by rw [hn]; rfl)
      subst this; subst he
      exact reads_entity ['l', 't'] '<' 'l' ['t'] rfl (by decide) (by decide) (by decide)
    · have : c = '>' := Char.toNat_inj.1 (by rw [hn]; rfl)
      subst this; subst he
      exact reads_entity ['g', 't'] '>' 'g' ['t'] rfl (by decide) (by decide) (by decide)
    · have : c = '&' := Char.toNat_inj.1 (by rw [hn]; rfl)
      subst this; subst he
      exact reads_entity ['a', 'm', 'p'] '&' 'a' ['m', 'p'] rfl (by decide) (by decide) (by decide)
    · have : c = '"' := Char.toNat_inj.1 (by rw [hn]; rfl)
      subst this; subst he
      exact reads_entity ['q', 'u', 'o', 't'] '"' 'q' ['u', 'o', 't'] rfl (by decide) (by decide) (by decide)
    · have : c = '\'' := Char.toNat_inj.1 (by rw [hn]; rfl)
      subst this; subst he
      exact reads_entity ['a', 'p', 'o', 's'] '\'' 'a' ['p', 'o', 's'] rfl (by decide) (by decide) (by decide)
  | none =>
    simp only
    apply ReadsIn.plain
    intro d hd
    have : d = c := by simpa using hd
    subst this
    refine ⟨hc, ?_, ?_, ?_⟩
    · intro h; subst h; have h' : lookupTab 0x3C tb = none := hl; rw [h'] at hlt; simp at hlt
    · intro h; subst h; have h' : lookupTab 0x26 tb = none := hl; rw [h'] at hamp; simp at hamp
    · intro h; subst h; have h' : lookupTab 0x3E tb = none := hl; rw [h'] at hgt; simp at hgt

theorem ReadsIn.escape {tb : List (Nat × Str)} (htb : tableOk tb = true) (s : Str) (hs : isXmlText s = true) :
    ReadsIn (escape tb s) s [] := by
  induction s with
  | nil => exact ReadsIn.nil
  | cons c s ih =>
    simp only [isXmlText, List.all_cons, Bool.and_eq_true] at hs
    have h1 := ReadsIn.escChar htb c hs.1
    have h2 := ih (by simpa [isXmlText] using hs.2)
    have := ReadsIn.append h1 h2
    simpa [Xml.escape] using this

/-! ### `str.strip()` -/

def AllSpace (w : Str) : Prop := ∀ c ∈ w, isPySpace c = true

theorem AllSpace.append {a b : Str} (ha : AllSpace a) (hb : AllSpace b) : AllSpace (a ++ b) := by
  intro c hc
  rcases List.mem_append.1 hc with h | h
  · exact ha c h
  · exact hb c h

theorem Blank.allSpace {w : Str} (h : Blank w) : AllSpace w := by
  intro c hc
  rcases h c hc with rfl | rfl <;> decide

theorem dropWhile_all {α} (p : α → Bool) (e s : List α) (h : ∀ x ∈ e, p x = true) :
    (e ++ s).dropWhile p = s.dropWhile p := by
  induction e with
  | nil => rfl
  | cons x e ih =>
    have hx : p x = true := h x (by simp)
    simp [hx]
    exact ih (fun y hy => h y (by simp [hy]))

theorem dropWhile_nil_of_all {α} (p : α → Bool) (e : List α) (h : ∀ x ∈ e, p x = true) : e.dropWhile p = [] := by
  have := dropWhile_all p e [] h
  simpa using this

theorem dropWhile_append_of_cons {α} (p : α → Bool) (m b : List α) (x : α) (r : List α)
    (h : m.dropWhile p = x :: r) : (m ++ b).dropWhile p = x :: r ++ b := by
  induction m with
  | nil => simp at h
  | cons y m ih =>
    by_cases hy : p y = true
    · simp only [List.cons_append, List.dropWhile_cons, hy, if_true] at h ⊢
      exact ih h
    · simp only [List.cons_append, List.dropWhile_cons, hy] at h ⊢
      simp at h ⊢
      rw [← h.1, ← h.2]
      simp

theorem dropWhile_head_false {α} (p : α → Bool) (m : List α) (x : α) (r : List α)
    (h : m.dropWhile p = x :: r) : p x = false := by
  induction m with
  | nil => simp at h
  | cons y m ih =>
    by_cases hy : p y = true
    · simp only [List.dropWhile_cons, hy, if_true] at h; exact ih h
    · simp only [List.dropWhile_cons, hy] at h
      simp at h
      rw [← h.1]; simpa using hy

theorem all_of_dropWhile_nil {α} (p : α → Bool) (l : List α) (h : l.dropWhile p = []) : ∀ x ∈ l, p x = true := by
  induction l with
  | nil => intro x hx; simp at hx
  | cons y l ih =>
    by_cases hy : p y = true
    · simp only [List.dropWhile_cons, hy, if_true] at h
      intro x hx
      rcases List.mem_cons.1 hx with rfl | hx
      · exact hy
      · exact ih h x hx
    · simp [List.dropWhile_cons, hy] at h

theorem mem_takeWhile_true {α} (p : α → Bool) (l : List α) : ∀ x ∈ l.takeWhile p, p x = true := by
  induction l with
  | nil => intro x hx; simp at hx
  | cons y l ih =>
    intro x hx
    by_cases hy : p y = true
    · simp only [List.takeWhile_cons, hy, if_true] at hx
      rcases List.mem_cons.1 hx with rfl | hx
      · exact hy
      · exact ih x hx
    · simp [List.takeWhile_cons, hy] at hx

theorem split_rev_dropWhile {α} (p : α → Bool) (l : List α) :
    l = (l.reverse.dropWhile p).reverse ++ (l.reverse.takeWhile p).reverse := by
  have h2 : l.reverse.takeWhile p ++ l.reverse.dropWhile p = l.reverse := List.takeWhile_append_dropWhile
  calc l = l.reverse.reverse := by rw [List.reverse_reverse]
    _ = (l.reverse.takeWhile p ++ l.reverse.dropWhile p).reverse := by rw [h2]
    _ = _ := by rw [List.reverse_append]

theorem stripWs_allSpace {w : Str} (h : AllSpace w) : stripWs w = [] := by
  unfold stripWs
  rw [dropWhile_nil_of_all _ _ h]
  rfl

theorem stripWs_surround (a m b : Str) (ha : AllSpace a) (hb : AllSpace b) :
    stripWs (a ++ m ++ b) = stripWs m := by
  cases hm : m.dropWhile isPySpace with
  | nil =>
    have hmall : AllSpace m := by
      intro c hc
      exact all_of_dropWhile_nil _ _ hm c hc
    rw [stripWs_allSpace hmall, stripWs_allSpace ((ha.append hmall).append hb)]
  | cons x r =>
    unfold stripWs
    rw [List.append_assoc, dropWhile_all _ a _ ha, dropWhile_append_of_cons _ m b x r hm, hm]
    rw [List.reverse_append, dropWhile_all _ b.reverse _ (by intro c hc; exact hb c (by simpa using hc))]

theorem stripWs_id_of_ends (c d : Char) (m : Str) (hc : isPySpace c = false) (hd : isPySpace d = false) :
    stripWs (c :: m ++ [d]) = c :: m ++ [d] := by
  unfold stripWs
  simp [hc, hd, List.reverse_append]

theorem stripWs_decomp (s : Str) : ∃ a b, s = a ++ stripWs s ++ b ∧ AllSpace a ∧ AllSpace b := by
  refine ⟨s.takeWhile isPySpace, (((s.dropWhile isPySpace).reverse).takeWhile isPySpace).reverse, ?_, ?_, ?_⟩
  · unfold stripWs
    have h1 : s = s.takeWhile isPySpace ++ s.dropWhile isPySpace := (List.takeWhile_append_dropWhile).symm
    have h3 := split_rev_dropWhile isPySpace (s.dropWhile isPySpace)
    rw [List.append_assoc, ← h3, ← h1]
  · intro c hc
    exact mem_takeWhile_true _ _ c hc
  · intro c hc
    exact mem_takeWhile_true _ _ c (by simpa using hc)

theorem stripWs_noSpace (s : Str) (h : ∀ c ∈ s, isPySpace c = false) : stripWs s = s := by
  cases s with
  | nil => rfl
  | cons c m =>
    rcases List.eq_nil_or_concat m with rfl | ⟨m', d, rfl⟩
    · unfold stripWs; simp [h c (by simp)]
    · have := stripWs_id_of_ends c d m' (h c (by simp)) (h d (by simp))
      simpa using this

/-! ### CDATA -/

theorem startsWith_split {s p : Str} (h : startsWith s p = true) : ∃ r, s = p ++ r := by
  induction p generalizing s with
  | nil => exact ⟨s, rfl⟩
  | cons x p ih =>
    cases s with
    | nil => simp [startsWith] at h
    | cons c s =>
      simp only [startsWith, Bool.and_eq_true, beq_iff_eq] at h
      obtain ⟨r, hr⟩ := ih h.2
      exact ⟨r, by rw [h.1, hr]; rfl⟩

theorem isInfix_tail {p : Str} {c : Char} {s : Str} (h : isInfix p (c :: s) = false) : isInfix p s = false := by
  simp only [isInfix, Bool.or_eq_false_iff] at h
  exact h.2

theorem isInfix_head {p : Str} {c : Char} {s : Str} (h : isInfix p (c :: s) = false) : startsWith (c :: s) p = false := by
  simp only [isInfix, Bool.or_eq_false_iff] at h
  exact h.1

/-- inside a CDATA section: everything up to the first `]]>` is data -/
theorem run_cdata (cur : Frame) (stack : List Frame) (inner : Str) (rb : Nat)
    (hx : ∀ c ∈ inner, isXmlChar c = true)
    (hno : isInfix [']', ']', '>'] (List.replicate rb ']' ++ inner) = false) :
    run ⟨cur, stack, .cdata rb⟩ (inner ++ [']', ']', '>'])
      = .ok ⟨⟨cur.name, cur.data ++ (List.replicate rb ']' ++ inner), cur.kids⟩, stack, .text 0⟩ := by
  induction inner generalizing cur rb with
  | nil =>
    simp [run, step, stepCdata, addData]
  | cons c inner ih =>
    have hxc := hx c (by simp)
    have hx' : ∀ d ∈ inner, isXmlChar d = true := fun d hd => hx d (by simp [hd])
    by_cases hb : c = ']'
    · subst hb
      have hstep : step ⟨cur, stack, .cdata rb⟩ ']' = .ok ⟨cur, stack, .cdata (rb + 1)⟩ := by
        simp [step, stepCdata]
      rw [List.cons_append, run, hstep]
      simp only
      have hrep : List.replicate rb ']' ++ ']' :: inner = List.replicate (rb + 1) ']' ++ inner := by
        rw [List.replicate_succ', List.append_assoc]; rfl
      rw [ih cur (rb + 1) hx' (by rw [← hrep]; exact hno), hrep]
    · have hcr : c ≠ '\r' := by intro h; subst h; revert hxc; decide
      have hgt : ¬ (c = '>' ∧ rb ≥ 2) := by
        rintro ⟨h1, h2⟩
        subst h1
        -- `]]>` would start at position rb - 2
        have key : ∀ n (t : Str), isInfix [']', ']', '>'] (List.replicate (n + 2) ']' ++ '>' :: t) = true := by
          intro n t
          induction n with
          | zero => simp [isInfix, startsWith]
          | succ n ihn =>
            rw [List.replicate_succ, List.cons_append, isInfix, ihn]; simp
        obtain ⟨n, rfl⟩ : ∃ n, rb = n + 2 := ⟨rb - 2, by omega⟩
        rw [key n inner] at hno
        exact absurd hno (by simp)
      have hstep : step ⟨cur, stack, .cdata rb⟩ c
          = .ok ⟨⟨cur.name, cur.data ++ (List.replicate rb ']' ++ [c]), cur.kids⟩, stack, .cdata 0⟩ := by
        by_cases h1 : c = '>'
        · subst h1
          have : ¬ rb ≥ 2 := fun h => hgt ⟨rfl, h⟩
          simp [step, stepCdata, this, addData, hxc]
        · simp [step, stepCdata, hb, h1, hcr, hxc, addData]
      rw [List.cons_append, run, hstep]
      simp only
      have hno' : isInfix [']', ']', '>'] (List.replicate 0 ']' ++ inner) = false := by
        have : ∀ n, isInfix [']', ']', '>'] (List.replicate n ']' ++ c :: inner) = false → isInfix [']', ']', '>'] inner = false := by
          intro n
          induction n with
          | zero => intro h; exact isInfix_tail h
          | succ n ihn => intro h; rw [List.replicate_succ, List.cons_append] at h; exact ihn (isInfix_tail h)
        simpa using this rb hno
      rw [ih _ 0 hx' hno']
      simp [List.append_assoc]

theorem isPySpace_plain {c : Char} (h1 : isPySpace c = true) (h2 : isXmlChar c = true) : Plain c := by
  refine ⟨h2, ?_, ?_, ?_⟩ <;> (intro h; subst h; revert h1; decide)

/-- shape of a value that passes the CDATA test -/
theorem cdata_shape {cfg : Cfg} (hcfg : cfgOk cfg = true) {s : Str} (h : isCdataValue cfg s = true) :
    ∃ a inner b, s = a ++ (cfg.copen ++ inner ++ cfg.cclose) ++ b ∧ AllSpace a ∧ AllSpace b
      ∧ cdataInner (stripWs s) = inner ∧ isInfix [']', ']', '>'] inner = false := by
  simp only [cfgOk, Bool.and_eq_true, decide_eq_true_eq] at hcfg
  obtain ⟨⟨_, ho⟩, hc⟩ := hcfg
  simp only [isCdataValue, Bool.and_eq_true, Bool.not_eq_true'] at h
  obtain ⟨⟨h1, h2⟩, h3⟩ := h
  obtain ⟨a, b, hs, ha, hb⟩ := stripWs_decomp s
  obtain ⟨r, hr⟩ := startsWith_split h1
  rw [ho] at hr
  -- the closing marker lies inside `r`
  have hr3 : ∃ inner, r = inner ++ [']', ']', '>'] := by
    rw [hr, hc] at h2
    simp only [endsWith, List.reverse_append, List.reverse_cons, List.reverse_nil, List.nil_append, List.cons_append] at h2
    cases hrr : r.reverse with
    | nil => rw [hrr] at h2; simp [startsWith] at h2
    | cons x t =>
      cases t with
      | nil => rw [hrr] at h2; simp [startsWith] at h2
      | cons y t =>
        cases t with
        | nil => rw [hrr] at h2; simp [startsWith] at h2
        | cons z t =>
          rw [hrr] at h2
          simp only [List.cons_append, startsWith, Bool.and_eq_true, beq_iff_eq] at h2
          refine ⟨t.reverse, ?_⟩
          have := congrArg List.reverse hrr
          simp only [List.reverse_reverse, List.reverse_cons, List.append_assoc, List.cons_append, List.nil_append] at this
          rw [this, h2.1, h2.2.1, h2.2.2.1]
  obtain ⟨inner, hin⟩ := hr3
  have hinner : cdataInner (stripWs s) = inner := by
    rw [hr, hin]
    simp [cdataInner]
  refine ⟨a, inner, b, ?_, ha, hb, hinner, ?_⟩
  · rw [ho, hc]
    rw [hr, hin] at hs
    simpa [List.append_assoc] using hs
  · rw [hinner, hc] at h3
    exact h3

theorem ReadsIn.cdataValue {cfg : Cfg} (hcfg : cfgOk cfg = true) {s : Str} (h : isCdataValue cfg s = true)
    (hx : isXmlText s = true) :
    ∃ a b, AllSpace a ∧ AllSpace b ∧ ReadsIn s (a ++ cdataInner (stripWs s) ++ b) [] := by
  obtain ⟨a, inner, b, hs, ha, hb, hinner, hno⟩ := cdata_shape hcfg h
  simp only [cfgOk, Bool.and_eq_true, decide_eq_true_eq] at hcfg
  obtain ⟨⟨_, ho⟩, hc⟩ := hcfg
  have hxall : ∀ c ∈ s, isXmlChar c = true := by simpa [isXmlText] using hx
  refine ⟨a, b, ha, hb, ?_⟩
  rw [hinner]
  have hxs : ∀ c ∈ a ++ (cfg.copen ++ inner ++ cfg.cclose) ++ b, isXmlChar c = true := by rw [← hs]; exact hxall
  have hA : ReadsIn a a [] := ReadsIn.plain a (fun c hc => isPySpace_plain (ha c hc) (hxs c (by simp [hc])))
  have hB : ReadsIn b b [] := ReadsIn.plain b (fun c hc => isPySpace_plain (hb c hc) (hxs c (by simp [hc])))
  have hM : ReadsIn (cfg.copen ++ inner ++ cfg.cclose) inner [] := by
    intro cur stack rb hst
    refine ⟨0, ?_⟩
    have hne : stack.isEmpty = false := by cases stack <;> simp_all
    rw [ho, hc]
    have hpre : run ⟨cur, stack, .text rb⟩ (['<', '!', '[', 'C', 'D', 'A', 'T', 'A', '['] ++ (inner ++ [']', ']', '>']))
        = run ⟨cur, stack, .cdata 0⟩ (inner ++ [']', ']', '>']) := by
      simp [run, step, stepText, stepLt, stepBang, bangTarget, hne]
    rw [List.append_assoc, hpre]
    rw [run_cdata cur stack inner 0 (fun c hc' => hxs c (by simp [hc'])) (by simpa using hno)]
    simp
  have := ReadsIn.append (ReadsIn.append hA hM) hB
  rw [hs]
  simpa using this

/-! ### number lexemes -/

/-- a lexeme that is written raw, read back as is, and unchanged by `strip()` -/
def NumLex (r : Str) : Prop := r ≠ [] ∧ ∀ c ∈ r, Plain c ∧ isPySpace c = false

theorem NumLex.reads {r : Str} (h : NumLex r) : ReadsIn r r [] := ReadsIn.plain r (fun c hc => (h.2 c hc).1)

theorem NumLex.strip {r : Str} (h : NumLex r) : stripWs r = r := stripWs_noSpace r (fun c hc => (h.2 c hc).2)

theorem digit_facts {c : Char} (h : c.isDigit = true) : Plain c ∧ isPySpace c = false := by
  have hb : 48 ≤ c.toNat ∧ c.toNat ≤ 57 := by
    simp only [Char.isDigit, Bool.and_eq_true, decide_eq_true_eq] at h
    have h1 : (48 : UInt32) ≤ c.val := h.1
    have h2 : c.val ≤ (57 : UInt32) := h.2
    constructor
    · have := UInt32.le_iff_toNat_le.1 h1
      have e : (48 : UInt32).toNat = 48 := by rfl
      rw [e] at this; exact this
    · have := UInt32.le_iff_toNat_le.1 h2
      have e : (57 : UInt32).toNat = 57 := by rfl
      rw [e] at this; exact this
  refine ⟨⟨?_, ?_, ?_, ?_⟩, ?_⟩
  · simp only [isXmlChar, Bool.or_eq_true, decide_eq_true_eq, Bool.and_eq_true]
    right; refine ⟨⟨?_, ?_⟩, ?_⟩ <;> omega
  · intro hc; subst hc; revert h; decide
  · intro hc; subst hc; revert h; decide
  · intro hc; subst hc; revert h; decide
  · simp only [isPySpace, Bool.or_eq_false_iff, Bool.and_eq_false_iff, decide_eq_false_iff_not]
    omega

theorem numLex_natRepr (n : Nat) : NumLex (natRepr n) := by
  refine ⟨natDigits_ne_nil n, ?_⟩
  intro c hc
  have hd : isAsciiDigit c = true := natDigits_all_digit n c hc
  have : c.isDigit = true := by
    simp only [isAsciiDigit, Bool.and_eq_true, decide_eq_true_eq] at hd
    simp only [Char.isDigit, Bool.and_eq_true, decide_eq_true_eq]
    exact hd
  exact digit_facts this

theorem numLex_intRepr (i : Int) : NumLex (intRepr i) := by
  cases i with
  | ofNat n => exact numLex_natRepr n
  | negSucc n =>
    refine ⟨by simp [intRepr], ?_⟩
    intro c hc
    simp only [intRepr, List.mem_cons] at hc
    rcases hc with rfl | hc
    · exact ⟨by unfold Plain; decide, by decide⟩
    · exact (numLex_natRepr (n + 1)).2 c hc

theorem numLex_float {r : Str} (h : isFloatLexeme r = true) : NumLex r := by
  simp only [isFloatLexeme, Bool.and_eq_true, Bool.not_eq_true', List.all_eq_true] at h
  refine ⟨by intro h0; rw [h0] at h; simp at h, ?_⟩
  intro c hc
  have := h.2 c hc
  simp only [Bool.or_eq_true, decide_eq_true_eq] at this
  rcases this with (((((((h1 | h1) | h1) | h1) | h1) | h1) | h1) | h1) | h1
  · have hd : c.isDigit = true := by
      simp only [isAsciiDigit, Bool.and_eq_true, decide_eq_true_eq] at h1
      simp only [Char.isDigit, Bool.and_eq_true, decide_eq_true_eq]
      exact h1
    exact digit_facts hd
  all_goals (subst h1; exact ⟨by unfold Plain; decide, by decide⟩)

theorem numLex_true : NumLex ['T', 'r', 'u', 'e'] := by
  refine ⟨by simp, ?_⟩
  intro c hc
  simp only [List.mem_cons, List.not_mem_nil, or_false] at hc
  rcases hc with rfl | rfl | rfl | rfl <;> exact ⟨by unfold Plain; decide, by decide⟩

theorem numLex_false : NumLex ['F', 'a', 'l', 's', 'e'] := by
  refine ⟨by simp, ?_⟩
  intro c hc
  simp only [List.mem_cons, List.not_mem_nil, or_false] at hc
  rcases hc with rfl | rfl | rfl | rfl | rfl <;> exact ⟨by unfold Plain; decide, by decide⟩

/-! ### `xmltodict` conventions on the elements read -/

theorem valOf_leaf (k d : Str) :
    valOf (Elem.mk k d []) = if (stripWs d).isEmpty then Val.none else Val.str (stripWs d) := by
  simp [valOf, kidsOf]

theorem kidsOf_cons (n d : Str) (ks es : List Elem) (acc : List (Str × Val)) :
    kidsOf (Elem.mk n d ks :: es) acc = kidsOf es (pushData n (valOf (Elem.mk n d ks)) acc) := by
  simp [kidsOf]

theorem valOf_node (k d : Str) (ks : List Elem) (kvs : List (Str × Val)) (h : kidsOf ks [] = kvs) (hne : kvs ≠ [])
    (hd : stripWs d = []) : valOf (Elem.mk k d ks) = Val.dict .n0 kvs := by
  cases kvs with
  | nil => exact absurd rfl hne
  | cons p kvs => simp [valOf, h, hd]

theorem pushData_fresh (k : Str) (v : Val) (acc : List (Str × Val)) (h : ∀ q ∈ acc, q.1 ≠ k) :
    pushData k v acc = acc ++ [(k, v)] := by
  induction acc with
  | nil => rfl
  | cons q acc ih =>
    obtain ⟨k', v'⟩ := q
    have hq : k' ≠ k := h (k', v') (by simp)
    simp only [pushData, hq, if_false, List.cons_append]
    rw [ih (fun q hq' => h q (by simp [hq']))]

theorem valOf_num (k r : Str) (h : NumLex r) : valOf (Elem.mk k r []) = Val.str r := by
  rw [valOf_leaf, h.strip]
  have : r.isEmpty = false := by cases r with
    | nil => exact absurd rfl h.1
    | cons _ _ => rfl
  simp [this]

/-! ### what the writer emits for one entry, and for the entries of a dict -/

/-- the text written for `(k, v)`: optional indent, then one element that reads as `normalise v` -/
def EntryOut (cfg : Cfg) (k : Str) (v : Val) (indent : Nat) (body : Str) : Prop :=
  ∃ bpre tl d ks, body = bpre ++ ('<' :: k ++ tl ++ ['>']) ∧ (bpre = [] ∨ bpre = spaces indent) ∧
    ReadsElem ('<' :: k ++ tl ++ ['>']) (Elem.mk k d ks) ∧ valOf (Elem.mk k d ks) = normalise cfg v

/-- the text written for the entries `kvs`: blanks, then elements separated by blanks, whose
`xmltodict` reading appends `normKvs kvs` -/
def EntriesOut (cfg : Cfg) (kvs : List (Str × Val)) (ne : Bool) (out : Str) : Prop :=
  ∃ pre core w ks, out = pre ++ core ∧ (∀ c ∈ pre, c = ' ' ∨ (ne = true ∧ c = '\n')) ∧
    (kvs = [] → out = []) ∧ (kvs ≠ [] → ∃ tl, core = '<' :: tl) ∧ Blank w ∧ ReadsIn core w ks ∧
    (∀ acc, (∀ p ∈ kvs, ∀ q ∈ acc, q.1 ≠ p.1) → kidsOf ks acc = acc ++ normKvs cfg kvs)

theorem openclose_shape (k inner : Str) :
    openTag k [] ++ inner ++ closeTag k = '<' :: k ++ ('>' :: inner ++ '<' :: '/' :: k) ++ ['>'] := by
  simp [openTag, closeTag]

theorem empty_shape (k : Str) : emptyTag k [] = '<' :: k ++ ['/'] ++ ['>'] := by
  simp [emptyTag]

theorem EntryOut.leaf {cfg : Cfg} {k : Str} {v : Val} {indent : Nat} {txt r : Str} (hk : isName k = true)
    (hr : ReadsIn txt r []) (hv : valOf (Elem.mk k r []) = normalise cfg v) :
    EntryOut cfg k v indent (openTag k [] ++ txt ++ closeTag k) := by
  refine ⟨[], '>' :: txt ++ '<' :: '/' :: k, r, [], ?_, Or.inl rfl, ?_, hv⟩
  · rw [openclose_shape]; rfl
  · rw [← openclose_shape]; exact ReadsElem.elem hk hr

theorem EntryOut.emptyElem {cfg : Cfg} {k : Str} {v : Val} {indent : Nat} (hk : isName k = true)
    (hv : normalise cfg v = Val.none) : EntryOut cfg k v indent (emptyTag k []) := by
  refine ⟨[], ['/'], [], [], ?_, Or.inl rfl, ?_, ?_⟩
  · rw [empty_shape]; rfl
  · rw [← empty_shape]; exact ReadsElem.empty hk
  · rw [hv, valOf_leaf]; rfl

theorem EntryOut.num {cfg : Cfg} {k : Str} {v : Val} {indent : Nat} {r : Str} (hk : isName k = true)
    (hr : NumLex r) (hv : normalise cfg v = Val.str r) :
    EntryOut cfg k v indent (openTag k [] ++ r ++ closeTag k) :=
  EntryOut.leaf hk hr.reads (by rw [valOf_num k r hr, hv])

theorem EntryOut.str {cfg : Cfg} (hcfg : cfgOk cfg = true) {k : Str} {indent inc : Nat} {s : Str}
    (hk : isName k = true) (hs : isXmlText s = true) :
    EntryOut cfg k (Val.str s) indent (strElem cfg inc k indent s) := by
  have htb : tableOk cfg.table = true := by
    simp only [cfgOk, Bool.and_eq_true] at hcfg; exact hcfg.1.1
  unfold strElem
  by_cases hc : isCdataValue cfg s = true
  · simp only [hc, if_true]
    obtain ⟨a, b, ha, hb, hread⟩ := ReadsIn.cdataValue hcfg hc hs
    have h1 : ReadsIn (['\n'] ++ spaces (indent + inc)) (['\n'] ++ spaces (indent + inc)) [] :=
      ReadsIn.blank (blank_nl.append (blank_spaces _))
    have h2 : ReadsIn (['\n'] ++ spaces indent) (['\n'] ++ spaces indent) [] :=
      ReadsIn.blank (blank_nl.append (blank_spaces _))
    have h := ReadsIn.append (ReadsIn.append h1 hread) h2
    have hshape : ['\n'] ++ spaces (indent + inc) ++ s ++ ['\n'] ++ spaces indent
        = (['\n'] ++ spaces (indent + inc) ++ s) ++ (['\n'] ++ spaces indent) := by simp [List.append_assoc]
    rw [hshape]
    refine EntryOut.leaf hk h ?_
    have hsur : stripWs ((['\n'] ++ spaces (indent + inc)) ++ (a ++ cdataInner (stripWs s) ++ b) ++ (['\n'] ++ spaces indent))
        = stripWs (cdataInner (stripWs s)) := by
      have := stripWs_surround ((['\n'] ++ spaces (indent + inc)) ++ a) (cdataInner (stripWs s)) (b ++ (['\n'] ++ spaces indent))
        ((blank_nl.append (blank_spaces _)).allSpace.append ha) (hb.append (blank_nl.append (blank_spaces _)).allSpace)
      simpa [List.append_assoc] using this
    rw [valOf_leaf, hsur]
    simp [normalise, normText, hc]
  · have hc' : isCdataValue cfg s = false := by simpa using hc
    simp only [hc', Bool.false_eq_true, if_false]
    refine EntryOut.leaf hk (ReadsIn.escape htb s hs) ?_
    rw [valOf_leaf]
    simp [normalise, normText, hc']

theorem attribs_names {lists : Bool} {kvs : List (Str × Val)} (h : shapedKvs lists kvs = true) : attribs kvs = .ok [] := by
  induction kvs with
  | nil => rfl
  | cons p kvs ih =>
    obtain ⟨k, v⟩ := p
    simp only [shapedKvs, Bool.and_eq_true] at h
    have hk : isAttrKey k = false := by
      obtain ⟨c, cs, rfl, hc, _⟩ := isName_cons h.1.1
      have : c ≠ '@' := by intro h'; subst h'; revert hc; decide
      simp [isAttrKey, startsWith, this]
    simp only [attribs, hk, Bool.false_eq_true, if_false]
    exact ih h.2

theorem normKvs_ne_nil {cfg : Cfg} {kvs : List (Str × Val)} (h : kvs ≠ []) : normKvs cfg kvs ≠ [] := by
  cases kvs with
  | nil => exact absurd rfl h
  | cons p kvs => obtain ⟨k, v⟩ := p; simp [normKvs]

theorem EntryOut.dict {cfg : Cfg} {k : Str} {c : Cls} {kvs : List (Str × Val)} {indent : Nat} {sub : Str}
    (hk : isName k = true) (hsub : EntriesOut cfg kvs false sub) :
    EntryOut cfg k (Val.dict c kvs) indent (dictElem cfg k indent sub []) := by
  obtain ⟨pre, core, w, ks, hout, hpre, hnil, hcons, hw, hread, hkids⟩ := hsub
  by_cases hkv : kvs = []
  · have hs0 : sub = [] := hnil hkv
    subst hkv
    rw [hs0]
    simp only [dictElem, List.isEmpty_nil, Bool.not_true, Bool.false_eq_true, if_false]
    exact EntryOut.emptyElem hk (by simp [normalise])
  · obtain ⟨tl, hcore⟩ := hcons hkv
    have hpre' : ∀ c ∈ pre, c = ' ' := by
      intro c hc
      rcases hpre c hc with h | h
      · exact h
      · exact absurd h.1 (by simp)
    have hpreB : Blank pre := fun c hc => Or.inl (hpre' c hc)
    have hsubne : sub.isEmpty = false := by
      rw [hout, hcore]; cases pre <;> simp
    have hk0 : kidsOf ks [] = normKvs cfg kvs := by
      have := hkids [] (by intro p _ q hq; simp at hq)
      simpa using this
    have hnorm : normalise cfg (Val.dict c kvs) = Val.dict .n0 (normKvs cfg kvs) := by
      have : kvs.isEmpty = false := by cases kvs <;> simp_all
      simp [normalise, this]
    simp only [dictElem, hsubne, Bool.not_false, if_true]
    by_cases hnl : sub.contains '\n' = true
    · simp only [hnl, if_true]
      -- multi-line layout
      have hin : ReadsIn (['\n'] ++ sub ++ ['\n'] ++ spaces indent) (['\n'] ++ (pre ++ w) ++ (['\n'] ++ spaces indent)) ks := by
        have h1 : ReadsIn sub (pre ++ w) ks := by
          rw [hout]
          have := ReadsIn.append (ReadsIn.blank hpreB) hread
          simpa using this
        have h2 := ReadsIn.append (ReadsIn.append (ReadsIn.blank blank_nl) h1) (ReadsIn.blank (blank_nl.append (blank_spaces indent)))
        simpa [List.append_assoc] using h2
      have hblank : Blank (['\n'] ++ (pre ++ w) ++ (['\n'] ++ spaces indent)) :=
        (blank_nl.append (hpreB.append hw)).append (blank_nl.append (blank_spaces indent))
      refine ⟨[], '>' :: (['\n'] ++ sub ++ ['\n'] ++ spaces indent) ++ '<' :: '/' :: k,
        ['\n'] ++ (pre ++ w) ++ (['\n'] ++ spaces indent), ks, ?_, Or.inl rfl, ?_, ?_⟩
      · simp [openTag, closeTag, List.append_assoc]
      · rw [← openclose_shape]; exact ReadsElem.elem hk hin
      · rw [hnorm]
        exact valOf_node _ _ _ _ hk0 (normKvs_ne_nil hkv) (stripWs_allSpace hblank.allSpace)
    · simp only [hnl, if_false]
      have hdrop : sub.dropWhile isPySpace = core := by
        rw [hout, dropWhile_all _ pre core (fun c hc => by rw [hpre' c hc]; decide), hcore]
        simp [List.dropWhile_cons, show isPySpace '<' = false by decide]
      rw [hdrop]
      refine ⟨if cfg.parm.contains k then spaces indent else [], '>' :: core ++ '<' :: '/' :: k, w, ks, ?_, ?_, ?_, ?_⟩
      · simp [openTag, closeTag, List.append_assoc]
      · split
        · exact Or.inr rfl
        · exact Or.inl rfl
      · rw [← openclose_shape]; exact ReadsElem.elem hk hread
      · rw [hnorm]
        exact valOf_node _ _ _ _ hk0 (normKvs_ne_nil hkv) (stripWs_allSpace hw.allSpace)

theorem EntriesOut.nil (cfg : Cfg) (ne : Bool) : EntriesOut cfg [] ne [] :=
  ⟨[], [], [], [], rfl, by intro c hc; simp at hc, fun _ => rfl, fun h => absurd rfl h, blank_nil, ReadsIn.nil,
    by intro acc _; simp [kidsOf, normKvs]⟩

theorem entryPrefix_chars (cfg : Cfg) (k : Str) (indent : Nat) (ne : Bool) :
    ∀ c ∈ entryPrefix cfg k indent ne, c = ' ' ∨ (ne = true ∧ c = '\n') := by
  intro c hc
  unfold entryPrefix at hc
  split at hc
  · rcases List.mem_append.1 hc with h | h
    · cases ne with
      | true => simp at h; exact Or.inr ⟨rfl, h⟩
      | false => simp at h
    · exact Or.inl (List.mem_replicate.1 h).2
  · simp at hc

theorem EntriesOut.cons {cfg : Cfg} {k : Str} {v : Val} {rest : List (Str × Val)} {indent : Nat} {ne : Bool}
    {body r : Str} (hb : EntryOut cfg k v indent body) (hr : EntriesOut cfg rest true r)
    (hfresh : ∀ p ∈ rest, p.1 ≠ k) :
    EntriesOut cfg ((k, v) :: rest) ne (entryPrefix cfg k indent ne ++ body ++ r) := by
  obtain ⟨bpre, tl, d, ks, hbody, hbpre, hre, hval⟩ := hb
  obtain ⟨pre2, core2, w2, ks2, hout2, hpre2, _, _, hw2, hread2, hkids2⟩ := hr
  have hpre2B : Blank pre2 := by
    intro c hc
    rcases hpre2 c hc with h | h
    · exact Or.inl h
    · exact Or.inr h.2
  refine ⟨entryPrefix cfg k indent ne ++ bpre, ('<' :: k ++ tl ++ ['>']) ++ (pre2 ++ core2), pre2 ++ w2,
    Elem.mk k d ks :: ks2, ?_, ?_, ?_, ?_, hpre2B.append hw2, ?_, ?_⟩
  · rw [hbody, hout2]; simp [List.append_assoc]
  · intro c hc
    rcases List.mem_append.1 hc with h | h
    · exact entryPrefix_chars cfg k indent ne c h
    · rcases hbpre with h0 | h0
      · rw [h0] at h; simp at h
      · rw [h0] at h; exact Or.inl (List.mem_replicate.1 h).2
  · intro h; simp at h
  · intro _; exact ⟨k ++ tl ++ ['>'] ++ (pre2 ++ core2), by simp [List.append_assoc]⟩
  · have h1 := ReadsIn.append hre.readsIn (ReadsIn.append (ReadsIn.blank hpre2B) hread2)
    simpa using h1
  · intro acc hacc
    rw [kidsOf_cons, hval]
    rw [pushData_fresh k _ acc (fun q hq => hacc (k, v) (by simp) q hq)]
    rw [hkids2 (acc ++ [(k, normalise cfg v)])]
    · simp [normKvs, List.append_assoc]
    · intro p hp q hq
      rcases List.mem_append.1 hq with h | h
      · exact hacc p (by simp [hp]) q h
      · have : q = (k, normalise cfg v) := by simpa using h
        rw [this]
        exact fun h' => hfresh p hp h'.symm

theorem keysNodup_cons {k : Str} {v : Val} {rest : List (Str × Val)} (h : keysNodup ((k, v) :: rest) = true) :
    (∀ p ∈ rest, p.1 ≠ k) ∧ keysNodup rest = true := by
  simp only [keysNodup, Bool.and_eq_true, Bool.not_eq_true', List.any_eq_false, decide_eq_true_eq] at h
  exact ⟨fun p hp => h.1 p hp, h.2⟩

/-! ### the declaration and the document level -/

theorem dropPrefix?_append (p r : Str) : dropPrefix? (p ++ r) p = some r := by
  induction p with
  | nil => cases r <;> rfl
  | cons c p ih => simp [dropPrefix?, ih]

theorem takeWhile_append_stop {α} (p : α → Bool) (a : List α) (x : α) (r : List α) (ha : ∀ y ∈ a, p y = true)
    (hx : p x = false) : (a ++ x :: r).takeWhile p = a ∧ (a ++ x :: r).dropWhile p = x :: r := by
  induction a with
  | nil => simp [hx]
  | cons y a ih =>
    have hy := ha y (by simp)
    have := ih (fun z hz => ha z (by simp [hz]))
    simp [hy, this.1, this.2]

theorem stripDecl_nodecl (c : Char) (tl : Str) (hc : c ≠ '?') : stripDecl ('<' :: c :: tl) = .ok ('<' :: c :: tl) := by
  simp [stripDecl, dropPrefix?, hc]

theorem stripDecl_decl (q e0 : Char) (es X : Str) (hq : q = '"' ∨ q = '\'') (he0 : isEncStart e0 = true)
    (hes : ∀ c ∈ es, isEncChar c = true) :
    stripDecl (declHead ++ [q] ++ ['1', '.', '0'] ++ [q] ++ declEnc ++ [q] ++ (e0 :: es) ++ [q] ++ ['?', '>', '\n'] ++ X)
      = .ok ('\n' :: X) := by
  have hqenc : isEncChar q = false := by rcases hq with rfl | rfl <;> decide
  have he0c : isEncChar e0 = true := by
    simp only [isEncStart] at he0
    simp [isEncChar, he0]
  have hall : ∀ c ∈ e0 :: es, isEncChar c = true := by
    intro c hc
    rcases List.mem_cons.1 hc with rfl | h
    · exact he0c
    · exact hes c h
  obtain ⟨ht, hd⟩ := takeWhile_append_stop isEncChar (e0 :: es) q (['?', '>', '\n'] ++ X) hall hqenc
  have hshape : declHead ++ [q] ++ ['1', '.', '0'] ++ [q] ++ declEnc ++ [q] ++ (e0 :: es) ++ [q] ++ ['?', '>', '\n'] ++ X
      = declHead ++ (q :: ((['1', '.', '0', q] ++ declEnc ++ [q]) ++ ((e0 :: es) ++ q :: (['?', '>', '\n'] ++ X)))) := by
    simp [List.append_assoc]
  rw [hshape]
  unfold stripDecl
  have h1 : dropPrefix? (declHead ++ (q :: ((['1', '.', '0', q] ++ declEnc ++ [q]) ++ ((e0 :: es) ++ q :: (['?', '>', '\n'] ++ X))))) ['<', '?']
      = some (['x', 'm', 'l', ' ', 'v', 'e', 'r', 's', 'i', 'o', 'n', '='] ++ (q :: ((['1', '.', '0', q] ++ declEnc ++ [q]) ++ ((e0 :: es) ++ q :: (['?', '>', '\n'] ++ X))))) := by
    simp [declHead, dropPrefix?]
  rw [h1]
  simp only
  rw [dropPrefix?_append]
  simp only
  have hq' : (q = '"' || q = '\'') = true := by rcases hq with rfl | rfl <;> decide
  rw [if_pos (by simpa using hq')]
  rw [dropPrefix?_append]
  simp only
  rw [ht, hd]
  simp [he0, dropPrefix?]

theorem run_doc_nl (cur : Frame) (rb : Nat) (s : Str) :
    run ⟨cur, [], .text rb⟩ ('\n' :: s) = run ⟨cur, [], .text 0⟩ s := by
  simp [run, step, stepText, isXmlSpace]

theorem xmlRead_of_elem (s : Str) (e : Elem) (c : Char) (tl : Str) (hs : s = '<' :: c :: tl) (hc : c ≠ '?')
    (h : ReadsElem s e) : xmlRead s = .ok e := by
  unfold xmlRead
  rw [hs, stripDecl_nodecl c tl hc, ← hs]
  have := h docFrame [] 0 (fun _ => rfl)
  simp only [bind, Except.bind, RSt.init]
  rw [this]
  simp [finish, docFrame]

theorem xmlRead_decl_elem (q e0 : Char) (es s : Str) (e : Elem) (hq : q = '"' ∨ q = '\'') (he0 : isEncStart e0 = true)
    (hes : ∀ c ∈ es, isEncChar c = true) (h : ReadsElem s e) :
    xmlRead (declHead ++ [q] ++ ['1', '.', '0'] ++ [q] ++ declEnc ++ [q] ++ (e0 :: es) ++ [q] ++ ['?', '>', '\n'] ++ s) = .ok e := by
  unfold xmlRead
  rw [stripDecl_decl q e0 es s hq he0 hes]
  have := h docFrame [] 0 (fun _ => rfl)
  simp only [bind, Except.bind, RSt.init]
  rw [run_doc_nl, this]
  simp [finish, docFrame]

theorem loadXml_of_read {s : Str} {e : Elem} (hstrip : stripWs s = s) (hlt : ∃ tl, s = '<' :: tl) (h : xmlRead s = .ok e) :
    loadXml s = .ok (xmltodictOf e) := by
  obtain ⟨tl, rfl⟩ := hlt
  unfold loadXml
  simp only [hstrip]
  rw [h]

end N0.Xml
