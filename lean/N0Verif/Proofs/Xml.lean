import N0Verif.Model.Xml
/-! Helper lemmas for C12: the reader machine on the fragments the writer emits. -/
set_option linter.unusedSimpArgs false
set_option linter.unusedVariables false
namespace N0.Xml
open N0 N0.Py

/-! ### run -/

theorem run_append_ok {st st' : RSt} {a : Str} (b : Str) (h : run st a = .ok st') :
    run st (a ++ b) = run st' b := by
  induction a generalizing st with
  | nil => simp [run] at h; subst h; rfl
  | cons c a ih =>
    simp only [List.cons_append, run] at h ⊢
    cases hs : step st c with
    | error e => rw [hs] at h; simp at h
    | ok s1 => rw [hs] at h; simp only at h ⊢; exact ih h

/-! ### character classes -/

/-- character data that the machine copies as is -/
def Plain (c : Char) : Prop := isXmlChar c = true ∧ c ≠ '<' ∧ c ≠ '&' ∧ c ≠ '>'

def Blank (w : Str) : Prop := ∀ c ∈ w, c = ' ' ∨ c = '\n'

theorem plain_space : Plain ' ' := by unfold Plain; decide
theorem plain_nl : Plain '\n' := by unfold Plain; decide

theorem Blank.plain {w : Str} (h : Blank w) : ∀ c ∈ w, Plain c := by
  intro c hc
  rcases h c hc with rfl | rfl
  · exact plain_space
  · exact plain_nl

theorem Blank.append {a b : Str} (ha : Blank a) (hb : Blank b) : Blank (a ++ b) := by
  intro c hc
  rcases List.mem_append.1 hc with h | h
  · exact ha c h
  · exact hb c h

theorem blank_spaces (n : Nat) : Blank (spaces n) := by
  intro c hc
  left
  exact (List.mem_replicate.1 hc).2

theorem blank_nl : Blank ['\n'] := by
  intro c hc; right; simpa using hc

theorem blank_nil : Blank [] := by intro c hc; simp at hc

/-! ### reading inside an element -/

/-- `s`, read as content of an open element, adds `w` to its character data and `ks` to its children -/
def ReadsIn (s w : Str) (ks : List Elem) : Prop :=
  ∀ (cur : Frame) (stack : List Frame) (rb : Nat), stack ≠ [] →
    ∃ rb', run ⟨cur, stack, .text rb⟩ s = .ok ⟨⟨cur.name, cur.data ++ w, cur.kids ++ ks⟩, stack, .text rb'⟩

/-- `s` is one element `e`, wherever an element may start -/
def ReadsElem (s : Str) (e : Elem) : Prop :=
  ∀ (cur : Frame) (stack : List Frame) (rb : Nat), (stack = [] → cur.kids = []) →
    run ⟨cur, stack, .text rb⟩ s = .ok ⟨⟨cur.name, cur.data, cur.kids ++ [e]⟩, stack, .text 0⟩

theorem ReadsIn.nil : ReadsIn [] [] [] := by
  intro cur stack rb _
  exact ⟨rb, by simp [run]⟩

theorem ReadsIn.append {s1 s2 w1 w2 : Str} {k1 k2 : List Elem}
    (h1 : ReadsIn s1 w1 k1) (h2 : ReadsIn s2 w2 k2) : ReadsIn (s1 ++ s2) (w1 ++ w2) (k1 ++ k2) := by
  intro cur stack rb hs
  obtain ⟨rb1, e1⟩ := h1 cur stack rb hs
  obtain ⟨rb2, e2⟩ := h2 ⟨cur.name, cur.data ++ w1, cur.kids ++ k1⟩ stack rb1 hs
  refine ⟨rb2, ?_⟩
  rw [run_append_ok _ e1, e2]
  simp [List.append_assoc]

theorem ReadsElem.readsIn {s : Str} {e : Elem} (h : ReadsElem s e) : ReadsIn s [] [e] := by
  intro cur stack rb hs
  refine ⟨0, ?_⟩
  rw [h cur stack rb (fun h0 => absurd h0 hs)]
  simp

theorem stepText_plain (cur : Frame) (stack : List Frame) (rb : Nat) (hs : stack ≠ []) (c : Char) (hc : Plain c) :
    ∃ rb', step ⟨cur, stack, .text rb⟩ c = .ok ⟨⟨cur.name, cur.data ++ [c], cur.kids⟩, stack, .text rb'⟩ := by
  obtain ⟨hx, h1, h2, h3⟩ := hc
  have hne : stack.isEmpty = false := by cases stack <;> simp_all
  have hcr : c ≠ '\r' := by
    intro h; subst h; revert hx; decide
  by_cases hb : c = ']'
  · exact ⟨rb + 1, by simp [step, stepText, h1, h2, h3, hne, hb, addData]⟩
  · exact ⟨0, by simp [step, stepText, h1, h2, h3, hne, hb, hcr, hx, addData]⟩

theorem ReadsIn.plain (s : Str) (h : ∀ c ∈ s, Plain c) : ReadsIn s s [] := by
  induction s with
  | nil => exact ReadsIn.nil
  | cons c s ih =>
    intro cur stack rb hs
    obtain ⟨rb1, e1⟩ := stepText_plain cur stack rb hs c (h c (by simp))
    obtain ⟨rb2, e2⟩ := ih (fun d hd => h d (by simp [hd])) ⟨cur.name, cur.data ++ [c], cur.kids⟩ stack rb1 hs
    refine ⟨rb2, ?_⟩
    simp only [run, e1, e2]
    simp [List.append_assoc]

theorem ReadsIn.blank {w : Str} (h : Blank w) : ReadsIn w w [] := ReadsIn.plain w h.plain

/-! ### names and tags -/

theorem isName_cons {k : Str} (h : isName k = true) :
    ∃ c cs, k = c :: cs ∧ isNameStart c = true ∧ ∀ d ∈ cs, isNameChar d = true := by
  cases k with
  | nil => simp [isName] at h
  | cons c cs =>
    refine ⟨c, cs, rfl, ?_, ?_⟩
    · simp only [isName, Bool.and_eq_true] at h
      simpa [isNameStart] using h.1
    · intro d hd
      simp only [isName, Bool.and_eq_true, List.all_eq_true] at h
      have := h.2 d hd
      simp only [isNameChar, isNameStart]
      simp only [Bool.or_eq_true, decide_eq_true_eq] at this ⊢
      rcases this with (((h1 | h1) | h1) | h1) | h1
      · exact Or.inl (Or.inl (Or.inl (Or.inl h1)))
      · exact Or.inl (Or.inl (Or.inr h1))
      · exact Or.inl (Or.inl (Or.inl (Or.inr h1)))
      · exact Or.inl (Or.inr h1)
      · exact Or.inr h1

theorem run_otag (cur : Frame) (stack : List Frame) (acc cs rest : Str) (h : ∀ d ∈ cs, isNameChar d = true) :
    run ⟨cur, stack, .otag acc⟩ (cs ++ rest) = run ⟨cur, stack, .otag (acc ++ cs)⟩ rest := by
  induction cs generalizing acc with
  | nil => simp
  | cons c cs ih =>
    have hc := h c (by simp)
    simp only [List.cons_append, run, step, stepOtag, hc, if_true]
    rw [ih (acc ++ [c]) (fun d hd => h d (by simp [hd]))]
    simp [List.append_assoc]

theorem run_ctag (cur : Frame) (stack : List Frame) (acc cs rest : Str) (h : ∀ d ∈ cs, isNameChar d = true) :
    run ⟨cur, stack, .ctag acc⟩ (cs ++ rest) = run ⟨cur, stack, .ctag (acc ++ cs)⟩ rest := by
  induction cs generalizing acc with
  | nil => simp
  | cons c cs ih =>
    have hc := h c (by simp)
    simp only [List.cons_append, run, step, stepCtag, hc, if_true]
    rw [ih (acc ++ [c]) (fun d hd => h d (by simp [hd]))]
    simp [List.append_assoc]

theorem nameStart_facts {c : Char} (h : isNameStart c = true) : c ≠ '/' ∧ c ≠ '!' ∧ c ≠ '?' ∧ c ≠ '>' := by
  refine ⟨?_, ?_, ?_, ?_⟩ <;> (intro hc; subst hc; revert h; decide)

theorem run_open (cur : Frame) (stack : List Frame) (rb : Nat) (k rest : Str) (hk : isName k = true)
    (hroot : stack = [] → cur.kids = []) :
    run ⟨cur, stack, .text rb⟩ (openTag k [] ++ rest) = run ⟨⟨k, [], []⟩, cur :: stack, .text 0⟩ rest := by
  obtain ⟨c, cs, rfl, hc, hcs⟩ := isName_cons hk
  obtain ⟨n1, n2, n3, n4⟩ := nameStart_facts hc
  have hpush : (stack.isEmpty && !cur.kids.isEmpty) = false := by
    cases stack with
    | nil => simp [hroot rfl]
    | cons a b => simp
  simp only [openTag, List.cons_append, List.append_nil, run, step, stepText, if_true, stepLt, n1, n2, n3, hc, if_false]
  rw [List.append_assoc, run_otag cur stack [c] cs _ hcs]
  have hgt : isNameChar '>' = false := by decide
  simp [run, step, stepOtag, hgt, pushElem, hpush]

theorem run_empty (cur : Frame) (stack : List Frame) (rb : Nat) (k rest : Str) (hk : isName k = true)
    (hroot : stack = [] → cur.kids = []) :
    run ⟨cur, stack, .text rb⟩ (emptyTag k [] ++ rest)
      = run ⟨⟨cur.name, cur.data, cur.kids ++ [Elem.mk k [] []]⟩, stack, .text 0⟩ rest := by
  obtain ⟨c, cs, rfl, hc, hcs⟩ := isName_cons hk
  obtain ⟨n1, n2, n3, n4⟩ := nameStart_facts hc
  have hpush : (stack.isEmpty && !cur.kids.isEmpty) = false := by
    cases stack with
    | nil => simp [hroot rfl]
    | cons a b => simp
  simp only [emptyTag, List.cons_append, List.append_nil, run, step, stepText, if_true, stepLt, n1, n2, n3, hc, if_false]
  rw [List.append_assoc, run_otag cur stack [c] cs _ hcs]
  have hsl : isNameChar '/' = false := by decide
  simp [run, step, stepOtag, hsl, stepOslash, emptyElem, hpush]

theorem run_close (k d : Str) (ks : List Elem) (parent : Frame) (stack : List Frame) (rb : Nat) (rest : Str)
    (hk : isName k = true) :
    run ⟨⟨k, d, ks⟩, parent :: stack, .text rb⟩ (closeTag k ++ rest)
      = run ⟨⟨parent.name, parent.data, parent.kids ++ [Elem.mk k d ks]⟩, stack, .text 0⟩ rest := by
  obtain ⟨c, cs, rfl, hc, hcs⟩ := isName_cons hk
  simp only [closeTag, List.cons_append, run, step, stepText, if_true, stepLt, stepCtag0, hc]
  rw [List.append_assoc, run_ctag _ _ [c] cs _ hcs]
  have hgt : isNameChar '>' = false := by decide
  simp [run, step, stepCtag, hgt, popElem]

theorem ReadsElem.elem {k body w : Str} {ks : List Elem} (hk : isName k = true) (hb : ReadsIn body w ks) :
    ReadsElem (openTag k [] ++ body ++ closeTag k) (Elem.mk k w ks) := by
  intro cur stack rb hroot
  rw [List.append_assoc, run_open cur stack rb k _ hk hroot]
  obtain ⟨rb', e⟩ := hb ⟨k, [], []⟩ (cur :: stack) 0 (by simp)
  rw [run_append_ok _ e]
  have := run_close k ([] ++ w) ([] ++ ks) cur stack rb' [] hk
  simp only [List.append_nil] at this
  rw [this]
  simp [run]

theorem ReadsElem.empty {k : Str} (hk : isName k = true) : ReadsElem (emptyTag k []) (Elem.mk k [] []) := by
  intro cur stack rb hroot
  have := run_empty cur stack rb k [] hk hroot
  simp only [List.append_nil] at this
  rw [this]
  simp [run]

end N0.Xml
