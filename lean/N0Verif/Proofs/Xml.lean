import N0Verif.Model.Xml
/-! Helper lemmas for C12: the reader machine on the fragments the writer emits. -/
set_option linter.unusedSimpArgs false
set_option linter.unusedVariables false
namespace N0.Xml
open N0 N0.Py

/-! ### run -/

theorem run_append_ok {st st' : RSt} {a : Str} (b : Str) (h : run st a = .ok st') :
    run st (a ++ b) = run st' b := by
  induction a generalizing st with
  | nil => simp [run] at h; subst h; rfl
  | cons c a ih =>
    simp only [List.cons_append, run] at h ⊢
    cases hs : step st c with
    | error e => rw [hs] at h; simp at h
    | ok s1 => rw [hs] at h; simp only at h ⊢; exact ih h

/-! ### character classes -/

/-- character data that the machine copies as is -/
def Plain (c : Char) : Prop := isXmlChar c = true ∧ c ≠ '<' ∧ c ≠ '&' ∧ c ≠ '>'

def Blank (w : Str) : Prop := ∀ c ∈ w, c = ' ' ∨ c = '\n'

theorem plain_space : Plain ' ' := by unfold Plain; decide
theorem plain_nl : Plain '\n' := by unfold Plain; decide

theorem Blank.plain {w : Str} (h : Blank w) : ∀ c ∈ w, Plain c := by
  intro c hc
  rcases h c hc with rfl | rfl
  · exact plain_space
  · exact plain_nl

theorem Blank.append {a b : Str} (ha : Blank a) (hb : Blank b) : Blank (a ++ b) := by
  intro c hc
  rcases List.mem_append.1 hc with h | h
  · exact ha c h
  · exact hb c h

theorem blank_spaces (n : Nat) : Blank (spaces n) := by
  intro c hc
  left
  exact (List.mem_replicate.1 hc).2

theorem blank_nl : Blank ['\n'] := by
  intro c hc; right; simpa using hc

theorem blank_nil : Blank [] := by intro c hc; simp at hc

/-! ### reading inside an element -/

/-- `s`, read as content of an open element, adds `w` to its character data and `ks` to its children -/
def ReadsIn (s w : Str) (ks : List Elem) : Prop :=
  ∀ (cur : Frame) (stack : List Frame) (rb : Nat), stack ≠ [] →
    ∃ rb', run ⟨cur, stack, .text rb⟩ s = .ok ⟨⟨cur.name, cur.data ++ w, cur.kids ++ ks⟩, stack, .text rb'⟩

/-- `s` is one element `e`, wherever an element may start -/
def ReadsElem (s : Str) (e : Elem) : Prop :=
  ∀ (cur : Frame) (stack : List Frame) (rb : Nat), (stack = [] → cur.kids = []) →
    run ⟨cur, stack, .text rb⟩ s = .ok ⟨⟨cur.name, cur.data, cur.kids ++ [e]⟩, stack, .text 0⟩

theorem ReadsIn.nil : ReadsIn [] [] [] := by
  intro cur stack rb _
  exact ⟨rb, by simp [run]⟩

theorem ReadsIn.append {s1 s2 w1 w2 : Str} {k1 k2 : List Elem}
    (h1 : ReadsIn s1 w1 k1) (h2 : ReadsIn s2 w2 k2) : ReadsIn (s1 ++ s2) (w1 ++ w2) (k1 ++ k2) := by
  intro cur stack rb hs
  obtain ⟨rb1, e1⟩ := h1 cur stack rb hs
  obtain ⟨rb2, e2⟩ := h2 ⟨cur.name, cur.data ++ w1, cur.kids ++ k1⟩ stack rb1 hs
  refine ⟨rb2, ?_⟩
  rw [run_append_ok _ e1, e2]
  simp [List.append_assoc]

theorem ReadsElem.readsIn {s : Str} {e : Elem} (h : ReadsElem s e) : ReadsIn s [] [e] := by
  intro cur stack rb hs
  refine ⟨0, ?_⟩
  rw [h cur stack rb (fun h0 => absurd h0 hs)]
  simp

theorem stepText_plain (cur : Frame) (stack : List Frame) (rb : Nat) (hs : stack ≠ []) (c : Char) (hc : Plain c) :
    ∃ rb', step ⟨cur, stack, .text rb⟩ c = .ok ⟨⟨cur.name, cur.data ++ [c], cur.kids⟩, stack, .text rb'⟩ := by
  obtain ⟨hx, h1, h2, h3⟩ := hc
  have hne : stack.isEmpty = false := by cases stack <;> simp_all
  have hcr : c ≠ '\r' := by
    intro h; subst h; revert hx; decide
  by_cases hb : c = ']'
  · exact ⟨rb + 1, by simp [step, stepText, h1, h2, h3, hne, hb, addData]⟩
  · exact ⟨0, by simp [step, stepText, h1, h2, h3, hne, hb, hcr, hx, addData]⟩

theorem ReadsIn.plain (s : Str) (h : ∀ c ∈ s, Plain c) : ReadsIn s s [] := by
  induction s with
  | nil => exact ReadsIn.nil
  | cons c s ih =>
    intro cur stack rb hs
    obtain ⟨rb1, e1⟩ := stepText_plain cur stack rb hs c (h c (by simp))
    obtain ⟨rb2, e2⟩ := ih (fun d hd => h d (by simp [hd])) ⟨cur.name, cur.data ++ [c], cur.kids⟩ stack rb1 hs
    refine ⟨rb2, ?_⟩
    simp only [run, e1, e2]
    simp [List.append_assoc]

theorem ReadsIn.blank {w : Str} (h : Blank w) : ReadsIn w w [] := ReadsIn.plain w h.plain

/-! ### names and tags -/

theorem isName_cons {k : Str} (h : isName k = true) :
    ∃ c cs, k = c :: cs ∧ isNameStart c = true ∧ ∀ d ∈ cs, isNameChar d = true := by
  cases k with
  | nil => simp [isName] at h
  | cons c cs =>
    refine ⟨c, cs, rfl, ?_, ?_⟩
    · simp only [isName, Bool.and_eq_true] at h
      simpa [isNameStart] using h.1
    · intro d hd
      simp only [isName, Bool.and_eq_true, List.all_eq_true] at h
      have := h.2 d hd
      simp only [isNameChar, isNameStart]
      simp only [Bool.or_eq_true, decide_eq_true_eq] at this ⊢
      rcases this with (((h1 | h1) | h1) | h1) | h1
      · exact Or.inl (Or.inl (Or.inl (Or.inl h1)))
      · exact Or.inl (Or.inl (Or.inr h1))
      · exact Or.inl (Or.inl (Or.inl (Or.inr h1)))
      · exact Or.inl (Or.inr h1)
      · exact Or.inr h1

theorem run_otag (cur : Frame) (stack : List Frame) (acc cs rest : Str) (h : ∀ d ∈ cs, isNameChar d = true) :
    run ⟨cur, stack, .otag acc⟩ (cs ++ rest) = run ⟨cur, stack, .otag (acc ++ cs)⟩ rest := by
  induction cs generalizing acc with
  | nil => simp
  | cons c cs ih =>
    have hc := h c (by simp)
    simp only [List.cons_append, run, step, stepOtag, hc, if_true]
    rw [ih (acc ++ [c]) (fun d hd => h d (by simp [hd]))]
    simp [List.append_assoc]

theorem run_ctag (cur : Frame) (stack : List Frame) (acc cs rest : Str) (h : ∀ d ∈ cs, isNameChar d = true) :
    run ⟨cur, stack, .ctag acc⟩ (cs ++ rest) = run ⟨cur, stack, .ctag (acc ++ cs)⟩ rest := by
  induction cs generalizing acc with
  | nil => simp
  | cons c cs ih =>
    have hc := h c (by simp)
    simp only [List.cons_append, run, step, stepCtag, hc, if_true]
    rw [ih (acc ++ [c]) (fun d hd => h d (by simp [hd]))]
    simp [List.append_assoc]

theorem nameStart_facts {c : Char} (h : isNameStart c = true) : c ≠ '/' ∧ c ≠ '!' ∧ c ≠ '?' ∧ c ≠ '>' := by
  refine ⟨?_, ?_, ?_, ?_⟩ <;> (intro hc; subst hc; revert h; decide)

theorem run_open (cur : Frame) (stack : List Frame) (rb : Nat) (k rest : Str) (hk : isName k = true)
    (hroot : stack = [] → cur.kids = []) :
    run ⟨cur, stack, .text rb⟩ (openTag k [] ++ rest) = run ⟨⟨k, [], []⟩, cur :: stack, .text 0⟩ rest := by
  obtain ⟨c, cs, rfl, hc, hcs⟩ := isName_cons hk
  obtain ⟨n1, n2, n3, n4⟩ := nameStart_facts hc
  have hpush : (stack.isEmpty && !cur.kids.isEmpty) = false := by
    cases stack with
    | nil => simp [hroot rfl]
    | cons a b => simp
  simp only [openTag, List.cons_append, List.append_nil, run, step, stepText, if_true, stepLt, n1, n2, n3, hc, if_false]
  rw [List.append_assoc, run_otag cur stack [c] cs _ hcs]
  have hgt : isNameChar '>' = false := by decide
  simp [run, step, stepOtag, hgt, pushElem, hpush]

theorem run_empty (cur : Frame) (stack : List Frame) (rb : Nat) (k rest : Str) (hk : isName k = true)
    (hroot : stack = [] → cur.kids = []) :
    run ⟨cur, stack, .text rb⟩ (emptyTag k [] ++ rest)
      = run ⟨⟨cur.name, cur.data, cur.kids ++ [Elem.mk k [] []]⟩, stack, .text 0⟩ rest := by
  obtain ⟨c, cs, rfl, hc, hcs⟩ := isName_cons hk
  obtain ⟨n1, n2, n3, n4⟩ := nameStart_facts hc
  have hpush : (stack.isEmpty && !cur.kids.isEmpty) = false := by
    cases stack with
    | nil => simp [hroot rfl]
    | cons a b => simp
  simp only [emptyTag, List.cons_append, List.append_nil, run, step, stepText, if_true, stepLt, n1, n2, n3, hc, if_false]
  rw [List.append_assoc, run_otag cur stack [c] cs _ hcs]
  have hsl : isNameChar '/' = false := by decide
  simp [run, step, stepOtag, hsl, stepOslash, emptyElem, hpush]

theorem run_close (k d : Str) (ks : List Elem) (parent : Frame) (stack : List Frame) (rb : Nat) (rest : Str)
    (hk : isName k = true) :
    run ⟨⟨k, d, ks⟩, parent :: stack, .text rb⟩ (closeTag k ++ rest)
      = run ⟨⟨parent.name, parent.data, parent.kids ++ [Elem.mk k d ks]⟩, stack, .text 0⟩ rest := by
  obtain ⟨c, cs, rfl, hc, hcs⟩ := isName_cons hk
  simp only [closeTag, List.cons_append, run, step, stepText, if_true, stepLt, stepCtag0, hc]
  rw [List.append_assoc, run_ctag _ _ [c] cs _ hcs]
  have hgt : isNameChar '>' = false := by decide
  simp [run, step, stepCtag, hgt, popElem]

theorem ReadsElem.elem {k body w : Str} {ks : List Elem} (hk : isName k = true) (hb : ReadsIn body w ks) :
    ReadsElem (openTag k [] ++ body ++ closeTag k) (Elem.mk k w ks) := by
  intro cur stack rb hroot
  rw [List.append_assoc, run_open cur stack rb k _ hk hroot]
  obtain ⟨rb', e⟩ := hb ⟨k, [], []⟩ (cur :: stack) 0 (by simp)
  rw [run_append_ok _ e]
  have := run_close k ([] ++ w) ([] ++ ks) cur stack rb' [] hk
  simp only [List.append_nil] at this
  rw [this]
  simp [run]

theorem ReadsElem.empty {k : Str} (hk : isName k = true) : ReadsElem (emptyTag k []) (Elem.mk k [] []) := by
  intro cur stack rb hroot
  have := run_empty cur stack rb k [] hk hroot
  simp only [List.append_nil] at this
  rw [this]
  simp [run]

/-! ### escaped text -/

theorem lookupTab_mem {n : Nat} {tb : List (Nat × Str)} {e : Str} (h : lookupTab n tb = some e) : (n, e) ∈ tb := by
  induction tb with
  | nil => simp [lookupTab] at h
  | cons p tb ih =>
    obtain ⟨k, e'⟩ := p
    simp only [lookupTab] at h
    split at h
    · rename_i hk
      simp at h; subst h; subst hk; simp
    · exact List.mem_cons_of_mem _ (ih h)

theorem entryOk_cases {n : Nat} {e : Str} (h : entryOk (n, e) = true) :
    (n = 0x3C ∧ e = ['&', 'l', 't', ';']) ∨ (n = 0x3E ∧ e = ['&', 'g', 't', ';']) ∨
    (n = 0x26 ∧ e = ['&', 'a', 'm', 'p', ';']) ∨ (n = 0x22 ∧ e = ['&', 'q', 'u', 'o', 't', ';']) ∨
    (n = 0x27 ∧ e = ['&', 'a', 'p', 'o', 's', ';']) := by
  simp only [entryOk, predefined, List.any_cons, List.any_nil, Bool.or_false, Bool.or_eq_true,
    Bool.and_eq_true, decide_eq_true_eq, beq_iff_eq] at h
  rcases h with h | h | h | h | h
  · exact Or.inl ⟨h.1.symm, h.2⟩
  · exact Or.inr (Or.inl ⟨h.1.symm, h.2⟩)
  · exact Or.inr (Or.inr (Or.inl ⟨h.1.symm, h.2⟩))
  · exact Or.inr (Or.inr (Or.inr (Or.inl ⟨h.1.symm, h.2⟩)))
  · exact Or.inr (Or.inr (Or.inr (Or.inr ⟨h.1.symm, h.2⟩)))

theorem reads_entity (name : Str) (ch : Char) (c0 : Char) (cs : Str) (hname : name = c0 :: cs)
    (h0 : isNameStart c0 = true) (hcs : ∀ d ∈ cs, isNameChar d = true)
    (hdec : decodeEnt name predefined = some ch) :
    ReadsIn ('&' :: name ++ [';']) [ch] [] := by
  intro cur stack rb hs
  refine ⟨0, ?_⟩
  have hne : stack.isEmpty = false := by cases stack <;> simp_all
  subst hname
  have hsemi0 : c0 ≠ ';' := by intro h; subst h; revert h0; decide
  have hhash0 : c0 ≠ '#' := by intro h; subst h; revert h0; decide
  have key : ∀ (cs acc rest : Str), acc ≠ [] → (∀ d ∈ cs, isNameChar d = true) →
      run ⟨cur, stack, .ent acc⟩ (cs ++ rest) = run ⟨cur, stack, .ent (acc ++ cs)⟩ rest := by
    intro cs
    induction cs with
    | nil => intro acc rest _ _; simp
    | cons d cs ih =>
      intro acc rest hacc hd
      have hdn := hd d (by simp)
      have hsemi : d ≠ ';' := by intro h; subst h; revert hdn; decide
      have hhash : d ≠ '#' := by intro h; subst h; revert hdn; decide
      have hae : acc.isEmpty = false := by cases acc <;> simp_all
      have hstep : step ⟨cur, stack, .ent acc⟩ d = .ok ⟨cur, stack, .ent (acc ++ [d])⟩ := by
        simp [step, stepEnt, hsemi, hae, hdn, hhash]
      rw [List.cons_append, run, hstep]
      simp only
      rw [ih (acc ++ [d]) rest (by simp) (fun x hx => hd x (by simp [hx]))]
      simp [List.append_assoc]
  have hs1 : step ⟨cur, stack, .text rb⟩ '&' = .ok ⟨cur, stack, .ent []⟩ := by
    simp [step, stepText, hne]
  have hs2 : step ⟨cur, stack, .ent []⟩ c0 = .ok ⟨cur, stack, .ent [c0]⟩ := by
    simp [step, stepEnt, hsemi0, hhash0, h0]
  rw [List.cons_append, run, hs1]
  simp only
  rw [List.cons_append, run, hs2]
  simp only
  rw [key cs [c0] [';'] (by simp) hcs]
  simp [run, step, stepEnt, hdec, addData]

theorem ReadsIn.escChar {tb : List (Nat × Str)} (htb : tableOk tb = true) (c : Char) (hc : isXmlChar c = true) :
    ReadsIn (escChar tb c) [c] [] := by
  simp only [tableOk, Bool.and_eq_true, List.all_eq_true] at htb
  obtain ⟨⟨⟨hall, hlt⟩, hamp⟩, hgt⟩ := htb
  unfold Xml.escChar
  cases hl : lookupTab c.toNat tb with
  | some e =>
    simp only
    have hmem := lookupTab_mem hl
    have hok := hall _ hmem
    rcases entryOk_cases hok with ⟨hn, he⟩ | ⟨hn, he⟩ | ⟨hn, he⟩ | ⟨hn, he⟩ | ⟨hn, he⟩
    · have : c = '<' := Char.toNat_inj.1 (by rw [hn]; rfl)
      subst this; subst he
      exact reads_entity ['l', 't'] '<' 'l' ['t'] rfl (by decide) (by decide) (by decide)
    · have : c = '>' := Char.toNat_inj.1 (by rw [hn]; rfl)
      subst this; subst he
      exact reads_entity ['g', 't'] '>' 'g' ['t'] rfl (by decide) (by decide) (by decide)
    · have : c = '&' := Char.toNat_inj.1 (by rw [hn]; rfl)
      subst this; subst he
      exact reads_entity ['a', 'm', 'p'] '&' 'a' ['m', 'p'] rfl (by decide) (by decide) (by decide)
    · have : c = '"' := Char.toNat_inj.1 (by rw [hn]; rfl)
      subst this; subst he
      exact reads_entity ['q', 'u', 'o', 't'] '"' 'q' ['u', 'o', 't'] rfl (by decide) (by decide) (by decide)
    · have : c = '\'' := Char.toNat_inj.1 (by rw [hn]; rfl)
      subst this; subst he
      exact reads_entity ['a', 'p', 'o', 's'] '\'' 'a' ['p', 'o', 's'] rfl (by decide) (by decide) (by decide)
  | none =>
    simp only
    apply ReadsIn.plain
    intro d hd
    have : d = c := by simpa using hd
    subst this
    refine ⟨hc, ?_, ?_, ?_⟩
    · intro h; subst h; have h' : lookupTab 0x3C tb = none := hl; rw [h'] at hlt; simp at hlt
    · intro h; subst h; have h' : lookupTab 0x26 tb = none := hl; rw [h'] at hamp; simp at hamp
    · intro h; subst h; have h' : lookupTab 0x3E tb = none := hl; rw [h'] at hgt; simp at hgt

theorem ReadsIn.escape {tb : List (Nat × Str)} (htb : tableOk tb = true) (s : Str) (hs : isXmlText s = true) :
    ReadsIn (escape tb s) s [] := by
  induction s with
  | nil => exact ReadsIn.nil
  | cons c s ih =>
    simp only [isXmlText, List.all_cons, Bool.and_eq_true] at hs
    have h1 := ReadsIn.escChar htb c hs.1
    have h2 := ih (by simpa [isXmlText] using hs.2)
    have := ReadsIn.append h1 h2
    simpa [Xml.escape] using this

/-! ### `str.strip()` -/

def AllSpace (w : Str) : Prop := ∀ c ∈ w, isPySpace c = true

theorem AllSpace.append {a b : Str} (ha : AllSpace a) (hb : AllSpace b) : AllSpace (a ++ b) := by
  intro c hc
  rcases List.mem_append.1 hc with h | h
  · exact ha c h
  · exact hb c h

theorem Blank.allSpace {w : Str} (h : Blank w) : AllSpace w := by
  intro c hc
  rcases h c hc with rfl | rfl <;> decide

theorem dropWhile_all {α} (p : α → Bool) (e s : List α) (h : ∀ x ∈ e, p x = true) :
    (e ++ s).dropWhile p = s.dropWhile p := by
  induction e with
  | nil => rfl
  | cons x e ih =>
    have hx : p x = true := h x (by simp)
    simp [hx]
    exact ih (fun y hy => h y (by simp [hy]))

theorem dropWhile_nil_of_all {α} (p : α → Bool) (e : List α) (h : ∀ x ∈ e, p x = true) : e.dropWhile p = [] := by
  have := dropWhile_all p e [] h
  simpa using this

theorem dropWhile_append_of_cons {α} (p : α → Bool) (m b : List α) (x : α) (r : List α)
    (h : m.dropWhile p = x :: r) : (m ++ b).dropWhile p = x :: r ++ b := by
  induction m with
  | nil => simp at h
  | cons y m ih =>
    by_cases hy : p y = true
    · simp only [List.cons_append, List.dropWhile_cons, hy, if_true] at h ⊢
      exact ih h
    · simp only [List.cons_append, List.dropWhile_cons, hy] at h ⊢
      simp at h ⊢
      rw [← h.1, ← h.2]
      simp

theorem dropWhile_head_false {α} (p : α → Bool) (m : List α) (x : α) (r : List α)
    (h : m.dropWhile p = x :: r) : p x = false := by
  induction m with
  | nil => simp at h
  | cons y m ih =>
    by_cases hy : p y = true
    · simp only [List.dropWhile_cons, hy, if_true] at h; exact ih h
    · simp only [List.dropWhile_cons, hy] at h
      simp at h
      rw [← h.1]; simpa using hy

theorem all_of_dropWhile_nil {α} (p : α → Bool) (l : List α) (h : l.dropWhile p = []) : ∀ x ∈ l, p x = true := by
  induction l with
  | nil => intro x hx; simp at hx
  | cons y l ih =>
    by_cases hy : p y = true
    · simp only [List.dropWhile_cons, hy, if_true] at h
      intro x hx
      rcases List.mem_cons.1 hx with rfl | hx
      · exact hy
      · exact ih h x hx
    · simp [List.dropWhile_cons, hy] at h

theorem mem_takeWhile_true {α} (p : α → Bool) (l : List α) : ∀ x ∈ l.takeWhile p, p x = true := by
  induction l with
  | nil => intro x hx; simp at hx
  | cons y l ih =>
    intro x hx
    by_cases hy : p y = true
    · simp only [List.takeWhile_cons, hy, if_true] at hx
      rcases List.mem_cons.1 hx with rfl | hx
      · exact hy
      · exact ih x hx
    · simp [List.takeWhile_cons, hy] at hx

theorem split_rev_dropWhile {α} (p : α → Bool) (l : List α) :
    l = (l.reverse.dropWhile p).reverse ++ (l.reverse.takeWhile p).reverse := by
  have h2 : l.reverse.takeWhile p ++ l.reverse.dropWhile p = l.reverse := List.takeWhile_append_dropWhile
  calc l = l.reverse.reverse := by rw [List.reverse_reverse]
    _ = (l.reverse.takeWhile p ++ l.reverse.dropWhile p).reverse := by rw [h2]
    _ = _ := by rw [List.reverse_append]

theorem stripWs_allSpace {w : Str} (h : AllSpace w) : stripWs w = [] := by
  unfold stripWs
  rw [dropWhile_nil_of_all _ _ h]
  rfl

theorem stripWs_surround (a m b : Str) (ha : AllSpace a) (hb : AllSpace b) :
    stripWs (a ++ m ++ b) = stripWs m := by
  cases hm : m.dropWhile isPySpace with
  | nil =>
    have hmall : AllSpace m := by
      intro c hc
      exact all_of_dropWhile_nil _ _ hm c hc
    rw [stripWs_allSpace hmall, stripWs_allSpace ((ha.append hmall).append hb)]
  | cons x r =>
    unfold stripWs
    rw [List.append_assoc, dropWhile_all _ a _ ha, dropWhile_append_of_cons _ m b x r hm, hm]
    rw [List.reverse_append, dropWhile_all _ b.reverse _ (by intro c hc; exact hb c (by simpa using hc))]

theorem stripWs_id_of_ends (c d : Char) (m : Str) (hc : isPySpace c = false) (hd : isPySpace d = false) :
    stripWs (c :: m ++ [d]) = c :: m ++ [d] := by
  unfold stripWs
  simp [hc, hd, List.reverse_append]

theorem stripWs_decomp (s : Str) : ∃ a b, s = a ++ stripWs s ++ b ∧ AllSpace a ∧ AllSpace b := by
  refine ⟨s.takeWhile isPySpace, (((s.dropWhile isPySpace).reverse).takeWhile isPySpace).reverse, ?_, ?_, ?_⟩
  · unfold stripWs
    have h1 : s = s.takeWhile isPySpace ++ s.dropWhile isPySpace := (List.takeWhile_append_dropWhile).symm
    have h3 := split_rev_dropWhile isPySpace (s.dropWhile isPySpace)
    rw [List.append_assoc, ← h3, ← h1]
  · intro c hc
    exact mem_takeWhile_true _ _ c hc
  · intro c hc
    exact mem_takeWhile_true _ _ c (by simpa using hc)

theorem stripWs_noSpace (s : Str) (h : ∀ c ∈ s, isPySpace c = false) : stripWs s = s := by
  cases s with
  | nil => rfl
  | cons c m =>
    rcases List.eq_nil_or_concat m with rfl | ⟨m', d, rfl⟩
    · unfold stripWs; simp [h c (by simp)]
    · have := stripWs_id_of_ends c d m' (h c (by simp)) (h d (by simp))
      simpa using this

/-! ### CDATA -/

theorem startsWith_split {s p : Str} (h : startsWith s p = true) : ∃ r, s = p ++ r := by
  induction p generalizing s with
  | nil => exact ⟨s, rfl⟩
  | cons x p ih =>
    cases s with
    | nil => simp [startsWith] at h
    | cons c s =>
      simp only [startsWith, Bool.and_eq_true, beq_iff_eq] at h
      obtain ⟨r, hr⟩ := ih h.2
      exact ⟨r, by rw [h.1, hr]; rfl⟩

theorem isInfix_tail {p : Str} {c : Char} {s : Str} (h : isInfix p (c :: s) = false) : isInfix p s = false := by
  simp only [isInfix, Bool.or_eq_false_iff] at h
  exact h.2

theorem isInfix_head {p : Str} {c : Char} {s : Str} (h : isInfix p (c :: s) = false) : startsWith (c :: s) p = false := by
  simp only [isInfix, Bool.or_eq_false_iff] at h
  exact h.1

/-- inside a CDATA section: everything up to the first `]]>` is data -/
theorem run_cdata (cur : Frame) (stack : List Frame) (inner : Str) (rb : Nat)
    (hx : ∀ c ∈ inner, isXmlChar c = true)
    (hno : isInfix [']', ']', '>'] (List.replicate rb ']' ++ inner) = false) :
    run ⟨cur, stack, .cdata rb⟩ (inner ++ [']', ']', '>'])
      = .ok ⟨⟨cur.name, cur.data ++ (List.replicate rb ']' ++ inner), cur.kids⟩, stack, .text 0⟩ := by
  induction inner generalizing cur rb with
  | nil =>
    simp [run, step, stepCdata, addData]
  | cons c inner ih =>
    have hxc := hx c (by simp)
    have hx' : ∀ d ∈ inner, isXmlChar d = true := fun d hd => hx d (by simp [hd])
    by_cases hb : c = ']'
    · subst hb
      have hstep : step ⟨cur, stack, .cdata rb⟩ ']' = .ok ⟨cur, stack, .cdata (rb + 1)⟩ := by
        simp [step, stepCdata]
      rw [List.cons_append, run, hstep]
      simp only
      have hrep : List.replicate rb ']' ++ ']' :: inner = List.replicate (rb + 1) ']' ++ inner := by
        rw [List.replicate_succ', List.append_assoc]; rfl
      rw [ih cur (rb + 1) hx' (by rw [← hrep]; exact hno), hrep]
    · have hcr : c ≠ '\r' := by intro h; subst h; revert hxc; decide
      have hgt : ¬ (c = '>' ∧ rb ≥ 2) := by
        rintro ⟨h1, h2⟩
        subst h1
        -- `]]>` would start at position rb - 2
        have key : ∀ n (t : Str), isInfix [']', ']', '>'] (List.replicate (n + 2) ']' ++ '>' :: t) = true := by
          intro n t
          induction n with
          | zero => simp [isInfix, startsWith]
          | succ n ihn =>
            rw [List.replicate_succ, List.cons_append, isInfix, ihn]; simp
        obtain ⟨n, rfl⟩ : ∃ n, rb = n + 2 := ⟨rb - 2, by omega⟩
        rw [key n inner] at hno
        exact absurd hno (by simp)
      have hstep : step ⟨cur, stack, .cdata rb⟩ c
          = .ok ⟨⟨cur.name, cur.data ++ (List.replicate rb ']' ++ [c]), cur.kids⟩, stack, .cdata 0⟩ := by
        by_cases h1 : c = '>'
        · subst h1
          have : ¬ rb ≥ 2 := fun h => hgt ⟨rfl, h⟩
          simp [step, stepCdata, this, addData, hxc]
        · simp [step, stepCdata, hb, h1, hcr, hxc, addData]
      rw [List.cons_append, run, hstep]
      simp only
      have hno' : isInfix [']', ']', '>'] (List.replicate 0 ']' ++ inner) = false := by
        have : ∀ n, isInfix [']', ']', '>'] (List.replicate n ']' ++ c :: inner) = false → isInfix [']', ']', '>'] inner = false := by
          intro n
          induction n with
          | zero => intro h; exact isInfix_tail h
          | succ n ihn => intro h; rw [List.replicate_succ, List.cons_append] at h; exact ihn (isInfix_tail h)
        simpa using this rb hno
      rw [ih _ 0 hx' hno']
      simp [List.append_assoc]

theorem isPySpace_plain {c : Char} (h1 : isPySpace c = true) (h2 : isXmlChar c = true) : Plain c := by
  refine ⟨h2, ?_, ?_, ?_⟩ <;> (intro h; subst h; revert h1; decide)

/-- shape of a value that passes the CDATA test -/
theorem cdata_shape {cfg : Cfg} (hcfg : cfgOk cfg = true) {s : Str} (h : isCdataValue cfg s = true) :
    ∃ a inner b, s = a ++ (cfg.copen ++ inner ++ cfg.cclose) ++ b ∧ AllSpace a ∧ AllSpace b
      ∧ cdataInner (stripWs s) = inner ∧ isInfix [']', ']', '>'] inner = false := by
  simp only [cfgOk, Bool.and_eq_true, decide_eq_true_eq] at hcfg
  obtain ⟨⟨_, ho⟩, hc⟩ := hcfg
  simp only [isCdataValue, Bool.and_eq_true, Bool.not_eq_true'] at h
  obtain ⟨⟨h1, h2⟩, h3⟩ := h
  obtain ⟨a, b, hs, ha, hb⟩ := stripWs_decomp s
  obtain ⟨r, hr⟩ := startsWith_split h1
  rw [ho] at hr
  -- the closing marker lies inside `r`
  have hr3 : ∃ inner, r = inner ++ [']', ']', '>'] := by
    rw [hr, hc] at h2
    simp only [endsWith, List.reverse_append, List.reverse_cons, List.reverse_nil, List.nil_append, List.cons_append] at h2
    cases hrr : r.reverse with
    | nil => rw [hrr] at h2; simp [startsWith] at h2
    | cons x t =>
      cases t with
      | nil => rw [hrr] at h2; simp [startsWith] at h2
      | cons y t =>
        cases t with
        | nil => rw [hrr] at h2; simp [startsWith] at h2
        | cons z t =>
          rw [hrr] at h2
          simp only [List.cons_append, startsWith, Bool.and_eq_true, beq_iff_eq] at h2
          refine ⟨t.reverse, ?_⟩
          have := congrArg List.reverse hrr
          simp only [List.reverse_reverse, List.reverse_cons, List.append_assoc, List.cons_append, List.nil_append] at this
          rw [this, h2.1, h2.2.1, h2.2.2.1]
  obtain ⟨inner, hin⟩ := hr3
  have hinner : cdataInner (stripWs s) = inner := by
    rw [hr, hin]
    simp [cdataInner]
  refine ⟨a, inner, b, ?_, ha, hb, hinner, ?_⟩
  · rw [ho, hc]
    rw [hr, hin] at hs
    simpa [List.append_assoc] using hs
  · rw [hinner, hc] at h3
    exact h3

theorem ReadsIn.cdataValue {cfg : Cfg} (hcfg : cfgOk cfg = true) {s : Str} (h : isCdataValue cfg s = true)
    (hx : isXmlText s = true) :
    ∃ a b, AllSpace a ∧ AllSpace b ∧ ReadsIn s (a ++ cdataInner (stripWs s) ++ b) [] := by
  obtain ⟨a, inner, b, hs, ha, hb, hinner, hno⟩ := cdata_shape hcfg h
  simp only [cfgOk, Bool.and_eq_true, decide_eq_true_eq] at hcfg
  obtain ⟨⟨_, ho⟩, hc⟩ := hcfg
  have hxall : ∀ c ∈ s, isXmlChar c = true := by simpa [isXmlText] using hx
  refine ⟨a, b, ha, hb, ?_⟩
  rw [hinner]
  have hxs : ∀ c ∈ a ++ (cfg.copen ++ inner ++ cfg.cclose) ++ b, isXmlChar c = true := by rw [← hs]; exact hxall
  have hA : ReadsIn a a [] := ReadsIn.plain a (fun c hc => isPySpace_plain (ha c hc) (hxs c (by simp [hc])))
  have hB : ReadsIn b b [] := ReadsIn.plain b (fun c hc => isPySpace_plain (hb c hc) (hxs c (by simp [hc])))
  have hM : ReadsIn (cfg.copen ++ inner ++ cfg.cclose) inner [] := by
    intro cur stack rb hst
    refine ⟨0, ?_⟩
    have hne : stack.isEmpty = false := by cases stack <;> simp_all
    rw [ho, hc]
    have hpre : run ⟨cur, stack, .text rb⟩ (['<', '!', '[', 'C', 'D', 'A', 'T', 'A', '['] ++ (inner ++ [']', ']', '>']))
        = run ⟨cur, stack, .cdata 0⟩ (inner ++ [']', ']', '>']) := by
      simp [run, step, stepText, stepLt, stepBang, bangTarget, hne]
    rw [List.append_assoc, hpre]
    rw [run_cdata cur stack inner 0 (fun c hc' => hxs c (by simp [hc'])) (by simpa using hno)]
    simp
  have := ReadsIn.append (ReadsIn.append hA hM) hB
  rw [hs]
  simpa using this

end N0.Xml
