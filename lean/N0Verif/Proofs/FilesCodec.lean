import N0Verif.Proofs.Files
/-!
  C15, codec side: the assumptions `Codec.Good` discharged for the concrete codec models
  (`utf8`, `utf8sig`, the table codec `cp1252` generated from the interpreter), the BOM corner
  cases of `utf-8-sig`, and the loader lemma shared by the round-trip theorems.
-/
namespace N0.Files
open N0 N0.Py

/-! ### loading a file that holds an encoded text -/

/-- **reading back**: a file holding (mark ++) the encoding of `text.replace('\n', EOL)` is
loaded by `load_file(…, 't', encoding, EOL)` as `text` — standard EOLs through universal
newlines, every other ASCII EOL through the byte-level replacement under the codec. -/
theorem filesLoad_encoded (c : Codec) (g : c.Good) (fs : FS) (p text eol : Str) (y : Bytes)
    (ha : IsAscii eol) (hd : EolDisjoint eol text) (hcr : NoCR text)
    (henc : c.enc (replace lf eol text) = some y) (hdisk : fs p = some (c.bom ++ y)) :
    loadFile c fs p ['t'] eol = .ok (.str text) := by
  by_cases hstd : isStdEol eol = true
  · rw [loadFile_text c _ p eol _ _ hstd hdisk ((decodeStream_bom_append c y).trans (g.decode_bom_enc henc)),
      univNL_replace eol text hstd hcr]
  · have hstd' : isStdEol eol = false := by simpa using hstd
    obtain ⟨y', hy', hr⟩ := enc_replace_back c g eol ha text hd y henc
    apply loadFile_custom c _ p eol _ _ hstd' eol (g.enc_ascii eol ha) hd.1 hdisk
    cases heq : eol with
    | nil => exact absurd heq hd.1
    | cons e0 es =>
      have he0 : e0.toNat < 128 := ha e0 (by simp [heq])
      rw [replace_skip e0 es lf c.bom y (by
        intro x hx hxe
        have := g.bom_high x hx
        subst hxe; omega)]
      rw [← heq, hr]
      exact g.decode_bom_enc hy'

/-! ### characters and bytes -/

theorem filesToNat_ofNat (k : Nat) (h : k.isValidChar) : (Char.ofNat k).toNat = k := by
  unfold Char.ofNat
  rw [dif_pos h]
  simp [Char.ofNatAux, Char.toNat]

theorem filesToNat_ofNat_byte (k : Nat) (h : k < 256) : (Char.ofNat k).toNat = k :=
  filesToNat_ofNat k (Or.inl (by omega))

theorem filesChar_valid (ch : Char) : ch.toNat < 0xD800 ∨ (0xDFFF < ch.toNat ∧ ch.toNat < 0x110000) := ch.valid

/-- the decoder on an ASCII byte -/
theorem utf8Dec_ascii (b0 : Char) (rest : Bytes) (h : b0.toNat < 0x80) :
    utf8Dec (b0 :: rest) = (utf8Dec rest).map (b0 :: ·) := by
  rw [utf8Dec.eq_def]; simp only [h, if_true]

/-- one character: the decoder inverts the encoder -/
theorem utf8Dec_encChar (ch : Char) (rest : Bytes) :
    utf8Dec (utf8EncChar ch ++ rest) = (utf8Dec rest).map (ch :: ·) := by
  have hv := filesChar_valid ch
  unfold utf8EncChar
  by_cases h1 : ch.toNat < 0x80
  · simp only [h1, if_true, List.cons_append, List.nil_append]
    exact utf8Dec_ascii ch rest h1
  · by_cases h2 : ch.toNat < 0x800
    · simp only [h1, h2, if_true, if_false, List.cons_append, List.nil_append]
      have a0 := filesToNat_ofNat_byte (0xC0 + ch.toNat / 64) (by omega)
      have a1 := filesToNat_ofNat_byte (0x80 + ch.toNat % 64) (by omega)
      rw [utf8Dec.eq_def]
      simp only [a0, a1, isCont]
      have e : (0xC0 + ch.toNat / 64 - 0xC0) * 64 + (0x80 + ch.toNat % 64 - 0x80) = ch.toNat := by omega
      have c1 : ¬ (0xC0 + ch.toNat / 64 < 0x80) := by omega
      have c2 : (0xC2 ≤ 0xC0 + ch.toNat / 64) := by omega
      have c3 : (0xC0 + ch.toNat / 64 < 0xE0) := by omega
      have c4 : 0x80 ≤ 0x80 + ch.toNat % 64 := by omega
      have c5 : 0x80 + ch.toNat % 64 < 0xC0 := by omega
      simp only [c1, c2, c3, c4, c5, e, if_false, if_true, decide_true, Bool.and_self, Char.ofNat_toNat]
    · by_cases h3 : ch.toNat < 0x10000
      · simp only [h1, h2, h3, if_true, if_false, List.cons_append, List.nil_append]
        have a0 := filesToNat_ofNat_byte (0xE0 + ch.toNat / 4096) (by omega)
        have a1 := filesToNat_ofNat_byte (0x80 + ch.toNat / 64 % 64) (by omega)
        have a2 := filesToNat_ofNat_byte (0x80 + ch.toNat % 64) (by omega)
        rw [utf8Dec.eq_def]
        simp only [a0, a1, a2, isCont]
        have c1 : ¬ (0xE0 + ch.toNat / 4096 < 0x80) := by omega
        have c2 : ¬ (0xE0 + ch.toNat / 4096 < 0xE0) := by omega
        have c3 : 0xE0 ≤ 0xE0 + ch.toNat / 4096 := by omega
        have c4 : 0xE0 + ch.toNat / 4096 < 0xF0 := by omega
        have c5 : 0x80 ≤ 0x80 + ch.toNat / 64 % 64 := by omega
        have c6 : 0x80 + ch.toNat / 64 % 64 < 0xC0 := by omega
        have c7 : 0x80 ≤ 0x80 + ch.toNat % 64 := by omega
        have c8 : 0x80 + ch.toNat % 64 < 0xC0 := by omega
        have c9 : 0x800 ≤ ch.toNat := by omega
        have c10 : ch.toNat < 0xD800 ∨ 0xE000 ≤ ch.toNat := by omega
        have e' : ch.toNat / 4096 * 4096 + ch.toNat / 64 % 64 * 64 + ch.toNat % 64 = ch.toNat := by omega
        simp only [c1, c2, c3, c4, c5, c6, c7, c8, if_false, if_true, decide_true, decide_false, Bool.and_self,
          Bool.true_and, Nat.add_sub_cancel_left]
        rw [e']
        simp [c9, c10, Char.ofNat_toNat]
      · simp only [h1, h2, h3, if_false, List.cons_append, List.nil_append]
        have a0 := filesToNat_ofNat_byte (0xF0 + ch.toNat / 262144) (by omega)
        have a1 := filesToNat_ofNat_byte (0x80 + ch.toNat / 4096 % 64) (by omega)
        have a2 := filesToNat_ofNat_byte (0x80 + ch.toNat / 64 % 64) (by omega)
        have a3 := filesToNat_ofNat_byte (0x80 + ch.toNat % 64) (by omega)
        rw [utf8Dec.eq_def]
        simp only [a0, a1, a2, a3, isCont]
        have c1 : ¬ (0xF0 + ch.toNat / 262144 < 0x80) := by omega
        have c2 : ¬ (0xF0 + ch.toNat / 262144 < 0xE0) := by omega
        have c3 : ¬ (0xF0 + ch.toNat / 262144 < 0xF0) := by omega
        have c4 : 0xF0 ≤ 0xF0 + ch.toNat / 262144 := by omega
        have c5 : 0xF0 + ch.toNat / 262144 < 0xF5 := by omega
        have c6 : 0x80 ≤ 0x80 + ch.toNat / 4096 % 64 := by omega
        have c7 : 0x80 + ch.toNat / 4096 % 64 < 0xC0 := by omega
        have c8 : 0x80 ≤ 0x80 + ch.toNat / 64 % 64 := by omega
        have c9 : 0x80 + ch.toNat / 64 % 64 < 0xC0 := by omega
        have c10 : 0x80 ≤ 0x80 + ch.toNat % 64 := by omega
        have c11 : 0x80 + ch.toNat % 64 < 0xC0 := by omega
        have c12 : 0x10000 ≤ ch.toNat := by omega
        have c13 : ch.toNat < 0x110000 := by omega
        have e' : ch.toNat / 262144 * 262144 + ch.toNat / 4096 % 64 * 4096 + ch.toNat / 64 % 64 * 64
            + ch.toNat % 64 = ch.toNat := by omega
        simp only [c1, c2, c3, c4, c5, c6, c7, c8, c9, c10, c11, if_false, if_true, decide_true, decide_false,
          Bool.and_self, Bool.true_and, Nat.add_sub_cancel_left]
        rw [e']
        simp [c12, c13, Char.ofNat_toNat]

theorem utf8Dec_enc (s : Str) : utf8Dec (utf8Enc s) = some s := by
  induction s with
  | nil => rfl
  | cons ch s ih =>
    have : utf8Enc (ch :: s) = utf8EncChar ch ++ utf8Enc s := by simp [utf8Enc]
    rw [this, utf8Dec_encChar, ih]; rfl


/-! ### utf-8 and utf-8-sig -/

theorem utf8EncChar_high (ch : Char) (h : 128 ≤ ch.toNat) : ∀ x ∈ utf8EncChar ch, 128 ≤ x.toNat := by
  have hv := filesChar_valid ch
  intro x hx
  unfold utf8EncChar at hx
  have h1 : ¬ ch.toNat < 0x80 := by omega
  by_cases h2 : ch.toNat < 0x800
  · simp only [h1, h2, if_true, if_false, List.mem_cons, List.not_mem_nil, or_false] at hx
    rcases hx with rfl | rfl
    · rw [filesToNat_ofNat_byte _ (by omega)]; omega
    · rw [filesToNat_ofNat_byte _ (by omega)]; omega
  · by_cases h3 : ch.toNat < 0x10000
    · simp only [h1, h2, h3, if_true, if_false, List.mem_cons, List.not_mem_nil, or_false] at hx
      rcases hx with rfl | rfl | rfl
      · rw [filesToNat_ofNat_byte _ (by omega)]; omega
      · rw [filesToNat_ofNat_byte _ (by omega)]; omega
      · rw [filesToNat_ofNat_byte _ (by omega)]; omega
    · simp only [h1, h2, h3, if_false, List.mem_cons, List.not_mem_nil, or_false] at hx
      rcases hx with rfl | rfl | rfl | rfl
      · rw [filesToNat_ofNat_byte _ (by omega)]; omega
      · rw [filesToNat_ofNat_byte _ (by omega)]; omega
      · rw [filesToNat_ofNat_byte _ (by omega)]; omega
      · rw [filesToNat_ofNat_byte _ (by omega)]; omega

theorem utf8Enc_cons (ch : Char) (s : Str) : utf8Enc (ch :: s) = utf8EncChar ch ++ utf8Enc s := by
  simp [utf8Enc]

theorem utf8Enc_single (ch : Char) : utf8Enc [ch] = utf8EncChar ch := by
  simp [utf8Enc]

/-- the assumptions hold for every codec whose body is the utf-8 encoder / strict decoder and
whose mark consists of high bytes -/
theorem utf8Body_good (bom : Bytes) (hb : ∀ x ∈ bom, 128 ≤ x.toNat) :
    Codec.Good { bom := bom, enc := fun s => some (utf8Enc s), dec := utf8Dec } where
  enc_nil := rfl
  enc_cons := by intro ch s; simp [utf8Enc_cons, show utf8Enc [] = [] from rfl]
  ascii := by
    intro ch h
    simp [utf8Enc_single, utf8EncChar, h]
  high := by
    intro ch b h hb' x hx
    simp only [utf8Enc_single, Option.some.injEq] at hb'
    subst hb'
    exact utf8EncChar_high ch h x hx
  bom_high := hb
  dec_enc := by
    intro s b h
    simp only [Option.some.injEq] at h
    subst h
    exact utf8Dec_enc s

/-- **`Codec.Good` for the utf-8 model** -/
theorem utf8_good : utf8.Good := utf8Body_good [] (by intro x hx; simp at hx)

/-- **`Codec.Good` for the utf-8-sig model** -/
theorem utf8sig_good : utf8sig.Good :=
  utf8Body_good bomUtf8 (by
    intro x hx
    simp only [bomUtf8, List.mem_cons, List.not_mem_nil, or_false] at hx
    rcases hx with rfl | rfl | rfl <;> decide)


/-! ### the strict decoder accepts canonical encodings only -/

theorem utf8EncChar_of2 (n0 n1 : Nat) (h0 : 0xC2 ≤ n0) (h0' : n0 < 0xE0) (h1 : 0x80 ≤ n1) (h1' : n1 < 0xC0) :
    utf8EncChar (Char.ofNat ((n0 - 0xC0) * 64 + (n1 - 0x80))) = [Char.ofNat n0, Char.ofNat n1] := by
  unfold utf8EncChar
  rw [filesToNat_ofNat _ (Or.inl (by omega))]
  have a : ¬ ((n0 - 0xC0) * 64 + (n1 - 0x80) < 0x80) := by omega
  have b : (n0 - 0xC0) * 64 + (n1 - 0x80) < 0x800 := by omega
  have c : 0xC0 + ((n0 - 0xC0) * 64 + (n1 - 0x80)) / 64 = n0 := by omega
  have d : 0x80 + ((n0 - 0xC0) * 64 + (n1 - 0x80)) % 64 = n1 := by omega
  simp only [a, b, if_true, if_false, c, d]

theorem utf8EncChar_of3 (n0 n1 n2 : Nat) (h0 : 0xE0 ≤ n0) (h0' : n0 < 0xF0) (h1 : 0x80 ≤ n1) (h1' : n1 < 0xC0)
    (h2 : 0x80 ≤ n2) (h2' : n2 < 0xC0)
    (hlo : 0x800 ≤ (n0 - 0xE0) * 4096 + (n1 - 0x80) * 64 + (n2 - 0x80))
    (hsur : ¬ (0xD800 ≤ (n0 - 0xE0) * 4096 + (n1 - 0x80) * 64 + (n2 - 0x80)
              ∧ (n0 - 0xE0) * 4096 + (n1 - 0x80) * 64 + (n2 - 0x80) < 0xE000)) :
    utf8EncChar (Char.ofNat ((n0 - 0xE0) * 4096 + (n1 - 0x80) * 64 + (n2 - 0x80)))
      = [Char.ofNat n0, Char.ofNat n1, Char.ofNat n2] := by
  unfold utf8EncChar
  rw [filesToNat_ofNat _ (by unfold Nat.isValidChar; omega)]
  have a : ¬ ((n0 - 0xE0) * 4096 + (n1 - 0x80) * 64 + (n2 - 0x80) < 0x80) := by omega
  have a' : ¬ ((n0 - 0xE0) * 4096 + (n1 - 0x80) * 64 + (n2 - 0x80) < 0x800) := by omega
  have b : (n0 - 0xE0) * 4096 + (n1 - 0x80) * 64 + (n2 - 0x80) < 0x10000 := by omega
  have c : 0xE0 + ((n0 - 0xE0) * 4096 + (n1 - 0x80) * 64 + (n2 - 0x80)) / 4096 = n0 := by omega
  have d : 0x80 + ((n0 - 0xE0) * 4096 + (n1 - 0x80) * 64 + (n2 - 0x80)) / 64 % 64 = n1 := by omega
  have e : 0x80 + ((n0 - 0xE0) * 4096 + (n1 - 0x80) * 64 + (n2 - 0x80)) % 64 = n2 := by omega
  simp only [a, a', b, if_true, if_false, c, d, e]

theorem utf8EncChar_of4 (n0 n1 n2 n3 : Nat) (h0 : 0xF0 ≤ n0) (h0' : n0 < 0xF5) (h1 : 0x80 ≤ n1) (h1' : n1 < 0xC0)
    (h2 : 0x80 ≤ n2) (h2' : n2 < 0xC0) (h3 : 0x80 ≤ n3) (h3' : n3 < 0xC0)
    (hlo : 0x10000 ≤ (n0 - 0xF0) * 262144 + (n1 - 0x80) * 4096 + (n2 - 0x80) * 64 + (n3 - 0x80))
    (hhi : (n0 - 0xF0) * 262144 + (n1 - 0x80) * 4096 + (n2 - 0x80) * 64 + (n3 - 0x80) < 0x110000) :
    utf8EncChar (Char.ofNat ((n0 - 0xF0) * 262144 + (n1 - 0x80) * 4096 + (n2 - 0x80) * 64 + (n3 - 0x80)))
      = [Char.ofNat n0, Char.ofNat n1, Char.ofNat n2, Char.ofNat n3] := by
  unfold utf8EncChar
  rw [filesToNat_ofNat _ (by unfold Nat.isValidChar; omega)]
  have a : ¬ ((n0 - 0xF0) * 262144 + (n1 - 0x80) * 4096 + (n2 - 0x80) * 64 + (n3 - 0x80) < 0x80) := by omega
  have a' : ¬ ((n0 - 0xF0) * 262144 + (n1 - 0x80) * 4096 + (n2 - 0x80) * 64 + (n3 - 0x80) < 0x800) := by omega
  have b : ¬ ((n0 - 0xF0) * 262144 + (n1 - 0x80) * 4096 + (n2 - 0x80) * 64 + (n3 - 0x80) < 0x10000) := by omega
  have c : 0xF0 + ((n0 - 0xF0) * 262144 + (n1 - 0x80) * 4096 + (n2 - 0x80) * 64 + (n3 - 0x80)) / 262144 = n0 := by omega
  have d : 0x80 + ((n0 - 0xF0) * 262144 + (n1 - 0x80) * 4096 + (n2 - 0x80) * 64 + (n3 - 0x80)) / 4096 % 64 = n1 := by omega
  have e : 0x80 + ((n0 - 0xF0) * 262144 + (n1 - 0x80) * 4096 + (n2 - 0x80) * 64 + (n3 - 0x80)) / 64 % 64 = n2 := by omega
  have f : 0x80 + ((n0 - 0xF0) * 262144 + (n1 - 0x80) * 4096 + (n2 - 0x80) * 64 + (n3 - 0x80)) % 64 = n3 := by omega
  simp only [a, a', b, if_false, c, d, e, f]

theorem map_cons_eq_some {α} {o : Option (List α)} {a : α} {s : List α} (h : o.map (a :: ·) = some s) :
    ∃ s', o = some s' ∧ s = a :: s' := by
  cases o with
  | none => simp at h
  | some s' => simp at h; exact ⟨s', rfl, h.symm⟩

/-- **the strict decoder accepts canonical encodings only**: whatever it decodes re-encodes to the
same bytes, so overlong forms, encoded surrogates, values above U+10FFFF, stray continuation bytes
and truncated sequences are all rejected. -/
theorem utf8Dec_canonical : ∀ (n : Nat) (b : Bytes), b.length ≤ n → ∀ s, utf8Dec b = some s → utf8Enc s = b := by
  intro n
  induction n with
  | zero =>
    intro b hb s h
    have : b = [] := List.length_eq_zero_iff.mp (by omega)
    subst this
    rw [utf8Dec.eq_def] at h; cases h; rfl
  | succ n ih =>
    intro b hb s h
    cases b with
    | nil => rw [utf8Dec.eq_def] at h; cases h; rfl
    | cons b0 rest =>
      rw [utf8Dec.eq_def] at h
      simp only at h
      by_cases c1 : b0.toNat < 0x80
      · rw [if_pos c1] at h
        obtain ⟨s', hs', rfl⟩ := map_cons_eq_some h
        rw [utf8Enc_cons, ih rest (by simp at hb; omega) s' hs']
        simp [utf8EncChar, c1]
      · rw [if_neg c1] at h
        by_cases c2 : (decide (0xC2 ≤ b0.toNat) && decide (b0.toNat < 0xE0)) = true
        · rw [if_pos c2] at h
          simp only [Bool.and_eq_true, decide_eq_true_eq] at c2
          cases rest with
          | nil => simp at h
          | cons b1 r =>
            simp only at h
            by_cases c3 : isCont b1 = true
            · rw [if_pos c3] at h
              obtain ⟨s', hs', rfl⟩ := map_cons_eq_some h
              simp only [isCont, Bool.and_eq_true, decide_eq_true_eq] at c3
              rw [utf8Enc_cons, ih r (by simp at hb; omega) s' hs',
                utf8EncChar_of2 _ _ c2.1 c2.2 c3.1 c3.2]
              simp [Char.ofNat_toNat]
            · rw [if_neg c3] at h; cases h
        · rw [if_neg c2] at h
          by_cases c4 : (decide (0xE0 ≤ b0.toNat) && decide (b0.toNat < 0xF0)) = true
          · rw [if_pos c4] at h
            simp only [Bool.and_eq_true, decide_eq_true_eq] at c4
            match rest, h, hb with
            | [], h, _ => simp at h
            | [_], h, _ => simp at h
            | b1 :: b2 :: r, h, hb =>
              simp only at h
              split at h
              · rename_i c5
                obtain ⟨s', hs', rfl⟩ := map_cons_eq_some h
                simp only [isCont, Bool.and_eq_true, decide_eq_true_eq, Bool.not_eq_true', Bool.and_eq_false_iff,
                  decide_eq_false_iff_not] at c5
                obtain ⟨⟨⟨⟨k1, k1'⟩, ⟨k2, k2'⟩⟩, klo⟩, ksur⟩ := c5
                rw [utf8Enc_cons, ih r (by simp at hb; omega) s' hs',
                  utf8EncChar_of3 _ _ _ c4.1 c4.2 k1 k1' k2 k2' klo (by omega)]
                simp [Char.ofNat_toNat]
              · simp at h
          · rw [if_neg c4] at h
            by_cases c6 : (decide (0xF0 ≤ b0.toNat) && decide (b0.toNat < 0xF5)) = true
            · rw [if_pos c6] at h
              simp only [Bool.and_eq_true, decide_eq_true_eq] at c6
              match rest, h, hb with
              | [], h, _ => simp at h
              | [_], h, _ => simp at h
              | [_, _], h, _ => simp at h
              | b1 :: b2 :: b3 :: r, h, hb =>
                simp only at h
                split at h
                · rename_i c7
                  obtain ⟨s', hs', rfl⟩ := map_cons_eq_some h
                  simp only [isCont, Bool.and_eq_true, decide_eq_true_eq] at c7
                  obtain ⟨⟨⟨⟨⟨k1, k1'⟩, ⟨k2, k2'⟩⟩, ⟨k3, k3'⟩⟩, klo⟩, khi⟩ := c7
                  rw [utf8Enc_cons, ih r (by simp at hb; omega) s' hs',
                    utf8EncChar_of4 _ _ _ _ c6.1 c6.2 k1 k1' k2 k2' k3 k3' klo khi]
                  simp [Char.ofNat_toNat]
                · simp at h
            · rw [if_neg c6] at h; cases h


/-- `decode ∘ encode = id` and its converse: the decoder is injective on what it accepts -/
theorem utf8Dec_eq_some_iff (b : Bytes) (s : Str) : utf8Dec b = some s ↔ utf8Enc s = b :=
  ⟨utf8Dec_canonical b.length b (Nat.le_refl _) s, fun h => h ▸ utf8Dec_enc s⟩

/-- overlong forms (`C0 80`, `E0 80 80`, `F0 80 80 80`), an encoded surrogate (`ED A0 80`), a value
above U+10FFFF (`F4 90 80 80`), a stray continuation byte and a truncated sequence are rejected;
the shortest form of U+20AC is accepted -/
theorem utf8Dec_rejects :
    utf8Dec [Char.ofNat 0xC0, Char.ofNat 0x80] = none
    ∧ utf8Dec [Char.ofNat 0xE0, Char.ofNat 0x80, Char.ofNat 0x80] = none
    ∧ utf8Dec [Char.ofNat 0xF0, Char.ofNat 0x80, Char.ofNat 0x80, Char.ofNat 0x80] = none
    ∧ utf8Dec [Char.ofNat 0xED, Char.ofNat 0xA0, Char.ofNat 0x80] = none
    ∧ utf8Dec [Char.ofNat 0xF4, Char.ofNat 0x90, Char.ofNat 0x80, Char.ofNat 0x80] = none
    ∧ utf8Dec [Char.ofNat 0x80] = none ∧ utf8Dec [Char.ofNat 0xE2, Char.ofNat 0x82] = none
    ∧ utf8Dec [Char.ofNat 0xE2, Char.ofNat 0x82, Char.ofNat 0xAC] = some [Char.ofNat 0x20AC] := by decide

/-! ### code points: the surrogate range is unencodable

Python strings may hold lone surrogates (`'\ud800'`), and `str.encode('utf-8')` raises
`UnicodeEncodeError` on them.  Lean's `Char` excludes them by construction, so the model's
encoder is total; the code-point level statement is kept here as a specification of which
numbers have a utf-8 form at all. -/

/-- the utf-8 form of a code point; `none` = not encodable (surrogate, or above U+10FFFF) -/
def utf8EncCp (n : Nat) : Option Bytes :=
  if (0xD800 ≤ n ∧ n < 0xE000) ∨ 0x110000 ≤ n then none else some (utf8EncChar (Char.ofNat n))

theorem utf8EncCp_surrogate (n : Nat) (h1 : 0xD800 ≤ n) (h2 : n < 0xE000) : utf8EncCp n = none := by
  simp [utf8EncCp, h1, h2]

theorem utf8EncCp_char (ch : Char) : utf8EncCp ch.toNat = some (utf8EncChar ch) := by
  have hv := filesChar_valid ch
  have : ¬ ((0xD800 ≤ ch.toNat ∧ ch.toNat < 0xE000) ∨ 0x110000 ≤ ch.toNat) := by omega
  simp only [utf8EncCp, this, if_false, Char.ofNat_toNat]

/-- a code point is encodable iff it is (the number of) a character; no byte sequence decodes to a surrogate -/
theorem utf8EncCp_isSome_iff (n : Nat) : (utf8EncCp n).isSome ↔ ∃ ch : Char, ch.toNat = n := by
  constructor
  · intro h
    unfold utf8EncCp at h
    split at h
    · cases h
    · rename_i hn
      exact ⟨Char.ofNat n, filesToNat_ofNat n (by unfold Nat.isValidChar; omega)⟩
  · rintro ⟨ch, rfl⟩; rw [utf8EncCp_char]; rfl

/-! ### utf-8-sig: the mark is written once and skipped once -/

/-- `s.encode('utf-8-sig')`: a fresh encoder puts the mark at position 0, once -/
theorem utf8sig_encode (s : Str) : utf8sig.encode s = some (bomUtf8 ++ utf8Enc s) := rfl

/-- the mark is the utf-8 form of U+FEFF -/
theorem bomUtf8_eq : bomUtf8 = utf8EncChar (Char.ofNat 0xFEFF) := by decide

/-- the mark is skipped on read -/
theorem utf8sig_decode_bom (s : Str) : utf8sig.decode (bomUtf8 ++ utf8Enc s) = some s :=
  utf8sig_good.decode_bom_enc rfl

/-- … once only: a second mark is the character U+FEFF of the text (what the files of the
former findings C15-a / C15-b read back as) -/
theorem utf8sig_decode_bom_twice (s : Str) :
    utf8sig.decode (bomUtf8 ++ (bomUtf8 ++ utf8Enc s)) = some (Char.ofNat 0xFEFF :: s) := by
  have : bomUtf8 ++ utf8Enc s = utf8Enc (Char.ofNat 0xFEFF :: s) := by rw [utf8Enc_cons, ← bomUtf8_eq]
  rw [this]
  exact utf8sig_decode_bom _

/-- the incremental decoder of a text-mode `read()` on a file that is a strict prefix of the
mark (`EF`, `EF BB`): the bytes are buffered "waiting for more" and the text is empty, whereas
`bytes.decode('utf-8-sig')` raises (the corner recorded in the notes) -/
theorem utf8sig_decodeStream_prefix :
    utf8sig.decodeStream [Char.ofNat 0xEF] = some [] ∧ utf8sig.decodeStream [Char.ofNat 0xEF, Char.ofNat 0xBB] = some []
    ∧ utf8sig.decode [Char.ofNat 0xEF] = none ∧ utf8sig.decode [Char.ofNat 0xEF, Char.ofNat 0xBB] = none := by decide

/-- everywhere else a text-mode `read()` decodes like `bytes.decode('utf-8-sig')` -/
theorem utf8sig_decodeStream_eq (b : Bytes) (h1 : b ≠ [Char.ofNat 0xEF]) (h2 : b ≠ [Char.ofNat 0xEF, Char.ofNat 0xBB]) :
    utf8sig.decodeStream b = utf8sig.decode b := by
  unfold Codec.decodeStream
  match b, h1, h2 with
  | [], _, _ => decide
  | [x], h1, _ =>
    have hx : x ≠ Char.ofNat 0xEF := fun e => h1 (by rw [e])
    have : startsWith utf8sig.bom [x] = false := by
      simp [utf8sig, bomUtf8, startsWith, Ne.symm hx]
    rw [this]; simp
  | [x, y], _, h2 =>
    have : startsWith utf8sig.bom [x, y] = false := by
      simp only [utf8sig, bomUtf8, startsWith, Bool.and_true]
      by_cases hx : x = Char.ofNat 0xEF
      · by_cases hy : y = Char.ofNat 0xBB
        · exact absurd (by rw [hx, hy]) h2
        · simp [Ne.symm hy]
      · simp [Ne.symm hx]
    rw [this]; simp
  | _ :: _ :: _ :: _, _, _ =>
    have : utf8sig.bom.length = 3 := rfl
    simp only [this, List.length_cons]
    rw [if_neg]
    simp only [Bool.and_eq_true, decide_eq_true_eq, not_and]
    intro hlt; omega

/-! ### table codecs -/

theorem tableFind_spec (n : Nat) (t : List (Option Nat)) :
    ∀ (i k : Nat), tableFind n t i = some k → i ≤ k ∧ t[k - i]? = some (some n) := by
  induction t with
  | nil => intro i k h; simp [tableFind] at h
  | cons e t ih =>
    intro i k h
    unfold tableFind at h
    split at h
    · rename_i he
      cases h
      simp [he]
    · obtain ⟨h1, h2⟩ := ih (i + 1) k h
      refine ⟨by omega, ?_⟩
      have : k - i = (k - (i + 1)) + 1 := by omega
      rw [this, List.getElem?_cons_succ]; exact h2

/-- a present code point is found, not later than where it is -/
theorem tableFind_some (n : Nat) (t : List (Option Nat)) :
    ∀ (i j : Nat), t[j]? = some (some n) → ∃ k, tableFind n t i = some k ∧ k ≤ i + j := by
  induction t with
  | nil => intro i j h; simp at h
  | cons e t ih =>
    intro i j h
    unfold tableFind
    split
    · exact ⟨i, rfl, by omega⟩
    · cases j with
      | zero => rename_i hne; simp at h; exact absurd h hne
      | succ j =>
        rw [List.getElem?_cons_succ] at h
        obtain ⟨k, hk, hle⟩ := ih (i + 1) j h
        exact ⟨k, hk, by omega⟩

/-- what `decide` checks on a generated table: 256 entries, the first 128 are the identity -/
def tableOk (t : List (Option Nat)) : Bool :=
  t.length == 256 && t.take 128 == (List.range 128).map some

theorem tableOk_ascii {t : List (Option Nat)} (h : tableOk t = true) (i : Nat) (hi : i < 128) :
    t[i]? = some (some i) := by
  simp only [tableOk, Bool.and_eq_true, beq_iff_eq] at h
  have : (t.take 128)[i]? = some (some i) := by rw [h.2]; simp [hi]
  rw [List.getElem?_take] at this
  simpa [hi] using this

theorem tableEnc_spec {t : List (Option Nat)} (h : tableOk t = true) (ch b : Char) (he : tableEncChar t ch = some b) :
    b.toNat < 256 ∧ t[b.toNat]? = some (some ch.toNat) := by
  unfold tableEncChar at he
  cases hf : tableFind ch.toNat t 0 with
  | none => simp [hf] at he
  | some k =>
    simp [hf] at he
    obtain ⟨_, h2⟩ := tableFind_spec ch.toNat t 0 k hf
    simp only [Nat.sub_zero] at h2
    have hk : k < 256 := by
      simp only [tableOk, Bool.and_eq_true, beq_iff_eq] at h
      have := (List.getElem?_eq_some_iff.mp h2).1
      omega
    subst he
    rw [filesToNat_ofNat_byte k hk]
    exact ⟨hk, h2⟩

theorem mapM_cons_opt {α β} (f : α → Option β) (a : α) (l : List α) :
    (a :: l).mapM f = (f a).bind (fun x => (l.mapM f).map (fun r => x :: r)) := by
  rw [List.mapM_cons]
  cases f a <;> cases l.mapM f <;> rfl

theorem tableCodec_good (t : List (Option Nat)) (h : tableOk t = true) : (tableCodec t).Good where
  enc_nil := rfl
  enc_cons := by
    intro ch s
    simp only [tableCodec, mapM_cons_opt, List.mapM_nil]
    cases tableEncChar t ch <;> cases List.mapM (tableEncChar t) s <;> simp
  ascii := by
    intro ch hch
    simp only [tableCodec, mapM_cons_opt, List.mapM_nil]
    obtain ⟨k, hk, hle⟩ := tableFind_some ch.toNat t 0 ch.toNat (tableOk_ascii h _ hch)
    obtain ⟨_, h2⟩ := tableFind_spec ch.toNat t 0 k hk
    simp only [Nat.sub_zero] at h2
    rw [tableOk_ascii h k (by omega)] at h2
    have : k = ch.toNat := by simpa using h2
    subst this
    simp [tableEncChar, hk, Char.ofNat_toNat]
  high := by
    intro ch b hch hb x hx
    simp only [tableCodec, mapM_cons_opt, List.mapM_nil] at hb
    cases he : tableEncChar t ch with
    | none => simp [he] at hb
    | some b0 =>
      simp [he] at hb
      subst hb
      simp at hx; subst hx
      obtain ⟨_, h2⟩ := tableEnc_spec h ch x he
      by_cases hlt : x.toNat < 128
      · rw [tableOk_ascii h _ hlt] at h2
        have : x.toNat = ch.toNat := by simpa using h2
        omega
      · omega
  bom_high := by intro x hx; simp [tableCodec] at hx
  dec_enc := by
    intro s
    induction s with
    | nil => intro b hb; simp [tableCodec] at hb ⊢; subst hb; rfl
    | cons ch s ih =>
      intro b hb
      simp only [tableCodec, mapM_cons_opt] at hb ih ⊢
      cases he : tableEncChar t ch with
      | none => simp [he] at hb
      | some b0 =>
        cases hs : List.mapM (tableEncChar t) s with
        | none => simp [he, hs] at hb
        | some bs =>
          simp [he, hs] at hb
          subst hb
          obtain ⟨_, h2⟩ := tableEnc_spec h ch b0 he
          have hd : tableDecByte t b0 = some ch := by
            unfold tableDecByte; rw [h2]; simp [Char.ofNat_toNat]
          rw [mapM_cons_opt, hd, ih bs hs]; rfl

theorem cp1252_tableOk : tableOk Gen.Cp1252.table = true := by decide +kernel

theorem cp1252_good : cp1252.Good := tableCodec_good _ cp1252_tableOk

end N0.Files
