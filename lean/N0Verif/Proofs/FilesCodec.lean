import N0Verif.Proofs.Files
/-!
  C15, codec side: the assumptions `Codec.Good` discharged for the concrete codec models
  (`utf8`, `utf8sig`, the table codec `cp1252` generated from the interpreter), the BOM corner
  cases of `utf-8-sig`, and the loader lemma shared by the round-trip theorems.
-/
namespace N0.Files
open N0 N0.Py

/-! ### loading a file that holds an encoded text -/

/-- **reading back**: a file holding (mark ++) the encoding of `text.replace('\n', EOL)` is
loaded by `load_file(…, 't', encoding, EOL)` as `text` — standard EOLs through universal
newlines, every other ASCII EOL through the byte-level replacement under the codec. -/
theorem filesLoad_encoded (c : Codec) (g : c.Good) (fs : FS) (p text eol : Str) (y : Bytes)
    (ha : IsAscii eol) (hd : EolDisjoint eol text) (hcr : NoCR text)
    (henc : c.enc (replace lf eol text) = some y) (hdisk : fs p = some (c.bom ++ y)) :
    loadFile c fs p ['t'] eol = .ok (.str text) := by
  by_cases hstd : isStdEol eol = true
  · rw [loadFile_text c _ p eol _ _ hstd hdisk ((decodeStream_bom_append c y).trans (g.decode_bom_enc henc)),
      univNL_replace eol text hstd hcr]
  · have hstd' : isStdEol eol = false := by simpa using hstd
    obtain ⟨y', hy', hr⟩ := enc_replace_back c g eol ha text hd y henc
    apply loadFile_custom c _ p eol _ _ hstd' hd.1 hdisk
    rw [utf8Enc_ascii eol ha]
    cases heq : eol with
    | nil => exact absurd heq hd.1
    | cons e0 es =>
      have he0 : e0.toNat < 128 := ha e0 (by simp [heq])
      rw [replace_skip e0 es lf c.bom y (by
        intro x hx hxe
        have := g.bom_high x hx
        subst hxe; omega)]
      rw [← heq, hr]
      exact g.decode_bom_enc hy'

end N0.Files
