import N0Verif.Proofs.CompareSwap
import N0Verif.Proofs.ComparePerm
/-!
Swap symmetry of the KEYED entry point (`n0list.compare` / `n0dict.compare`, `cfg.direct = false`), no
`transform`: `b.compare(a)` is the mirror image of `a.compare(b)` — the two unique lists are exchanged,
every pair is flipped, `[i]<>[j]` becomes `[j]<>[i]` — as multisets of entries, with the same number of lines.

No uniqueness of the item keys is needed: the n-th item with key `K` on the left is paired with the n-th
item with key `K` on the right, whichever side drives the loop.  The proof separates one keyed level into a
generic loop `loopK` (matched pairs, left leftovers in place, right leftovers at the end) and shows by
insertion lemmas that the loop driven by the other side visits the same pairs.

With fix C09-b a type clash found inside a keyed list is reported at `prefix[i]<>[j]` like every other pair, so
the `difftypes` entries are mirrored with their places too: the relation `SwV` is the full mirror statement,
for every flag record.
-/
namespace N0.Compare
open N0

set_option linter.unusedSimpArgs false
set_option linter.unusedVariables false

/-! ### the relation -/

/-- `r'` is the mirror image of `r`, as multisets of entries -/
structure SwV (r r' : Res) : Prop where
  ne : r'.notEqual.Perm r.mirror.notEqual
  su : r'.selfUnique.Perm r.mirror.selfUnique
  ou : r'.otherUnique.Perm r.mirror.otherUnique
  dt : r'.diffTypes.Perm r.mirror.diffTypes
  diffs : r'.diffs = r.diffs

theorem SwV.of_eq {r r' : Res}
    (h1 : r'.notEqual = r.notEqual.map (fun e => ⟨mirrorPath e.path, e.r, e.l, e.kind, e.delta⟩))
    (h2 : r'.selfUnique = r.otherUnique.map (fun e => ⟨mirrorPath e.path, e.v⟩))
    (h3 : r'.otherUnique = r.selfUnique.map (fun e => ⟨mirrorPath e.path, e.v⟩))
    (h4 : r'.diffTypes = r.diffTypes.map (fun e => ⟨mirrorPath e.path, e.r, e.l⟩))
    (h5 : r'.diffs = r.diffs) : SwV r r' :=
  ⟨by rw [h1]; exact .refl _, by rw [h2]; exact .refl _, by rw [h3]; exact .refl _,
   by rw [h4]; exact .refl _, h5⟩

theorem swv_empty : SwV Res.empty Res.empty := SwV.of_eq rfl rfl rfl rfl rfl

theorem swv_append {a a' b b' : Res} (h : SwV a a') (h' : SwV b b') : SwV (a ++ b) (a' ++ b') := by
  refine ⟨?_, ?_, ?_, ?_, ?_⟩
  · simp only [append_notEqual, Res.mirror, List.map_append]; exact h.ne.append h'.ne
  · simp only [append_selfUnique, append_otherUnique, Res.mirror, List.map_append]; exact h.su.append h'.su
  · simp only [append_selfUnique, append_otherUnique, Res.mirror, List.map_append]; exact h.ou.append h'.ou
  · simp only [append_diffTypes, Res.mirror, List.map_append]; exact h.dt.append h'.dt
  · simp only [append_diffs, h.diffs, h'.diffs]

theorem SwV.congr_right {r r' r'' : Res} (h : SwV r r') (h' : CorePerm r'' r') : SwV r r'' :=
  ⟨h'.ne.trans h.ne, h'.su.trans h.su, h'.ou.trans h.ou,
   h'.dt.trans h.dt, h'.diffs.trans h.diffs⟩

theorem SwV.congr_left {r0 r r' : Res} (h : SwV r r') (h' : CorePerm r r0) : SwV r0 r' := by
  refine ⟨h.ne.trans ?_, h.su.trans ?_, h.ou.trans ?_, h.dt.trans ?_, h.diffs.trans h'.diffs⟩
  · simp only [Res.mirror]; exact h'.ne.map _
  · simp only [Res.mirror]; exact h'.ou.map _
  · simp only [Res.mirror]; exact h'.su.map _
  · simp only [Res.mirror]; exact h'.dt.map _

/-- the path filters do not distinguish `[i]<>[j]` from `[j]<>[i]` -/
structure MirrorInv (cfg : Cfg) : Prop where
  excl : ∀ p, excluded cfg (mirrorPath p) = excluded cfg p
  only : ∀ p, onlyOk cfg (mirrorPath p) = onlyOk cfg p

theorem swk_mirror_snoc (p : Path) (s : PSeg) : mirrorPath (p ++ [s]) = mirrorPath p ++ [mirrorSeg s] := by
  simp [mirrorPath]

theorem swk_mirror_seg (i j : Nat) :
    mirrorSeg (if i = j then PSeg.idx i else PSeg.idx2 i j) = (if j = i then PSeg.idx j else PSeg.idx2 j i) := by
  by_cases h : i = j
  · subst h; simp [mirrorSeg]
  · have h' : ¬ j = i := fun e => h e.symm
    simp [h, h', mirrorSeg]

theorem swk_mirror_nil : mirrorPath [] = [] := rfl

/-! ### leaf decisions -/

def ActSwV (x y : Val) : Act → Act → Prop
  | .emit r _, .emit r' _ => SwV r r'
  | .descend, .descend => tyOf x = tyOf y
  | _, _ => False

/-- an item pair: both places are mirrored -/
theorem swk_classifyItem {cfg : Cfg} (htr : cfg.tr = []) (p p' pne pdt : Path) (sa oa sa' oa' x y : Val) :
    ActSwV x y (classifyItem cfg p pne pdt sa oa x y)
      (classifyItem cfg p' (mirrorPath pne) (mirrorPath pdt) sa' oa' y x) := by
  unfold classifyItem
  simp only [transformAt_noTr htr, id]
  by_cases ht : tyOf x = tyOf y
  · have ht' := ht.symm
    have hsc := tyOf_scalar_eq ht
    by_cases hs : isPyScalar x = true
    · have hs' : isPyScalar y = true := hsc ▸ hs
      by_cases hxy : x = y
      · subst hxy
        by_cases he : cfg.fl.equal = true
        · simp only [ht, hs, he, if_true, ne_eq, not_true_eq_false, if_false, ActSwV]
          exact SwV.of_eq rfl rfl rfl rfl rfl
        · simp only [ht, hs, he, if_true, ne_eq, not_true_eq_false, if_false, ActSwV]
          exact swv_empty
      · have hyx : ¬ y = x := fun h => hxy h.symm
        simp only [ht, hs, hs', if_true, ne_eq, hxy, hyx, not_false_eq_true, ActSwV]
        exact SwV.of_eq rfl rfl rfl rfl rfl
    · have hs' : ¬ isPyScalar y = true := hsc ▸ hs
      simp only [ht, hs, hs', if_true, if_false, Bool.false_eq_true, ActSwV]
  · have ht' : ¬ tyOf y = tyOf x := fun h => ht h.symm
    by_cases hf : cfg.fl.types = true
    · simp only [ht, ht', hf, if_true, if_false, ActSwV]
      exact SwV.of_eq rfl rfl rfl rfl rfl
    · simp only [ht, ht', hf, if_false, ActSwV]
      exact SwV.of_eq rfl rfl rfl rfl rfl

theorem swk_classifyEntry {cfg : Cfg} (htr : cfg.tr = []) (hm : MirrorInv cfg) (full : Path) (x y : Val) :
    ActSwV x y (classifyEntry cfg full x y) (classifyEntry cfg (mirrorPath full) y x) := by
  unfold classifyEntry
  simp only [hm.excl, hm.only]
  by_cases hex : excluded cfg full = true
  · simp only [hex, if_true, ActSwV]; exact swv_empty
  simp only [hex, if_false, transformAt_noTr htr, id]
  by_cases ht : tyOf x = tyOf y
  · have ht' := ht.symm
    have hsc := tyOf_scalar_eq ht
    by_cases hs : isPyScalar x = true
    · have hs' : isPyScalar y = true := hsc ▸ hs
      by_cases hxy : x = y
      · subst hxy
        simp only [ht, hs, if_true, ne_eq, not_true_eq_false, false_and, if_false, ActSwV]
        exact swv_empty
      · have hyx : ¬ y = x := fun h => hxy h.symm
        by_cases ho : onlyOk cfg full = true
        · simp only [ht, hs, hs', if_true, ne_eq, hxy, hyx, not_false_eq_true, ho, and_self, ActSwV]
          exact SwV.of_eq rfl rfl rfl rfl rfl
        · simp only [ht, hs, hs', if_true, ne_eq, hxy, hyx, not_false_eq_true, ho, and_false, if_false, ActSwV]
          exact swv_empty
    · have hs' : ¬ isPyScalar y = true := hsc ▸ hs
      simp only [ht, hs, hs', if_true, if_false, Bool.false_eq_true, ActSwV]
  · have ht' : ¬ tyOf y = tyOf x := fun h => ht h.symm
    by_cases ho : onlyOk cfg full = true
    · by_cases hf : cfg.fl.types = true
      · simp only [ht, ht', ho, hf, if_true, if_false, ActSwV]
        exact SwV.of_eq rfl rfl rfl rfl rfl
      · simp only [ht, ht', ho, hf, if_true, if_false, ActSwV]
        exact SwV.of_eq rfl rfl rfl rfl rfl
    · simp only [ht, ht', ho, if_false, ActSwV]
      exact swv_empty

/-! ### dictionaries: the loop over the common keys, generic in the entry function -/

theorem swk_loopG_swap (f f' : Str → Val → Val → Except PyErr Res) (O : List (Str × Val))
    (hno : keysNodup O = true) :
    ∀ (kvs : List (Str × Val)) (rl : Res), keysNodup kvs = true →
      (∀ k v w r, (k, v) ∈ kvs → Val.lookup k O = some w → f k v w = .ok r →
        ∃ r', f' k w v = .ok r' ∧ SwV r r') →
      loopG f O kvs = .ok rl → ∃ rl', loopG f' kvs O = .ok rl' ∧ SwV rl rl'
  | [], rl, _, _, h => by
    simp only [loopG] at h
    cases h
    exact ⟨Res.empty, loopG_nil_table _ O, swv_empty⟩
  | (k, v) :: rest, rl, hn, hf, h => by
    simp only [keysNodup, Bool.and_eq_true, Bool.not_eq_true'] at hn
    have hkr : Val.lookup k rest = none := by simpa [hasKey] using hn.1
    have hf' : ∀ k v w r, (k, v) ∈ rest → Val.lookup k O = some w → f k v w = .ok r →
        ∃ r', f' k w v = .ok r' ∧ SwV r r' :=
      fun k v w r hm => hf k v w r (List.mem_cons_of_mem _ hm)
    simp only [loopG] at h
    cases hl : Val.lookup k O with
    | none =>
      rw [hl] at h
      obtain ⟨rl', hg, hsw⟩ := swk_loopG_swap f f' O hno rest rl hn.2 hf' h
      exact ⟨rl', by rw [loopG_skip _ k v rest O hl]; exact hg, hsw⟩
    | some w =>
      rw [hl] at h
      simp only at h
      cases hfe : f k v w with
      | error e => rw [hfe] at h; cases h
      | ok r0 =>
        rw [hfe] at h
        simp only at h
        cases hr : loopG f O rest with
        | error e => rw [hr] at h; cases h
        | ok r1 =>
          rw [hr] at h; cases h
          obtain ⟨r1', hg1, hsw1⟩ := swk_loopG_swap f f' O hno rest r1 hn.2 hf' hr
          obtain ⟨r0', hf0, hsw0⟩ := hf k v w r0 (List.mem_cons_self ..) hl hfe
          obtain ⟨r', hg, hc⟩ := loopG_insert f' k v w rest r0' hkr hf0 O r1' hno hl hg1
          exact ⟨r', hg, (swv_append hsw0 hsw1).congr_right hc⟩

theorem swk_leftover_mirror {cfg : Cfg} (hm : MirrorInv cfg) (p : Path) : ∀ l : List (Str × Val),
    (l.filterMap (leftover cfg p)).map (fun e => (⟨mirrorPath e.path, e.v⟩ : UE)) =
      l.filterMap (leftover cfg (mirrorPath p))
  | [] => rfl
  | kv :: l => by
    have e1 : mirrorPath p ++ [PSeg.key kv.1] = mirrorPath (p ++ [PSeg.key kv.1]) := by
      simp [mirrorPath, mirrorSeg]
    have ih := swk_leftover_mirror hm p l
    by_cases hc : (!excluded cfg (p ++ [.key kv.1]) && onlyOk cfg (p ++ [.key kv.1])) = true
    · have hl : leftover cfg p kv = some ⟨p ++ [.key kv.1], kv.2⟩ := by simp only [leftover, hc, if_true]
      have hl' : leftover cfg (mirrorPath p) kv = some ⟨mirrorPath (p ++ [.key kv.1]), kv.2⟩ := by
        simp only [leftover, e1, hm.excl, hm.only, hc, if_true]
      rw [List.filterMap_cons_some hl, List.filterMap_cons_some hl', List.map_cons, ih]
    · have hl : leftover cfg p kv = none := by simp only [leftover, hc, if_false]; rfl
      have hl' : leftover cfg (mirrorPath p) kv = none := by
        simp only [leftover, e1, hm.excl, hm.only, hc, if_false]; rfl
      rw [List.filterMap_cons_none hl, List.filterMap_cons_none hl', ih]

theorem swk_dictTail {cfg : Cfg} (hm : MirrorInv cfg) (p : Path) (sa oa sa' oa' : Val)
    (skvs okvs : List (Str × Val)) (s s' : Bool) :
    SwV (dictTail cfg p sa oa skvs okvs s) (dictTail cfg (mirrorPath p) sa' oa' okvs skvs s') := by
  refine SwV.of_eq rfl ?_ ?_ rfl ?_
  · simp only [dictTail]; rw [swk_leftover_mirror hm]
  · simp only [dictTail]; rw [swk_leftover_mirror hm]
  · simp only [dictTail]
    rw [← swk_leftover_mirror hm, ← swk_leftover_mirror hm, List.length_map, List.length_map]
    omega

/-- the dictionary walk is symmetric as soon as its loop is (prefix `p` against its mirror image) -/
theorem swk_dictWalk_of_loop (cfg : Cfg) (hm : MirrorInv cfg) (p : Path) (sa oa sa' oa' : Val)
    (kvs kvs' : List (Str × Val)) (r : Res)
    (h : dictWalk cfg p sa oa kvs kvs' true kvs = .ok r)
    (hloop : ∀ rl, loopG (entryRes cfg p) kvs' kvs = .ok rl →
      ∃ rl', loopG (entryRes cfg (mirrorPath p)) kvs kvs' = .ok rl' ∧ SwV rl rl') :
    ∃ r', dictWalk cfg (mirrorPath p) sa' oa' kvs' kvs true kvs' = .ok r' ∧ SwV r r' := by
  have h1 := dictWalk_loop cfg p sa oa kvs kvs' kvs true
  rw [h] at h1
  cases hg : loopG (entryRes cfg p) kvs' kvs with
  | error e => rw [hg] at h1; simp [SwapRelE] at h1
  | ok rl =>
    rw [hg] at h1
    simp only [SwapRelE] at h1
    obtain ⟨rl', hg', hsw⟩ := hloop rl hg
    have h2 := dictWalk_loop cfg (mirrorPath p) sa' oa' kvs' kvs kvs' true
    rw [hg'] at h2
    cases hr : dictWalk cfg (mirrorPath p) sa' oa' kvs' kvs true kvs' with
    | error e => rw [hr] at h2; simp [SwapRelE] at h2
    | ok r' =>
      rw [hr] at h2
      simp only [SwapRelE] at h2
      refine ⟨r', rfl, ?_⟩
      exact ((swv_append hsw (swk_dictTail hm p sa oa sa' oa' kvs kvs' true true)).congr_right h2).congr_left h1.symm

/-! ### one keyed level as a generic loop -/

def sumRes : List Res → Res
  | [] => Res.empty
  | r :: rs => r ++ sumRes rs

/-- the loop of `n0list.compare` over the entries `L` of the driving side, `T` = remaining entries of the other
side: a matched pair contributes `f`, an unmatched driving entry `g1` (in place), the entries of the other side
that remain at the end `g2` -/
def loopK (f : Nat → Val → Nat → Val → Except PyErr Res) (g1 g2 : KE → Res) :
    List KE → List KE → Except PyErr Res
  | [], T => .ok (sumRes (T.map g2))
  | (k, i, x) :: L, T =>
    match findKey k T with
    | none => seqR (.ok (g1 (k, i, x))) (loopK f g1 g2 L T)
    | some (j, y) => seqR (f i x j y) (loopK f g1 g2 L (eraseKey k T))

theorem swk_seqR_ok {A B : Except PyErr Res} {r : Res} (h : seqR A B = .ok r) :
    ∃ a b, A = .ok a ∧ B = .ok b ∧ r = a ++ b := by
  cases A with
  | error e => simp [seqR] at h
  | ok a =>
    cases B with
    | error e => simp [seqR] at h
    | ok b =>
      simp only [seqR, Except.ok.injEq] at h
      exact ⟨a, b, rfl, rfl, h.symm⟩

theorem swk_findKey_cons_ne {k k' : Str} (i : Nat) (x : Val) (L : List KE) (h : k' ≠ k) :
    findKey k' ((k, i, x) :: L) = findKey k' L := by
  simp [findKey, h]

theorem swk_eraseKey_cons_ne {k k' : Str} (i : Nat) (x : Val) (L : List KE) (h : k' ≠ k) :
    eraseKey k' ((k, i, x) :: L) = (k, i, x) :: eraseKey k' L := by
  simp [eraseKey, h]

/-- an entry whose key does not occur among the driving entries stays in the table to the end -/
theorem swk_loopK_miss (f : Nat → Val → Nat → Val → Except PyErr Res) (g1 g2 : KE → Res)
    (k : Str) (i : Nat) (x : Val) :
    ∀ (T L : List KE) (r : Res), (∀ e ∈ T, e.1 ≠ k) → loopK f g1 g2 T L = .ok r →
      ∃ r', loopK f g1 g2 T ((k, i, x) :: L) = .ok r' ∧ CorePerm r' (g2 (k, i, x) ++ r)
  | [], L, r, _, h => by
    simp only [loopK, Except.ok.injEq] at h
    subst h
    exact ⟨_, by simp only [loopK, List.map_cons, sumRes], CorePerm.refl _⟩
  | (k', j, y) :: T, L, r, hT, h => by
    have hne : k' ≠ k := hT (k', j, y) (List.mem_cons_self ..)
    have hT' : ∀ e ∈ T, e.1 ≠ k := fun e he => hT e (List.mem_cons_of_mem _ he)
    simp only [loopK] at h ⊢
    rw [swk_findKey_cons_ne i x L hne]
    cases hf : findKey k' L with
    | none =>
      rw [hf] at h
      simp only at h ⊢
      obtain ⟨a, b, ha, hb, rfl⟩ := swk_seqR_ok h
      cases ha
      obtain ⟨r', hr', hc⟩ := swk_loopK_miss f g1 g2 k i x T L b hT' hb
      refine ⟨g1 (k', j, y) ++ r', by rw [hr']; rfl, ?_⟩
      exact ((CorePerm.refl _).append hc).trans (corePerm_left_comm _ _ _)
    | some iy =>
      obtain ⟨i2, x2⟩ := iy
      rw [hf] at h
      simp only at h ⊢
      obtain ⟨a, b, ha, hb, rfl⟩ := swk_seqR_ok h
      rw [swk_eraseKey_cons_ne i x L hne]
      obtain ⟨r', hr', hc⟩ := swk_loopK_miss f g1 g2 k i x T (eraseKey k' L) b hT' hb
      refine ⟨a ++ r', by rw [ha, hr']; rfl, ?_⟩
      exact ((CorePerm.refl _).append hc).trans (corePerm_left_comm _ _ _)

/-- an entry `(k, i, x)` put in front of the table is consumed by the first driving entry with key `k` -/
theorem swk_loopK_hit (f : Nat → Val → Nat → Val → Except PyErr Res) (g1 g2 : KE → Res)
    (k : Str) (i : Nat) (x : Val) (j : Nat) (y : Val) (r0 : Res) (hf0 : f j y i x = .ok r0) :
    ∀ (T L : List KE) (r1 : Res), findKey k T = some (j, y) → loopK f g1 g2 (eraseKey k T) L = .ok r1 →
      ∃ r', loopK f g1 g2 T ((k, i, x) :: L) = .ok r' ∧ CorePerm r' (r0 ++ r1)
  | [], _, _, h, _ => by simp [findKey] at h
  | (k', j', y') :: T, L, r1, hfk, h => by
    by_cases hk : k = k'
    · subst hk
      simp only [findKey, if_true, Option.some.injEq, Prod.mk.injEq] at hfk
      obtain ⟨rfl, rfl⟩ := hfk
      simp only [eraseKey, if_true] at h
      refine ⟨r0 ++ r1, ?_, CorePerm.refl _⟩
      simp only [loopK, findKey, if_true, eraseKey, hf0, h]
      rfl
    · have hne : k' ≠ k := fun e => hk e.symm
      simp only [findKey, hk, if_false] at hfk
      simp only [eraseKey, hk, if_false] at h
      simp only [loopK] at h ⊢
      rw [swk_findKey_cons_ne i x L hne]
      cases hf : findKey k' L with
      | none =>
        rw [hf] at h
        simp only at h ⊢
        obtain ⟨a, b, ha, hb, rfl⟩ := swk_seqR_ok h
        cases ha
        obtain ⟨r', hr', hc⟩ := swk_loopK_hit f g1 g2 k i x j y r0 hf0 T L b hfk hb
        refine ⟨g1 (k', j', y') ++ r', by rw [hr']; rfl, ?_⟩
        exact ((CorePerm.refl _).append hc).trans (corePerm_left_comm _ _ _)
      | some iy =>
        obtain ⟨i2, x2⟩ := iy
        rw [hf] at h
        simp only at h ⊢
        obtain ⟨a, b, ha, hb, rfl⟩ := swk_seqR_ok h
        rw [swk_eraseKey_cons_ne i x L hne]
        obtain ⟨r', hr', hc⟩ := swk_loopK_hit f g1 g2 k i x j y r0 hf0 T (eraseKey k' L) b hfk hb
        refine ⟨a ++ r', by rw [ha, hr']; rfl, ?_⟩
        exact ((CorePerm.refl _).append hc).trans (corePerm_left_comm _ _ _)

theorem swk_loopK_nil_table (f : Nat → Val → Nat → Val → Except PyErr Res) (g1 g2 : KE → Res) :
    ∀ L : List KE, loopK f g1 g2 L [] = .ok (sumRes (L.map g1) ++ Res.empty)
  | [] => by simp only [loopK, List.map_nil, sumRes]; rw [res_empty_append]
  | (k, i, x) :: L => by
    simp only [loopK, findKey, swk_loopK_nil_table f g1 g2 L, seqR, List.map_cons, sumRes]
    rw [res_append_assoc]

theorem swv_sumRes (g g' : KE → Res) (hg : ∀ e, SwV (g e) (g' e)) : ∀ T : List KE,
    SwV (sumRes (T.map g)) (sumRes (T.map g'))
  | [] => swv_empty
  | e :: T => by
    simp only [List.map_cons, sumRes]
    exact swv_append (hg e) (swv_sumRes g g' hg T)

theorem corePerm_append_empty (a : Res) : CorePerm (a ++ Res.empty) a := by
  refine ⟨?_, ?_, ?_, ?_, ?_⟩
  · simp only [append_notEqual, Res.empty, List.append_nil]; exact .refl _
  · simp only [append_selfUnique, Res.empty, List.append_nil]; exact .refl _
  · simp only [append_otherUnique, Res.empty, List.append_nil]; exact .refl _
  · simp only [append_diffTypes, Res.empty, List.append_nil]; exact .refl _
  · simp only [append_diffs, empty_diffs]; omega

/-- **the keyed loop is symmetric**: driving it from the other side visits the same pairs -/
theorem swk_loopK_swap (f f' : Nat → Val → Nat → Val → Except PyErr Res) (g1 g2 g1' g2' : KE → Res)
    (hg12 : ∀ e, SwV (g1 e) (g2' e)) (hg21 : ∀ e, SwV (g2 e) (g1' e)) :
    ∀ (L T : List KE) (r : Res),
      (∀ e ∈ L, ∀ e' ∈ T, ∀ r, f e.2.1 e.2.2 e'.2.1 e'.2.2 = .ok r →
        ∃ r', f' e'.2.1 e'.2.2 e.2.1 e.2.2 = .ok r' ∧ SwV r r') →
      loopK f g1 g2 L T = .ok r → ∃ r', loopK f' g1' g2' T L = .ok r' ∧ SwV r r'
  | [], T, r, _, h => by
    simp only [loopK, Except.ok.injEq] at h
    subst h
    refine ⟨_, swk_loopK_nil_table f' g1' g2' T, ?_⟩
    exact (swv_sumRes g2 g1' hg21 T).congr_right (corePerm_append_empty _)
  | (k, i, x) :: L, T, r, hf, h => by
    have hfL : ∀ T' : List KE, (∀ e ∈ T', e ∈ T) → ∀ e ∈ L, ∀ e' ∈ T', ∀ r, f e.2.1 e.2.2 e'.2.1 e'.2.2 = .ok r →
        ∃ r', f' e'.2.1 e'.2.2 e.2.1 e.2.2 = .ok r' ∧ SwV r r' :=
      fun T' hT' e he e' he' => hf e (List.mem_cons_of_mem _ he) e' (hT' e' he')
    simp only [loopK] at h
    cases hfk : findKey k T with
    | none =>
      rw [hfk] at h
      simp only at h
      obtain ⟨a, b, ha, hb, rfl⟩ := swk_seqR_ok h
      cases ha
      obtain ⟨b', hb', hsw⟩ := swk_loopK_swap f f' g1 g2 g1' g2' hg12 hg21 L T b (hfL T (fun _ h => h)) hb
      obtain ⟨r', hr', hc⟩ := swk_loopK_miss f' g1' g2' k i x T L b' (findKey_none_ne hfk) hb'
      exact ⟨r', hr', (swv_append (hg12 _) hsw).congr_right hc⟩
    | some jy =>
      obtain ⟨j, y⟩ := jy
      rw [hfk] at h
      simp only at h
      obtain ⟨a, b, ha, hb, rfl⟩ := swk_seqR_ok h
      obtain ⟨b', hb', hsw⟩ := swk_loopK_swap f f' g1 g2 g1' g2' hg12 hg21 L (eraseKey k T) b
        (hfL _ (fun e he => eraseKey_sub T k e he)) hb
      obtain ⟨k', hmem⟩ := findKey_mem T k j y hfk
      obtain ⟨a', ha', hswa⟩ := hf (k, i, x) (List.mem_cons_self ..) (k', j, y) hmem a ha
      obtain ⟨r', hr', hc⟩ := swk_loopK_hit f' g1' g2' k i x j y a' ha' T L b' hfk hb'
      exact ⟨r', hr', (swv_append hswa hsw).congr_right hc⟩

/-! ### `keyedWalk` is the generic loop (up to the order of the entries) -/

/-- the result of the pair (left item `x` at `i`, right item `y` at `j`) -/
def kf (cfg : Cfg) (p : Path) (sa oa : Val) : Nat → Val → Nat → Val → Except PyErr Res :=
  fun i x j y => itemRes cfg p (p ++ [if i = j then PSeg.idx i else PSeg.idx2 i j]) (p ++ [if i = j then PSeg.idx i else PSeg.idx2 i j]) sa oa x y

def kg1 (p : Path) (e : KE) : Res := { diffs := 1, selfUnique := [⟨p ++ [.idx e.2.1], e.2.2⟩] }
def kg2 (p : Path) (e : KE) : Res := { diffs := 1, otherUnique := [⟨p ++ [.idx e.2.1], e.2.2⟩] }

theorem swk_sumRes_kg2 (p : Path) : ∀ T : List KE,
    (sumRes (T.map (kg2 p))).notEqual = [] ∧ (sumRes (T.map (kg2 p))).selfUnique = [] ∧
    (sumRes (T.map (kg2 p))).otherUnique = T.map (fun e => ⟨p ++ [.idx e.2.1], e.2.2⟩) ∧
    (sumRes (T.map (kg2 p))).diffTypes = [] ∧ (sumRes (T.map (kg2 p))).diffs = T.length
  | [] => ⟨rfl, rfl, rfl, rfl, rfl⟩
  | e :: T => by
    obtain ⟨h1, h2, h3, h4, h5⟩ := swk_sumRes_kg2 p T
    simp only [List.map_cons, sumRes, append_notEqual, append_selfUnique, append_otherUnique, append_diffTypes,
      append_diffs, h1, h2, h3, h4, h5, kg2, List.length_cons]
    refine ⟨rfl, rfl, rfl, rfl, by omega⟩

theorem swk_rel_seqR {P Q : Res → Res → Prop} (A : Except PyErr Res) {B B' : Except PyErr Res}
    (h : SwapRelE P B B') (hpq : ∀ a b b', P b b' → Q (a ++ b) (a ++ b')) :
    SwapRelE Q (seqR A B) (seqR A B') := by
  cases A with
  | error e => simp [seqR, SwapRelE]
  | ok a =>
    cases B with
    | error e =>
      cases B' with
      | error e' => simp [seqR, SwapRelE]
      | ok b' => simp [SwapRelE] at h
    | ok b =>
      cases B' with
      | error e' => simp [SwapRelE] at h
      | ok b' =>
        simp only [SwapRelE] at h
        simp only [seqR, SwapRelE]
        exact hpq a b b' h

theorem swk_keyedWalk_loopK (cfg : Cfg) (p : Path) (sa oa : Val) :
    ∀ (xs : List Val) (ks : List Str) (i : Nat) (U orr : List KE), ks.length = xs.length →
      (∀ e ∈ U, findKey e.1 orr = none) →
      SwapRelE (fun r rw => CorePerm r (rw ++ keyedTail p U []))
        (keyedWalk cfg p sa oa i xs ks (U ++ mkEntries i ks xs) orr)
        (loopK (kf cfg p sa oa) (kg1 p) (kg2 p) (mkEntries i ks xs) orr)
  | [], ks, i, U, orr, hl, _ => by
    cases ks with
    | cons _ _ => simp at hl
    | nil =>
      simp only [keyedWalk, mkEntries, loopK, SwapRelE, List.append_nil]
      obtain ⟨h1, h2, h3, h4, h5⟩ := swk_sumRes_kg2 p orr
      refine ⟨?_, ?_, ?_, ?_, ?_⟩
      · simp only [append_notEqual, h1, keyedTail]; exact .refl _
      · simp only [append_selfUnique, h2, keyedTail, List.nil_append]; exact .refl _
      · simp only [append_otherUnique, h3, keyedTail, List.map_nil, List.append_nil]; exact .refl _
      · simp only [append_diffTypes, h4, keyedTail]; exact .refl _
      · simp only [append_diffs, h5, keyedTail, List.length_nil]; omega
  | x :: xs, [], i, U, orr, hl, _ => by simp at hl
  | x :: xs, k :: ks, i, U, orr, hl, hU => by
    simp only [List.length_cons, Nat.add_right_cancel_iff] at hl
    simp only [mkEntries]
    rw [keyedWalk_cons]
    simp only [loopK]
    cases hf : findKey k orr with
    | none =>
      simp only
      have hU' : ∀ e ∈ U ++ [(k, i, x)], findKey e.1 orr = none := by
        intro e he
        simp only [List.mem_append, List.mem_singleton] at he
        rcases he with he | rfl
        · exact hU e he
        · exact hf
      have ih := swk_keyedWalk_loopK cfg p sa oa xs ks (i + 1) (U ++ [(k, i, x)]) orr hl hU'
      rw [List.append_assoc, List.singleton_append] at ih
      cases hA : keyedWalk cfg p sa oa (i + 1) xs ks (U ++ (k, i, x) :: mkEntries (i + 1) ks xs) orr with
      | error e =>
        rw [hA] at ih
        cases hB : loopK (kf cfg p sa oa) (kg1 p) (kg2 p) (mkEntries (i + 1) ks xs) orr with
        | error e' => simp [seqR, SwapRelE]
        | ok b => rw [hB] at ih; simp [SwapRelE] at ih
      | ok a =>
        rw [hA] at ih
        cases hB : loopK (kf cfg p sa oa) (kg1 p) (kg2 p) (mkEntries (i + 1) ks xs) orr with
        | error e' => rw [hB] at ih; simp [SwapRelE] at ih
        | ok b =>
          rw [hB] at ih
          simp only [SwapRelE] at ih
          simp only [seqR, SwapRelE]
          refine ih.trans ⟨?_, ?_, ?_, ?_, ?_⟩
          · simp only [append_notEqual, keyedTail, kg1, List.append_nil, List.nil_append]; exact .refl _
          · simp only [append_selfUnique, keyedTail, kg1, List.map_append, List.map_cons, List.map_nil]
            have : ∀ (A B C : List UE), (A ++ (B ++ C)).Perm ((C ++ A) ++ B) := by
              intro A B C
              exact (List.perm_append_comm (l₁ := A) (l₂ := B ++ C)).trans
                (by rw [List.append_assoc, List.append_assoc]
                    exact (List.perm_append_comm (l₁ := B) (l₂ := C ++ A)).trans (by rw [List.append_assoc]))
            exact this _ _ _
          · simp only [append_otherUnique, keyedTail, kg1, List.map_nil, List.append_nil, List.nil_append]
            exact .refl _
          · simp only [append_diffTypes, keyedTail, kg1, List.append_nil, List.nil_append]; exact .refl _
          · simp only [append_diffs, keyedTail, kg1, List.length_append, List.length_cons, List.length_nil]; omega
    | some jy =>
      obtain ⟨j, y⟩ := jy
      simp only
      have hUk : ∀ e ∈ U, e.1 ≠ k := by
        intro e he hh
        have := hU e he
        rw [hh, hf] at this
        cases this
      have hU' : ∀ e ∈ U, findKey e.1 (eraseKey k orr) = none := by
        intro e he
        rw [findKey_eraseKey_ne (hUk e he)]
        exact hU e he
      rw [eraseKey_append_hit i x _ U hUk]
      have ih := swk_keyedWalk_loopK cfg p sa oa xs ks (i + 1) U (eraseKey k orr) hl hU'
      exact swk_rel_seqR _ ih (fun a b b' hb => by
        refine ((CorePerm.refl a).append hb).trans ?_
        exact (corePerm_assoc _ _ _).symm)

theorem corePerm_keyedTail_nil (p : Path) (a : Res) : CorePerm (a ++ keyedTail p [] []) a := by
  refine ⟨?_, ?_, ?_, ?_, ?_⟩
  · simp only [append_notEqual, keyedTail, List.append_nil]; exact .refl _
  · simp only [append_selfUnique, keyedTail, List.map_nil, List.append_nil]; exact .refl _
  · simp only [append_otherUnique, keyedTail, List.map_nil, List.append_nil]; exact .refl _
  · simp only [append_diffTypes, keyedTail, List.append_nil]; exact .refl _
  · simp only [append_diffs, keyedTail, List.length_nil]; omega

/-! ### keys do not depend on the prefix (no transform) -/

theorem swk_recordFields_path {cfg : Cfg} (htr : cfg.tr = []) (p q : Path) (kvs : List (Str × Val)) :
    ∀ (fs : List Str) (acc : List (Str × Val)), recordFields cfg p kvs fs acc = recordFields cfg q kvs fs acc
  | [], acc => by simp [recordFields]
  | f :: fs, acc => by
    simp only [recordFields, transformAt_noTr htr]
    cases Val.lookup f kvs with
    | none => exact swk_recordFields_path htr p q kvs fs acc
    | some v => exact swk_recordFields_path htr p q kvs fs _

theorem swk_keyOf_path {cfg : Cfg} (htr : cfg.tr = []) (p q : Path) (i : Nat) (x : Val) :
    keyOf cfg p i x = keyOf cfg q i x := by
  cases x <;> simp only [keyOf, transformAt_noTr htr]
  rw [swk_recordFields_path htr (p ++ [PSeg.idx i]) (q ++ [PSeg.idx i])]

theorem swk_keysOf_path {cfg : Cfg} (htr : cfg.tr = []) (p q : Path) :
    ∀ (i : Nat) (xs : List Val), keysOf cfg p i xs = keysOf cfg q i xs
  | _, [] => rfl
  | i, x :: xs => by simp only [keysOf, swk_keyOf_path htr p q i x, swk_keysOf_path htr p q (i + 1) xs]

theorem swk_mkEntries_mem : ∀ (ks : List Str) (xs : List Val) (i : Nat), ∀ e ∈ mkEntries i ks xs, e.2.2 ∈ xs
  | [], _, _, e, he => by simp [mkEntries] at he
  | _ :: _, [], _, e, he => by simp [mkEntries] at he
  | k :: ks, x :: xs, i, e, he => by
    simp only [mkEntries, List.mem_cons] at he
    rcases he with rfl | he
    · simp
    · exact List.mem_cons_of_mem _ (swk_mkEntries_mem ks xs (i + 1) e he)

theorem swk_wfL_mem : ∀ (xs : List Val) (x : Val), wfL xs = true → x ∈ xs → wf x = true
  | [], _, _, h => by cases h
  | y :: ys, x, hw, h => by
    simp only [wfL, Bool.and_eq_true] at hw
    rcases List.mem_cons.1 h with rfl | h'
    · exact hw.1
    · exact swk_wfL_mem ys x hw.2 h'

theorem swk_wfK_mem : ∀ (kvs : List (Str × Val)) (k : Str) (v : Val), wfK kvs = true → (k, v) ∈ kvs → wf v = true
  | [], _, _, _, h => by cases h
  | (k', v') :: rest, k, v, hw, h => by
    simp only [wfK, Bool.and_eq_true] at hw
    rcases List.mem_cons.1 h with e | h'
    · cases e; exact hw.1
    · exact swk_wfK_mem rest k v hw.2 h'

/-! ### the induction statement and the two container levels -/

/-- what is proved for one left value `v` (the induction is over `v`) -/
def SwkInv (cfg : Cfg) (v : Val) : Prop :=
  ∀ (site : Site) (p : Path) (w : Val) (r : Res), wf v = true → wf w = true → tyOf v = tyOf w →
    sub cfg site p v w = .ok r → ∃ r', sub cfg site (mirrorPath p) w v = .ok r' ∧ SwV r r'

/-- one pair of list items -/
theorem swk_item (cfg : Cfg) (htr : cfg.tr = []) (p : Path) (i j : Nat) (sa oa sa' oa' x y : Val) (r : Res)
    (hS : SwkInv cfg x) (hwx : wf x = true) (hwy : wf y = true)
    (h : kf cfg p sa oa i x j y = .ok r) :
    ∃ r', kf cfg (mirrorPath p) sa' oa' j y i x = .ok r' ∧ SwV r r' := by
  have hpath : mirrorPath (p ++ [if i = j then PSeg.idx i else PSeg.idx2 i j]) =
      mirrorPath p ++ [if j = i then PSeg.idx j else PSeg.idx2 j i] := by
    rw [swk_mirror_snoc, swk_mirror_seg]
  have hcs := swk_classifyItem htr p (mirrorPath p) (p ++ [if i = j then PSeg.idx i else PSeg.idx2 i j])
    (p ++ [if i = j then PSeg.idx i else PSeg.idx2 i j]) sa oa sa' oa' x y
  rw [hpath] at hcs
  simp only [kf, itemRes] at h ⊢
  cases hcl : classifyItem cfg p (p ++ [if i = j then PSeg.idx i else PSeg.idx2 i j]) (p ++ [if i = j then PSeg.idx i else PSeg.idx2 i j]) sa oa x y with
  | emit ra s =>
    cases hcl' : classifyItem cfg (mirrorPath p) (mirrorPath p ++ [if j = i then PSeg.idx j else PSeg.idx2 j i])
        (mirrorPath p ++ [if j = i then PSeg.idx j else PSeg.idx2 j i]) sa' oa' y x with
    | emit ra' s' =>
      rw [hcl, hcl'] at hcs
      rw [hcl] at h
      simp only [Except.ok.injEq] at h
      subst h
      exact ⟨ra', rfl, hcs⟩
    | descend => rw [hcl, hcl'] at hcs; exact hcs.elim
  | descend =>
    cases hcl' : classifyItem cfg (mirrorPath p) (mirrorPath p ++ [if j = i then PSeg.idx j else PSeg.idx2 j i])
        (mirrorPath p ++ [if j = i then PSeg.idx j else PSeg.idx2 j i]) sa' oa' y x with
    | emit ra' s' => rw [hcl, hcl'] at hcs; exact hcs.elim
    | descend =>
      rw [hcl, hcl'] at hcs
      rw [hcl] at h
      simp only [ActSwV] at hcs
      simp only at h ⊢
      have := hS .item _ y r hwx hwy hcs h
      rw [hpath] at this
      exact this

/-- one common dictionary key -/
theorem swk_entry (cfg : Cfg) (htr : cfg.tr = []) (hm : MirrorInv cfg) (p : Path) (k : Str) (v w : Val) (r : Res)
    (hS : SwkInv cfg v) (hwv : wf v = true) (hww : wf w = true)
    (h : entryRes cfg p k v w = .ok r) :
    ∃ r', entryRes cfg (mirrorPath p) k w v = .ok r' ∧ SwV r r' := by
  have hpath : mirrorPath (p ++ [PSeg.key k]) = mirrorPath p ++ [PSeg.key k] := by
    rw [swk_mirror_snoc]; rfl
  have hcs := swk_classifyEntry htr hm (p ++ [.key k]) v w
  rw [hpath] at hcs
  simp only [entryRes] at h ⊢
  cases hcl : classifyEntry cfg (p ++ [.key k]) v w with
  | emit ra s =>
    cases hcl' : classifyEntry cfg (mirrorPath p ++ [.key k]) w v with
    | emit ra' s' =>
      rw [hcl, hcl'] at hcs
      rw [hcl] at h
      simp only [Except.ok.injEq] at h
      subst h
      exact ⟨ra', rfl, hcs⟩
    | descend => rw [hcl, hcl'] at hcs; exact hcs.elim
  | descend =>
    cases hcl' : classifyEntry cfg (mirrorPath p ++ [.key k]) w v with
    | emit ra' s' => rw [hcl, hcl'] at hcs; exact hcs.elim
    | descend =>
      rw [hcl, hcl'] at hcs
      rw [hcl] at h
      simp only [ActSwV] at hcs
      simp only at h ⊢
      have := hS .entry _ w r hwv hww hcs h
      rw [hpath] at this
      exact this

theorem swk_sub_list_keyed {cfg : Cfg} (hd : cfg.direct = false) (site : Site) (p : Path) (c c' : Cls)
    (xs ys : List Val) :
    sub cfg site p (.list c xs) (.list c' ys) =
      if excluded cfg p then .ok Res.empty
      else
        match keysOf cfg p 0 xs with
        | .error e => .error e
        | .ok ks =>
          match keysOf cfg p 0 ys with
          | .error e => .error e
          | .ok ko =>
            keyedWalk cfg p (.list .n0 xs) (.list .n0 ys) 0 xs ks (mkEntries 0 ks xs) (mkEntries 0 ko ys) := by
  by_cases hex : excluded cfg p = true
  · simp [sub, hd, hex]
  · cases h1 : keysOf cfg p 0 xs with
    | error e => simp [sub, hd, hex, h1]
    | ok ks =>
      cases h2 : keysOf cfg p 0 ys with
      | error e => simp [sub, hd, hex, h1, h2]
      | ok ko => simp [sub, hd, hex, h1, h2]

/-- a pair of lists, given the statement for the items of the left list -/
theorem swk_list_level (cfg : Cfg) (htr : cfg.tr = []) (hd : cfg.direct = false) (hm : MirrorInv cfg)
    (site : Site) (p : Path) (c c' : Cls) (xs ys : List Val) (r : Res)
    (hwx : wfL xs = true) (hwy : wfL ys = true) (hS : ∀ x ∈ xs, SwkInv cfg x)
    (h : sub cfg site p (.list c xs) (.list c' ys) = .ok r) :
    ∃ r', sub cfg site (mirrorPath p) (.list c' ys) (.list c xs) = .ok r' ∧ SwV r r' := by
  rw [swk_sub_list_keyed hd] at h ⊢
  rw [hm.excl]
  by_cases hex : excluded cfg p = true
  · rw [if_pos hex] at h ⊢
    cases h
    exact ⟨Res.empty, rfl, swv_empty⟩
  rw [if_neg hex] at h ⊢
  rw [swk_keysOf_path htr (mirrorPath p) p 0 ys, swk_keysOf_path htr (mirrorPath p) p 0 xs]
  cases hks : keysOf cfg p 0 xs with
  | error e => rw [hks] at h; cases h
  | ok ks =>
    rw [hks] at h
    simp only at h
    cases hko : keysOf cfg p 0 ys with
    | error e => rw [hko] at h; cases h
    | ok ko =>
      rw [hko] at h
      simp only at h ⊢
      have hl := keysOf_length cfg p 0 xs ks hks
      have hlo := keysOf_length cfg p 0 ys ko hko
      -- forward run as a generic loop
      have h1 := swk_keyedWalk_loopK cfg p (.list .n0 xs) (.list .n0 ys) xs ks 0 [] (mkEntries 0 ko ys) hl
        (by intro e he; cases he)
      simp only [List.nil_append] at h1
      rw [h] at h1
      cases hg : loopK (kf cfg p (.list .n0 xs) (.list .n0 ys)) (kg1 p) (kg2 p) (mkEntries 0 ks xs)
          (mkEntries 0 ko ys) with
      | error e => rw [hg] at h1; simp [SwapRelE] at h1
      | ok rw =>
        rw [hg] at h1
        simp only [SwapRelE] at h1
        -- the loop driven from the other side
        obtain ⟨rw', hg', hsw⟩ := swk_loopK_swap (kf cfg p (.list .n0 xs) (.list .n0 ys))
          (kf cfg (mirrorPath p) (.list .n0 ys) (.list .n0 xs)) (kg1 p) (kg2 p) (kg1 (mirrorPath p)) (kg2 (mirrorPath p))
          (fun e => SwV.of_eq rfl rfl (by simp [kg1, kg2, swk_mirror_snoc, mirrorSeg]) rfl rfl)
          (fun e => SwV.of_eq rfl (by simp [kg1, kg2, swk_mirror_snoc, mirrorSeg]) rfl rfl rfl)
          (mkEntries 0 ks xs) (mkEntries 0 ko ys) rw
          (by
            intro e he e' he' r0 hr0
            have hx := swk_mkEntries_mem ks xs 0 e he
            have hy := swk_mkEntries_mem ko ys 0 e' he'
            exact swk_item cfg htr p e.2.1 e'.2.1 _ _ _ _ e.2.2 e'.2.2 r0 (hS _ hx)
              (swk_wfL_mem xs _ hwx hx) (swk_wfL_mem ys _ hwy hy) hr0)
          hg
        -- back to the walk of the swapped run
        have h2 := swk_keyedWalk_loopK cfg (mirrorPath p) (.list .n0 ys) (.list .n0 xs) ys ko 0 []
          (mkEntries 0 ks xs) hlo (by intro e he; cases he)
        simp only [List.nil_append] at h2
        rw [hg'] at h2
        cases hr : keyedWalk cfg (mirrorPath p) (.list .n0 ys) (.list .n0 xs) 0 ys ko (mkEntries 0 ko ys)
            (mkEntries 0 ks xs) with
        | error e => rw [hr] at h2; simp [SwapRelE] at h2
        | ok r' =>
          rw [hr] at h2
          simp only [SwapRelE] at h2
          refine ⟨r', rfl, ?_⟩
          exact (hsw.congr_right (h2.trans (corePerm_keyedTail_nil _ _))).congr_left
            (h1.trans (corePerm_keyedTail_nil _ _)).symm

theorem swk_sub_dict {cfg : Cfg} (site : Site) (p : Path) (c c' : Cls) (kvs kvs' : List (Str × Val)) :
    sub cfg site p (.dict c kvs) (.dict c' kvs') =
      if site = .item ∧ cfg.direct = false ∧ c' = .plain then .error .TypeError
      else dictWalk cfg p (.dict .n0 kvs) (.dict .n0 kvs') kvs kvs' true kvs := by
  simp [sub]

/-- a pair of dictionaries, given the statement for the values of the left one -/
theorem swk_dict_level (cfg : Cfg) (htr : cfg.tr = []) (hm : MirrorInv cfg)
    (site : Site) (p : Path) (c : Cls) (kvs kvs' : List (Str × Val)) (r : Res)
    (hv : wfK kvs = true ∧ keysNodup kvs = true) (hw : wfK kvs' = true ∧ keysNodup kvs' = true)
    (hS : ∀ kv ∈ kvs, SwkInv cfg kv.2)
    (h : sub cfg site p (.dict c kvs) (.dict c kvs') = .ok r) :
    ∃ r', sub cfg site (mirrorPath p) (.dict c kvs') (.dict c kvs) = .ok r' ∧ SwV r r' := by
  rw [swk_sub_dict] at h ⊢
  split at h
  · cases h
  · rename_i hc
    rw [if_neg hc]
    refine swk_dictWalk_of_loop cfg hm p _ _ _ _ kvs kvs' r h ?_
    intro rl hg
    refine swk_loopG_swap (entryRes cfg p) (entryRes cfg (mirrorPath p)) kvs' hw.2 kvs rl hv.2 ?_ hg
    intro k v w r0 hmem hl hr0
    exact swk_entry cfg htr hm p k v w r0 (hS (k, v) hmem) (swk_wfK_mem kvs k v hv.1 hmem)
      (wfK_lookup kvs' k w hw.1 hl) hr0

/-! ### the induction over the left operand -/

mutual
theorem swk_sub (cfg : Cfg) (htr : cfg.tr = []) (hd : cfg.direct = false) (hm : MirrorInv cfg) (v : Val) :
    SwkInv cfg v :=
  match v with
  | .list c xs => by
    have hS := swk_subL cfg htr hd hm xs
    intro site p w r hv hw ht h
    cases w with
    | list c' ys =>
      simp only [wf] at hv hw
      exact swk_list_level cfg htr hd hm site p c c' xs ys r hv hw hS h
    | _ => simp [tyOf] at ht
  | .dict c kvs => by
    have hS := swk_subK cfg htr hd hm kvs
    intro site p w r hv hw ht h
    cases w with
    | dict c' kvs' =>
      simp only [tyOf, Ty.dict.injEq] at ht
      subst ht
      simp only [wf, Bool.and_eq_true] at hv hw
      exact swk_dict_level cfg htr hm site p c kvs kvs' r hv hw hS h
    | _ => simp [tyOf] at ht
  | .none => by
    intro site p w r hv hw ht h
    cases w <;> simp [tyOf] at ht
    simp only [sub] at h ⊢
    cases h
    exact ⟨Res.empty, rfl, swv_empty⟩
  | .bool _ => by intro site p w r hv hw ht h; simp [sub] at h
  | .int _ => by intro site p w r hv hw ht h; simp [sub] at h
  | .flt _ => by intro site p w r hv hw ht h; simp [sub] at h
  | .str _ => by intro site p w r hv hw ht h; simp [sub] at h
termination_by structural v

theorem swk_subL (cfg : Cfg) (htr : cfg.tr = []) (hd : cfg.direct = false) (hm : MirrorInv cfg) (xs : List Val) :
    ∀ x ∈ xs, SwkInv cfg x :=
  match xs with
  | [] => by intro x hx; cases hx
  | z :: xs => by
    have hz := swk_sub cfg htr hd hm z
    have hrest := swk_subL cfg htr hd hm xs
    intro x hx
    rcases List.mem_cons.1 hx with e | hx'
    · rw [e]; exact hz
    · exact hrest x hx'
termination_by structural xs

theorem swk_subK (cfg : Cfg) (htr : cfg.tr = []) (hd : cfg.direct = false) (hm : MirrorInv cfg)
    (kvs : List (Str × Val)) : ∀ kv ∈ kvs, SwkInv cfg kv.2 :=
  match kvs with
  | [] => by intro x hx; cases hx
  | (k, z) :: kvs => by
    have hz := swk_sub cfg htr hd hm z
    have hrest := swk_subK cfg htr hd hm kvs
    intro x hx
    rcases List.mem_cons.1 hx with e | hx'
    · rw [e]; exact hz
    · exact hrest x hx'
termination_by structural kvs
end

/-! ### the entry point -/

theorem swk_rootPair {cfg : Cfg} {a b : Val} {r : Res} (h : compareTop cfg a b = .ok r) : RootPair a b := by
  unfold compareTop at h
  split at h
  · split at h
    · simp [RootPair]
    · cases h
  · split at h
    · simp [RootPair]
    · cases h
  · cases h

theorem swk_rootPair_symm {a b : Val} (h : RootPair a b) : RootPair b a := by
  cases a with
  | dict c kvs =>
    cases c <;> cases b <;> try (simp [RootPair] at h)
    rename_i c' kvs'
    cases c' <;> simp [RootPair] at h ⊢
  | list c xs =>
    cases c <;> cases b <;> try (simp [RootPair] at h)
    rename_i c' ys
    cases c' <;> simp [RootPair] at h ⊢
  | _ => simp [RootPair] at h

/-- **swap symmetry of the keyed entry point, every flag record** (no transform, mirror-invariant path filters,
unique dictionary keys — no assumption on the item keys) -/
theorem compareTop_swap_keyed (cfg : Cfg) (a b : Val) (r : Res) (htr : cfg.tr = []) (hd : cfg.direct = false)
    (hm : MirrorInv cfg) (hw : wf a = true) (hw' : wf b = true) (h : compareTop cfg a b = .ok r) :
    ∃ r', compareTop cfg b a = .ok r' ∧ SwV r r' := by
  have hr := swk_rootPair h
  rw [compareTop_eq_sub cfg a b hr] at h
  rw [compareTop_eq_sub cfg b a (swk_rootPair_symm hr)]
  exact swk_sub cfg htr hd hm a .entry [] b r hw hw' (rootPair_ty hr).1 h

/-- with the types flag off no `difftypes` entry is ever produced -/
theorem swk_noDiffTypes (cfg : Cfg) (ht : cfg.fl.types = false) (a b : Val) (r : Res)
    (h : compareTop cfg a b = .ok r) : r.diffTypes = [] := by
  refine compareTop_all (fun r => r.diffTypes = []) cfg ?_ (fun r _ h2 => h2) ?_ ?_ a b r h
  · intro a b ha hb
    simp only [append_diffTypes, ha, hb, List.append_nil]
  · intro p pne pdt sa oa x y
    unfold classifyItem
    simp only [ht]
    repeat' split
    all_goals simp_all [ActP, Res.empty]
  · intro full x y
    unfold classifyEntry
    simp only [ht]
    repeat' split
    all_goals simp_all [ActP, Res.empty]

/-- **swap symmetry of the keyed entry point, every flag record** (`C09_swap_stmt` without its hypotheses on the
item keys and on the types flag): `b.compare(a)` is the mirror image of `a.compare(b)` as multisets of entries -/
theorem swap_keyed (cfg : Cfg) (a b : Val) (r : Res) (htr : cfg.tr = []) (hd : cfg.direct = false)
    (hex : ∀ p, excluded cfg (mirrorPath p) = excluded cfg p) (hon : ∀ p, onlyOk cfg (mirrorPath p) = onlyOk cfg p)
    (hw : wf a = true) (hw' : wf b = true) (h : compareTop cfg a b = .ok r) :
    ∃ r', compareTop cfg b a = .ok r' ∧
      (r'.notEqual.Perm r.mirror.notEqual ∧ r'.selfUnique.Perm r.mirror.selfUnique ∧
       r'.otherUnique.Perm r.mirror.otherUnique ∧ r'.diffTypes.Perm r.mirror.diffTypes ∧ r'.diffs = r.diffs) := by
  obtain ⟨r', hr', hsw⟩ := compareTop_swap_keyed cfg a b r htr hd ⟨hex, hon⟩ hw hw' h
  exact ⟨r', hr', hsw.ne, hsw.su, hsw.ou, hsw.dt, hsw.diffs⟩

/-- the statement kept in `CompareSwap.lean` holds (its `keysOK` hypotheses are not needed) -/
theorem swap_keyed_stmt_holds : swap_keyed_stmt := by
  intro cfg a b r htr hd _ hex hon hw hw' _ _ h
  exact swap_keyed cfg a b r htr hd hex hon hw hw' h

/-- default options: the path filters are trivially mirror-invariant -/
theorem swk_mirrorInv_noPathOpts {cfg : Cfg} (h : NoPathOpts cfg) : MirrorInv cfg :=
  ⟨fun p => by rw [excluded_npo h, excluded_npo h], fun p => by rw [onlyOk_npo h, onlyOk_npo h]⟩

/-- the verdict of the keyed entry point is symmetric (no transform, mirror-invariant filters, every flag record) -/
theorem verdict_swap_keyed (cfg : Cfg) (a b : Val) (r : Res) (htr : cfg.tr = []) (hd : cfg.direct = false)
    (hm : MirrorInv cfg) (hw : wf a = true) (hw' : wf b = true) (h : compareTop cfg a b = .ok r) :
    verdict (compareTop cfg b a) = verdict (compareTop cfg a b) := by
  obtain ⟨r', hr', hsw⟩ := compareTop_swap_keyed cfg a b r htr hd hm hw hw' h
  have hdf : r'.diffs = r.diffs := hsw.diffs
  simp [verdict, h, hr', hdf]

/-- with the types flag ON the place of a clash found inside a keyed list is mirrored too (fix C09-b): the
record `{i: '1'}` against `[{}, dict(i='1')]` with `composite_key='i'` reports the clash at `[0]<>[1]`, the swapped
run at `[1]<>[0]` (before the fix: `[0]` and `[1]`) -/
theorem swap_keyed_types_example :
    (compareTop { Cfg.default ⟨true, false, false, false, false, true⟩ false with ck := .one ['i'] }
        (.list .n0 [.dict .n0 [(['i'], .str ['1'])]])
        (.list .n0 [.dict .n0 [], .dict .plain [(['i'], .str ['1'])]])).map (fun r => r.diffTypes.map (·.path))
      = .ok [[.idx2 0 1]] ∧
    (compareTop { Cfg.default ⟨true, false, false, false, false, true⟩ false with ck := .one ['i'] }
        (.list .n0 [.dict .n0 [], .dict .plain [(['i'], .str ['1'])]])
        (.list .n0 [.dict .n0 [(['i'], .str ['1'])]])).map (fun r => r.diffTypes.map (·.path))
      = .ok [[.idx2 1 0]] := by
  decide

end N0.Compare
