import N0Verif.Proofs.NXmlStr
/-!
  The `**/**` collapse of `n0xml.findall` (`while True: normalized = xpath.replace("**/**", "**") …`,
  model `normStars`): Python's strategy (passes of leftmost non-overlapping replacements, repeated
  until nothing changes) is proved to compute a strategy-independent normal form `ddNF`:

  * `replace_ddNF`     one `replace` pass does not change `ddNF`;
  * `ddNF_rewrite`     `ddNF (a ++ "**/**" ++ b) = ddNF (a ++ "**" ++ b)` for **every** context `a`, `b`;
  * `normStars_noDD`   the loop ends with a text that has no `**/**` (the fuel `len + 1` suffices: every
                       pass that changes the text shortens it);
  * `normStars_eq_ddNF` hence `normStars (len + 1) s = ddNF s`.

  Everything is unbounded in the length of the expression; nothing here looks at the document (the
  search only ever sees `xpSteps xp`).
-/
namespace N0.NXml
open N0 N0.Py

/-- the normal form: scanning from the left, a `**/**` at the current position loses its first
three characters (so `**/**/**…` keeps collapsing at the same position) -/
def ddNF : Str → Str
  | [] => []
  | c :: r => if startsWith (c :: r) starsPat then ddNF ((c :: r).drop 3) else c :: ddNF r
termination_by s => s.length
decreasing_by
  all_goals simp
  all_goals omega

theorem startsWith_pat_iff (s : Str) :
    startsWith s starsPat = true ↔ ∃ r, s = '*' :: '*' :: '/' :: '*' :: '*' :: r := by
  constructor
  · intro h
    match s, h with
    | c1 :: c2 :: c3 :: c4 :: c5 :: r, h =>
      simp [startsWith, starsPat] at h
      obtain ⟨h1, h2, h3, h4, h5⟩ := h
      subst h1; subst h2; subst h3; subst h4; subst h5
      exact ⟨r, rfl⟩
    | [], h => simp [startsWith, starsPat] at h
    | [_], h => simp [startsWith, starsPat] at h
    | [_, _], h => simp [startsWith, starsPat] at h
    | [_, _, _], h => simp [startsWith, starsPat] at h
    | [_, _, _, _], h => simp [startsWith, starsPat] at h
  · rintro ⟨r, rfl⟩
    simp [startsWith, starsPat]

theorem ddNF_pat (r : Str) : ddNF ('*' :: '*' :: '/' :: '*' :: '*' :: r) = ddNF ('*' :: '*' :: r) := by
  rw [ddNF]
  simp [startsWith, starsPat]

theorem ddNF_not (c : Char) (r : Str) (h : startsWith (c :: r) starsPat = false) :
    ddNF (c :: r) = c :: ddNF r := by
  rw [ddNF]
  simp [h]

/-- a text without `**/**` is its own normal form -/
theorem ddNF_noop (s : Str) (h : isInfix starsPat s = false) : ddNF s = s := by
  induction s with
  | nil => rw [ddNF]
  | cons c s ih =>
    simp only [isInfix, Bool.or_eq_false_iff] at h
    rw [ddNF_not c s h.1, ih h.2]

/-- **one rewrite anywhere does not change the normal form** -/
theorem ddNF_rewrite (a b : Str) : ddNF (a ++ starsPat ++ b) = ddNF (a ++ star2 ++ b) := by
  generalize hn : a.length = n
  induction n using Nat.strongRecOn generalizing a with
  | ind n ih =>
    cases a with
    | nil => simpa [starsPat, star2] using ddNF_pat b
    | cons c a' =>
      cases hL : startsWith (c :: a' ++ starsPat ++ b) starsPat with
      | true =>
        obtain ⟨r, hr⟩ := (startsWith_pat_iff _).1 hL
        match a', hr, hn with
        | [], hr, _ => simp [starsPat] at hr
        | [x], hr, _ => simp [starsPat] at hr
        | [x, y], hr, _ =>
          simp [starsPat] at hr
          obtain ⟨rfl, rfl, rfl, hr⟩ := hr
          show ddNF ('*' :: '*' :: '/' :: '*' :: '*' :: ('/' :: '*' :: '*' :: b)) =
            ddNF ('*' :: '*' :: '/' :: '*' :: '*' :: b)
          simp only [ddNF_pat]
        | [x, y, z], hr, hn =>
          simp [starsPat] at hr
          obtain ⟨rfl, rfl, rfl, rfl, hr⟩ := hr
          show ddNF ('*' :: '*' :: '/' :: '*' :: '*' :: ('*' :: '/' :: '*' :: '*' :: b)) =
            ddNF ('*' :: '*' :: '/' :: '*' :: '*' :: ('*' :: b))
          rw [ddNF_pat, ddNF_pat]
          have := ih 1 (by simp at hn; omega) ['*'] rfl
          simpa [starsPat, star2] using this
        | x :: y :: z :: w :: a'', hr, hn =>
          simp [starsPat] at hr
          obtain ⟨rfl, rfl, rfl, rfl, rfl, hr⟩ := hr
          show ddNF ('*' :: '*' :: '/' :: '*' :: '*' :: (a'' ++ starsPat ++ b)) =
            ddNF ('*' :: '*' :: '/' :: '*' :: '*' :: (a'' ++ star2 ++ b))
          rw [ddNF_pat, ddNF_pat]
          have := ih (a''.length + 2) (by simp at hn; omega) ('*' :: '*' :: a'') (by simp)
          simpa using this
      | false =>
        have hR : startsWith (c :: a' ++ star2 ++ b) starsPat = false := by
          cases hR : startsWith (c :: a' ++ star2 ++ b) starsPat with
          | false => rfl
          | true =>
            exfalso
            obtain ⟨r, hr⟩ := (startsWith_pat_iff _).1 hR
            match a', hr, hL with
            | [], hr, _ => simp [star2] at hr
            | [x], hr, _ => simp [star2] at hr
            | [x, y], hr, hL =>
              simp [star2] at hr
              obtain ⟨rfl, rfl, rfl, hr⟩ := hr
              simp [startsWith, starsPat] at hL
            | [x, y, z], hr, hL =>
              simp [star2] at hr
              obtain ⟨rfl, rfl, rfl, rfl, hr⟩ := hr
              simp [startsWith, starsPat] at hL
            | x :: y :: z :: w :: a'', hr, hL =>
              simp [star2] at hr
              obtain ⟨rfl, rfl, rfl, rfl, rfl, hr⟩ := hr
              simp [startsWith, starsPat] at hL
        have e1 : c :: a' ++ starsPat ++ b = c :: (a' ++ starsPat ++ b) := by simp
        have e2 : c :: a' ++ star2 ++ b = c :: (a' ++ star2 ++ b) := by simp
        rw [e1] at hL ⊢
        rw [e2] at hR ⊢
        rw [ddNF_not _ _ hL, ddNF_not _ _ hR, ih a'.length (by simp at hn; omega) a' rfl]

/-! ### one `replace("**/**", "**")` pass -/

theorem splitAux_ne (sep : Str) (n : Nat) : ∀ (f : Nat) (cur s : Str), splitAux sep n f cur s ≠ [] := by
  intro f
  induction f with
  | zero => intro cur s; simp [splitAux]
  | succ f ih =>
    intro cur s
    cases s with
    | nil => simp [splitAux]
    | cons c s =>
      rw [splitAux]
      split
      · simp
      · exact ih _ _

theorem join_cons_ne (sep x : Str) (rest : List Str) (h : rest ≠ []) :
    join sep (x :: rest) = x ++ sep ++ join sep rest := by
  cases rest with
  | nil => exact absurd rfl h
  | cons y ys => rfl

theorem pass_ddNF : ∀ (f : Nat) (cur s pre : Str), s.length < f →
    ddNF (pre ++ join star2 (splitAux starsPat 5 f cur s)) = ddNF (pre ++ cur.reverse ++ s) := by
  intro f
  induction f with
  | zero => intro cur s pre h; omega
  | succ f ih =>
    intro cur s pre hf
    cases s with
    | nil => simp [splitAux, join]
    | cons c s =>
      rw [splitAux]
      cases hs : startsWith (c :: s) starsPat with
      | true =>
        obtain ⟨r, hr⟩ := (startsWith_pat_iff _).1 hs
        simp only [if_true]
        rw [join_cons_ne _ _ _ (splitAux_ne _ _ _ _ _), hr]
        have hd : ('*' :: '*' :: '/' :: '*' :: '*' :: r).drop 5 = r := rfl
        rw [hd]
        have hlen : r.length < f := by
          have := congrArg List.length hr
          simp at this hf
          omega
        have h1 := ih [] r (pre ++ cur.reverse ++ star2) hlen
        simp only [List.reverse_nil, List.append_nil] at h1
        have h2 := ddNF_rewrite (pre ++ cur.reverse) r
        simp only [List.append_assoc] at h1 h2 ⊢
        rw [h1, ← h2]
        rfl
      | false =>
        simp only [Bool.false_eq_true, if_false]
        rw [ih (c :: cur) s pre (by simp at hf; omega)]
        simp

/-- a `replace` pass keeps the normal form -/
theorem replace_ddNF (s : Str) : ddNF (replace starsPat star2 s) = ddNF s := by
  have := pass_ddNF (s.length + 1) [] s [] (Nat.lt_succ_self _)
  simpa [replace, split, starsPat] using this

theorem pass_len_le : ∀ (f : Nat) (cur s : Str), s.length < f →
    (join star2 (splitAux starsPat 5 f cur s)).length ≤ cur.length + s.length := by
  intro f
  induction f with
  | zero => intro cur s h; omega
  | succ f ih =>
    intro cur s hf
    cases s with
    | nil => simp [splitAux, join]
    | cons c s =>
      rw [splitAux]
      cases hs : startsWith (c :: s) starsPat with
      | true =>
        obtain ⟨r, hr⟩ := (startsWith_pat_iff _).1 hs
        simp only [if_true]
        rw [join_cons_ne _ _ _ (splitAux_ne _ _ _ _ _), hr]
        have hd : ('*' :: '*' :: '/' :: '*' :: '*' :: r).drop 5 = r := rfl
        rw [hd]
        have hlen : r.length < f := by
          have := congrArg List.length hr
          simp at this hf
          omega
        have h1 := ih [] r hlen
        simp [star2] at h1 ⊢
        omega
      | false =>
        simp only [Bool.false_eq_true, if_false]
        have := ih (c :: cur) s (by simp at hf; omega)
        simp at this ⊢
        omega

theorem pass_len_lt : ∀ (f : Nat) (cur s : Str), s.length < f → isInfix starsPat s = true →
    (join star2 (splitAux starsPat 5 f cur s)).length < cur.length + s.length := by
  intro f
  induction f with
  | zero => intro cur s h; omega
  | succ f ih =>
    intro cur s hf hin
    cases s with
    | nil => simp [isInfix, starsPat] at hin
    | cons c s =>
      rw [splitAux]
      cases hs : startsWith (c :: s) starsPat with
      | true =>
        obtain ⟨r, hr⟩ := (startsWith_pat_iff _).1 hs
        simp only [if_true]
        rw [join_cons_ne _ _ _ (splitAux_ne _ _ _ _ _), hr]
        have hd : ('*' :: '*' :: '/' :: '*' :: '*' :: r).drop 5 = r := rfl
        rw [hd]
        have hlen : r.length < f := by
          have := congrArg List.length hr
          simp at this hf
          omega
        have h1 := pass_len_le f [] r hlen
        simp [star2] at h1 ⊢
        omega
      | false =>
        simp only [Bool.false_eq_true, if_false]
        simp only [isInfix, hs, Bool.false_or] at hin
        have := ih (c :: cur) s (by simp at hf; omega) hin
        simp at this ⊢
        omega

/-- a pass over a text that contains `**/**` shortens it -/
theorem replace_len_lt (s : Str) (h : isInfix starsPat s = true) :
    (replace starsPat star2 s).length < s.length := by
  have := pass_len_lt (s.length + 1) [] s (Nat.lt_succ_self _) h
  simpa [replace, split, starsPat] using this

theorem replace_fix_iff (s : Str) : replace starsPat star2 s = s ↔ isInfix starsPat s = false := by
  constructor
  · intro h
    cases hi : isInfix starsPat s with
    | false => rfl
    | true =>
      have := replace_len_lt s hi
      rw [h] at this
      omega
  · exact replace_noop _ _ _

/-- **the loop removes every `**/**`** (the fuel `len + 1` of `xpSteps` is enough) -/
theorem normStars_noDD : ∀ (f : Nat) (s : Str), s.length < f → isInfix starsPat (normStars f s) = false := by
  intro f
  induction f with
  | zero => intro s h; omega
  | succ f ih =>
    intro s hf
    rw [normStars]
    by_cases h : replace starsPat star2 s = s
    · simp only [h, if_true]
      exact (replace_fix_iff s).1 h
    · simp only [h, if_false]
      apply ih
      have hi : isInfix starsPat s = true := by
        cases hi : isInfix starsPat s with
        | true => rfl
        | false => exact absurd ((replace_fix_iff s).2 hi) h
      have := replace_len_lt s hi
      omega

/-- **the loop computes the normal form** -/
theorem normStars_eq_ddNF : ∀ (f : Nat) (s : Str), s.length < f → normStars f s = ddNF s := by
  intro f
  induction f with
  | zero => intro s h; omega
  | succ f ih =>
    intro s hf
    rw [normStars]
    by_cases h : replace starsPat star2 s = s
    · simp only [h, if_true]
      exact (ddNF_noop s ((replace_fix_iff s).1 h)).symm
    · simp only [h, if_false]
      have hi : isInfix starsPat s = true := by
        cases hi : isInfix starsPat s with
        | true => rfl
        | false => exact absurd ((replace_fix_iff s).2 hi) h
      have := replace_len_lt s hi
      rw [ih _ (by omega), replace_ddNF]

/-- `normalized` of `findall` -/
def normXp (xp : Str) : Str := normStars (xp.length + 1) xp

theorem normXp_eq (xp : Str) : normXp xp = ddNF xp := normStars_eq_ddNF _ _ (Nat.lt_succ_self _)

theorem normXp_noDD (xp : Str) : isInfix starsPat (normXp xp) = false :=
  normStars_noDD _ _ (Nat.lt_succ_self _)

theorem normXp_idem (xp : Str) : normXp (normXp xp) = normXp xp :=
  normStars_noop _ _ (normXp_noDD xp)

theorem xpSteps_norm (xp : Str) : xpSteps (normXp xp) = xpSteps xp := by
  show splitPath (normXp (normXp xp)) = splitPath (normXp xp)
  rw [normXp_idem]

/-- collapsing one `**/**` anywhere in the text does not change what `findall` reads -/
theorem xpSteps_rewrite (a b : Str) : xpSteps (a ++ starsPat ++ b) = xpSteps (a ++ star2 ++ b) := by
  show splitPath (normXp _) = splitPath (normXp _)
  rw [normXp_eq, normXp_eq, ddNF_rewrite]

/-! ### runs of `**` steps in the text -/

/-- `"/**"` repeated `k` times -/
def ddTail : Nat → Str
  | 0 => []
  | k + 1 => '/' :: '*' :: '*' :: ddTail k

/-- a run of `k + 1` steps `**`: `**`, `**/**`, `**/**/**`, … -/
def ddRun (k : Nat) : Str := star2 ++ ddTail k

/-- a run of `**` steps reads like a single `**`, in every context (`a` may end with `/`, `b` may
begin with `/` or with an index / a condition of the last `**` of the run) -/
theorem xpSteps_run (a b : Str) (k : Nat) : xpSteps (a ++ ddRun k ++ b) = xpSteps (a ++ star2 ++ b) := by
  induction k with
  | zero => simp [ddRun, ddTail]
  | succ k ih =>
    rw [← ih]
    have := xpSteps_rewrite a (ddTail k ++ b)
    simpa [ddRun, ddTail, starsPat, star2] using this

/-! ### the grammar of the property: what the collapse does to a token list -/

def isDeepTok : Tok → Bool
  | some st => st.tag == star2
  | none => false

/-- a plain `**` token directly followed by a token with tag `**` is dropped -/
def collapseDD : List Tok → List Tok
  | x :: y :: rest =>
    if x = some stDeep ∧ isDeepTok y = true then collapseDD (y :: rest) else x :: collapseDD (y :: rest)
  | [x] => [x]
  | [] => []

theorem isDeepTok_iff (y : Tok) : isDeepTok y = true ↔ ∃ st, y = some st ∧ st.tag = star2 := by
  cases y with
  | none => simp [isDeepTok]
  | some st => simp [isDeepTok]

theorem collapseDD_head : ∀ (y : Tok) (rest : List Tok),
    ∃ h t, collapseDD (y :: rest) = h :: t ∧ isDeepTok h = isDeepTok y
  | y, [] => ⟨y, [], rfl, rfl⟩
  | y, z :: rest => by
    rw [collapseDD]
    split
    · next hp =>
      obtain ⟨h, t, e, hd⟩ := collapseDD_head z rest
      refine ⟨h, t, e, ?_⟩
      rw [hd, hp.2, hp.1]
      rfl
    · exact ⟨y, _, rfl, rfl⟩

theorem collapseDD_ne (e : List Tok) (hne : e ≠ []) : collapseDD e ≠ [] := by
  cases e with
  | nil => exact absurd rfl hne
  | cons y rest =>
    obtain ⟨h, t, e, _⟩ := collapseDD_head y rest
    rw [e]; simp

theorem collapseDD_mem : ∀ (e : List Tok) (t : Tok), t ∈ collapseDD e → t ∈ e
  | [], t, h => by simp [collapseDD] at h
  | [x], t, h => by simpa [collapseDD] using h
  | x :: y :: rest, t, h => by
    rw [collapseDD] at h
    split at h
    · exact List.mem_cons_of_mem _ (collapseDD_mem (y :: rest) t h)
    · rcases List.mem_cons.1 h with e | h
      · rw [e]; simp
      · exact List.mem_cons_of_mem _ (collapseDD_mem (y :: rest) t h)

/-- **after the collapse no plain `**` token is directly followed by a `**…` token** -/
theorem collapseDD_NoDD : ∀ e : List Tok, NoDD (collapseDD e)
  | [] => by simp [collapseDD, NoDD]
  | [x] => by simp [collapseDD, NoDD]
  | x :: y :: rest => by
    rw [collapseDD]
    split
    · exact collapseDD_NoDD (y :: rest)
    · next hp =>
      obtain ⟨h, t, e, hd⟩ := collapseDD_head y rest
      have ih := collapseDD_NoDD (y :: rest)
      rw [e] at ih ⊢
      refine ⟨?_, ih⟩
      rintro ⟨hx, hst⟩
      exact hp ⟨hx, by rw [← hd]; exact (isDeepTok_iff h).2 hst⟩

theorem collapseDD_idem (e : List Tok) : collapseDD (collapseDD e) = collapseDD e := by
  have : ∀ l : List Tok, NoDD l → collapseDD l = l := by
    intro l
    induction l with
    | nil => intro _; rfl
    | cons x l ih =>
      intro h
      cases l with
      | nil => rfl
      | cons y rest =>
        obtain ⟨hxy, h'⟩ := h
        rw [collapseDD, if_neg (fun hp => hxy ⟨hp.1, (isDeepTok_iff y).1 hp.2⟩), ih h']
  exact this _ (collapseDD_NoDD e)

theorem renderExpr_cons2 (x y : Tok) (rest : List Tok) :
    renderExpr (x :: y :: rest) = renderTok x ++ '/' :: renderExpr (y :: rest) := by
  simp [renderExpr, join]

theorem renderExpr_deep_head (y : Tok) (rest : List Tok) (hy : isDeepTok y = true) :
    ∃ tail, renderExpr (y :: rest) = star2 ++ tail := by
  obtain ⟨st, rfl, htag⟩ := (isDeepTok_iff y).1 hy
  obtain ⟨r, hj, _⟩ := join_render_cons (some st) rest
  refine ⟨(renderIdx st.idx ++ renderCond st.cond) ++ r, ?_⟩
  unfold renderExpr
  rw [hj]
  simp [renderTok, renderStepE, htag]

/-- the text of an expression and the text of its collapsed token list have the same normal form,
in every left context -/
theorem ddNF_renderExpr : ∀ (e : List Tok) (pre : Str),
    ddNF (pre ++ renderExpr e) = ddNF (pre ++ renderExpr (collapseDD e))
  | [], _ => rfl
  | [x], _ => rfl
  | x :: y :: rest, pre => by
    rw [collapseDD]
    split
    · next hp =>
      obtain ⟨tail, ht⟩ := renderExpr_deep_head y rest hp.2
      rw [← ddNF_renderExpr (y :: rest) pre, renderExpr_cons2, hp.1, ht]
      have := ddNF_rewrite pre tail
      simpa [renderTok, renderStepE, stDeep, renderIdx, renderCond, starsPat, star2] using this
    · obtain ⟨h, t, e, _⟩ := collapseDD_head y rest
      have ih := ddNF_renderExpr (y :: rest) (pre ++ renderTok x ++ ['/'])
      rw [e] at ih ⊢
      rw [renderExpr_cons2, renderExpr_cons2]
      simpa using ih

/-- **what `findall` reads from a rendered grammar expression — `**/**` allowed**: the rendered
steps of the collapsed token list -/
theorem xpSteps_render_dd (e : List Tok) (hne : e ≠ []) (hwf : ∀ t ∈ e, WfTok t) :
    xpSteps (renderExpr e) = (collapseDD e).map renderTok := by
  have hwf' : ∀ t ∈ collapseDD e, WfTok t := fun t ht => hwf t (collapseDD_mem e t ht)
  have h1 : xpSteps (renderExpr e) = xpSteps (renderExpr (collapseDD e)) := by
    show splitPath (normXp _) = splitPath (normXp _)
    rw [normXp_eq, normXp_eq]
    have h0 := ddNF_renderExpr e []
    simp only [List.nil_append] at h0
    rw [h0]
  rw [h1]
  exact xpSteps_render _ (collapseDD_ne e hne) hwf' (renderExpr_noStars _ hwf' (collapseDD_NoDD e))

theorem parseExpr_renderExpr_dd (e : List Tok) (hne : e ≠ []) (hwf : ∀ t ∈ e, WfTok t) :
    parseExpr (renderExpr e) = some (collapseDD e) := by
  unfold parseExpr
  rw [xpSteps_render_dd e hne hwf]
  exact mapM_parseTok _ (fun t ht => hwf t (collapseDD_mem e t ht))

/-! ### reading "no `**/**` in the text" on the list of steps -/

theorem isInfix_mid (a b : Str) : isInfix starsPat (a ++ starsPat ++ b) = true := by
  induction a with
  | nil => simp [isInfix, startsWith, starsPat]
  | cons c a ih =>
    have : c :: a ++ starsPat ++ b = c :: (a ++ starsPat ++ b) := by simp
    rw [this, isInfix, ih]
    simp

theorem join_mid (X Y : Str) (post : List Str) : ∀ pre : List Str,
    ∃ A B, join ['/'] (pre ++ X :: Y :: post) = A ++ X ++ '/' :: Y ++ B
  | [] => by
    cases post with
    | nil => exact ⟨[], [], by simp [join]⟩
    | cons z zs => exact ⟨[], '/' :: join ['/'] (z :: zs), by simp [join]⟩
  | p :: pre => by
    obtain ⟨A, B, h⟩ := join_mid X Y post pre
    refine ⟨p ++ '/' :: A, B, ?_⟩
    have : p :: pre ++ X :: Y :: post = p :: (pre ++ X :: Y :: post) := rfl
    rw [this, join_cons_ne _ _ _ (by simp), h]
    simp

/-- a text without `**/**` is not the `'/'.join` of a step list in which a step ending in `**` (in
particular a plain `**`) is directly followed by a step beginning with `**` -/
theorem noDD_steps (t : Str) (h : isInfix starsPat t = false) (pre post : List Str) (x y : Str) :
    t ≠ join ['/'] (pre ++ (x ++ star2) :: (star2 ++ y) :: post) := by
  intro e
  obtain ⟨A, B, hj⟩ := join_mid (x ++ star2) (star2 ++ y) post pre
  rw [hj] at e
  have h2 := isInfix_mid (A ++ x) (y ++ B)
  have e2 : A ++ (x ++ star2) ++ '/' :: (star2 ++ y) ++ B = A ++ x ++ starsPat ++ (y ++ B) := by
    simp [star2, starsPat]
  rw [e, e2, h2] at h
  cases h

end N0.NXml
