import N0Verif.Proofs.XPathCreate2
import N0Verif.Proofs.XPathSpellings
/-!
  Index steps on a single value — the *hidden list* (fix C03-e).

  Lookup reads a value that is not a list as the list of this one item.  `_find` reports an item of that
  list with the temporary tuple `(value,)` as the parent (`PRef.wrap`); `__setitem__` (`hiddenPlace`)
  resolves the text `found` once more to get the place where the value really is:

  * `hidden_find_last`, `hidden_find_miss`: what `_find` reports for `[i]` on a single value;
  * `hidden_place_found`, `hidden_place_one`, `hidden_place_other`: what `__setitem__` makes of it;
  * `setItem_hidden_replace` (`name[0]`, `name[-1]`, `name[last()]`, … : the value is replaced),
    `setItem_hidden_wrap` (`name[1]` = `name[len]`: the value is wrapped and one element appended),
    `setItem_hidden_refuse` (any other index: `SyntaxError`, the tree unchanged).
-/
namespace N0.XPath
open N0 N0.Py N0.Val

/-! ### `_find` -/

theorem hidden_normIdx_one {i : Int} (hi : i = 0 ∨ i = -1) : normIdx i 1 = some 0 := by
  rcases hi with rfl | rfl <;> decide

/-- `[i]` with `i = 0` or `i = -1` as the last step on a single value: FOUND, the parent is the hidden list -/
theorem hidden_find_last (fuel : Nat) (root : Val) (entry rl : Bool) (P : Pos) (found tok e : Str) (i : Int) (old : Val)
    (hP : getAt root P = some old) (hl : isList old = false) (hk : IdxTok tok e i) (hi : i = 0 ∨ i = -1) :
    findD (fuel + 1) root [] false entry [tok] (.at P) rl found
      = .ok (root, { parent := .wrap (.at P), nameIdx := some (bracket (intStr i)), value := old, found := found,
                     notFound := Option.none }) := by
  have hne : e.isEmpty = false := isEmpty_false_of_ne hk.ne
  have hn := hidden_normIdx_one hi
  have hr : ¬ (i ≥ 1 ∨ i < -1) := by omega
  rw [findD]
  simp only [Bool.false_and, Bool.false_eq_true, if_false, valOf_at, hP, hk.split, List.isEmpty_nil,
    Idx.truthy, hne, Bool.not_false, Bool.and_false, Bool.not_true, hk.notNew, hk.notStar, hk.eval]
  simp only [not_or] at hr
  cases old <;> first | (simp [isList] at hl; done) | simp [hr.1, hr.2, hn]

/-- `[i]` with any other `i` on a single value: NOT FOUND, the parent is the hidden list -/
theorem hidden_find_miss (fuel : Nat) (root : Val) (entry rl : Bool) (P : Pos) (found tok e : Str) (i : Int) (old : Val)
    (rest : List Str) (hP : getAt root P = some old) (hl : isList old = false) (hk : IdxTok tok e i)
    (hi : i ≥ 1 ∨ i < -1) :
    findD (fuel + 1) root [] false entry (tok :: rest) (.at P) rl found
      = .ok (root, { parent := .wrap (.at P), nameIdx := some (bracket (intStr i)), value := Val.none, found := found,
                     notFound := some (tok :: rest) }) := by
  have hne : e.isEmpty = false := isEmpty_false_of_ne hk.ne
  rw [findD]
  simp only [Bool.false_and, Bool.false_eq_true, if_false, valOf_at, hP, hk.split, List.isEmpty_nil,
    Idx.truthy, hne, Bool.not_false, Bool.and_false, Bool.not_true, hk.notNew, hk.notStar, hk.eval]
  cases old <;> first | (simp [isList] at hl; done) | simp [hi]

/-! ### `__setitem__`: the place where the value really is -/

/-- resolving the text `_find` had built for the value of the key `name` below `q` -/
theorem hidden_resolve (fuel : Nat) (root : Val) (q : Pos) (kcls : Cls) (nkvs : List (Str × Val)) (name : Str) (old : Val)
    (hp : PlainPos q) (hn : PlainKey name) (hq : getAt root q = some (.dict kcls nkvs))
    (hl : lookup name nkvs = some old) (hf : fuel ≥ 2 * (q.length + 1)) :
    ∃ r1, findD fuel root [] false true (tokenize (slash ++ renderPos (q ++ [.key name]))) (.at []) true slash = .ok (root, r1) ∧
      r1.parent = .at q ∧ r1.nameIdx = some name ∧ FoundAt root [] (q ++ [.key name]) old r1 := by
  have hP : getAt root (q ++ [Seg.key name]) = some old := by
    rw [getAt_snoc, hq]; simp [child, hl]
  have hpp : PlainPos (q ++ [Seg.key name]) := hp.append ⟨hn, trivial⟩
  have hs := spells_merged _ root old hpp hP
  have hlen := mergedToks_length_le (q ++ [Seg.key name])
  obtain ⟨r, hr, hfound⟩ := find_spells root true hs (mergedToks_ne_nil _ (by simp)) fuel [] slash true rfl
    (by simp at hlen ⊢; omega)
  obtain ⟨hpar, hni⟩ := foundAt_snoc_key hfound hq
  have htok : tokenize (slash ++ renderPos (q ++ [Seg.key name])) = mergedToks (q ++ [Seg.key name]) :=
    tokenize_render _ hpp
  exact ⟨r, by rw [htok]; exact hr, hpar, hni, hfound⟩

theorem realPlace_at (fuel : Nat) (root : Val) (k : Nat) (r : Res) (q : Pos) (h : r.parent = .at q) :
    realPlace fuel root (k + 1) r = .ok r := by
  simp [realPlace, h, isWrap]

/-- item `[0]` / `[-1]` of the hidden list around the value of `name`: the place is `name` in the dict at `q` -/
theorem hidden_place_found (fuel : Nat) (root : Val) (q : Pos) (kcls : Cls) (nkvs : List (Str × Val)) (name : Str) (old : Val)
    (ni : Option Str) (val : Val)
    (hp : PlainPos q) (hn : PlainKey name) (hq : getAt root q = some (.dict kcls nkvs))
    (hl : lookup name nkvs = some old) (hf : fuel ≥ 2 * (q.length + 1)) :
    hiddenPlace fuel root ({ parent := .wrap (.at (q ++ [.key name])), nameIdx := ni, value := val, found := slash ++ renderPos (q ++ [.key name]), notFound := Option.none } : Res)
      = .ok ({ parent := .at q, nameIdx := some name, value := val, found := slash ++ renderPos (q ++ [.key name]), notFound := Option.none } : Res) := by
  obtain ⟨r1, hr1, hpar, hni, _⟩ := hidden_resolve fuel root q kcls nkvs name old hp hn hq hl hf
  obtain ⟨f, rfl⟩ : ∃ f, fuel = f + 1 := ⟨fuel - 1, by omega⟩
  simp only [hiddenPlace, isWrap, List.isEmpty_nil, Bool.true_or, Bool.and_self, if_true, hr1,
    realPlace_at (f + 1) root f r1 q hpar, hpar, hni]

theorem hidden_intStr_one : intStr 1 = ['1'] := by decide

theorem hidden_intStr_ne_one {i : Int} (h : i ≠ 1) : intStr i ≠ ['1'] := by
  intro heq
  have h1 := n0eval_intStr i
  rw [heq] at h1
  have h2 : n0eval ['1'] = .ok (.int 1) := by decide
  rw [h2] at h1
  cases h1
  exact h rfl

/-- item `[1]` of the hidden list around the value of `name`: the miss of `name[new()]` below the dict at `q` -/
theorem hidden_place_one (fuel : Nat) (root : Val) (q : Pos) (kcls : Cls) (nkvs : List (Str × Val)) (name : Str) (old : Val)
    (tok : Str) (rest : List Str)
    (hp : PlainPos q) (hn : PlainKey name) (hq : getAt root q = some (.dict kcls nkvs))
    (hl : lookup name nkvs = some old) (hf : fuel ≥ 2 * (q.length + 1)) :
    hiddenPlace fuel root ({ parent := .wrap (.at (q ++ [.key name])), nameIdx := some (bracket (intStr 1)), value := Val.none, found := slash ++ renderPos (q ++ [.key name]), notFound := some (tok :: rest) } : Res)
      = .ok ({ parent := .at q, nameIdx := Option.none, value := Val.none, found := slash ++ renderPos (q ++ [.key name]), notFound := some ((name ++ bracket sNew) :: rest) } : Res) := by
  obtain ⟨r1, hr1, hpar, hni, _⟩ := hidden_resolve fuel root q kcls nkvs name old hp hn hq hl hf
  simp only [hiddenPlace, isWrap, hidden_intStr_one, List.isEmpty_cons, Bool.false_or, decide_true, Bool.and_self,
    if_true, hr1, Bool.false_eq_true, if_false, hpar, hni, valOf_at, hq, List.drop_succ_cons, List.drop_zero]

/-- any other item of a hidden list: `__setitem__` leaves what `_find` reported -/
theorem hidden_place_other (fuel : Nat) (root : Val) (par : PRef) (i : Int) (val : Val) (found tok : Str) (rest : List Str)
    (hi : i ≠ 1) :
    hiddenPlace fuel root ({ parent := par, nameIdx := some (bracket (intStr i)), value := val, found := found, notFound := some (tok :: rest) } : Res)
      = .ok ({ parent := par, nameIdx := some (bracket (intStr i)), value := val, found := found, notFound := some (tok :: rest) } : Res) := by
  have h1 : (some (bracket (intStr i)) = some (bracket ['1'])) = False := by
    simp only [Option.some.injEq, eq_iff_iff, iff_false]
    intro h
    have h2 : intStr i ++ [']'] = ['1'] ++ [']'] := by simpa [bracket] using h
    exact hidden_intStr_ne_one hi (List.append_cancel_right h2)
  simp only [hiddenPlace, List.isEmpty_cons, Bool.false_or, h1, decide_false, Bool.and_false, Bool.false_eq_true, if_false]

/-! ### `_add` refuses a hidden list -/

theorem hidden_intStr_ne_special (i : Int) : intStr i ≠ sNew ∧ intStr i ≠ sLast := by
  constructor
  · intro h
    have h1 := n0eval_intStr i
    rw [h] at h1
    have h2 : n0eval sNew = .ok (.str sNew) := by decide
    rw [h2] at h1; cases h1
  · intro h
    rcases intStr_cases i with ⟨n, _, hn⟩ | ⟨n, _, hn⟩
    · rw [hn] at h
      have := natStr_digits n
      rw [h, sLast_eq] at this
      have := this.2 'l' (by simp)
      simp [isAsciiDigit] at this
    · rw [hn, sLast_eq] at h; cases h

/-- the first level of `_add` on a hidden list: `SyntaxError`, whatever the index and the token -/
theorem hidden_addStep_refused (root : Val) (r : PRef) (i : Int) (e : IdxSp) :
    addStep root (.wrap r) (some (bracket (intStr i))) (bracket e.text) = .error .SyntaxError ∨
    valOf root (.wrap r) = Option.none := by
  cases hv : valOf root (.wrap r) with
  | none => exact Or.inr rfl
  | some pv =>
    left
    obtain ⟨h1, h2⟩ := hidden_intStr_ne_special i
    have hb : (bracket (intStr i)).isEmpty = false := by simp [bracket]
    unfold addStep
    simp only [hb, Bool.false_eq_true, if_false, split_bracket_intStr, e.idxTok.split, pure_bind, ok_bind,
      List.contains_nil, Bool.or_self, List.isEmpty_nil, Bool.not_true, hv, h1, h2, isWrap, if_true]

/-! ### `__setitem__` -/

theorem hidden_cleanIdx (e : IdxSp) : CleanIdx e.text := fun c hc => ⟨e.noRB c hc, e.noSlash c hc⟩

/-- the search for `//…q…/name[e]…` where `name` holds the single value `old` arrives at `[e]` on `old` -/
theorem hidden_walk (cls : Cls) (kvs : List (Str × Val)) (q : Pos) (kcls : Cls) (nkvs : List (Str × Val)) (name : Str)
    (old : Val) (e : IdxSp) (rest : List Str) (fuel : Nat)
    (hp : PlainPos q) (hget : getAt (.dict cls kvs) q = some (.dict kcls nkvs)) (hn : PlainKey name)
    (hl : lookup name nkvs = some old) (hf : fuel ≥ 2 * q.length + 2) :
    ∃ f en, fuel ≤ f + 2 + 2 * q.length ∧
      findD fuel (.dict cls kvs) [] false true (mergedToks q ++ (name ++ bracket e.text) :: rest) (.at []) true slash
        = findD (f + 1) (.dict cls kvs) [] false en (bracket e.text :: rest) (.at (q ++ [.key name])) true
            (slash ++ renderPos (q ++ [.key name])) := by
  have hlen := mergedToks_length_le q
  obtain ⟨f', e', h1, _, hwalk⟩ := find_walk (.dict cls kvs) true (spellsF_merged q _ _ hp hget)
    ((name ++ bracket e.text) :: rest) (by simp) fuel [] slash true rfl (by omega)
  obtain ⟨f, rfl⟩ : ∃ f, f' = f + 2 := ⟨f' - 2, by omega⟩
  refine ⟨f, false, by omega, ?_⟩
  rw [hwalk, List.nil_append, find_keyidx_step (f + 1) _ e' true q _ _ name e.text e.val rest kcls nkvs old hget
    (e.keyIdxTok hn) hl, renderPos_snoc_key]

/-- **`name[0]`, `name[-1]`, `name[last()]` (any spelling of `0` / `-1`) on a single value: the value is replaced** -/
theorem setItem_hidden_replace (cls : Cls) (kvs : List (Str × Val)) (q : Pos) (kcls : Cls) (nkvs : List (Str × Val))
    (name : Str) (old : Val) (e : IdxSp) (v t' : Val) (fuel : Nat)
    (hp : PlainPos q) (hget : getAt (.dict cls kvs) q = some (.dict kcls nkvs)) (hn : PlainKey name)
    (hl : lookup name nkvs = some old) (hs : isList old = false) (he : e.val = 0 ∨ e.val = -1)
    (hset : setAt (.dict cls kvs) (q ++ [.key name]) v = some t') (hf : fuel ≥ 2 * q.length + 2) :
    setItem fuel (.dict cls kvs) (slash ++ renderPos q ++ slash ++ (name ++ bracket e.text)) v = (t', .ok ()) := by
  have hP : getAt (.dict cls kvs) (q ++ [Seg.key name]) = some old := by
    rw [getAt_snoc, hget]; simp [child, hl]
  obtain ⟨f, en, _, hwalk⟩ := hidden_walk cls kvs q kcls nkvs name old e [] fuel hp hget hn hl hf
  rw [hidden_find_last f _ en true _ _ _ _ _ old hP hs e.idxTok he] at hwalk
  have htok : tokenize (slash ++ renderPos q ++ slash ++ (name ++ bracket e.text)) = mergedToks q ++ [name ++ bracket e.text] := by
    have := tokenize_elem_path q hp hn (hidden_cleanIdx e) [] (by simp)
    simpa [renderPos] using this
  have hhid := hidden_place_found fuel (.dict cls kvs) q kcls nkvs name old (some (bracket (intStr e.val))) old hp hn hget hl
    (by omega)
  have hst : storeAt (.dict cls kvs) (.at q) (some name) v = .ok t' := by
    apply storeAt_key _ t' q kcls nkvs name v hget hn
    rw [← setAt_snoc q _ (.key name) v _ (.dict kcls (kvSet name v nkvs)) hget (by simp [setChild])]
    exact hset
  unfold setItem
  simp only [show startsWith (slash ++ renderPos q ++ slash ++ (name ++ bracket e.text)) ['?'] = false by
      simp [slash, startsWith, List.append_assoc],
    Bool.false_and, Bool.false_eq_true, if_false,
    show hasPathChar (slash ++ renderPos q ++ slash ++ (name ++ bracket e.text)) = true by simp [hasPathChar, slash],
    if_true, htok, hwalk, hhid, List.isEmpty_nil, Bool.not_true, hst]

/-- **`name[1]` (any spelling of `1`) on a single value is `name[len]`: the value is wrapped as the first element and
exactly one element is appended** (optionally followed by fresh names: `name[1]/x/y` appends `{x: {y: v}}`) -/
theorem setItem_hidden_wrap (cls : Cls) (kvs : List (Str × Val)) (q : Pos) (kcls : Cls) (nkvs : List (Str × Val))
    (name : Str) (old : Val) (e : IdxSp) (tail : List Str) (v t' : Val) (fuel : Nat)
    (hp : PlainPos q) (hget : getAt (.dict cls kvs) q = some (.dict kcls nkvs)) (hn : PlainKey name)
    (hl : lookup name nkvs = some old) (hs : isList old = false) (he : e.val = 1) (ht : ∀ x ∈ tail, PlainKey x)
    (hset : setAt (.dict cls kvs) (q ++ [.key name]) (.list .n0 [old, chain tail v]) = some t')
    (hf : fuel ≥ 2 * q.length + 2) :
    setItem fuel (.dict cls kvs)
      (slash ++ renderPos q ++ slash ++ (name ++ bracket e.text) ++ renderPos (tail.map Seg.key)) v = (t', .ok ()) := by
  have hP : getAt (.dict cls kvs) (q ++ [Seg.key name]) = some old := by
    rw [getAt_snoc, hget]; simp [child, hl]
  obtain ⟨f, en, _, hwalk⟩ := hidden_walk cls kvs q kcls nkvs name old e tail fuel hp hget hn hl hf
  rw [hidden_find_miss f _ en true _ _ _ _ _ old tail hP hs e.idxTok (Or.inl (by omega)), he] at hwalk
  have htok := tokenize_elem_path q hp hn (hidden_cleanIdx e) tail ht
  have hhid := hidden_place_one fuel (.dict cls kvs) q kcls nkvs name old (bracket e.text) tail hp hn hget hl (by omega)
  -- "Node is EXISTED": `_add` converts the single value and appends the placeholder in one step
  obtain ⟨root1, hs1⟩ := setAt_isSome q (.dict cls kvs) _ (.dict kcls (kvSet name (.list .n0 [old, Val.none]) nkvs)) hget
  have hadd : AddStores (.dict cls kvs) (.at q) Option.none ((name ++ bracket sNew) :: tail) v t' := by
    refine addStores_step (addStep_existing_new _ root1 q kcls nkvs name old hget hn hl hs1) ?_
    have hs1' : setAt (.dict cls kvs) (q ++ [Seg.key name]) (.list .n0 [old, Val.none]) = some root1 := by
      rw [setAt_snoc q _ (.key name) _ _ (.dict kcls (kvSet name (.list .n0 [old, Val.none]) nkvs)) hget (by simp [setChild])]
      exact hs1
    apply cont_placeholder root1 (q ++ [Seg.key name]) .n0 [old] tail v t'
      (getAt_setAt_same _ _ root1 _ hs1' (fun _ _ => trivial)) ht
    rw [setAt_overwrite _ _ root1 _ _ hs1']
    exact hset
  obtain ⟨root', par', ni', ha, hst⟩ := hadd
  unfold setItem
  simp only [show startsWith (slash ++ renderPos q ++ slash ++ (name ++ bracket e.text) ++ renderPos (tail.map Seg.key)) ['?']
      = false by simp [slash, startsWith, List.append_assoc],
    Bool.false_and, Bool.false_eq_true, if_false,
    show hasPathChar (slash ++ renderPos q ++ slash ++ (name ++ bracket e.text) ++ renderPos (tail.map Seg.key)) = true by
      simp [hasPathChar, slash],
    if_true, htok, hwalk, hhid, List.isEmpty_cons, Bool.not_false, ha, hst]

/-- **any other index on a single value cannot be honoured**: `SyntaxError`, the tree is the tree before the call -/
theorem setItem_hidden_refuse (cls : Cls) (kvs : List (Str × Val)) (q : Pos) (kcls : Cls) (nkvs : List (Str × Val))
    (name : Str) (old : Val) (e : IdxSp) (tail : List Str) (v : Val) (fuel : Nat)
    (hp : PlainPos q) (hget : getAt (.dict cls kvs) q = some (.dict kcls nkvs)) (hn : PlainKey name)
    (hl : lookup name nkvs = some old) (hs : isList old = false) (he : e.val ≥ 2 ∨ e.val < -1) (ht : ∀ x ∈ tail, PlainKey x)
    (hf : fuel ≥ 2 * q.length + 2) :
    setItem fuel (.dict cls kvs)
      (slash ++ renderPos q ++ slash ++ (name ++ bracket e.text) ++ renderPos (tail.map Seg.key)) v
      = (.dict cls kvs, .error .SyntaxError) := by
  have hP : getAt (.dict cls kvs) (q ++ [Seg.key name]) = some old := by
    rw [getAt_snoc, hget]; simp [child, hl]
  obtain ⟨f, en, _, hwalk⟩ := hidden_walk cls kvs q kcls nkvs name old e tail fuel hp hget hn hl hf
  rw [hidden_find_miss f _ en true _ _ _ _ _ old tail hP hs e.idxTok (by omega)] at hwalk
  have htok := tokenize_elem_path q hp hn (hidden_cleanIdx e) tail ht
  have hhid := hidden_place_other fuel (.dict cls kvs) (.wrap (.at (q ++ [Seg.key name]))) e.val Val.none
    (slash ++ renderPos (q ++ [Seg.key name])) (bracket e.text) tail (by omega)
  have hadd : add (.dict cls kvs) (.wrap (.at (q ++ [Seg.key name]))) (some (bracket (intStr e.val))) (bracket e.text :: tail)
      = (.dict cls kvs, .error .SyntaxError) := by
    rcases hidden_addStep_refused (.dict cls kvs) (.at (q ++ [Seg.key name])) e.val e with h | h
    · simp [add, h]
    · simp [valOf, hP] at h
  unfold setItem
  simp only [show startsWith (slash ++ renderPos q ++ slash ++ (name ++ bracket e.text) ++ renderPos (tail.map Seg.key)) ['?']
      = false by simp [slash, startsWith, List.append_assoc],
    Bool.false_and, Bool.false_eq_true, if_false,
    show hasPathChar (slash ++ renderPos q ++ slash ++ (name ++ bracket e.text) ++ renderPos (tail.map Seg.key)) = true by
      simp [hasPathChar, slash],
    if_true, htok, hwalk, hhid, List.isEmpty_cons, Bool.not_false, hadd]

/-! ### `delete` -/

/-- **`delete('//…q…/name[e]')` with `e` denoting `0` or `-1` on a single value removes `name`** — the node lookup
returns for that spelling (C05: delete accepts every spelling lookup accepts) -/
theorem delete_hidden (cls : Cls) (kvs : List (Str × Val)) (q : Pos) (kcls : Cls) (nkvs : List (Str × Val))
    (name : Str) (old : Val) (e : IdxSp) (t' : Val) (fuel : Nat)
    (hp : PlainPos q) (hget : getAt (.dict cls kvs) q = some (.dict kcls nkvs)) (hn : PlainKey name)
    (hl : lookup name nkvs = some old) (hs : isList old = false) (he : e.val = 0 ∨ e.val = -1)
    (hdel : delAt (.dict cls kvs) (q ++ [.key name]) = some t') (hf : fuel ≥ 2 * q.length + 2) :
    delete fuel (.dict cls kvs) (slash ++ renderPos q ++ slash ++ (name ++ bracket e.text)) false = (t', .ok ()) := by
  have hP : getAt (.dict cls kvs) (q ++ [Seg.key name]) = some old := by
    rw [getAt_snoc, hget]; simp [child, hl]
  have hpp : PlainPos (q ++ [Seg.key name]) := hp.append ⟨hn, trivial⟩
  obtain ⟨f, en, _, hwalk⟩ := hidden_walk cls kvs q kcls nkvs name old e [] fuel hp hget hn hl hf
  rw [hidden_find_last f _ en true _ _ _ _ _ old hP hs e.idxTok he] at hwalk
  have htok : tokenize (slash ++ renderPos q ++ slash ++ (name ++ bracket e.text)) = mergedToks q ++ [name ++ bracket e.text] := by
    have := tokenize_elem_path q hp hn (hidden_cleanIdx e) [] (by simp)
    simpa [renderPos] using this
  obtain ⟨r1, hr1, hpar, hni, hfound⟩ := hidden_resolve fuel (.dict cls kvs) q kcls nkvs name old hp hn hget hl (by omega)
  have hdt := delThrough_found (.dict cls kvs) _ old r1 t' hfound hdel
  -- the tokens: n = number of tokens of `q`
  have hlen : (mergedToks q ++ [name ++ bracket e.text]).length = (mergedToks q).length + 1 := by simp
  have htake : (mergedToks q ++ [name ++ bracket e.text]).take ((mergedToks q).length + 1) = mergedToks q ++ [name ++ bracket e.text] := by
    rw [List.take_of_length_le (by simp)]
  have hgetD : (mergedToks q ++ [name ++ bracket e.text]).getD (mergedToks q).length [] = name ++ bracket e.text := by
    simp [List.getD_eq_getElem?_getD]
  have hname : name.isEmpty = false := isEmpty_false_of_ne hn.ne
  have hdp : delPlace fuel (.dict cls kvs) (name ++ bracket e.text)
      { parent := .wrap (.at (q ++ [Seg.key name])), nameIdx := some (bracket (intStr e.val)), value := old,
        found := slash ++ renderPos (q ++ [Seg.key name]), notFound := Option.none } = .ok (some r1) := by
    simp only [delPlace, isWrap, Res.isFound, Bool.and_self, if_true, (e.keyIdxTok hn).split, hname, Bool.false_eq_true, if_false, hr1]
  unfold delete deleteTokens
  simp only [show stripQ (slash ++ renderPos q ++ slash ++ (name ++ bracket e.text))
      = slash ++ renderPos q ++ slash ++ (name ++ bracket e.text) by
    apply stripQ_noQ; simp [slash, startsWith, List.append_assoc], htok, hlen]
  rw [deleteLoop, htake, hwalk]
  simp only [hgetD, hdp, Bool.true_or, if_true, hdt]
  -- the remaining prefixes are prefixes of the plain path of `name`
  have hcongr := deleteLoop_congr fuel false (mergedToks q).length (mergedToks q ++ [name ++ bracket e.text])
    (mergedToks (q ++ [Seg.key name])) t' false (by
      rw [mergedToks_append_key]
      simp [mergedToks])
  rw [hcongr]
  have hsp := spells_merged _ (.dict cls kvs) old hpp hP
  have hx : delChild (.dict kcls nkvs) (.key name) = some (.dict kcls (kvDel name nkvs)) := by
    have : kvHas name nkvs = true := by simp [kvHas, hl]
    simp [delChild, this]
  have hsn := delAt_snoc q (.dict cls kvs) (.key name) _ _ hget hx
  rw [hdel] at hsn
  have hml : (mergedToks (q ++ [Seg.key name])).length = (mergedToks q).length + 1 := by
    rw [mergedToks_append_key]; simp [mergedToks]
  have hlen2 := mergedToks_length_le q
  exact deleteLoop_rest fuel _ (.dict cls kvs) _ old hsp q (.key name) rfl _ t' hsn.symm (by rw [hml]; omega)
    (mergedToks q).length (by rw [hml]; omega)

end N0.XPath
