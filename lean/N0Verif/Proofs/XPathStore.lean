import N0Verif.Proofs.XPathLeaves
import N0Verif.Proofs.TreeLemmas
/-! `__setitem__` on an existing node: the store through the parent reference is `setAt`. -/
namespace N0.XPath
open N0 N0.Py N0.Val

theorem negDigits_idxExpr {ds : Str} (h : Digits ds) : IdxExpr ('-' :: ds) where
  ne := by simp
  head := by intro c hc; simp at hc; subst hc; decide
  last := by
    intro c hc
    have : c ∈ ds := by
      cases ds with
      | nil => exact absurd rfl h.ne
      | cons d ds => exact List.mem_of_getLast? (by simpa [List.getLast?_cons_cons] using hc)
    exact (digit_ne (h.all c this)).2.2.2.2.2.2.2.2.2.2.2.1
  notContains := by
    rw [sContains_eq]
    simp [Py.lower, startsWith, toLowerAscii]
  noEq := by
    intro c hc
    simp at hc
    rcases hc with hc | hc
    · subst hc; exact ⟨by decide, by decide⟩
    · have d := digit_ne (h.all c hc)
      exact ⟨d.2.2.2.2.2.2.2.2.1, d.2.2.2.2.2.2.2.2.2.1⟩

theorem intStr_cases (i : Int) :
    (∃ n : Nat, i = n ∧ intStr i = natStr n) ∨ (∃ n : Nat, i = -((n + 1 : Nat) : Int) ∧ intStr i = '-' :: natStr (n + 1)) := by
  cases i with
  | ofNat n => left; exact ⟨n, rfl, rfl⟩
  | negSucc n => right; exact ⟨n, by simp [Int.negSucc_eq], rfl⟩

theorem intStr_idxExpr (i : Int) : IdxExpr (intStr i) := by
  rcases intStr_cases i with ⟨n, _, h⟩ | ⟨n, _, h⟩
  · rw [h]; exact natStr_idxExpr n
  · rw [h]; exact negDigits_idxExpr (natStr_digits (n + 1))

theorem n0eval_intStr (i : Int) : n0eval (intStr i) = .ok (.int i) := by
  rcases intStr_cases i with ⟨n, hi, h⟩ | ⟨n, hi, h⟩
  · rw [h, hi]; exact n0eval_nat n
  · rw [h, hi]
    have := n0eval_neg (natStr_digits (n + 1))
    rwa [show natOfDigits (natStr (n + 1)) = n + 1 from natOfDigits_natDigits _] at this

theorem split_bracket_intStr (i : Int) : splitNameIndex (bracket (intStr i)) = .ok ([], .str (intStr i)) := by
  simpa using split_bracket [] (intStr i) (Or.inl rfl) (intStr_idxExpr i)

/-- the last key of a plain position is plain -/
theorem PlainPos.last_key {pp : Pos} {k : Str} (h : PlainPos (pp ++ [.key k])) : PlainKey k := by
  induction pp with
  | nil => exact h.1
  | cons s pp ih =>
    cases s with
    | key k' => exact ih h.2
    | idx n => exact ih h

theorem modRef_at (root : Val) (pp : Pos) (f : Val → Val) (pv : Val) (h : getAt root pp = some pv) :
    (modRef root (.at pp) f).1 = (setAt root pp (f pv)).getD root := by
  simp [modRef, valOf, h, writeRef]

theorem NameFor.inv {pv : Val} {s : Seg} {ni : Str} (h : NameFor pv s ni) :
    (∃ cls kvs k, pv = .dict cls kvs ∧ s = .key k ∧ ni = k) ∨
    (∃ cls xs n i, pv = .list cls xs ∧ s = .idx n ∧ ni = bracket (intStr i) ∧ normIdx i xs.length = some n) := by
  cases h with
  | key => exact Or.inl ⟨_, _, _, rfl, rfl, rfl⟩
  | idx hn => exact Or.inr ⟨_, _, _, _, rfl, rfl, rfl, hn⟩

/-- **store.**  When `_find` found the node at `p`, the store of `__setitem__` is `setAt`. -/
theorem storeAt_found (root : Val) (p : Pos) (c : Val) (r : Res) (v t' : Val)
    (hf : FoundAt root [] p c r) (hp : PlainPos p) (hset : setAt root p v = some t') :
    storeAt root r.parent r.nameIdx v = .ok t' := by
  obtain ⟨hv, hnf, pp, s, pv, ni, rfl, hpar, hpv, hni, hname⟩ := hf
  simp only [List.nil_append] at hpar hpv
  rw [hpar, hni]
  rcases hname.inv with ⟨cls, kvs, k, rfl, rfl, hnik⟩ | ⟨cls, xs, n, i, rfl, rfl, hnii, hn⟩
  all_goals (first | rw [hnik] | rw [hnii])
  · have hk : PlainKey k := hp.last_key
    have hsnoc := setAt_snoc pp root (.key k) v (.dict cls kvs) (.dict cls (kvSet k v kvs)) hpv (by simp [setChild])
    rw [hsnoc] at hset
    unfold storeAt
    simp only [hk.keyTok.split, valOf_at, hpv, Idx.truthy, Bool.false_eq_true, if_false]
    rw [modRef_at root pp _ _ hpv]
    simp [hset]
  · have hlt := normIdx_lt hn
    have hsnoc := setAt_snoc pp root (.idx n) v (.list cls xs) (.list cls (xs.set n v)) hpv (by simp [setChild, hlt])
    rw [hsnoc] at hset
    unfold storeAt
    simp only [split_bracket_intStr, valOf_at, hpv, List.isEmpty_nil, Bool.not_true, Bool.false_eq_true,
      if_false, n0eval_intStr, hn]
    rw [modRef_at root pp _ _ hpv]
    simp [hset]

/-- `__setitem__` looks for another place only when `_find` reported a hidden list (fix C03-e) -/
theorem hiddenPlace_notWrap (fuel : Nat) (root : Val) (r : Res) (h : isWrap r.parent = false) :
    hiddenPlace fuel root r = .ok r := by
  simp [hiddenPlace, h]

theorem hiddenPlace_at (fuel : Nat) (root : Val) (r : Res) (q : Pos) (h : r.parent = .at q) :
    hiddenPlace fuel root r = .ok r :=
  hiddenPlace_notWrap fuel root r (by rw [h]; rfl)

theorem hiddenPlace_mk_at (fuel : Nat) (root : Val) (q : Pos) (ni : Option Str) (v : Val) (f : Str) (nf : Option (List Str)) :
    hiddenPlace fuel root { parent := .at q, nameIdx := ni, value := v, found := f, notFound := nf }
      = .ok { parent := .at q, nameIdx := ni, value := v, found := f, notFound := nf } :=
  hiddenPlace_at fuel root _ q rfl

theorem delPlace_notWrap (fuel : Nat) (root : Val) (tok : Str) (r : Res) (h : isWrap r.parent = false) :
    delPlace fuel root tok r = .ok (some r) := by
  simp [delPlace, h]

theorem delPlace_at (fuel : Nat) (root : Val) (tok : Str) (r : Res) (q : Pos) (h : r.parent = .at q) :
    delPlace fuel root tok r = .ok (some r) :=
  delPlace_notWrap fuel root tok r (by rw [h]; rfl)

theorem isWrap_at (q : Pos) : isWrap (.at q) = false := rfl

theorem hasPathChar_render (p : Pos) : hasPathChar (slash ++ renderPos p) = true := by
  simp [hasPathChar, slash]

/-- **C02 core.**  Assigning through the canonical path of an existing node is `setAt`. -/
theorem setItem_existing (cls : Cls) (kvs : List (Str × Val)) (p : Pos) (c v t' : Val)
    (hp : PlainPos p) (hne : p ≠ []) (hget : getAt (.dict cls kvs) p = some c)
    (hset : setAt (.dict cls kvs) p v = some t') (fuel : Nat) (hf : fuel ≥ 2 * p.length) :
    setItem fuel (.dict cls kvs) (slash ++ renderPos p) v = (t', .ok ()) := by
  have hs := spells_merged p (.dict cls kvs) c hp hget
  have hlen := mergedToks_length_le p
  obtain ⟨r, hr, hfound⟩ := find_spells (.dict cls kvs) true hs (mergedToks_ne_nil p hne) fuel [] slash true rfl (by omega)
  have htok : tokenize (slash ++ renderPos p) = mergedToks p := tokenize_render p hp
  have hq : startsWith (slash ++ renderPos p) ['?'] = false := by simp [slash, startsWith]
  have hnf : r.notFound = Option.none := hfound.2.1
  have hst := storeAt_found (.dict cls kvs) p c r v t' hfound hp hset
  have hhid : hiddenPlace fuel (.dict cls kvs) r = .ok r := by
    obtain ⟨_, _, pp, _, _, _, _, hpar, _⟩ := hfound
    exact hiddenPlace_at _ _ _ _ hpar
  unfold setItem
  simp only [hq, Bool.false_and, Bool.false_eq_true, if_false, hasPathChar_render, if_true, htok, hr, hhid, hnf,
    List.isEmpty_nil, Bool.not_true, hst]

end N0.XPath
