import N0Verif.Model.Fwf
import N0Verif.Proofs.Tlv
/-! helper lemmas for the fixed-width codec (`Props/C16.lean`) -/
namespace N0.Fwf
open N0 N0.Py N0.Tlv

/-! ### writing a cell into the rendered row -/

theorem place_length (r cell : Str) (off till : Nat) (h1 : till = off + cell.length)
    (h2 : till ≤ r.length) : (r.take off ++ cell ++ r.drop till).length = r.length := by
  simp only [List.length_append, List.length_take, List.length_drop]
  omega

theorem place_same (r cell : Str) (off till : Nat) (h1 : till = off + cell.length)
    (h2 : till ≤ r.length) : slice (r.take off ++ cell ++ r.drop till) off till = cell := by
  apply slice_mid
  · simp; omega
  · simp; omega

theorem place_frame (r cell : Str) (off till a b : Nat) (h1 : till = off + cell.length)
    (h2 : till ≤ r.length) (hd : till ≤ a ∨ b ≤ off) :
    slice (r.take off ++ cell ++ r.drop till) a b = slice r a b := by
  unfold slice
  apply List.ext_getElem?
  intro i
  simp only [List.getElem?_take, List.getElem?_drop, List.getElem?_append, List.length_append,
    List.length_take]
  by_cases hi : i < b - a
  · simp only [hi, if_true]
    have hmin : min off r.length = off := by omega
    rw [hmin]
    rcases hd with hd | hd
    · have h3 : ¬ (a + i < off + cell.length) := by omega
      have h4 : ¬ (a + i < off) := by omega
      simp only [h3, h4, if_false]
      congr 1
      omega
    · have h3 : a + i < off + cell.length := by omega
      have h4 : a + i < off := by omega
      simp only [h3, h4, if_true]
  · simp only [hi, if_false]

theorem zfill_length (n : Nat) (s : Str) : (zfill n s).length = max n s.length := by
  unfold zfill
  split
  · omega
  · split <;> simp <;> omega

theorem padOrTrunc_length (isInt : Bool) (size : Nat) (sv : Str) :
    (padOrTrunc isInt size sv).length = size := by
  unfold padOrTrunc
  cases isInt
  · simp [ljust]; omega
  · simp [zfill_length]; omega

theorem foldl_max_ge (fmt : List GCol) (m : Nat) :
    m ≤ fmt.foldl (fun m c => max m c.till) m ∧
    ∀ c ∈ fmt, c.till ≤ fmt.foldl (fun m c => max m c.till) m := by
  induction fmt generalizing m with
  | nil => simp
  | cons x fmt ih =>
    simp only [List.foldl_cons]
    obtain ⟨h1, h2⟩ := ih (max m x.till)
    refine ⟨by omega, ?_⟩
    intro c hc
    rcases List.mem_cons.mp hc with h | h
    · subst h; omega
    · exact h2 c h

theorem till_le_rowLen (fmt : List GCol) : ∀ c ∈ fmt, c.till ≤ rowLen fmt :=
  (foldl_max_ge fmt 0).2

theorem filler_length (n : Nat) (filler : Str) (h : filler ≠ []) :
    n ≤ (List.replicate n filler).flatten.length := by
  have : 1 ≤ filler.length := List.length_pos_iff.mpr h
  simp only [List.length_flatten, List.map_replicate, List.sum_replicate_nat]
  exact Nat.le_mul_of_pos_right n this

/-- where the value of a column comes from: the record, else the mapping expression -/
theorem genCols_spec (rec : Rec) (cols : List GCol) (r text : Str)
    (hg : genCols rec cols r = .ok text)
    (hc : ∀ c ∈ cols, c.till = c.offset + c.size ∧ c.till ≤ r.length)
    (hp : cols.Pairwise (fun a b => a.till ≤ b.offset ∨ b.till ≤ a.offset)) :
    text.length = r.length
    ∧ (∀ a b, (∀ c ∈ cols, source rec c ≠ none → c.till ≤ a ∨ b ≤ c.offset) →
        slice text a b = slice r a b)
    ∧ (∀ c ∈ cols, ∀ v sv, source rec c = some (.ok v) → pyStr v = .ok sv →
        slice text c.offset c.till = padOrTrunc c.isInt c.size sv) := by
  induction cols generalizing r with
  | nil =>
    simp only [genCols] at hg
    cases hg
    simp
  | cons c cs ih =>
    have hcc := hc c (by simp)
    have hcs : ∀ x ∈ cs, x.till = x.offset + x.size ∧ x.till ≤ r.length :=
      fun x hx => hc x (by simp [hx])
    obtain ⟨hpc, hps⟩ := List.pairwise_cons.mp hp
    -- the common step: a value `v` is placed
    have placed : ∀ v, source rec c = some (.ok v) → ∀ r', place c v r = .ok r' →
        genCols rec cs r' = .ok text →
        text.length = r.length
        ∧ (∀ a b, (∀ x ∈ c :: cs, source rec x ≠ none → x.till ≤ a ∨ b ≤ x.offset) →
            slice text a b = slice r a b)
        ∧ (∀ x ∈ c :: cs, ∀ v sv, source rec x = some (.ok v) → pyStr v = .ok sv →
            slice text x.offset x.till = padOrTrunc x.isInt x.size sv) := by
      intro v hsrc r' hpl hg'
      unfold place at hpl
      cases hsv : pyStr v with
      | error e => rw [hsv] at hpl; cases hpl
      | ok sv =>
        rw [hsv] at hpl
        cases hpl
        have hcl := padOrTrunc_length c.isInt c.size sv
        have h1 : c.till = c.offset + (padOrTrunc c.isInt c.size sv).length := by rw [hcl]; exact hcc.1
        have hlen := place_length r _ c.offset c.till h1 hcc.2
        obtain ⟨i1, i2, i3⟩ := ih _ hg' (fun x hx => by rw [hlen]; exact hcs x hx) hps
        refine ⟨by rw [i1, hlen], ?_, ?_⟩
        · intro a b hab
          rw [i2 a b (fun x hx => hab x (by simp [hx]))]
          exact place_frame r _ _ _ a b h1 hcc.2 (hab c (by simp) (by rw [hsrc]; simp))
        · intro x hx v' sv' hsrc' hsv'
          rcases List.mem_cons.mp hx with h | h
          · subst h
            rw [hsrc] at hsrc'
            cases hsrc'
            rw [hsv] at hsv'
            cases hsv'
            rw [i2 _ _ (fun y hy _ => by
              rcases hpc y hy with h | h
              · exact .inr h
              · exact .inl h)]
            exact place_same r _ _ _ h1 hcc.2
          · exact i3 x h v' sv' hsrc' hsv'
    simp only [genCols] at hg
    cases hl : Val.lookup c.name rec with
    | some v =>
      rw [hl] at hg
      simp only at hg
      cases hpl : place c v r with
      | error e => rw [hpl] at hg; cases hg
      | ok r' =>
        rw [hpl] at hg
        exact placed v (by simp [source, hl]) r' hpl hg
    | none =>
      rw [hl] at hg
      simp only at hg
      cases hm : c.mapping with
      | some f =>
        rw [hm] at hg
        simp only at hg
        cases hf : f rec with
        | error e => rw [hf] at hg; cases hg
        | ok v =>
          rw [hf] at hg
          simp only at hg
          cases hpl : place c v r with
          | error e => rw [hpl] at hg; cases hg
          | ok r' =>
            rw [hpl] at hg
            exact placed v (by simp [source, hl, hm, hf]) r' hpl hg
      | none =>
        rw [hm] at hg
        simp only at hg
        obtain ⟨i1, i2, i3⟩ := ih _ hg hcs hps
        refine ⟨i1, fun a b hab => i2 a b (fun x hx => hab x (by simp [hx])), ?_⟩
        intro x hx v sv hsrc hsv
        rcases List.mem_cons.mp hx with h | h
        · subst h
          simp [source, hl, hm] at hsrc
        · exact i3 x h v sv hsrc hsv


/-! ### parse_fwf_row -/

theorem parseCols_plain (row : Str) (validate : Bool) (cols : List PCol) (acc : Row)
    (h : validate = false ∨ ∀ c ∈ cols, c.validations = []) :
    parseCols row validate cols acc
      = .parsed (acc ++ cols.map (fun c => (c.name, colValue row c))) := by
  induction cols generalizing acc with
  | nil => simp [parseCols]
  | cons c cs ih =>
    have hc : (validate && !c.validations.isEmpty) = false := by
      rcases h with h | h
      · simp [h]
      · simp [h c (by simp)]
    have hcs : validate = false ∨ ∀ x ∈ cs, x.validations = [] := by
      rcases h with h | h
      · exact .inl h
      · exact .inr (fun x hx => h x (by simp [hx]))
    simp only [parseCols, hc, Bool.false_eq_true, if_false]
    rw [ih _ hcs]
    simp

/-- fix C16-d: the only way `parse_fwf_row` fails is the refusal of an empty layout -/
theorem parseRow_ok (row : Str) (validate : Bool) (fmt : List PCol) (hne : fmt ≠ []) :
    parseRow row fmt validate = .ok (parseCols row validate fmt []) := by
  unfold parseRow
  have : fmt.isEmpty = false := by cases fmt <;> simp_all
  simp only [this, Bool.false_eq_true, if_false]

theorem parseRow_error (row : Str) (validate : Bool) (fmt : List PCol) (e : PyErr)
    (h : parseRow row fmt validate = .error e) : e = .SyntaxError ∧ fmt = [] := by
  unfold parseRow at h
  split at h
  · rename_i hf
    cases h
    exact ⟨rfl, by simpa using hf⟩
  · cases h

theorem parseRow_plain (row : Str) (validate : Bool) (fmt : List PCol) (hne : fmt ≠ [])
    (h : validate = false ∨ ∀ c ∈ fmt, c.validations = []) :
    parseRow row fmt validate = .ok (.parsed (fmt.map (fun c => (c.name, colValue row c)))) := by
  rw [parseRow_ok row validate fmt hne, parseCols_plain row validate fmt [] h]
  simp

theorem parseCols_rejected (row : Str) (validate : Bool) (cols : List PCol) (acc : Row) (rw' msg : Str)
    (h : parseCols row validate cols acc = .rejected rw' msg) : rw' = row ∧ validate = true := by
  induction cols generalizing acc with
  | nil => simp [parseCols] at h
  | cons c cs ih =>
    simp only [parseCols] at h
    split at h
    · rename_i hv
      split at h
      · cases h
        simp only [Bool.and_eq_true] at hv
        exact ⟨rfl, hv.1⟩
      · exact ih _ h
    · exact ih _ h

theorem parseRow_rejected (row : Str) (validate : Bool) (fmt : List PCol) (rw' msg : Str)
    (h : parseRow row fmt validate = .ok (.rejected rw' msg)) : rw' = row ∧ validate = true := by
  unfold parseRow at h
  split at h
  · cases h
  · exact parseCols_rejected row validate fmt [] rw' msg (by simpa using h)

/-! #### which validations decide (fix C16-d: whatever fails, the row is classified) -/

/-- `error_messages` is empty exactly when every validation holds -/
theorem failedMsgs_eq_nil (c : PCol) (v : Option Str) (row : Str) (acc : Row) (i : Nat)
    (vs : List Validation) :
    failedMsgs c v row acc i vs = [] ↔ ∀ f ∈ vs, f v row acc = true := by
  induction vs generalizing i with
  | nil => simp [failedMsgs]
  | cons f fs ih =>
    simp only [failedMsgs, List.mem_cons, forall_eq_or_imp]
    by_cases hf : f v row acc = true
    · simp [hf, ih]
    · simp [hf]

/-- one message per failed validation -/
theorem failedMsgs_length (c : PCol) (v : Option Str) (row : Str) (acc : Row) (i : Nat)
    (vs : List Validation) :
    (failedMsgs c v row acc i vs).length = (vs.filter (fun f => !f v row acc)).length := by
  induction vs generalizing i with
  | nil => simp [failedMsgs]
  | cons f fs ih =>
    simp only [failedMsgs, List.filter_cons]
    by_cases hf : f v row acc = true
    · simp [hf, ih]
    · simp [hf, ih]

/-- the columns (in layout order) all of whose validations hold on the row, each seeing the
columns parsed before it: `true` iff the row is accepted -/
def allValid (row : Str) : List PCol → Row → Bool
  | [], _ => true
  | c :: cs, acc =>
    c.validations.all (fun f => f (colValue row c) row acc)
      && allValid row cs (acc ++ [(c.name, colValue row c)])

theorem parseCols_classify (row : Str) (cols : List PCol) (acc : Row) :
    (allValid row cols acc = true →
      parseCols row true cols acc = .parsed (acc ++ cols.map (fun c => (c.name, colValue row c))))
    ∧ (allValid row cols acc = false → ∃ msg, parseCols row true cols acc = .rejected row msg) := by
  induction cols generalizing acc with
  | nil => simp [parseCols, allValid]
  | cons c cs ih =>
    simp only [parseCols, allValid, Bool.true_and]
    by_cases hall : c.validations.all (fun f => f (colValue row c) row acc) = true
    · have hnil : failedMsgs c (colValue row c) row acc 0 c.validations = [] :=
        (failedMsgs_eq_nil c _ row acc 0 _).mpr (by simpa using hall)
      have hstep : (if (!c.validations.isEmpty) = true then
            if (!(failedMsgs c (colValue row c) row acc 0 c.validations).isEmpty) = true then
              RowRes.rejected row (join [';'] (failedMsgs c (colValue row c) row acc 0 c.validations))
            else parseCols row true cs (acc ++ [(c.name, colValue row c)])
          else parseCols row true cs (acc ++ [(c.name, colValue row c)]))
          = parseCols row true cs (acc ++ [(c.name, colValue row c)]) := by
        rw [hnil]; simp
      rw [hstep, hall]
      simp only [Bool.true_and]
      obtain ⟨i1, i2⟩ := ih (acc ++ [(c.name, colValue row c)])
      refine ⟨fun h => ?_, i2⟩
      rw [i1 h]; simp
    · have hall' : c.validations.all (fun f => f (colValue row c) row acc) = false := by
        simpa using hall
      have hne : failedMsgs c (colValue row c) row acc 0 c.validations ≠ [] := by
        intro h
        have := (failedMsgs_eq_nil c _ row acc 0 _).mp h
        exact hall (by simpa using this)
      have hvs : c.validations.isEmpty = false := by
        cases hv : c.validations with
        | nil => rw [hv] at hall; simp at hall
        | cons _ _ => rfl
      have hme : (failedMsgs c (colValue row c) row acc 0 c.validations).isEmpty = false := by
        cases hm : failedMsgs c (colValue row c) row acc 0 c.validations with
        | nil => exact absurd hm hne
        | cons _ _ => rfl
      rw [hall']
      simp only [hvs, hme, Bool.not_false, if_true, Bool.false_and]
      exact ⟨fun h => (by cases h), fun _ => ⟨_, rfl⟩⟩

/-! ### the row loop of load_fwf -/

theorem filterMap_congr' {α β} (l : List α) (f g : α → Option β) (h : ∀ x ∈ l, f x = g x) :
    l.filterMap f = l.filterMap g := by
  induction l with
  | nil => rfl
  | cons x l ih =>
    simp only [List.filterMap_cons, h x (by simp)]
    rw [ih (fun y hy => h y (by simp [hy]))]

/-- the loop, started on line `prev` of index `k` with `rest` still to come: every line but the
last one is classified with the header (index 0) or body layout -/
theorem loadLoop_spec (hdr body : List PCol) (validate : Bool) (ret : Option Str) (n : Nat)
    (ftr : List PCol) (rest : List Str) (k : Nat) (prev : Str) (st : Loaded) (p : Str) (st' : Loaded)
    (hn : k + 1 + rest.length ≤ n)
    (h : loadLoop hdr body validate ret (k + 1) prev rest st = .ok (p, st')) :
    p = (prev :: rest).getLast (List.cons_ne_nil _ _)
    ∧ st'.accepted = st.accepted ++
        (((prev :: rest).dropLast).zipIdx k).filterMap (accOf hdr body ftr validate ret n)
    ∧ st'.rejected = st.rejected ++
        (((prev :: rest).dropLast).zipIdx k).filterMap (rejOf hdr body ftr validate n)
    ∧ (∀ x ∈ ((prev :: rest).dropLast).zipIdx k, x.1.isEmpty = false →
        ∃ res, parseRow x.1 (layoutAt hdr body ftr n x.2) validate = .ok res) := by
  induction rest generalizing k prev st with
  | nil =>
    simp only [loadLoop] at h
    cases h
    simp
  | cons row rest ih =>
    simp only [List.length_cons] at hn
    have hlay : layoutAt hdr body ftr n k = (if k + 1 = 1 then hdr else body) := by
      unfold layoutAt
      have : ¬ (k + 1 = n) := by omega
      simp only [this, if_false]
      by_cases hk : k = 0 <;> simp [hk]
    rw [List.getLast_cons_cons, List.dropLast_cons_cons, List.zipIdx_cons]
    simp only [List.filterMap_cons, List.mem_cons]
    simp only [loadLoop] at h
    by_cases hp : prev.isEmpty = true
    · simp only [hp, Bool.not_true, Bool.false_eq_true, if_false] at h
      obtain ⟨i1, i2, i3, i4⟩ := ih (k + 1) row st (by omega) h
      refine ⟨i1, ?_, ?_, ?_⟩
      · simp only [accOf, hp, if_true]; exact i2
      · simp only [rejOf, hp, if_true]; exact i3
      · intro x hx hne
        rcases hx with hx | hx
        · subst hx; simp [hp] at hne
        · exact i4 x hx hne
    · have hp' : prev.isEmpty = false := by simpa using hp
      simp only [hp', Bool.not_false, if_true] at h
      rw [← hlay] at h
      cases hr : parseRow prev (layoutAt hdr body ftr n k) validate with
      | error e => rw [hr] at h; cases h
      | ok res =>
        rw [hr] at h
        have hk1 : ¬ (k + 1 = n) := by omega
        cases res with
        | parsed r =>
          simp only at h
          obtain ⟨i1, i2, i3, i4⟩ := ih (k + 1) row _ (by omega) h
          refine ⟨i1, ?_, ?_, ?_⟩
          · simp only [accOf, hp', Bool.false_eq_true, if_false, hr]
            rw [i2]; simp
          · simp only [rejOf, hp', Bool.false_eq_true, if_false, hr]
            exact i3
          · intro x hx hne
            rcases hx with hx | hx
            · subst hx; exact ⟨_, hr⟩
            · exact i4 x hx hne
        | rejected rw' msg =>
          simp only at h
          obtain ⟨i1, i2, i3, i4⟩ := ih (k + 1) row _ (by omega) h
          refine ⟨i1, ?_, ?_, ?_⟩
          · simp only [accOf, hp', Bool.false_eq_true, if_false, hr]
            exact i2
          · simp only [rejOf, hp', Bool.false_eq_true, if_false, hr, hk1]
            rw [i3]; simp
          · intro x hx hne
            rcases hx with hx | hx
            · subst hx; exact ⟨_, hr⟩
            · exact i4 x hx hne

/-- `load_fwf` as a whole -/
theorem loadFwf_spec (lines : List Str) (hdr body ftr : List PCol) (validate : Bool)
    (ret : Option Str) (st : Loaded) (h : loadFwf lines hdr body ftr validate ret = .ok st) :
    let body' := if body.isEmpty then hdr else body
    let ftr' := if ftr.isEmpty then body' else ftr
    st.accepted = lines.zipIdx.filterMap (accOf hdr body' ftr' validate ret lines.length)
    ∧ st.rejected = lines.zipIdx.filterMap (rejOf hdr body' ftr' validate lines.length)
    ∧ (∀ x ∈ lines.zipIdx, x.1.isEmpty = false →
        ∃ res, parseRow x.1 (layoutAt hdr body' ftr' lines.length x.2) validate = .ok res) := by
  intro body' ftr'
  unfold loadFwf at h
  split at h
  · cases h
  · simp only at h
    change (match loadLoop hdr body' validate ret 0 [] lines { accepted := [], rejected := [] } with
      | .error e => .error e
      | .ok (prev, st) =>
        if !prev.isEmpty then
          match parseRow prev ftr' validate with
          | .error e => .error e
          | .ok (.parsed r) => .ok { st with accepted := st.accepted ++ [addOriginal ret prev r] }
          | .ok (.rejected rw msg) =>
            .ok { st with rejected := st.rejected ++ [{ line := none, row := rw, msg := msg }] }
        else .ok st) = Except.ok st at h
    cases lines with
    | nil =>
      simp only [loadLoop] at h
      simp at h
      subst h
      simp
    | cons row0 rest0 =>
      obtain ⟨init, last, hL⟩ : ∃ init last, row0 :: rest0 = init ++ [last] := by
        rcases List.eq_nil_or_concat (row0 :: rest0) with h | ⟨i, l, h⟩
        · cases h
        · exact ⟨i, l, by simpa using h⟩
      have hstep : loadLoop hdr body' validate ret 0 [] (row0 :: rest0) { accepted := [], rejected := [] }
          = loadLoop hdr body' validate ret (0 + 1) row0 rest0 { accepted := [], rejected := [] } := by
        simp [loadLoop]
      rw [hstep] at h
      cases hl : loadLoop hdr body' validate ret (0 + 1) row0 rest0 { accepted := [], rejected := [] } with
      | error e => rw [hl] at h; cases h
      | ok pst =>
        obtain ⟨p, st1⟩ := pst
        rw [hl] at h
        simp only at h
        obtain ⟨i1, i2, i3, i4⟩ := loadLoop_spec hdr body' validate ret (row0 :: rest0).length ftr'
          rest0 0 row0 _ p st1 (by simp; omega) hl
        have e1 : (row0 :: rest0).dropLast = init := by rw [hL]; simp
        have e2 : p = last := by
          have : (row0 :: rest0).getLast? = some p := by
            rw [i1]; exact List.getLast?_eq_some_getLast _
          rw [hL] at this
          simpa using this.symm
        have e3 : (row0 :: rest0).zipIdx = init.zipIdx ++ [(last, init.length)] := by
          rw [hL, List.zipIdx_append]; simp
        have e4 : (row0 :: rest0).length = init.length + 1 := by rw [hL]; simp
        rw [e1] at i2 i3 i4
        simp only [List.nil_append] at i2 i3
        subst e2
        rw [e3, List.filterMap_append, List.filterMap_append]
        generalize (row0 :: rest0).length = n at i2 i3 i4 e4 ⊢
        subst e4
        have hlay : layoutAt hdr body' ftr' (init.length + 1) init.length = ftr' := by
          simp [layoutAt]
        by_cases hp : p.isEmpty = true
        · simp only [hp, Bool.not_true, Bool.false_eq_true, if_false] at h
          cases h
          refine ⟨?_, ?_, ?_⟩
          · rw [i2]; simp [accOf, hp]
          · rw [i3]; simp [rejOf, hp]
          · intro x hx hne
            rcases List.mem_append.mp hx with hx | hx
            · exact i4 x hx hne
            · simp at hx; subst hx; simp [hp] at hne
        · have hp' : p.isEmpty = false := by simpa using hp
          simp only [hp', Bool.not_false, if_true] at h
          cases hr : parseRow p ftr' validate with
          | error e => rw [hr] at h; cases h
          | ok res =>
            rw [hr] at h
            cases res with
            | parsed r =>
              simp only at h
              cases h
              refine ⟨?_, ?_, ?_⟩
              · simp [i2, accOf, hp', hlay, hr]
              · simp [i3, rejOf, hp', hlay, hr]
              · intro x hx hne
                rcases List.mem_append.mp hx with hx | hx
                · exact i4 x hx hne
                · simp at hx; subst hx; exact ⟨_, by rw [hlay]; exact hr⟩
            | rejected rw' msg =>
              simp only at h
              cases h
              refine ⟨?_, ?_, ?_⟩
              · simp [i2, accOf, hp', hlay, hr]
              · simp [i3, rejOf, hp', hlay, hr]
              · intro x hx hne
                rcases List.mem_append.mp hx with hx | hx
                · exact i4 x hx hne
                · simp at hx; subst hx; exact ⟨_, by rw [hlay]; exact hr⟩


/-- fix C16-d: with non-empty layouts the row loop never raises -/
theorem loadLoop_total (hdr body : List PCol) (validate : Bool) (ret : Option Str)
    (hh : hdr ≠ []) (hb : body ≠ []) (rest : List Str) (i : Nat) (prev : Str) (st : Loaded) :
    ∃ r, loadLoop hdr body validate ret i prev rest st = .ok r := by
  induction rest generalizing i prev st with
  | nil => exact ⟨_, rfl⟩
  | cons row rest ih =>
    simp only [loadLoop]
    have hl : (if i = 1 then hdr else body) ≠ [] := by split <;> assumption
    rw [parseRow_ok prev validate _ hl]
    split
    · cases parseCols prev validate (if i = 1 then hdr else body) [] with
      | parsed r => exact ih _ _ _
      | rejected rw' msg => exact ih _ _ _
    · exact ih _ _ _

/-- fix C16-d: `load_fwf` (over the lines read) raises only for a missing header layout -/
theorem loadFwf_total (lines : List Str) (hdr body ftr : List PCol) (validate : Bool)
    (ret : Option Str) (hh : hdr ≠ []) :
    ∃ st, loadFwf lines hdr body ftr validate ret = .ok st := by
  unfold loadFwf
  have hhe : hdr.isEmpty = false := by cases hdr <;> simp_all
  simp only [hhe, Bool.false_eq_true, if_false]
  have hb : (if body.isEmpty then hdr else body) ≠ [] := by
    split
    · exact hh
    · rename_i h; intro h'; rw [h'] at h; simp at h
  have hf : (if ftr.isEmpty then (if body.isEmpty then hdr else body) else ftr) ≠ [] := by
    split
    · exact hb
    · rename_i h; intro h'; rw [h'] at h; simp at h
  obtain ⟨⟨p, st1⟩, hr⟩ := loadLoop_total hdr _ validate ret hh hb lines 0 []
    { accepted := [], rejected := [] }
  rw [hr]
  simp only
  split
  · rw [parseRow_ok p validate _ hf]
    cases parseCols p validate _ [] with
    | parsed r => exact ⟨_, rfl⟩
    | rejected rw' msg => exact ⟨_, rfl⟩
  · exact ⟨_, rfl⟩

theorem loadFwf_error (lines : List Str) (hdr body ftr : List PCol) (validate : Bool)
    (ret : Option Str) (e : PyErr) (h : loadFwf lines hdr body ftr validate ret = .error e) :
    e = .SyntaxError ∧ hdr = [] := by
  by_cases hh : hdr = []
  · subst hh
    simp [loadFwf] at h
    exact ⟨h.symm, rfl⟩
  · obtain ⟨st, hst⟩ := loadFwf_total lines hdr body ftr validate ret hh
    rw [hst] at h; cases h

theorem pairwise_disjoint_forall (fmt : List GCol)
    (hp : fmt.Pairwise (fun a b => a.till ≤ b.offset ∨ b.till ≤ a.offset)) :
    ∀ x ∈ fmt, ∀ c ∈ fmt, x = c ∨ (x.till ≤ c.offset ∨ c.till ≤ x.offset) := by
  induction fmt with
  | nil => simp
  | cons y fmt ih =>
    obtain ⟨h1, h2⟩ := List.pairwise_cons.mp hp
    intro x hx c hc
    rcases List.mem_cons.mp hx with hx' | hx' <;> rcases List.mem_cons.mp hc with hc' | hc'
    · exact .inl (hx'.trans hc'.symm)
    · rw [hx']; exact .inr (h1 c hc')
    · rw [hc']
      rcases h1 x hx' with h | h
      · exact .inr (.inr h)
      · exact .inr (.inl h)
    · exact ih h2 x hx' c hc'

theorem slice_replicate (n a b : Nat) (ch : Char) (h : b ≤ n) :
    slice (List.replicate n ch) a b = List.replicate (b - a) ch := by
  unfold slice
  rw [List.drop_replicate, List.take_replicate]
  congr 1
  omega

/-! ### counting -/

theorem partition_count {α β γ} (l : List α) (f : α → Option β) (g : α → Option γ) (p : α → Bool)
    (h : ∀ x ∈ l, (p x = false → f x = none ∧ g x = none)
      ∧ (p x = true → ((f x).isSome = true ∧ g x = none) ∨ (f x = none ∧ (g x).isSome = true))) :
    (l.filterMap f).length + (l.filterMap g).length = (l.filter p).length := by
  induction l with
  | nil => rfl
  | cons x l ih =>
    have ih' := ih (fun y hy => h y (by simp [hy]))
    obtain ⟨h1, h2⟩ := h x (by simp)
    cases hp : p x with
    | false =>
      obtain ⟨hf, hg⟩ := h1 hp
      simp only [List.filterMap_cons, hf, hg, List.filter_cons, hp, Bool.false_eq_true, if_false]
      exact ih'
    | true =>
      rcases h2 hp with ⟨hf, hg⟩ | ⟨hf, hg⟩
      · obtain ⟨b, hb⟩ := Option.isSome_iff_exists.mp hf
        simp only [List.filterMap_cons, hb, hg, List.filter_cons, hp, if_true, List.length_cons]
        omega
      · obtain ⟨c, hc⟩ := Option.isSome_iff_exists.mp hg
        simp only [List.filterMap_cons, hf, hc, List.filter_cons, hp, if_true, List.length_cons]
        omega

theorem filter_zipIdx_length (l : List Str) (k : Nat) :
    ((l.zipIdx k).filter (fun x => !x.1.isEmpty)).length = (l.filter (fun s => !s.isEmpty)).length := by
  induction l generalizing k with
  | nil => rfl
  | cons s l ih =>
    simp only [List.zipIdx_cons, List.filter_cons]
    by_cases hs : s.isEmpty = true
    · simp only [hs, Bool.not_true, Bool.false_eq_true, if_false]; exact ih _
    · have : s.isEmpty = false := by simpa using hs
      simp only [this, Bool.not_false, if_true, List.length_cons, ih]

end N0.Fwf
