import N0Verif.Proofs.Digits
import N0Verif.Proofs.XPathTree
/-!
  Token layer: what `split_name_index` and `n0eval` return on rendered steps.
-/
namespace N0.XPath
open N0 N0.Py N0.Val

/-! ### generic string facts -/

theorem dropWhile_eq_self {α} (p : α → Bool) (l : List α) (h : ∀ x, l.head? = some x → p x = false) :
    l.dropWhile p = l := by
  cases l with
  | nil => rfl
  | cons a l => simp [List.dropWhile, h a rfl]

/-- a string whose first and last characters are not whitespace is fixed by `strip()` -/
theorem stripWs_eq_self (s : Str) (h1 : ∀ c, s.head? = some c → isPySpace c = false)
    (h2 : ∀ c, s.getLast? = some c → isPySpace c = false) : stripWs s = s := by
  unfold stripWs
  rw [dropWhile_eq_self _ s h1, dropWhile_eq_self _ s.reverse (by
    intro x hx; apply h2; rw [List.getLast?_eq_head?_reverse]; exact hx)]
  simp

theorem stripWs_nil : stripWs [] = [] := rfl

theorem contains_false_of_forall (s : Str) (c : Char) (h : ∀ x ∈ s, x ≠ c) : s.contains c = false := by
  induction s with
  | nil => rfl
  | cons a s ih =>
    have ha : a ≠ c := h a (by simp)
    have := ih (fun x hx => h x (by simp [hx]))
    simp only [List.contains_eq_mem, decide_eq_false_iff_not, List.mem_cons, not_or] at this ⊢
    exact ⟨fun heq => ha heq.symm, this⟩

theorem startsWith_self_append (p s : Str) : startsWith (p ++ s) p = true := by
  induction p with
  | nil => cases s <;> rfl
  | cons c p ih => simp [startsWith, ih]

theorem startsWith_nil (s : Str) : startsWith s [] = true := by cases s <;> rfl

theorem endsWith_snoc (s : Str) (c : Char) : endsWith (s ++ [c]) [c] = true := by
  simp [endsWith, startsWith, startsWith_nil]

theorem split1_found (sep a b : Str) (acc : Str) (fuel : Nat) (hsep : sep ≠ [])
    (hno : ∀ (pre suf : Str), a = pre ++ suf → suf ≠ [] → startsWith (suf ++ sep ++ b) sep = false)
    (hf : fuel ≥ a.length + sep.length + 1) :
    split1 sep fuel acc (a ++ sep ++ b) = some (acc.reverse ++ a, b) := by
  induction a generalizing acc fuel with
  | nil =>
    obtain ⟨f, rfl⟩ : ∃ f, fuel = f + 1 := ⟨fuel - 1, by omega⟩
    cases hs : sep with
    | nil => exact absurd hs hsep
    | cons c sep' =>
      simp only [List.nil_append, List.cons_append, split1]
      have : startsWith (c :: (sep' ++ b)) (c :: sep') = true := by
        have := startsWith_self_append (c :: sep') b
        simpa using this
      simp [this]
  | cons x a ih =>
    obtain ⟨f, rfl⟩ : ∃ f, fuel = f + 1 := ⟨fuel - 1, by simp at hf; omega⟩
    have h0 := hno [] (x :: a) rfl (by simp)
    simp only [List.cons_append, split1]
    have h0' : startsWith (x :: (a ++ sep ++ b)) sep = false := by simpa using h0
    simp only [h0', Bool.false_eq_true, if_false]
    rw [ih (x :: acc) f (fun pre suf hps hne => hno (x :: pre) suf (by simp [hps]) hne) (by simp at hf ⊢; omega)]
    simp

/-- `splitOnce "[" (a ++ "[" ++ b) = (a, b)` when `a` has no '[' -/
theorem splitOnce_bracket (a b : Str) (ha : ∀ c ∈ a, c ≠ '[') :
    splitOnce ['['] (a ++ '[' :: b) = some (a, b) := by
  unfold splitOnce
  have := split1_found ['['] a b [] ((a ++ '[' :: b).length + 1) (by simp)
    (by
      intro pre suf hps hne
      cases suf with
      | nil => exact absurd rfl hne
      | cons c suf =>
        have hc : c ∈ a := by rw [hps]; simp
        have := ha c hc
        simp [startsWith, this])
    (by simp)
  simpa using this

/-! ### plain keys and index expressions -/

/-- characters a plain name may contain (the property's quantifier: no '/', '[', ']', '*',
'?', '=', '~', quotes or blanks) -/
def plainChar (c : Char) : Bool :=
  !(c = '/' || c = '[' || c = ']' || c = '*' || c = '?' || c = '=' || c = '~' || c = '"' || c = '\''
    || isPySpace c)

structure PlainKey (k : Str) : Prop where
  ne : k ≠ []
  chars : ∀ c ∈ k, plainChar c = true
  notUp : k ≠ ['.', '.']

/-- text between brackets that is not a condition and is already stripped -/
structure IdxExpr (e : Str) : Prop where
  ne : e ≠ []
  head : ∀ c, e.head? = some c → isPySpace c = false
  last : ∀ c, e.getLast? = some c → isPySpace c = false
  notContains : startsWith (lower e) sContains = false
  noEq : ∀ c ∈ e, c ≠ '=' ∧ c ≠ '~'

theorem plainChar_ne {c : Char} (h : plainChar c = true) :
    c ≠ '/' ∧ c ≠ '[' ∧ c ≠ ']' ∧ c ≠ '*' ∧ isPySpace c = false := by
  simp only [plainChar, Bool.not_eq_true', Bool.or_eq_false_iff, decide_eq_false_iff_not] at h
  obtain ⟨⟨⟨⟨⟨⟨⟨⟨⟨h1, h2⟩, h3⟩, h4⟩, _⟩, _⟩, _⟩, _⟩, _⟩, h10⟩ := h
  exact ⟨h1, h2, h3, h4, h10⟩

theorem PlainKey.stripWs {k : Str} (h : PlainKey k) : stripWs k = k :=
  stripWs_eq_self k
    (fun c hc => (plainChar_ne (h.chars c (List.mem_of_mem_head? hc))).2.2.2.2)
    (fun c hc => (plainChar_ne (h.chars c (List.mem_of_getLast? hc))).2.2.2.2)

theorem PlainKey.noBracket {k : Str} (h : PlainKey k) : k.contains '[' = false :=
  contains_false_of_forall k '[' (fun c hc => (plainChar_ne (h.chars c hc)).2.1)

theorem PlainKey.keyTok {k : Str} (h : PlainKey k) : KeyTok k where
  split := by
    unfold splitNameIndex
    simp only [h.noBracket, Bool.false_and, Bool.false_eq_true, if_false]
  ne := h.ne
  notUp := h.notUp
  notStar := by
    intro heq
    have := (plainChar_ne (h.chars '*' (by simp [heq]))).2.2.2.1
    exact this rfl

theorem IdxExpr.parseCond {e : Str} (h : IdxExpr e) : parseCond e = .ok (.str e) := by
  unfold XPath.parseCond
  have h1 : e.contains '=' = false := contains_false_of_forall e '=' (fun c hc => (h.noEq c hc).1)
  have h2 : e.contains '~' = false := contains_false_of_forall e '~' (fun c hc => (h.noEq c hc).2)
  simp only [h1, h2, Bool.or_self, Bool.false_eq_true, if_false]

/-- `split_name_index("k[e]") = ("k", "e")`, also for the empty name (`"[e]"`) -/
theorem split_bracket (k e : Str) (hk : k = [] ∨ PlainKey k) (he : IdxExpr e) :
    splitNameIndex (k ++ bracket e) = .ok (k, .str e) := by
  have hkb : ∀ c ∈ k, c ≠ '[' := by
    rcases hk with hk | hk
    · subst hk; simp
    · exact fun c hc => (plainChar_ne (hk.chars c hc)).2.1
  have hks : stripWs k = k := by
    rcases hk with hk | hk
    · subst hk; rfl
    · exact hk.stripWs
  have hes : stripWs e = e := stripWs_eq_self e he.head he.last
  have hform : k ++ bracket e = (k ++ '[' :: e) ++ [']'] := by simp [bracket]
  have hcont : (k ++ bracket e).contains '[' = true := by simp [bracket]
  have hends : endsWith (k ++ bracket e) [']'] = true := by rw [hform]; exact endsWith_snoc _ _
  have hdrop : (k ++ bracket e).dropLast = k ++ '[' :: e := by
    rw [hform, List.dropLast_concat]
  have hne : e.isEmpty = false := isEmpty_false_of_ne he.ne
  unfold splitNameIndex
  simp only [hcont, hends, Bool.and_self, if_true, hdrop, splitOnce_bracket k e hkb, hks, hes, hne,
    Bool.false_eq_true, if_false, he.notContains, Bool.false_and, he.parseCond]
  rfl

theorem IdxExpr.idxTok {e : Str} {i : Int} (he : IdxExpr e) (hnew : e ≠ sNew) (hstar : e ≠ ['*'])
    (hev : n0eval e = .ok (.int i)) : IdxTok (bracket e) e i where
  split := by simpa using split_bracket [] e (Or.inl rfl) he
  ne := he.ne
  notNew := hnew
  notStar := hstar
  eval := hev

theorem keyIdxTok_of {k e : Str} {i : Int} (hk : PlainKey k) (he : IdxExpr e) (hnew : e ≠ sNew)
    (hstar : e ≠ ['*']) (hev : n0eval e = .ok (.int i)) : KeyIdxTok (k ++ bracket e) k e i where
  split := split_bracket k e (Or.inr hk) he
  kne := hk.ne
  notUp := hk.notUp
  notStar := hk.keyTok.notStar
  inner := he.idxTok hnew hstar hev

/-! ### n0eval on the index spellings -/

theorem splitChar_no_delim (c : Char) (s : Str) (h : ∀ x ∈ s, x ≠ c) : splitChar c s = [s] := by
  induction s with
  | nil => rfl
  | cons x s ih =>
    have hx : x ≠ c := h x (by simp)
    simp [splitChar, hx, ih (fun y hy => h y (by simp [hy]))]

theorem splitChar_append (c : Char) (a b : Str) (h : ∀ x ∈ a, x ≠ c) :
    splitChar c (a ++ c :: b) = a :: splitChar c b := by
  induction a with
  | nil => simp [splitChar]
  | cons x a ih =>
    have hx : x ≠ c := h x (by simp)
    simp [splitChar, hx, ih (fun y hy => h y (by simp [hy]))]

/-- a non-empty string of ASCII digits -/
structure Digits (ds : Str) : Prop where
  ne : ds ≠ []
  all : ∀ c ∈ ds, isAsciiDigit c = true

theorem digits_natDigits (n : Nat) : Digits (natDigits n) := ⟨natDigits_ne_nil n, natDigits_all_digit n⟩

theorem Digits.stripWs {ds : Str} (h : Digits ds) : stripWs ds = ds :=
  stripWs_eq_self ds
    (fun c hc => (digit_ne (h.all c (List.mem_of_mem_head? hc))).2.2.2.2.2.2.2.2.2.2.2.1)
    (fun c hc => (digit_ne (h.all c (List.mem_of_getLast? hc))).2.2.2.2.2.2.2.2.2.2.2.1)

theorem Digits.lower {ds : Str} (h : Digits ds) : lower ds = ds := by
  unfold Py.lower
  have : ∀ (l : Str), (∀ c ∈ l, isAsciiDigit c = true) → l.map toLowerAscii = l := by
    intro l hl
    induction l with
    | nil => rfl
    | cons c l ih =>
      simp only [List.map_cons]
      rw [(digit_ne (hl c (by simp))).2.2.2.2.2.2.2.2.2.2.2.2.1, ih (fun x hx => hl x (by simp [hx]))]
  exact this ds h.all

theorem filter_eq_self_of {p : Char → Bool} (s : Str) (h : ∀ c ∈ s, p c = true) : s.filter p = s := by
  induction s with
  | nil => rfl
  | cons c s ih => simp [List.filter, h c (by simp), ih (fun x hx => h x (by simp [hx]))]

theorem pyIntDigits_all (ds : Str) (h : ∀ c ∈ ds, isAsciiDigit c = true) (prev : Bool)
    (hp : ds = [] → prev = true) : pyIntDigits ds prev = true := by
  induction ds generalizing prev with
  | nil => simp [pyIntDigits, hp rfl]
  | cons c ds ih =>
    simp only [pyIntDigits, h c (by simp), if_true]
    exact ih (fun x hx => h x (by simp [hx])) true (fun _ => rfl)

theorem pyInt_digits {ds : Str} (h : Digits ds) : pyInt ds = some (natOfDigits ds : Int) := by
  unfold pyInt
  rw [h.stripWs]
  have hne : ds.isEmpty = false := isEmpty_false_of_ne h.ne
  have hfil : ds.filter (· ≠ '_') = ds :=
    filter_eq_self_of ds (fun c hc => by simp [(digit_ne (h.all c hc)).2.2.2.1])
  cases ds with
  | nil => exact absurd rfl h.ne
  | cons c ds =>
    have hc := digit_ne (h.all c (by simp))
    have h1 : c ≠ '-' := hc.2.2.1
    have h2 : c ≠ '+' := hc.2.1
    have hd : pyIntDigits (c :: ds) false = true := pyIntDigits_all (c :: ds) h.all false (by simp)
    have hfil' : (c :: ds).filter (fun x => !decide (x = '_')) = c :: ds :=
      filter_eq_self_of _ (fun x hx => by simp [(digit_ne (h.all x hx)).2.2.2.1])
    simp [h1, h2, hd, hfil']

theorem pyInt_neg_digits {ds : Str} (h : Digits ds) :
    pyInt ('-' :: ds) = some (-(natOfDigits ds : Int)) := by
  unfold pyInt
  have hs : stripWs ('-' :: ds) = '-' :: ds := by
    apply stripWs_eq_self
    · intro c hc; simp at hc; subst hc; decide
    · intro c hc
      have : c ∈ ds := by
        cases ds with
        | nil => exact absurd rfl h.ne
        | cons d ds => exact List.mem_of_getLast? (by simpa [List.getLast?_cons_cons] using hc)
      exact (digit_ne (h.all c this)).2.2.2.2.2.2.2.2.2.2.2.1
  rw [hs]
  have hne : ds.isEmpty = false := isEmpty_false_of_ne h.ne
  have hfil : ds.filter (· ≠ '_') = ds :=
    filter_eq_self_of ds (fun c hc => by simp [(digit_ne (h.all c hc)).2.2.2.1])
  have hd : pyIntDigits ds false = true := pyIntDigits_all ds h.all false (fun hnil => absurd hnil h.ne)
  have hfil' : ds.filter (fun x => !decide (x = '_')) = ds :=
    filter_eq_self_of _ (fun x hx => by simp [(digit_ne (h.all x hx)).2.2.2.1])
  simp [hne, hd, hfil']

theorem Digits.mem_ne {ds : Str} (h : Digits ds) (c : Char) (hc : c ∈ ds) :
    c ≠ ' ' ∧ c ≠ '+' ∧ c ≠ '-' ∧ c ≠ '.' ∧ c.toNat < 128 := by
  have := digit_ne (h.all c hc)
  exact ⟨this.1, this.2.1, this.2.2.1, this.2.2.2.2.1, this.2.2.2.2.2.2.2.2.2.2.2.2.2⟩

theorem Digits.noDot {ds : Str} (h : Digits ds) : ds.contains '.' = false :=
  contains_false_of_forall ds '.' (fun c hc => (h.mem_ne c hc).2.2.2.1)

theorem Digits.ascii {ds : Str} (h : Digits ds) : ds.any (fun c => decide (c.toNat ≥ 128)) = false := by
  rw [List.any_eq_false]
  intro c hc
  have := (h.mem_ne c hc).2.2.2.2
  simp; omega

/-- `my_split` of a piece that does not contain the delimiter and is already stripped -/
theorem mySplit_single (delim : Char) (s : Str) (hne : s ≠ []) (hs : stripWs s = s)
    (h : ∀ x ∈ s, x ≠ delim) : mySplit delim s = [s] := by
  unfold mySplit
  rw [splitChar_no_delim delim s h]
  simp [mySplit.go, hs, isEmpty_false_of_ne hne]

theorem Digits.ne_new {ds : Str} (h : Digits ds) : ds ≠ sNew ∧ ds ≠ sLast := by
  constructor <;> intro heq
  · have := h.all 'n' (by rw [heq]; decide)
    exact absurd this (by decide)
  · have := h.all 'l' (by rw [heq]; decide)
    exact absurd this (by decide)

theorem Digits.filterSp {ds : Str} (h : Digits ds) : ds.filter (· ≠ ' ') = ds :=
  filter_eq_self_of ds (fun c hc => by simp [(h.mem_ne c hc).1])

/-- one evaluation step of `n0eval` on a digit item -/
theorem n0evalItems_digits {ds : Str} (h : Digits ds) (rest : List Str) (acc : Int) (whole : Str) :
    n0evalItems (ds :: rest) acc whole = n0evalItems rest (acc + (natOfDigits ds : Int)) whole := by
  rw [n0evalItems]
  simp only [h.ne_new.1, h.ne_new.2, if_false, h.noDot, Bool.false_eq_true, h.ascii, pyInt_digits h]

theorem n0evalItems_neg_digits {ds : Str} (h : Digits ds) (rest : List Str) (acc : Int) (whole : Str) :
    n0evalItems (('-' :: ds) :: rest) acc whole = n0evalItems rest (acc + -(natOfDigits ds : Int)) whole := by
  rw [n0evalItems]
  have h1 : ('-' :: ds) ≠ sNew := by intro heq; simp [sNew] at heq
  have h2 : ('-' :: ds) ≠ sLast := by intro heq; simp [sLast] at heq
  have h3 : ('-' :: ds).contains '.' = false :=
    contains_false_of_forall _ '.' (by
      intro c hc; simp at hc; rcases hc with hc | hc
      · subst hc; decide
      · exact (h.mem_ne c hc).2.2.2.1)
  have h4 : ('-' :: ds).any (fun c => decide (c.toNat ≥ 128)) = false := by
    rw [List.any_cons, h.ascii]; decide
  simp only [h1, h2, if_false, h3, Bool.false_eq_true, h4, pyInt_neg_digits h]

theorem n0evalItems_last (rest : List Str) (acc : Int) (whole : Str) :
    n0evalItems (sLast :: rest) acc whole = n0evalItems rest (acc - 1) whole := by
  rw [n0evalItems]
  have h1 : sLast ≠ sNew := by decide
  simp only [h1, if_false, if_true]

theorem mySplit_plus_single (s : Str) (hne : s ≠ []) (hs : stripWs s = s) (h : ∀ x ∈ s, x ≠ '+') :
    mySplit '+' s = [s] := mySplit_single '+' s hne hs h

/-- `n0eval("123") = 123` -/
theorem n0eval_digits {ds : Str} (h : Digits ds) : n0eval ds = .ok (.int (natOfDigits ds)) := by
  unfold n0eval
  simp only [h.filterSp, h.lower, isEmpty_false_of_ne h.ne, Bool.false_eq_true, if_false]
  rw [mySplit_single '+' ds h.ne h.stripWs (fun c hc => (h.mem_ne c hc).2.1)]
  simp only [List.flatMap_cons, List.flatMap_nil, List.append_nil]
  rw [mySplit_single '-' ds h.ne h.stripWs (fun c hc => (h.mem_ne c hc).2.2.1)]
  rw [n0evalItems_digits h, n0evalItems]
  simp

theorem n0eval_nat (n : Nat) : n0eval (natStr n) = .ok (.int n) := by
  have := n0eval_digits (digits_natDigits n)
  rw [natOfDigits_natDigits] at this
  exact this

theorem sLast_facts : sLast.filter (· ≠ ' ') = sLast ∧ lower sLast = sLast ∧ stripWs sLast = sLast
    ∧ (∀ x ∈ sLast, x ≠ '+') ∧ (∀ x ∈ sLast, x ≠ '-') := by decide

/-- `n0eval("last()") = -1` -/
theorem n0eval_last : n0eval sLast = .ok (.int (-1)) := by decide

theorem filter_append_sp (a b : Str) : (a ++ b).filter (· ≠ ' ') = a.filter (· ≠ ' ') ++ b.filter (· ≠ ' ') :=
  List.filter_append ..

theorem lower_append (a b : Str) : lower (a ++ b) = lower a ++ lower b := by
  simp [Py.lower]

/-- `n0eval("-k") = -k` -/
theorem n0eval_neg {ds : Str} (h : Digits ds) : n0eval ('-' :: ds) = .ok (.int (-(natOfDigits ds : Int))) := by
  unfold n0eval
  have hf : ('-' :: ds).filter (· ≠ ' ') = '-' :: ds := by
    rw [List.filter_cons]; simp; exact fun a ha => (h.mem_ne a ha).1
  have hl : lower ('-' :: ds) = '-' :: ds := by
    have := h.lower; simp [Py.lower] at this ⊢; exact ⟨by decide, this⟩
  have hs : stripWs ('-' :: ds) = '-' :: ds := by
    apply stripWs_eq_self
    · intro c hc; simp at hc; subst hc; decide
    · intro c hc
      have : c ∈ ds := by
        cases ds with
        | nil => exact absurd rfl h.ne
        | cons d ds => exact List.mem_of_getLast? (by simpa [List.getLast?_cons_cons] using hc)
      exact (digit_ne (h.all c this)).2.2.2.2.2.2.2.2.2.2.2.1
  simp only [hf, hl, List.isEmpty_cons, Bool.false_eq_true, if_false]
  rw [mySplit_single '+' ('-' :: ds) (by simp) hs (by
    intro c hc; simp at hc; rcases hc with hc | hc
    · subst hc; decide
    · exact (h.mem_ne c hc).2.1)]
  simp only [List.flatMap_cons, List.flatMap_nil, List.append_nil]
  have hms : mySplit '-' ('-' :: ds) = ['-' :: ds] := by
    unfold mySplit
    have : splitChar '-' ('-' :: ds) = [[], ds] := by
      have := splitChar_append '-' [] ds (by simp)
      simp at this
      rw [this, splitChar_no_delim '-' ds (fun c hc => (h.mem_ne c hc).2.2.1)]
    rw [this]
    simp [mySplit.go, h.stripWs, isEmpty_false_of_ne h.ne, stripWs_nil]
  rw [hms, n0evalItems_neg_digits h, n0evalItems]
  simp

/-- `n0eval("last()-k") = -1-k` -/
theorem n0eval_last_minus {ds : Str} (h : Digits ds) :
    n0eval (sLast ++ '-' :: ds) = .ok (.int (-1 - (natOfDigits ds : Int))) := by
  unfold n0eval
  have hf : (sLast ++ '-' :: ds).filter (· ≠ ' ') = sLast ++ '-' :: ds := by
    rw [List.filter_append, sLast_facts.1, List.filter_cons]; simp; exact fun a ha => (h.mem_ne a ha).1
  have hl : lower (sLast ++ '-' :: ds) = sLast ++ '-' :: ds := by
    rw [lower_append, sLast_facts.2.1]
    have := h.lower; simp [Py.lower] at this ⊢; exact ⟨by decide, this⟩
  have hmem : ∀ c ∈ sLast ++ '-' :: ds, c ≠ '+' ∧ isPySpace c = false := by
    intro c hc
    simp only [List.mem_append, List.mem_cons] at hc
    rcases hc with hc | hc | hc
    · have : ∀ x ∈ sLast, x ≠ '+' ∧ isPySpace x = false := by decide
      exact this c hc
    · subst hc; exact ⟨by decide, by decide⟩
    · have := digit_ne (h.all c hc)
      exact ⟨this.2.1, this.2.2.2.2.2.2.2.2.2.2.2.1⟩
  have hs : stripWs (sLast ++ '-' :: ds) = sLast ++ '-' :: ds :=
    stripWs_eq_self _ (fun c hc => (hmem c (List.mem_of_mem_head? hc)).2)
      (fun c hc => (hmem c (List.mem_of_getLast? hc)).2)
  have hne : (sLast ++ '-' :: ds) ≠ [] := by simp [sLast]
  simp only [hf, hl, isEmpty_false_of_ne hne, Bool.false_eq_true, if_false]
  rw [mySplit_single '+' _ hne hs (fun c hc => (hmem c hc).1)]
  simp only [List.flatMap_cons, List.flatMap_nil, List.append_nil]
  have hms : mySplit '-' (sLast ++ '-' :: ds) = [sLast, '-' :: ds] := by
    unfold mySplit
    rw [splitChar_append '-' sLast ds sLast_facts.2.2.2.2, splitChar_no_delim '-' ds (fun c hc => (h.mem_ne c hc).2.2.1)]
    have : (stripWs sLast).isEmpty = false := by decide
    simp [mySplit.go, h.stripWs, isEmpty_false_of_ne h.ne, sLast_facts.2.2.1, this]
    decide
  rw [hms, n0evalItems_last, n0evalItems_neg_digits h, n0evalItems]
  simp; omega

/-- `n0eval("i+j") = i+j` -/
theorem n0eval_plus {d1 d2 : Str} (h1 : Digits d1) (h2 : Digits d2) :
    n0eval (d1 ++ '+' :: d2) = .ok (.int ((natOfDigits d1 : Int) + natOfDigits d2)) := by
  unfold n0eval
  have hf : (d1 ++ '+' :: d2).filter (· ≠ ' ') = d1 ++ '+' :: d2 := by
    rw [List.filter_append, h1.filterSp, List.filter_cons]; simp; exact fun a ha => (h2.mem_ne a ha).1
  have hl : lower (d1 ++ '+' :: d2) = d1 ++ '+' :: d2 := by
    rw [lower_append, h1.lower]
    have := h2.lower; simp [Py.lower] at this ⊢; exact ⟨by decide, this⟩
  have hne : (d1 ++ '+' :: d2) ≠ [] := by simp
  simp only [hf, hl, isEmpty_false_of_ne hne, Bool.false_eq_true, if_false]
  have hms : mySplit '+' (d1 ++ '+' :: d2) = [d1, d2] := by
    unfold mySplit
    rw [splitChar_append '+' d1 d2 (fun c hc => (h1.mem_ne c hc).2.1),
      splitChar_no_delim '+' d2 (fun c hc => (h2.mem_ne c hc).2.1)]
    simp [mySplit.go, h1.stripWs, h2.stripWs, isEmpty_false_of_ne h1.ne, isEmpty_false_of_ne h2.ne]
  rw [hms]
  simp only [List.flatMap_cons, List.flatMap_nil, List.append_nil]
  rw [mySplit_single '-' d1 h1.ne h1.stripWs (fun c hc => (h1.mem_ne c hc).2.2.1),
    mySplit_single '-' d2 h2.ne h2.stripWs (fun c hc => (h2.mem_ne c hc).2.2.1)]
  simp only [List.singleton_append]
  rw [n0evalItems_digits h1, n0evalItems_digits h2, n0evalItems]
  simp

end N0.XPath
