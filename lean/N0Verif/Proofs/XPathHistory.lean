import N0Verif.Proofs.XPathCreate2
import N0Verif.Proofs.XPathDeleteRec
/-!
  Mixed histories: any finite interleaving of C02 writes (to existing nodes), C03 creations
  (a `CStep` path below an existing dict node, or — first step `[new()]`/`[len]` — below a list), C05 deletions (with and without `recursively`)
  and pops, each addressed by the canonical path text of the *current* state.

  Reference semantics on plain trees: `setAt`, `createIn`, `delAt`, `pruneUp`.
  The model side runs `setItem` / `delete` / `pop` on the path text.

  No invariant about the keys of the *tree* is needed: every one-step theorem asks only that the
  keys on the **path** of the operation are plain names (`PlainPos`, `CStep.first`/`later`), so
  written values are arbitrary (their keys may be anything) as long as later operations do not
  walk through a non-plain key.
-/
namespace N0.XPath.Hist
open N0 N0.Py N0.Val N0.XPath

/-- one operation of a history -/
inductive Op
  /-- `d[path(p)] = v` for an existing node `p` (C02) -/
  | write (p : Pos) (v : Val)
  /-- `d[path(q) ++ steps] = v`: creation below the existing node `q` — a dict, or (first step
  `[new()]`/`[len]`) a list (C03) -/
  | create (q : Pos) (s : CStep) (steps : List CStep) (v : Val)
  /-- `d.delete(path(p), recursively)` for an existing node `p` (C05) -/
  | del (p : Pos) (recursively : Bool)
  /-- `d.pop(path(p), dflt, recursively)` for an existing node `p` (C05) -/
  | pop (p : Pos) (dflt : Val) (recursively : Bool)

/-- reference semantics of a deletion: the node disappears; with `recursively` the emptied
dictionary ancestors disappear as well (deepest first) -/
def delRef (t : Val) (p : Pos) (r : Bool) : Option Val :=
  (delAt t p).map (fun t' => if r then pruneUp t' p.dropLast (p.length - 1) else t')

/-- reference semantics of a creation below the node at `q` -/
def createRef (t : Val) (q : Pos) (steps : List CStep) (v : Val) : Option Val :=
  (getAt t q).bind (fun cur => (createIn cur steps v).bind (fun cur' => setAt t q cur'))

/-- **reference semantics** of one operation on the plain nested dict/list model -/
def applyOp (t : Val) : Op → Option Val
  | .write p v => setAt t p v
  | .create q s steps v => createRef t q (s :: steps) v
  | .del p r => delRef t p r
  | .pop p _ r => delRef t p r

/-- what the call returns in the reference model: `pop` returns the node, everything else nothing -/
def obsOp (t : Val) : Op → Option Val
  | .pop p _ _ => getAt t p
  | _ => Option.none

/-- the canonical path text the operation is called with -/
def opPath : Op → Str
  | .write p _ => slash ++ renderPos p
  | .create q s steps _ => slash ++ renderPos q ++ (s :: steps).flatMap renderCStep
  | .del p _ => slash ++ renderPos p
  | .pop p _ _ => slash ++ renderPos p

/-- **model side**: the operation through `__setitem__` / `delete` / `pop` on the path text; the
tree after the call and what the call returned (or the exception) -/
def runOp (fuel : Nat) (t : Val) (op : Op) : Val × PyM (Option Val) :=
  match op with
  | .write _ v | .create _ _ _ v =>
    match setItem fuel t (opPath op) v with
    | (t', .ok _) => (t', .ok Option.none)
    | (t', .error e) => (t', .error e)
  | .del _ r =>
    match delete fuel t (opPath op) r with
    | (t', .ok _) => (t', .ok Option.none)
    | (t', .error e) => (t', .error e)
  | .pop _ d r =>
    match pop fuel t (opPath op) d r with
    | .ok (t', x) => (t', .ok (some x))
    | .error e => (t, .error e)

/-- the operation is inside the quantifier of C02/C03/C05 **in the state `t`** -/
def ValidOp (t : Val) : Op → Prop
  | .write p _ => PlainPos p ∧ p ≠ [] ∧ ∃ c, getAt t p = some c
  | .create q s steps _ =>
    PlainPos q ∧ s.first ∧ (∀ x ∈ steps, x.later) ∧ GOk (s :: steps) ∧
      (s = .idx sNew → ¬ PlainListEncloses t q)
  | .del p _ => PlainPos p ∧ p ≠ [] ∧ ∃ c, getAt t p = some c
  | .pop p _ _ => PlainPos p ∧ p ≠ [] ∧ ∃ c, getAt t p = some c

/-- fuel that suffices for one operation (linear in the depth of the addressed node) -/
def opFuel : Op → Nat
  | .write p _ => 2 * p.length
  | .create q _ _ _ => 4 * (q.length + 1)
  | .del p _ => 2 * p.length
  | .pop p _ _ => 2 * p.length

/-- reference run of a history: the final tree and what the calls returned, in order -/
def applyOps : Val → List Op → Option (Val × List (Option Val))
  | t, [] => some (t, [])
  | t, op :: ops =>
    (applyOp t op).bind (fun t' => (applyOps t' ops).map (fun r => (r.1, obsOp t op :: r.2)))

/-- model run of a history (stops at the first exception) -/
def runOps (fuel : Nat) : Val → List Op → Val × PyM (List (Option Val))
  | t, [] => (t, .ok [])
  | t, op :: ops =>
    match runOp fuel t op with
    | (t', .error e) => (t', .error e)
    | (t', .ok o) =>
      match runOps fuel t' ops with
      | (t'', .ok os) => (t'', .ok (o :: os))
      | (t'', .error e) => (t'', .error e)

/-- every operation of the history is valid *in the state it is applied to*, and the reference
semantics is defined on it (a creation may be refused by `createIn`: fresh names only) -/
inductive ValidOps : Val → List Op → Prop
  | nil (t : Val) : ValidOps t []
  | cons {t t' : Val} {op : Op} {ops : List Op} :
      ValidOp t op → applyOp t op = some t' → ValidOps t' ops → ValidOps t (op :: ops)

/-! ### the root stays a dictionary of the same class -/

theorem delAt_dict_root (cls : Cls) (kvs : List (Str × Val)) : ∀ (p : Pos) (t' : Val),
    delAt (.dict cls kvs) p = some t' → ∃ kvs', t' = .dict cls kvs'
  | [], _, h => by simp [delAt] at h
  | [s], t', h => by
      cases s with
      | key k =>
        simp only [delAt, delChild] at h
        split at h
        · cases h; exact ⟨_, rfl⟩
        · cases h
      | idx i => simp [delAt, delChild] at h
  | s :: s2 :: rest, t', h => by
      rw [delAt] at h
      · cases hc : child (.dict cls kvs) s with
        | none => simp [hc, bind, Option.bind] at h
        | some c =>
          cases hd : delAt c (s2 :: rest) with
          | none => simp [hc, hd, bind, Option.bind] at h
          | some c' =>
            simp only [hc, hd, bind, Option.bind] at h
            cases s with
            | key k => simp [setChild] at h; exact ⟨_, h.symm⟩
            | idx i => simp [setChild] at h
      · intro hh; cases hh

theorem pruneStep_dict_root (cls : Cls) (kvs : List (Str × Val)) (q : Pos) :
    ∃ kvs', pruneStep (.dict cls kvs) q = .dict cls kvs' := by
  unfold pruneStep
  cases getAt (.dict cls kvs) q with
  | none => exact ⟨_, rfl⟩
  | some v =>
    simp only
    split
    · cases hd : delAt (.dict cls kvs) q with
      | none => exact ⟨_, rfl⟩
      | some t' =>
        obtain ⟨kvs', rfl⟩ := delAt_dict_root cls kvs q t' hd
        exact ⟨_, rfl⟩
    · exact ⟨_, rfl⟩

theorem pruneUp_dict_root (cls : Cls) (q : Pos) : ∀ (k : Nat) (kvs : List (Str × Val)),
    ∃ kvs', pruneUp (.dict cls kvs) q k = .dict cls kvs'
  | 0, kvs => ⟨kvs, rfl⟩
  | k + 1, kvs => by
      rw [pruneUp]
      obtain ⟨kvs1, h1⟩ := pruneStep_dict_root cls kvs (q.take (k + 1))
      rw [h1]
      exact pruneUp_dict_root cls q k kvs1

theorem delRef_dict_root (cls : Cls) (kvs : List (Str × Val)) (p : Pos) (r : Bool) (t' : Val)
    (h : delRef (.dict cls kvs) p r = some t') : ∃ kvs', t' = .dict cls kvs' := by
  unfold delRef at h
  cases hd : delAt (.dict cls kvs) p with
  | none => simp [hd] at h
  | some t1 =>
    obtain ⟨kvs1, rfl⟩ := delAt_dict_root cls kvs p t1 hd
    simp only [hd, Option.map_some, Option.some.injEq] at h
    cases r with
    | false => exact ⟨kvs1, by simpa using h.symm⟩
    | true =>
      obtain ⟨kvs2, h2⟩ := pruneUp_dict_root cls p.dropLast (p.length - 1) kvs1
      exact ⟨kvs2, by rw [← h2]; simpa using h.symm⟩

theorem createRef_dict_root (cls : Cls) (kvs : List (Str × Val)) (q : Pos) (steps : List CStep) (v t' : Val)
    (h : createRef (.dict cls kvs) q steps v = some t') : ∃ kvs', t' = .dict cls kvs' := by
  unfold createRef at h
  cases hg : getAt (.dict cls kvs) q with
  | none => simp [hg] at h
  | some cur =>
    cases hc : createIn cur steps v with
    | none => simp [hg, hc] at h
    | some cur' =>
      simp only [hg, hc, Option.bind] at h
      cases q with
      | nil =>
        simp only [getAt, Option.some.injEq] at hg
        subst hg
        simp only [setAt, Option.some.injEq] at h
        subst h
        exact createIn_dict cls kvs steps v cur' hc
      | cons s q' => exact setAt_dict_root' cls kvs (s :: q') cur' t' (by simp) h

/-- **the root stays a dict** of the same class under every operation of a history -/
theorem applyOp_dict_root (cls : Cls) (kvs : List (Str × Val)) (op : Op) (t' : Val)
    (hv : ValidOp (.dict cls kvs) op) (h : applyOp (.dict cls kvs) op = some t') :
    ∃ kvs', t' = .dict cls kvs' := by
  cases op with
  | write p v => exact setAt_dict_root' cls kvs p v t' hv.2.1 h
  | create q s steps v => exact createRef_dict_root cls kvs q (s :: steps) v t' h
  | del p r => exact delRef_dict_root cls kvs p r t' h
  | pop p d r => exact delRef_dict_root cls kvs p r t' h

/-! ### one operation -/

theorem delete_canonical (cls : Cls) (kvs : List (Str × Val)) (p : Pos) (c t1 : Val) (r : Bool) (fuel : Nat)
    (hp : PlainPos p) (hne : p ≠ []) (hget : getAt (.dict cls kvs) p = some c)
    (hdel : delAt (.dict cls kvs) p = some t1) (hf : fuel ≥ 2 * p.length) :
    delete fuel (.dict cls kvs) (slash ++ renderPos p) r
      = ((if r then pruneUp t1 p.dropLast (p.length - 1) else t1), .ok ()) := by
  have hs := spells_merged p (.dict cls kvs) c hp hget
  have hlen := mergedToks_length_le p
  have htok : tokenize (slash ++ renderPos p) = mergedToks p := tokenize_render p hp
  unfold delete deleteTokens
  simp only [stripQ_slash, htok]
  cases r with
  | false => exact deleteLoop_spelled fuel _ _ p c t1 hs (mergedToks_ne_nil p hne) hdel (by omega)
  | true => exact deleteLoop_rec_spelled fuel _ _ p c t1 hs (mergedToks_ne_nil p hne) hdel (by omega)

theorem getItem_canonical (cls : Cls) (kvs : List (Str × Val)) (p : Pos) (c : Val) (fuel : Nat)
    (hp : PlainPos p) (hne : p ≠ []) (hget : getAt (.dict cls kvs) p = some c) (hf : fuel ≥ 2 * p.length) :
    getItem fuel (.dict cls kvs) (slash ++ renderPos p) = (.dict cls kvs, .ok c) := by
  have hlen := mergedToks_length_le p
  exact getItem_spelled cls kvs _ _ p c fuel (qmark_render _) (hasPathChar_render _) (tokenize_render p hp)
    (spells_merged p _ c hp hget) (mergedToks_ne_nil p hne) (by omega)

/-- **one operation**: model run = reference semantics; nothing is raised; `pop` returns the node -/
theorem runOp_ok (cls : Cls) (kvs : List (Str × Val)) (op : Op) (t' : Val) (fuel : Nat)
    (hv : ValidOp (.dict cls kvs) op) (ha : applyOp (.dict cls kvs) op = some t') (hf : fuel ≥ opFuel op) :
    runOp fuel (.dict cls kvs) op = (t', .ok (obsOp (.dict cls kvs) op)) := by
  cases op with
  | write p v =>
    obtain ⟨hp, hne, c, hget⟩ := hv
    have h1 := setItem_existing cls kvs p c v t' hp hne hget ha fuel hf
    simp only [runOp, opPath, h1, obsOp]
  | create q s steps v =>
    obtain ⟨hp, hfirst, hsteps, _, _⟩ := hv
    simp only [applyOp, createRef] at ha
    cases hget : getAt (.dict cls kvs) q with
    | none => simp [hget] at ha
    | some cur =>
      cases hc : createIn cur (s :: steps) v with
      | none => simp [hget, hc] at ha
      | some cur' =>
        simp only [hget, hc, Option.bind] at ha
        have h1 := setItem_create_any cls kvs q cur cur' s steps v t' fuel hp hget hfirst
          (fun x hx => CStep.laterW_of_later (hsteps x hx)) (GW_of_later s steps hsteps) hc ha hf
        simp only [runOp, opPath, h1, obsOp]
  | del p r =>
    obtain ⟨hp, hne, c, hget⟩ := hv
    simp only [applyOp, delRef] at ha
    cases hd : delAt (.dict cls kvs) p with
    | none => simp [hd] at ha
    | some t1 =>
      simp only [hd, Option.map_some, Option.some.injEq] at ha
      have h1 := delete_canonical cls kvs p c t1 r fuel hp hne hget hd hf
      simp only [runOp, opPath, h1, obsOp, ha]
  | pop p d r =>
    obtain ⟨hp, hne, c, hget⟩ := hv
    simp only [applyOp, delRef] at ha
    cases hd : delAt (.dict cls kvs) p with
    | none => simp [hd] at ha
    | some t1 =>
      simp only [hd, Option.map_some, Option.some.injEq] at ha
      have h1 := delete_canonical cls kvs p c t1 r fuel hp hne hget hd hf
      have h2 := getItem_canonical cls kvs p c fuel hp hne hget hf
      simp only [runOp, opPath, pop, stripQ_slash, h2, h1, obsOp, ha, hget]

/-! ### histories -/

/-- **mixed histories.**  After any finite interleaving of writes to existing nodes, creations,
deletions (with and without `recursively`) and pops — each valid in the state it is applied to —
the tree equals the plain model that applied the same operations, no call raises, and every `pop`
returned the node it removed. -/
theorem history (fuel : Nat) : ∀ (ops : List Op) (cls : Cls) (kvs : List (Str × Val)),
    ValidOps (.dict cls kvs) ops → (∀ op ∈ ops, fuel ≥ opFuel op) →
    ∃ t' obs, applyOps (.dict cls kvs) ops = some (t', obs) ∧
      runOps fuel (.dict cls kvs) ops = (t', .ok obs)
  | [], cls, kvs, _, _ => ⟨_, _, rfl, rfl⟩
  | op :: ops, cls, kvs, hv, hf => by
    cases hv with
    | @cons _ t1 _ _ hop ha hrest =>
      obtain ⟨kvs1, rfl⟩ := applyOp_dict_root cls kvs op t1 hop ha
      have h1 := runOp_ok cls kvs op _ fuel hop ha (hf op (by simp))
      obtain ⟨t2, obs, ha2, hr2⟩ := history fuel ops cls kvs1 hrest (fun o hm => hf o (by simp [hm]))
      refine ⟨t2, obsOp (.dict cls kvs) op :: obs, ?_, ?_⟩
      · simp [applyOps, ha, ha2]
      · simp only [runOps, h1, hr2]

/-- the validity of a history can be checked operation by operation along the reference run -/
theorem validOps_cons_iff (t : Val) (op : Op) (ops : List Op) :
    ValidOps t (op :: ops) ↔ ValidOp t op ∧ ∃ t', applyOp t op = some t' ∧ ValidOps t' ops := by
  constructor
  · intro h
    cases h with
    | cons hop ha hrest => exact ⟨hop, _, ha, hrest⟩
  · rintro ⟨hop, t', ha, hrest⟩
    exact .cons hop ha hrest

/-- a history of C02 writes only is a history in the sense of `C02.ValidOps` -/
theorem validOps_writes (t : Val) : ∀ (ws : List (Pos × Val)),
    ValidOps t (ws.map (fun pv => Op.write pv.1 pv.2)) →
    ∀ pv ∈ ws, PlainPos pv.1 ∧ pv.1 ≠ []
  | [], _, _, hm => by simp at hm
  | (p, v) :: ws, h, pv, hm => by
    cases h with
    | cons hop ha hrest =>
      simp only [List.mem_cons] at hm
      rcases hm with rfl | hm
      · exact ⟨hop.1, hop.2.1⟩
      · exact validOps_writes _ ws hrest pv hm

end N0.XPath.Hist
