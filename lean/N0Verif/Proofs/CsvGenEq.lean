import N0Verif.Model.Csv
import N0Verif.Gen.CsvPy
/-!
  The definitions that `harness/translate_py_csv.py` regenerates from the Python source
  (`Gen/CsvPy.lean`) are equal to the hand-written model (`Model/Csv.lean`).

  The proofs do not depend on the names of Python locals (the translator normalises them) and are
  written to survive harmless refactorings of the Python code: the step lemmas are proved by a complete
  case analysis on the flags / on the two character tests and `simp`, not by following the syntactic
  shape of the generated text.  What they do depend on: the order of the fields of the generated state
  structures (field value, list of fields, flag "quote at the beginning", flag "expect delimiter or
  quote") and the order of the parameters of the specialisations.
-/
namespace N0.CsvGenEq
open N0 N0.Py N0.Csv N0.Gen.CsvPy

/-! ### strings: one-character needles -/

theorem csvgen_startsWith_nil (s : Str) : startsWith s [] = true := by cases s <;> rfl

theorem csvgen_startsWith_single (f : Str) (q : Char) : startsWith f [q] = (f.head? == some q) := by
  cases f with
  | nil => rfl
  | cons c f => simp [startsWith, csvgen_startsWith_nil]

theorem csvgen_isInfix_single (d : Char) (f : Str) : isInfix [d] f = f.contains d := by
  induction f with
  | nil => rfl
  | cons c f ih =>
    simp only [isInfix, ih, csvgen_startsWith_single, List.head?_cons, List.contains_cons]
    by_cases h : c = d
    · subst h; simp
    · have h' : ¬ d = c := fun e => h e.symm
      have e1 : (c == d) = false := by simpa using h
      have e2 : (d == c) = false := by simpa using h'
      simp [e1, e2]

theorem csvgen_splitAux_ne_nil (sep : Str) (n fuel : Nat) (cur s : Str) : splitAux sep n fuel cur s ≠ [] := by
  induction fuel generalizing cur s with
  | zero => simp [splitAux]
  | succ k ih =>
    cases s with
    | nil => simp [splitAux]
    | cons c s =>
      simp only [splitAux]
      split
      · simp
      · exact ih _ _

theorem csvgen_join_cons (sep x : Str) (l : List Str) (h : l ≠ []) : join sep (x :: l) = x ++ sep ++ join sep l := by
  cases l with
  | nil => exact absurd rfl h
  | cons y ys => rfl

theorem csvgen_join_splitAux_single (q : Char) (new : Str) (s : Str) :
    ∀ (fuel : Nat) (cur : Str), s.length < fuel →
      join new (splitAux [q] 1 fuel cur s) = cur.reverse ++ s.flatMap (fun c => if c = q then new else [c]) := by
  induction s with
  | nil =>
    intro fuel cur h
    cases fuel with
    | zero => simp at h
    | succ k => simp [splitAux, join]
  | cons c s ih =>
    intro fuel cur h
    cases fuel with
    | zero => simp at h
    | succ k =>
      have hk : s.length < k := by simpa using h
      simp only [splitAux, csvgen_startsWith_single, List.head?_cons]
      by_cases hc : c = q
      · subst hc
        simp only [beq_self_eq_true, if_true, List.drop_succ_cons, List.drop_zero]
        rw [csvgen_join_cons _ _ _ (csvgen_splitAux_ne_nil _ _ _ _ _), ih k [] hk]
        simp
      · have : (some c == some q) = false := by simp [hc]
        simp only [this]
        rw [if_neg (by simp), ih k (c :: cur) hk]
        simp [hc]

/-- `s.replace(q, new)` for a one-character `q` replaces every occurrence -/
theorem csvgen_replace_single (q : Char) (new f : Str) :
    Py.replace [q] new f = f.flatMap (fun c => if c = q then new else [c]) := by
  unfold Py.replace split
  rw [show ([q] : Str).length = 1 from rfl, csvgen_join_splitAux_single q new f _ [] (Nat.lt_succ_self _)]
  simp

theorem csvgen_flatMap_id (q : Char) (new f : Str) (h : q ∉ f) :
    f.flatMap (fun c => if c = q then new else [c]) = f := by
  induction f with
  | nil => rfl
  | cons c f ih =>
    have hc : ¬ c = q := fun e => h (by simp [e])
    have hf : q ∉ f := fun e => h (by simp [e])
    simp [List.flatMap_cons, hc, ih hf]

theorem csvgen_sliceTo_neg_one {α : Type} (s : List α) (d : Char) :
    sliceTo s (-(Int.ofNat (List.length [d]))) = s.dropLast := by
  simp [sliceTo, List.dropLast_eq_take]

/-! ### loops -/

/-- the fold of the generated code and a hand-written `run` agree as soon as the steps do -/
theorem csvgen_foldE_sim {σ τ : Type} (f : σ → Char → Except PyErr σ) (g : τ → Char → Except PyErr τ) (r : τ → σ)
    (h : ∀ t c, f (r t) c = (g t c).map r) (run : τ → Str → Except PyErr τ)
    (hrun : ∀ t, run t [] = .ok t)
    (hrun' : ∀ t c s, run t (c :: s) = (g t c).bind (fun t' => run t' s)) :
    ∀ (s : Str) (t : τ), foldE f (r t) s = (run t s).map r := by
  intro s
  induction s with
  | nil => intro t; simp [foldE, hrun, Except.map]
  | cons c s ih =>
    intro t
    rw [foldE, h, hrun']
    cases g t c with
    | error e => simp [Except.map, Except.bind]
    | ok t' => simp only [Except.map, Except.bind]; exact ih t'

/-! ### `parse_complex_csv_line`, str specialisation -/

/-- the generated state that stands for a state of the hand-written model -/
def ofStS (s : Csv.St) : ParseStr.State := ⟨s.field, s.out, s.qb, s.ex⟩

theorem parseStr_step_eq (d c : Char) (st : Csv.St) :
    ParseStr.step [d] (ofStS st) c = (Csv.step d st c).map ofStS := by
  rcases st with ⟨f, o, qb, ex⟩
  by_cases h1 : c = d <;> by_cases h2 : c = '"' <;> (try subst h1) <;> (try subst h2) <;>
    cases qb <;> cases ex <;> cases f <;>
    simp_all [ParseStr.step, Csv.step, ofStS, Except.map] <;> omega

theorem parseStr_fold_eq (d : Char) (s : Str) (st : Csv.St) :
    foldE (ParseStr.step [d]) (ofStS st) s = (Csv.run d st s).map ofStS :=
  csvgen_foldE_sim _ _ ofStS (fun t c => parseStr_step_eq d c t) (Csv.run d)
    (fun t => by simp [Csv.run]) (fun t c s => by simp [Csv.run, bind]) s st

theorem parseStr_eq (d : Char) (line : Str) : parseStr line [d] = Csv.parse d line := by
  have h := parseStr_fold_eq d (rstrip ['\r', '\n'] line) St.init
  have hi : ofStS St.init = (⟨([] : Str), [], false, false⟩ : ParseStr.State) := rfl
  rw [hi] at h
  -- `simp only` also unfolds the `let`s of the generated text, whatever locals it introduces
  simp only [parseStr, Csv.parse, crlf, h]
  cases Csv.run d St.init (rstrip ['\r', '\n'] line) with
  | error e => simp [Except.map, bind, Except.bind]
  | ok st => simp [Except.map, bind, Except.bind, ofStS, pure, Except.pure]

/-! ### `parse_complex_csv_line`, bytes specialisation (a byte is the character with the same code) -/

def ofStB (s : Csv.St) : ParseBytes.State := ⟨s.field, s.out, s.qb, s.ex⟩

theorem parseBytes_step_eq (d c : Char) (st : Csv.St) :
    ParseBytes.step [d] (ofStB st) c = (Csv.step d st c).map ofStB := by
  rcases st with ⟨f, o, qb, ex⟩
  by_cases h1 : c = d <;> by_cases h2 : c = '"' <;> (try subst h1) <;> (try subst h2) <;>
    cases qb <;> cases ex <;> cases f <;>
    simp_all [ParseBytes.step, Csv.step, ofStB, Except.map] <;> omega

theorem parseBytes_fold_eq (d : Char) (s : Str) (st : Csv.St) :
    foldE (ParseBytes.step [d]) (ofStB st) s = (Csv.run d st s).map ofStB :=
  csvgen_foldE_sim _ _ ofStB (fun t c => parseBytes_step_eq d c t) (Csv.run d)
    (fun t => by simp [Csv.run]) (fun t c s => by simp [Csv.run, bind]) s st

theorem parseBytes_eq (d : Char) (line : Str) : parseBytes line [d] = Csv.parse d line := by
  have h := parseBytes_fold_eq d (rstrip ['\r', '\n'] line) St.init
  have hi : ofStB St.init = (⟨([] : Str), [], false, false⟩ : ParseBytes.State) := rfl
  rw [hi] at h
  -- `simp only` also unfolds the `let`s of the generated text, whatever locals it introduces
  simp only [parseBytes, Csv.parse, crlf, h]
  cases Csv.run d St.init (rstrip ['\r', '\n'] line) with
  | error e => simp [Except.map, bind, Except.bind]
  | ok st => simp [Except.map, bind, Except.bind, ofStB, pure, Except.pure]

/-! ### `generate_complex_csv_row`, rows of str -/

theorem genRow_step_eq (d : Char) (acc f : Str) :
    GenRow.step [d] ⟨acc⟩ f = .ok ⟨acc ++ (encWith (needsQuote d) f ++ [d])⟩ := by
  simp only [GenRow.step, csvgen_isInfix_single, csvgen_startsWith_single, csvgen_replace_single, encWith, needsQuote, quoted]
  -- complete case analysis on the three tests the code can make about a field
  by_cases h1 : d ∈ f <;> by_cases h2 : f.head? = some '"' <;> by_cases hq : '"' ∈ f <;>
    simp_all [csvgen_flatMap_id]

theorem genRow_fold_eq (d : Char) (row : List Str) : ∀ (acc : Str),
    foldE (GenRow.step [d]) ⟨acc⟩ row = .ok ⟨acc ++ row.flatMap (fun f => encWith (needsQuote d) f ++ [d])⟩ := by
  induction row with
  | nil => intro acc; simp [foldE]
  | cons f fs ih => intro acc; rw [foldE, genRow_step_eq]; simp only; rw [ih]; simp

theorem genRow_eq (d : Char) (row : List Str) (eol : Str) :
    genRow row [d] eol = .ok (Csv.gen d row eol) := by
  simp only [genRow, Csv.gen, genRow_fold_eq, List.nil_append]
  simp [sliceTo, List.dropLast_eq_take]

end N0.CsvGenEq
