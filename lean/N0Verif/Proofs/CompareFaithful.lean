import N0Verif.Proofs.Compare
/-!
The reports of the compare engine are FAITHFUL to the operands: every reported path resolves
in the operands to the reported values — for every option record and both entry points.
-/
namespace N0.Compare
open N0

/-! ### resolving a reported path in an operand -/

inductive Side | left | right
  deriving DecidableEq

/-- one step of a reported path: `[i]<>[j]` means index `i` in the left operand and `j` in the right one -/
def segGet (s : Side) : PSeg → Val → Option Val
  | .key k, .dict _ kvs => Val.lookup k kvs
  | .idx i, .list _ xs => xs[i]?
  | .idx2 i j, .list _ xs => xs[if s = .left then i else j]?
  | _, _ => none

def getAt (s : Side) : Path → Val → Option Val
  | [], v => some v
  | seg :: rest, v => (segGet s seg v).bind (getAt s rest)

theorem getAt_append (s : Side) : ∀ (p q : Path) (v : Val),
    getAt s (p ++ q) v = (getAt s p v).bind (getAt s q)
  | [], q, v => by simp [getAt]
  | seg :: p, q, v => by
    simp only [List.cons_append, getAt]
    cases segGet s seg v with
    | none => rfl
    | some u => simp [getAt_append s p q u]

/-- no key occurs twice -/
def keysNodup : List (Str × Val) → Bool
  | [] => true
  | (k, _) :: rest => !hasKey k rest && keysNodup rest

mutual
/-- dictionary keys are unique everywhere (what Python guarantees) -/
def wf : Val → Bool
  | .list _ xs => wfL xs
  | .dict _ kvs => wfK kvs && keysNodup kvs
  | _ => true
def wfL : List Val → Bool
  | [] => true
  | x :: xs => wf x && wfL xs
def wfK : List (Str × Val) → Bool
  | [] => true
  | (_, x) :: xs => wf x && wfK xs
end

theorem hasKey_of_mem : ∀ (kvs : List (Str × Val)) (k : Str) (v : Val), (k, v) ∈ kvs → hasKey k kvs = true
  | [], _, _, h => by cases h
  | (k', v') :: rest, k, v, h => by
    simp only [hasKey, Val.lookup]
    split
    · rfl
    · rename_i hne
      cases h with
      | head => exact absurd rfl hne
      | tail _ h' => exact hasKey_of_mem rest k v h'

theorem lookup_of_mem : ∀ (kvs : List (Str × Val)) (k : Str) (v : Val), keysNodup kvs = true →
    (k, v) ∈ kvs → Val.lookup k kvs = some v
  | [], _, _, _, h => by cases h
  | (k', v') :: rest, k, v, hn, h => by
    simp only [keysNodup, Bool.and_eq_true, Bool.not_eq_true'] at hn
    simp only [Val.lookup]
    cases h with
    | head => simp
    | tail _ h' =>
      have hk := hasKey_of_mem rest k v h'
      have : k ≠ k' := by
        intro he; subst he; rw [hk] at hn; exact absurd hn.1 (by simp)
      simp only [this, if_false]
      exact lookup_of_mem rest k v hn.2 h'

theorem wfK_lookup : ∀ (kvs : List (Str × Val)) (k : Str) (w : Val),
    wfK kvs = true → Val.lookup k kvs = some w → wf w = true
  | [], _, _, _, h => by simp [Val.lookup] at h
  | (k', v) :: rest, k, w, hn, h => by
    simp only [wfK, Bool.and_eq_true] at hn
    simp only [Val.lookup] at h
    split at h
    · cases h; exact hn.1
    · exact wfK_lookup rest k w hn.2 h

theorem wfL_get : ∀ (xs : List Val) (n : Nat) (x : Val), wfL xs = true → xs[n]? = some x → wf x = true
  | [], _, _, _, h => by simp at h
  | y :: ys, 0, x, hw, h => by
    simp only [wfL, Bool.and_eq_true] at hw
    simp at h; subst h; exact hw.1
  | y :: ys, n + 1, x, hw, h => by
    simp only [wfL, Bool.and_eq_true] at hw
    simp at h
    exact wfL_get ys n x hw.2 h

/-! ### segment lemmas -/

@[simp] theorem segGet_key (s : Side) (k : Str) (c : Cls) (kvs : List (Str × Val)) :
    segGet s (.key k) (.dict c kvs) = Val.lookup k kvs := rfl
@[simp] theorem segGet_idx (s : Side) (i : Nat) (c : Cls) (xs : List Val) :
    segGet s (.idx i) (.list c xs) = xs[i]? := rfl
@[simp] theorem segGet_idx2_left (i j : Nat) (c : Cls) (xs : List Val) :
    segGet .left (.idx2 i j) (.list c xs) = xs[i]? := rfl
@[simp] theorem segGet_idx2_right (i j : Nat) (c : Cls) (xs : List Val) :
    segGet .right (.idx2 i j) (.list c xs) = xs[j]? := rfl

theorem segGet_keyed_left (i j : Nat) (c : Cls) (xs : List Val) :
    segGet .left (if i = j then PSeg.idx i else PSeg.idx2 i j) (.list c xs) = xs[i]? := by
  split <;> simp

theorem segGet_keyed_right (i j : Nat) (c : Cls) (xs : List Val) :
    segGet .right (if i = j then PSeg.idx i else PSeg.idx2 i j) (.list c xs) = xs[j]? := by
  split
  · rename_i h; subst h; simp
  · simp

theorem getAt_single (s : Side) (seg : PSeg) (A x : Val) (h : segGet s seg A = some x) :
    getAt s [seg] A = some x := by
  simp [getAt, h]

/-! ### the invariant: every entry is at `p ++ q` where `q` resolves inside the pair `(A, B)` -/

structure Faith (cfg : Cfg) (p : Path) (A B : Val) (r : Res) : Prop where
  ne : ∀ e ∈ r.notEqual, ∃ q, e.path = p ++ q ∧ getAt .left q A = some e.l ∧ getAt .right q B = some e.r
  su : ∀ e ∈ r.selfUnique, ∃ q, e.path = p ++ q ∧ getAt .left q A = some e.v
  ou : ∀ e ∈ r.otherUnique, ∃ q, e.path = p ++ q ∧ getAt .right q B = some e.v
  dt : ∀ e ∈ r.diffTypes, ∃ q, e.path = p ++ q ∧ getAt .left q A = some e.l ∧ getAt .right q B = some e.r

theorem faith_append {cfg : Cfg} {p : Path} {A B : Val} {a b : Res}
    (ha : Faith cfg p A B a) (hb : Faith cfg p A B b) : Faith cfg p A B (a ++ b) := by
  refine ⟨?_, ?_, ?_, ?_⟩
  · intro e he
    simp only [append_notEqual, List.mem_append] at he
    exact he.elim (ha.ne e) (hb.ne e)
  · intro e he
    simp only [append_selfUnique, List.mem_append] at he
    exact he.elim (ha.su e) (hb.su e)
  · intro e he
    simp only [append_otherUnique, List.mem_append] at he
    exact he.elim (ha.ou e) (hb.ou e)
  · intro e he
    simp only [append_diffTypes, List.mem_append] at he
    exact he.elim (ha.dt e) (hb.dt e)

theorem faith_empty (cfg : Cfg) (p : Path) (A B : Val) : Faith cfg p A B Res.empty :=
  ⟨by intro e he; simp [Res.empty] at he, by intro e he; simp [Res.empty] at he,
   by intro e he; simp [Res.empty] at he, by intro e he; simp [Res.empty] at he⟩

theorem Faith.lift {cfg : Cfg} {p : Path} {seg : PSeg} {A B v w : Val} {r : Res}
    (hl : segGet .left seg A = some v) (hr : segGet .right seg B = some w)
    (h : Faith cfg (p ++ [seg]) v w r) : Faith cfg p A B r := by
  refine ⟨?_, ?_, ?_, ?_⟩
  · intro e he
    obtain ⟨q, hp, h1, h2⟩ := h.ne e he
    exact ⟨seg :: q, by simp [hp], by simp [getAt, hl, h1], by simp [getAt, hr, h2]⟩
  · intro e he
    obtain ⟨q, hp, h1⟩ := h.su e he
    exact ⟨seg :: q, by simp [hp], by simp [getAt, hl, h1]⟩
  · intro e he
    obtain ⟨q, hp, h1⟩ := h.ou e he
    exact ⟨seg :: q, by simp [hp], by simp [getAt, hr, h1]⟩
  · intro e he
    obtain ⟨q, hp, h1, h2⟩ := h.dt e he
    exact ⟨seg :: q, by simp [hp], by simp [getAt, hl, h1], by simp [getAt, hr, h2]⟩

/-! ### leaf decisions -/

/-- what a leaf emission looks like -/
def ItemShape (pne pdt : Path) (x y : Val) (r : Res) : Prop :=
  (∀ e ∈ r.notEqual, e.path = pne ∧ e.l = x ∧ e.r = y) ∧
  (∀ e ∈ r.diffTypes, e.path = pdt ∧ e.l = x ∧ e.r = y) ∧
  r.selfUnique = [] ∧ r.otherUnique = []

def ActShape (pne pdt : Path) (x y : Val) : Act → Prop
  | .emit r _ => ItemShape pne pdt x y r
  | .descend => True

theorem classifyItem_shape (cfg : Cfg) (p pne pdt : Path) (sa oa x y : Val) :
    ActShape pne pdt x y (classifyItem cfg p pne pdt sa oa x y) := by
  unfold classifyItem
  simp only
  split
  · split
    · split
      · simp [ActShape, ItemShape]
      · split <;> simp [ActShape, ItemShape, Res.empty]
    · trivial
  · split <;> simp [ActShape, ItemShape]

theorem classifyEntry_shape (cfg : Cfg) (full : Path) (x y : Val) :
    ActShape full full x y (classifyEntry cfg full x y) := by
  unfold classifyEntry
  split
  · simp [ActShape, ItemShape, Res.empty]
  · simp only
    split
    · split
      · split <;> simp [ActShape, ItemShape, Res.empty]
      · trivial
    · split
      · split <;> simp [ActShape, ItemShape]
      · simp [ActShape, ItemShape, Res.empty]

theorem faith_of_shape {cfg : Cfg} {p : Path} {s1 s2 : PSeg} {A B x y : Val} {r : Res}
    (hs : ItemShape (p ++ [s1]) (p ++ [s2]) x y r)
    (h1l : segGet .left s1 A = some x) (h1r : segGet .right s1 B = some y)
    (h2l : segGet .left s2 A = some x) (h2r : segGet .right s2 B = some y) :
    Faith cfg p A B r := by
  obtain ⟨hne, hdt, hsu, hou⟩ := hs
  refine ⟨?_, ?_, ?_, ?_⟩
  · intro e he
    obtain ⟨hp, hl, hr⟩ := hne e he
    exact ⟨[s1], hp, by rw [hl]; exact getAt_single _ _ _ _ h1l, by rw [hr]; exact getAt_single _ _ _ _ h1r⟩
  · intro e he; rw [hsu] at he; cases he
  · intro e he; rw [hou] at he; cases he
  · intro e he
    obtain ⟨hp, hl, hr⟩ := hdt e he
    exact ⟨[s2], hp, by rw [hl]; exact getAt_single _ _ _ _ h2l,
      by rw [hr]; exact getAt_single _ _ _ _ h2r⟩

theorem leftover_eq {cfg : Cfg} {p : Path} {kv : Str × Val} {e : UE} (h : leftover cfg p kv = some e) :
    e = ⟨p ++ [.key kv.1], kv.2⟩ := by
  simp only [leftover] at h
  split at h
  · cases h; rfl
  · cases h

theorem dictTail_faith (cfg : Cfg) (p : Path) (sa oa : Val) (c c' : Cls) (skvs okvs : List (Str × Val))
    (still : Bool) (hs : keysNodup skvs = true) (ho : keysNodup okvs = true) :
    Faith cfg p (.dict c skvs) (.dict c' okvs) (dictTail cfg p sa oa skvs okvs still) := by
  refine ⟨?_, ?_, ?_, ?_⟩
  · intro e he; simp [dictTail] at he
  · intro e he
    simp only [dictTail, List.mem_filterMap, List.mem_filter] at he
    obtain ⟨kv, ⟨hm, _⟩, hlo⟩ := he
    have := leftover_eq hlo
    subst this
    exact ⟨[.key kv.1], rfl, getAt_single _ _ _ _ (by simpa using lookup_of_mem skvs kv.1 kv.2 hs hm)⟩
  · intro e he
    simp only [dictTail, List.mem_filterMap, List.mem_filter] at he
    obtain ⟨kv, ⟨hm, _⟩, hlo⟩ := he
    have := leftover_eq hlo
    subst this
    exact ⟨[.key kv.1], rfl, getAt_single _ _ _ _ (by simpa using lookup_of_mem okvs kv.1 kv.2 ho hm)⟩
  · intro e he; simp [dictTail] at he

theorem keyedTail_faith (cfg : Cfg) (p : Path) (c c' : Cls) (sl ol : List Val) (sr orr : List KE)
    (hsr : ∀ e ∈ sr, sl[e.2.1]? = some e.2.2) (horr : ∀ e ∈ orr, ol[e.2.1]? = some e.2.2) :
    Faith cfg p (.list c sl) (.list c' ol) (keyedTail p sr orr) := by
  refine ⟨?_, ?_, ?_, ?_⟩
  · intro e he; simp [keyedTail] at he
  · intro e he
    simp only [keyedTail, List.mem_map] at he
    obtain ⟨ke, hm, rfl⟩ := he
    exact ⟨[.idx ke.2.1], rfl, getAt_single _ _ _ _ (by simpa using hsr ke hm)⟩
  · intro e he
    simp only [keyedTail, List.mem_map] at he
    obtain ⟨ke, hm, rfl⟩ := he
    exact ⟨[.idx ke.2.1], rfl, getAt_single _ _ _ _ (by simpa using horr ke hm)⟩
  · intro e he; simp [keyedTail] at he

theorem otherTail_mem (p : Path) : ∀ (ys : List Val) (i : Nat) (e : UE), e ∈ otherTail p i ys →
    ∃ n, e.path = p ++ [.idx (i + n)] ∧ ys[n]? = some e.v
  | [], _, _, h => by simp [otherTail] at h
  | y :: ys, i, e, h => by
    simp only [otherTail, List.mem_cons] at h
    rcases h with rfl | h
    · exact ⟨0, rfl, rfl⟩
    · obtain ⟨n, hp, hg⟩ := otherTail_mem p ys (i + 1) e h
      exact ⟨n + 1, by rw [hp]; congr 3; omega, by simpa using hg⟩

theorem findKey_mem : ∀ (orr : List KE) (k : Str) (j : Nat) (y : Val), findKey k orr = some (j, y) →
    ∃ k', (k', j, y) ∈ orr
  | [], _, _, _, h => by simp [findKey] at h
  | (k', i, v) :: rest, k, j, y, h => by
    simp only [findKey] at h
    split at h
    · cases h; exact ⟨k', List.mem_cons_self ..⟩
    · obtain ⟨k'', hm⟩ := findKey_mem rest k j y h
      exact ⟨k'', List.mem_cons_of_mem _ hm⟩

theorem eraseKey_sub : ∀ (l : List KE) (k : Str) (e : KE), e ∈ eraseKey k l → e ∈ l
  | [], _, _, h => by simp [eraseKey] at h
  | (k', i, v) :: rest, k, e, h => by
    simp only [eraseKey] at h
    split at h
    · exact List.mem_cons_of_mem _ h
    · cases h with
      | head => exact List.mem_cons_self ..
      | tail _ h' => exact List.mem_cons_of_mem _ (eraseKey_sub rest k e h')

theorem mkEntries_get (sl : List Val) : ∀ (ks : List Str) (xs : List Val) (i : Nat),
    (∀ n, xs[n]? = sl[i + n]?) → ∀ e ∈ mkEntries i ks xs, sl[e.2.1]? = some e.2.2
  | [], _, _, _, e, h => by simp [mkEntries] at h
  | _ :: _, [], _, _, e, h => by simp [mkEntries] at h
  | k :: ks, x :: xs, i, hx, e, h => by
    simp only [mkEntries, List.mem_cons] at h
    rcases h with rfl | h
    · have := hx 0
      simpa using this.symm
    · refine mkEntries_get sl ks xs (i + 1) ?_ e h
      intro n
      have := hx (n + 1)
      simp only [List.getElem?_cons_succ] at this
      rw [this]; congr 1; omega

/-! ### the four walks -/

mutual
theorem sub_faith (cfg : Cfg) (site : Site) (p : Path) (v w : Val) (r : Res)
    (hv : wf v = true) (hw : wf w = true)
    (h : sub cfg site p v w = .ok r) : Faith cfg p v w r :=
  match v, w, hv, hw, h with
  | .list c xs, w, hv, hw, h => by
    cases w with
    | list c' ys =>
      simp only [wf] at hv hw
      simp only [sub] at h
      split at h
      · cases h
      · split at h
        · cases h
        · split at h
          · cases h; exact faith_empty ..
          · split at h
            · exact directWalk_faith cfg p _ _ c c' xs ys 0 xs ys r (by simp) (by simp) hv hw h
            · rename_i hd
              split at h
              · cases h
              · split at h
                · cases h
                · exact keyedWalk_faith cfg p _ _ c c' xs ys 0 xs _ _ _ r (by simpa using hd) (by simp) hv hw
                    (mkEntries_get xs _ xs 0 (by simp)) (mkEntries_get ys _ ys 0 (by simp)) h
    | _ => simp [sub] at h
  | .dict c kvs, w, hv, hw, h => by
    cases w with
    | dict c' kvs' =>
      simp only [wf, Bool.and_eq_true] at hv hw
      simp only [sub] at h
      split at h
      · cases h
      · exact dictWalk_faith cfg p _ _ c c' kvs kvs' true kvs r hv.2 hw.2 hw.1
          (fun k v hm => lookup_of_mem kvs k v hv.2 hm) hv.1 h
    | _ => simp [sub] at h
  | .none, _, _, _, h => by simp [sub] at h; subst h; exact faith_empty ..
  | .bool _, _, _, _, h => by simp [sub] at h
  | .int _, _, _, _, h => by simp [sub] at h
  | .flt _, _, _, _, h => by simp [sub] at h
  | .str _, _, _, _, h => by simp [sub] at h
termination_by structural v

theorem dictWalk_faith (cfg : Cfg) (p : Path) (sa oa : Val) (c c' : Cls) (skvs okvs : List (Str × Val))
    (still : Bool) (kvs : List (Str × Val)) (r : Res)
    (hs : keysNodup skvs = true) (ho : keysNodup okvs = true) (hwo : wfK okvs = true)
    (hk : ∀ k v, (k, v) ∈ kvs → Val.lookup k skvs = some v) (hwk : wfK kvs = true)
    (h : dictWalk cfg p sa oa skvs okvs still kvs = .ok r) :
    Faith cfg p (.dict c skvs) (.dict c' okvs) r :=
  match kvs, still, hk, hwk, h with
  | [], still, _, _, h => by
    simp only [dictWalk] at h
    cases h; exact dictTail_faith cfg p sa oa c c' skvs okvs still hs ho
  | (k, v) :: rest, still, hk, hwk, h => by
    simp only [dictWalk] at h
    simp only [wfK, Bool.and_eq_true] at hwk
    have hk' : ∀ k v, (k, v) ∈ rest → Val.lookup k skvs = some v :=
      fun k v hm => hk k v (List.mem_cons_of_mem _ hm)
    have hkv : Val.lookup k skvs = some v := hk k v (List.mem_cons_self ..)
    cases hl : Val.lookup k okvs with
    | none =>
      rw [hl] at h
      exact dictWalk_faith cfg p sa oa c c' skvs okvs still rest r hs ho hwo hk' hwk.2 h
    | some w =>
      rw [hl] at h
      simp only at h
      have hww : wf w = true := wfK_lookup okvs k w hwo hl
      have hL : segGet .left (.key k) (.dict c skvs) = some v := by simpa using hkv
      have hR : segGet .right (.key k) (.dict c' okvs) = some w := by simpa using hl
      have hcb := classifyEntry_shape cfg (p ++ [.key k]) v w
      cases hcl : classifyEntry cfg (p ++ [.key k]) v w with
      | emit r0 s =>
        rw [hcl] at h hcb
        simp only at h
        cases hr : dictWalk cfg p sa oa skvs okvs (still && s) rest with
        | error e => rw [hr] at h; cases h
        | ok r' =>
          rw [hr] at h; cases h
          exact faith_append (faith_of_shape hcb hL hR hL hR)
            (dictWalk_faith cfg p sa oa c c' skvs okvs (still && s) rest r' hs ho hwo hk' hwk.2 hr)
      | descend =>
        rw [hcl] at h
        simp only at h
        cases hsb : sub cfg .entry (p ++ [.key k]) v w with
        | error e => rw [hsb] at h; cases h
        | ok r1 =>
          rw [hsb] at h
          simp only at h
          cases hr : dictWalk cfg p sa oa skvs okvs still rest with
          | error e => rw [hr] at h; cases h
          | ok r' =>
            rw [hr] at h; cases h
            exact faith_append (Faith.lift hL hR (sub_faith cfg .entry _ v w r1 hwk.1 hww hsb))
              (dictWalk_faith cfg p sa oa c c' skvs okvs still rest r' hs ho hwo hk' hwk.2 hr)
termination_by structural kvs

theorem directWalk_faith (cfg : Cfg) (p : Path) (sa oa : Val) (c c' : Cls) (sl ol : List Val) (i : Nat)
    (xs ys : List Val) (r : Res)
    (hx : ∀ n, xs[n]? = sl[i + n]?) (hy : ∀ n, ys[n]? = ol[i + n]?)
    (hwx : wfL xs = true) (hwy : wfL ys = true)
    (h : directWalk cfg p sa oa i xs ys = .ok r) : Faith cfg p (.list c sl) (.list c' ol) r :=
  match xs, ys, i, hx, hy, hwx, hwy, h with
  | [], ys, i, _, hy, _, _, h => by
    simp only [directWalk] at h
    cases h
    refine ⟨?_, ?_, ?_, ?_⟩
    · intro e he; simp at he
    · intro e he; simp at he
    · intro e he
      obtain ⟨n, hp, hg⟩ := otherTail_mem p ys i e he
      exact ⟨[.idx (i + n)], hp, getAt_single _ _ _ _ (by rw [segGet_idx, ← hy n]; exact hg)⟩
    · intro e he; simp at he
  | x :: xs, [], i, hx, hy, hwx, hwy, h => by
    simp only [directWalk] at h
    simp only [wfL, Bool.and_eq_true] at hwx
    have hx0 : sl[i]? = some x := by simpa using (hx 0).symm
    have hx' : ∀ n, xs[n]? = sl[i + 1 + n]? := by
      intro n
      have := hx (n + 1)
      simp only [List.getElem?_cons_succ] at this
      rw [this]; congr 1; omega
    have hy' : ∀ n, ([] : List Val)[n]? = ol[i + 1 + n]? := by
      intro n
      have := hy (n + 1)
      simp only [List.getElem?_nil] at this ⊢
      rw [this]; congr 1; omega
    cases hr : directWalk cfg p sa oa (i + 1) xs [] with
    | error e => rw [hr] at h; cases h
    | ok r' =>
      rw [hr] at h; cases h
      refine faith_append ⟨?_, ?_, ?_, ?_⟩
        (directWalk_faith cfg p sa oa c c' sl ol (i + 1) xs [] r' hx' hy' hwx.2 hwy hr)
      · intro e he; simp at he
      · intro e he
        simp only [List.mem_singleton] at he
        subst he
        exact ⟨[.idx i], rfl, getAt_single _ _ _ _ (by simpa using hx0)⟩
      · intro e he; simp at he
      · intro e he; simp at he
  | x :: xs, y :: ys, i, hx, hy, hwx, hwy, h => by
    simp only [directWalk] at h
    simp only [wfL, Bool.and_eq_true] at hwx hwy
    have hx0 : sl[i]? = some x := by simpa using (hx 0).symm
    have hy0 : ol[i]? = some y := by simpa using (hy 0).symm
    have hx' : ∀ n, xs[n]? = sl[i + 1 + n]? := by
      intro n
      have := hx (n + 1)
      simp only [List.getElem?_cons_succ] at this
      rw [this]; congr 1; omega
    have hy' : ∀ n, ys[n]? = ol[i + 1 + n]? := by
      intro n
      have := hy (n + 1)
      simp only [List.getElem?_cons_succ] at this
      rw [this]; congr 1; omega
    have hL : segGet .left (.idx i) (.list c sl) = some x := by simpa using hx0
    have hR : segGet .right (.idx i) (.list c' ol) = some y := by simpa using hy0
    have hcb := classifyItem_shape cfg p (p ++ [.idx i]) (p ++ [.idx i]) sa oa x y
    cases hcl : classifyItem cfg p (p ++ [.idx i]) (p ++ [.idx i]) sa oa x y with
    | emit r0 s =>
      rw [hcl] at h hcb
      simp only at h
      cases hr : directWalk cfg p sa oa (i + 1) xs ys with
      | error e => rw [hr] at h; cases h
      | ok r' =>
        rw [hr] at h; cases h
        exact faith_append (faith_of_shape hcb hL hR hL hR)
          (directWalk_faith cfg p sa oa c c' sl ol (i + 1) xs ys r' hx' hy' hwx.2 hwy.2 hr)
    | descend =>
      rw [hcl] at h
      simp only at h
      cases hsb : sub cfg .item (p ++ [.idx i]) x y with
      | error e => rw [hsb] at h; cases h
      | ok r1 =>
        rw [hsb] at h
        simp only at h
        cases hr : directWalk cfg p sa oa (i + 1) xs ys with
        | error e => rw [hr] at h; cases h
        | ok r' =>
          rw [hr] at h; cases h
          exact faith_append (Faith.lift hL hR (sub_faith cfg .item _ x y r1 hwx.1 hwy.1 hsb))
            (directWalk_faith cfg p sa oa c c' sl ol (i + 1) xs ys r' hx' hy' hwx.2 hwy.2 hr)
termination_by structural xs

theorem keyedWalk_faith (cfg : Cfg) (p : Path) (sa oa : Val) (c c' : Cls) (sl ol : List Val) (i : Nat)
    (xs : List Val) (ks : List Str) (sr orr : List KE) (r : Res)
    (hd : cfg.direct = false)
    (hx : ∀ n, xs[n]? = sl[i + n]?) (hwx : wfL xs = true) (hwo : wfL ol = true)
    (hsr : ∀ e ∈ sr, sl[e.2.1]? = some e.2.2) (horr : ∀ e ∈ orr, ol[e.2.1]? = some e.2.2)
    (h : keyedWalk cfg p sa oa i xs ks sr orr = .ok r) : Faith cfg p (.list c sl) (.list c' ol) r :=
  match xs, ks, sr, orr, i, hx, hwx, hsr, horr, h with
  | [], _, sr, orr, i, _, _, hsr, horr, h => by
    simp only [keyedWalk] at h
    cases h; exact keyedTail_faith cfg p c c' sl ol sr orr hsr horr
  | _ :: _, [], _, _, i, _, _, _, _, h => by simp [keyedWalk] at h
  | x :: xs, k :: ks, sr, orr, i, hx, hwx, hsr, horr, h => by
    simp only [keyedWalk] at h
    simp only [wfL, Bool.and_eq_true] at hwx
    have hx0 : sl[i]? = some x := by simpa using (hx 0).symm
    have hx' : ∀ n, xs[n]? = sl[i + 1 + n]? := by
      intro n
      have := hx (n + 1)
      simp only [List.getElem?_cons_succ] at this
      rw [this]; congr 1; omega
    cases hf : findKey k orr with
    | none =>
      rw [hf] at h
      exact keyedWalk_faith cfg p sa oa c c' sl ol (i + 1) xs ks sr orr r hd hx' hwx.2 hwo hsr horr h
    | some jy =>
      obtain ⟨j, y⟩ := jy
      rw [hf] at h
      simp only at h
      obtain ⟨k', hmem⟩ := findKey_mem orr k j y hf
      have hy0 : ol[j]? = some y := horr _ hmem
      have hwy : wf y = true := wfL_get ol j y hwo hy0
      have hsr' : ∀ e ∈ eraseKey k sr, sl[e.2.1]? = some e.2.2 := fun e he => hsr e (eraseKey_sub sr k e he)
      have horr' : ∀ e ∈ eraseKey k orr, ol[e.2.1]? = some e.2.2 := fun e he => horr e (eraseKey_sub orr k e he)
      have hL : segGet .left (if i = j then PSeg.idx i else PSeg.idx2 i j) (.list c sl) = some x := by
        rw [segGet_keyed_left]; exact hx0
      have hR : segGet .right (if i = j then PSeg.idx i else PSeg.idx2 i j) (.list c' ol) = some y := by
        rw [segGet_keyed_right]; exact hy0
      have hcb := classifyItem_shape cfg p (p ++ [if i = j then PSeg.idx i else PSeg.idx2 i j]) (p ++ [if i = j then PSeg.idx i else PSeg.idx2 i j]) sa oa x y
      cases hcl : classifyItem cfg p (p ++ [if i = j then PSeg.idx i else PSeg.idx2 i j]) (p ++ [if i = j then PSeg.idx i else PSeg.idx2 i j]) sa oa x y with
      | emit r0 s =>
        rw [hcl] at h hcb
        simp only at h
        cases hr : keyedWalk cfg p sa oa (i + 1) xs ks (eraseKey k sr) (eraseKey k orr) with
        | error e => rw [hr] at h; cases h
        | ok r' =>
          rw [hr] at h; cases h
          exact faith_append (faith_of_shape hcb hL hR hL hR)
            (keyedWalk_faith cfg p sa oa c c' sl ol (i + 1) xs ks _ _ r' hd hx' hwx.2 hwo hsr' horr' hr)
      | descend =>
        rw [hcl] at h
        simp only at h
        cases hsb : sub cfg .item (p ++ [if i = j then PSeg.idx i else PSeg.idx2 i j]) x y with
        | error e => rw [hsb] at h; cases h
        | ok r1 =>
          rw [hsb] at h
          simp only at h
          cases hr : keyedWalk cfg p sa oa (i + 1) xs ks (eraseKey k sr) (eraseKey k orr) with
          | error e => rw [hr] at h; cases h
          | ok r' =>
            rw [hr] at h; cases h
            exact faith_append (Faith.lift hL hR (sub_faith cfg .item _ x y r1 hwx.1 hwy hsb))
              (keyedWalk_faith cfg p sa oa c c' sl ol (i + 1) xs ks _ _ r' hd hx' hwx.2 hwo hsr' horr' hr)
termination_by structural xs
end

theorem compareTop_faith (cfg : Cfg) (a b : Val) (r : Res) (hw : wf a = true) (hw' : wf b = true)
    (h : compareTop cfg a b = .ok r) : Faith cfg [] a b r := by
  unfold compareTop at h
  split at h
  · split at h
    · simp only [wf, Bool.and_eq_true] at hw hw'
      rename_i kvs _ kvs'
      exact dictWalk_faith cfg [] _ _ .n0 .n0 kvs kvs' true kvs r hw.2 hw'.2 hw'.1
        (fun k v hm => lookup_of_mem kvs k v hw.2 hm) hw.1 h
    · cases h
  · split at h
    · exact sub_faith cfg .entry [] _ _ r hw hw' h
    · cases h
  · cases h

/-! ### the target theorems: paths resolve -/

theorem notEqual_faithful (cfg : Cfg) (a b : Val) (r : Res) (hw : wf a = true) (hw' : wf b = true)
    (h : compareTop cfg a b = .ok r) :
    ∀ e ∈ r.notEqual, getAt .left e.path a = some e.l ∧ getAt .right e.path b = some e.r := by
  intro e he
  obtain ⟨q, hp, h1, h2⟩ := (compareTop_faith cfg a b r hw hw' h).ne e he
  simp only [List.nil_append] at hp
  rw [hp]; exact ⟨h1, h2⟩

theorem unique_faithful (cfg : Cfg) (a b : Val) (r : Res) (hw : wf a = true) (hw' : wf b = true)
    (h : compareTop cfg a b = .ok r) :
    (∀ e ∈ r.selfUnique, getAt .left e.path a = some e.v) ∧
    (∀ e ∈ r.otherUnique, getAt .right e.path b = some e.v) := by
  have hf := compareTop_faith cfg a b r hw hw' h
  constructor
  · intro e he
    obtain ⟨q, hp, h1⟩ := hf.su e he
    simp only [List.nil_append] at hp
    rw [hp]; exact h1
  · intro e he
    obtain ⟨q, hp, h1⟩ := hf.ou e he
    simp only [List.nil_append] at hp
    rw [hp]; exact h1

/-! ### a generic induction over the four walks, for properties that do not mention paths -/

def ActP (P : Res → Prop) : Act → Prop
  | .emit r _ => P r
  | .descend => True

section generic
set_option linter.unusedSectionVars false
variable (P : Res → Prop) (cfg : Cfg)
  (happ : ∀ a b, P a → P b → P (a ++ b))
  (hU : ∀ r : Res, r.notEqual = [] → r.diffTypes = [] → P r)
  (hItem : ∀ p pne pdt sa oa x y, ActP P (classifyItem cfg p pne pdt sa oa x y))
  (hEntry : ∀ full x y, ActP P (classifyEntry cfg full x y))
include happ hU hItem hEntry

mutual
theorem sub_all (site : Site) (p : Path) (v w : Val) (r : Res)
    (h : sub cfg site p v w = .ok r) : P r :=
  match v, w, h with
  | .list c xs, w, h => by
    cases w with
    | list c' ys =>
      simp only [sub] at h
      split at h
      · cases h
      · split at h
        · cases h
        · split at h
          · cases h; exact hU _ rfl rfl
          · split at h
            · exact directWalk_all p _ _ 0 xs ys r h
            · split at h
              · cases h
              · split at h
                · cases h
                · exact keyedWalk_all p _ _ 0 xs _ _ _ r h
    | _ => simp [sub] at h
  | .dict c kvs, w, h => by
    cases w with
    | dict c' kvs' =>
      simp only [sub] at h
      split at h
      · cases h
      · exact dictWalk_all p _ _ kvs kvs' true kvs r h
    | _ => simp [sub] at h
  | .none, _, h => by simp [sub] at h; subst h; exact hU _ rfl rfl
  | .bool _, _, h => by simp [sub] at h
  | .int _, _, h => by simp [sub] at h
  | .flt _, _, h => by simp [sub] at h
  | .str _, _, h => by simp [sub] at h
termination_by structural v

theorem dictWalk_all (p : Path) (sa oa : Val) (skvs okvs : List (Str × Val))
    (still : Bool) (kvs : List (Str × Val)) (r : Res)
    (h : dictWalk cfg p sa oa skvs okvs still kvs = .ok r) : P r :=
  match kvs, still, h with
  | [], still, h => by
    simp only [dictWalk] at h
    cases h; exact hU _ rfl rfl
  | (k, v) :: rest, still, h => by
    simp only [dictWalk] at h
    cases hl : Val.lookup k okvs with
    | none =>
      rw [hl] at h
      exact dictWalk_all p sa oa skvs okvs still rest r h
    | some w =>
      rw [hl] at h
      simp only at h
      have hcb := hEntry (p ++ [.key k]) v w
      cases hcl : classifyEntry cfg (p ++ [.key k]) v w with
      | emit r0 s =>
        rw [hcl] at h hcb
        simp only at h
        cases hr : dictWalk cfg p sa oa skvs okvs (still && s) rest with
        | error e => rw [hr] at h; cases h
        | ok r' =>
          rw [hr] at h; cases h
          exact happ _ _ hcb (dictWalk_all p sa oa skvs okvs (still && s) rest r' hr)
      | descend =>
        rw [hcl] at h
        simp only at h
        cases hs : sub cfg .entry (p ++ [.key k]) v w with
        | error e => rw [hs] at h; cases h
        | ok r1 =>
          rw [hs] at h
          simp only at h
          cases hr : dictWalk cfg p sa oa skvs okvs still rest with
          | error e => rw [hr] at h; cases h
          | ok r' =>
            rw [hr] at h; cases h
            exact happ _ _ (sub_all .entry _ v w r1 hs)
              (dictWalk_all p sa oa skvs okvs still rest r' hr)
termination_by structural kvs

theorem directWalk_all (p : Path) (sa oa : Val) (i : Nat) (xs ys : List Val) (r : Res)
    (h : directWalk cfg p sa oa i xs ys = .ok r) : P r :=
  match xs, ys, i, h with
  | [], ys, i, h => by
    simp only [directWalk] at h
    cases h
    exact hU _ rfl rfl
  | x :: xs, [], i, h => by
    simp only [directWalk] at h
    cases hr : directWalk cfg p sa oa (i + 1) xs [] with
    | error e => rw [hr] at h; cases h
    | ok r' =>
      rw [hr] at h; cases h
      exact happ _ _ (hU _ rfl rfl) (directWalk_all p sa oa (i + 1) xs [] r' hr)
  | x :: xs, y :: ys, i, h => by
    simp only [directWalk] at h
    have hcb := hItem p (p ++ [.idx i]) (p ++ [.idx i]) sa oa x y
    cases hcl : classifyItem cfg p (p ++ [.idx i]) (p ++ [.idx i]) sa oa x y with
    | emit r0 s =>
      rw [hcl] at h hcb
      simp only at h
      cases hr : directWalk cfg p sa oa (i + 1) xs ys with
      | error e => rw [hr] at h; cases h
      | ok r' =>
        rw [hr] at h; cases h
        exact happ _ _ hcb (directWalk_all p sa oa (i + 1) xs ys r' hr)
    | descend =>
      rw [hcl] at h
      simp only at h
      cases hs : sub cfg .item (p ++ [.idx i]) x y with
      | error e => rw [hs] at h; cases h
      | ok r1 =>
        rw [hs] at h
        simp only at h
        cases hr : directWalk cfg p sa oa (i + 1) xs ys with
        | error e => rw [hr] at h; cases h
        | ok r' =>
          rw [hr] at h; cases h
          exact happ _ _ (sub_all .item _ x y r1 hs)
            (directWalk_all p sa oa (i + 1) xs ys r' hr)
termination_by structural xs

theorem keyedWalk_all (p : Path) (sa oa : Val) (i : Nat) (xs : List Val) (ks : List Str)
    (sr orr : List KE) (r : Res)
    (h : keyedWalk cfg p sa oa i xs ks sr orr = .ok r) : P r :=
  match xs, ks, sr, orr, i, h with
  | [], _, sr, orr, i, h => by
    simp only [keyedWalk] at h
    cases h; exact hU _ rfl rfl
  | _ :: _, [], _, _, i, h => by simp [keyedWalk] at h
  | x :: xs, k :: ks, sr, orr, i, h => by
    simp only [keyedWalk] at h
    cases hf : findKey k orr with
    | none =>
      rw [hf] at h
      exact keyedWalk_all p sa oa (i + 1) xs ks sr orr r h
    | some jy =>
      obtain ⟨j, y⟩ := jy
      rw [hf] at h
      simp only at h
      have hcb := hItem p (p ++ [if i = j then PSeg.idx i else PSeg.idx2 i j]) (p ++ [if i = j then PSeg.idx i else PSeg.idx2 i j]) sa oa x y
      cases hcl : classifyItem cfg p (p ++ [if i = j then PSeg.idx i else PSeg.idx2 i j]) (p ++ [if i = j then PSeg.idx i else PSeg.idx2 i j]) sa oa x y with
      | emit r0 s =>
        rw [hcl] at h hcb
        simp only at h
        cases hr : keyedWalk cfg p sa oa (i + 1) xs ks (eraseKey k sr) (eraseKey k orr) with
        | error e => rw [hr] at h; cases h
        | ok r' =>
          rw [hr] at h; cases h
          exact happ _ _ hcb (keyedWalk_all p sa oa (i + 1) xs ks _ _ r' hr)
      | descend =>
        rw [hcl] at h
        simp only at h
        cases hs : sub cfg .item (p ++ [if i = j then PSeg.idx i else PSeg.idx2 i j]) x y with
        | error e => rw [hs] at h; cases h
        | ok r1 =>
          rw [hs] at h
          simp only at h
          cases hr : keyedWalk cfg p sa oa (i + 1) xs ks (eraseKey k sr) (eraseKey k orr) with
          | error e => rw [hr] at h; cases h
          | ok r' =>
            rw [hr] at h; cases h
            exact happ _ _ (sub_all .item _ x y r1 hs)
              (keyedWalk_all p sa oa (i + 1) xs ks _ _ r' hr)
termination_by structural xs
end

theorem compareTop_all (a b : Val) (r : Res) (h : compareTop cfg a b = .ok r) : P r := by
  unfold compareTop at h
  split at h
  · split at h
    · exact dictWalk_all P cfg happ hU hItem hEntry [] _ _ _ _ true _ r h
    · cases h
  · split at h
    · exact sub_all P cfg happ hU hItem hEntry .entry [] _ _ r h
    · cases h
  · cases h

end generic

/-! ### reported values really differ (no transform) -/

/-- not-equal entries carry different values, type-clash entries values of different types -/
def Differ (r : Res) : Prop :=
  (∀ e ∈ r.notEqual, e.l ≠ e.r) ∧ (∀ e ∈ r.diffTypes, tyOf e.l ≠ tyOf e.r)

theorem differ_append (a b : Res) (ha : Differ a) (hb : Differ b) : Differ (a ++ b) := by
  constructor
  · intro e he
    simp only [append_notEqual, List.mem_append] at he
    exact he.elim (ha.1 e) (hb.1 e)
  · intro e he
    simp only [append_diffTypes, List.mem_append] at he
    exact he.elim (ha.2 e) (hb.2 e)

theorem differ_nil (r : Res) (h1 : r.notEqual = []) (h2 : r.diffTypes = []) : Differ r := by
  constructor
  · intro e he; rw [h1] at he; cases he
  · intro e he; rw [h2] at he; cases he

theorem transformAt_noTr {cfg : Cfg} (h : cfg.tr = []) (p : Path) : transformAt cfg p = id := by
  simp [transformAt, transformAtStr, h, xpathMatchFrom]

theorem ne_of_tyOf_ne {x y : Val} (h : ¬ tyOf x = tyOf y) : x ≠ y := by
  intro he; subst he; exact h rfl

theorem classifyItem_differ {cfg : Cfg} (htr : cfg.tr = []) (p pne pdt : Path) (sa oa x y : Val) :
    ActP Differ (classifyItem cfg p pne pdt sa oa x y) := by
  unfold classifyItem
  simp only [transformAt_noTr htr, id]
  split
  · split
    · split
      · rename_i hne
        simp only [ActP, Differ]
        exact ⟨by intro e he; simp at he; subst he; exact hne, by intro e he; simp at he⟩
      · split <;> exact differ_nil _ rfl rfl
    · trivial
  · rename_i hty
    split
    · simp only [ActP, Differ]
      exact ⟨by intro e he; simp at he, by intro e he; simp at he; subst he; exact hty⟩
    · simp only [ActP, Differ]
      exact ⟨by intro e he; simp at he; subst he; exact ne_of_tyOf_ne hty, by intro e he; simp at he⟩

theorem classifyEntry_differ {cfg : Cfg} (htr : cfg.tr = []) (full : Path) (x y : Val) :
    ActP Differ (classifyEntry cfg full x y) := by
  unfold classifyEntry
  split
  · exact differ_nil _ rfl rfl
  · simp only [transformAt_noTr htr, id]
    split
    · split
      · split
        · rename_i hne
          simp only [ActP, Differ]
          exact ⟨by intro e he; simp at he; subst he; exact hne.1, by intro e he; simp at he⟩
        · exact differ_nil _ rfl rfl
      · trivial
    · rename_i hty
      split
      · split
        · simp only [ActP, Differ]
          exact ⟨by intro e he; simp at he, by intro e he; simp at he; subst he; exact hty⟩
        · simp only [ActP, Differ]
          exact ⟨by intro e he; simp at he; subst he; exact ne_of_tyOf_ne hty, by intro e he; simp at he⟩
      · exact differ_nil _ rfl rfl

theorem compareTop_differ (cfg : Cfg) (a b : Val) (r : Res) (htr : cfg.tr = [])
    (h : compareTop cfg a b = .ok r) : Differ r :=
  compareTop_all Differ cfg differ_append differ_nil
    (fun p pne pdt sa oa x y => classifyItem_differ htr p pne pdt sa oa x y)
    (fun full x y => classifyEntry_differ htr full x y) a b r h

theorem notEqual_differ (cfg : Cfg) (a b : Val) (r : Res) (htr : cfg.tr = [])
    (h : compareTop cfg a b = .ok r) : ∀ e ∈ r.notEqual, e.l ≠ e.r :=
  (compareTop_differ cfg a b r htr h).1

theorem diffTypes_faithful (cfg : Cfg) (a b : Val) (r : Res) (hw : wf a = true) (hw' : wf b = true)
    (h : compareTop cfg a b = .ok r) :
    ∀ e ∈ r.diffTypes, getAt .left e.path a = some e.l ∧ (cfg.tr = [] → tyOf e.l ≠ tyOf e.r)
      ∧ getAt .right e.path b = some e.r := by
  intro e he
  obtain ⟨q, hp, h1, h2⟩ := (compareTop_faith cfg a b r hw hw' h).dt e he
  simp only [List.nil_append] at hp
  rw [hp]
  exact ⟨h1, fun htr => (compareTop_differ cfg a b r htr h).2 e he, h2⟩

/-- a type clash inside a keyed list is reported at `prefix[i]<>[j]` (fix C09-b): the record `{i: '1'}` at left
index 0 is paired by its composite key with the plain `dict` `{i: '1'}` at right index 1 -/
theorem diffTypes_right_keyed_example :
    compareTop { Cfg.default ⟨true, false, false, false, false, true⟩ false with ck := .one ['i'] }
        (.list .n0 [.dict .n0 [(['i'], .str ['1'])]])
        (.list .n0 [.dict .n0 [], .dict .plain [(['i'], .str ['1'])]])
      = .ok { diffs := 2,
              diffTypes := [⟨[.idx2 0 1], .dict .n0 [(['i'], .str ['1'])], .dict .plain [(['i'], .str ['1'])]⟩],
              otherUnique := [⟨[.idx 0], .dict .n0 []⟩] }
    ∧ getAt .right [.idx2 0 1] (.list .n0 [.dict .n0 [], .dict .plain [(['i'], .str ['1'])]])
        = some (.dict .plain [(['i'], .str ['1'])]) := by
  decide

/-- the hypothesis `wf` (unique dictionary keys) is needed: on an association list with a repeated
key the second occurrence is reported although the path resolves to the first one.  (A Python `dict`
cannot contain a repeated key, so this is a property of the model's value type only.) -/
theorem notEqual_faithful_dupKey_cex :
    compareTop (Cfg.default Flags.init true)
        (.dict .n0 [(['k'], .int 1), (['k'], .int 2)]) (.dict .n0 [(['k'], .int 1)])
      = .ok { diffs := 1, notEqual := [⟨[.key ['k']], .int 2, .int 1, .lst, false⟩] }
    ∧ getAt .left [.key ['k']] (.dict .n0 [(['k'], .int 1), (['k'], .int 2)]) = some (.int 1) := by
  decide

end N0.Compare
