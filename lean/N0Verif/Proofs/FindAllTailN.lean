import N0Verif.Proofs.FindAllTail
import N0Verif.Proofs.FindAllList
/-!
  The descendant wildcard with a tail of ANY length, `'//*/name/s1/…/sk'` (dict roots, k ≥ 0).

  The induction of `Proofs/FindAllTail.lean` is redone for the token list `'*' :: name :: subs`.  The
  `*` step's check of the node itself is `_findall(node, name :: subs)`: a walk along the keys
  (`walkN`) through dictionaries (`fatn_self_check`, induction on the tail); an entry that is missing or
  a final element on the way is a miss of that branch.  The reference iterates the one-step tail
  function over the nodes called `name`: `tailN subs (descV name root)`.
  Hypothesis `NnlsV (name :: subs).dropLast t`: no entry called like a non-final step is a list.
-/
namespace N0.FindAll
open N0 N0.Py N0.Val N0.XPath

/-- the reference: `tailOf` iterated along the tail -/
def tailN : List Str → List (Pos × Val) → List (Pos × Val)
  | [], l => l
  | s :: r, l => tailN r (tailOf s l)

theorem tailN_nil (subs : List Str) : tailN subs [] = [] := by
  induction subs with
  | nil => rfl
  | cons s r ih => simpa [tailN, tailOf] using ih

theorem tailN_append (subs : List Str) : ∀ (a b : List (Pos × Val)),
    tailN subs (a ++ b) = tailN subs a ++ tailN subs b := by
  induction subs with
  | nil => intro a b; rfl
  | cons s r ih => intro a b; simp only [tailN, tailOf_append, ih]

theorem tailN_map_cons (subs : List Str) (sg : Seg) : ∀ (l : List (Pos × Val)),
    tailN subs (l.map (fun pv => (sg :: pv.1, pv.2))) = (tailN subs l).map (fun pv => (sg :: pv.1, pv.2)) := by
  induction subs with
  | nil => intro l; rfl
  | cons s r ih => intro l; simp only [tailN, tailOf_map_cons, ih]

/-- the walk along keys through dictionaries -/
def walkN : List Str → Val → Option Val
  | [], v => some v
  | k :: r, .dict _ kvs =>
    (match lookup k kvs with
      | some x => walkN r x
      | Option.none => Option.none)
  | _ :: _, _ => Option.none

theorem tailN_single (subs : List Str) : ∀ (p : Pos) (v : Val),
    tailN subs [(p, v)] = (match walkN subs v with
      | some x => [(p ++ subs.map Seg.key, x)]
      | Option.none => []) := by
  induction subs with
  | nil => intro p v; simp [tailN, walkN]
  | cons s r ih =>
    intro p v
    cases v <;> simp only [tailN, tailOf, List.flatMap_cons, List.flatMap_nil, List.append_nil, tl1, walkN, tailN_nil]
    next c kvs =>
      cases lookup s kvs with
      | none => simp only [tailN_nil]
      | some x => simp only [ih, List.map_cons, List.append_assoc, List.cons_append, List.nil_append]

mutual
/-- no entry called like one of `L` is a list -/
def NnlsV (L : List Str) : Val → Prop
  | .dict _ kvs => (∀ n ∈ L, ∀ c xs, lookup n kvs ≠ some (.list c xs)) ∧ NnlsK L kvs
  | .list _ xs => NnlsL L xs
  | _ => True
def NnlsK (L : List Str) : List (Str × Val) → Prop
  | [] => True
  | (_, c) :: kvs => NnlsV L c ∧ NnlsK L kvs
def NnlsL (L : List Str) : List Val → Prop
  | [] => True
  | x :: xs => NnlsV L x ∧ NnlsL L xs
end

theorem nnlsK_lookup (L : List Str) (k : Str) (x : Val) : ∀ (kvs : List (Str × Val)),
    NnlsK L kvs → lookup k kvs = some x → NnlsV L x := by
  intro kvs
  induction kvs with
  | nil => intro _ h; simp [lookup] at h
  | cons a r ih =>
    obtain ⟨k', c'⟩ := a
    intro h hl
    simp only [NnlsK] at h
    simp only [lookup] at hl
    split at hl
    · cases hl; exact h.1
    · exact ih h.2 hl

theorem nnlsV_mono {L L' : List Str} (hs : ∀ n ∈ L', n ∈ L) :
    (∀ v, NnlsV L v → NnlsV L' v) ∧ (∀ kvs, NnlsK L kvs → NnlsK L' kvs) ∧ (∀ xs, NnlsL L xs → NnlsL L' xs) := by
  refine fad_val_ind ?_ ?_ ?_ ?_ ?_ ?_ ?_
  · intro c kvs ih h
    simp only [NnlsV] at h ⊢
    exact ⟨fun n hn => h.1 n (hs n hn), ih h.2⟩
  · intro c xs ih h
    simp only [NnlsV] at h ⊢
    exact ih h
  · intro v hv _
    cases v <;> simp only [NnlsV] <;> simp [isContainer] at hv
  · intro _; trivial
  · intro k c kvs h1 h2 h
    simp only [NnlsK] at h ⊢
    exact ⟨h1 h.1, h2 h.2⟩
  · intro _; trivial
  · intro x xs h1 h2 h
    simp only [NnlsL] at h ⊢
    exact ⟨h1 h.1, h2 h.2⟩

/-- the answer of `_findall(node, ks, …)` (the walk) on a node whose found-path list is `fl` -/
def fatnSelf (ks : List Str) (fl : FL) (v : Val) : Option Found :=
  match walkN ks v with
  | some x => some [(keyOf (fl ++ ks), x)]
  | Option.none => Option.none

theorem fatn_scalar_miss (re : Bool) {k : Str} (hk : PlainKey k) (f : Nat) (v : Val) (rest : List Str) (fl : FL) (ps : PS)
    (hv : isContainer v = false) : fa re (f + 1) v (k :: rest) fl ps = ⟨.ok Option.none, fl, ps⟩ := by
  cases v <;> simp only [isContainer, Bool.true_eq_false] at hv <;>
    simp only [fa, step, classify_plain hk, stepName]

/-- `_findall(node, k :: ks, …)` on a dictionary, plain names, no list on the way: the walk -/
theorem fatn_self_check (re : Bool) : ∀ (ks : List Str) (k : Str), PlainKey k → (∀ s ∈ ks, PlainKey s) →
    ∀ (f : Nat) (c : Cls) (kvs : List (Str × Val)) (fl : FL) (ps : PS),
    NnlsV (k :: ks).dropLast (.dict c kvs) →
    fa re (f + ks.length + 2) (.dict c kvs) (k :: ks) fl ps = ⟨.ok (fatnSelf (k :: ks) fl (.dict c kvs)), fl, ps⟩ := by
  intro ks
  induction ks with
  | nil =>
    intro k hk _ f c kvs fl ps _
    rw [show f + ([] : List Str).length + 2 = f + 2 from rfl, fad_self_check re hk f c kvs fl ps]
    simp only [fatnSelf, walkN]
    cases lookup k kvs <;> rfl
  | cons s r ih =>
    intro k hk hks f c kvs fl ps hnl
    have hke : k.isEmpty = false := by
      cases k with
      | nil => exact absurd rfl hk.ne
      | cons _ _ => rfl
    have hkst : k ≠ ['*'] := hk.keyTok.notStar
    have hs : PlainKey s := hks s (by simp)
    have hr : ∀ x ∈ r, PlainKey x := fun x hx => hks x (by simp [hx])
    have hdl : (k :: s :: r).dropLast = k :: (s :: r).dropLast := rfl
    rw [hdl] at hnl
    simp only [NnlsV] at hnl
    rw [show f + (s :: r).length + 2 = (f + r.length + 2) + 1 from by simp; omega, fa, step]
    simp only [classify_plain hk, stepName, hke, Bool.false_eq_true, if_false, hkst, fatnSelf, walkN]
    cases hl : lookup k kvs with
    | none => rfl
    | some c' =>
      simp only
      have hn' : NnlsV (s :: r).dropLast c' :=
        (nnlsV_mono (L := k :: (s :: r).dropLast) (fun n hn => by simp [hn])).1 _ (nnlsK_lookup _ k c' kvs hnl.2 hl)
      cases c' with
      | dict c2 kvs' =>
        rw [ih s hs hr f c2 kvs' (fl ++ [k]) _ hn']
        simp only [fatnSelf, List.append_assoc, List.cons_append, List.nil_append]
      | list c2 xs => exact absurd hl (hnl.1 k (by simp) c2 xs)
      | _ =>
        rw [show f + r.length + 2 = (f + r.length + 1) + 1 from rfl, fatn_scalar_miss re hs _ _ _ _ _ rfl]
        simp [walkN]

theorem fatn_flPath_keys (ks : List Str) : ∀ (q : Pos), flPath [] q ++ ks = flPath [] (q ++ ks.map Seg.key) := by
  induction ks with
  | nil => intro q; simp
  | cons k r ih =>
    intro q
    have := ih (q ++ [Seg.key k])
    rw [fad_flPath_snoc_key] at this
    simpa using this

theorem fatn_plainPos_keys : ∀ (ks : List Str), (∀ s ∈ ks, PlainKey s) → PlainPos (ks.map Seg.key)
  | [], _ => trivial
  | k :: r, h => ⟨h k (by simp), fatn_plainPos_keys r (fun s hs => h s (by simp [hs]))⟩

section tail
variable (re : Bool) (name : Str) (subs : List Str)

/-- the tokens of `'//*/name/s1/…/sk'` -/
def fatnT : List Str := [['*']] ++ name :: subs

def FatnPV (v : Val) : Prop :=
  isContainer v = true → KeysOkV v → ContOkV v → NnlsV (name :: subs).dropLast v → ∃ N, ∀ fuel ≥ N, ∀ (q : Pos) (ps : PS),
    Rooted q → PlainPos q → ((∃ c xs, v = .list c xs) → q ≠ []) →
    ((fadMapR q (tailN subs (descV name v))).map Prod.fst).Nodup →
    (fa re fuel v (fatnT name subs) (flPath [] q) ps).res = .ok (some (fadMapR q (tailN subs (descV name v))))

def FatnPK (kvs : List (Str × Val)) : Prop :=
  KeysOkK kvs → ContOkK kvs → NnlsK (name :: subs).dropLast kvs → ∃ N, ∀ fuel ≥ N, ∀ (q : Pos) (ps : PS) (acc : Found),
    Rooted q → PlainPos q →
    ((acc ++ fadMapR q (tailN subs (descK name kvs))).map Prod.fst).Nodup →
    keysLoop (fun k c => fa re fuel c (fatnT name subs) (flPath [] q ++ [k]) ps) kvs acc =
      .ok (some (acc ++ fadMapR q (tailN subs (descK name kvs))))

def FatnPL (xs : List Val) : Prop :=
  KeysOkL xs → ContOkL xs → NnlsL (name :: subs).dropLast xs → ∃ N, ∀ fuel ≥ N, ∀ (q : Pos) (ps : PS) (node : Val) (i : Nat) (cur : FL) (acc : Found),
    Rooted q → q ≠ [] → PlainPos q → cur.dropLast = (flPath [] q).dropLast →
    ((acc ++ fadMapR q (tailN subs (descL name i xs))).map Prod.fst).Nodup →
    (starLoop (fun x cur1 => fa re fuel x (fatnT name subs) cur1 (push ps cur1 node)) re
      ((flPath [] q).getLast?.getD []) i xs cur acc).1 = .ok (some (acc ++ fadMapR q (tailN subs (descL name i xs))))

theorem fatn_desc_dict (hn : PlainKey name) (hs : ∀ s ∈ subs, PlainKey s) (c : Cls) (kvs : List (Str × Val))
    (hk : FatnPK re name subs kvs) : FatnPV re name subs (.dict c kvs) := by
  intro _ hko hco hnl
  have hnl0 := hnl
  simp only [KeysOkV, ContOkV, NnlsV] at hko hco hnl
  obtain ⟨N, hN⟩ := hk hko hco hnl.2
  refine ⟨N + subs.length + 3, fun fuel hf q ps hr hp _ hnd => ?_⟩
  obtain ⟨f, rfl⟩ : ∃ f, fuel = (N + f) + subs.length + 2 + 1 := ⟨fuel - (N + subs.length + 3), by omega⟩
  have h1 := fatn_self_check re subs name hn hs (N + f) c kvs (flPath [] q) ps hnl0
  have h2 := fad_star_dict re _ c kvs (name :: subs) (flPath [] q) ps _ h1
  show (fa re ((N + f) + subs.length + 2 + 1) (.dict c kvs) (['*'] :: name :: subs) (flPath [] q) ps).res = _
  rw [h2]
  simp only
  simp only [descV, tailN_append, fadMapR_append] at hnd ⊢
  have hacc : upd [] (fatnSelf (name :: subs) (flPath [] q) (.dict c kvs)) =
      fadMapR q (tailN subs (match lookup name kvs with
        | some c => [([Seg.key name], c)]
        | Option.none => [])) := by
    simp only [fatnSelf, walkN]
    cases lookup name kvs with
    | none => simp [tailN_nil, fadMapR, upd]
    | some c' =>
      simp only [tailN_single]
      cases walkN subs c' with
      | none => rfl
      | some x =>
        have hpn : PlainPos (q ++ (name :: subs).map Seg.key) :=
          fad_plainPos_append hp (fatn_plainPos_keys _ (fun s hs' => by
            rcases List.mem_cons.1 hs' with rfl | h
            · exact hn
            · exact hs s h))
        have hkey : keyOf (flPath [] q ++ name :: subs) = slash ++ renderPos (q ++ (name :: subs).map Seg.key) := by
          rw [fatn_flPath_keys]
          refine fad_keyOf_rooted ?_ (by simp) hpn
          cases q with
          | nil => trivial
          | cons a r => cases a with
            | key k => trivial
            | idx n => exact hr.elim
        simp only [fadMapR, List.map_cons, List.map_nil, upd, List.foldl_cons, List.foldl_nil, kvSet,
          List.cons_append, List.nil_append, hkey]
  rw [hacc]
  exact hN _ (by omega) q _ _ hr hp hnd

theorem fatn_desc_list (c : Cls) (xs : List Val) (hl : FatnPL re name subs xs) : FatnPV re name subs (.list c xs) := by
  intro _ hko hco hnl
  simp only [KeysOkV, ContOkV, NnlsV] at hko hco hnl
  obtain ⟨N, hN⟩ := hl hko hco hnl
  refine ⟨N + 2, fun fuel hf q ps hr hp hq hnd => ?_⟩
  obtain ⟨f, rfl⟩ : ∃ f, fuel = f + 2 := ⟨fuel - 2, by omega⟩
  have hq' : q ≠ [] := hq ⟨c, xs, rfl⟩
  show (fa re (f + 2) (.list c xs) (['*'] :: name :: subs) (flPath [] q) ps).res = _
  rw [fad_star_list re f c xs (name :: subs) (flPath [] q) ps (fad_flPath_rooted_ne hr hq')]
  simp only [descV] at hnd ⊢
  have := hN f (by omega) q ps (.list c xs) 0 (flPath [] q) [] hr hq' hp rfl (by simpa using hnd)
  simpa [fatnT] using this

theorem fatn_desc_kcons (k : Str) (c : Val) (kvs : List (Str × Val)) (hv : FatnPV re name subs c)
    (hk : FatnPK re name subs kvs) : FatnPK re name subs ((k, c) :: kvs) := by
  intro hko hco hnl
  simp only [KeysOkK, ContOkK, NnlsK] at hko hco hnl
  obtain ⟨hpk, _, hkc, hkk⟩ := hko
  obtain ⟨N2, hN2⟩ := hk hkk hco.2 hnl.2
  by_cases hc : isContainer c = true
  · obtain ⟨N1, hN1⟩ := hv hc hkc hco.1 hnl.1
    refine ⟨max N1 N2, fun fuel hf q ps acc hr hp hnd => ?_⟩
    have hf1 : fuel ≥ N1 := by omega
    have hf2 : fuel ≥ N2 := by omega
    simp only [descK, tailN_append, tailN_map_cons, fadMapR_append] at hnd ⊢
    rw [← fadMapR_snoc] at hnd ⊢
    obtain ⟨hd1, hd2, hd3⟩ := fad_nodup_split hnd
    have hcall := hN1 fuel hf1 (q ++ [Seg.key k]) ps (fad_rooted_snoc hr _ (fun _ => ⟨k, rfl⟩))
      (fad_plainPos_append hp ⟨hpk, trivial⟩) (fun _ => by simp) hd1
    rw [fad_flPath_snoc_key] at hcall
    simp only [keysLoop, hc, if_true, hcall]
    rw [fad_upd_append _ _ hd2, hN2 fuel hf2 q ps _ hr hp hd3, List.append_assoc]
  · have hc' : isContainer c = false := by simpa using hc
    refine ⟨N2, fun fuel hf q ps acc hr hp hnd => ?_⟩
    simp only [descK, fad_descV_scalar name c hc', List.map_nil, List.nil_append] at hnd ⊢
    simp only [keysLoop, hc', Bool.false_eq_true, if_false]
    exact hN2 fuel hf q ps acc hr hp hnd

theorem fatn_desc_lcons (x : Val) (xs : List Val) (hv : FatnPV re name subs x) (hl : FatnPL re name subs xs) :
    FatnPL re name subs (x :: xs) := by
  intro hko hco hnl
  simp only [KeysOkL, ContOkL, NnlsL] at hko hco hnl
  obtain ⟨hcx, hcv, hcl⟩ := hco
  obtain ⟨N1, hN1⟩ := hv hcx hko.1 hcv hnl.1
  obtain ⟨N2, hN2⟩ := hl hko.2 hcl hnl.2
  refine ⟨max N1 N2, fun fuel hf q ps node i cur acc hr hq hp hcur hnd => ?_⟩
  have hf1 : fuel ≥ N1 := by omega
  have hf2 : fuel ≥ N2 := by omega
  simp only [descL, tailN_append, tailN_map_cons, fadMapR_append] at hnd ⊢
  rw [← fadMapR_snoc] at hnd ⊢
  obtain ⟨hd1, hd2, hd3⟩ := fad_nodup_split hnd
  have hfl := fad_flPath_rooted_ne hr hq
  have hcur1 : setLast cur ((flPath [] q).getLast?.getD [] ++ bracket (natRepr i)) = flPath [] (q ++ [Seg.idx i]) := by
    rw [fad_flPath_snoc_idx]
    have he : (flPath [] q).isEmpty = false := by
      cases hh : flPath [] q with
      | nil => exact absurd hh hfl
      | cons _ _ => rfl
    simp only [bump, he, Bool.false_eq_true, if_false, setLast, hcur]
  have hcall := hN1 fuel hf1 (q ++ [Seg.idx i]) (push ps (flPath [] (q ++ [Seg.idx i])) node)
    (fad_rooted_snoc hr _ (fun h => absurd h hq))
    (fad_plainPos_append hp (by trivial)) (fun _ => by simp) hd1
  simp only [starLoop, hcx, if_true, hcur1, hcall]
  rw [fad_upd_append _ _ hd2]
  have hdl : (fa re fuel x (fatnT name subs) (flPath [] (q ++ [Seg.idx i])) (push ps (flPath [] (q ++ [Seg.idx i])) node)).fl.dropLast
      = (flPath [] q).dropLast := by
    rw [fa_dl, ← hcur1, setLast_dropLast, hcur]
  rw [hN2 fuel hf2 q ps node (i + 1) _ _ hr hq hp hdl hd3, List.append_assoc]

theorem fatn_desc_all (hn : PlainKey name) (hs : ∀ s ∈ subs, PlainKey s) :
    (∀ v, FatnPV re name subs v) ∧ (∀ kvs, FatnPK re name subs kvs) ∧ (∀ xs, FatnPL re name subs xs) := by
  refine fad_val_ind (fun c kvs h => fatn_desc_dict re name subs hn hs c kvs h)
    (fun c xs h => fatn_desc_list re name subs c xs h)
    (fun v hv hc => by rw [hv] at hc; cases hc) ?_ (fun k c kvs h1 h2 => fatn_desc_kcons re name subs k c kvs h1 h2) ?_
    (fun x xs h1 h2 => fatn_desc_lcons re name subs x xs h1 h2)
  · intro _ _ _
    exact ⟨0, fun fuel _ q ps acc _ _ _ => by simp [keysLoop, descK, fadMapR, tailN_nil]⟩
  · intro _ _ _
    exact ⟨0, fun fuel _ q ps node i cur acc _ _ _ _ _ => by simp [starLoop, descL, fadMapR, tailN_nil]⟩

end tail

/-! ## the tokens of `'//*/name/s1/…/sk'` -/

/-- `'/'.join(k :: r)` -/
def joinSl : Str → List Str → Str
  | k, [] => k
  | k, s :: r => k ++ '/' :: joinSl s r

theorem joinSl_head {k : Str} (hk : PlainKey k) (r : List Str) : ∃ d t, joinSl k r = d :: t ∧ d ≠ '/' := by
  obtain ⟨c, u, rfl, hc1, _⟩ := PlainKey.head_ne hk
  cases r with
  | nil => exact ⟨c, u, rfl, hc1⟩
  | cons s r => exact ⟨c, u ++ '/' :: joinSl s r, rfl, hc1⟩

theorem joinSl_noLB : ∀ (r : List Str) (k : Str), PlainKey k → (∀ s ∈ r, PlainKey s) → ∀ x ∈ joinSl k r, x ≠ '['
  | [], k, hk, _, x, hx => PlainKey.noLB hk x hx
  | s :: r, k, hk, hr, x, hx => by
    simp only [joinSl, List.mem_append, List.mem_cons] at hx
    rcases hx with hx | rfl | hx
    · exact PlainKey.noLB hk x hx
    · decide
    · exact joinSl_noLB r s (hr s (by simp)) (fun y hy => hr y (by simp [hy])) x hx

theorem joinSl_replSS : ∀ (r : List Str) (k : Str), PlainKey k → (∀ s ∈ r, PlainKey s) → replSS (joinSl k r) = joinSl k r
  | [], k, hk, _ => by
    have h4 := replSS_append_noSlash k [] hk.noSlash
    simpa only [List.append_nil, replSS, joinSl] using h4
  | s :: r, k, hk, hr => by
    have hs := hr s (by simp)
    obtain ⟨d, t, hdt, hd⟩ := joinSl_head hs r
    have ih := joinSl_replSS r s hs (fun y hy => hr y (by simp [hy]))
    simp only [joinSl]
    rw [replSS_append_noSlash k _ hk.noSlash, hdt, replSS_slash_ne d t hd, ← hdt, ih]

theorem joinSl_split : ∀ (r : List Str) (k : Str), PlainKey k → (∀ s ∈ r, PlainKey s) → splitChar '/' (joinSl k r) = k :: r
  | [], k, hk, _ => splitChar_no_delim '/' k hk.noSlash
  | s :: r, k, hk, hr => by
    simp only [joinSl]
    rw [splitChar_append '/' k _ hk.noSlash, joinSl_split r s (hr s (by simp)) (fun y hy => hr y (by simp [hy]))]

theorem fatn_tokens {name : Str} {subs : List Str} (hn : PlainKey name) (hs : ∀ s ∈ subs, PlainKey s) :
    tokens (['/', '/', '*', '/'] ++ joinSl name subs) = fatnT name subs := by
  have hnorm : normExpr (['/', '/', '*', '/'] ++ joinSl name subs) = '*' :: '/' :: joinSl name subs := by
    simp [normExpr, startsWith]
  have hins : insLB ('*' :: '/' :: joinSl name subs) = '*' :: '/' :: joinSl name subs :=
    insLB_id _ (by
      intro x hx
      simp only [List.mem_cons] at hx
      rcases hx with rfl | rfl | hx
      · decide
      · decide
      · exact joinSl_noLB subs name hn hs x hx)
  obtain ⟨d, t, hdt, hd⟩ := joinSl_head hn subs
  have hrep : replSS ('*' :: '/' :: joinSl name subs) = '*' :: '/' :: joinSl name subs := by
    rw [replSS_cons_ne '*' _ (by decide), hdt, replSS_slash_ne d t hd, ← hdt, joinSl_replSS subs name hn hs]
  have hsplit : splitChar '/' ('*' :: '/' :: joinSl name subs) = ['*'] :: name :: subs := by
    have e1 := splitChar_append '/' ['*'] (joinSl name subs) (by intro x hx; simp at hx; subst hx; decide)
    simp only [List.cons_append, List.nil_append] at e1
    rw [e1, joinSl_split subs name hn hs]
  unfold tokens
  rw [hnorm, hins, hrep, hsplit]
  have hne : ∀ s ∈ name :: subs, (!s.isEmpty) = true := by
    intro s hs'
    have hp : PlainKey s := by
      rcases List.mem_cons.1 hs' with rfl | h
      · exact hn
      · exact hs s h
    cases s with
    | nil => exact absurd rfl hp.ne
    | cons _ _ => rfl
  show List.filter _ (['*'] :: name :: subs) = _
  rw [List.filter_cons_of_pos (by rfl), List.filter_eq_self.2 hne]
  rfl

/-! ## top level -/

theorem fatn_tail_distinct : ∀ (subs : List Str) (l : List (Pos × Val)), FadDistinct l → FadDistinct (tailN subs l)
  | [], _, h => h
  | s :: r, l, h => fatn_tail_distinct r _ (fat_tail_distinct s l h)

theorem fatn_tail_plain : ∀ (subs : List Str), (∀ s ∈ subs, PlainKey s) → ∀ (l : List (Pos × Val)),
    (∀ pv ∈ l, PlainPos pv.1) → ∀ pv ∈ tailN subs l, PlainPos pv.1
  | [], _, _, h => h
  | s :: r, hs, l, h => fatn_tail_plain r (fun x hx => hs x (by simp [hx])) _
      (fat_tail_plain (hs s (by simp)) l h)

/-- **`'//*/name/s1/…/sk'` on a dict root** (token level): exactly `tailN subs (descV name root)`,
canonical xpaths, document order -/
theorem fatn_descendant (re : Bool) {name : Str} {subs : List Str} (hn : PlainKey name) (hs : ∀ s ∈ subs, PlainKey s)
    (c : Cls) (kvs : List (Str × Val)) (hko : KeysOkV (.dict c kvs)) (hco : ContOkV (.dict c kvs))
    (hnl : NnlsV (name :: subs).dropLast (.dict c kvs)) :
    ∃ N, ∀ fuel ≥ N, (fa re fuel (.dict c kvs) (fatnT name subs) [] []).res =
      .ok (some ((tailN subs (descV name (.dict c kvs))).map (fun pv => (slash ++ renderPos pv.1, pv.2)))) := by
  obtain ⟨N, hN⟩ := (fatn_desc_all re name subs hn hs).1 (.dict c kvs) rfl hko hco hnl
  refine ⟨N, fun fuel hf => ?_⟩
  have := hN fuel hf [] [] trivial trivial (fun h => by obtain ⟨_, _, h⟩ := h; cases h)
    (fad_keys_nodup _ (fatn_tail_distinct subs _ ((fad_desc_distinct name).1 _ hko).1)
      (fatn_tail_plain subs hs _ (fad_desc_plain hko)))
  simpa [fadMapR, flPath] using this

/-! ## list roots (`n0list`) -/

section tailr
variable (re : Bool) (name : Str) (subs : List Str)

def FatnrPV (v : Val) : Prop :=
  isContainer v = true → KeysOkV v → ContOkV v → NnlsV (name :: subs).dropLast v → ∃ N, ∀ fuel ≥ N, ∀ (q : Pos) (ps : PS),
    FalRooted q → q ≠ [] → PlainPos q →
    ((falMapR q (tailN subs (descV name v))).map Prod.fst).Nodup →
    (fa re fuel v (fatnT name subs) (flPath [] q) ps).res = .ok (some (falMapR q (tailN subs (descV name v))))

def FatnrPK (kvs : List (Str × Val)) : Prop :=
  KeysOkK kvs → ContOkK kvs → NnlsK (name :: subs).dropLast kvs → ∃ N, ∀ fuel ≥ N, ∀ (q : Pos) (ps : PS) (acc : Found),
    FalRooted q → q ≠ [] → PlainPos q →
    ((acc ++ falMapR q (tailN subs (descK name kvs))).map Prod.fst).Nodup →
    keysLoop (fun k c => fa re fuel c (fatnT name subs) (flPath [] q ++ [k]) ps) kvs acc =
      .ok (some (acc ++ falMapR q (tailN subs (descK name kvs))))

def FatnrPL (xs : List Val) : Prop :=
  KeysOkL xs → ContOkL xs → NnlsL (name :: subs).dropLast xs → ∃ N, ∀ fuel ≥ N, ∀ (q : Pos) (ps : PS) (node : Val) (i : Nat) (cur : FL) (acc : Found),
    FalRooted q → PlainPos q → cur.dropLast = (flPath [] q).dropLast →
    ((acc ++ falMapR q (tailN subs (descL name i xs))).map Prod.fst).Nodup →
    (starLoop (fun x cur1 => fa re fuel x (fatnT name subs) cur1 (push ps cur1 node)) re
      ((flPath [] q).getLast?.getD []) i xs cur acc).1 = .ok (some (acc ++ falMapR q (tailN subs (descL name i xs))))

theorem fatnr_desc_dict (hn : PlainKey name) (hs : ∀ s ∈ subs, PlainKey s) (c : Cls) (kvs : List (Str × Val))
    (hk : FatnrPK re name subs kvs) : FatnrPV re name subs (.dict c kvs) := by
  intro _ hko hco hnl
  have hnl0 := hnl
  simp only [KeysOkV, ContOkV, NnlsV] at hko hco hnl
  obtain ⟨N, hN⟩ := hk hko hco hnl.2
  refine ⟨N + subs.length + 3, fun fuel hf q ps hr hq hp hnd => ?_⟩
  obtain ⟨f, rfl⟩ : ∃ f, fuel = (N + f) + subs.length + 2 + 1 := ⟨fuel - (N + subs.length + 3), by omega⟩
  have h1 := fatn_self_check re subs name hn hs (N + f) c kvs (flPath [] q) ps hnl0
  have h2 := fad_star_dict re _ c kvs (name :: subs) (flPath [] q) ps _ h1
  show (fa re ((N + f) + subs.length + 2 + 1) (.dict c kvs) (['*'] :: name :: subs) (flPath [] q) ps).res = _
  rw [h2]
  simp only
  simp only [descV, tailN_append, falMapR_append] at hnd ⊢
  have hacc : upd [] (fatnSelf (name :: subs) (flPath [] q) (.dict c kvs)) =
      falMapR q (tailN subs (match lookup name kvs with
        | some c => [([Seg.key name], c)]
        | Option.none => [])) := by
    simp only [fatnSelf, walkN]
    cases lookup name kvs with
    | none => simp [tailN_nil, falMapR, upd]
    | some c' =>
      simp only [tailN_single]
      cases walkN subs c' with
      | none => rfl
      | some x =>
        have hpn : PlainPos (q ++ (name :: subs).map Seg.key) :=
          fad_plainPos_append hp (fatn_plainPos_keys _ (fun s hs' => by
            rcases List.mem_cons.1 hs' with rfl | h
            · exact hn
            · exact hs s h))
        have hkey : keyOf (flPath [] q ++ name :: subs) = '/' :: '/' :: renderPos (q ++ (name :: subs).map Seg.key) := by
          rw [fatn_flPath_keys]
          refine fal_keyOf_rooted ?_ (by simp) hpn
          cases q with
          | nil => exact absurd rfl hq
          | cons a r => cases a with
            | key k => exact hr.elim
            | idx n => trivial
        simp only [falMapR, List.map_cons, List.map_nil, upd, List.foldl_cons, List.foldl_nil, kvSet,
          List.cons_append, List.nil_append, hkey]
  rw [hacc]
  exact hN _ (by omega) q _ _ hr hq hp hnd

theorem fatnr_desc_list (c : Cls) (xs : List Val) (hl : FatnrPL re name subs xs) : FatnrPV re name subs (.list c xs) := by
  intro _ hko hco hnl
  simp only [KeysOkV, ContOkV, NnlsV] at hko hco hnl
  obtain ⟨N, hN⟩ := hl hko hco hnl
  refine ⟨N + 2, fun fuel hf q ps hr hq hp hnd => ?_⟩
  obtain ⟨f, rfl⟩ : ∃ f, fuel = f + 2 := ⟨fuel - 2, by omega⟩
  show (fa re (f + 2) (.list c xs) (['*'] :: name :: subs) (flPath [] q) ps).res = _
  rw [fad_star_list re f c xs (name :: subs) (flPath [] q) ps (fal_flPath_ne hr hq)]
  simp only [descV] at hnd ⊢
  have := hN f (by omega) q ps (.list c xs) 0 (flPath [] q) [] hr hp rfl (by simpa using hnd)
  simpa [fatnT] using this

theorem fatnr_desc_kcons (k : Str) (c : Val) (kvs : List (Str × Val)) (hv : FatnrPV re name subs c)
    (hk : FatnrPK re name subs kvs) : FatnrPK re name subs ((k, c) :: kvs) := by
  intro hko hco hnl
  simp only [KeysOkK, ContOkK, NnlsK] at hko hco hnl
  obtain ⟨hpk, _, hkc, hkk⟩ := hko
  obtain ⟨N2, hN2⟩ := hk hkk hco.2 hnl.2
  by_cases hc : isContainer c = true
  · obtain ⟨N1, hN1⟩ := hv hc hkc hco.1 hnl.1
    refine ⟨max N1 N2, fun fuel hf q ps acc hr hq hp hnd => ?_⟩
    have hf1 : fuel ≥ N1 := by omega
    have hf2 : fuel ≥ N2 := by omega
    simp only [descK, tailN_append, tailN_map_cons, falMapR_append] at hnd ⊢
    rw [← falMapR_snoc] at hnd ⊢
    obtain ⟨hd1, hd2, hd3⟩ := fad_nodup_split hnd
    have hcall := hN1 fuel hf1 (q ++ [Seg.key k]) ps (fal_rooted_snoc hr _ (fun h => absurd h hq)) (by simp)
      (fad_plainPos_append hp ⟨hpk, trivial⟩) hd1
    rw [fad_flPath_snoc_key] at hcall
    simp only [keysLoop, hc, if_true, hcall]
    rw [fad_upd_append _ _ hd2, hN2 fuel hf2 q ps _ hr hq hp hd3, List.append_assoc]
  · have hc' : isContainer c = false := by simpa using hc
    refine ⟨N2, fun fuel hf q ps acc hr hq hp hnd => ?_⟩
    simp only [descK, fad_descV_scalar name c hc', List.map_nil, List.nil_append] at hnd ⊢
    simp only [keysLoop, hc', Bool.false_eq_true, if_false]
    exact hN2 fuel hf q ps acc hr hq hp hnd

theorem fatnr_desc_lcons (x : Val) (xs : List Val) (hv : FatnrPV re name subs x) (hl : FatnrPL re name subs xs) :
    FatnrPL re name subs (x :: xs) := by
  intro hko hco hnl
  simp only [KeysOkL, ContOkL, NnlsL] at hko hco hnl
  obtain ⟨hcx, hcv, hcl⟩ := hco
  obtain ⟨N1, hN1⟩ := hv hcx hko.1 hcv hnl.1
  obtain ⟨N2, hN2⟩ := hl hko.2 hcl hnl.2
  refine ⟨max N1 N2, fun fuel hf q ps node i cur acc hr hp hcur hnd => ?_⟩
  have hf1 : fuel ≥ N1 := by omega
  have hf2 : fuel ≥ N2 := by omega
  simp only [descL, tailN_append, tailN_map_cons, falMapR_append] at hnd ⊢
  rw [← falMapR_snoc] at hnd ⊢
  obtain ⟨hd1, hd2, hd3⟩ := fad_nodup_split hnd
  have hcur1 : setLast cur ((flPath [] q).getLast?.getD [] ++ bracket (natRepr i)) = flPath [] (q ++ [Seg.idx i]) := by
    rw [fad_flPath_snoc_idx, fal_bump_eq]
    simp only [setLast, hcur]
  have hcall := hN1 fuel hf1 (q ++ [Seg.idx i]) (push ps (flPath [] (q ++ [Seg.idx i])) node)
    (fal_rooted_snoc hr _ (fun _ => ⟨i, rfl⟩)) (by simp)
    (fad_plainPos_append hp (by trivial)) hd1
  simp only [starLoop, hcx, if_true, hcur1, hcall]
  rw [fad_upd_append _ _ hd2]
  have hdl : (fa re fuel x (fatnT name subs) (flPath [] (q ++ [Seg.idx i])) (push ps (flPath [] (q ++ [Seg.idx i])) node)).fl.dropLast
      = (flPath [] q).dropLast := by
    rw [fa_dl, ← hcur1, setLast_dropLast, hcur]
  rw [hN2 fuel hf2 q ps node (i + 1) _ _ hr hp hdl hd3, List.append_assoc]

theorem fatnr_desc_all (hn : PlainKey name) (hs : ∀ s ∈ subs, PlainKey s) :
    (∀ v, FatnrPV re name subs v) ∧ (∀ kvs, FatnrPK re name subs kvs) ∧ (∀ xs, FatnrPL re name subs xs) := by
  refine fad_val_ind (fun c kvs h => fatnr_desc_dict re name subs hn hs c kvs h)
    (fun c xs h => fatnr_desc_list re name subs c xs h)
    (fun v hv hc => by rw [hv] at hc; cases hc) ?_ (fun k c kvs h1 h2 => fatnr_desc_kcons re name subs k c kvs h1 h2) ?_
    (fun x xs h1 h2 => fatnr_desc_lcons re name subs x xs h1 h2)
  · intro _ _ _
    exact ⟨0, fun fuel _ q ps acc _ _ _ _ => by simp [keysLoop, descK, falMapR, tailN_nil]⟩
  · intro _ _ _
    exact ⟨0, fun fuel _ q ps node i cur acc _ _ _ _ => by simp [starLoop, descL, falMapR, tailN_nil]⟩

end tailr

/-- **`'//*/name/s1/…/sk'` on a list root** (token level): exactly `tailN subs (descV name root)`,
keys `"//" ++` rendered position, document order -/
theorem fatn_descendant_list (re : Bool) {name : Str} {subs : List Str} (hn : PlainKey name) (hs : ∀ s ∈ subs, PlainKey s)
    (c : Cls) (xs : List Val) (hko : KeysOkV (.list c xs)) (hco : ContOkV (.list c xs))
    (hnl : NnlsV (name :: subs).dropLast (.list c xs)) :
    ∃ N, ∀ fuel ≥ N, (fa re fuel (.list c xs) (fatnT name subs) [] []).res =
      .ok (some ((tailN subs (descV name (.list c xs))).map (fun pv => ('/' :: '/' :: renderPos pv.1, pv.2)))) := by
  have hko' : KeysOkL xs := by simpa only [KeysOkV] using hko
  have hco' : ContOkL xs := by simpa only [ContOkV] using hco
  have hnl' : NnlsL (name :: subs).dropLast xs := by simpa only [NnlsV] using hnl
  obtain ⟨N, hN⟩ := (fatnr_desc_all re name subs hn hs).2.2 xs hko' hco' hnl'
  refine ⟨N + 2, fun fuel hf => ?_⟩
  obtain ⟨f, rfl⟩ : ∃ f, fuel = f + 2 := ⟨fuel - 2, by omega⟩
  have hnd := fal_keys_nodup _ (fatn_tail_distinct subs _ ((fad_desc_distinct name).1 _ hko).1)
      (fatn_tail_plain subs hs _ (fad_desc_plain hko))
  simp only [descV] at hnd ⊢
  have := hN f (by omega) [] [] (.list c xs) 0 [[]] [] trivial trivial rfl (by simpa using hnd)
  show (fa re (f + 2) (.list c xs) (['*'] :: name :: subs) [] []).res = _
  rw [fal_star_root]
  simpa [fatnT, falMapR, flPath] using this

/-! ## the reference in terms of positions (`getAt`) -/

theorem walkN_eq_getAt : ∀ (ks : List Str) (v : Val), walkN ks v = getAt v (ks.map Seg.key)
  | [], v => rfl
  | k :: r, v => by
    cases v <;> simp only [walkN, List.map_cons, getAt, child, Option.bind]
    next c kvs =>
      cases lookup k kvs with
      | none => rfl
      | some x => exact walkN_eq_getAt r x

theorem tailN_mem (subs : List Str) (p : Pos) (v : Val) : ∀ (l : List (Pos × Val)),
    (p, v) ∈ tailN subs l ↔ ∃ b ∈ l, p = b.1 ++ subs.map Seg.key ∧ getAt b.2 (subs.map Seg.key) = some v := by
  intro l
  induction l with
  | nil => simp [tailN_nil]
  | cons a r ih =>
    have e : a :: r = [a] ++ r := rfl
    rw [e, tailN_append, List.mem_append, ih]
    obtain ⟨pa, va⟩ := a
    rw [tailN_single, walkN_eq_getAt]
    constructor
    · rintro (h | ⟨b, hb, h⟩)
      · refine ⟨(pa, va), by simp, ?_⟩
        cases hg : getAt va (subs.map Seg.key) with
        | none => rw [hg] at h; cases h
        | some x =>
          rw [hg] at h
          simp only [List.mem_singleton, Prod.mk.injEq] at h
          exact ⟨h.1, by rw [h.2]⟩
      · exact ⟨b, by simp [hb], h⟩
    · rintro ⟨b, hb, h1, h2⟩
      rcases List.mem_append.1 hb with hb | hb
      · left
        simp only [List.mem_singleton] at hb
        subst hb
        simp only at h1 h2
        rw [h2, h1]
        simp
      · exact Or.inr ⟨b, hb, h1, h2⟩

/-- `tailN subs (descV name t)` lists `(p, v)` iff `p` ends with the keys `name, s1, …, sk` and `v` is the node at `p` -/
theorem fatn_tail_mem_getAt (name : Str) (subs : List Str) (t : Val) (hk : KeysOkV t) (p : Pos) (v : Val) :
    (p, v) ∈ tailN subs (descV name t) ↔
      ∃ q, p = q ++ (name :: subs).map Seg.key ∧ getAt t p = some v := by
  rw [tailN_mem]
  constructor
  · rintro ⟨b, hb, rfl, hg⟩
    obtain ⟨⟨q, hq⟩, hgb⟩ := ((fad_desc_mem name).1 t hk b.1 b.2).1 hb
    refine ⟨q, by rw [hq]; simp, ?_⟩
    rw [getAt_append, hgb]
    exact hg
  · rintro ⟨q, rfl, hg⟩
    have e : q ++ (name :: subs).map Seg.key = (q ++ [Seg.key name]) ++ subs.map Seg.key := by simp
    rw [e, getAt_append] at hg
    cases hw : getAt t (q ++ [Seg.key name]) with
    | none => rw [hw] at hg; cases hg
    | some w =>
      rw [hw] at hg
      exact ⟨(q ++ [Seg.key name], w), ((fad_desc_mem name).1 t hk _ _).2 ⟨⟨q, rfl⟩, hw⟩, e, hg⟩

end N0.FindAll
