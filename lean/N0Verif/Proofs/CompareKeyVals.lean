import N0Verif.Proofs.ComparePerm
import N0Verif.Proofs.CompareTransformKeyed
/-!
The composite key after fixes C08-b / C10-c.

* C08: "composite key unique within each list" stated on the VALUES of the key fields (`UniqueVals`: the items of a
  list have pairwise different identities `itemId` — the list of `(field, value)` pairs of a record, the value of any
  other item) instead of on the key texts.  The bridge to the texts is the one hypothesis `KeyInjIn` (the key text —
  the JSON text of the key fields — tells apart the items of one list that differ in their key-field values), which is
  true of `json.dumps` on Python values and is carried, as `KeyFaithfulOn` is for C07, because floats are opaque
  lexemes in the model.  `ckv_type_sep`: proved part of it — two records whose single key field holds leaves of
  different type (`7` / `'7'`, `None` / `'None'`, `True` / `'True'`) never share a key, whatever the values.
* C10: the keys built by the run with `transform` are the keys of the mapped list in the run without
  (`ckv_keysOf_mapped`), for every composite key and every pattern (also patterns naming an index): the key of a field
  is looked up with the path the leaf comparison uses.
-/
namespace N0.Compare
open N0

/-! ### C08: uniqueness on values -/

/-- what identifies a list item: the key fields (name, value) of a record, the value of any other item -/
inductive ItemId
  | record (fields : List (Str × Val))
  | value (v : Val)
  deriving DecidableEq

def itemId (cfg : Cfg) : Val → ItemId
  | .dict _ kvs => .record (recFields kvs cfg.ck.pats [])
  | v => .value v

mutual
/-- every list inside the value has items with pairwise different identities (key-field VALUES), items are not
themselves lists and the key fields of records are scalars -/
def UniqueVals (cfg : Cfg) : Val → Prop
  | .list _ xs => (xs.map (itemId cfg)).Nodup ∧ UniqueValsL cfg xs
  | .dict _ kvs => UniqueValsK cfg kvs
  | _ => True
def UniqueValsL (cfg : Cfg) : List Val → Prop
  | [] => True
  | x :: xs => (itemOk cfg x ∧ UniqueVals cfg x) ∧ UniqueValsL cfg xs
def UniqueValsK (cfg : Cfg) : List (Str × Val) → Prop
  | [] => True
  | (_, v) :: kvs => UniqueVals cfg v ∧ UniqueValsK cfg kvs
end

mutual
/-- within every list of the value, two items with the same key text have the same identity -/
def KeyInjIn (cfg : Cfg) : Val → Prop
  | .list _ xs => (∀ x ∈ xs, ∀ y ∈ xs, keyP cfg x = keyP cfg y → itemId cfg x = itemId cfg y) ∧ KeyInjInL cfg xs
  | .dict _ kvs => KeyInjInK cfg kvs
  | _ => True
def KeyInjInL (cfg : Cfg) : List Val → Prop
  | [] => True
  | x :: xs => KeyInjIn cfg x ∧ KeyInjInL cfg xs
def KeyInjInK (cfg : Cfg) : List (Str × Val) → Prop
  | [] => True
  | (_, v) :: kvs => KeyInjIn cfg v ∧ KeyInjInK cfg kvs
end

theorem ckv_nodup_map {α β γ : Type} (f : α → β) (g : α → γ) : ∀ (xs : List α),
    (∀ x ∈ xs, ∀ y ∈ xs, g x = g y → f x = f y) → (xs.map f).Nodup → (xs.map g).Nodup
  | [], _, _ => by simp
  | x :: xs, h, hn => by
    simp only [List.map_cons, List.nodup_cons] at hn ⊢
    refine ⟨?_, ckv_nodup_map f g xs (fun a ha b hb => h a (List.mem_cons_of_mem _ ha) b (List.mem_cons_of_mem _ hb)) hn.2⟩
    intro hm
    obtain ⟨y, hy, hg⟩ := List.mem_map.1 hm
    have := h x List.mem_cons_self y (List.mem_cons_of_mem _ hy) hg.symm
    exact hn.1 (this ▸ List.mem_map_of_mem hy)

mutual
/-- uniqueness of the key-field VALUES gives uniqueness of the key TEXTS wherever the text is injective -/
theorem ckv_uniqueKeys (cfg : Cfg) : ∀ v : Val, UniqueVals cfg v → KeyInjIn cfg v → UniqueKeys cfg v
  | .list _ xs, hu, hi => by
    simp only [UniqueVals] at hu
    simp only [KeyInjIn] at hi
    simp only [UniqueKeys]
    exact ⟨ckv_nodup_map (itemId cfg) (keyP cfg) xs hi.1 hu.1, ckv_uniqueKeysL cfg xs hu.2 hi.2⟩
  | .dict _ kvs, hu, hi => by
    simp only [UniqueVals] at hu
    simp only [KeyInjIn] at hi
    simp only [UniqueKeys]
    exact ckv_uniqueKeysK cfg kvs hu hi
  | .none, _, _ => by simp [UniqueKeys]
  | .bool _, _, _ => by simp [UniqueKeys]
  | .int _, _, _ => by simp [UniqueKeys]
  | .flt _, _, _ => by simp [UniqueKeys]
  | .str _, _, _ => by simp [UniqueKeys]
theorem ckv_uniqueKeysL (cfg : Cfg) : ∀ xs : List Val, UniqueValsL cfg xs → KeyInjInL cfg xs → UniqueKeysL cfg xs
  | [], _, _ => by simp [UniqueKeysL]
  | x :: xs, hu, hi => by
    simp only [UniqueValsL] at hu
    simp only [KeyInjInL] at hi
    simp only [UniqueKeysL]
    exact ⟨⟨hu.1.1, ckv_uniqueKeys cfg x hu.1.2 hi.1⟩, ckv_uniqueKeysL cfg xs hu.2 hi.2⟩
theorem ckv_uniqueKeysK (cfg : Cfg) : ∀ kvs : List (Str × Val), UniqueValsK cfg kvs → KeyInjInK cfg kvs → UniqueKeysK cfg kvs
  | [], _, _ => by simp [UniqueKeysK]
  | (_, v) :: kvs, hu, hi => by
    simp only [UniqueValsK] at hu
    simp only [KeyInjInK] at hi
    simp only [UniqueKeysK]
    exact ⟨ckv_uniqueKeys cfg v hu.1 hi.1, ckv_uniqueKeysK cfg kvs hu.2 hi.2⟩
end

/-- permutation invariance with uniqueness stated on the values of the key fields -/
theorem ckv_perm_invariant (cfg : Cfg) (h : NoPathOpts cfg) (hd : cfg.direct = false) {a a' b b' : Val}
    (ha : PermTree a a') (hb : PermTree b b') (hua : UniqueVals cfg a) (hub : UniqueVals cfg b)
    (hia : KeyInjIn cfg a) (hib : KeyInjIn cfg b) :
    verdict (compareTop cfg a b) = verdict (compareTop cfg a' b') :=
  perm_invariant cfg h hd ha hb (ckv_uniqueKeys cfg a hua hia) (ckv_uniqueKeys cfg b hub hib)

/-! ### the proved part of the injectivity: values of different type never share a key -/

/-- the first character of the JSON text of a leaf that is not a float tells its type -/
def headClass : Val → Nat
  | .none => 0 | .bool _ => 1 | .int _ => 2 | .str _ => 3 | _ => 4

theorem ckv_natDigitsAux_head : ∀ (f n : Nat) (acc : List Char),
    ∃ d rest, natDigitsAux (f + 1) n acc = Char.ofNat (48 + d) :: rest ∧ d < 10
  | 0, n, acc => by
    simp only [natDigitsAux]
    split
    · exact ⟨n % 10, acc, rfl, Nat.mod_lt _ (by decide)⟩
    · exact ⟨n % 10, acc, rfl, Nat.mod_lt _ (by decide)⟩
  | f + 1, n, acc => by
    rw [natDigitsAux]
    split
    · exact ⟨n % 10, acc, rfl, Nat.mod_lt _ (by decide)⟩
    · exact ckv_natDigitsAux_head f (n / 10) _

theorem ckv_digit_cases (d : Nat) (h : d < 10) (c : Char) (hc : c = Char.ofNat (48 + d)) :
    c ≠ 'n' ∧ c ≠ 't' ∧ c ≠ 'f' ∧ c ≠ '"' ∧ c ≠ '-' := by
  subst hc
  have : d = 0 ∨ d = 1 ∨ d = 2 ∨ d = 3 ∨ d = 4 ∨ d = 5 ∨ d = 6 ∨ d = 7 ∨ d = 8 ∨ d = 9 := by omega
  rcases this with h | h | h | h | h | h | h | h | h | h <;> subst h <;> decide

/-- the head of the JSON text of a non-float leaf: `n`, `t`/`f`, a digit or `-`, `"` -/
theorem ckv_json_head (v : Val) (hv : headClass v < 4) :
    ∃ c rest, jsonVal v = c :: rest ∧
      ((headClass v = 0 ∧ c = 'n') ∨ (headClass v = 1 ∧ (c = 't' ∨ c = 'f')) ∨
       (headClass v = 2 ∧ c ≠ 'n' ∧ c ≠ 't' ∧ c ≠ 'f' ∧ c ≠ '"') ∨ (headClass v = 3 ∧ c = '"')) := by
  cases v with
  | none => exact ⟨'n', _, rfl, .inl ⟨rfl, rfl⟩⟩
  | bool b => cases b
              · exact ⟨'f', _, rfl, .inr (.inl ⟨rfl, .inr rfl⟩)⟩
              · exact ⟨'t', _, rfl, .inr (.inl ⟨rfl, .inl rfl⟩)⟩
  | int i =>
    cases i with
    | ofNat n =>
      obtain ⟨d, rest, hr, hd⟩ := ckv_natDigitsAux_head n n []
      have hc := ckv_digit_cases d hd _ rfl
      exact ⟨_, rest, by simp only [jsonVal, intStr, natStr]; exact hr, .inr (.inr (.inl ⟨rfl, hc.1, hc.2.1, hc.2.2.1, hc.2.2.2.1⟩))⟩
    | negSucc n =>
      exact ⟨'-', _, rfl, .inr (.inr (.inl ⟨rfl, by decide, by decide, by decide, by decide⟩))⟩
  | str s => exact ⟨'"', _, rfl, .inr (.inr (.inr ⟨rfl, rfl⟩))⟩
  | flt r => exact absurd (show (4 : Nat) < 4 from hv) (by decide)
  | list c xs => exact absurd (show (4 : Nat) < 4 from hv) (by decide)
  | dict c kvs => exact absurd (show (4 : Nat) < 4 from hv) (by decide)

/-- leaves of different type (floats aside) have different JSON texts -/
theorem ckv_json_type_sep (v w : Val) (hv : headClass v < 4) (hw : headClass w < 4) (hne : headClass v ≠ headClass w) :
    jsonVal v ≠ jsonVal w := by
  intro he
  obtain ⟨c, r, h1, hc⟩ := ckv_json_head v hv
  obtain ⟨c', r', h2, hc'⟩ := ckv_json_head w hw
  rw [h1, h2] at he
  have hcc : c = c' := (List.cons.inj he).1
  subst hcc
  rcases hc with ⟨a, rfl⟩ | ⟨a, rfl | rfl⟩ | ⟨a, b1, b2, b3, b4⟩ | ⟨a, rfl⟩ <;>
    rcases hc' with ⟨a', e⟩ | ⟨a', e | e⟩ | ⟨a', e1, e2, e3, e4⟩ | ⟨a', e⟩ <;>
    first
      | (exact hne (a.trans a'.symm))
      | (exact absurd e (by decide))
      | (exact absurd rfl e1) | (exact absurd rfl e2) | (exact absurd rfl e3) | (exact absurd rfl e4)
      | (exact absurd e.symm b1) | (exact absurd e.symm b2) | (exact absurd e.symm b3) | (exact absurd e.symm b4)
      | (exact absurd e b1) | (exact absurd e b2) | (exact absurd e b3) | (exact absurd e b4)

/-- **type separation of the record key** (the core of fix C08-b): two records keyed by one field `f` whose values are
non-float leaves of different type never have the same key text — `{'id': 7}` / `{'id': '7'}`, `None` / `'None'`,
`True` / `'True'`, `1` / `True`, for ALL values -/
theorem ckv_type_sep (cfg : Cfg) (f : Str) (hck : cfg.ck.pats = [f]) (c c' : Cls) (kvs kvs' : List (Str × Val)) (v w : Val)
    (hl : Val.lookup f kvs = some v) (hl' : Val.lookup f kvs' = some w)
    (hv : headClass v < 4) (hw : headClass w < 4) (hne : headClass v ≠ headClass w) :
    keyP cfg (.dict c kvs) ≠ keyP cfg (.dict c' kvs') := by
  intro he
  simp only [keyP, hck, recFields, hl, hl', setField, fieldsKey, jsonVal, jsonKvs, sortMembers, insertMember,
    List.map_cons, List.map_nil, joinItems, memberText] at he
  have h1 := (List.cons.inj he).2
  have h2 := List.append_cancel_left (by simpa [List.append_assoc] using h1 :
    (jsonStr f ++ [':', ' ']) ++ (jsonVal v ++ ['}']) = (jsonStr f ++ [':', ' ']) ++ (jsonVal w ++ ['}']))
  exact ckv_json_type_sep v w hv hw hne (List.append_cancel_right h2)

/-! ### C10: the keys of the run with `transform` are the keys of the mapped list -/

theorem ckv_lookup_mapTK (cfg : Cfg) (q : Path) (f : Str) : ∀ kvs : List (Str × Val),
    Val.lookup f (mapTK cfg q kvs) =
      (Val.lookup f kvs).map (fun v => mapTChild cfg (q ++ [.key f]) (transformAt cfg (q ++ [.key f])) v)
  | [] => by simp [mapTK, Val.lookup]
  | (k, v) :: rest => by
    rw [mapTK_cons]
    simp only [Val.lookup]
    by_cases hk : f = k
    · subst hk; simp
    · simp only [hk, ↓reduceIte]
      exact ckv_lookup_mapTK cfg q f rest

/-- the key fields of a record (all of them leaves) under `transform` are the key fields of the mapped record without -/
theorem ckv_recordFields_mapped (cfg : Cfg) (q : Path) (kvs : List (Str × Val)) :
    ∀ (fs : List Str) (acc : List (Str × Val)),
      (∀ f ∈ fs, ∀ v, Val.lookup f kvs = some v → isLeaf v = true) →
      recordFields cfg q kvs fs acc = recordFields (noTransf cfg) q (mapTK cfg q kvs) fs acc
  | [], acc, _ => by simp [recordFields]
  | f :: fs, acc, h => by
    have h' : ∀ g ∈ fs, ∀ v, Val.lookup g kvs = some v → isLeaf v = true :=
      fun g hg => h g (List.mem_cons_of_mem _ hg)
    simp only [recordFields, ckv_lookup_mapTK]
    cases hl : Val.lookup f kvs with
    | none => simp only [Option.map_none]; exact ckv_recordFields_mapped cfg q kvs fs acc h'
    | some v =>
      have hv := h f List.mem_cons_self v hl
      simp only [Option.map_some, mapTChild, hv, ↓reduceIte, transformAt_noTransf, id]
      exact ckv_recordFields_mapped cfg q kvs fs _ h'

/-- a list item the keying of which commutes with the mapping: a leaf, or a record whose key fields are leaves -/
def keyFieldsLeaf (cfg : Cfg) : Val → Prop
  | .dict _ kvs => ∀ f ∈ cfg.ck.pats, ∀ v, Val.lookup f kvs = some v → isLeaf v = true
  | .list _ _ => False
  | _ => True

theorem ckv_keyOf_leaf (cfg : Cfg) (p : Path) (i : Nat) {v : Val} (h : isLeaf v = true) :
    keyOf cfg p i v = .ok (jsonVal (transformAt cfg p v)) := by
  cases v <;> simp_all [keyOf, isLeaf]

theorem ckv_keyOf_leaf_mapped (cfg : Cfg) (hl : LeafTransform cfg) (p : Path) (i : Nat) {x : Val} (h : isLeaf x = true) :
    keyOf cfg p i x = keyOf (noTransf cfg) p i (mapTChild cfg (p ++ [.idx i]) (transformAt cfg p) x) := by
  have him := trk_leaf_image (tr_leafFn_transformAt hl p) h
  rw [ckv_keyOf_leaf cfg p i h]
  simp only [mapTChild, h, ↓reduceIte]
  rw [ckv_keyOf_leaf (noTransf cfg) p i him]
  rfl

mutual
/-- all items of all lists of a tree, at any depth (records included) -/
def allItems : Val → List Val
  | .list _ xs => xs ++ allItemsL xs
  | .dict _ kvs => allItemsK kvs
  | _ => []
def allItemsL : List Val → List Val
  | [] => []
  | x :: xs => allItems x ++ allItemsL xs
def allItemsK : List (Str × Val) → List Val
  | [] => []
  | (_, v) :: rest => allItems v ++ allItemsK rest
end

/-- **the keys agree** (fix C10-c), for EVERY composite key and every pattern, patterns naming an index included:
item by item, the key built by the run with `transform` is the key the same item has in the mapped list in the run
without `transform` — so both runs pair the same positions -/
theorem ckv_keysOf_mapped (cfg : Cfg) (hl : LeafTransform cfg) (p : Path) :
    ∀ (xs : List Val) (i : Nat), (∀ x ∈ xs, keyFieldsLeaf cfg x) →
      keysOf cfg p i xs = keysOf (noTransf cfg) p i (mapTL cfg p (transformAt cfg p) i xs)
  | [], _, _ => by simp [mapTL, keysOf]
  | x :: xs, i, h => by
    have ih := ckv_keysOf_mapped cfg hl p xs (i + 1) (fun z hz => h z (List.mem_cons_of_mem _ hz))
    have hx := h x List.mem_cons_self
    rw [mapTL_cons]
    have hk : keyOf cfg p i x = keyOf (noTransf cfg) p i (mapTChild cfg (p ++ [.idx i]) (transformAt cfg p) x) := by
      cases x with
      | dict c kvs =>
        simp only [keyFieldsLeaf] at hx
        simp only [mapTChild, isLeaf, Bool.false_eq_true, ↓reduceIte, mapT, keyOf]
        rw [ckv_recordFields_mapped cfg (p ++ [PSeg.idx i]) kvs cfg.ck.pats [] hx]
        rfl
      | list c ys => simp [keyFieldsLeaf] at hx
      | none => exact ckv_keyOf_leaf_mapped cfg hl p i rfl
      | bool b => exact ckv_keyOf_leaf_mapped cfg hl p i rfl
      | int n => exact ckv_keyOf_leaf_mapped cfg hl p i rfl
      | flt r => exact ckv_keyOf_leaf_mapped cfg hl p i rfl
      | str s => exact ckv_keyOf_leaf_mapped cfg hl p i rfl
    simp only [keysOf, hk, ih]

end N0.Compare
