import N0Verif.Proofs.XPathTok
/-!
  Rendering of positions as canonical xpaths (what `xpath()` enumerates) and its tokenisation.
-/
namespace N0.XPath
open N0 N0.Py N0.Val

def renderSeg : Seg → Str
  | .key k => '/' :: k
  | .idx n => bracket (natStr n)

/-- path text below the root prefix: `/a/b[0][1]/c` -/
def renderPos (p : Pos) : Str := p.flatMap renderSeg

/-- the tokens `_find` works on for a canonical path: a key followed by an index is one token -/
def mergedToks : Pos → List Str
  | [] => []
  | .key k :: .idx n :: rest => (k ++ bracket (natStr n)) :: mergedToks rest
  | .key k :: rest => k :: mergedToks rest
  | .idx n :: rest => bracket (natStr n) :: mergedToks rest

/-- every key on the position is a plain name -/
def PlainPos : Pos → Prop
  | [] => True
  | .key k :: rest => PlainKey k ∧ PlainPos rest
  | .idx _ :: rest => PlainPos rest

/-! ### fixBr on rendered paths -/

theorem fixBr_cons_ne (c : Char) (s : Str) (h : c ≠ ']') : fixBr (c :: s) = c :: fixBr s := by
  rw [fixBr]
  intro rest hc; exact absurd hc h

theorem fixBr_append_noRB (s t : Str) (h : ∀ c ∈ s, c ≠ ']') : fixBr (s ++ t) = s ++ fixBr t := by
  induction s with
  | nil => rfl
  | cons c s ih =>
    rw [List.cons_append, fixBr_cons_ne c _ (h c (by simp)), ih (fun x hx => h x (by simp [hx]))]
    rfl

theorem fixBr_rb_lb (t : Str) : fixBr (']' :: '[' :: t) = ']' :: '/' :: '[' :: fixBr t := by
  rw [fixBr]

theorem fixBr_rb_other (c : Char) (t : Str) (h : c ≠ '[') : fixBr (']' :: c :: t) = ']' :: fixBr (c :: t) := by
  rw [fixBr]
  intro rest _ hc; simp at hc; exact absurd hc.1 h

theorem fixBr_rb_nil : fixBr [']'] = [']'] := by
  rw [fixBr]
  · rfl
  · intro rest _ hc; simp at hc

/-- rendering with the separator `replace("][","]/[")` inserts -/
def renderF : Bool → Pos → Str
  | _, [] => []
  | _, .key k :: rest => '/' :: k ++ renderF false rest
  | false, .idx n :: rest => bracket (natStr n) ++ renderF true rest
  | true, .idx n :: rest => '/' :: bracket (natStr n) ++ renderF true rest

theorem PlainKey.noRB {k : Str} (h : PlainKey k) : ∀ c ∈ k, c ≠ ']' :=
  fun c hc => (plainChar_ne (h.chars c hc)).2.2.1

theorem PlainKey.noSlash {k : Str} (h : PlainKey k) : ∀ c ∈ k, c ≠ '/' :=
  fun c hc => (plainChar_ne (h.chars c hc)).1

theorem natStr_noRB (n : Nat) : ∀ c ∈ natStr n, c ≠ ']' :=
  fun c hc => (digit_ne (natDigits_all_digit n c hc)).2.2.2.2.2.2.1

theorem natStr_noSlash (n : Nat) : ∀ c ∈ natStr n, c ≠ '/' :=
  fun c hc => (digit_ne (natDigits_all_digit n c hc)).2.2.2.2.2.2.2.1

theorem fixBr_render (p : Pos) (hp : PlainPos p) :
    fixBr (renderPos p) = renderF false p ∧
    ∀ ds : Str, (∀ c ∈ ds, c ≠ ']') → fixBr (ds ++ ']' :: renderPos p) = ds ++ ']' :: renderF true p := by
  induction p with
  | nil =>
    refine ⟨rfl, fun ds hds => ?_⟩
    rw [fixBr_append_noRB ds _ hds]
    simp [renderPos, renderF, fixBr_rb_nil]
  | cons s r ih =>
    cases s with
    | key k =>
      obtain ⟨hk, hr⟩ := hp
      obtain ⟨ihA, _⟩ := ih hr
      have hA : fixBr (renderPos (.key k :: r)) = renderF false (.key k :: r) := by
        simp only [renderPos, List.flatMap_cons, renderSeg, List.cons_append, renderF]
        rw [fixBr_cons_ne '/' _ (by decide), fixBr_append_noRB k _ hk.noRB]
        rw [show List.flatMap renderSeg r = renderPos r from rfl, ihA]
      refine ⟨hA, fun ds hds => ?_⟩
      rw [fixBr_append_noRB ds _ hds]
      have : renderPos (.key k :: r) = '/' :: (k ++ renderPos r) := by simp [renderPos, renderSeg]
      rw [this, fixBr_rb_other '/' _ (by decide), ← this, hA]
      simp [renderF]
    | idx n =>
      obtain ⟨_, ihB⟩ := ih hp
      have hB := ihB (natStr n) (natStr_noRB n)
      have hform : renderPos (.idx n :: r) = '[' :: (natStr n ++ ']' :: renderPos r) := by
        simp [renderPos, renderSeg, bracket]
      refine ⟨?_, fun ds hds => ?_⟩
      · rw [hform, fixBr_cons_ne '[' _ (by decide), hB]
        simp [renderF, bracket]
      · rw [fixBr_append_noRB ds _ hds, hform, fixBr_rb_lb, hB]
        simp [renderF, bracket]

/-! ### splitting the fixed text at '/' -/

/-- pieces of `cur ++ renderF b p` when split at '/' -/
def pieces : Str → Bool → Pos → List Str
  | cur, _, [] => [cur]
  | cur, _, .key k :: rest => cur :: pieces k false rest
  | cur, false, .idx n :: rest => pieces (cur ++ bracket (natStr n)) true rest
  | cur, true, .idx n :: rest => cur :: pieces (bracket (natStr n)) true rest

theorem bracket_noSlash (n : Nat) : ∀ c ∈ bracket (natStr n), c ≠ '/' := by
  intro c hc
  simp only [bracket, List.mem_cons, List.mem_append, List.mem_singleton, List.not_mem_nil, or_false] at hc
  rcases hc with (hc | hc) | hc
  · subst hc; decide
  · exact natStr_noSlash n c hc
  · subst hc; decide

theorem splitChar_pieces (p : Pos) (hp : PlainPos p) :
    ∀ (cur : Str) (b : Bool), (∀ c ∈ cur, c ≠ '/') → splitChar '/' (cur ++ renderF b p) = pieces cur b p := by
  induction p with
  | nil => intro cur b hc; simp [renderF, pieces, splitChar_no_delim '/' cur hc]
  | cons s r ih =>
    intro cur b hc
    cases s with
    | key k =>
      obtain ⟨hk, hr⟩ := hp
      simp only [renderF, pieces, List.cons_append]
      rw [splitChar_append '/' cur _ hc, ih hr k false hk.noSlash]
    | idx n =>
      cases b with
      | false =>
        simp only [renderF, pieces]
        rw [← List.append_assoc]
        exact ih hp _ true (by
          intro c hc'; simp only [List.mem_append] at hc'
          rcases hc' with h | h
          · exact hc c h
          · exact bracket_noSlash n c h)
      | true =>
        simp only [renderF, pieces, List.cons_append]
        rw [splitChar_append '/' cur _ hc, ih hp _ true (bracket_noSlash n)]

/-- drop empty pieces, strip -/
def clean (xs : List Str) : List Str := (xs.filter (fun t => !t.isEmpty)).map stripWs

theorem clean_cons (x : Str) (xs : List Str) :
    clean (x :: xs) = (if x.isEmpty then [] else [stripWs x]) ++ clean xs := by
  unfold clean
  cases h : x.isEmpty <;> simp [List.filter, h]

theorem bracket_stripWs (n : Nat) : stripWs (bracket (natStr n)) = bracket (natStr n) := by
  apply stripWs_eq_self
  · intro c hc; simp [bracket] at hc; subst hc; decide
  · intro c hc
    have : bracket (natStr n) = ('[' :: natStr n) ++ [']'] := by simp [bracket]
    rw [this, List.getLast?_append] at hc
    simp at hc; subst hc; decide

theorem keyBracket_stripWs {k : Str} (hk : PlainKey k) (n : Nat) :
    stripWs (k ++ bracket (natStr n)) = k ++ bracket (natStr n) := by
  apply stripWs_eq_self
  · intro c hc
    cases k with
    | nil => exact absurd rfl hk.ne
    | cons x k =>
      simp at hc; subst hc
      exact (plainChar_ne (hk.chars _ (by simp))).2.2.2.2
  · intro c hc
    have : k ++ bracket (natStr n) = (k ++ '[' :: natStr n) ++ [']'] := by simp [bracket]
    rw [this, List.getLast?_append] at hc
    simp at hc; subst hc; decide

theorem bracket_ne_nil (s : Str) : bracket s ≠ [] := by simp [bracket]

/-- the two pending-token invariants (see the comment in DESIGN §8) -/
theorem clean_pieces (p : Pos) (hp : PlainPos p) :
    (∀ k, PlainKey k → clean (pieces k false p) = mergedToks (.key k :: p)) ∧
    (∀ cur, cur ≠ [] → stripWs cur = cur → clean (pieces cur true p) = cur :: mergedToks p) := by
  induction p with
  | nil =>
    constructor
    · intro k hk
      simp [pieces, clean_cons, clean, mergedToks, isEmpty_false_of_ne hk.ne, hk.stripWs]
    · intro cur hne hs
      simp [pieces, clean_cons, clean, mergedToks, isEmpty_false_of_ne hne, hs]
  | cons s r ih =>
    cases s with
    | key k' =>
      obtain ⟨hk', hr⟩ := hp
      obtain ⟨ih1, _⟩ := ih hr
      constructor
      · intro k hk
        simp only [pieces, clean_cons, isEmpty_false_of_ne hk.ne, Bool.false_eq_true, if_false, hk.stripWs]
        rw [ih1 k' hk']
        simp [mergedToks]
      · intro cur hne hs
        simp only [pieces, clean_cons, isEmpty_false_of_ne hne, Bool.false_eq_true, if_false, hs]
        rw [ih1 k' hk']
        rfl
    | idx n =>
      obtain ⟨_, ih2⟩ := ih hp
      constructor
      · intro k hk
        simp only [pieces]
        rw [ih2 _ (by simp [bracket]) (keyBracket_stripWs hk n)]
        simp [mergedToks]
      · intro cur hne hs
        simp only [pieces, clean_cons, isEmpty_false_of_ne hne, Bool.false_eq_true, if_false, hs]
        rw [ih2 _ (bracket_ne_nil _) (bracket_stripWs n)]
        simp [mergedToks]

/-- **Tokenisation of a canonical path.**  `"/" ++ renderPos p` is what `xpath()` lists. -/
theorem tokenize_render (p : Pos) (hp : PlainPos p) :
    tokenize ('/' :: renderPos p) = mergedToks p := by
  unfold tokenize
  rw [fixBr_cons_ne '/' _ (by decide), (fixBr_render p hp).1]
  have : splitChar '/' ('/' :: renderF false p) = [] :: splitChar '/' (renderF false p) := by
    simp [splitChar]
  rw [this]
  change clean ([] :: splitChar '/' (renderF false p)) = _
  rw [clean_cons]
  simp only [List.isEmpty_nil, if_true, List.nil_append]
  cases p with
  | nil => simp [renderF, splitChar, clean, mergedToks]
  | cons s r =>
    cases s with
    | key k =>
      obtain ⟨hk, hr⟩ := hp
      have h0 := splitChar_pieces (.key k :: r) ⟨hk, hr⟩ [] false (by simp)
      simp only [List.nil_append] at h0
      rw [h0]
      simp only [pieces, clean_cons, List.isEmpty_nil, if_true, List.nil_append]
      exact (clean_pieces r hr).1 k hk
    | idx n =>
      have h0 := splitChar_pieces (.idx n :: r) hp [] false (by simp)
      simp only [List.nil_append] at h0
      rw [h0]
      simp only [pieces, List.nil_append]
      rw [(clean_pieces r hp).2 _ (bracket_ne_nil _) (bracket_stripWs n)]
      simp [mergedToks]

end N0.XPath
