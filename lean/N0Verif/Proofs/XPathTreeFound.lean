import N0Verif.Proofs.XPathStore
/-!
  Companion of `find_spells`: walking a token list that spells a position and *continuing* with
  further tokens, with the text `_find` has appended to `xpath_found_str` on the way
  (`'..'` and `[new()]` re-split that string and resolve it again from `self`).
-/
namespace N0.XPath
open N0 N0.Py N0.Val

/-- `Spells` together with the text the walk appends to `xpath_found_str` -/
inductive SpellsF : List Str → Val → Pos → Val → Str → Prop
  | nil (v : Val) : SpellsF [] v [] v []
  | key {tok rest cls kvs c p d w} :
      KeyTok tok → lookup tok kvs = some c → SpellsF rest c p d w →
      SpellsF (tok :: rest) (.dict cls kvs) (.key tok :: p) d (slash ++ tok ++ w)
  | idx {tok e i rest cls xs n c p d w} :
      IdxTok tok e i → normIdx i xs.length = some n → xs[n]? = some c → SpellsF rest c p d w →
      SpellsF (tok :: rest) (.list cls xs) (.idx n :: p) d (bracket (intStr i) ++ w)
  | keyIdx {tok k e i rest cls kvs cls' xs n c p d w} :
      KeyIdxTok tok k e i → lookup k kvs = some (.list cls' xs) →
      normIdx i xs.length = some n → xs[n]? = some c → SpellsF rest c p d w →
      SpellsF (tok :: rest) (.dict cls kvs) (.key k :: .idx n :: p) d (slash ++ k ++ bracket (intStr i) ++ w)

theorem SpellsF.spells {toks v p c w} (h : SpellsF toks v p c w) : Spells toks v p c := by
  induction h with
  | nil v => exact .nil v
  | key hk hl _ ih => exact .key hk hl ih
  | idx hk hn hx _ ih => exact .idx hk hn hx ih
  | keyIdx hk hl hn hx _ ih => exact .keyIdx hk hl hn hx ih

theorem Spells.exF {toks v p c} (h : Spells toks v p c) : ∃ w, SpellsF toks v p c w := by
  induction h with
  | nil v => exact ⟨_, .nil v⟩
  | key hk hl _ ih => obtain ⟨w, hw⟩ := ih; exact ⟨_, .key hk hl hw⟩
  | idx hk hn hx _ ih => obtain ⟨w, hw⟩ := ih; exact ⟨_, .idx hk hn hx hw⟩
  | keyIdx hk hl hn hx _ ih => obtain ⟨w, hw⟩ := ih; exact ⟨_, .keyIdx hk hl hn hx hw⟩

theorem SpellsF.getAt {toks v p c w} (h : SpellsF toks v p c w) : Val.getAt v p = some c := h.spells.getAt

theorem intStr_nat (n : Nat) : intStr (n : Int) = natStr n := rfl

/-- the merged tokens of a valid plain position spell it and append its rendering -/
theorem spellsF_merged : ∀ (p : Pos) (v c : Val), PlainPos p → getAt v p = some c →
    SpellsF (mergedToks p) v p c (renderPos p)
  | [], v, c, _, h => by
    simp [getAt] at h; subst h; exact .nil v
  | [.key k], v, c, hp, h => by
    obtain ⟨x, hc, hr⟩ := getAt_cons_some h
    obtain ⟨cls, kvs, rfl, hl⟩ := child_key_some hc
    simp [getAt] at hr; subst hr
    have := SpellsF.key (cls := cls) hp.1.keyTok hl (.nil _)
    simpa [renderPos, renderSeg, slash, mergedToks] using this
  | .key k :: .key k2 :: rest, v, c, hp, h => by
    obtain ⟨x, hc, hr⟩ := getAt_cons_some h
    obtain ⟨cls, kvs, rfl, hl⟩ := child_key_some hc
    have ih := spellsF_merged (.key k2 :: rest) x c hp.2 hr
    have := SpellsF.key (cls := cls) hp.1.keyTok hl ih
    rw [show renderPos (.key k :: .key k2 :: rest) = slash ++ k ++ renderPos (.key k2 :: rest) by
      simp [renderPos, renderSeg, slash]]
    exact this
  | .key k :: .idx n :: rest, v, c, hp, h => by
    obtain ⟨x, hc, hr⟩ := getAt_cons_some h
    obtain ⟨cls, kvs, rfl, hl⟩ := child_key_some hc
    obtain ⟨y, hc2, hr2⟩ := getAt_cons_some hr
    obtain ⟨cls', xs, rfl, hx, hlt⟩ := child_idx_some hc2
    have ih := spellsF_merged rest y c hp.2 hr2
    have := SpellsF.keyIdx (cls := cls)
      (keyIdxTok_of hp.1 (natStr_idxExpr n) (natStr_ne_special n).1 (natStr_ne_special n).2 (n0eval_nat n))
      hl (normIdx_nat hlt) hx ih
    rw [show renderPos (.key k :: .idx n :: rest) = slash ++ k ++ bracket (intStr (n : Int)) ++ renderPos rest by
      simp [renderPos, renderSeg, slash, intStr_nat]]
    exact this
  | .idx n :: rest, v, c, hp, h => by
    obtain ⟨y, hc2, hr2⟩ := getAt_cons_some h
    obtain ⟨cls', xs, rfl, hx, hlt⟩ := child_idx_some hc2
    have ih := spellsF_merged rest y c hp hr2
    have := SpellsF.idx (cls := cls') (natStr_idxTok n) (normIdx_nat hlt) hx ih
    rw [show renderPos (.idx n :: rest) = bracket (intStr (n : Int)) ++ renderPos rest by
      simp [renderPos, renderSeg, intStr_nat]]
    exact this

/-- **Walk.**  Tokens that spell `p` below the node at `q`, followed by further tokens: `_find`
arrives at `q ++ p` with the remaining tokens, the same root, and `found` extended by the text of
the walk. -/
theorem find_walk (root : Val) (rl : Bool) {toks : List Str} {v : Val} {p : Pos} {c : Val} {w : Str}
    (h : SpellsF toks v p c w) (rest : List Str) (hrest : rest ≠ []) :
    ∀ (fuel : Nat) (q : Pos) (found : Str) (entry : Bool),
      getAt root q = some v → fuel ≥ 2 * toks.length →
      ∃ fuel' entry', fuel ≤ fuel' + 2 * toks.length ∧ fuel' ≤ fuel ∧
        findD fuel root [] false entry (toks ++ rest) (.at q) rl found
          = findD fuel' root [] false entry' rest (.at (q ++ p)) rl (found ++ w) := by
  induction h with
  | nil v =>
    intro fuel q found entry _ _
    exact ⟨fuel, entry, by simp, Nat.le_refl _, by simp⟩
  | @key tok rest0 cls kvs c p d w hk hl hs ih =>
    intro fuel q found entry hq hf
    obtain ⟨f, rfl⟩ : ∃ f, fuel = f + 1 := ⟨fuel - 1, by simp at hf; omega⟩
    have hne : rest0 ++ rest ≠ [] := by simp [hrest]
    have hq' : getAt root (q ++ [.key tok]) = some c := by
      rw [getAt_snoc, hq]; simp [child, hl]
    obtain ⟨f', e', h1, h2, heq⟩ := ih f (q ++ [.key tok]) (found ++ slash ++ tok) false hq' (by simp at hf ⊢; omega)
    refine ⟨f', e', by simp at h1 ⊢; omega, by omega, ?_⟩
    rw [List.cons_append, find_key_step f root entry rl q found tok (rest0 ++ rest) cls kvs c hne hq hk hl, heq]
    simp [List.append_assoc]
  | @idx tok e i rest0 cls xs n c p d w hk hn hx hs ih =>
    intro fuel q found entry hq hf
    obtain ⟨f, rfl⟩ : ∃ f, fuel = f + 1 := ⟨fuel - 1, by simp at hf; omega⟩
    have hne : rest0 ++ rest ≠ [] := by simp [hrest]
    have hq' : getAt root (q ++ [.idx n]) = some c := by
      rw [getAt_snoc, hq]; simp [child, hx]
    obtain ⟨f', e', h1, h2, heq⟩ := ih f (q ++ [.idx n]) (found ++ bracket (intStr i)) false hq' (by simp at hf ⊢; omega)
    refine ⟨f', e', by simp at h1 ⊢; omega, by omega, ?_⟩
    rw [List.cons_append, find_idx_step f root entry rl q found tok e i (rest0 ++ rest) hne cls xs n hq hk hn, heq]
    simp [List.append_assoc]
  | @keyIdx tok k e i rest0 cls kvs cls' xs n c p d w hk hl hn hx hs ih =>
    intro fuel q found entry hq hf
    obtain ⟨f, rfl⟩ : ∃ f, fuel = f + 2 := ⟨fuel - 2, by simp at hf; omega⟩
    have hne : rest0 ++ rest ≠ [] := by simp [hrest]
    have hq1 : getAt root (q ++ [Seg.key k]) = some (.list cls' xs) := by
      rw [getAt_snoc, hq]; simp [child, hl]
    have hq' : getAt root (q ++ [Seg.key k] ++ [Seg.idx n]) = some c := by
      rw [getAt_snoc, hq1]; simp [child, hx]
    obtain ⟨f', e', h1, h2, heq⟩ := ih f (q ++ [Seg.key k] ++ [Seg.idx n]) (found ++ slash ++ k ++ bracket (intStr i)) false hq'
      (by simp at hf ⊢; omega)
    refine ⟨f', e', by simp at h1 ⊢; omega, by omega, ?_⟩
    rw [List.cons_append, find_keyidx_step (f + 1) root entry rl q found tok k e i (rest0 ++ rest) cls kvs _ hq hk hl,
      find_idx_step f root false rl (q ++ [Seg.key k]) _ (bracket e) e i (rest0 ++ rest) hne cls' xs n hq1 hk.inner hn, heq]
    simp [List.append_assoc]

/-- `Spells` composes -/
theorem Spells.append {a b : List Str} {v c d : Val} {p p' : Pos} (h1 : Spells a v p c) (h2 : Spells b c p' d) :
    Spells (a ++ b) v (p ++ p') d := by
  induction h1 with
  | nil v => simpa using h2
  | key hk hl _ ih => exact .key hk hl (ih h2)
  | idx hk hn hx _ ih => exact .idx hk hn hx (ih h2)
  | keyIdx hk hl hn hx _ ih => exact .keyIdx hk hl hn hx (ih h2)

end N0.XPath
