import N0Verif.Proofs.Compare
/-!
Keyed (unordered) list comparison with a composite key: when the composite keys are unique
within each list, every record is classified exactly once and permuting either list does not
change the verdict.
-/
namespace N0.Compare
open N0

/-! ### options that do not look at paths -/

/-- `compare_only`, `exclude_xpaths`, `transform` at their defaults; `composite_key` is arbitrary -/
structure NoPathOpts (cfg : Cfg) : Prop where
  only : cfg.only = .many []
  excl : cfg.excl = .many []
  tr : cfg.tr = []

theorem excluded_npo {cfg : Cfg} (h : NoPathOpts cfg) (p : Path) : excluded cfg p = false := by
  simp [excluded, h.excl, xpathMatch_nil]

theorem onlyOk_npo {cfg : Cfg} (h : NoPathOpts cfg) (p : Path) : onlyOk cfg p = true := by
  simp [onlyOk, h.only, PatArg.truthy]

theorem transformAt_npo {cfg : Cfg} (h : NoPathOpts cfg) (p : Path) : transformAt cfg p = id := by
  simp [transformAt, transformAtStr, h.tr, xpathMatchFrom]

/-- number of lines of a leaf decision on a pair: `none` = the pair is entered -/
def leafD (x y : Val) : Option Nat :=
  if tyOf x = tyOf y then
    if isPyScalar x then some (if x ≠ y then 1 else 0) else none
  else some 1

def actD : Act → Option Nat
  | .emit r _ => some r.diffs
  | .descend => none

theorem classifyItem_actD {cfg : Cfg} (h : NoPathOpts cfg) (p pne pdt : Path) (sa oa x y : Val) :
    actD (classifyItem cfg p pne pdt sa oa x y) = leafD x y := by
  simp only [classifyItem, transformAt_npo h, id, leafD]
  by_cases ht : tyOf x = tyOf y
  · by_cases hs : isPyScalar x = true
    · by_cases hxy : x = y
      · subst hxy
        by_cases he : cfg.fl.equal = true <;> simp [hs, he, actD, Res.empty]
      · simp [ht, hs, hxy, actD]
    · simp [ht, hs, actD]
  · by_cases hf : cfg.fl.types = true <;> simp [ht, hf, actD]

theorem classifyEntry_actD {cfg : Cfg} (h : NoPathOpts cfg) (full : Path) (x y : Val) :
    actD (classifyEntry cfg full x y) = leafD x y := by
  simp only [classifyEntry, transformAt_npo h, excluded_npo h, onlyOk_npo h, id, leafD]
  by_cases ht : tyOf x = tyOf y
  · by_cases hs : isPyScalar x = true
    · by_cases hxy : x = y
      · subst hxy
        simp [hs, actD, Res.empty]
      · simp [ht, hs, hxy, actD]
    · simp [ht, hs, actD]
  · by_cases hf : cfg.fl.types = true <;> simp [ht, hf, actD]

/-! ### keys do not depend on the prefix -/

theorem recordFields_npo {cfg : Cfg} (h : NoPathOpts cfg) (q : Path) (kvs : List (Str × Val)) :
    ∀ (fs : List Str) (acc : List (Str × Val)), recordFields cfg q kvs fs acc = recordFields cfg [] kvs fs acc
  | [], acc => by simp [recordFields]
  | f :: fs, acc => by
    simp only [recordFields, transformAt_npo h]
    cases Val.lookup f kvs with
    | none => exact recordFields_npo h q kvs fs acc
    | some v => exact recordFields_npo h q kvs fs _

theorem keyOf_npo {cfg : Cfg} (h : NoPathOpts cfg) (p : Path) (i : Nat) (x : Val) :
    keyOf cfg p i x = keyOf cfg [] 0 x := by
  cases x <;> simp only [keyOf, transformAt_npo h]
  rw [recordFields_npo h (p ++ [PSeg.idx i]), recordFields_npo h ([] ++ [PSeg.idx 0])]

theorem keysOf_npo {cfg : Cfg} (h : NoPathOpts cfg) (p : Path) :
    ∀ (i : Nat) (xs : List Val), keysOf cfg p i xs = keysOf cfg [] 0 xs
  | _, [] => rfl
  | i, x :: xs => by
    simp only [keysOf, keyOf_npo h p i x, keysOf_npo h p (i + 1) xs, keysOf_npo h [] 1 xs]

/-! ### the walks as sequences of pair results -/

/-- `update_extend` of two results, propagating exceptions (left first) -/
def seqR (a b : Except PyErr Res) : Except PyErr Res :=
  match a with
  | .error e => .error e
  | .ok r =>
    match b with
    | .error e => .error e
    | .ok r' => .ok (r ++ r')

/-- the result contributed by one pair of list items -/
def itemRes (cfg : Cfg) (p pne pdt : Path) (sa oa x y : Val) : Except PyErr Res :=
  match classifyItem cfg p pne pdt sa oa x y with
  | .emit r _ => .ok r
  | .descend => sub cfg .item pne x y

theorem keyedWalk_cons (cfg : Cfg) (p : Path) (sa oa : Val) (i : Nat) (x : Val) (xs : List Val)
    (k : Str) (ks : List Str) (sr orr : List KE) :
    keyedWalk cfg p sa oa i (x :: xs) (k :: ks) sr orr =
      match findKey k orr with
      | none => keyedWalk cfg p sa oa (i + 1) xs ks sr orr
      | some (j, y) =>
        seqR (itemRes cfg p (p ++ [if i = j then PSeg.idx i else PSeg.idx2 i j]) (p ++ [if i = j then PSeg.idx i else PSeg.idx2 i j]) sa oa x y)
          (keyedWalk cfg p sa oa (i + 1) xs ks (eraseKey k sr) (eraseKey k orr)) := by
  rw [keyedWalk]
  cases findKey k orr with
  | none => rfl
  | some jy =>
    obtain ⟨j, y⟩ := jy
    simp only [itemRes]
    cases classifyItem cfg p (p ++ [if i = j then PSeg.idx i else PSeg.idx2 i j]) (p ++ [if i = j then PSeg.idx i else PSeg.idx2 i j]) sa oa x y with
    | emit r s => simp only [seqR]; rfl
    | descend => simp only [seqR]; rfl

theorem directWalk_cons (cfg : Cfg) (p : Path) (sa oa : Val) (i : Nat) (x y : Val) (xs ys : List Val) :
    directWalk cfg p sa oa i (x :: xs) (y :: ys) =
      seqR (itemRes cfg p (p ++ [.idx i]) (p ++ [.idx i]) sa oa x y)
        (directWalk cfg p sa oa (i + 1) xs ys) := by
  rw [directWalk]
  simp only [itemRes]
  cases classifyItem cfg p (p ++ [.idx i]) (p ++ [.idx i]) sa oa x y with
  | emit r s => simp only [seqR]; rfl
  | descend => simp only [seqR]; rfl

theorem directWalk_cons_nil (cfg : Cfg) (p : Path) (sa oa : Val) (i : Nat) (x : Val) (xs : List Val) :
    directWalk cfg p sa oa i (x :: xs) [] =
      seqR (.ok { diffs := 1, selfUnique := [⟨p ++ [.idx i], x⟩] }) (directWalk cfg p sa oa (i + 1) xs []) := by
  rw [directWalk]
  simp only [seqR]; rfl

theorem dictWalk_cons (cfg : Cfg) (p : Path) (sa oa : Val) (skvs okvs : List (Str × Val)) (still : Bool)
    (k : Str) (v : Val) (rest : List (Str × Val)) :
    dictWalk cfg p sa oa skvs okvs still ((k, v) :: rest) =
      match Val.lookup k okvs with
      | none => dictWalk cfg p sa oa skvs okvs still rest
      | some w =>
        match classifyEntry cfg (p ++ [.key k]) v w with
        | .emit r s => seqR (.ok r) (dictWalk cfg p sa oa skvs okvs (still && s) rest)
        | .descend => seqR (sub cfg .entry (p ++ [.key k]) v w) (dictWalk cfg p sa oa skvs okvs still rest) := by
  rw [dictWalk]
  cases Val.lookup k okvs with
  | none => rfl
  | some w =>
    simp only
    cases classifyEntry cfg (p ++ [.key k]) v w with
    | emit r s => simp only [seqR]; rfl
    | descend => simp only [seqR]; rfl

/-! ### line counts -/

/-- the number of lines of a run (the exception is kept) -/
def dE (r : Except PyErr Res) : Except PyErr Nat := r.map (·.diffs)

@[simp] theorem dE_ok (r : Res) : dE (.ok r) = .ok r.diffs := rfl
@[simp] theorem dE_error (e : PyErr) : dE (.error e) = .error e := rfl

def addE (a b : Except PyErr Nat) : Except PyErr Nat :=
  match a with
  | .error e => .error e
  | .ok m =>
    match b with
    | .error e => .error e
    | .ok n => .ok (m + n)

theorem dE_seqR (a b : Except PyErr Res) : dE (seqR a b) = addE (dE a) (dE b) := by
  cases a <;> cases b <;> rfl

theorem itemRes_pref {cfg : Cfg} (h : NoPathOpts cfg) (p pne pdt p' pne' pdt' : Path) (sa oa sa' oa' x y : Val)
    (hsub : dE (sub cfg .item pne x y) = dE (sub cfg .item pne' x y)) :
    dE (itemRes cfg p pne pdt sa oa x y) = dE (itemRes cfg p' pne' pdt' sa' oa' x y) := by
  have h1 := classifyItem_actD h p pne pdt sa oa x y
  have h2 := classifyItem_actD h p' pne' pdt' sa' oa' x y
  simp only [itemRes]
  cases hc : classifyItem cfg p pne pdt sa oa x y with
  | emit r s =>
    cases hc' : classifyItem cfg p' pne' pdt' sa' oa' x y with
    | emit r' s' =>
      rw [hc] at h1; rw [hc'] at h2
      simp only [actD] at h1 h2
      rw [← h2] at h1
      simp only [dE_ok]
      injection h1 with h1
      rw [h1]
    | descend =>
      rw [hc] at h1; rw [hc'] at h2
      simp only [actD] at h1 h2
      rw [← h2] at h1; cases h1
  | descend =>
    cases hc' : classifyItem cfg p' pne' pdt' sa' oa' x y with
    | emit r' s' =>
      rw [hc] at h1; rw [hc'] at h2
      simp only [actD] at h1 h2
      rw [← h2] at h1; cases h1
    | descend => exact hsub

theorem dictTail_diffs_npo {cfg : Cfg} (h : NoPathOpts cfg) (p : Path) (sa oa : Val)
    (skvs okvs : List (Str × Val)) (still : Bool) :
    (dictTail cfg p sa oa skvs okvs still).diffs =
      (skvs.filter (fun kv => !hasKey kv.1 okvs)).length + (okvs.filter (fun kv => !hasKey kv.1 skvs)).length := by
  have hl : ∀ kv, leftover cfg p kv = some ⟨p ++ [.key kv.1], kv.2⟩ := by
    intro kv; simp [leftover, excluded_npo h, onlyOk_npo h]
  have hfm : ∀ l : List (Str × Val), (l.filterMap (leftover cfg p)).length = l.length := by
    intro l; induction l with
    | nil => rfl
    | cons a l ih => simp [hl, ih]
  simp only [dictTail, hfm]

/-! ### target 1: the number of lines does not depend on the prefix -/

mutual
theorem sub_pref (cfg : Cfg) (h : NoPathOpts cfg) (site : Site) (p p' : Path) (v w : Val) :
    dE (sub cfg site p v w) = dE (sub cfg site p' v w) :=
  match v, w with
  | .list c xs, w => by
    cases w with
    | list c' ys =>
      simp only [sub, excluded_npo h, Bool.false_eq_true, ↓reduceIte, keysOf_npo h p 0, keysOf_npo h p' 0]
      split
      · rfl
      · split
        · rfl
        · split
          · exact directWalk_pref cfg h p p' _ _ _ _ 0 0 xs ys
          · cases keysOf cfg [] 0 xs with
            | error e => rfl
            | ok ks =>
              cases keysOf cfg [] 0 ys with
              | error e => rfl
              | ok ko => exact keyedWalk_pref cfg h p p' _ _ _ _ 0 0 xs ks _ _
    | _ => simp [sub]
  | .dict c kvs, w => by
    cases w with
    | dict c' kvs' =>
      simp only [sub]
      split
      · rfl
      · exact dictWalk_pref cfg h p p' _ _ _ _ kvs kvs' true true kvs
    | _ => simp [sub]
  | .none, _ => by simp [sub]
  | .bool _, _ => by simp [sub]
  | .int _, _ => by simp [sub]
  | .flt _, _ => by simp [sub]
  | .str _, _ => by simp [sub]
termination_by structural v

theorem dictWalk_pref (cfg : Cfg) (h : NoPathOpts cfg) (p p' : Path) (sa oa sa' oa' : Val)
    (skvs okvs : List (Str × Val)) (still still' : Bool) (kvs : List (Str × Val)) :
    dE (dictWalk cfg p sa oa skvs okvs still kvs) = dE (dictWalk cfg p' sa' oa' skvs okvs still' kvs) :=
  match kvs, still, still' with
  | [], still, still' => by
    simp only [dictWalk, dE_ok, dictTail_diffs_npo h]
  | (k, v) :: rest, still, still' => by
    rw [dictWalk_cons, dictWalk_cons]
    cases Val.lookup k okvs with
    | none => exact dictWalk_pref cfg h p p' sa oa sa' oa' skvs okvs still still' rest
    | some w =>
      have h1 := classifyEntry_actD h (p ++ [.key k]) v w
      have h2 := classifyEntry_actD h (p' ++ [.key k]) v w
      simp only
      cases hc : classifyEntry cfg (p ++ [.key k]) v w with
      | emit r s =>
        cases hc' : classifyEntry cfg (p' ++ [.key k]) v w with
        | emit r' s' =>
          rw [hc] at h1; rw [hc'] at h2
          simp only [actD] at h1 h2
          rw [← h2] at h1
          injection h1 with h1
          simp only [dE_seqR, dE_ok, h1]
          rw [dictWalk_pref cfg h p p' sa oa sa' oa' skvs okvs (still && s) (still' && s') rest]
        | descend =>
          rw [hc] at h1; rw [hc'] at h2
          simp only [actD] at h1 h2
          rw [← h2] at h1; cases h1
      | descend =>
        cases hc' : classifyEntry cfg (p' ++ [.key k]) v w with
        | emit r' s' =>
          rw [hc] at h1; rw [hc'] at h2
          simp only [actD] at h1 h2
          rw [← h2] at h1; cases h1
        | descend =>
          simp only [dE_seqR]
          rw [sub_pref cfg h .entry (p ++ [PSeg.key k]) (p' ++ [PSeg.key k]) v w,
            dictWalk_pref cfg h p p' sa oa sa' oa' skvs okvs still still' rest]
termination_by structural kvs

theorem directWalk_pref (cfg : Cfg) (h : NoPathOpts cfg) (p p' : Path) (sa oa sa' oa' : Val) (i i' : Nat)
    (xs ys : List Val) :
    dE (directWalk cfg p sa oa i xs ys) = dE (directWalk cfg p' sa' oa' i' xs ys) :=
  match xs, ys, i, i' with
  | [], ys, i, i' => by
    simp only [directWalk, dE_ok, otherTail_length]
  | x :: xs, [], i, i' => by
    rw [directWalk_cons_nil, directWalk_cons_nil]
    simp only [dE_seqR, dE_ok]
    rw [directWalk_pref cfg h p p' sa oa sa' oa' (i + 1) (i' + 1) xs []]
  | x :: xs, y :: ys, i, i' => by
    rw [directWalk_cons, directWalk_cons]
    simp only [dE_seqR]
    rw [directWalk_pref cfg h p p' sa oa sa' oa' (i + 1) (i' + 1) xs ys,
      itemRes_pref h p (p ++ [PSeg.idx i]) (p ++ [PSeg.idx i]) p' (p' ++ [PSeg.idx i']) (p' ++ [PSeg.idx i'])
        sa oa sa' oa' x y (sub_pref cfg h .item _ _ x y)]
termination_by structural xs

theorem keyedWalk_pref (cfg : Cfg) (h : NoPathOpts cfg) (p p' : Path) (sa oa sa' oa' : Val) (i i' : Nat)
    (xs : List Val) (ks : List Str) (sr orr : List KE) :
    dE (keyedWalk cfg p sa oa i xs ks sr orr) = dE (keyedWalk cfg p' sa' oa' i' xs ks sr orr) :=
  match xs, ks, sr, orr, i, i' with
  | [], _, sr, orr, i, i' => by
    simp only [keyedWalk, dE_ok, keyedTail]
  | _ :: _, [], _, _, i, i' => by simp only [keyedWalk]
  | x :: xs, k :: ks, sr, orr, i, i' => by
    rw [keyedWalk_cons, keyedWalk_cons]
    cases findKey k orr with
    | none => exact keyedWalk_pref cfg h p p' sa oa sa' oa' (i + 1) (i' + 1) xs ks sr orr
    | some jy =>
      obtain ⟨j, y⟩ := jy
      simp only [dE_seqR]
      rw [keyedWalk_pref cfg h p p' sa oa sa' oa' (i + 1) (i' + 1) xs ks (eraseKey k sr) (eraseKey k orr),
        itemRes_pref h p (p ++ [if i = j then PSeg.idx i else PSeg.idx2 i j]) (p ++ [if i = j then PSeg.idx i else PSeg.idx2 i j]) p'
          (p' ++ [if i' = j then PSeg.idx i' else PSeg.idx2 i' j])
          (p' ++ [if i' = j then PSeg.idx i' else PSeg.idx2 i' j]) sa oa sa' oa' x y (sub_pref cfg h .item _ _ x y)]
termination_by structural xs
end

/-- target 1 in the `Except.map` form -/
theorem sub_prefix_independent (cfg : Cfg) (h : NoPathOpts cfg) (site : Site) (p p' : Path) (v w : Val) :
    (sub cfg site p v w).map (·.diffs) = (sub cfg site p' v w).map (·.diffs) :=
  sub_pref cfg h site p p' v w

/-! ### `Res.append`, `seqR`, `addE` algebra -/

theorem res_empty_append (r : Res) : Res.empty ++ r = r := by
  show Res.append Res.empty r = r
  cases r; simp [Res.append, Res.empty]

theorem res_append_assoc (a b c : Res) : (a ++ b) ++ c = a ++ (b ++ c) := by
  show Res.append (Res.append a b) c = Res.append a (Res.append b c)
  simp [Res.append, Nat.add_assoc, List.append_assoc]

theorem seqR_assoc (a b c : Except PyErr Res) : seqR (seqR a b) c = seqR a (seqR b c) := by
  cases a <;> cases b <;> cases c <;> simp [seqR, res_append_assoc]

theorem seqR_empty_left (b : Except PyErr Res) : seqR (.ok Res.empty) b = b := by
  cases b <;> simp [seqR, res_empty_append]

theorem addE_assoc (a b c : Except PyErr Nat) : addE (addE a b) c = addE a (addE b c) := by
  cases a <;> cases b <;> cases c <;> simp [addE, Nat.add_assoc]

/-! ### `findKey` / `eraseKey` -/

theorem findKey_eraseKey_ne {k k' : Str} (hne : k' ≠ k) :
    ∀ l : List KE, findKey k' (eraseKey k l) = findKey k' l
  | [] => rfl
  | (k0, i, v) :: rest => by
    simp only [eraseKey]
    by_cases h0 : k = k0
    · subst h0
      simp [findKey, hne]
    · simp only [h0, ↓reduceIte, findKey, findKey_eraseKey_ne hne rest]

theorem findKey_none_ne {k : Str} : ∀ {l : List KE}, findKey k l = none → ∀ e ∈ l, e.1 ≠ k
  | [], _, e, he => by cases he
  | (k0, i, v) :: rest, h, e, he => by
    simp only [findKey] at h
    split at h
    · cases h
    · cases he with
      | head => intro hh; simp_all
      | tail _ he' => exact findKey_none_ne h e he'

theorem eraseKey_append_hit {k : Str} (i : Nat) (x : Val) (rest : List KE) :
    ∀ U : List KE, (∀ e ∈ U, e.1 ≠ k) → eraseKey k (U ++ (k, i, x) :: rest) = U ++ rest
  | [], _ => by simp [eraseKey]
  | (k0, j, v) :: U, h => by
    have h0 : k ≠ k0 := fun hh => h (k0, j, v) (List.mem_cons_self) hh.symm
    simp only [List.cons_append, eraseKey, h0, ↓reduceIte]
    rw [eraseKey_append_hit i x rest U (fun e he => h e (List.mem_cons_of_mem _ he))]

theorem eraseKey_keys_sublist (k : Str) : ∀ l : List KE, ((eraseKey k l).map (·.1)).Sublist (l.map (·.1))
  | [] => by simp [eraseKey]
  | (k0, i, v) :: rest => by
    simp only [eraseKey]
    split
    · simp
    · simp only [List.map_cons]
      exact (eraseKey_keys_sublist k rest).cons_cons _

theorem filter_notin_cons_of_ne {k : Str} (ks : List Str) {l : List KE} (h : ∀ e ∈ l, e.1 ≠ k) :
    l.filter (fun e => decide (e.1 ∉ k :: ks)) = l.filter (fun e => decide (e.1 ∉ ks)) := by
  apply List.filter_congr
  intro e he
  simp [h e he]

theorem eraseKey_filter {k : Str} (ks : List Str) :
    ∀ l : List KE, (l.map (·.1)).Nodup →
      (eraseKey k l).filter (fun e => decide (e.1 ∉ ks)) = l.filter (fun e => decide (e.1 ∉ k :: ks))
  | [], _ => by simp [eraseKey]
  | (k0, i, v) :: rest, hn => by
    simp only [List.map_cons, List.nodup_cons] at hn
    simp only [eraseKey]
    by_cases h0 : k = k0
    · subst h0
      have hne : ∀ e ∈ rest, e.1 ≠ k := by
        intro e he hh
        exact hn.1 (hh ▸ List.mem_map_of_mem he)
      simp only [↓reduceIte]
      rw [List.filter_cons_of_neg (by simp), filter_notin_cons_of_ne ks hne]
    · simp only [h0, ↓reduceIte]
      rw [List.filter_cons, List.filter_cons, eraseKey_filter ks rest hn.2]
      have : (decide (k0 ∉ k :: ks)) = decide (k0 ∉ ks) := by
        simp [Ne.symm h0]
      simp only [this]

theorem mkEntries_keys_mem : ∀ (ks : List Str) (xs : List Val) (i : Nat), ∀ e ∈ mkEntries i ks xs, e.1 ∈ ks
  | [], _, _, e, he => by simp [mkEntries] at he
  | _ :: _, [], _, e, he => by simp [mkEntries] at he
  | k :: ks, x :: xs, i, e, he => by
    simp only [mkEntries, List.mem_cons] at he
    rcases he with rfl | he
    · simp
    · exact List.mem_cons_of_mem _ (mkEntries_keys_mem ks xs (i + 1) e he)

/-! ### target 2 (entry lists): the keyed walk under unique keys -/

/-- the result of the pair formed by the left element `x` at index `i` and its partner `jy` -/
def pairRes (cfg : Cfg) (p : Path) (sa oa : Val) (i : Nat) (x : Val) (jy : Nat × Val) : Except PyErr Res :=
  itemRes cfg p (p ++ [if i = jy.1 then PSeg.idx i else PSeg.idx2 i jy.1])
    (p ++ [if i = jy.1 then PSeg.idx i else PSeg.idx2 i jy.1]) sa oa x jy.2

/-- the results of the matched pairs, in the order of the left list; `orr` is the complete right list -/
def matchedRes (cfg : Cfg) (p : Path) (sa oa : Val) (orr : List KE) : Nat → List Str → List Val → Except PyErr Res
  | i, k :: ks, x :: xs =>
    match findKey k orr with
    | none => matchedRes cfg p sa oa orr (i + 1) ks xs
    | some jy => seqR (pairRes cfg p sa oa i x jy) (matchedRes cfg p sa oa orr (i + 1) ks xs)
  | _, _, _ => .ok Res.empty

theorem matchedRes_erase (cfg : Cfg) (p : Path) (sa oa : Val) (k : Str) (orr : List KE) :
    ∀ (ks : List Str) (xs : List Val) (i : Nat), k ∉ ks →
      matchedRes cfg p sa oa (eraseKey k orr) i ks xs = matchedRes cfg p sa oa orr i ks xs
  | [], _, _, _ => by simp [matchedRes]
  | _ :: _, [], _, _ => by simp [matchedRes]
  | k' :: ks, x :: xs, i, h => by
    simp only [List.mem_cons, not_or] at h
    simp only [matchedRes, findKey_eraseKey_ne (Ne.symm h.1), matchedRes_erase cfg p sa oa k orr ks xs (i + 1) h.2]

/-- With unique keys on both sides the keyed walk is: the matched pairs in the order of the left list, then
one `selfUnique` entry for every left element whose key is absent on the right (with its own index), then one
`otherUnique` entry for every right element whose key is absent on the left.  `U` are the unmatched left
entries already passed. -/
theorem keyedWalk_char (cfg : Cfg) (p : Path) (sa oa : Val) :
    ∀ (xs : List Val) (ks : List Str) (i : Nat) (U orr : List KE),
      ks.length = xs.length → ks.Nodup → (∀ e ∈ U, e.1 ∉ ks) → (orr.map (·.1)).Nodup →
      keyedWalk cfg p sa oa i xs ks (U ++ mkEntries i ks xs) orr =
        seqR (matchedRes cfg p sa oa orr i ks xs)
          (.ok (keyedTail p (U ++ (mkEntries i ks xs).filter (fun e => (findKey e.1 orr).isNone))
            (orr.filter (fun e => decide (e.1 ∉ ks)))))
  | [], ks, i, U, orr, hl, _, _, _ => by
    cases ks with
    | nil =>
      have : orr.filter (fun _ => true) = orr := List.filter_eq_self.2 (fun _ _ => rfl)
      simp [keyedWalk, matchedRes, mkEntries, seqR_empty_left, this]
    | cons _ _ => simp at hl
  | x :: xs, [], i, U, orr, hl, _, _, _ => by simp at hl
  | x :: xs, k :: ks, i, U, orr, hl, hn, hU, ho => by
    simp only [List.length_cons, Nat.add_right_cancel_iff] at hl
    simp only [List.nodup_cons] at hn
    rw [keyedWalk_cons]
    cases hf : findKey k orr with
    | none =>
      simp only [matchedRes, hf, mkEntries]
      have hU' : ∀ e ∈ U ++ [(k, i, x)], e.1 ∉ ks := by
        intro e he
        simp only [List.mem_append, List.mem_singleton] at he
        rcases he with he | rfl
        · exact fun hh => hU e he (List.mem_cons_of_mem _ hh)
        · exact hn.1
      rw [List.append_cons, keyedWalk_char cfg p sa oa xs ks (i + 1) (U ++ [(k, i, x)]) orr hl hn.2 hU' ho]
      rw [List.filter_cons_of_pos (by simp [hf]), filter_notin_cons_of_ne ks (findKey_none_ne hf)]
      simp only [List.append_assoc, List.singleton_append]
    | some jy =>
      obtain ⟨j, y⟩ := jy
      simp only [matchedRes, hf, mkEntries]
      have hUk : ∀ e ∈ U, e.1 ≠ k := fun e he hh => hU e he (hh ▸ List.mem_cons_self)
      have hU' : ∀ e ∈ U, e.1 ∉ ks := fun e he hh => hU e he (List.mem_cons_of_mem _ hh)
      rw [eraseKey_append_hit i x _ U hUk,
        keyedWalk_char cfg p sa oa xs ks (i + 1) U (eraseKey k orr) hl hn.2 hU'
          ((eraseKey_keys_sublist k orr).nodup ho),
        matchedRes_erase cfg p sa oa k orr ks xs (i + 1) hn.1, eraseKey_filter ks orr ho, seqR_assoc]
      rw [List.filter_cons_of_neg (by simp [hf])]
      have hfc : (mkEntries (i + 1) ks xs).filter (fun e => (findKey e.1 (eraseKey k orr)).isNone) =
          (mkEntries (i + 1) ks xs).filter (fun e => (findKey e.1 orr).isNone) := by
        apply List.filter_congr
        intro e he
        have : e.1 ≠ k := fun hh => hn.1 (hh ▸ mkEntries_keys_mem ks xs (i + 1) e he)
        rw [findKey_eraseKey_ne this]
      rw [hfc]
      rfl

theorem keysOf_length (cfg : Cfg) (p : Path) : ∀ (i : Nat) (xs : List Val) (ks : List Str),
    keysOf cfg p i xs = .ok ks → ks.length = xs.length
  | _, [], ks, h => by simp [keysOf] at h; subst h; rfl
  | i, x :: xs, ks, h => by
    simp only [keysOf] at h
    cases hk : keyOf cfg p i x with
    | error e => rw [hk] at h; cases h
    | ok k =>
      rw [hk] at h
      simp only at h
      cases hr : keysOf cfg p (i + 1) xs with
      | error e => rw [hr] at h; cases h
      | ok ks' =>
        rw [hr] at h
        cases h
        simp [keysOf_length cfg p (i + 1) xs ks' hr]

theorem mkEntries_keys : ∀ (ks : List Str) (xs : List Val) (i : Nat), ks.length = xs.length →
    (mkEntries i ks xs).map (·.1) = ks
  | [], [], _, _ => rfl
  | [], _ :: _, _, h => by simp at h
  | _ :: _, [], _, h => by simp at h
  | k :: ks, x :: xs, i, h => by
    simp only [List.length_cons, Nat.add_right_cancel_iff] at h
    simp [mkEntries, mkEntries_keys ks xs (i + 1) h]

/-- **Every record is classified exactly once** (all entry lists).  The keyed comparison of two lists with
unique composite keys is: the results of the pairs with a common key, in the order of the left list; one
`selfUnique` entry (own index) per left element whose key is absent on the right; one `otherUnique` entry
(own index) per right element whose key is absent on the left.  No assumption on the other options except
that the list itself is not excluded. -/
theorem sub_keyed_char (cfg : Cfg) (hd : cfg.direct = false) (site : Site) (p : Path) (hx : excluded cfg p = false)
    (c c' : Cls) (xs ys : List Val) (ks ko : List Str)
    (hks : keysOf cfg p 0 xs = .ok ks) (hko : keysOf cfg p 0 ys = .ok ko) (hn : ks.Nodup) (hno : ko.Nodup) :
    sub cfg site p (.list c xs) (.list c' ys) =
      seqR (matchedRes cfg p (.list .n0 xs) (.list .n0 ys) (mkEntries 0 ko ys) 0 ks xs)
        (.ok (keyedTail p
          ((mkEntries 0 ks xs).filter (fun e => (findKey e.1 (mkEntries 0 ko ys)).isNone))
          ((mkEntries 0 ko ys).filter (fun e => decide (e.1 ∉ ks))))) := by
  have hl := keysOf_length cfg p 0 xs ks hks
  have hlo := keysOf_length cfg p 0 ys ko hko
  have := keyedWalk_char cfg p (.list .n0 xs) (.list .n0 ys) xs ks 0 [] (mkEntries 0 ko ys) hl hn
    (by intro e he; cases he) (by rw [mkEntries_keys ko ys 0 hlo]; exact hno)
  simp only [List.nil_append] at this
  simp only [sub, hd, hx, hks, hko, Bool.false_eq_true, ↓reduceIte, false_and, and_false]
  exact this

/-! ### the composite key as a pure function (no transform) -/

/-- the key fields of a record when `transform` is empty -/
def recFields (kvs : List (Str × Val)) : List Str → List (Str × Val) → List (Str × Val)
  | [], acc => acc
  | key :: rest, acc =>
    match Val.lookup key kvs with
    | none => recFields kvs rest acc
    | some v => recFields kvs rest (setField key v acc)

/-- the composite key of a list element when `transform` is empty -/
def keyP (cfg : Cfg) : Val → Str
  | .dict _ kvs => fieldsKey (recFields kvs cfg.ck.pats [])
  | v => jsonVal v

theorem recordFields_pure {cfg : Cfg} (h : NoPathOpts cfg) (q : Path) (kvs : List (Str × Val)) :
    ∀ (fs : List Str) (acc : List (Str × Val)), recordFields cfg q kvs fs acc = recFields kvs fs acc
  | [], acc => by simp [recordFields, recFields]
  | f :: fs, acc => by
    simp only [recordFields, recFields, transformAt_npo h, id]
    cases Val.lookup f kvs with
    | none => exact recordFields_pure h q kvs fs acc
    | some v => exact recordFields_pure h q kvs fs _

theorem keyOf_pure {cfg : Cfg} (h : NoPathOpts cfg) (p : Path) (i : Nat) (x : Val) :
    keyOf cfg p i x = .ok (keyP cfg x) := by
  cases x <;> simp only [keyOf, keyP, transformAt_npo h, id]
  rw [recordFields_pure h]

theorem keysOf_pure {cfg : Cfg} (h : NoPathOpts cfg) (p : Path) :
    ∀ (i : Nat) (xs : List Val), keysOf cfg p i xs = .ok (xs.map (keyP cfg))
  | _, [] => rfl
  | i, x :: xs => by simp only [keysOf, keyOf_pure h p i x, keysOf_pure h p (i + 1) xs, List.map_cons]

/-! ### target 2 (line counts) -/

/-- the number of lines of a pair of list items (it does not depend on where the pair is) -/
def pairD (cfg : Cfg) (x y : Val) : Except PyErr Nat := dE (itemRes cfg [] [] [] .none .none x y)

theorem itemRes_dE {cfg : Cfg} (h : NoPathOpts cfg) (p pne pdt : Path) (sa oa x y : Val) :
    dE (itemRes cfg p pne pdt sa oa x y) = pairD cfg x y :=
  itemRes_pref h p pne pdt [] [] [] sa oa .none .none x y (sub_pref cfg h .item pne [] x y)

/-- the element of `ys` whose key is `k` -/
def partner (cfg : Cfg) (k : Str) (ys : List Val) : Option Val := ys.find? (fun y => decide (k = keyP cfg y))

def sumE : List (Except PyErr Nat) → Except PyErr Nat
  | [] => .ok 0
  | a :: l => addE a (sumE l)

/-- lines contributed by the left element `x`: one if its key is absent on the right, else those of the pair -/
def elemD (cfg : Cfg) (ys : List Val) (x : Val) : Except PyErr Nat :=
  match partner cfg (keyP cfg x) ys with
  | none => .ok 1
  | some y => pairD cfg x y

/-- the line count of one keyed level, as a sum over the records -/
def levelD (cfg : Cfg) (xs ys : List Val) : Except PyErr Nat :=
  addE (sumE (xs.map (elemD cfg ys)))
    (.ok (ys.filter (fun y => decide (keyP cfg y ∉ xs.map (keyP cfg)))).length)

theorem findKey_mkEntries (cfg : Cfg) (k : Str) : ∀ (ys : List Val) (j : Nat),
    (findKey k (mkEntries j (ys.map (keyP cfg)) ys)).map (·.2) = partner cfg k ys
  | [], _ => rfl
  | y :: ys, j => by
    simp only [List.map_cons, mkEntries, findKey, partner, List.find?_cons]
    by_cases hk : k = keyP cfg y
    · simp [hk]
    · simp only [hk, ↓reduceIte, decide_false]
      exact findKey_mkEntries cfg k ys (j + 1)

theorem mkEntries_filter_length (cfg : Cfg) (ks : List Str) : ∀ (ys : List Val) (j : Nat),
    ((mkEntries j (ys.map (keyP cfg)) ys).filter (fun e => decide (e.1 ∉ ks))).length =
      (ys.filter (fun y => decide (keyP cfg y ∉ ks))).length
  | [], _ => rfl
  | y :: ys, j => by
    simp only [List.map_cons, mkEntries, List.filter_cons]
    have ih := mkEntries_filter_length cfg ks ys (j + 1)
    by_cases hk : keyP cfg y ∈ ks
    · simp [hk]; simpa using ih
    · simp [hk]; simpa using ih

theorem matched_dE {cfg : Cfg} (h : NoPathOpts cfg) (p : Path) (sa oa : Val) (ys : List Val) :
    ∀ (xs : List Val) (i n : Nat),
      addE (dE (matchedRes cfg p sa oa (mkEntries 0 (ys.map (keyP cfg)) ys) i (xs.map (keyP cfg)) xs))
        (.ok (((mkEntries i (xs.map (keyP cfg)) xs).filter
          (fun e => (findKey e.1 (mkEntries 0 (ys.map (keyP cfg)) ys)).isNone)).length + n)) =
      addE (sumE (xs.map (elemD cfg ys))) (.ok n)
  | [], i, n => by simp [matchedRes, mkEntries, sumE, addE, Res.empty]
  | x :: xs, i, n => by
    have hp := findKey_mkEntries cfg (keyP cfg x) ys 0
    simp only [List.map_cons, matchedRes, mkEntries, sumE, elemD]
    cases hf : findKey (keyP cfg x) (mkEntries 0 (ys.map (keyP cfg)) ys) with
    | none =>
      rw [hf] at hp
      simp only [Option.map_none] at hp
      rw [← hp, List.filter_cons_of_pos (by simp [hf])]
      have ih := matched_dE h p sa oa ys xs (i + 1) (n + 1)
      simp only [List.length_cons]
      rw [show ∀ a : Nat, a + 1 + n = a + (n + 1) from by omega, ih]
      cases sumE (xs.map (elemD cfg ys)) with
      | error e => rfl
      | ok m => simp only [addE]; congr 1; omega
    | some jy =>
      rw [hf] at hp
      simp only [Option.map_some] at hp
      rw [← hp, List.filter_cons_of_neg (by simp [hf])]
      have ih := matched_dE h p sa oa ys xs (i + 1) n
      simp only [dE_seqR, pairRes, itemRes_dE h, addE_assoc]
      rw [ih]

/-- **Every record is classified exactly once** (line count): with unique keys on both sides the number of
lines of a keyed list comparison is the sum over the left elements of (one line if the key is absent on the
right, else the lines of the pair with the right element of the same key) plus one line per right element
whose key is absent on the left. -/
theorem sub_keyed_diffs (cfg : Cfg) (h : NoPathOpts cfg) (hd : cfg.direct = false) (site : Site) (p : Path)
    (c c' : Cls) (xs ys : List Val)
    (hn : (xs.map (keyP cfg)).Nodup) (hno : (ys.map (keyP cfg)).Nodup) :
    dE (sub cfg site p (.list c xs) (.list c' ys)) = levelD cfg xs ys := by
  rw [sub_keyed_char cfg hd site p (excluded_npo h p) c c' xs ys _ _ (keysOf_pure h p 0 xs) (keysOf_pure h p 0 ys) hn hno]
  simp only [dE_seqR, dE_ok, keyedTail, levelD]
  rw [matched_dE h, mkEntries_filter_length]

/-! ### target 3: permutations do not change the verdict of a keyed level -/

/-- forget which exception was raised -/
def okD (r : Except PyErr Nat) : Option Nat :=
  match r with
  | .ok n => some n
  | .error _ => none

def oadd (a b : Option Nat) : Option Nat :=
  match a, b with
  | some m, some n => some (m + n)
  | _, _ => none

def osum : List (Option Nat) → Option Nat
  | [] => some 0
  | a :: l => oadd a (osum l)

theorem okD_addE (a b : Except PyErr Nat) : okD (addE a b) = oadd (okD a) (okD b) := by
  cases a <;> cases b <;> rfl

theorem okD_sumE : ∀ l : List (Except PyErr Nat), okD (sumE l) = osum (l.map okD)
  | [] => rfl
  | a :: l => by simp only [sumE, okD_addE, okD_sumE l, List.map_cons, osum]

theorem oadd_left_comm (a b c : Option Nat) : oadd a (oadd b c) = oadd b (oadd a c) := by
  cases a <;> cases b <;> cases c <;> simp [oadd]; omega

theorem osum_perm {l l' : List (Option Nat)} (h : l.Perm l') : osum l = osum l' := by
  induction h with
  | nil => rfl
  | cons a _ ih => simp only [osum, ih]
  | swap a b l => simp only [osum, oadd_left_comm]
  | trans _ _ ih1 ih2 => exact ih1.trans ih2

theorem verdict_eq_okD (r : Except PyErr Res) : verdict r = (okD (dE r)).map (· == 0) := by
  cases r <;> rfl

theorem partner_of_mem (cfg : Cfg) : ∀ (ys : List Val), (ys.map (keyP cfg)).Nodup → ∀ y ∈ ys,
    partner cfg (keyP cfg y) ys = some y
  | [], _, y, hy => by cases hy
  | z :: ys, hn, y, hy => by
    simp only [List.map_cons, List.nodup_cons] at hn
    simp only [partner, List.find?_cons]
    cases hy with
    | head => simp
    | tail _ hy' =>
      have hne : keyP cfg y ≠ keyP cfg z := fun hh => hn.1 (hh ▸ List.mem_map_of_mem hy')
      simp only [hne, decide_false]
      exact partner_of_mem cfg ys hn.2 y hy'

theorem partner_perm (cfg : Cfg) {ys ys' : List Val} (hp : ys.Perm ys') (hn : (ys.map (keyP cfg)).Nodup)
    (k : Str) : partner cfg k ys = partner cfg k ys' := by
  have hn' : (ys'.map (keyP cfg)).Nodup := (hp.map (keyP cfg)).nodup_iff.1 hn
  cases h : partner cfg k ys with
  | none =>
    simp only [partner, List.find?_eq_none] at h
    symm
    simp only [partner, List.find?_eq_none]
    intro y hy
    exact h y (hp.mem_iff.2 hy)
  | some y =>
    have hm : y ∈ ys := List.mem_of_find?_eq_some h
    have hk : k = keyP cfg y := by simpa using List.find?_some h
    subst hk
    exact (partner_of_mem cfg ys' hn' y (hp.mem_iff.1 hm)).symm

theorem levelD_perm (cfg : Cfg) {xs xs' ys ys' : List Val} (hx : xs.Perm xs') (hy : ys.Perm ys')
    (hno : (ys.map (keyP cfg)).Nodup) :
    okD (levelD cfg xs ys) = okD (levelD cfg xs' ys') := by
  have he : elemD cfg ys = elemD cfg ys' := by
    funext x
    simp only [elemD, partner_perm cfg hy hno]
  have hf : ∀ y, decide (keyP cfg y ∉ xs.map (keyP cfg)) = decide (keyP cfg y ∉ xs'.map (keyP cfg)) := by
    intro y
    simp only [(hx.map (keyP cfg)).mem_iff]
  simp only [levelD, okD_addE, okD_sumE, hf, he]
  rw [osum_perm ((hx.map (elemD cfg ys')).map okD), (hy.filter _).length_eq]

/-- **Permutation invariance of the verdict at one keyed level**: with unique composite keys, permuting the
left list, the right list or both does not change the verdict (nor the number of lines, nor whether an
exception is raised) — at any prefix. -/
theorem sub_keyed_perm (cfg : Cfg) (h : NoPathOpts cfg) (hd : cfg.direct = false) (site : Site) (p p' : Path)
    (c c' c₁ c₁' : Cls) {xs xs' ys ys' : List Val} (hx : xs.Perm xs') (hy : ys.Perm ys')
    (hn : (xs.map (keyP cfg)).Nodup) (hno : (ys.map (keyP cfg)).Nodup) :
    verdict (sub cfg site p (.list c xs) (.list c' ys)) = verdict (sub cfg site p' (.list c₁ xs') (.list c₁' ys')) := by
  have hn' : (xs'.map (keyP cfg)).Nodup := (hx.map (keyP cfg)).nodup_iff.1 hn
  have hno' : (ys'.map (keyP cfg)).Nodup := (hy.map (keyP cfg)).nodup_iff.1 hno
  rw [verdict_eq_okD, verdict_eq_okD, sub_keyed_diffs cfg h hd site p c c' xs ys hn hno,
    sub_keyed_diffs cfg h hd site p' c₁ c₁' xs' ys' hn' hno', levelD_perm cfg hx hy hno]

/-! ### target 4: permuting lists anywhere in the tree -/

mutual
/-- `v'` is `v` with the lists inside it permuted (at every depth) -/
inductive PermTree : Val → Val → Prop
  | none : PermTree .none .none
  | bool (b : Bool) : PermTree (.bool b) (.bool b)
  | int (i : Int) : PermTree (.int i) (.int i)
  | flt (r : Str) : PermTree (.flt r) (.flt r)
  | str (s : Str) : PermTree (.str s) (.str s)
  | list (c : Cls) {xs xs1 xs' : List Val} : xs.Perm xs1 → PermList xs1 xs' → PermTree (.list c xs) (.list c xs')
  | dict (c : Cls) {kvs kvs' : List (Str × Val)} : PermKvs kvs kvs' → PermTree (.dict c kvs) (.dict c kvs')
/-- element-wise `PermTree` -/
inductive PermList : List Val → List Val → Prop
  | nil : PermList [] []
  | cons {x x' : Val} {xs xs' : List Val} : PermTree x x' → PermList xs xs' → PermList (x :: xs) (x' :: xs')
/-- same keys in the same order, `PermTree` values -/
inductive PermKvs : List (Str × Val) → List (Str × Val) → Prop
  | nil : PermKvs [] []
  | cons (k : Str) {v v' : Val} {kvs kvs' : List (Str × Val)} :
      PermTree v v' → PermKvs kvs kvs' → PermKvs ((k, v) :: kvs) ((k, v') :: kvs')
end

/-- a list element whose key is stable under `PermTree`: not itself a list, and the key fields of a record
are scalars -/
def itemOk (cfg : Cfg) : Val → Prop
  | .list _ _ => False
  | .dict _ kvs => ∀ f ∈ cfg.ck.pats, ∀ v, Val.lookup f kvs = some v → v.isScalar = true
  | _ => True

mutual
/-- every list inside the value has pairwise different composite keys (and stable keys) -/
def UniqueKeys (cfg : Cfg) : Val → Prop
  | .list _ xs => (xs.map (keyP cfg)).Nodup ∧ UniqueKeysL cfg xs
  | .dict _ kvs => UniqueKeysK cfg kvs
  | _ => True
def UniqueKeysL (cfg : Cfg) : List Val → Prop
  | [] => True
  | x :: xs => (itemOk cfg x ∧ UniqueKeys cfg x) ∧ UniqueKeysL cfg xs
def UniqueKeysK (cfg : Cfg) : List (Str × Val) → Prop
  | [] => True
  | (_, v) :: kvs => UniqueKeys cfg v ∧ UniqueKeysK cfg kvs
end

theorem uniqueKeysL_mem (cfg : Cfg) : ∀ (xs : List Val), UniqueKeysL cfg xs → ∀ x ∈ xs, itemOk cfg x ∧ UniqueKeys cfg x
  | [], _, x, hx => by cases hx
  | z :: xs, h, x, hx => by
    simp only [UniqueKeysL] at h
    cases hx with
    | head => exact h.1
    | tail _ hx' => exact uniqueKeysL_mem cfg xs h.2 x hx'

theorem uniqueKeysK_lookup (cfg : Cfg) (k : Str) : ∀ (kvs : List (Str × Val)) (v : Val), UniqueKeysK cfg kvs →
    Val.lookup k kvs = some v → UniqueKeys cfg v
  | [], _, _, h => by simp [Val.lookup] at h
  | (k0, v0) :: rest, v, hu, h => by
    simp only [UniqueKeysK] at hu
    simp only [Val.lookup] at h
    split at h
    · cases h; exact hu.1
    · exact uniqueKeysK_lookup cfg k rest v hu.2 h

theorem PermTree.tyOf_eq {v v' : Val} (h : PermTree v v') : tyOf v = tyOf v' := by
  cases h <;> rfl

theorem PermTree.eq_of_isScalar {v v' : Val} (h : PermTree v v') (hs : v.isScalar = true) : v = v' := by
  cases h <;> simp_all [Val.isScalar]

theorem isPyScalar_isScalar {v : Val} (h : isPyScalar v = true) : v.isScalar = true := by
  cases v <;> simp_all [isPyScalar, Val.isScalar]

theorem leafD_permTree {v v' w w' : Val} (hv : PermTree v v') (hw : PermTree w w') :
    leafD v w = leafD v' w' := by
  have h1 := hv.tyOf_eq
  have h2 := hw.tyOf_eq
  unfold leafD
  by_cases ht : tyOf v = tyOf w
  · have ht' : tyOf v' = tyOf w' := by rw [← h1, ← h2]; exact ht
    by_cases hs : isPyScalar v = true
    · have hsw : isPyScalar w = true := by rw [← tyOf_scalar_eq ht]; exact hs
      have e1 := hv.eq_of_isScalar (isPyScalar_isScalar hs)
      have e2 := hw.eq_of_isScalar (isPyScalar_isScalar hsw)
      subst e1; subst e2; rfl
    · have hs' : ¬ isPyScalar v' = true := by rw [← tyOf_scalar_eq h1]; exact hs
      simp [ht, ht', hs, hs']
  · have ht' : ¬ tyOf v' = tyOf w' := by rw [← h1, ← h2]; exact ht
    simp [ht, ht']

theorem permKvs_lookup_none (k : Str) : ∀ (kvs kvs' : List (Str × Val)), PermKvs kvs kvs' →
    Val.lookup k kvs = none → Val.lookup k kvs' = none
  | [], _, h, _ => by cases h; rfl
  | (k0, v) :: rest, _, h, hl => by
    cases h with
    | cons _ hv hr =>
      simp only [Val.lookup] at hl ⊢
      split at hl
      · cases hl
      · rename_i hne
        simp only [hne, ↓reduceIte]
        exact permKvs_lookup_none k rest _ hr hl

theorem permKvs_lookup_some (k : Str) : ∀ (kvs kvs' : List (Str × Val)) (v : Val), PermKvs kvs kvs' →
    Val.lookup k kvs = some v → ∃ v', Val.lookup k kvs' = some v' ∧ PermTree v v'
  | [], _, _, _, hl => by simp [Val.lookup] at hl
  | (k0, v0) :: rest, _, v, h, hl => by
    cases h with
    | cons _ hv hr =>
      simp only [Val.lookup] at hl ⊢
      split at hl
      · rename_i he
        cases hl
        exact ⟨_, by simp [he], hv⟩
      · rename_i hne
        simp only [hne, ↓reduceIte]
        exact permKvs_lookup_some k rest _ v hr hl

theorem permKvs_hasKey (k : Str) {kvs kvs' : List (Str × Val)} (h : PermKvs kvs kvs') :
    hasKey k kvs = hasKey k kvs' := by
  unfold hasKey
  cases hl : Val.lookup k kvs with
  | none => rw [permKvs_lookup_none k kvs kvs' h hl]
  | some v =>
    obtain ⟨v', hv', _⟩ := permKvs_lookup_some k kvs kvs' v h hl
    rw [hv']; rfl

theorem recFields_permKvs {kvs kvs' : List (Str × Val)} (hk : PermKvs kvs kvs') :
    ∀ (fs : List Str) (acc : List (Str × Val)), (∀ f ∈ fs, ∀ v, Val.lookup f kvs = some v → v.isScalar = true) →
      recFields kvs fs acc = recFields kvs' fs acc
  | [], _, _ => rfl
  | f :: fs, acc, hs => by
    have hs' : ∀ g ∈ fs, ∀ v, Val.lookup g kvs = some v → v.isScalar = true :=
      fun g hg => hs g (List.mem_cons_of_mem _ hg)
    simp only [recFields]
    cases hl : Val.lookup f kvs with
    | none =>
      rw [permKvs_lookup_none f kvs kvs' hk hl]
      exact recFields_permKvs hk fs acc hs'
    | some v =>
      obtain ⟨v', hv', hp⟩ := permKvs_lookup_some f kvs kvs' v hk hl
      have := hp.eq_of_isScalar (hs f List.mem_cons_self v hl)
      subst this
      rw [hv']
      exact recFields_permKvs hk fs _ hs'

theorem keyP_permTree (cfg : Cfg) {x x' : Val} (hp : PermTree x x') (hi : itemOk cfg x) :
    keyP cfg x = keyP cfg x' := by
  cases hp with
  | list c _ _ => simp [itemOk] at hi
  | dict c hk =>
    simp only [keyP]
    rw [recFields_permKvs hk _ _ hi]
  | _ => rfl

theorem permList_keys (cfg : Cfg) : ∀ (xs xs' : List Val), PermList xs xs' → (∀ x ∈ xs, itemOk cfg x) →
    xs.map (keyP cfg) = xs'.map (keyP cfg)
  | [], _, h, _ => by cases h; rfl
  | x :: xs, _, h, hi => by
    cases h with
    | cons hx hr =>
      simp only [List.map_cons]
      rw [keyP_permTree cfg hx (hi x List.mem_cons_self),
        permList_keys cfg xs _ hr (fun z hz => hi z (List.mem_cons_of_mem _ hz))]

/-- a leaf decision, or else the lines of the container step -/
def leafOr (l : Option Nat) (d : Except PyErr Nat) : Except PyErr Nat :=
  match l with
  | some n => .ok n
  | none => d

theorem itemRes_dE_leaf {cfg : Cfg} (h : NoPathOpts cfg) (p pne pdt : Path) (sa oa x y : Val) :
    dE (itemRes cfg p pne pdt sa oa x y) = leafOr (leafD x y) (dE (sub cfg .item pne x y)) := by
  have h1 := classifyItem_actD h p pne pdt sa oa x y
  simp only [itemRes]
  cases hc : classifyItem cfg p pne pdt sa oa x y with
  | emit r s => rw [hc] at h1; simp only [actD] at h1; rw [← h1]; rfl
  | descend => rw [hc] at h1; simp only [actD] at h1; rw [← h1]; rfl

theorem pairD_leaf {cfg : Cfg} (h : NoPathOpts cfg) (x y : Val) :
    pairD cfg x y = leafOr (leafD x y) (dE (sub cfg .item [] x y)) :=
  itemRes_dE_leaf h [] [] [] .none .none x y

theorem dictWalk_cons_dE {cfg : Cfg} (h : NoPathOpts cfg) (p : Path) (sa oa : Val) (skvs okvs : List (Str × Val))
    (still : Bool) (k : Str) (v : Val) (rest : List (Str × Val)) :
    dE (dictWalk cfg p sa oa skvs okvs still ((k, v) :: rest)) =
      match Val.lookup k okvs with
      | none => dE (dictWalk cfg p sa oa skvs okvs still rest)
      | some w =>
        addE (leafOr (leafD v w) (dE (sub cfg .entry (p ++ [.key k]) v w)))
          (dE (dictWalk cfg p sa oa skvs okvs still rest)) := by
  rw [dictWalk_cons]
  cases Val.lookup k okvs with
  | none => rfl
  | some w =>
    have h1 := classifyEntry_actD h (p ++ [.key k]) v w
    simp only
    cases hc : classifyEntry cfg (p ++ [.key k]) v w with
    | emit r s =>
      rw [hc] at h1; simp only [actD] at h1
      rw [← h1, dE_seqR, dictWalk_pref cfg h p p sa oa sa oa skvs okvs (still && s) still rest]
      rfl
    | descend =>
      rw [hc] at h1; simp only [actD] at h1
      rw [← h1, dE_seqR]
      rfl

/-- the induction statement for one left value -/
def SubInv (cfg : Cfg) (v : Val) : Prop :=
  ∀ (site : Site) (p : Path) (w v' w' : Val), PermTree v v' → PermTree w w' →
    UniqueKeys cfg v → UniqueKeys cfg w →
    okD (dE (sub cfg site p v w)) = okD (dE (sub cfg site p v' w'))

theorem pairD_permTree {cfg : Cfg} (h : NoPathOpts cfg) {x x' y y' : Val} (hS : SubInv cfg x)
    (hx : PermTree x x') (hy : PermTree y y') (hux : UniqueKeys cfg x) (huy : UniqueKeys cfg y) :
    okD (pairD cfg x y) = okD (pairD cfg x' y') := by
  rw [pairD_leaf h, pairD_leaf h, leafD_permTree hx hy]
  cases leafD x' y' with
  | some n => rfl
  | none => exact hS .item [] y x' y' hx hy hux huy

theorem partner_permList (cfg : Cfg) (k : Str) : ∀ (ys ys' : List Val), PermList ys ys' →
    ys.map (keyP cfg) = ys'.map (keyP cfg) →
    (partner cfg k ys = none ∧ partner cfg k ys' = none) ∨
      (∃ y y', partner cfg k ys = some y ∧ partner cfg k ys' = some y' ∧ PermTree y y' ∧ y ∈ ys)
  | [], _, h, _ => by cases h; left; exact ⟨rfl, rfl⟩
  | y :: ys, _, h, hk => by
    cases h with
    | @cons _ y' _ ys' hy hr =>
      simp only [List.map_cons, List.cons.injEq] at hk
      by_cases hkk : k = keyP cfg y
      · right
        refine ⟨y, y', ?_, ?_, hy, List.mem_cons_self⟩
        · simp [partner, hkk]
        · simp [partner, hkk, hk.1]
      · have hkk' : ¬ k = keyP cfg y' := by rw [← hk.1]; exact hkk
        have e1 : partner cfg k (y :: ys) = partner cfg k ys := by simp [partner, hkk]
        have e2 : partner cfg k (y' :: ys') = partner cfg k ys' := by simp [partner, hkk']
        rw [e1, e2]
        rcases partner_permList cfg k ys ys' hr hk.2 with ⟨a, b⟩ | ⟨y1, y1', a, b, c, d⟩
        · left; exact ⟨a, b⟩
        · right; exact ⟨y1, y1', a, b, c, List.mem_cons_of_mem _ d⟩

theorem elemD_permTree {cfg : Cfg} (h : NoPathOpts cfg) {ys ys' : List Val} (hr : PermList ys ys')
    (hk : ys.map (keyP cfg) = ys'.map (keyP cfg)) (huy : ∀ y ∈ ys, UniqueKeys cfg y)
    {x x' : Val} (hx : PermTree x x') (hkx : keyP cfg x = keyP cfg x') (hS : SubInv cfg x)
    (hux : UniqueKeys cfg x) :
    okD (elemD cfg ys x) = okD (elemD cfg ys' x') := by
  simp only [elemD]
  rw [← hkx]
  rcases partner_permList cfg (keyP cfg x) ys ys' hr hk with ⟨a, b⟩ | ⟨y, y', a, b, c, d⟩
  · rw [a, b]
  · rw [a, b]
    exact pairD_permTree h hS hx c hux (huy y d)

theorem elemD_list_permList {cfg : Cfg} (h : NoPathOpts cfg) {ys ys' : List Val} (hr : PermList ys ys')
    (hk : ys.map (keyP cfg) = ys'.map (keyP cfg)) (huy : ∀ y ∈ ys, UniqueKeys cfg y) :
    ∀ (xs xs' : List Val), PermList xs xs' →
      (∀ x ∈ xs, itemOk cfg x ∧ UniqueKeys cfg x ∧ SubInv cfg x) →
      (xs.map (elemD cfg ys)).map okD = (xs'.map (elemD cfg ys')).map okD
  | [], _, hl, _ => by cases hl; rfl
  | x :: xs, _, hl, hux => by
    cases hl with
    | cons hx hrest =>
      have hx0 := hux x List.mem_cons_self
      simp only [List.map_cons]
      rw [elemD_permTree h hr hk huy hx (keyP_permTree cfg hx hx0.1) hx0.2.2 hx0.2.1,
        elemD_list_permList h hr hk huy xs _ hrest (fun z hz => hux z (List.mem_cons_of_mem _ hz))]

theorem filter_key_length (cfg : Cfg) (ks : List Str) (ys : List Val) :
    (ys.filter (fun y => decide (keyP cfg y ∉ ks))).length =
      ((ys.map (keyP cfg)).filter (fun k => decide (k ∉ ks))).length := by
  rw [List.filter_map, List.length_map]
  rfl

theorem levelD_permList {cfg : Cfg} (h : NoPathOpts cfg) {xs xs' ys ys' : List Val}
    (hx : PermList xs xs') (hy : PermList ys ys')
    (hux : ∀ x ∈ xs, itemOk cfg x ∧ UniqueKeys cfg x ∧ SubInv cfg x)
    (huy : ∀ y ∈ ys, itemOk cfg y ∧ UniqueKeys cfg y) :
    okD (levelD cfg xs ys) = okD (levelD cfg xs' ys') := by
  have hkx := permList_keys cfg xs xs' hx (fun x hx => (hux x hx).1)
  have hky := permList_keys cfg ys ys' hy (fun y hy => (huy y hy).1)
  simp only [levelD, okD_addE, okD_sumE]
  rw [elemD_list_permList h hy hky (fun y hy => (huy y hy).2) xs xs' hx hux, ← hkx,
    filter_key_length, filter_key_length cfg _ ys', hky]

theorem sub_list_permTree (cfg : Cfg) (h : NoPathOpts cfg) (hd : cfg.direct = false) (site : Site) (p : Path)
    (c c' : Cls) {xs xs1 xs' ys ys1 ys' : List Val}
    (hpx : xs.Perm xs1) (hlx : PermList xs1 xs') (hpy : ys.Perm ys1) (hly : PermList ys1 ys')
    (hux : UniqueKeys cfg (.list c xs)) (huy : UniqueKeys cfg (.list c' ys))
    (hS : ∀ x ∈ xs, SubInv cfg x) :
    okD (dE (sub cfg site p (.list c xs) (.list c' ys))) =
      okD (dE (sub cfg site p (.list c xs') (.list c' ys'))) := by
  simp only [UniqueKeys] at hux huy
  have hix := uniqueKeysL_mem cfg xs hux.2
  have hiy := uniqueKeysL_mem cfg ys huy.2
  have hix1 : ∀ x ∈ xs1, itemOk cfg x ∧ UniqueKeys cfg x ∧ SubInv cfg x := by
    intro x hx
    have hm := hpx.mem_iff.2 hx
    exact ⟨(hix x hm).1, (hix x hm).2, hS x hm⟩
  have hiy1 : ∀ y ∈ ys1, itemOk cfg y ∧ UniqueKeys cfg y := fun y hy => hiy y (hpy.mem_iff.2 hy)
  have hkx := permList_keys cfg xs1 xs' hlx (fun x hx => (hix1 x hx).1)
  have hky := permList_keys cfg ys1 ys' hly (fun y hy => (hiy1 y hy).1)
  have hn1 : (xs1.map (keyP cfg)).Nodup := (hpx.map (keyP cfg)).nodup_iff.1 hux.1
  have hno1 : (ys1.map (keyP cfg)).Nodup := (hpy.map (keyP cfg)).nodup_iff.1 huy.1
  rw [sub_keyed_diffs cfg h hd site p c c' xs ys hux.1 huy.1,
    sub_keyed_diffs cfg h hd site p c c' xs' ys' (hkx ▸ hn1) (hky ▸ hno1),
    levelD_perm cfg hpx hpy huy.1, levelD_permList h hlx hly hix1 hiy1]

theorem permKvs_filter_length {b b' : List (Str × Val)} (hb : ∀ k, hasKey k b = hasKey k b') :
    ∀ (a a' : List (Str × Val)), PermKvs a a' →
      (a.filter (fun kv => !hasKey kv.1 b)).length = (a'.filter (fun kv => !hasKey kv.1 b')).length
  | [], _, h => by cases h; rfl
  | (k, v) :: a, _, h => by
    cases h with
    | cons _ hv hr =>
      have ih := permKvs_filter_length hb a _ hr
      simp only [List.filter_cons, hb k]
      split <;> simp [ih]

/-- the induction statement for the loop over the keys of a dictionary -/
def DictInv (cfg : Cfg) (kvs : List (Str × Val)) : Prop :=
  ∀ (p : Path) (sa oa sa' oa' : Val) (skvs skvs' okvs okvs' kvs' : List (Str × Val)) (still still' : Bool),
    PermKvs skvs skvs' → PermKvs okvs okvs' → PermKvs kvs kvs' →
    UniqueKeysK cfg kvs → UniqueKeysK cfg okvs →
    okD (dE (dictWalk cfg p sa oa skvs okvs still kvs)) =
      okD (dE (dictWalk cfg p sa' oa' skvs' okvs' still' kvs'))

mutual
theorem sub_permTree (cfg : Cfg) (h : NoPathOpts cfg) (hd : cfg.direct = false) (v : Val) : SubInv cfg v :=
  match v with
  | .list c xs => by
    have hS := list_permTree cfg h hd xs
    intro site p w v' w' hv hw huv huw
    cases hv with
    | list _ hpx hlx =>
      cases hw with
      | list c' hpy hly => exact sub_list_permTree cfg h hd site p c c' hpx hlx hpy hly huv huw hS
      | _ => simp [sub]
  | .dict c kvs => by
    have hK := kvs_permTree cfg h hd kvs
    intro site p w v' w' hv hw huv huw
    cases hv with
    | dict _ hk =>
      cases hw with
      | dict c' hko =>
        simp only [sub]
        split
        · rfl
        · exact hK p _ _ _ _ kvs _ _ _ _ true true hk hko hk huv huw
      | _ => simp [sub]
  | .none => by
    intro site p w v' w' hv hw huv huw
    cases hv; simp [sub]
  | .bool _ => by
    intro site p w v' w' hv hw huv huw
    cases hv; simp [sub]
  | .int _ => by
    intro site p w v' w' hv hw huv huw
    cases hv; simp [sub]
  | .flt _ => by
    intro site p w v' w' hv hw huv huw
    cases hv; simp [sub]
  | .str _ => by
    intro site p w v' w' hv hw huv huw
    cases hv; simp [sub]
termination_by structural v

theorem list_permTree (cfg : Cfg) (h : NoPathOpts cfg) (hd : cfg.direct = false) (xs : List Val) :
    ∀ x ∈ xs, SubInv cfg x :=
  match xs with
  | [] => by intro x hx; cases hx
  | z :: xs => by
    have hz := sub_permTree cfg h hd z
    have hrest := list_permTree cfg h hd xs
    intro x hx
    rcases List.mem_cons.1 hx with e | hx'
    · rw [e]; exact hz
    · exact hrest x hx'
termination_by structural xs

theorem kvs_permTree (cfg : Cfg) (h : NoPathOpts cfg) (hd : cfg.direct = false) (kvs : List (Str × Val)) :
    DictInv cfg kvs :=
  match kvs with
  | [] => by
    intro p sa oa sa' oa' skvs skvs' okvs okvs' kvs' still still' hs ho hk hu huo
    cases hk
    simp only [dictWalk, dE_ok, dictTail_diffs_npo h]
    rw [permKvs_filter_length (fun k => permKvs_hasKey k ho) skvs skvs' hs,
      permKvs_filter_length (fun k => permKvs_hasKey k hs) okvs okvs' ho]
  | (k, v) :: rest => by
    have hv0 := sub_permTree cfg h hd v
    have hrest := kvs_permTree cfg h hd rest
    intro p sa oa sa' oa' skvs skvs' okvs okvs' kvs' still still' hs ho hk hu huo
    cases hk with
    | @cons _ _ v' _ rest' hv hr =>
      simp only [UniqueKeysK] at hu
      rw [dictWalk_cons_dE h, dictWalk_cons_dE h]
      have ih := hrest p sa oa sa' oa' skvs skvs' okvs okvs' rest' still still' hs ho hr hu.2 huo
      cases hl : Val.lookup k okvs with
      | none =>
        rw [permKvs_lookup_none k okvs okvs' ho hl]
        exact ih
      | some w =>
        obtain ⟨w', hw', hpw⟩ := permKvs_lookup_some k okvs okvs' w ho hl
        rw [hw']
        simp only [okD_addE, ih, leafD_permTree hv hpw]
        cases leafD v' w' with
        | some n => rfl
        | none =>
          simp only [leafOr]
          rw [hv0 .entry _ w v' w' hv hpw hu.1 (uniqueKeysK_lookup cfg k okvs w huo hl)]
termination_by structural kvs
end

/-- the number of lines (and whether an exception is raised) is invariant, not only the verdict -/
theorem perm_invariant_lines (cfg : Cfg) (h : NoPathOpts cfg) (hd : cfg.direct = false) {a a' b b' : Val}
    (ha : PermTree a a') (hb : PermTree b b') (hua : UniqueKeys cfg a) (hub : UniqueKeys cfg b) :
    okD (dE (compareTop cfg a b)) = okD (dE (compareTop cfg a' b')) := by
  have key := sub_permTree cfg h hd a .entry [] b a' b' ha hb hua hub
  cases ha with
  | list c hpx hlx =>
    cases c with
    | plain => simp [compareTop]
    | n0 =>
      cases hb with
      | list c' hpy hly =>
        cases c' with
        | plain => simp [compareTop]
        | n0 =>
          simp only [compareTop]
          rw [key]
      | _ => simp [compareTop]
  | dict c hk =>
    cases c with
    | plain => simp [compareTop]
    | n0 =>
      cases hb with
      | dict c' hko =>
        cases c' with
        | plain => simp [compareTop]
        | n0 =>
          rw [compareTop_eq_sub cfg _ _ (by simp [RootPair]), compareTop_eq_sub cfg _ _ (by simp [RootPair]), key]
      | _ => simp [compareTop]
  | _ => simp [compareTop]

/-- **Permutation invariance of the verdict (whole tree).**  Keyed comparison with a composite key
(`cfg.direct = false`, `composite_key` arbitrary, the path options at their defaults): if the composite keys
are unique within every list of both documents, reordering the lists — at any depth, on either side — changes
neither the verdict nor whether an exception is raised. -/
theorem perm_invariant (cfg : Cfg) (h : NoPathOpts cfg) (hd : cfg.direct = false) {a a' b b' : Val}
    (ha : PermTree a a') (hb : PermTree b b') (hua : UniqueKeys cfg a) (hub : UniqueKeys cfg b) :
    verdict (compareTop cfg a b) = verdict (compareTop cfg a' b') := by
  rw [verdict_eq_okD, verdict_eq_okD, perm_invariant_lines cfg h hd ha hb hua hub]

/-! ### the hypotheses are needed -/

/-- composite key `id` -/
def cexCfg : Cfg := { Cfg.default Flags.init false with ck := .many [['i', 'd']] }

def cexRec (i a : Int) : Val := .dict .n0 [(['i', 'd'], .int i), (['a'], .int a)]

/-- without unique keys, swapping two records of the right list flips the verdict -/
theorem perm_needs_unique_keys_cex :
    verdict (compareTop cexCfg (.list .n0 [cexRec 1 1, cexRec 1 2]) (.list .n0 [cexRec 1 1, cexRec 1 2])) = some true ∧
    verdict (compareTop cexCfg (.list .n0 [cexRec 1 1, cexRec 1 2]) (.list .n0 [cexRec 1 2, cexRec 1 1])) = some false := by
  decide

/-- the key of a list-valued element is its `str`, which is not stable under permutation: reordering the
inner list flips the verdict although all keys are unique (so `itemOk` is needed in `UniqueKeys`) -/
theorem perm_needs_itemOk_cex :
    verdict (compareTop cexCfg (.list .n0 [.list .n0 [.int 1, .int 2]]) (.list .n0 [.list .n0 [.int 1, .int 2]])) = some true ∧
    verdict (compareTop cexCfg (.list .n0 [.list .n0 [.int 2, .int 1]]) (.list .n0 [.list .n0 [.int 1, .int 2]])) = some false := by
  decide

end N0.Compare
