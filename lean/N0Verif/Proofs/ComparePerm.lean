import N0Verif.Proofs.Compare
/-!
Keyed (unordered) list comparison with a composite key: when the composite keys are unique
within each list, every record is classified exactly once and permuting either list does not
change the verdict.
-/
namespace N0.Compare
open N0

/-! ### options that do not look at paths -/

/-- `compare_only`, `exclude_xpaths`, `transform` at their defaults; `composite_key` is arbitrary -/
structure NoPathOpts (cfg : Cfg) : Prop where
  only : cfg.only = .many []
  excl : cfg.excl = .many []
  tr : cfg.tr = []

theorem excluded_npo {cfg : Cfg} (h : NoPathOpts cfg) (p : Path) : excluded cfg p = false := by
  simp [excluded, h.excl, xpathMatch_nil]

theorem onlyOk_npo {cfg : Cfg} (h : NoPathOpts cfg) (p : Path) : onlyOk cfg p = true := by
  simp [onlyOk, h.only, PatArg.truthy]

theorem transformAt_npo {cfg : Cfg} (h : NoPathOpts cfg) (p : Path) : transformAt cfg p = id := by
  simp [transformAt, transformAtStr, h.tr, xpathMatchFrom]

/-- number of lines of a leaf decision on a pair: `none` = the pair is entered -/
def leafD (x y : Val) : Option Nat :=
  if tyOf x = tyOf y then
    if isPyScalar x then some (if x ≠ y then 1 else 0) else none
  else some 1

def actD : Act → Option Nat
  | .emit r _ => some r.diffs
  | .descend => none

theorem classifyItem_actD {cfg : Cfg} (h : NoPathOpts cfg) (p pne pdt : Path) (sa oa x y : Val) :
    actD (classifyItem cfg p pne pdt sa oa x y) = leafD x y := by
  simp only [classifyItem, transformAt_npo h, id, leafD]
  by_cases ht : tyOf x = tyOf y
  · by_cases hs : isPyScalar x = true
    · by_cases hxy : x = y
      · subst hxy
        by_cases he : cfg.fl.equal = true <;> simp [hs, he, actD, Res.empty]
      · simp [ht, hs, hxy, actD]
    · simp [ht, hs, actD]
  · by_cases hf : cfg.fl.types = true <;> simp [ht, hf, actD]

theorem classifyEntry_actD {cfg : Cfg} (h : NoPathOpts cfg) (full : Path) (x y : Val) :
    actD (classifyEntry cfg full x y) = leafD x y := by
  simp only [classifyEntry, transformAt_npo h, excluded_npo h, onlyOk_npo h, id, leafD]
  by_cases ht : tyOf x = tyOf y
  · by_cases hs : isPyScalar x = true
    · by_cases hxy : x = y
      · subst hxy
        simp [hs, actD, Res.empty]
      · simp [ht, hs, hxy, actD]
    · simp [ht, hs, actD]
  · by_cases hf : cfg.fl.types = true <;> simp [ht, hf, actD]

/-! ### keys do not depend on the prefix -/

theorem recordKey_npo {cfg : Cfg} (h : NoPathOpts cfg) (p : Path) (kvs : List (Str × Val)) :
    ∀ (fs : List Str) (acc : Str), recordKey cfg p kvs fs acc = recordKey cfg [] kvs fs acc
  | [], acc => by simp [recordKey]
  | f :: fs, acc => by
    simp only [recordKey, h.tr, List.map_nil, xpathMatchFrom]
    cases Val.lookup f kvs with
    | none => exact recordKey_npo h p kvs fs acc
    | some v => exact recordKey_npo h p kvs fs _

theorem keyOf_npo {cfg : Cfg} (h : NoPathOpts cfg) (p : Path) (x : Val) :
    keyOf cfg p x = keyOf cfg [] x := by
  cases x <;> simp only [keyOf]
  rw [recordKey_npo h p]

theorem keysOf_npo {cfg : Cfg} (h : NoPathOpts cfg) (p : Path) :
    ∀ xs : List Val, keysOf cfg p xs = keysOf cfg [] xs
  | [] => rfl
  | x :: xs => by simp only [keysOf, keyOf_npo h p x, keysOf_npo h p xs]

/-! ### the walks as sequences of pair results -/

/-- `update_extend` of two results, propagating exceptions (left first) -/
def seqR (a b : Except PyErr Res) : Except PyErr Res :=
  match a with
  | .error e => .error e
  | .ok r =>
    match b with
    | .error e => .error e
    | .ok r' => .ok (r ++ r')

/-- the result contributed by one pair of list items -/
def itemRes (cfg : Cfg) (p pne pdt : Path) (sa oa x y : Val) : Except PyErr Res :=
  match classifyItem cfg p pne pdt sa oa x y with
  | .emit r _ => .ok r
  | .descend => sub cfg .item pne x y

theorem keyedWalk_cons (cfg : Cfg) (p : Path) (sa oa : Val) (i : Nat) (x : Val) (xs : List Val)
    (k : Str) (ks : List Str) (sr orr : List KE) :
    keyedWalk cfg p sa oa i (x :: xs) (k :: ks) sr orr =
      match findKey k orr with
      | none => keyedWalk cfg p sa oa (i + 1) xs ks sr orr
      | some (j, y) =>
        seqR (itemRes cfg p (p ++ [if i = j then PSeg.idx i else PSeg.idx2 i j]) (p ++ [.idx i]) sa oa x y)
          (keyedWalk cfg p sa oa (i + 1) xs ks (eraseKey k sr) (eraseKey k orr)) := by
  rw [keyedWalk]
  cases findKey k orr with
  | none => rfl
  | some jy =>
    obtain ⟨j, y⟩ := jy
    simp only [itemRes]
    cases classifyItem cfg p (p ++ [if i = j then PSeg.idx i else PSeg.idx2 i j]) (p ++ [.idx i]) sa oa x y with
    | emit r s => simp only [seqR]; rfl
    | descend => simp only [seqR]; rfl

theorem directWalk_cons (cfg : Cfg) (p : Path) (sa oa : Val) (i : Nat) (x y : Val) (xs ys : List Val) :
    directWalk cfg p sa oa i (x :: xs) (y :: ys) =
      seqR (itemRes cfg p (p ++ [.idx i]) (p ++ [.idx i]) sa oa x y)
        (directWalk cfg p sa oa (i + 1) xs ys) := by
  rw [directWalk]
  simp only [itemRes]
  cases classifyItem cfg p (p ++ [.idx i]) (p ++ [.idx i]) sa oa x y with
  | emit r s => simp only [seqR]; rfl
  | descend => simp only [seqR]; rfl

theorem directWalk_cons_nil (cfg : Cfg) (p : Path) (sa oa : Val) (i : Nat) (x : Val) (xs : List Val) :
    directWalk cfg p sa oa i (x :: xs) [] =
      seqR (.ok { diffs := 1, selfUnique := [⟨p ++ [.idx i], x⟩] }) (directWalk cfg p sa oa (i + 1) xs []) := by
  rw [directWalk]
  simp only [seqR]; rfl

theorem dictWalk_cons (cfg : Cfg) (p : Path) (sa oa : Val) (skvs okvs : List (Str × Val)) (still : Bool)
    (k : Str) (v : Val) (rest : List (Str × Val)) :
    dictWalk cfg p sa oa skvs okvs still ((k, v) :: rest) =
      match Val.lookup k okvs with
      | none => dictWalk cfg p sa oa skvs okvs still rest
      | some w =>
        match classifyEntry cfg (p ++ [.key k]) v w with
        | .emit r s => seqR (.ok r) (dictWalk cfg p sa oa skvs okvs (still && s) rest)
        | .descend => seqR (sub cfg .entry (p ++ [.key k]) v w) (dictWalk cfg p sa oa skvs okvs still rest) := by
  rw [dictWalk]
  cases Val.lookup k okvs with
  | none => rfl
  | some w =>
    simp only
    cases classifyEntry cfg (p ++ [.key k]) v w with
    | emit r s => simp only [seqR]; rfl
    | descend => simp only [seqR]; rfl

/-! ### line counts -/

/-- the number of lines of a run (the exception is kept) -/
def dE (r : Except PyErr Res) : Except PyErr Nat := r.map (·.diffs)

@[simp] theorem dE_ok (r : Res) : dE (.ok r) = .ok r.diffs := rfl
@[simp] theorem dE_error (e : PyErr) : dE (.error e) = .error e := rfl

def addE (a b : Except PyErr Nat) : Except PyErr Nat :=
  match a with
  | .error e => .error e
  | .ok m =>
    match b with
    | .error e => .error e
    | .ok n => .ok (m + n)

theorem dE_seqR (a b : Except PyErr Res) : dE (seqR a b) = addE (dE a) (dE b) := by
  cases a <;> cases b <;> rfl

theorem itemRes_pref {cfg : Cfg} (h : NoPathOpts cfg) (p pne pdt p' pne' pdt' : Path) (sa oa sa' oa' x y : Val)
    (hsub : dE (sub cfg .item pne x y) = dE (sub cfg .item pne' x y)) :
    dE (itemRes cfg p pne pdt sa oa x y) = dE (itemRes cfg p' pne' pdt' sa' oa' x y) := by
  have h1 := classifyItem_actD h p pne pdt sa oa x y
  have h2 := classifyItem_actD h p' pne' pdt' sa' oa' x y
  simp only [itemRes]
  cases hc : classifyItem cfg p pne pdt sa oa x y with
  | emit r s =>
    cases hc' : classifyItem cfg p' pne' pdt' sa' oa' x y with
    | emit r' s' =>
      rw [hc] at h1; rw [hc'] at h2
      simp only [actD] at h1 h2
      rw [← h2] at h1
      simp only [dE_ok]
      injection h1 with h1
      rw [h1]
    | descend =>
      rw [hc] at h1; rw [hc'] at h2
      simp only [actD] at h1 h2
      rw [← h2] at h1; cases h1
  | descend =>
    cases hc' : classifyItem cfg p' pne' pdt' sa' oa' x y with
    | emit r' s' =>
      rw [hc] at h1; rw [hc'] at h2
      simp only [actD] at h1 h2
      rw [← h2] at h1; cases h1
    | descend => exact hsub

theorem dictTail_diffs_npo {cfg : Cfg} (h : NoPathOpts cfg) (p : Path) (sa oa : Val)
    (skvs okvs : List (Str × Val)) (still : Bool) :
    (dictTail cfg p sa oa skvs okvs still).diffs =
      (skvs.filter (fun kv => !hasKey kv.1 okvs)).length + (okvs.filter (fun kv => !hasKey kv.1 skvs)).length := by
  have hl : ∀ kv, leftover cfg p kv = some ⟨p ++ [.key kv.1], kv.2⟩ := by
    intro kv; simp [leftover, excluded_npo h, onlyOk_npo h]
  have hfm : ∀ l : List (Str × Val), (l.filterMap (leftover cfg p)).length = l.length := by
    intro l; induction l with
    | nil => rfl
    | cons a l ih => simp [hl, ih]
  simp only [dictTail, hfm]

/-! ### target 1: the number of lines does not depend on the prefix -/

mutual
theorem sub_pref (cfg : Cfg) (h : NoPathOpts cfg) (site : Site) (p p' : Path) (v w : Val) :
    dE (sub cfg site p v w) = dE (sub cfg site p' v w) :=
  match v, w with
  | .list c xs, w => by
    cases w with
    | list c' ys =>
      simp only [sub, excluded_npo h, Bool.false_eq_true, ↓reduceIte, keysOf_npo h p, keysOf_npo h p']
      split
      · rfl
      · split
        · rfl
        · split
          · exact directWalk_pref cfg h p p' _ _ _ _ 0 0 xs ys
          · cases keysOf cfg [] xs with
            | error e => rfl
            | ok ks =>
              cases keysOf cfg [] ys with
              | error e => rfl
              | ok ko => exact keyedWalk_pref cfg h p p' _ _ _ _ 0 0 xs ks _ _
    | _ => simp [sub]
  | .dict c kvs, w => by
    cases w with
    | dict c' kvs' =>
      simp only [sub]
      split
      · rfl
      · exact dictWalk_pref cfg h p p' _ _ _ _ kvs kvs' true true kvs
    | _ => simp [sub]
  | .none, _ => by simp [sub]
  | .bool _, _ => by simp [sub]
  | .int _, _ => by simp [sub]
  | .flt _, _ => by simp [sub]
  | .str _, _ => by simp [sub]
termination_by structural v

theorem dictWalk_pref (cfg : Cfg) (h : NoPathOpts cfg) (p p' : Path) (sa oa sa' oa' : Val)
    (skvs okvs : List (Str × Val)) (still still' : Bool) (kvs : List (Str × Val)) :
    dE (dictWalk cfg p sa oa skvs okvs still kvs) = dE (dictWalk cfg p' sa' oa' skvs okvs still' kvs) :=
  match kvs, still, still' with
  | [], still, still' => by
    simp only [dictWalk, dE_ok, dictTail_diffs_npo h]
  | (k, v) :: rest, still, still' => by
    rw [dictWalk_cons, dictWalk_cons]
    cases Val.lookup k okvs with
    | none => exact dictWalk_pref cfg h p p' sa oa sa' oa' skvs okvs still still' rest
    | some w =>
      have h1 := classifyEntry_actD h (p ++ [.key k]) v w
      have h2 := classifyEntry_actD h (p' ++ [.key k]) v w
      simp only
      cases hc : classifyEntry cfg (p ++ [.key k]) v w with
      | emit r s =>
        cases hc' : classifyEntry cfg (p' ++ [.key k]) v w with
        | emit r' s' =>
          rw [hc] at h1; rw [hc'] at h2
          simp only [actD] at h1 h2
          rw [← h2] at h1
          injection h1 with h1
          simp only [dE_seqR, dE_ok, h1]
          rw [dictWalk_pref cfg h p p' sa oa sa' oa' skvs okvs (still && s) (still' && s') rest]
        | descend =>
          rw [hc] at h1; rw [hc'] at h2
          simp only [actD] at h1 h2
          rw [← h2] at h1; cases h1
      | descend =>
        cases hc' : classifyEntry cfg (p' ++ [.key k]) v w with
        | emit r' s' =>
          rw [hc] at h1; rw [hc'] at h2
          simp only [actD] at h1 h2
          rw [← h2] at h1; cases h1
        | descend =>
          simp only [dE_seqR]
          rw [sub_pref cfg h .entry (p ++ [PSeg.key k]) (p' ++ [PSeg.key k]) v w,
            dictWalk_pref cfg h p p' sa oa sa' oa' skvs okvs still still' rest]
termination_by structural kvs

theorem directWalk_pref (cfg : Cfg) (h : NoPathOpts cfg) (p p' : Path) (sa oa sa' oa' : Val) (i i' : Nat)
    (xs ys : List Val) :
    dE (directWalk cfg p sa oa i xs ys) = dE (directWalk cfg p' sa' oa' i' xs ys) :=
  match xs, ys, i, i' with
  | [], ys, i, i' => by
    simp only [directWalk, dE_ok, otherTail_length]
  | x :: xs, [], i, i' => by
    rw [directWalk_cons_nil, directWalk_cons_nil]
    simp only [dE_seqR, dE_ok]
    rw [directWalk_pref cfg h p p' sa oa sa' oa' (i + 1) (i' + 1) xs []]
  | x :: xs, y :: ys, i, i' => by
    rw [directWalk_cons, directWalk_cons]
    simp only [dE_seqR]
    rw [directWalk_pref cfg h p p' sa oa sa' oa' (i + 1) (i' + 1) xs ys,
      itemRes_pref h p (p ++ [PSeg.idx i]) (p ++ [PSeg.idx i]) p' (p' ++ [PSeg.idx i']) (p' ++ [PSeg.idx i'])
        sa oa sa' oa' x y (sub_pref cfg h .item _ _ x y)]
termination_by structural xs

theorem keyedWalk_pref (cfg : Cfg) (h : NoPathOpts cfg) (p p' : Path) (sa oa sa' oa' : Val) (i i' : Nat)
    (xs : List Val) (ks : List Str) (sr orr : List KE) :
    dE (keyedWalk cfg p sa oa i xs ks sr orr) = dE (keyedWalk cfg p' sa' oa' i' xs ks sr orr) :=
  match xs, ks, sr, orr, i, i' with
  | [], _, sr, orr, i, i' => by
    simp only [keyedWalk, dE_ok, keyedTail]
  | _ :: _, [], _, _, i, i' => by simp only [keyedWalk]
  | x :: xs, k :: ks, sr, orr, i, i' => by
    rw [keyedWalk_cons, keyedWalk_cons]
    cases findKey k orr with
    | none => exact keyedWalk_pref cfg h p p' sa oa sa' oa' (i + 1) (i' + 1) xs ks sr orr
    | some jy =>
      obtain ⟨j, y⟩ := jy
      simp only [dE_seqR]
      rw [keyedWalk_pref cfg h p p' sa oa sa' oa' (i + 1) (i' + 1) xs ks (eraseKey k sr) (eraseKey k orr),
        itemRes_pref h p (p ++ [if i = j then PSeg.idx i else PSeg.idx2 i j]) (p ++ [PSeg.idx i]) p'
          (p' ++ [if i' = j then PSeg.idx i' else PSeg.idx2 i' j])
          (p' ++ [PSeg.idx i']) sa oa sa' oa' x y (sub_pref cfg h .item _ _ x y)]
termination_by structural xs
end

end N0.Compare
