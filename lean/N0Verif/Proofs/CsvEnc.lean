import N0Verif.Proofs.CsvFile
/-!
  Encoding a written CSV file byte-wise equals writing the table of encoded cells, for every
  per-character encoder that is transparent on ASCII and maps the other characters to non-ASCII
  bytes (UTF-8, latin-1, cp1252 …).  The codec is an arbitrary function here, so it is not in
  the trusted base of `C14_binary_encoded`.
-/
namespace N0.CsvFile
open N0 N0.Py N0.Csv N0.C13

/-- encode a string character by character -/
def encS (e : Char → Str) (s : Str) : Str := s.flatMap e

structure AsciiTransparent (e : Char → Str) : Prop where
  ascii : ∀ c : Char, c.toNat < 128 → e c = [c]
  high : ∀ c : Char, 128 ≤ c.toNat → ∀ b ∈ e c, 128 ≤ b.toNat
  nonempty : ∀ c : Char, e c ≠ []
  byte : ∀ c : Char, ∀ b ∈ e c, b.toNat < 256

/-- a predicate that is false outside ASCII -/
def AsciiPred (p : Char → Bool) : Prop := ∀ c : Char, 128 ≤ c.toNat → p c = false

theorem encS_append (e : Char → Str) (a b : Str) : encS e (a ++ b) = encS e a ++ encS e b := by
  simp [encS]

theorem encS_cons (e : Char → Str) (c : Char) (s : Str) : encS e (c :: s) = e c ++ encS e s := by
  simp [encS]

theorem encS_ascii (e : Char → Str) (he : AsciiTransparent e) (c : Char) (hc : c.toNat < 128)
    (s : Str) : encS e (c :: s) = c :: encS e s := by
  rw [encS_cons, he.ascii c hc]; rfl

theorem any_enc_char (e : Char → Str) (he : AsciiTransparent e) (p : Char → Bool) (hp : AsciiPred p)
    (c : Char) : (e c).any p = p c := by
  by_cases hc : c.toNat < 128
  · rw [he.ascii c hc]; simp
  · have hc' : 128 ≤ c.toNat := by omega
    rw [hp c hc', List.any_eq_false]
    intro b hb
    simp [hp b (he.high c hc' b hb)]

theorem any_encS (e : Char → Str) (he : AsciiTransparent e) (p : Char → Bool) (hp : AsciiPred p)
    (f : Str) : (encS e f).any p = f.any p := by
  induction f with
  | nil => rfl
  | cons c f ih => rw [encS_cons, List.any_append, ih, any_enc_char e he p hp c]; simp

theorem isEmpty_encS (e : Char → Str) (he : AsciiTransparent e) (f : Str) :
    (encS e f).isEmpty = f.isEmpty := by
  cases f with
  | nil => rfl
  | cons c f =>
    rw [encS_cons]
    have := he.nonempty c
    cases hx : e c with
    | nil => exact absurd hx this
    | cons _ _ => rfl

/-- delimiter and line terminator are ASCII -/
structure AsciiDialect (d : Char) (term : Str) : Prop where
  delim : d.toNat < 128
  term : ∀ c ∈ term, c.toNat < 128

theorem quotePred_ascii (d : Char) (term : Str) (ha : AsciiDialect d term) :
    AsciiPred (fun c => c = d || c = '"' || term.contains c) := by
  intro c hc
  have h1 : c ≠ d := fun h => by have := ha.delim; rw [← h] at this; omega
  have h2 : c ≠ '"' := fun h => by rw [h] at hc; revert hc; decide
  have h3 : term.contains c = false := by
    cases hx : term.contains c with
    | false => rfl
    | true =>
      have : c ∈ term := by simpa using hx
      have := ha.term c this
      omega
  have h3' : c ∉ term := fun hm => by simp [hm] at h3
  simp [h1, h2, h3']

theorem writerNeedsQuote_enc (e : Char → Str) (he : AsciiTransparent e) (d : Char) (term : Str)
    (ha : AsciiDialect d term) (single : Bool) (f : Str) :
    writerNeedsQuote d term single (encS e f) = writerNeedsQuote d term single f := by
  unfold writerNeedsQuote
  rw [any_encS e he _ (quotePred_ascii d term ha), isEmpty_encS e he]

theorem flatMap_id_of {α} (l : List α) (g : α → List α) (h : ∀ b ∈ l, g b = [b]) :
    l.flatMap g = l := by
  induction l with
  | nil => rfl
  | cons x xs ih =>
    rw [List.flatMap_cons, h x (by simp), ih (fun b hb => h b (by simp [hb]))]; rfl

def dq (c : Char) : Str := if c = '"' then ['"', '"'] else [c]

theorem body_eq_flatMap (f : Str) : body f = f.flatMap dq := rfl

theorem dq_enc_char (e : Char → Str) (he : AsciiTransparent e) (c : Char) :
    (e c).flatMap dq = encS e (dq c) := by
  by_cases hc : c.toNat < 128
  · rw [he.ascii c hc]
    simp only [List.flatMap_cons, List.flatMap_nil, List.append_nil]
    unfold dq
    by_cases hq : c = '"'
    · subst hq
      simp only [if_true]
      rw [encS_ascii e he _ (by decide), encS_ascii e he _ (by decide)]; rfl
    · simp only [hq, if_false]
      rw [encS_ascii e he _ hc]; rfl
  · have hc' : 128 ≤ c.toNat := by omega
    have hq : c ≠ '"' := fun h => by rw [h] at hc'; revert hc'; decide
    have : dq c = [c] := by simp [dq, hq]
    rw [this, encS_cons]
    simp only [encS, List.flatMap_nil, List.append_nil]
    apply flatMap_id_of
    intro b hb
    have hb' := he.high c hc' b hb
    have : b ≠ '"' := fun h => by rw [h] at hb'; revert hb'; decide
    simp [dq, this]

theorem body_enc (e : Char → Str) (he : AsciiTransparent e) (f : Str) :
    body (encS e f) = encS e (body f) := by
  induction f with
  | nil => rfl
  | cons c f ih =>
    have h1 : body (e c ++ encS e f) = (e c).flatMap dq ++ body (encS e f) := by
      simp [body_eq_flatMap]
    have h2 : body (c :: f) = dq c ++ body f := by simp [body_eq_flatMap]
    rw [encS_cons, h1, h2, ih, dq_enc_char e he c, encS_append]

theorem quoted_enc (e : Char → Str) (he : AsciiTransparent e) (f : Str) :
    quoted (encS e f) = encS e (quoted f) := by
  rw [quoted_eq, quoted_eq, encS_ascii e he _ (by decide), encS_append, body_enc e he]
  congr 2
  rw [encS_ascii e he _ (by decide)]; rfl

theorem encWith_enc (e : Char → Str) (he : AsciiTransparent e) (d : Char) (term : Str)
    (ha : AsciiDialect d term) (single : Bool) (f : Str) :
    encWith (writerNeedsQuote d term single) (encS e f)
      = encS e (encWith (writerNeedsQuote d term single) f) := by
  unfold encWith
  rw [writerNeedsQuote_enc e he d term ha]
  split
  · exact quoted_enc e he f
  · rfl

theorem join_enc (e : Char → Str) (he : AsciiTransparent e) (d : Char) (hd : d.toNat < 128)
    (xs : List Str) : join [d] (xs.map (encS e)) = encS e (join [d] xs) := by
  induction xs with
  | nil => rfl
  | cons x xs ih =>
    cases xs with
    | nil => rfl
    | cons y ys =>
      simp only [List.map_cons, join] at ih ⊢
      rw [ih, encS_append, encS_append, encS_ascii e he d hd]
      rfl

theorem bodyOf_enc (e : Char → Str) (he : AsciiTransparent e) (d : Char) (term : Str)
    (ha : AsciiDialect d term) (row : List Str) :
    bodyOf d term (row.map (encS e)) = encS e (bodyOf d term row) := by
  unfold bodyOf
  rw [← join_enc e he d ha.delim, List.map_map, List.map_map, List.length_map]
  congr 1
  apply List.map_congr_left
  intro f _
  exact encWith_enc e he d term ha _ f

theorem encS_term (e : Char → Str) (he : AsciiTransparent e) (term : Str)
    (h : ∀ c ∈ term, c.toNat < 128) : encS e term = term := by
  induction term with
  | nil => rfl
  | cons c t ih =>
    rw [encS_ascii e he c (h c (by simp)), ih (fun x hx => h x (by simp [hx]))]

theorem written_enc (e : Char → Str) (he : AsciiTransparent e) (d : Char) (term : Str)
    (ha : AsciiDialect d term) (rows : List (List Str)) :
    written d term (rows.map (fun r => r.map (encS e))) = encS e (written d term rows) := by
  induction rows with
  | nil => rfl
  | cons r rows ih =>
    simp only [written, List.map_cons, List.flatMap_cons] at ih ⊢
    rw [ih, encS_append, writerLine_eq, writerLine_eq, bodyOf_enc e he d term ha, encS_append,
      encS_term e he term ha.term]

theorem saveCsv_enc (e : Char → Str) (he : AsciiTransparent e) (d : Char) (term : Str)
    (ha : AsciiDialect d term) (header : Option (List Str)) (rows : List (List Str)) :
    saveCsv d term (header.map (fun h => h.map (encS e))) (rows.map (fun r => r.map (encS e)))
      = encS e (saveCsv d term header rows) := by
  cases header with
  | none =>
    simp only [Option.map_none, saveCsv_none]
    exact written_enc e he d term ha rows
  | some h =>
    cases h with
    | nil =>
      have h1 : saveCsv d term (some []) rows = written d term rows := by simp [saveCsv, written]
      have h2 : ∀ rs, saveCsv d term (some []) rs = written d term rs := by
        intro rs; simp [saveCsv, written]
      simp only [Option.map_some, List.map_nil, h1, h2]
      exact written_enc e he d term ha rows
    | cons x xs =>
      simp only [Option.map_some]
      rw [saveCsv_header _ _ _ _ (by simp), saveCsv_header _ _ _ _ (by simp)]
      exact written_enc e he d term ha ((x :: xs) :: rows)

theorem mem_encS_ascii (e : Char → Str) (he : AsciiTransparent e) (x : Char) (hx : x.toNat < 128)
    (f : Str) : x ∈ encS e f ↔ x ∈ f := by
  have hp : AsciiPred (fun c => c == x) := by
    intro c hc
    have : c ≠ x := fun h => by rw [h] at hc; omega
    simp [this]
  have h := any_encS e he _ hp f
  constructor
  · intro hm
    have : (encS e f).any (fun c => c == x) = true := List.any_eq_true.2 ⟨x, hm, by simp⟩
    rw [h, List.any_eq_true] at this
    obtain ⟨y, hy, hyx⟩ := this
    have : y = x := by simpa using hyx
    exact this ▸ hy
  · intro hm
    have : f.any (fun c => c == x) = true := List.any_eq_true.2 ⟨x, hm, by simp⟩
    rw [← h, List.any_eq_true] at this
    obtain ⟨y, hy, hyx⟩ := this
    have : y = x := by simpa using hyx
    exact this ▸ hy

theorem noBreak_enc (e : Char → Str) (he : AsciiTransparent e) (f : Str) (h : NoBreak f) :
    NoBreak (encS e f) :=
  ⟨fun hm => h.1 ((mem_encS_ascii e he '\r' (by decide) f).1 hm),
   fun hm => h.2 ((mem_encS_ascii e he '\n' (by decide) f).1 hm)⟩

theorem bom_not_mem_enc (e : Char → Str) (he : AsciiTransparent e) (f : Str) :
    bomChar ∉ encS e f := by
  intro hm
  unfold encS at hm
  rw [List.mem_flatMap] at hm
  obtain ⟨c, _, hb⟩ := hm
  have := he.byte c _ hb
  revert this
  decide

/-- the table of encoded cells -/
def encRows (e : Char → Str) (rows : List (List Str)) : List (List Str) :=
  rows.map (fun r => r.map (encS e))

theorem noBreakRows_enc (e : Char → Str) (he : AsciiTransparent e) (rows : List (List Str))
    (h : NoBreakRows rows) : NoBreakRows (encRows e rows) := by
  intro r hr f hf
  unfold encRows at hr
  rw [List.mem_map] at hr
  obtain ⟨r0, hr0, rfl⟩ := hr
  rw [List.mem_map] at hf
  obtain ⟨f0, hf0, rfl⟩ := hf
  exact noBreak_enc e he f0 (h r0 hr0 f0 hf0)

theorem noBomRows_enc (e : Char → Str) (he : AsciiTransparent e) (rows : List (List Str)) :
    NoBomRows (encRows e rows) := by
  intro r hr f hf
  unfold encRows at hr
  rw [List.mem_map] at hr
  obtain ⟨r0, _, rfl⟩ := hr
  rw [List.mem_map] at hf
  obtain ⟨f0, _, rfl⟩ := hf
  exact bom_not_mem_enc e he f0

end N0.CsvFile
