import N0Verif.Model.Tlv
import N0Verif.Gen.TlvPy
/-!
  The definitions that `harness/translate_py_tlv.py` regenerates from the Python source of `parse_tlv`
  (`Gen/TlvPy.lean`) are equal to the hand-written model (`Model/Tlv.lean`): the body of the `while` loop is
  `Tlv.step` (seen through what the generator yields and the next offset), the loop test is `offset < len`, and
  the generator is `Tlv.loop` seen through `viewRes` (yielded triples + how the iteration ended).  The model counts
  offsets and field widths in `Nat`, the translated code in `Int`; the theorems are about non-negative widths.
-/
namespace N0.TlvGenEq
open N0 N0.Py N0.Tlv N0.Gen.TlvPy

theorem tlvgen_normBound (len a : Nat) : normBound len (a : Int) = a := by
  simp [normBound]
  omega

theorem tlvgen_slice (s : Str) (a b : Nat) : sliceFromTo s (a : Int) (b : Int) = Tlv.slice s a b := by
  simp [sliceFromTo, tlvgen_normBound, Tlv.slice]

/-- what the caller sees of one iteration of the model: the yielded triple, and the next offset -/
def viewStep (t : Trip) : (Str × Int × Str) × ParseTlv.State := (t.view, ⟨(t.next : Int)⟩)

theorem step_eq (s : Str) (tl ll off : Nat) :
    ParseTlv.step s tl ll ⟨off⟩ = (Tlv.step Tlv.pyInt s tl ll off).map viewStep := by
  simp only [ParseTlv.step, Tlv.step, pyIntE, ← Int.natCast_add, tlvgen_slice]
  cases h : Tlv.pyInt (Tlv.slice s (off + tl) (off + tl + ll)) with
  | none => simp [Except.map]
  | some n =>
    simp only []
    by_cases hn : n < 0
    · simp [hn, Except.map]
    · have hn' : ((n.toNat : Nat) : Int) = n := Int.toNat_of_nonneg (by omega)
      simp only [hn, decide_false, Bool.false_eq_true, if_false, Except.map, viewStep, Trip.view]
      rw [← hn', ← Int.natCast_add, tlvgen_slice]
      simp [hn']

theorem cond_eq (s : Str) (tl ll : Int) (off : Nat) :
    ParseTlv.cond s tl ll ⟨off⟩ = decide (off < s.length) := by
  simp [ParseTlv.cond]

def statusOpt : Status → Option PyErr
  | .done => none
  | .raised e => some e

/-- what the consumer of the generator sees: the yielded triples and how the iteration ended -/
def viewRes (r : Res) : List (Str × Int × Str) × Option PyErr := (r.trips.map Trip.view, statusOpt r.status)

theorem loop_eq (s : Str) (tl ll : Nat) : ∀ (fuel off : Nat),
    whileY (ParseTlv.cond s tl ll) (ParseTlv.step s tl ll) fuel ⟨off⟩
      = viewRes (Tlv.loop (Tlv.step Tlv.pyInt s tl ll) s.length fuel off) := by
  intro fuel
  induction fuel with
  | zero => intro off; simp [whileY, Tlv.loop, viewRes, statusOpt]
  | succ k ih =>
    intro off
    rw [whileY, Tlv.loop, cond_eq, step_eq]
    by_cases h : off < s.length
    · simp only [h, decide_true, if_true]
      cases Tlv.step Tlv.pyInt s tl ll off with
      | error e => simp [Except.map, viewRes, statusOpt]
      | ok t => simp [Except.map, viewStep, ih t.next, viewRes]
    · simp [h, viewRes, statusOpt]

theorem parseTlv_eq (s : Str) (tl ll fuel : Nat) :
    Gen.TlvPy.parseTlv s tl ll fuel = viewRes (Tlv.parseTlvFuel Tlv.pyInt s tl ll fuel) := by
  have h := loop_eq s tl ll fuel 0
  simp only [Int.natCast_zero] at h
  simp only [Gen.TlvPy.parseTlv, Tlv.parseTlvFuel, Tlv.parseWith, h]
  cases s with
  | nil => simp [viewRes, statusOpt]
  | cons c s => simp <;> omega
end N0.TlvGenEq

