import N0Verif.Proofs.XPathTreeFound
/-!
  `__setitem__` on a missing path: what `_find` reports for the miss, what `_add` creates and what
  the final store writes — for chains of fresh names and for the element-creating steps
  `name[new()]`, `name[0]` (fresh name) and `name[len]`.
-/
namespace N0.XPath
open N0 N0.Py N0.Val

/-! ### the miss -/

/-- a token whose name part is absent from the dict `_find` stands on: NOT FOUND, nothing written -/
theorem find_name_miss (fuel : Nat) (root : Val) (entry rl : Bool) (q : Pos) (found tok k : Str) (idx : Idx)
    (rest : List Str) (cls : Cls) (kvs : List (Str × Val))
    (hq : getAt root q = some (.dict cls kvs)) (hsplit : splitNameIndex tok = .ok (k, idx))
    (hne : k ≠ []) (hup : k ≠ ['.', '.']) (hstar : k ≠ ['*']) (hl : lookup k kvs = Option.none) :
    findD (fuel + 1) root [] false entry (tok :: rest) (.at q) rl found
      = .ok (root, { parent := .at q, nameIdx := Option.none, value := Val.none, found := found,
                     notFound := some (tok :: rest) }) := by
  have hne' : k.isEmpty = false := isEmpty_false_of_ne hne
  rw [findD]
  simp only [Bool.false_and, Bool.false_eq_true, if_false, valOf_at, hq, hsplit, hne', Bool.not_false,
    hup, hstar, isList, isDict, Bool.not_true, hl, if_true]

/-- walk along `toks0`, then miss at a name -/
theorem find_walk_miss (root : Val) (rl : Bool) {toks0 : List Str} {v : Val} {p : Pos} {cls : Cls}
    {kvs : List (Str × Val)} {w : Str} (h : SpellsF toks0 v p (.dict cls kvs) w)
    (tok k : Str) (idx : Idx) (rest : List Str) (hsplit : splitNameIndex tok = .ok (k, idx))
    (hne : k ≠ []) (hup : k ≠ ['.', '.']) (hstar : k ≠ ['*']) (hl : lookup k kvs = Option.none)
    (fuel : Nat) (q : Pos) (found : Str) (entry : Bool) (hq : getAt root q = some v)
    (hf : fuel ≥ 2 * toks0.length + 1) :
    findD fuel root [] false entry (toks0 ++ tok :: rest) (.at q) rl found
      = .ok (root, { parent := .at (q ++ p), nameIdx := Option.none, value := Val.none, found := found ++ w,
                     notFound := some (tok :: rest) }) := by
  obtain ⟨f', e', h1, _, heq⟩ := find_walk root rl h (tok :: rest) (by simp) fuel q found entry hq (by omega)
  obtain ⟨f, rfl⟩ : ∃ f, f' = f + 1 := ⟨f' - 1, by omega⟩
  have hq' : getAt root (q ++ p) = some (.dict cls kvs) := by
    rw [getAt_append, hq]; simpa using h.getAt
  rw [heq, find_name_miss f root e' rl (q ++ p) (found ++ w) tok k idx rest cls kvs hq' hsplit hne hup hstar hl]

/-! ### tree lemmas -/

theorem kvSet_kvSet (k : Str) (x y : Val) (kvs : List (Str × Val)) :
    kvSet k y (kvSet k x kvs) = kvSet k y kvs := by
  induction kvs with
  | nil => simp [kvSet]
  | cons kv kvs ih =>
    obtain ⟨k', z⟩ := kv
    by_cases h : k = k'
    · subst h; simp [kvSet]
    · simp [kvSet, h, ih]

theorem kvSet_fresh (k : Str) (x : Val) (kvs : List (Str × Val)) (h : lookup k kvs = Option.none) :
    kvSet k x kvs = kvs ++ [(k, x)] := by
  induction kvs with
  | nil => rfl
  | cons kv kvs ih =>
    obtain ⟨k', z⟩ := kv
    by_cases hk : k = k'
    · subst hk; simp [lookup] at h
    · simp only [lookup, hk, if_false] at h
      simp [kvSet, hk, ih h]

theorem setChild_overwrite {t t1 : Val} {s : Seg} {x : Val} (h : setChild t s x = some t1) (y : Val) :
    setChild t1 s y = setChild t s y := by
  cases t <;> cases s <;> simp [setChild] at h
  · obtain ⟨hlt, rfl⟩ := h
    simp [setChild, hlt]
  · subst h; simp [setChild, kvSet_kvSet]

/-- writing twice at the same position: the second write wins -/
theorem setAt_overwrite : ∀ (p : Pos) (t t1 x y : Val), setAt t p x = some t1 → setAt t1 p y = setAt t p y
  | [], _, _, _, _, _ => rfl
  | [s], t, t1, x, y, h => by
      simp only [setAt] at h ⊢; exact setChild_overwrite h y
  | s :: s2 :: rest, t, t1, x, y, h => by
      rw [setAt_cons_cons] at h
      cases hc : child t s with
      | none => simp [hc] at h
      | some c =>
        simp only [hc, Option.bind] at h
        cases hs : setAt c (s2 :: rest) x with
        | none => simp [hs] at h
        | some c' =>
          simp only [hs] at h
          have ih := setAt_overwrite (s2 :: rest) c c' x y hs
          rw [setAt_cons_cons, setAt_cons_cons, child_setChild_same h, hc]
          simp only [Option.bind]
          rw [ih]
          cases setAt c (s2 :: rest) y with
          | none => rfl
          | some z => exact setChild_overwrite h z

/-- reading below a written position reads inside the written value -/
theorem getAt_setAt_below (t t' y : Val) (p r : Pos) (h : setAt t p y = some t') :
    getAt t' (p ++ r) = getAt y r := by
  rw [getAt_append, getAt_setAt_same p t t' y h (fun _ _ => trivial)]; rfl

theorem diverge_or_prefix : ∀ (w p : Pos), Diverge w p ∨ p <+: w ∨ w <+: p
  | [], p => Or.inr (Or.inr (List.nil_prefix))
  | _ :: _, [] => Or.inr (Or.inl (List.nil_prefix))
  | s :: w, s' :: p => by
    by_cases h : s = s'
    · subst h
      rcases diverge_or_prefix w p with hd | hp | hp
      · exact Or.inl (Or.inr ⟨rfl, hd⟩)
      · exact Or.inr (Or.inl ((List.prefix_cons_inj s).2 hp))
      · exact Or.inr (Or.inr ((List.prefix_cons_inj s).2 hp))
    · exact Or.inl (Or.inl h)

/-- **frame (new slot).**  A write at a position that did not exist keeps every existing node
that is not an ancestor of the new slot. -/
theorem frame_new_slot (t t' v x : Val) (w p : Pos) (hset : setAt t w v = some t')
    (hnew : getAt t w = Option.none) (hp : getAt t p = some x) (hnp : ¬ p <+: w) : getAt t' p = some x := by
  rcases diverge_or_prefix w p with hd | hpre | hpre
  · rw [getAt_setAt_diverge w p t t' v hset hd, hp]
  · exact absurd hpre hnp
  · obtain ⟨r, rfl⟩ := hpre
    rw [getAt_append, hnew] at hp; cases hp

/-- **frame (replaced container).**  Replacing the node at `w` keeps every existing node that is
neither an ancestor of `w` nor inside `w`. -/
theorem frame_outside (t t' v x : Val) (w p : Pos) (hset : setAt t w v = some t')
    (hp : getAt t p = some x) (hnp : ¬ p <+: w) (hnw : ¬ w <+: p) : getAt t' p = some x := by
  rcases diverge_or_prefix w p with hd | hpre | hpre
  · rw [getAt_setAt_diverge w p t t' v hset hd, hp]
  · exact absurd hpre hnp
  · exact absurd hpre hnw

/-! ### `_add`, one level at a time -/

theorem ok_bind {α β} (x : α) (f : α → PyM β) : (Except.ok x >>= f) = f x := rfl

theorem PlainKey.noSlashC {k : Str} (h : PlainKey k) : k.contains '/' = false :=
  contains_false_of_forall k '/' h.noSlash

theorem modRef_at' (root : Val) (pp : Pos) (f : Val → Val) (pv root1 : Val) (h : getAt root pp = some pv)
    (hs : setAt root pp (f pv) = some root1) : modRef root (.at pp) f = (root1, .at pp) := by
  simp [modRef, valOf, h, writeRef, hs]

/-- fresh plain name below the dict `_find` stopped at (first level of `_add`) -/
theorem addStep_name_first (root root1 : Val) (q : Pos) (c : Cls) (kvs : List (Str × Val)) (n : Str)
    (hq : getAt root q = some (.dict c kvs)) (hn : PlainKey n) (hl : lookup n kvs = Option.none)
    (hs : setAt root q (.dict c (kvSet n emptyN0Dict kvs)) = some root1) :
    addStep root (.at q) Option.none n = .ok (root1, .at q, n) := by
  unfold addStep
  simp only [pure_bind, hn.keyTok.split, ok_bind, hn.noBracket, hn.noSlashC, List.contains_nil, Bool.or_self,
    Bool.false_eq_true, if_false, List.isEmpty_nil, Bool.not_true, valOf_at, hq,
    isEmpty_false_of_ne hn.ne, Bool.not_false, if_true, hl, Idx.truthy]
  rw [modRef_at' root q _ (.dict c kvs) root1 hq]
  · rfl
  · exact hs


/-- fresh plain name below the dict created one level up (`node_name_index` is that dict's key) -/
theorem addStep_name_next (root root1 : Val) (q : Pos) (c : Cls) (kvs : List (Str × Val)) (n0 : Str)
    (c' : Cls) (kvs' : List (Str × Val)) (m : Str)
    (hq : getAt root q = some (.dict c kvs)) (hn0 : PlainKey n0) (hl0 : lookup n0 kvs = some (.dict c' kvs'))
    (hm : PlainKey m) (hl : lookup m kvs' = Option.none)
    (hs : setAt root (q ++ [.key n0]) (.dict c' (kvSet m emptyN0Dict kvs')) = some root1) :
    addStep root (.at q) (some n0) m = .ok (root1, .at (q ++ [.key n0]), m) := by
  have hq1 : getAt root (q ++ [.key n0]) = some (.dict c' kvs') := by
    rw [getAt_snoc, hq]; simp [child, hl0]
  have hhas : kvHas n0 kvs = true := by simp [kvHas, hl0]
  unfold addStep
  simp only [isEmpty_false_of_ne hn0.ne, Bool.false_eq_true, if_false, hn0.keyTok.split, hm.keyTok.split, ok_bind,
    hm.noBracket, hm.noSlashC, hn0.noBracket, Bool.or_self, Bool.not_false, if_true, valOf_at, hq, hhas, pure_bind,
    childRef, hq1, isEmpty_false_of_ne hm.ne, hl, Idx.truthy]
  rw [modRef_at' root (q ++ [Seg.key n0]) _ (.dict c' kvs') root1 hq1]
  · rfl
  · exact hs

/-! ### the final store -/

theorem storeAt_key (root root1 : Val) (q : Pos) (c : Cls) (kvs : List (Str × Val)) (n : Str) (v : Val)
    (hq : getAt root q = some (.dict c kvs)) (hn : PlainKey n)
    (hs : setAt root q (.dict c (kvSet n v kvs)) = some root1) :
    storeAt root (.at q) (some n) v = .ok root1 := by
  unfold storeAt
  simp only [hn.keyTok.split, valOf_at, hq, Idx.truthy, Bool.false_eq_true, if_false]
  rw [modRef_at' root q _ (.dict c kvs) root1 hq]
  exact hs

theorem sLast_eq : sLast = ['l', 'a', 's', 't', '(', ')'] := by decide
theorem sNew_eq : sNew = ['n', 'e', 'w', '(', ')'] := by decide

theorem idxExpr_last : IdxExpr sLast where
  ne := by decide
  head := by intro c hc; rw [sLast_eq] at hc; simp at hc; subst hc; decide
  last := by intro c hc; rw [sLast_eq] at hc; simp at hc; subst hc; decide
  notContains := by decide
  noEq := by decide

theorem idxExpr_new : IdxExpr sNew where
  ne := by decide
  head := by intro c hc; rw [sNew_eq] at hc; simp at hc; subst hc; decide
  last := by intro c hc; rw [sNew_eq] at hc; simp at hc; subst hc; decide
  notContains := by decide
  noEq := by decide

theorem split_bracket_last : splitNameIndex (bracket sLast) = .ok ([], .str sLast) := by decide
theorem split_bracket_new : splitNameIndex (bracket sNew) = .ok ([], .str sNew) := by decide

theorem normIdx_last (len : Nat) (h : 0 < len) : normIdx (-1) len = some (len - 1) := by
  unfold normIdx
  simp
  omega

/-- `parent["[last()]"] = v` on a non-empty list -/
theorem storeAt_last (root root1 : Val) (P : Pos) (c : Cls) (xs : List Val) (v : Val)
    (hP : getAt root P = some (.list c xs)) (hne : 0 < xs.length)
    (hs : setAt root P (.list c (xs.set (xs.length - 1) v)) = some root1) :
    storeAt root (.at P) (some (bracket sLast)) v = .ok root1 := by
  unfold storeAt
  simp only [split_bracket_last, valOf_at, hP, List.isEmpty_nil, Bool.not_true, Bool.false_eq_true, if_false,
    n0eval_last, normIdx_last xs.length hne]
  rw [modRef_at' root P _ (.list c xs) root1 hP]
  exact hs

/-- a write into the dict that an earlier write put at `P` -/
theorem setAt_into_written (root root1 : Val) (P : Pos) (c0 : Cls) (kvs0 : List (Str × Val)) (m : Str) (X : Val)
    (h : setAt root P (.dict c0 kvs0) = some root1) :
    setAt root1 (P ++ [.key m]) X = setAt root P (.dict c0 (kvSet m X kvs0)) := by
  rw [setAt_snoc P root1 (.key m) X (.dict c0 kvs0) (.dict c0 (kvSet m X kvs0))
    (getAt_setAt_same P root root1 _ h (fun _ _ => trivial)) (by simp [setChild])]
  exact setAt_overwrite P root root1 _ _ h

/-- nested dictionaries for a chain of names ending in `v` -/
def chain : List Str → Val → Val
  | [], v => v
  | n :: ns, v => .dict .n0 [(n, chain ns v)]

/-- `_add` below a dict it has just created (or found), for the remaining fresh names, followed by
the store: exactly the nested dictionaries -/
theorem add_store_names : ∀ (ms : List Str) (root : Val) (q : Pos) (c : Cls) (kvs : List (Str × Val)) (n : Str)
    (c' : Cls) (kvs' : List (Str × Val)) (m : Str) (v t' : Val),
    getAt root q = some (.dict c kvs) → PlainKey n → lookup n kvs = some (.dict c' kvs') →
    PlainKey m → lookup m kvs' = Option.none → (∀ x ∈ ms, PlainKey x) →
    setAt root (q ++ [.key n, .key m]) (chain ms v) = some t' →
    ∃ root' par ni, add root (.at q) (some n) (m :: ms) = (root', .ok (par, ni)) ∧
      storeAt root' par (some ni) v = .ok t'
  | ms, root, q, c, kvs, n, c', kvs', m, v, t', hq, hn, hl0, hm, hl, hms, hset => by
    have hq1 : getAt root (q ++ [Seg.key n]) = some (.dict c' kvs') := by
      rw [getAt_snoc, hq]; simp [child, hl0]
    obtain ⟨root1, hs1⟩ := setAt_isSome (q ++ [Seg.key n]) root _ (.dict c' (kvSet m emptyN0Dict kvs')) hq1
    have hstep := addStep_name_next root root1 q c kvs n c' kvs' m hq hn hl0 hm hl hs1
    have hg1 : getAt root1 (q ++ [Seg.key n]) = some (.dict c' (kvSet m emptyN0Dict kvs')) :=
      getAt_setAt_same _ root root1 _ hs1 (fun _ _ => trivial)
    -- the same tree, seen as a write of the empty dict at the new key
    have hs1' : setAt root (q ++ [Seg.key n] ++ [Seg.key m]) emptyN0Dict = some root1 := by
      rw [setAt_snoc (q ++ [Seg.key n]) root (.key m) emptyN0Dict _ _ hq1 (by simp [setChild]; rfl)]
      exact hs1
    have hassoc : q ++ [Seg.key n, Seg.key m] = q ++ [Seg.key n] ++ [Seg.key m] := by simp
    cases ms with
    | nil =>
      refine ⟨root1, .at (q ++ [Seg.key n]), m, by simp [add, hstep], ?_⟩
      apply storeAt_key root1 t' (q ++ [Seg.key n]) c' _ m v hg1 hm
      rw [setAt_overwrite _ root root1 _ _ hs1, kvSet_kvSet]
      simp only [chain] at hset
      rw [hassoc, setAt_snoc (q ++ [Seg.key n]) root (.key m) v _ _ hq1 (by simp [setChild]; rfl)] at hset
      exact hset
    | cons a r =>
      have ih := add_store_names r root1 (q ++ [Seg.key n]) c' (kvSet m emptyN0Dict kvs') m .n0 [] a v t'
        hg1 hm (lookup_kvSet_same _ _ _) (hms a (by simp)) rfl (fun x hx => hms x (by simp [hx]))
        (by
          have := setAt_into_written root root1 (q ++ [Seg.key n] ++ [Seg.key m]) .n0 [] a (chain r v) hs1'
          rw [show q ++ [Seg.key n] ++ [Seg.key m, Seg.key a] = q ++ [Seg.key n] ++ [Seg.key m] ++ [Seg.key a] by simp,
            this, ← hassoc]
          exact hset)
      obtain ⟨root', par, ni, hadd, hst⟩ := ih
      refine ⟨root', par, ni, ?_, hst⟩
      rw [add, hstep]
      simpa using hadd
termination_by ms => ms.length

/-- **`_add` + store for a chain of fresh names** below the dict `_find` stopped at -/
theorem add_store_chain (root : Val) (q : Pos) (c : Cls) (kvs : List (Str × Val)) (n : Str) (ns : List Str)
    (v t' : Val) (hq : getAt root q = some (.dict c kvs)) (hn : PlainKey n) (hl : lookup n kvs = Option.none)
    (hns : ∀ x ∈ ns, PlainKey x) (hset : setAt root (q ++ [.key n]) (chain ns v) = some t') :
    ∃ root' par ni, add root (.at q) Option.none (n :: ns) = (root', .ok (par, ni)) ∧
      storeAt root' par (some ni) v = .ok t' := by
  obtain ⟨root1, hs1⟩ := setAt_isSome q root _ (.dict c (kvSet n emptyN0Dict kvs)) hq
  have hstep := addStep_name_first root root1 q c kvs n hq hn hl hs1
  have hg1 : getAt root1 q = some (.dict c (kvSet n emptyN0Dict kvs)) :=
    getAt_setAt_same _ root root1 _ hs1 (fun _ _ => trivial)
  have hs1' : setAt root (q ++ [Seg.key n]) emptyN0Dict = some root1 := by
    rw [setAt_snoc q root (.key n) emptyN0Dict _ _ hq (by simp [setChild]; rfl)]
    exact hs1
  cases ns with
  | nil =>
    refine ⟨root1, .at q, n, by simp [add, hstep], ?_⟩
    apply storeAt_key root1 t' q c _ n v hg1 hn
    rw [setAt_overwrite _ root root1 _ _ hs1, kvSet_kvSet]
    simp only [chain] at hset
    rw [setAt_snoc q root (.key n) v _ _ hq (by simp [setChild]; rfl)] at hset
    exact hset
  | cons a r =>
    obtain ⟨root', par, ni, hadd, hst⟩ := add_store_names r root1 q c (kvSet n emptyN0Dict kvs) n .n0 [] a v t'
      hg1 hn (lookup_kvSet_same _ _ _) (hns a (by simp)) rfl (fun x hx => hns x (by simp [hx]))
      (by
        have := setAt_into_written root root1 (q ++ [Seg.key n]) .n0 [] a (chain r v) hs1'
        rw [show q ++ [Seg.key n, Seg.key a] = q ++ [Seg.key n] ++ [Seg.key a] by simp, this]
        exact hset)
    refine ⟨root', par, ni, ?_, hst⟩
    rw [add, hstep]
    simpa using hadd

/-! ### tokens of a canonical path continued by names -/

theorem PlainPos.append {p r : Pos} (hp : PlainPos p) (hr : PlainPos r) : PlainPos (p ++ r) := by
  induction p with
  | nil => simpa using hr
  | cons s p ih =>
    cases s with
    | key k => exact ⟨hp.1, ih hp.2⟩
    | idx n => exact ih hp

theorem plainPos_keys : ∀ (ns : List Str), (∀ m ∈ ns, PlainKey m) → PlainPos (ns.map Seg.key)
  | [], _ => trivial
  | n :: ns, h => ⟨h n (by simp), plainPos_keys ns (fun m hm => h m (by simp [hm]))⟩

/-- a key step is never merged with what precedes it -/
theorem mergedToks_append_key (p : Pos) (k : Str) (r : Pos) :
    mergedToks (p ++ .key k :: r) = mergedToks p ++ mergedToks (.key k :: r) := by
  induction p using mergedToks.induct with
  | case1 => simp [mergedToks]
  | case2 k' n rest ih => simp [mergedToks, ih]
  | case3 k' rest hne ih =>
    cases rest with
    | nil => cases r with
      | nil => simp [mergedToks]
      | cons s r' => cases s <;> simp [mergedToks]
    | cons s rest' =>
      cases s with
      | key k2 =>
        have e1 : mergedToks (Seg.key k' :: Seg.key k2 :: rest' ++ Seg.key k :: r)
            = k' :: mergedToks (Seg.key k2 :: rest' ++ Seg.key k :: r) := by simp [mergedToks]
        have e2 : mergedToks (Seg.key k' :: Seg.key k2 :: rest') = k' :: mergedToks (Seg.key k2 :: rest') := by
          simp [mergedToks]
        rw [e1, e2, ih]; rfl
      | idx n => exact absurd rfl (hne n rest')
  | case4 n rest ih => simp [mergedToks, ih]

theorem mergedToks_keys : ∀ (ns : List Str), mergedToks (ns.map Seg.key) = ns
  | [] => rfl
  | [n] => by simp [mergedToks]
  | n :: m :: ns => by
    have := mergedToks_keys (m :: ns)
    simp only [List.map_cons] at this ⊢
    simp [mergedToks, this]

theorem qmark_render (s : Str) : startsWith (slash ++ s) ['?'] = false := by simp [slash, startsWith]

/-- **C03 (names).**  Below an existing dict node at `q`, a chain of fresh plain names creates
exactly the nested dictionaries and stores `v` at the end. -/
theorem setItem_create_names (cls : Cls) (kvs : List (Str × Val)) (q : Pos) (kcls : Cls)
    (nkvs : List (Str × Val)) (n : Str) (ns : List Str) (v t' : Val) (fuel : Nat)
    (hp : PlainPos q) (hget : getAt (.dict cls kvs) q = some (.dict kcls nkvs))
    (hl : lookup n nkvs = Option.none) (hn : PlainKey n) (hns : ∀ m ∈ ns, PlainKey m)
    (hset : setAt (.dict cls kvs) (q ++ [.key n]) (chain ns v) = some t')
    (hf : fuel ≥ 2 * q.length + 1) :
    setItem fuel (.dict cls kvs) (slash ++ renderPos (q ++ (n :: ns).map Seg.key)) v = (t', .ok ()) := by
  have hpp : PlainPos (q ++ (n :: ns).map Seg.key) :=
    hp.append (plainPos_keys (n :: ns) (by intro m hm; simp at hm; rcases hm with rfl | hm; exact hn; exact hns m hm))
  have htok : tokenize (slash ++ renderPos (q ++ (n :: ns).map Seg.key)) = mergedToks q ++ n :: ns := by
    have h1 := tokenize_render _ hpp
    have h2 := mergedToks_keys (n :: ns)
    simp only [List.map_cons] at h1 h2 ⊢
    rw [show slash ++ renderPos (q ++ Seg.key n :: ns.map Seg.key) = '/' :: renderPos (q ++ Seg.key n :: ns.map Seg.key) from rfl,
      h1, mergedToks_append_key, h2]
  have hlen := mergedToks_length_le q
  have hfind := find_walk_miss (.dict cls kvs) true (spellsF_merged q _ _ hp hget) n n .none ns hn.keyTok.split
    hn.ne hn.notUp hn.keyTok.notStar hl fuel [] slash true rfl (by omega)
  obtain ⟨root', par, ni, hadd, hst⟩ := add_store_chain (.dict cls kvs) q kcls nkvs n ns v t' hget hn hl hns hset
  unfold setItem
  simp only [qmark_render, Bool.false_and, Bool.false_eq_true, if_false, hasPathChar_render, if_true, htok, hfind,
    hiddenPlace_mk_at, List.nil_append, List.isEmpty_cons, Bool.not_false, hadd, hst]

/-! ### tokenisation across a '/' -/

theorem fixBr_nil : fixBr [] = [] := by rw [fixBr]

theorem fixBr_append_slash : ∀ (a b : Str), fixBr (a ++ '/' :: b) = fixBr a ++ '/' :: fixBr b
  | [], b => by rw [List.nil_append, fixBr_cons_ne '/' _ (by decide), fixBr_nil]; rfl
  | [c], b => by
    by_cases hc : c = ']'
    · subst hc
      rw [show [']'] ++ '/' :: b = ']' :: '/' :: b from rfl, fixBr_rb_other '/' _ (by decide),
        fixBr_cons_ne '/' _ (by decide), fixBr_rb_nil]; rfl
    · rw [show [c] ++ '/' :: b = c :: '/' :: b from rfl, fixBr_cons_ne c _ hc, fixBr_cons_ne '/' _ (by decide),
        fixBr_cons_ne c _ hc, fixBr_nil]; rfl
  | c :: d :: rest, b => by
    by_cases hc : c = ']'
    · subst hc
      by_cases hd : d = '['
      · subst hd
        rw [show (']' :: '[' :: rest) ++ '/' :: b = ']' :: '[' :: (rest ++ '/' :: b) from rfl, fixBr_rb_lb, fixBr_rb_lb,
          fixBr_append_slash rest b]; rfl
      · rw [show (']' :: d :: rest) ++ '/' :: b = ']' :: d :: (rest ++ '/' :: b) from rfl, fixBr_rb_other d _ hd,
          fixBr_rb_other d _ hd]
        have := fixBr_append_slash (d :: rest) b
        rw [List.cons_append] at this
        rw [this]; rfl
    · rw [show (c :: d :: rest) ++ '/' :: b = c :: ((d :: rest) ++ '/' :: b) from rfl, fixBr_cons_ne c _ hc,
        fixBr_cons_ne c _ hc, fixBr_append_slash (d :: rest) b]; rfl

theorem splitChar_ne_nil (c : Char) : ∀ (s : Str), splitChar c s ≠ []
  | [] => by simp [splitChar]
  | x :: s => by
    by_cases h : x = c
    · simp [splitChar, h]
    · simp only [splitChar, h, if_false]
      cases splitChar c s <;> simp

theorem splitChar_append_sep (c : Char) : ∀ (x y : Str), splitChar c (x ++ c :: y) = splitChar c x ++ splitChar c y
  | [], y => by simp [splitChar]
  | a :: x, y => by
    have ih := splitChar_append_sep c x y
    by_cases h : a = c
    · simp [splitChar, h, ih]
    · simp only [List.cons_append, splitChar, h, if_false, ih]
      cases hx : splitChar c x with
      | nil => exact absurd hx (splitChar_ne_nil c x)
      | cons p ps => simp

/-- the token list of a text is the concatenation of the token lists of its two sides of a '/' -/
theorem tokenize_append_slash (a b : Str) : tokenize (a ++ '/' :: b) = tokenize a ++ tokenize b := by
  unfold tokenize
  rw [fixBr_append_slash, splitChar_append_sep, List.filter_append, List.map_append]

theorem fixBr_noRB (s : Str) (h : ∀ c ∈ s, c ≠ ']') : fixBr s = s := by
  have := fixBr_append_noRB s [] h
  rwa [List.append_nil, fixBr_nil, List.append_nil] at this

theorem tokenize_key {k : Str} (hk : PlainKey k) : tokenize k = [k] := by
  unfold tokenize
  rw [fixBr_noRB k hk.noRB, splitChar_no_delim '/' k hk.noSlash]
  simp [isEmpty_false_of_ne hk.ne, hk.stripWs]

/-- index text that can stand between brackets without disturbing the tokeniser -/
def CleanIdx (e : Str) : Prop := ∀ c ∈ e, c ≠ ']' ∧ c ≠ '/'

theorem cleanIdx_new : CleanIdx sNew := by unfold CleanIdx; decide
theorem cleanIdx_last : CleanIdx sLast := by unfold CleanIdx; decide
theorem cleanIdx_nat (n : Nat) : CleanIdx (natStr n) := fun c hc => ⟨natStr_noRB n c hc, natStr_noSlash n c hc⟩

theorem tokenize_keyBracket {k e : Str} (hk : PlainKey k) (he : CleanIdx e) :
    tokenize (k ++ bracket e) = [k ++ bracket e] := by
  have hform : k ++ bracket e = (k ++ '[' :: e) ++ [']'] := by simp [bracket]
  have hnoRB : ∀ c ∈ k ++ '[' :: e, c ≠ ']' := by
    intro c hc
    simp only [List.mem_append, List.mem_cons] at hc
    rcases hc with hc | hc | hc
    · exact hk.noRB c hc
    · subst hc; decide
    · exact (he c hc).1
  have hnoSl : ∀ c ∈ (k ++ '[' :: e) ++ [']'], c ≠ '/' := by
    intro c hc
    simp only [List.mem_append, List.mem_cons, List.not_mem_nil, or_false] at hc
    rcases hc with (hc | hc | hc) | hc
    · exact hk.noSlash c hc
    · subst hc; decide
    · exact (he c hc).2
    · subst hc; decide
  have hstrip : stripWs ((k ++ '[' :: e) ++ [']']) = (k ++ '[' :: e) ++ [']'] := by
    apply stripWs_eq_self
    · intro c hc
      cases k with
      | nil => exact absurd rfl hk.ne
      | cons x k =>
        simp at hc; subst hc
        exact (plainChar_ne (hk.chars _ (by simp))).2.2.2.2
    · intro c hc
      rw [List.getLast?_append] at hc
      simp at hc; subst hc; decide
  unfold tokenize
  rw [hform, fixBr_append_noRB _ _ hnoRB, fixBr_rb_nil, splitChar_no_delim '/' _ hnoSl]
  simp only [List.filter_cons, List.filter_nil]
  rw [if_pos (by simp)]
  simp only [List.map_cons, List.map_nil, hstrip]

theorem renderPos_keys_cons (x : Str) (ms : List Str) :
    renderPos ((x :: ms).map Seg.key) = '/' :: (x ++ renderPos (ms.map Seg.key)) := by
  simp [renderPos, renderSeg]

/-- a token followed by `/x/y/…` -/
theorem tokenize_then_names (T : Str) : ∀ (ms : List Str), (∀ m ∈ ms, PlainKey m) →
    tokenize (T ++ renderPos (ms.map Seg.key)) = tokenize T ++ ms
  | [], _ => by simp [renderPos]
  | [x], h => by
    rw [renderPos_keys_cons, tokenize_append_slash]
    simp [renderPos, tokenize_key (h x (by simp))]
  | x :: y :: ms, h => by
    have ih := tokenize_then_names x (y :: ms) (fun m hm => h m (by simp [hm]))
    rw [renderPos_keys_cons, tokenize_append_slash, ih, tokenize_key (h x (by simp))]
    simp

/-- tokens of `//…q…/name[e]/x/y…` -/
theorem tokenize_elem_path (q : Pos) (hp : PlainPos q) {name e : Str} (hn : PlainKey name) (he : CleanIdx e)
    (tail : List Str) (ht : ∀ m ∈ tail, PlainKey m) :
    tokenize (slash ++ renderPos q ++ slash ++ (name ++ bracket e) ++ renderPos (tail.map Seg.key))
      = mergedToks q ++ (name ++ bracket e) :: tail := by
  rw [tokenize_then_names _ tail ht]
  have : slash ++ renderPos q ++ slash ++ (name ++ bracket e) = ('/' :: renderPos q) ++ '/' :: (name ++ bracket e) := by
    simp [slash]
  rw [this, tokenize_append_slash, tokenize_render q hp, tokenize_keyBracket hn he]
  simp

/-! ### `_find` on the element-creating steps -/

/-- `name[e]` with `name` present: descend and re-emit `[e]` (whatever `e` is) -/
theorem find_keyidx_step' (fuel : Nat) (root : Val) (entry rl : Bool) (q : Pos) (found tok k e : Str)
    (rest : List Str) (cls : Cls) (kvs : List (Str × Val)) (c : Val)
    (hq : getAt root q = some (.dict cls kvs)) (hsplit : splitNameIndex tok = .ok (k, .str e))
    (hne : k ≠ []) (hup : k ≠ ['.', '.']) (hstar : k ≠ ['*']) (hl : lookup k kvs = some c) :
    findD (fuel + 1) root [] false entry (tok :: rest) (.at q) rl found
      = findD fuel root [] false false (bracket e :: rest) (.at (q ++ [Seg.key k])) rl (found ++ slash ++ k) := by
  have hne' : k.isEmpty = false := isEmpty_false_of_ne hne
  rw [findD]
  simp only [Bool.false_and, Bool.false_eq_true, if_false, valOf_at, hq, hsplit, hne', Bool.not_false,
    hup, hstar, isList, isDict, Bool.not_true, hl, childRef]
  simp

/-- an index beyond the end of the list: NOT FOUND with the list as parent -/
theorem find_idx_miss (fuel : Nat) (root : Val) (entry rl : Bool) (P : Pos) (found tok e : Str) (i : Int)
    (rest : List Str) (cls : Cls) (xs : List Val)
    (hP : getAt root P = some (.list cls xs)) (hk : IdxTok tok e i)
    (hout : i ≥ (xs.length : Int) ∨ i < -(xs.length : Int)) :
    findD (fuel + 1) root [] false entry (tok :: rest) (.at P) rl found
      = .ok (root, { parent := .at P, nameIdx := some (bracket (intStr i)), value := Val.none, found := found,
                     notFound := some (tok :: rest) }) := by
  have hne : e.isEmpty = false := isEmpty_false_of_ne hk.ne
  rw [findD]
  simp only [Bool.false_and, Bool.false_eq_true, if_false, valOf_at, hP, hk.split, List.isEmpty_nil,
    Idx.truthy, hne, Bool.not_false, Bool.and_false, Bool.not_true, hk.notNew, hk.notStar, hk.eval]
  simp [hout]

theorem foundAt_snoc_key {root : Val} {q : Pos} {name : Str} {c : Val} {r : Res} {kcls : Cls}
    {nkvs : List (Str × Val)} (h : FoundAt root [] (q ++ [.key name]) c r)
    (hq : getAt root q = some (.dict kcls nkvs)) : r.parent = .at q ∧ r.nameIdx = some name := by
  obtain ⟨_, _, pp, s, pv, ni, hp, hpar, hpv, hni, hname⟩ := h
  obtain ⟨rfl, hs⟩ := List.append_inj' hp rfl
  simp only [List.cons.injEq, and_true] at hs
  subst hs
  simp only [List.nil_append] at hpar hpv
  rw [hq] at hpv
  cases hpv
  rcases hname.inv with ⟨_, _, k, _, hk, rfl⟩ | ⟨_, _, _, _, _, hk, _, _⟩
  · cases hk; exact ⟨hpar, hni⟩
  · cases hk

/-- `[new()]` below `name`: `_find` re-resolves `found` and reports NOT FOUND — with the list as parent,
or (fix C04-a: the search writes nothing) for a single value as the miss of `name[new()]` below the
parent dictionary -/
theorem find_new_step (fuel : Nat) (root : Val) (entry rl : Bool) (q : Pos) (name : Str) (rest : List Str)
    (kcls : Cls) (nkvs : List (Str × Val)) (old : Val)
    (hp : PlainPos q) (hn : PlainKey name) (hq : getAt root q = some (.dict kcls nkvs))
    (hl : lookup name nkvs = some old) (hf : fuel ≥ 2 * (q.length + 1)) :
    ∃ fnd, findD (fuel + 1) root [] false entry (bracket sNew :: rest) (.at (q ++ [.key name])) rl
        (slash ++ renderPos (q ++ [.key name]))
      = .ok (root,
          if isList old then
            { parent := .at (q ++ [.key name]), nameIdx := Option.none, value := Val.none, found := fnd,
              notFound := some (bracket sNew :: rest) }
          else
            { parent := .at q, nameIdx := Option.none, value := Val.none, found := fnd,
              notFound := some ((name ++ bracket sNew) :: rest) }) := by
  have hP : getAt root (q ++ [Seg.key name]) = some old := by
    rw [getAt_snoc, hq]; simp [child, hl]
  have hpp : PlainPos (q ++ [Seg.key name]) := hp.append ⟨hn, trivial⟩
  have hs := spells_merged _ root old hpp hP
  have hlen := mergedToks_length_le (q ++ [Seg.key name])
  obtain ⟨r, hr, hfound⟩ := find_spells root rl hs (mergedToks_ne_nil _ (by simp)) fuel [] slash false rfl
    (by simp at hlen ⊢; omega)
  obtain ⟨hpar, hni⟩ := foundAt_snoc_key hfound hq
  have htok : tokenize (slash ++ renderPos (q ++ [Seg.key name])) = mergedToks (q ++ [Seg.key name]) :=
    tokenize_render _ hpp
  refine ⟨r.found, ?_⟩
  rw [findD]
  simp only [Bool.false_and, Bool.false_eq_true, if_false, valOf_at, hP, split_bracket_new, List.isEmpty_nil,
    Idx.truthy, Bool.not_true, if_true, htok, hr, hpar, hni, hq, hl]
  cases hlist : isList old with
  | true => simp [childRef, (by decide : sNew ≠ [])]
  | false => simp [(by decide : sNew ≠ [])]

/-! ### `_add` on the element-creating steps -/

/-- `name[new()]` on a name that holds a single value ("Node is EXISTED", fix C04-a): the value becomes
the first item of a new list, followed by the placeholder -/
theorem addStep_existing_new (root root1 : Val) (q : Pos) (c : Cls) (kvs : List (Str × Val)) (name : Str) (old : Val)
    (hq : getAt root q = some (.dict c kvs)) (hn : PlainKey name) (hl : lookup name kvs = some old)
    (hs : setAt root q (.dict c (kvSet name (.list .n0 [old, Val.none]) kvs)) = some root1) :
    addStep root (.at q) Option.none (name ++ bracket sNew) = .ok (root1, .at (q ++ [.key name]), bracket sLast) := by
  have hsplit := split_bracket name sNew (Or.inr hn) idxExpr_new
  unfold addStep
  simp only [pure_bind, hsplit, ok_bind, hn.noBracket, hn.noSlashC, List.contains_nil, Bool.or_self,
    Bool.false_eq_true, if_false, List.isEmpty_nil, Bool.not_true, valOf_at, hq,
    isEmpty_false_of_ne hn.ne, Bool.not_false, if_true, hl]
  rw [modRef_at' root q _ (.dict c kvs) root1 hq]
  · simp [childRef]; rfl
  · exact hs

/-- `name[new()]` / `name[0]` on a fresh name: the one-element list with a placeholder -/
theorem addStep_elem_first (root root1 : Val) (q : Pos) (c : Cls) (kvs : List (Str × Val)) (name e : Str)
    (hq : getAt root q = some (.dict c kvs)) (hn : PlainKey name) (he : e = sNew ∨ e = ['0'])
    (hl : lookup name kvs = Option.none)
    (hs : setAt root q (.dict c (kvSet name (.list .n0 [Val.none]) kvs)) = some root1) :
    addStep root (.at q) Option.none (name ++ bracket e) = .ok (root1, .at (q ++ [.key name]), bracket sLast) := by
  have hie : IdxExpr e := by
    rcases he with rfl | rfl
    · exact idxExpr_new
    · exact (natStr_idxExpr 0)
  have hsplit := split_bracket name e (Or.inr hn) hie
  have hne : e.isEmpty = false := isEmpty_false_of_ne hie.ne
  have hcond : (decide (Idx.str e ≠ Idx.str sNew) && decide (Idx.str e ≠ Idx.str ['0'])) = false := by
    rcases he with rfl | rfl <;> simp
  unfold addStep
  simp only [pure_bind, hsplit, ok_bind, hn.noBracket, hn.noSlashC, List.contains_nil, Bool.or_self,
    Bool.false_eq_true, if_false, List.isEmpty_nil, Bool.not_true, valOf_at, hq,
    isEmpty_false_of_ne hn.ne, Bool.not_false, if_true, hl, Idx.truthy, hne, hcond]
  rw [modRef_at' root q _ (.dict c kvs) root1 hq]
  · simp [childRef]; rfl
  · exact hs

/-- `[new()]` on the list `_find` reported: a placeholder is appended -/
theorem addStep_new_list (root root1 : Val) (P : Pos) (c : Cls) (xs : List Val)
    (hP : getAt root P = some (.list c xs)) (hs : setAt root P (.list c (xs ++ [Val.none])) = some root1) :
    addStep root (.at P) Option.none (bracket sNew) = .ok (root1, .at P, bracket sLast) := by
  unfold addStep
  simp only [pure_bind, split_bracket_new, ok_bind, List.contains_nil, Bool.or_self,
    Bool.false_eq_true, if_false, List.isEmpty_nil, Bool.not_true, valOf_at, hP, ne_eq, not_true_eq_false]
  rw [modRef_at' root P _ (.list c xs) root1 hP]
  · rfl
  · exact hs

/-- `[len]` on the list `_find` reported: a placeholder is appended -/
theorem addStep_len_list (root root1 : Val) (P : Pos) (c : Cls) (xs : List Val)
    (hP : getAt root P = some (.list c xs)) (hs : setAt root P (.list c (xs ++ [Val.none])) = some root1) :
    addStep root (.at P) (some (bracket (natStr xs.length))) (bracket (natStr xs.length))
      = .ok (root1, .at P, bracket sLast) := by
  have hsplit := (natStr_idxTok xs.length).split
  have hd := natStr_digits xs.length
  unfold addStep
  simp only [isEmpty_false_of_ne (bracket_ne_nil _), Bool.false_eq_true, if_false, hsplit, ok_bind, List.contains_nil,
    Bool.or_self, List.isEmpty_nil, Bool.not_true, valOf_at, hP, hd.ne_new.1, hd.ne_new.2, n0eval_nat, Val.len, if_true]
  rw [modRef_at' root P _ (.list c xs) root1 hP]
  · rfl
  · exact hs

/-- a name after the placeholder: the placeholder is replaced by `{name: {}}` -/
theorem addStep_last_name (root root1 : Val) (P : Pos) (c : Cls) (xs : List Val) (x : Str)
    (hP : getAt root P = some (.list c xs)) (hne : xs ≠ []) (hx : PlainKey x)
    (hs : setAt root P (.list c (xs.dropLast ++ [.dict .n0 [(x, emptyN0Dict)]])) = some root1) :
    addStep root (.at P) (some (bracket sLast)) x = .ok (root1, .at (P ++ [.idx (xs.length - 1)]), x) := by
  unfold addStep
  simp only [isEmpty_false_of_ne (bracket_ne_nil _), Bool.false_eq_true, if_false, split_bracket_last, ok_bind,
    hx.keyTok.split, hx.noBracket, hx.noSlashC, List.contains_nil, Bool.or_self, List.isEmpty_nil, Bool.not_true,
    valOf_at, hP, (by decide : sLast ≠ sNew), if_true, isEmpty_false_of_ne hx.ne, Bool.not_false,
    isEmpty_false_of_ne hne, Idx.truthy]
  rw [modRef_at' root P _ (.list c xs) root1 hP]
  · simp [childRef]; rfl
  · exact hs

/-- `name[new()]` / `name[0]` after the placeholder (fix C03-b): the placeholder is replaced by
`{name: [None]}`, the new list has its own placeholder -/
theorem addStep_last_elem (root root1 : Val) (P : Pos) (c : Cls) (xs : List Val) (m e : Str)
    (hP : getAt root P = some (.list c xs)) (hne : xs ≠ []) (hm : PlainKey m) (he : e = sNew ∨ e = ['0'])
    (hs : setAt root P (.list c (xs.dropLast ++ [.dict .n0 [(m, placeholderList)]])) = some root1) :
    addStep root (.at P) (some (bracket sLast)) (m ++ bracket e)
      = .ok (root1, .at (P ++ [.idx (xs.length - 1)] ++ [.key m]), bracket sLast) := by
  have hie : IdxExpr e := by
    rcases he with rfl | rfl
    · exact idxExpr_new
    · exact (natStr_idxExpr 0)
  have hsplit := split_bracket m e (Or.inr hm) hie
  have hne' : e.isEmpty = false := isEmpty_false_of_ne hie.ne
  have hcond : (decide (Idx.str e ≠ Idx.str sNew) && decide (Idx.str e ≠ Idx.str ['0'])) = false := by
    rcases he with rfl | rfl <;> simp
  unfold addStep
  simp only [isEmpty_false_of_ne (bracket_ne_nil _), Bool.false_eq_true, if_false, split_bracket_last, ok_bind,
    hsplit, hm.noBracket, hm.noSlashC, List.contains_nil, Bool.or_self, List.isEmpty_nil, Bool.not_true,
    valOf_at, hP, (by decide : sLast ≠ sNew), if_true, isEmpty_false_of_ne hm.ne, Bool.not_false,
    isEmpty_false_of_ne hne, Idx.truthy, hne', Bool.true_and, Bool.and_assoc, hcond]
  rw [modRef_at' root P _ (.list c xs) root1 hP]
  · simp [childRef]; rfl
  · exact hs

/-- `[new()]` / `[0]` after the placeholder (fix C03-b): the placeholder is replaced by `[None]` -/
theorem addStep_last_idx (root root1 : Val) (P : Pos) (c : Cls) (xs : List Val) (e : Str)
    (hP : getAt root P = some (.list c xs)) (hne : xs ≠ []) (he : e = sNew ∨ e = ['0'])
    (hs : setAt root P (.list c (xs.dropLast ++ [placeholderList])) = some root1) :
    addStep root (.at P) (some (bracket sLast)) (bracket e)
      = .ok (root1, .at (P ++ [.idx (xs.length - 1)]), bracket sLast) := by
  have hie : IdxExpr e := by
    rcases he with rfl | rfl
    · exact idxExpr_new
    · exact (natStr_idxExpr 0)
  have hsplit : splitNameIndex (bracket e) = .ok ([], .str e) := by
    have := split_bracket [] e (Or.inl rfl) hie
    simpa using this
  have hne' : e.isEmpty = false := isEmpty_false_of_ne hie.ne
  have hcond : (decide (Idx.str e ≠ Idx.str sNew) && decide (Idx.str e ≠ Idx.str ['0'])) = false := by
    rcases he with rfl | rfl <;> simp
  unfold addStep
  simp only [isEmpty_false_of_ne (bracket_ne_nil _), Bool.false_eq_true, if_false, split_bracket_last, ok_bind,
    hsplit, List.contains_nil, Bool.or_self, List.isEmpty_nil, Bool.not_true,
    valOf_at, hP, (by decide : sLast ≠ sNew), if_true,
    isEmpty_false_of_ne hne, Idx.truthy, hne', Bool.not_false, Bool.true_and, Bool.and_assoc, hcond]
  rw [modRef_at' root P _ (.list c xs) root1 hP]
  · simp [childRef]; rfl
  · exact hs

/-! ### `_add` followed by the store -/

/-- `_add` succeeds on `toks` and the store that follows yields `t'` -/
def AddStores (root : Val) (par : PRef) (ni : Option Str) (toks : List Str) (v t' : Val) : Prop :=
  ∃ root' par' ni', add root par ni toks = (root', .ok (par', ni')) ∧ storeAt root' par' (some ni') v = .ok t'

/-- what remains to do after one level of `_add` -/
def Cont (root : Val) (nxt : PRef) (nni : Str) (rest : List Str) (v t' : Val) : Prop :=
  (rest = [] → storeAt root nxt (some nni) v = .ok t') ∧ (rest ≠ [] → AddStores root nxt (some nni) rest v t')

theorem addStores_step {root root1 : Val} {par nxt : PRef} {ni : Option Str} {t nni : Str} {rest : List Str}
    {v t' : Val} (hstep : addStep root par ni t = .ok (root1, nxt, nni)) (hc : Cont root1 nxt nni rest v t') :
    AddStores root par ni (t :: rest) v t' := by
  cases rest with
  | nil => exact ⟨root1, nxt, nni, by simp [add, hstep], hc.1 rfl⟩
  | cons a r =>
    obtain ⟨root', par', ni', hadd, hst⟩ := hc.2 (by simp)
    exact ⟨root', par', ni', by rw [add, hstep]; simpa using hadd, hst⟩

theorem child_snoc (c : Cls) (ys : List Val) (z : Val) : child (.list c (ys ++ [z])) (.idx ys.length) = some z := by
  simp [child]

theorem setChild_snoc (c : Cls) (ys : List Val) (z z' : Val) :
    setChild (.list c (ys ++ [z])) (.idx ys.length) z' = some (.list c (ys ++ [z'])) := by
  simp [setChild]

/-- after the placeholder has been appended to the list at `P`: either the store overwrites it, or
the following names replace it by their chain -/
theorem cont_placeholder (root1 : Val) (P : Pos) (c : Cls) (ys : List Val) (tail : List Str) (v t' : Val)
    (hP : getAt root1 P = some (.list c (ys ++ [Val.none]))) (ht : ∀ x ∈ tail, PlainKey x)
    (hset : setAt root1 P (.list c (ys ++ [chain tail v])) = some t') :
    Cont root1 (.at P) (bracket sLast) tail v t' := by
  constructor
  · rintro rfl
    apply storeAt_last root1 t' P c (ys ++ [Val.none]) v hP (by simp)
    simpa [chain] using hset
  · intro hne
    obtain ⟨x, ms, rfl⟩ : ∃ x ms, tail = x :: ms := by
      cases tail with
      | nil => exact absurd rfl hne
      | cons x ms => exact ⟨x, ms, rfl⟩
    have hx := ht x (by simp)
    obtain ⟨root2, hs2⟩ := setAt_isSome P root1 _ (.list c (ys ++ [.dict .n0 [(x, emptyN0Dict)]])) hP
    have hstep := addStep_last_name root1 root2 P c (ys ++ [Val.none]) x hP (by simp) hx (by simpa using hs2)
    have hlen : (ys ++ [Val.none]).length - 1 = ys.length := by simp
    rw [hlen] at hstep
    have hg2 : getAt root2 (P ++ [Seg.idx ys.length]) = some (.dict .n0 [(x, emptyN0Dict)]) := by
      rw [getAt_setAt_below root1 root2 _ P _ hs2]
      simp [getAt, child]
    have hg2P : getAt root2 P = some (.list c (ys ++ [.dict .n0 [(x, emptyN0Dict)]])) :=
      getAt_setAt_same P root1 root2 _ hs2 (fun _ _ => trivial)
    -- a write of `D` at the new element, seen from `root1`
    have hwrite : ∀ D, setAt root2 (P ++ [Seg.idx ys.length]) D = setAt root1 P (.list c (ys ++ [D])) := by
      intro D
      rw [setAt_snoc P root2 (.idx ys.length) D _ _ hg2P (setChild_snoc c ys _ D)]
      exact setAt_overwrite P root1 root2 _ _ hs2
    refine addStores_step hstep ⟨?_, ?_⟩
    · rintro rfl
      apply storeAt_key root2 t' (P ++ [Seg.idx ys.length]) .n0 [(x, emptyN0Dict)] x v hg2 hx
      rw [hwrite]
      simpa [chain, kvSet] using hset
    · intro hms
      obtain ⟨m, ms', rfl⟩ : ∃ m ms', ms = m :: ms' := by
        cases ms with
        | nil => exact absurd rfl hms
        | cons m ms' => exact ⟨m, ms', rfl⟩
      apply add_store_names ms' root2 (P ++ [Seg.idx ys.length]) .n0 [(x, emptyN0Dict)] x .n0 [] m v t' hg2 hx
        (by simp [lookup, emptyN0Dict]) (ht m (by simp)) rfl (fun y hy => ht y (by simp [hy]))
      -- the target, seen from root2
      have hs3 : setAt root2 (P ++ [Seg.idx ys.length]) (.dict .n0 [(x, emptyN0Dict)]) = some root2 :=
        (hwrite _).trans hs2
      have e1 := setAt_into_written root2 root2 (P ++ [Seg.idx ys.length]) .n0 [(x, emptyN0Dict)] x
        (.dict .n0 [(m, chain ms' v)]) hs3
      -- first descend into x (a dict that exists), then into the fresh m
      have hgx : getAt root2 (P ++ [Seg.idx ys.length] ++ [Seg.key x]) = some emptyN0Dict := by
        rw [getAt_snoc, hg2]; simp [child, lookup]
      rw [show P ++ [Seg.idx ys.length] ++ [Seg.key x, Seg.key m] = P ++ [Seg.idx ys.length] ++ [Seg.key x] ++ [Seg.key m] by simp,
        setAt_snoc _ root2 (.key m) (chain ms' v) emptyN0Dict (.dict .n0 [(m, chain ms' v)]) hgx (by simp [setChild, emptyN0Dict, kvSet]),
        e1, hwrite]
      simpa [chain, kvSet] using hset

/-! ### `__setitem__` on the element-creating steps -/

theorem setItem_of_find {cls : Cls} {kvs : List (Str × Val)} {xp : Str} {toks nf : List Str} {root0 : Val} {r : Res}
    {v t' : Val} {fuel : Nat}
    (hq : startsWith xp ['?'] = false) (hpc : hasPathChar xp = true) (htok : tokenize xp = toks)
    (hfind : findD fuel (.dict cls kvs) [] false true toks (.at []) true slash = .ok (root0, r))
    (hnf : r.notFound = some nf) (hne : nf ≠ []) (hadd : AddStores root0 r.parent r.nameIdx nf v t')
    (hw : isWrap r.parent = false := by rfl) :
    setItem fuel (.dict cls kvs) xp v = (t', .ok ()) := by
  obtain ⟨root', par', ni', ha, hst⟩ := hadd
  unfold setItem
  simp only [hq, Bool.false_and, Bool.false_eq_true, if_false, hpc, if_true, htok, hfind, hiddenPlace_notWrap fuel root0 r hw, hnf,
    isEmpty_false_of_ne hne, Bool.not_false, ha, hst]

/-- `[new()] / tail` entered on a list: exactly one element is appended -/
theorem addStores_new_on_list (root0 : Val) (P : Pos) (c0 : Cls) (xs0 : List Val) (tail : List Str) (v t' : Val)
    (hP0 : getAt root0 P = some (.list c0 xs0)) (ht : ∀ x ∈ tail, PlainKey x)
    (hset : setAt root0 P (.list c0 (xs0 ++ [chain tail v])) = some t') :
    AddStores root0 (.at P) Option.none (bracket sNew :: tail) v t' := by
  obtain ⟨root1, hs1⟩ := setAt_isSome P root0 _ (.list c0 (xs0 ++ [Val.none])) hP0
  refine addStores_step (addStep_new_list root0 root1 P c0 xs0 hP0 hs1) ?_
  apply cont_placeholder root1 P c0 xs0 tail v t' (getAt_setAt_same P root0 root1 _ hs1 (fun _ _ => trivial)) ht
  rw [setAt_overwrite P root0 root1 _ _ hs1]; exact hset

/-- `[len] / tail` entered on a list of length `len` -/
theorem addStores_len_on_list (root0 : Val) (P : Pos) (c0 : Cls) (xs0 : List Val) (tail : List Str) (v t' : Val)
    (hP0 : getAt root0 P = some (.list c0 xs0)) (ht : ∀ x ∈ tail, PlainKey x)
    (hset : setAt root0 P (.list c0 (xs0 ++ [chain tail v])) = some t') :
    AddStores root0 (.at P) (some (bracket (natStr xs0.length))) (bracket (natStr xs0.length) :: tail) v t' := by
  obtain ⟨root1, hs1⟩ := setAt_isSome P root0 _ (.list c0 (xs0 ++ [Val.none])) hP0
  refine addStores_step (addStep_len_list root0 root1 P c0 xs0 hP0 hs1) ?_
  apply cont_placeholder root1 P c0 xs0 tail v t' (getAt_setAt_same P root0 root1 _ hs1 (fun _ _ => trivial)) ht
  rw [setAt_overwrite P root0 root1 _ _ hs1]; exact hset

/-- what `name[new()]` makes of the value `name` holds: a list gets one more element, anything else
becomes the first element of a new list -/
def appendTo (old x : Val) : Val :=
  match old with
  | .list c xs => .list c (xs ++ [x])
  | o => .list .n0 [o, x]

theorem isList_inv {v : Val} (h : isList v = true) : ∃ c xs, v = .list c xs := by
  cases v <;> simp [isList] at h
  exact ⟨_, _, rfl⟩

theorem appendTo_nonlist {old : Val} (h : isList old = false) (x : Val) : appendTo old x = .list .n0 [old, x] := by
  cases old <;> simp [isList] at h <;> rfl

theorem renderPos_snoc_key (q : Pos) (name : Str) :
    slash ++ renderPos q ++ slash ++ name = slash ++ renderPos (q ++ [Seg.key name]) := by
  simp [renderPos, renderSeg, slash]

/-- **`name[new()]` on an existing name** (optionally followed by fresh names): a list gets exactly
one more element; a non-list value is wrapped as the first element. -/
theorem setItem_new_existing (cls : Cls) (kvs : List (Str × Val)) (q : Pos) (kcls : Cls)
    (nkvs : List (Str × Val)) (name : Str) (old : Val) (tail : List Str) (v t' : Val) (fuel : Nat)
    (hp : PlainPos q) (hget : getAt (.dict cls kvs) q = some (.dict kcls nkvs)) (hn : PlainKey name)
    (hl : lookup name nkvs = some old) (ht : ∀ x ∈ tail, PlainKey x)
    (hset : setAt (.dict cls kvs) (q ++ [.key name]) (appendTo old (chain tail v)) = some t')
    (hf : fuel ≥ 4 * (q.length + 1)) :
    setItem fuel (.dict cls kvs)
      (slash ++ renderPos q ++ slash ++ (name ++ bracket sNew) ++ renderPos (tail.map Seg.key)) v = (t', .ok ()) := by
  have hlen := mergedToks_length_le q
  have hsplit := split_bracket name sNew (Or.inr hn) idxExpr_new
  obtain ⟨f', e', h1, _, hwalk⟩ := find_walk (.dict cls kvs) true (spellsF_merged q _ _ hp hget)
    ((name ++ bracket sNew) :: tail) (by simp) fuel [] slash true rfl (by omega)
  obtain ⟨f, rfl⟩ : ∃ f, f' = f + 2 := ⟨f' - 2, by omega⟩
  obtain ⟨fnd, hnew⟩ := find_new_step f (.dict cls kvs) false true q name tail kcls nkvs old hp hn hget hl (by omega)
  have hP : getAt (.dict cls kvs) (q ++ [Seg.key name]) = some old := by
    rw [getAt_snoc, hget]; simp [child, hl]
  have hfind := hwalk
  rw [List.nil_append, find_keyidx_step' (f + 1) _ e' true q _ _ name sNew tail kcls nkvs old hget hsplit hn.ne hn.notUp
    hn.keyTok.notStar hl, renderPos_snoc_key, hnew] at hfind
  by_cases hlist : isList old = true
  · obtain ⟨c, xs, rfl⟩ := isList_inv hlist
    simp only [isList, if_true] at hfind
    exact setItem_of_find (by simp [slash, startsWith, List.append_assoc]) (by simp [hasPathChar, slash])
      (tokenize_elem_path q hp hn cleanIdx_new tail ht) hfind rfl (by simp)
      (addStores_new_on_list _ _ c xs tail v t' hP ht hset)
  · simp only [hlist, Bool.false_eq_true, if_false] at hfind
    refine setItem_of_find (by simp [slash, startsWith, List.append_assoc]) (by simp [hasPathChar, slash])
      (tokenize_elem_path q hp hn cleanIdx_new tail ht) hfind rfl (by simp) ?_
    -- "Node is EXISTED": `_add` converts the single value and appends the placeholder in one step
    obtain ⟨root1, hs1⟩ := setAt_isSome q (.dict cls kvs) _ (.dict kcls (kvSet name (.list .n0 [old, Val.none]) nkvs)) hget
    refine addStores_step (addStep_existing_new _ root1 q kcls nkvs name old hget hn hl hs1) ?_
    have hs1' : setAt (.dict cls kvs) (q ++ [Seg.key name]) (.list .n0 [old, Val.none]) = some root1 := by
      rw [setAt_snoc q _ (.key name) _ _ (.dict kcls (kvSet name (.list .n0 [old, Val.none]) nkvs)) hget (by simp [setChild])]
      exact hs1
    apply cont_placeholder root1 (q ++ [Seg.key name]) .n0 [old] tail v t'
      (getAt_setAt_same _ _ root1 _ hs1' (fun _ _ => trivial)) ht
    rw [setAt_overwrite _ _ root1 _ _ hs1']
    rw [appendTo_nonlist (by simpa using hlist)] at hset
    exact hset

/-- **`name[new()]` / `name[0]` on a fresh name** (optionally followed by fresh names): the
one-element list is created under `name`. -/
theorem setItem_elem_fresh (cls : Cls) (kvs : List (Str × Val)) (q : Pos) (kcls : Cls)
    (nkvs : List (Str × Val)) (name e : Str) (tail : List Str) (v t' : Val) (fuel : Nat)
    (hp : PlainPos q) (hget : getAt (.dict cls kvs) q = some (.dict kcls nkvs)) (hn : PlainKey name)
    (he : e = sNew ∨ e = ['0'])
    (hl : lookup name nkvs = Option.none) (ht : ∀ x ∈ tail, PlainKey x)
    (hset : setAt (.dict cls kvs) (q ++ [.key name]) (.list .n0 [chain tail v]) = some t')
    (hf : fuel ≥ 2 * q.length + 1) :
    setItem fuel (.dict cls kvs)
      (slash ++ renderPos q ++ slash ++ (name ++ bracket e) ++ renderPos (tail.map Seg.key)) v = (t', .ok ()) := by
  have hlen := mergedToks_length_le q
  have hie : IdxExpr e := by
    rcases he with rfl | rfl
    · exact idxExpr_new
    · exact (natStr_idxExpr 0)
  have hce : CleanIdx e := by
    rcases he with rfl | rfl
    · exact cleanIdx_new
    · exact cleanIdx_nat 0
  have hsplit := split_bracket name e (Or.inr hn) hie
  have hfind := find_walk_miss (.dict cls kvs) true (spellsF_merged q _ _ hp hget) (name ++ bracket e) name (.str e) tail
    hsplit hn.ne hn.notUp hn.keyTok.notStar hl fuel [] slash true rfl (by omega)
  rw [List.nil_append] at hfind
  refine setItem_of_find (by simp [slash, startsWith, List.append_assoc]) (by simp [hasPathChar, slash])
    (tokenize_elem_path q hp hn hce tail ht) hfind rfl (by simp) ?_
  obtain ⟨root1, hs1⟩ := setAt_isSome q (.dict cls kvs) _ (.dict kcls (kvSet name (.list .n0 [Val.none]) nkvs)) hget
  refine addStores_step (addStep_elem_first _ root1 q kcls nkvs name e hget hn he hl hs1) ?_
  -- the creation of the list, seen as a write at `name`
  have hs1' : setAt (.dict cls kvs) (q ++ [Seg.key name]) (.list .n0 [Val.none]) = some root1 := by
    rw [setAt_snoc q _ (.key name) _ _ (.dict kcls (kvSet name (.list .n0 [Val.none]) nkvs)) hget (by simp [setChild])]
    exact hs1
  apply cont_placeholder root1 (q ++ [Seg.key name]) .n0 [] tail v t'
    (getAt_setAt_same _ _ root1 _ hs1' (fun _ _ => trivial)) ht
  rw [setAt_overwrite _ _ root1 _ _ hs1']
  exact hset

/-- **`name[len]` on an existing list of length `len`** (optionally followed by fresh names):
exactly one element is appended. -/
theorem setItem_len_existing (cls : Cls) (kvs : List (Str × Val)) (q : Pos) (kcls : Cls)
    (nkvs : List (Str × Val)) (name : Str) (c : Cls) (xs : List Val) (tail : List Str) (v t' : Val) (fuel : Nat)
    (hp : PlainPos q) (hget : getAt (.dict cls kvs) q = some (.dict kcls nkvs)) (hn : PlainKey name)
    (hl : lookup name nkvs = some (.list c xs)) (ht : ∀ x ∈ tail, PlainKey x)
    (hset : setAt (.dict cls kvs) (q ++ [.key name]) (.list c (xs ++ [chain tail v])) = some t')
    (hf : fuel ≥ 2 * q.length + 2) :
    setItem fuel (.dict cls kvs)
      (slash ++ renderPos q ++ slash ++ (name ++ bracket (natStr xs.length)) ++ renderPos (tail.map Seg.key)) v
      = (t', .ok ()) := by
  have hlen := mergedToks_length_le q
  have hsplit := split_bracket name (natStr xs.length) (Or.inr hn) (natStr_idxExpr _)
  obtain ⟨f', e', h1, _, hwalk⟩ := find_walk (.dict cls kvs) true (spellsF_merged q _ _ hp hget)
    ((name ++ bracket (natStr xs.length)) :: tail) (by simp) fuel [] slash true rfl (by omega)
  obtain ⟨f, rfl⟩ : ∃ f, f' = f + 2 := ⟨f' - 2, by omega⟩
  have hP : getAt (.dict cls kvs) (q ++ [Seg.key name]) = some (.list c xs) := by
    rw [getAt_snoc, hget]; simp [child, hl]
  have hfind := hwalk
  rw [List.nil_append, find_keyidx_step' (f + 1) _ e' true q _ _ name _ tail kcls nkvs _ hget hsplit hn.ne hn.notUp
    hn.keyTok.notStar hl,
    find_idx_miss f _ false true (q ++ [Seg.key name]) _ _ _ (xs.length : Int) tail c xs hP (natStr_idxTok xs.length)
      (Or.inl (Int.le_refl _))] at hfind
  refine setItem_of_find (by simp [slash, startsWith, List.append_assoc]) (by simp [hasPathChar, slash])
    (tokenize_elem_path q hp hn (cleanIdx_nat _) tail ht) hfind rfl (by simp) ?_
  exact addStores_len_on_list _ _ c xs tail v t' hP ht hset

/-! ### read-back and frame -/

theorem setAt_dict_root' (cls : Cls) (kvs : List (Str × Val)) (p : Pos) (v t' : Val) (hne : p ≠ [])
    (h : setAt (.dict cls kvs) p v = some t') : ∃ kvs', t' = .dict cls kvs' := by
  cases p with
  | nil => exact absurd rfl hne
  | cons s rest =>
    cases hc : child (.dict cls kvs) s with
    | none =>
      cases rest with
      | nil => cases s with
        | key k => simp [setAt, setChild] at h; exact ⟨_, h.symm⟩
        | idx i => simp [setAt, setChild] at h
      | cons s2 r => rw [setAt_cons_cons, hc] at h; simp at h
    | some c =>
      rw [setAt_cons _ _ _ _ c hc (Or.inr trivial)] at h
      cases hs : setAt c rest v with
      | none => simp [hs] at h
      | some c' =>
        simp only [hs, Option.bind] at h
        cases s with
        | key k => simp [setChild] at h; exact ⟨_, h.symm⟩
        | idx i => simp [setChild] at h

theorem getAt_chain : ∀ (ns : List Str) (v : Val), getAt (chain ns v) (ns.map Seg.key) = some v
  | [], v => rfl
  | n :: ns, v => by simp [chain, getAt, child, lookup, getAt_chain ns v]

theorem spells_chain : ∀ (ns : List Str) (v : Val), (∀ m ∈ ns, PlainKey m) →
    Spells ns (chain ns v) (ns.map Seg.key) v
  | [], v, _ => .nil v
  | n :: ns, v, h => by
    simp only [chain, List.map_cons]
    exact .key (h n (by simp)).keyTok (by simp [lookup]) (spells_chain ns v (fun m hm => h m (by simp [hm])))

/-- item access through a path whose tokens spell a position -/
theorem getItem_spelled (cls : Cls) (kvs : List (Str × Val)) (xp : Str) (toks : List Str) (p : Pos) (c : Val)
    (fuel : Nat) (hq : startsWith xp ['?'] = false) (hpc : hasPathChar xp = true) (htok : tokenize xp = toks)
    (hs : Spells toks (.dict cls kvs) p c) (hne : toks ≠ []) (hf : fuel ≥ 2 * toks.length) :
    getItem fuel (.dict cls kvs) xp = (.dict cls kvs, .ok c) := by
  obtain ⟨r, hr, hv, hnf, _⟩ := find_spells (.dict cls kvs) true hs hne fuel [] slash true rfl hf
  have hfound : r.isFound = true := by simp [Res.isFound, hnf]
  simp only [getItem, getCore, hq, Bool.false_eq_true, if_false, hpc, if_true, htok]
  rw [hr]
  simp [hfound, hv]

/-- **read-back (names).**  After the creation of a chain of names the value reads back through
the same path. -/
theorem readback_names (cls : Cls) (kvs : List (Str × Val)) (q : Pos) (n : Str) (ns : List Str) (v t' : Val)
    (fuel : Nat) (hp : PlainPos q) (hn : PlainKey n) (hns : ∀ m ∈ ns, PlainKey m)
    (hset : setAt (.dict cls kvs) (q ++ [.key n]) (chain ns v) = some t')
    (hf : fuel ≥ 2 * (q.length + ns.length + 1)) :
    getItem fuel t' (slash ++ renderPos (q ++ (n :: ns).map Seg.key)) = (t', .ok v) := by
  obtain ⟨kvs', rfl⟩ := setAt_dict_root' cls kvs _ _ t' (by simp) hset
  have hpp : PlainPos (q ++ (n :: ns).map Seg.key) :=
    hp.append (plainPos_keys (n :: ns) (by intro m hm; simp at hm; rcases hm with rfl | hm; exact hn; exact hns m hm))
  have hg : getAt (.dict cls kvs') (q ++ (n :: ns).map Seg.key) = some v := by
    have := getAt_setAt_below _ _ _ (q ++ [Seg.key n]) (ns.map Seg.key) hset
    rw [getAt_chain] at this
    simpa using this
  have hlen := mergedToks_length_le (q ++ (n :: ns).map Seg.key)
  exact getItem_spelled cls kvs' _ _ _ v fuel (qmark_render _) (hasPathChar_render _) (tokenize_render _ hpp)
    (spells_merged _ _ _ hpp hg) (mergedToks_ne_nil _ (by simp)) (by simp at hlen ⊢; omega)

theorem keyIdxTok_last {name : Str} (hn : PlainKey name) : KeyIdxTok (name ++ bracket sLast) name sLast (-1) :=
  keyIdxTok_of hn idxExpr_last (by decide) (by decide) n0eval_last

/-- **read-back (element).**  After `name[new()]…`, `name[0]…`, `name[len]…` the value reads back
through the path with the index replaced by `last()`. -/
theorem readback_elem (cls : Cls) (kvs : List (Str × Val)) (q : Pos) (kcls : Cls) (nkvs : List (Str × Val))
    (name : Str) (c : Cls) (ys : List Val) (tail : List Str) (v t' : Val) (fuel : Nat)
    (hp : PlainPos q) (hget : getAt (.dict cls kvs) q = some (.dict kcls nkvs)) (hn : PlainKey name)
    (ht : ∀ x ∈ tail, PlainKey x)
    (hset : setAt (.dict cls kvs) (q ++ [.key name]) (.list c (ys ++ [chain tail v])) = some t')
    (hf : fuel ≥ 2 * (q.length + tail.length + 1)) :
    getItem fuel t'
      (slash ++ renderPos q ++ slash ++ (name ++ bracket sLast) ++ renderPos (tail.map Seg.key)) = (t', .ok v) := by
  obtain ⟨kvs', rfl⟩ := setAt_dict_root' cls kvs _ _ t' (by simp) hset
  -- the node at q after the write
  have hset' := hset
  rw [setAt_snoc q _ (.key name) _ _ (.dict kcls (kvSet name (.list c (ys ++ [chain tail v])) nkvs)) hget
    (by simp [setChild])] at hset'
  have hgq : getAt (.dict cls kvs') q = some (.dict kcls (kvSet name (.list c (ys ++ [chain tail v])) nkvs)) :=
    getAt_setAt_same q _ _ _ hset' (fun _ _ => trivial)
  have hs1 := spells_merged q _ _ hp hgq
  have hs2 : Spells ((name ++ bracket sLast) :: tail) (.dict kcls (kvSet name (.list c (ys ++ [chain tail v])) nkvs))
      (.key name :: .idx ys.length :: tail.map Seg.key) v :=
    .keyIdx (keyIdxTok_last hn) (lookup_kvSet_same _ _ _)
      (by have := normIdx_last (ys ++ [chain tail v]).length (by simp); simpa using this)
      (by simp) (spells_chain tail v ht)
  have hs := hs1.append hs2
  have hlen := mergedToks_length_le q
  exact getItem_spelled cls kvs' _ _ _ v fuel (by simp [slash, startsWith, List.append_assoc])
    (by simp [hasPathChar, slash]) (tokenize_elem_path q hp hn cleanIdx_last tail ht) hs (by simp)
    (by simp; omega)

theorem getAt_list_snoc (c : Cls) (xs : List Val) (z x : Val) (r : Pos) (hr : r ≠ [])
    (h : getAt (.list c xs) r = some x) : getAt (.list c (xs ++ [z])) r = some x := by
  cases r with
  | nil => exact absurd rfl hr
  | cons s r' =>
    cases s with
    | key k => simp [getAt, child] at h
    | idx j =>
      obtain ⟨y, hc, hg⟩ := getAt_cons_some h
      obtain ⟨_, _, hcls, hy, hlt⟩ := child_idx_some hc
      cases hcls
      simp [getAt, child, List.getElem?_append_left hlt, hy, hg]

/-- **frame (append).**  Appending one element to the list at `P` keeps every existing node that
is not an ancestor of the list (nor the list itself). -/
theorem frame_append (t t' : Val) (P : Pos) (c : Cls) (xs : List Val) (z x : Val) (p : Pos)
    (hset : setAt t P (.list c (xs ++ [z])) = some t') (hP : getAt t P = some (.list c xs))
    (hp : getAt t p = some x) (hnp : ¬ p <+: P) : getAt t' p = some x := by
  rcases diverge_or_prefix P p with hd | hpre | hpre
  · rw [getAt_setAt_diverge P p t t' _ hset hd, hp]
  · exact absurd hpre hnp
  · obtain ⟨r, rfl⟩ := hpre
    have hr : r ≠ [] := by rintro rfl; exact hnp (by simp)
    rw [getAt_setAt_below t t' _ P r hset]
    rw [getAt_append, hP] at hp
    exact getAt_list_snoc c xs z x r hr hp

/-- **frame (wrap).**  When `name[new()]` wraps the non-list value at `P` into `[old, z]`, nodes
outside keep their position and every node inside `old` moves below index 0. -/
theorem frame_wrap (t t' : Val) (P : Pos) (old z x : Val) (p : Pos)
    (hset : setAt t P (.list .n0 [old, z]) = some t') (hP : getAt t P = some old)
    (hp : getAt t p = some x) :
    (¬ p <+: P → ¬ P <+: p → getAt t' p = some x) ∧ (∀ r, p = P ++ r → getAt t' (P ++ .idx 0 :: r) = some x) := by
  refine ⟨fun h1 h2 => frame_outside t t' _ x P p hset hp h1 h2, ?_⟩
  rintro r rfl
  rw [getAt_setAt_below t t' _ P _ hset]
  rw [getAt_append, hP] at hp
  simpa [getAt, child] using hp

/-! ### item 1 of the task, as stated: the miss after a spelled prefix -/

/-- a token list that spells position `q` (a dict), then a plain key that dict does not have:
NOT FOUND at `q`, the rest of the path reported, the tree untouched -/
theorem find_miss_key (t : Val) (rl : Bool) (toks0 : List Str) (q : Pos) (cls : Cls) (kvs : List (Str × Val))
    (n : Str) (rest : List Str) (hs : Spells toks0 t q (.dict cls kvs)) (hk : KeyTok n)
    (hl : lookup n kvs = Option.none) (fuel : Nat) (hf : fuel ≥ 2 * toks0.length + 1) :
    ∃ fnd, findD fuel t [] false true (toks0 ++ n :: rest) (.at []) rl slash
      = .ok (t, { parent := .at q, nameIdx := Option.none, value := Val.none, found := fnd,
                  notFound := some (n :: rest) }) := by
  obtain ⟨w, hw⟩ := hs.exF
  exact ⟨slash ++ w, by
    simpa using find_walk_miss t rl hw n n .none rest hk.split hk.ne hk.notUp hk.notStar hl fuel [] slash true rfl hf⟩

/-- the same for a `name[idx]` token whose name is absent (whatever the index text) -/
theorem find_miss_keyidx (t : Val) (rl : Bool) (toks0 : List Str) (q : Pos) (cls : Cls) (kvs : List (Str × Val))
    (tok k e : Str) (rest : List Str) (hs : Spells toks0 t q (.dict cls kvs))
    (hsplit : splitNameIndex tok = .ok (k, .str e)) (hne : k ≠ []) (hup : k ≠ ['.', '.']) (hstar : k ≠ ['*'])
    (hl : lookup k kvs = Option.none) (fuel : Nat) (hf : fuel ≥ 2 * toks0.length + 1) :
    ∃ fnd, findD fuel t [] false true (toks0 ++ tok :: rest) (.at []) rl slash
      = .ok (t, { parent := .at q, nameIdx := Option.none, value := Val.none, found := fnd,
                  notFound := some (tok :: rest) }) := by
  obtain ⟨w, hw⟩ := hs.exF
  exact ⟨slash ++ w, by
    simpa using find_walk_miss t rl hw tok k (.str e) rest hsplit hne hup hstar hl fuel [] slash true rfl hf⟩

/-! ### the creation grammar and its reference semantics (for the full statement) -/

/-- one step of a creation path -/
inductive CStep
  | name (n : Str)            -- `/n`
  | elem (n : Str) (e : Str)  -- `/n[e]`  with `e` = `new()`, `0` or the decimal length
  | idx (e : Str)             -- `[e]` directly below a list, `e` = `new()` or the decimal length
  deriving DecidableEq, Repr

def CStep.isName : CStep → Bool
  | .name _ => true
  | _ => false

def renderCStep : CStep → Str
  | .name n => '/' :: n
  | .elem n e => '/' :: n ++ bracket e
  | .idx e => bracket e

/-- what a chain of creation steps puts into a slot that did not exist -/
def fill : List CStep → Val → Val
  | [], v => v
  | .name n :: r, v => .dict .n0 [(n, fill r v)]
  | .elem n _ :: r, v => .dict .n0 [(n, .list .n0 [fill r v])]
  | .idx _ :: r, v => .list .n0 [fill r v]

/-- reference semantics: the new value of the existing node `cur` after the creation path -/
def createIn (cur : Val) : List CStep → Val → Option Val
  | [], _ => Option.none
  | .name n :: r, v =>
    match cur with
    | .dict c kvs => if lookup n kvs = Option.none then some (.dict c (kvSet n (fill r v) kvs)) else Option.none
    | _ => Option.none
  | .elem n e :: r, v =>
    match cur with
    | .dict c kvs =>
      match lookup n kvs with
      | Option.none =>
        if e = sNew ∨ e = ['0'] then some (.dict c (kvSet n (.list .n0 [fill r v]) kvs)) else Option.none
      | some old =>
        if e = sNew then some (.dict c (kvSet n (appendTo old (fill r v)) kvs))
        else match old with
          | .list c' xs =>
            if e = natStr xs.length then some (.dict c (kvSet n (.list c' (xs ++ [fill r v])) kvs)) else Option.none
          | _ => Option.none
    | _ => Option.none
  | .idx e :: r, v =>
    match cur with
    | .list c xs => if e = sNew ∨ e = natStr xs.length then some (.list c (xs ++ [fill r v])) else Option.none
    | _ => Option.none

/-- steps after the first address slots that the creation itself made: fresh names, `n[new()]`, `n[0]` -/
def CStep.later : CStep → Prop
  | .name n => PlainKey n
  | .elem n e => PlainKey n ∧ (e = sNew ∨ e = ['0'])
  | .idx _ => False

def CStep.first : CStep → Prop
  | .name n => PlainKey n
  | .elem n _ => PlainKey n
  | .idx _ => True

/-- later steps, widened (after fix C03-b): also a bare `[new()]` / `[0]` — an element created inside the
element the previous step has created (`n[new()][new()]`, `n[0][0]/m`) -/
def CStep.laterW : CStep → Prop
  | .name n => PlainKey n
  | .elem n e => PlainKey n ∧ (e = sNew ∨ e = ['0'])
  | .idx e => e = sNew ∨ e = ['0']

def CStep.isIdx : CStep → Bool
  | .idx _ => true
  | _ => false

/-- the whole creation grammar: a bare index step never directly follows a *name* step (the text of
`/n` followed by `[e]` is the one of the step `n[e]`, written `.elem n e`) -/
def GW : List CStep → Prop
  | [] => True
  | [_] => True
  | s :: s2 :: r => (s.isName = true → s2.isIdx = false) ∧ GW (s2 :: r)

theorem CStep.laterW_of_later {s : CStep} (h : s.later) : s.laterW := by
  cases s with
  | name n => exact h
  | elem n e => exact h
  | idx e => exact absurd h (by simp [CStep.later])

theorem CStep.later_of_laterW {s : CStep} (h : s.laterW) (hi : s.isIdx = false) : s.later := by
  cases s with
  | name n => exact h
  | elem n e => exact h
  | idx e => simp [CStep.isIdx] at hi

theorem CStep.later_notIdx {s : CStep} (h : s.later) : s.isIdx = false := by
  cases s with
  | name n => rfl
  | elem n e => rfl
  | idx e => exact absurd h (by simp [CStep.later])

theorem GW.tail {s : CStep} {r : List CStep} (h : GW (s :: r)) : GW r := by
  cases r with
  | nil => trivial
  | cons s2 r' => exact h.2

/-- paths without later bare index steps (the grammar before fix C03-b) are inside the whole grammar -/
theorem GW_of_later : ∀ (s : CStep) (steps : List CStep), (∀ x ∈ steps, x.later) → GW (s :: steps)
  | _, [], _ => trivial
  | _, s2 :: r, h => ⟨fun _ => CStep.later_notIdx (h s2 (by simp)), GW_of_later s2 r (fun x hx => h x (by simp [hx]))⟩

/-- the honoured grammar: every element-creating step is the last step or is followed by a name -/
def GOk : List CStep → Prop
  | [] => True
  | [_] => True
  | s :: s2 :: r => (s.isName = true ∨ s2.isName = true) ∧ GOk (s2 :: r)

/-! ### every path of the honoured grammar (first step below a dict) -/

def CStep.nameOf : CStep → Str
  | .name n => n
  | .elem n _ => n
  | .idx _ => []

/-- the token `_find`/`_add` see for a step -/
def stepTok : CStep → Str
  | .name n => n
  | .elem n e => n ++ bracket e
  | .idx e => bracket e

/-- what the step puts into the slot `nameOf s` (followed by the remaining steps) -/
def slotVal : CStep → List CStep → Val → Val
  | .name _, r, v => fill r v
  | .elem _ _, r, v => .list .n0 [fill r v]
  | .idx _, r, v => fill r v

theorem fill_cons_later (s : CStep) (r : List CStep) (v : Val) (hs : s.later) :
    fill (s :: r) v = .dict .n0 [(s.nameOf, slotVal s r v)] := by
  cases s with
  | name n => rfl
  | elem n e => rfl
  | idx e => exact absurd hs (by simp [CStep.later])

theorem CStep.later_plain {s : CStep} (h : s.later) : PlainKey s.nameOf := by
  cases s with
  | name n => exact h
  | elem n e => exact h.1
  | idx e => exact absurd h (by simp [CStep.later])

/-- `name[new()]` / `name[0]` on a fresh name below the dict created one level up -/
theorem addStep_elem_next (root root1 : Val) (q : Pos) (c : Cls) (kvs : List (Str × Val)) (n0 : Str)
    (c' : Cls) (kvs' : List (Str × Val)) (name e : Str)
    (hq : getAt root q = some (.dict c kvs)) (hn0 : PlainKey n0) (hl0 : lookup n0 kvs = some (.dict c' kvs'))
    (hn : PlainKey name) (he : e = sNew ∨ e = ['0']) (hl : lookup name kvs' = Option.none)
    (hs : setAt root (q ++ [.key n0]) (.dict c' (kvSet name (.list .n0 [Val.none]) kvs')) = some root1) :
    addStep root (.at q) (some n0) (name ++ bracket e)
      = .ok (root1, .at (q ++ [.key n0] ++ [.key name]), bracket sLast) := by
  have hq1 : getAt root (q ++ [.key n0]) = some (.dict c' kvs') := by
    rw [getAt_snoc, hq]; simp [child, hl0]
  have hhas : kvHas n0 kvs = true := by simp [kvHas, hl0]
  have hie : IdxExpr e := by
    rcases he with rfl | rfl
    · exact idxExpr_new
    · exact (natStr_idxExpr 0)
  have hsplit := split_bracket name e (Or.inr hn) hie
  have hne : e.isEmpty = false := isEmpty_false_of_ne hie.ne
  have hcond : (decide (Idx.str e ≠ Idx.str sNew) && decide (Idx.str e ≠ Idx.str ['0'])) = false := by
    rcases he with rfl | rfl <;> simp
  unfold addStep
  simp only [isEmpty_false_of_ne hn0.ne, Bool.false_eq_true, if_false, hn0.keyTok.split, hsplit, ok_bind,
    hn.noBracket, hn.noSlashC, hn0.noBracket, Bool.or_self, Bool.not_false, if_true, valOf_at, hq, hhas, pure_bind,
    childRef, hq1, isEmpty_false_of_ne hn.ne, hl, Idx.truthy, hne, hcond]
  rw [modRef_at' root (q ++ [Seg.key n0]) _ (.dict c' kvs') root1 hq1]
  · simp [childRef]; rfl
  · exact hs

/-- a later step `s` followed by `r` is well formed: `s` is last, or `s` or its successor is a name -/
theorem GOk.tail {s : CStep} {r : List CStep} (h : GOk (s :: r)) : GOk r := by
  cases r with
  | nil => trivial
  | cons s2 r' => exact h.2

/-- after an element-creating step the next step (if any) is a name -/
def HeadName : List CStep → Prop
  | [] => True
  | s :: _ => s.isName = true

theorem GOk.headName_of_elem {n e : Str} {r : List CStep} (h : GOk (.elem n e :: r)) : HeadName r := by
  cases r with
  | nil => trivial
  | cons s2 r' =>
    rcases h.1 with h1 | h1
    · simp [CStep.isName] at h1
    · exact h1

mutual
/-- `_add` below a dict it has found or created, for the remaining steps of the honoured grammar -/
theorem add_store_steps (steps : List CStep) (root : Val) (q : Pos) (c : Cls) (kvs : List (Str × Val)) (n : Str)
    (c' : Cls) (kvs' : List (Str × Val)) (s : CStep) (v t' : Val)
    (hq : getAt root q = some (.dict c kvs)) (hn : PlainKey n) (hl0 : lookup n kvs = some (.dict c' kvs'))
    (hs : s.later) (hsteps : ∀ x ∈ steps, x.laterW) (hg : GW (s :: steps))
    (hl : lookup s.nameOf kvs' = Option.none)
    (hset : setAt root (q ++ [.key n, .key s.nameOf]) (slotVal s steps v) = some t') :
    AddStores root (.at q) (some n) (stepTok s :: steps.map stepTok) v t' := by
  have hq1 : getAt root (q ++ [Seg.key n]) = some (.dict c' kvs') := by
    rw [getAt_snoc, hq]; simp [child, hl0]
  have hassoc : q ++ [Seg.key n, Seg.key s.nameOf] = q ++ [Seg.key n] ++ [Seg.key s.nameOf] := by simp
  cases s with
  | idx e => exact absurd hs (by simp [CStep.later])
  | name m =>
    have hm : PlainKey m := hs
    simp only [CStep.nameOf] at hl hset hassoc
    obtain ⟨root1, hs1⟩ := setAt_isSome (q ++ [Seg.key n]) root _ (.dict c' (kvSet m emptyN0Dict kvs')) hq1
    have hstep := addStep_name_next root root1 q c kvs n c' kvs' m hq hn hl0 hm hl hs1
    have hg1 : getAt root1 (q ++ [Seg.key n]) = some (.dict c' (kvSet m emptyN0Dict kvs')) :=
      getAt_setAt_same _ root root1 _ hs1 (fun _ _ => trivial)
    have hs1' : setAt root (q ++ [Seg.key n] ++ [Seg.key m]) emptyN0Dict = some root1 := by
      rw [setAt_snoc (q ++ [Seg.key n]) root (.key m) emptyN0Dict _ _ hq1 (by simp [setChild]; rfl)]
      exact hs1
    refine addStores_step hstep ⟨?_, ?_⟩
    · intro hnil
      have : steps = [] := by simpa using hnil
      subst this
      apply storeAt_key root1 t' (q ++ [Seg.key n]) c' _ m v hg1 hm
      rw [setAt_overwrite _ root root1 _ _ hs1, kvSet_kvSet]
      simp only [slotVal, fill] at hset
      rw [hassoc, setAt_snoc (q ++ [Seg.key n]) root (.key m) v _ _ hq1 (by simp [setChild]; rfl)] at hset
      exact hset
    · intro hne
      obtain ⟨s2, r, rfl⟩ : ∃ s2 r, steps = s2 :: r := by
        cases steps with
        | nil => exact absurd rfl hne
        | cons s2 r => exact ⟨s2, r, rfl⟩
      have hs2 : s2.later := CStep.later_of_laterW (hsteps s2 (by simp)) (hg.1 rfl)
      simp only [List.map_cons]
      apply add_store_steps r root1 (q ++ [Seg.key n]) c' (kvSet m emptyN0Dict kvs') m .n0 [] s2 v t'
        hg1 hm (lookup_kvSet_same _ _ _) hs2 (fun x hx => hsteps x (by simp [hx])) hg.tail rfl
      have := setAt_into_written root root1 (q ++ [Seg.key n] ++ [Seg.key m]) .n0 [] s2.nameOf (slotVal s2 r v) hs1'
      rw [show q ++ [Seg.key n] ++ [Seg.key m, Seg.key s2.nameOf] = q ++ [Seg.key n] ++ [Seg.key m] ++ [Seg.key s2.nameOf] by simp,
        this, ← hassoc]
      simp only [slotVal, fill_cons_later s2 r v hs2] at hset
      exact hset
  | elem m e =>
    obtain ⟨hm, he⟩ : PlainKey m ∧ (e = sNew ∨ e = ['0']) := hs
    simp only [CStep.nameOf] at hl hset hassoc
    obtain ⟨root1, hs1⟩ := setAt_isSome (q ++ [Seg.key n]) root _ (.dict c' (kvSet m (.list .n0 [Val.none]) kvs')) hq1
    have hstep := addStep_elem_next root root1 q c kvs n c' kvs' m e hq hn hl0 hm he hl hs1
    have hs1' : setAt root (q ++ [Seg.key n] ++ [Seg.key m]) (.list .n0 [Val.none]) = some root1 := by
      rw [setAt_snoc (q ++ [Seg.key n]) root (.key m) _ _ (.dict c' (kvSet m (.list .n0 [Val.none]) kvs')) hq1
        (by simp [setChild])]
      exact hs1
    refine addStores_step hstep ?_
    apply cont_steps steps root1 (q ++ [Seg.key n] ++ [Seg.key m]) .n0 [] v t'
      (getAt_setAt_same _ root root1 _ hs1' (fun _ _ => trivial)) hsteps hg.tail
    rw [setAt_overwrite _ root root1 _ _ hs1', ← hassoc]
    exact hset
termination_by (steps.length, 1)

/-- after the placeholder has been appended to the list at `P`: the store overwrites it, or the
following steps (a name first) replace it by what they create -/
theorem cont_steps (steps : List CStep) (root1 : Val) (P : Pos) (c : Cls) (ys : List Val) (v t' : Val)
    (hP : getAt root1 P = some (.list c (ys ++ [Val.none]))) (hsteps : ∀ x ∈ steps, x.laterW) (hg : GW steps)
    (hset : setAt root1 P (.list c (ys ++ [fill steps v])) = some t') :
    Cont root1 (.at P) (bracket sLast) (steps.map stepTok) v t' := by
  cases steps with
  | nil =>
    refine ⟨fun _ => ?_, fun h => absurd rfl h⟩
    apply storeAt_last root1 t' P c (ys ++ [Val.none]) v hP (by simp)
    simpa [fill] using hset
  | cons s ms =>
    have hlen : (ys ++ [Val.none]).length - 1 = ys.length := by simp
    -- a write of `D` at the element that replaces the placeholder, seen from `root1`
    have hwrite' : ∀ (root2 Z : Val), setAt root1 P (.list c (ys ++ [Z])) = some root2 →
        ∀ D, setAt root2 (P ++ [Seg.idx ys.length]) D = setAt root1 P (.list c (ys ++ [D])) := by
      intro root2 Z hs2 D
      rw [setAt_snoc P root2 (.idx ys.length) D _ _ (getAt_setAt_same P root1 root2 _ hs2 (fun _ _ => trivial))
        (setChild_snoc c ys _ D)]
      exact setAt_overwrite P root1 root2 _ _ hs2
    cases s with
    | elem m e =>
      -- fix C03-b: `{m: [None]}` replaces the placeholder, the new list continues with its own placeholder
      obtain ⟨hm, he⟩ : PlainKey m ∧ (e = sNew ∨ e = ['0']) := hsteps (.elem m e) (by simp)
      obtain ⟨root2, hs2⟩ := setAt_isSome P root1 _ (.list c (ys ++ [.dict .n0 [(m, placeholderList)]])) hP
      have hstep := addStep_last_elem root1 root2 P c (ys ++ [Val.none]) m e hP (by simp) hm he (by simpa using hs2)
      rw [hlen] at hstep
      have hg2 : getAt root2 (P ++ [Seg.idx ys.length]) = some (.dict .n0 [(m, placeholderList)]) := by
        rw [getAt_setAt_below root1 root2 _ P _ hs2]
        simp [getAt, child]
      have hg3 : getAt root2 (P ++ [Seg.idx ys.length] ++ [Seg.key m]) = some (.list .n0 ([] ++ [Val.none])) := by
        rw [getAt_snoc, hg2]; simp [child, lookup, placeholderList]
      refine ⟨fun h => by simp at h, fun _ => ?_⟩
      simp only [List.map_cons, stepTok]
      refine addStores_step hstep ?_
      apply cont_steps ms root2 (P ++ [Seg.idx ys.length] ++ [Seg.key m]) .n0 [] v t' hg3
        (fun y hy => hsteps y (by simp [hy])) hg.tail
      rw [setAt_snoc _ root2 (.key m) _ _ (.dict .n0 [(m, .list .n0 ([] ++ [fill ms v]))]) hg2
        (by simp [setChild, kvSet]), hwrite' root2 _ hs2]
      simpa [fill] using hset
    | idx e =>
      -- fix C03-b: `[None]` replaces the placeholder
      have he : e = sNew ∨ e = ['0'] := hsteps (.idx e) (by simp)
      obtain ⟨root2, hs2⟩ := setAt_isSome P root1 _ (.list c (ys ++ [placeholderList])) hP
      have hstep := addStep_last_idx root1 root2 P c (ys ++ [Val.none]) e hP (by simp) he (by simpa using hs2)
      rw [hlen] at hstep
      have hg2 : getAt root2 (P ++ [Seg.idx ys.length]) = some (.list .n0 ([] ++ [Val.none])) := by
        rw [getAt_setAt_below root1 root2 _ P _ hs2]
        simp [getAt, child, placeholderList]
      refine ⟨fun h => by simp at h, fun _ => ?_⟩
      simp only [List.map_cons, stepTok]
      refine addStores_step hstep ?_
      apply cont_steps ms root2 (P ++ [Seg.idx ys.length]) .n0 [] v t' hg2
        (fun y hy => hsteps y (by simp [hy])) hg.tail
      rw [hwrite' root2 _ hs2]
      simpa [fill] using hset
    | name x =>
    have hx : PlainKey x := hsteps (.name x) (by simp)
    obtain ⟨root2, hs2⟩ := setAt_isSome P root1 _ (.list c (ys ++ [.dict .n0 [(x, emptyN0Dict)]])) hP
    have hstep := addStep_last_name root1 root2 P c (ys ++ [Val.none]) x hP (by simp) hx (by simpa using hs2)
    rw [hlen] at hstep
    have hg2 : getAt root2 (P ++ [Seg.idx ys.length]) = some (.dict .n0 [(x, emptyN0Dict)]) := by
      rw [getAt_setAt_below root1 root2 _ P _ hs2]
      simp [getAt, child]
    have hg2P : getAt root2 P = some (.list c (ys ++ [.dict .n0 [(x, emptyN0Dict)]])) :=
      getAt_setAt_same P root1 root2 _ hs2 (fun _ _ => trivial)
    have hwrite : ∀ D, setAt root2 (P ++ [Seg.idx ys.length]) D = setAt root1 P (.list c (ys ++ [D])) := by
      intro D
      rw [setAt_snoc P root2 (.idx ys.length) D _ _ hg2P (setChild_snoc c ys _ D)]
      exact setAt_overwrite P root1 root2 _ _ hs2
    refine ⟨fun h => by simp at h, fun _ => ?_⟩
    simp only [List.map_cons, stepTok]
    refine addStores_step hstep ⟨?_, ?_⟩
    · intro hnil
      have : ms = [] := by simpa using hnil
      subst this
      apply storeAt_key root2 t' (P ++ [Seg.idx ys.length]) .n0 [(x, emptyN0Dict)] x v hg2 hx
      rw [hwrite]
      simpa [fill, kvSet] using hset
    · intro hne
      obtain ⟨s2, r, rfl⟩ : ∃ s2 r, ms = s2 :: r := by
        cases ms with
        | nil => exact absurd rfl hne
        | cons s2 r => exact ⟨s2, r, rfl⟩
      have hs2' : s2.later := CStep.later_of_laterW (hsteps s2 (by simp)) (hg.1 rfl)
      simp only [List.map_cons]
      apply add_store_steps r root2 (P ++ [Seg.idx ys.length]) .n0 [(x, emptyN0Dict)] x .n0 [] s2 v t' hg2 hx
        (by simp [lookup, emptyN0Dict]) hs2' (fun y hy => hsteps y (by simp [hy])) hg.tail rfl
      have hs3 : setAt root2 (P ++ [Seg.idx ys.length]) (.dict .n0 [(x, emptyN0Dict)]) = some root2 :=
        (hwrite _).trans hs2
      have e1 := setAt_into_written root2 root2 (P ++ [Seg.idx ys.length]) .n0 [(x, emptyN0Dict)] x
        (.dict .n0 [(s2.nameOf, slotVal s2 r v)]) hs3
      have hgx : getAt root2 (P ++ [Seg.idx ys.length] ++ [Seg.key x]) = some emptyN0Dict := by
        rw [getAt_snoc, hg2]; simp [child, lookup]
      rw [show P ++ [Seg.idx ys.length] ++ [Seg.key x, Seg.key s2.nameOf]
          = P ++ [Seg.idx ys.length] ++ [Seg.key x] ++ [Seg.key s2.nameOf] by simp,
        setAt_snoc _ root2 (.key s2.nameOf) (slotVal s2 r v) emptyN0Dict (.dict .n0 [(s2.nameOf, slotVal s2 r v)]) hgx
          (by simp [setChild, emptyN0Dict, kvSet]),
        e1, hwrite]
      simpa [fill, fill_cons_later s2 r v hs2', kvSet] using hset
termination_by (steps.length, 0)
end

theorem renderStep_later {s : CStep} (hs : s.later) : renderCStep s = '/' :: stepTok s := by
  cases s with
  | name n => rfl
  | elem n e => rfl
  | idx e => exact absurd hs (by simp [CStep.later])

theorem cleanIdx_of_new_or_zero {e : Str} (he : e = sNew ∨ e = ['0']) : CleanIdx e := by
  rcases he with rfl | rfl
  · exact cleanIdx_new
  · exact cleanIdx_nat 0

theorem tokenize_stepTok {s : CStep} (hs : s.later) : tokenize (stepTok s) = [stepTok s] := by
  cases s with
  | name n => exact tokenize_key hs
  | elem n e => exact tokenize_keyBracket hs.1 (cleanIdx_of_new_or_zero hs.2)
  | idx e => exact absurd hs (by simp [CStep.later])

/-- a text followed by the rendering of later steps -/
theorem tokenize_then_steps : ∀ (steps : List CStep) (T : Str), (∀ x ∈ steps, x.later) →
    tokenize (T ++ steps.flatMap renderCStep) = tokenize T ++ steps.map stepTok
  | [], T, _ => by simp
  | s :: r, T, h => by
    have hs := h s (by simp)
    have ih := tokenize_then_steps r (stepTok s) (fun x hx => h x (by simp [hx]))
    rw [List.flatMap_cons, renderStep_later hs,
      show T ++ ('/' :: stepTok s ++ r.flatMap renderCStep) = T ++ '/' :: (stepTok s ++ r.flatMap renderCStep) by simp,
      tokenize_append_slash, ih, tokenize_stepTok hs]
    simp

theorem addStores_new_on_list' (root0 : Val) (P : Pos) (c0 : Cls) (xs0 : List Val) (steps : List CStep) (v t' : Val)
    (hP0 : getAt root0 P = some (.list c0 xs0)) (hsteps : ∀ x ∈ steps, x.laterW) (hg : GW steps)
    (hset : setAt root0 P (.list c0 (xs0 ++ [fill steps v])) = some t') :
    AddStores root0 (.at P) Option.none (bracket sNew :: steps.map stepTok) v t' := by
  obtain ⟨root1, hs1⟩ := setAt_isSome P root0 _ (.list c0 (xs0 ++ [Val.none])) hP0
  refine addStores_step (addStep_new_list root0 root1 P c0 xs0 hP0 hs1) ?_
  apply cont_steps steps root1 P c0 xs0 v t' (getAt_setAt_same P root0 root1 _ hs1 (fun _ _ => trivial)) hsteps hg
  rw [setAt_overwrite P root0 root1 _ _ hs1]; exact hset

theorem addStores_len_on_list' (root0 : Val) (P : Pos) (c0 : Cls) (xs0 : List Val) (steps : List CStep) (v t' : Val)
    (hP0 : getAt root0 P = some (.list c0 xs0)) (hsteps : ∀ x ∈ steps, x.laterW) (hg : GW steps)
    (hset : setAt root0 P (.list c0 (xs0 ++ [fill steps v])) = some t') :
    AddStores root0 (.at P) (some (bracket (natStr xs0.length))) (bracket (natStr xs0.length) :: steps.map stepTok) v t' := by
  obtain ⟨root1, hs1⟩ := setAt_isSome P root0 _ (.list c0 (xs0 ++ [Val.none])) hP0
  refine addStores_step (addStep_len_list root0 root1 P c0 xs0 hP0 hs1) ?_
  apply cont_steps steps root1 P c0 xs0 v t' (getAt_setAt_same P root0 root1 _ hs1 (fun _ _ => trivial)) hsteps hg
  rw [setAt_overwrite P root0 root1 _ _ hs1]; exact hset

/-- what `_find` returns for `…/name[new()]/…` when `name` exists (any further tokens) -/
theorem find_new_existing (cls : Cls) (kvs : List (Str × Val)) (q : Pos) (kcls : Cls)
    (nkvs : List (Str × Val)) (name : Str) (old : Val) (tt : List Str) (fuel : Nat)
    (hp : PlainPos q) (hget : getAt (.dict cls kvs) q = some (.dict kcls nkvs)) (hn : PlainKey name)
    (hl : lookup name nkvs = some old) (hf : fuel ≥ 4 * (q.length + 1)) :
    ∃ fnd, findD fuel (.dict cls kvs) [] false true (mergedToks q ++ (name ++ bracket sNew) :: tt) (.at []) true slash
      = .ok (.dict cls kvs,
          if isList old then
            { parent := .at (q ++ [.key name]), nameIdx := Option.none, value := Val.none, found := fnd,
              notFound := some (bracket sNew :: tt) }
          else
            { parent := .at q, nameIdx := Option.none, value := Val.none, found := fnd,
              notFound := some ((name ++ bracket sNew) :: tt) }) := by
  have hlen := mergedToks_length_le q
  have hsplit := split_bracket name sNew (Or.inr hn) idxExpr_new
  obtain ⟨f', e', h1, _, hwalk⟩ := find_walk (.dict cls kvs) true (spellsF_merged q _ _ hp hget)
    ((name ++ bracket sNew) :: tt) (by simp) fuel [] slash true rfl (by omega)
  obtain ⟨f, rfl⟩ : ∃ f, f' = f + 2 := ⟨f' - 2, by omega⟩
  obtain ⟨fnd, hnew⟩ := find_new_step f (.dict cls kvs) false true q name tt kcls nkvs old hp hn hget hl (by omega)
  refine ⟨fnd, ?_⟩
  rw [hwalk, List.nil_append, find_keyidx_step' (f + 1) _ e' true q _ _ name sNew tt kcls nkvs old hget hsplit hn.ne hn.notUp
    hn.keyTok.notStar hl, renderPos_snoc_key, hnew]

/-- what `_find` returns for `…/name[len]/…` when `name` holds a list of length `len` -/
theorem find_len_existing (cls : Cls) (kvs : List (Str × Val)) (q : Pos) (kcls : Cls)
    (nkvs : List (Str × Val)) (name : Str) (c : Cls) (xs : List Val) (tt : List Str) (fuel : Nat)
    (hp : PlainPos q) (hget : getAt (.dict cls kvs) q = some (.dict kcls nkvs)) (hn : PlainKey name)
    (hl : lookup name nkvs = some (.list c xs)) (hf : fuel ≥ 2 * q.length + 2) :
    ∃ fnd, findD fuel (.dict cls kvs) [] false true (mergedToks q ++ (name ++ bracket (natStr xs.length)) :: tt) (.at [])
        true slash
      = .ok (.dict cls kvs,
          { parent := .at (q ++ [.key name]), nameIdx := some (bracket (natStr xs.length)), value := Val.none,
            found := fnd, notFound := some (bracket (natStr xs.length) :: tt) }) := by
  have hlen := mergedToks_length_le q
  have hsplit := split_bracket name (natStr xs.length) (Or.inr hn) (natStr_idxExpr _)
  obtain ⟨f', e', h1, _, hwalk⟩ := find_walk (.dict cls kvs) true (spellsF_merged q _ _ hp hget)
    ((name ++ bracket (natStr xs.length)) :: tt) (by simp) fuel [] slash true rfl (by omega)
  obtain ⟨f, rfl⟩ : ∃ f, f' = f + 2 := ⟨f' - 2, by omega⟩
  have hP : getAt (.dict cls kvs) (q ++ [Seg.key name]) = some (.list c xs) := by
    rw [getAt_snoc, hget]; simp [child, hl]
  refine ⟨slash ++ renderPos q ++ slash ++ name, ?_⟩
  rw [hwalk, List.nil_append, find_keyidx_step' (f + 1) _ e' true q _ _ name _ tt kcls nkvs _ hget hsplit hn.ne hn.notUp
    hn.keyTok.notStar hl,
    find_idx_miss f _ false true (q ++ [Seg.key name]) _ _ _ (xs.length : Int) tt c xs hP (natStr_idxTok xs.length)
      (Or.inl (Int.le_refl _))]
  rfl

/-- tokens of `//…q…` followed by a first named step and later steps -/
theorem tokenize_steps_path (q : Pos) (hp : PlainPos q) (s : CStep) (steps : List CStep)
    (hs : PlainKey s.nameOf) (hce : ∀ n e, s = .elem n e → CleanIdx e) (hidx : ∀ e, s ≠ .idx e)
    (hsteps : ∀ x ∈ steps, x.later) :
    tokenize (slash ++ renderPos q ++ (s :: steps).flatMap renderCStep) = mergedToks q ++ stepTok s :: steps.map stepTok := by
  rw [List.flatMap_cons, ← List.append_assoc, tokenize_then_steps steps _ hsteps]
  cases s with
  | idx e => exact absurd rfl (hidx e)
  | name n =>
    have h1 := tokenize_render (q ++ [Seg.key n]) (hp.append ⟨hs, trivial⟩)
    rw [mergedToks_append_key] at h1
    have : slash ++ renderPos q ++ renderCStep (.name n) = '/' :: renderPos (q ++ [Seg.key n]) := by
      simp [renderCStep, renderPos, renderSeg, slash]
    rw [this, h1]
    simp [mergedToks, stepTok]
  | elem n e =>
    have hs' : PlainKey n := hs
    have h1 := tokenize_elem_path q hp hs' (hce n e rfl) [] (by simp)
    have : slash ++ renderPos q ++ renderCStep (.elem n e)
        = slash ++ renderPos q ++ slash ++ (n ++ bracket e) ++ renderPos (([] : List Str).map Seg.key) := by
      simp [renderCStep, renderPos, slash]
    rw [this, h1]
    simp [stepTok]

/-- **C03 (honoured grammar, first step below a dict).**  For every creation path whose first step
is a name step or a named element-creating step below the existing dict node `q`, and whose later
steps are fresh names / `n[new()]` / `n[0]` with every element-creating step last or followed by a
name: `d[path] = v` yields exactly the reference semantics `createIn`. -/
theorem setItem_create_stepsW (cls : Cls) (kvs : List (Str × Val)) (q : Pos) (kcls : Cls) (nkvs : List (Str × Val))
    (s : CStep) (steps : List CStep) (v cur' t' : Val) (fuel : Nat)
    (hp : PlainPos q) (hget : getAt (.dict cls kvs) q = some (.dict kcls nkvs))
    (hs : PlainKey s.nameOf) (hidx : ∀ e, s ≠ .idx e) (hsteps : ∀ x ∈ steps, x.laterW) (hg : GW (s :: steps))
    (htok : tokenize (slash ++ renderPos q ++ (s :: steps).flatMap renderCStep)
      = mergedToks q ++ stepTok s :: steps.map stepTok)
    (hcreate : createIn (.dict kcls nkvs) (s :: steps) v = some cur')
    (hset : setAt (.dict cls kvs) q cur' = some t') (hf : fuel ≥ 4 * (q.length + 1)) :
    setItem fuel (.dict cls kvs) (slash ++ renderPos q ++ (s :: steps).flatMap renderCStep) v = (t', .ok ()) := by
  have hlen := mergedToks_length_le q
  have hqm : startsWith (slash ++ renderPos q ++ (s :: steps).flatMap renderCStep) ['?'] = false := by
    simp [slash, startsWith, List.append_assoc]
  have hpc : hasPathChar (slash ++ renderPos q ++ (s :: steps).flatMap renderCStep) = true := by
    simp [hasPathChar, slash]
  -- a write of `X` into the slot `nameOf s`, seen at `q`
  have hslot : ∀ X, setAt (.dict cls kvs) (q ++ [Seg.key s.nameOf]) X
      = setAt (.dict cls kvs) q (.dict kcls (kvSet s.nameOf X nkvs)) := fun X =>
    setAt_snoc q _ (.key s.nameOf) X _ _ hget (by simp [setChild])
  cases s with
  | idx e => exact absurd rfl (hidx e)
  | name n =>
    simp only [CStep.nameOf] at hs hslot
    simp only [createIn] at hcreate
    split at hcreate
    · rename_i hl
      cases hcreate
      rw [← hslot] at hset
      have hfind := find_walk_miss (.dict cls kvs) true (spellsF_merged q _ _ hp hget) n n .none (steps.map stepTok)
        hs.keyTok.split hs.ne hs.notUp hs.keyTok.notStar hl fuel [] slash true rfl (by omega)
      rw [List.nil_append] at hfind
      refine setItem_of_find hqm hpc htok hfind rfl (by simp [stepTok]) ?_
      -- first level of `_add`, then the general induction
      obtain ⟨root1, hs1⟩ := setAt_isSome q (.dict cls kvs) _ (.dict kcls (kvSet n emptyN0Dict nkvs)) hget
      have hstep := addStep_name_first _ root1 q kcls nkvs n hget hs hl hs1
      have hg1 : getAt root1 q = some (.dict kcls (kvSet n emptyN0Dict nkvs)) :=
        getAt_setAt_same _ _ root1 _ hs1 (fun _ _ => trivial)
      have hs1' : setAt (.dict cls kvs) (q ++ [Seg.key n]) emptyN0Dict = some root1 := by rw [hslot]; exact hs1
      simp only [stepTok]
      refine addStores_step hstep ⟨?_, ?_⟩
      · intro hnil
        have : steps = [] := by simpa using hnil
        subst this
        apply storeAt_key root1 t' q kcls _ n v hg1 hs
        rw [setAt_overwrite _ _ root1 _ _ hs1, kvSet_kvSet, ← hslot]
        simpa [fill] using hset
      · intro hne
        obtain ⟨s2, r, rfl⟩ : ∃ s2 r, steps = s2 :: r := by
          cases steps with
          | nil => exact absurd rfl hne
          | cons s2 r => exact ⟨s2, r, rfl⟩
        have hs2 : s2.later := CStep.later_of_laterW (hsteps s2 (by simp)) (hg.1 rfl)
        simp only [List.map_cons]
        apply add_store_steps r root1 q kcls (kvSet n emptyN0Dict nkvs) n .n0 [] s2 v t' hg1 hs
          (lookup_kvSet_same _ _ _) hs2 (fun x hx => hsteps x (by simp [hx])) hg.tail rfl
        have := setAt_into_written _ root1 (q ++ [Seg.key n]) .n0 [] s2.nameOf (slotVal s2 r v) hs1'
        rw [show q ++ [Seg.key n, Seg.key s2.nameOf] = q ++ [Seg.key n] ++ [Seg.key s2.nameOf] by simp, this]
        simpa [fill_cons_later s2 r v hs2, kvSet] using hset
    · cases hcreate
  | elem n e =>
    simp only [CStep.nameOf] at hs hslot
    simp only [createIn] at hcreate
    split at hcreate
    · -- fresh name
      rename_i hl
      split at hcreate
      · rename_i he
        cases hcreate
        rw [← hslot] at hset
        have hie : IdxExpr e := by
          rcases he with rfl | rfl
          · exact idxExpr_new
          · exact (natStr_idxExpr 0)
        have hfind := find_walk_miss (.dict cls kvs) true (spellsF_merged q _ _ hp hget) (n ++ bracket e) n (.str e)
          (steps.map stepTok) (split_bracket n e (Or.inr hs) hie) hs.ne hs.notUp hs.keyTok.notStar hl fuel [] slash true rfl
          (by omega)
        rw [List.nil_append] at hfind
        refine setItem_of_find hqm hpc htok hfind rfl (by simp [stepTok]) ?_
        obtain ⟨root1, hs1⟩ := setAt_isSome q (.dict cls kvs) _ (.dict kcls (kvSet n (.list .n0 [Val.none]) nkvs)) hget
        simp only [stepTok]
        refine addStores_step (addStep_elem_first _ root1 q kcls nkvs n e hget hs he hl hs1) ?_
        have hs1' : setAt (.dict cls kvs) (q ++ [Seg.key n]) (.list .n0 [Val.none]) = some root1 := by rw [hslot]; exact hs1
        apply cont_steps steps root1 (q ++ [Seg.key n]) .n0 [] v t'
          (getAt_setAt_same _ _ root1 _ hs1' (fun _ _ => trivial)) hsteps hg.tail
        rw [setAt_overwrite _ _ root1 _ _ hs1']
        exact hset
      · cases hcreate
    · -- existing name
      rename_i old hl
      have hP : getAt (.dict cls kvs) (q ++ [Seg.key n]) = some old := by
        rw [getAt_snoc, hget]; simp [child, hl]
      split at hcreate
      · rename_i he
        subst he
        cases hcreate
        rw [← hslot] at hset
        obtain ⟨fnd, hfind⟩ := find_new_existing cls kvs q kcls nkvs n old (steps.map stepTok) fuel hp hget hs hl hf
        by_cases hlist : isList old = true
        · obtain ⟨c, xs, rfl⟩ := isList_inv hlist
          simp only [isList, if_true] at hfind
          exact setItem_of_find hqm hpc htok hfind rfl (by simp)
            (addStores_new_on_list' _ _ c xs steps v t' hP hsteps hg.tail hset)
        · simp only [hlist, Bool.false_eq_true, if_false] at hfind
          refine setItem_of_find hqm hpc htok hfind rfl (by simp) ?_
          obtain ⟨root1, hs1⟩ := setAt_isSome q (.dict cls kvs) _ (.dict kcls (kvSet n (.list .n0 [old, Val.none]) nkvs)) hget
          refine addStores_step (addStep_existing_new _ root1 q kcls nkvs n old hget hs hl hs1) ?_
          have hs1' : setAt (.dict cls kvs) (q ++ [Seg.key n]) (.list .n0 [old, Val.none]) = some root1 := by
            rw [hslot]; exact hs1
          apply cont_steps steps root1 (q ++ [Seg.key n]) .n0 [old] v t'
            (getAt_setAt_same _ _ root1 _ hs1' (fun _ _ => trivial)) hsteps hg.tail
          rw [setAt_overwrite _ _ root1 _ _ hs1']
          rw [appendTo_nonlist (by simpa using hlist)] at hset
          exact hset
      · split at hcreate
        · rename_i c' xs
          split at hcreate
          · rename_i he
            subst he
            cases hcreate
            rw [← hslot] at hset
            obtain ⟨fnd, hfind⟩ := find_len_existing cls kvs q kcls nkvs n c' xs (steps.map stepTok) fuel hp hget hs hl
              (by omega)
            refine setItem_of_find hqm hpc htok hfind rfl (by simp) ?_
            exact addStores_len_on_list' _ _ c' xs steps v t' hP hsteps hg.tail hset
          · cases hcreate
        · cases hcreate

/-- the index text of a named element-creating first step that `createIn` accepts is clean -/
theorem createIn_elem_clean {cur : Val} {n e : Str} {r : List CStep} {v cur' : Val}
    (h : createIn cur (.elem n e :: r) v = some cur') : CleanIdx e := by
  cases cur <;> simp only [createIn] at h <;> try cases h
  split at h
  · split at h
    · rename_i he; exact cleanIdx_of_new_or_zero he
    · cases h
  · split at h
    · rename_i he; subst he; exact cleanIdx_new
    · split at h
      · split at h
        · rename_i he; subst he; exact cleanIdx_nat _
        · cases h
      · cases h

/-- **C03 (grammar before fix C03-b, first step below a dict)**: the case of `setItem_create_stepsW`
without later bare index steps, with the tokenisation discharged -/
theorem setItem_create_steps (cls : Cls) (kvs : List (Str × Val)) (q : Pos) (kcls : Cls) (nkvs : List (Str × Val))
    (s : CStep) (steps : List CStep) (v cur' t' : Val) (fuel : Nat)
    (hp : PlainPos q) (hget : getAt (.dict cls kvs) q = some (.dict kcls nkvs))
    (hs : PlainKey s.nameOf) (hidx : ∀ e, s ≠ .idx e) (hsteps : ∀ x ∈ steps, x.later)
    (hcreate : createIn (.dict kcls nkvs) (s :: steps) v = some cur')
    (hset : setAt (.dict cls kvs) q cur' = some t') (hf : fuel ≥ 4 * (q.length + 1)) :
    setItem fuel (.dict cls kvs) (slash ++ renderPos q ++ (s :: steps).flatMap renderCStep) v = (t', .ok ()) :=
  setItem_create_stepsW cls kvs q kcls nkvs s steps v cur' t' fuel hp hget hs hidx
    (fun x hx => CStep.laterW_of_later (hsteps x hx)) (GW_of_later s steps hsteps)
    (tokenize_steps_path q hp s steps hs (fun n e h => by subst h; exact createIn_elem_clean hcreate) hidx hsteps)
    hcreate hset hf

end N0.XPath
