import N0Verif.Model.Json
/-!
  Lemmas for C11.

  Part 1: the reader decodes every *rendering* of a value (`Ren v s`: the JSON tokens of `v` with
  arbitrary white space between them) back to `erase v`.
  Part 2: without the pair layout, `pretty` produces a rendering of `dropEmptyIf o t`.
-/
namespace N0.Json
open N0 N0.Py

/-! ### white space and delimiters -/

def Ws (w : Str) : Prop := ∀ c ∈ w, isWs c = true

instance (w : Str) : Decidable (Ws w) := by unfold Ws; exact inferInstance

theorem Ws_nil : Ws [] := by intro c h; cases h

theorem Ws_append {a b : Str} (ha : Ws a) (hb : Ws b) : Ws (a ++ b) := by
  intro c h
  rcases List.mem_append.1 h with h | h
  · exact ha c h
  · exact hb c h

theorem Ws_cons {c : Char} {w : Str} (hc : isWs c = true) (hw : Ws w) : Ws (c :: w) := by
  intro d h
  rcases List.mem_cons.1 h with h | h
  · subst h; exact hc
  · exact hw d h

theorem Ws_replicate (n : Nat) : Ws (List.replicate n ' ') := by
  intro c h
  have := List.eq_of_mem_replicate h
  subst this; rfl

/-- what may follow a value: end of text, white space, `,`, `]`, `}` -/
def delim : Str → Bool
  | [] => true
  | c :: _ => isWs c || c == ',' || c == ']' || c == '}'

/-- first characters of a value: not white space, not a closing bracket -/
def startOk (c : Char) : Bool := !isWs c && c != ']' && c != '}'

def StartsOk (s : Str) : Prop := ∃ c r, s = c :: r ∧ startOk c = true

theorem skipWs_append {w : Str} (hw : Ws w) (rest : Str) : skipWs (w ++ rest) = skipWs rest := by
  induction w with
  | nil => rfl
  | cons c w ih =>
    have hc : isWs c = true := hw c (by simp)
    simp only [List.cons_append, skipWs, hc, if_true]
    exact ih (fun d hd => hw d (by simp [hd]))

theorem skipWs_cons_of_not {c : Char} (h : isWs c = false) (r : Str) : skipWs (c :: r) = c :: r := by
  simp [skipWs, h]

theorem skipWs_startsOk {s : Str} (h : StartsOk s) (rest : Str) : skipWs (s ++ rest) = s ++ rest := by
  obtain ⟨c, r, rfl, hc⟩ := h
  have : isWs c = false := by
    unfold startOk at hc
    cases hw : isWs c <;> simp [hw] at hc ⊢
  simp [skipWs, this]

theorem skipWs_ws_then {w : Str} (hw : Ws w) {c : Char} (hc : isWs c = false) (rest : Str) :
    skipWs (w ++ c :: rest) = c :: rest := by
  rw [skipWs_append hw, skipWs_cons_of_not hc]

theorem delim_ws_then {w : Str} (hw : Ws w) {c : Char} (hc : delim [c] = true) (rest : Str) :
    delim (w ++ c :: rest) = true := by
  cases w with
  | nil => simpa [delim] using hc
  | cons d w => simp [delim, hw d (by simp)]

/-! ### strings -/

theorem hex_roundtrip : ∀ n, n < 32 →
    hex4 '0' '0' (hexLow (n / 16)) (hexLow (n % 16)) = some n := by decide

theorem ofNat_toNat_lt32 : ∀ n, n < 32 → (Char.ofNat n).toNat = n := by decide

theorem length_le_esc (s : Str) : s.length ≤ (esc s).length := by
  induction s with
  | nil => simp [esc]
  | cons c s ih =>
    have : 1 ≤ (escChar c).length := by
      unfold escChar
      repeat' split
      all_goals simp
    simp only [esc, List.length_cons, List.length_append]
    omega

theorem scan_step (c : Char) (tail acc : Str) (f : Nat) :
    scanString (f + 1) (escChar c ++ tail) acc = scanString f tail (c :: acc) := by
  unfold escChar
  split
  · rename_i h; subst h; simp [scanString, simpleEsc]
  split
  · rename_i h; subst h; simp [scanString, simpleEsc]
  split
  · rename_i h; subst h; simp [scanString, simpleEsc]
  split
  · rename_i h; subst h; simp [scanString, simpleEsc]
  split
  · rename_i h; subst h; simp [scanString, simpleEsc]
  split
  · rename_i h; subst h; simp [scanString, simpleEsc]
  split
  · rename_i h; subst h; simp [scanString, simpleEsc]
  split
  · rename_i h1 h2 h3 h4 h5 h6 h7 h
    have hx := hex_roundtrip c.toNat h
    have hc : Char.ofNat c.toNat = c := Char.ofNat_toNat c
    have h32 : ¬ (0xD800 ≤ c.toNat) := by omega
    have h33 : ¬ (0xDC00 ≤ c.toNat) := by omega
    simp [scanString, hx, h32, h33, hc]
  · rename_i h1 h2 h3 h4 h5 h6 h7 h
    simp [scanString, h1, h2, h]

theorem scan_esc (s : Str) : ∀ (acc : Str) (f : Nat) (rest : Str), s.length < f →
    scanString f (esc s ++ '"' :: rest) acc = .ok (acc.reverse ++ s, rest) := by
  induction s with
  | nil =>
    intro acc f rest hf
    cases f with
    | zero => omega
    | succ f => simp [esc, scanString]
  | cons c s ih =>
    intro acc f rest hf
    cases f with
    | zero => omega
    | succ f =>
      simp only [esc, List.append_assoc]
      rw [scan_step, ih (c :: acc) f rest (by simpa using hf)]
      simp

theorem scan_quoted (k : Str) (rest : Str) :
    scanString ((esc k ++ '"' :: rest).length + 1) (esc k ++ '"' :: rest) [] = .ok (k, rest) := by
  have := scan_esc k [] ((esc k ++ '"' :: rest).length + 1) rest (by
    have := length_le_esc k
    simp only [List.length_append, List.length_cons]; omega)
  simpa using this

/-! ### numbers -/

theorem nstep_delim (st : NSt) {c : Char}
    (hc : (isWs c || c == ',' || c == ']' || c == '}') = true) : nstep st c = Option.none := by
  simp only [isWs, Bool.or_eq_true, decide_eq_true_eq, beq_iff_eq] at hc
  rcases hc with ((((((h | h) | h) | h) | h) | h) | h) <;> subst h <;> cases st <;> rfl

theorem nscan_delim (r : Str) : ∀ (st : NSt) (n : Nat) (best : Option (Nat × Bool)) (rest : Str),
    delim rest = true → nscan st (r ++ rest) n best = nscan st r n best := by
  induction r with
  | nil =>
    intro st n best rest hd
    cases rest with
    | nil => rfl
    | cons c rest =>
      simp only [List.nil_append, nscan]
      rw [nstep_delim st (by simpa [delim] using hd)]
  | cons c r ih =>
    intro st n best rest hd
    simp only [List.cons_append, nscan]
    cases nstep st c with
    | none => rfl
    | some st' => exact ih _ _ _ _ hd

/-- the float lexemes of the property: the reader reads them completely, as a float -/
def fltOk (r : Str) : Bool := nscan .start r 0 Option.none == some (r.length, true)

theorem parseNumber_flt {r : Str} (h : fltOk r = true) {rest : Str} (hd : delim rest = true) :
    parseNumber (r ++ rest) = .ok (.flt r, rest) := by
  unfold fltOk at h
  have h' : nscan .start r 0 Option.none = some (r.length, true) := by simpa using h
  unfold parseNumber
  rw [nscan_delim r _ _ _ _ hd, h']
  simp

theorem nscan_startsOk {r : Str} {x : Nat × Bool} (h : nscan .start r 0 Option.none = some x) :
    StartsOk r := by
  cases r with
  | nil => simp [nscan] at h
  | cons c r =>
    refine ⟨c, r, rfl, ?_⟩
    simp only [nscan] at h
    cases hs : nstep .start c with
    | none => rw [hs] at h; simp at h
    | some st =>
      simp only [nstep] at hs
      by_cases h1 : c = '-'
      · subst h1; rfl
      · by_cases h2 : c = '0'
        · subst h2; rfl
        · simp only [h1, h2, if_false] at hs
          by_cases h3 : isDig c = true
          · unfold startOk isWs
            unfold isDig at h3
            simp only [Bool.and_eq_true, decide_eq_true_eq] at h3
            have h4 : 48 ≤ c.toNat := h3.1
            have h5 : c.toNat ≤ 57 := h3.2
            have e1 : c ≠ ' ' := by intro h; subst h; revert h4; decide
            have e2 : c ≠ '\t' := by intro h; subst h; revert h4; decide
            have e3 : c ≠ '\n' := by intro h; subst h; revert h4; decide
            have e4 : c ≠ '\r' := by intro h; subst h; revert h4; decide
            have e5 : c ≠ ']' := by intro h; subst h; revert h5; decide
            have e6 : c ≠ '}' := by intro h; subst h; revert h5; decide
            simp [e1, e2, e3, e4, e5, e6]
          · simp [h3] at hs

/-! integers: `str(int)` is read back -/

theorem digit_isDig {c : Char} (h : c.isDigit = true) : isDig c = true := by
  unfold Char.isDigit at h
  unfold isDig
  simp only [Bool.and_eq_true, decide_eq_true_eq, ge_iff_le] at h ⊢
  exact ⟨h.1, h.2⟩

theorem nscan_int_digits (ds : Str) (hd : ∀ c ∈ ds, isDig c = true) :
    ∀ n best, nscan .int ds n best = (if ds.isEmpty then best else some (n + ds.length, false)) := by
  induction ds with
  | nil => intro n best; rfl
  | cons c ds ih =>
    intro n best
    have hc : isDig c = true := hd c (by simp)
    simp only [nscan, nstep, hc, if_true, naccept, List.isEmpty_cons]
    rw [ih (fun d h => hd d (by simp [h]))]
    cases ds with
    | nil => simp
    | cons d ds => simp; omega

theorem toDigits_all_isDig (n : Nat) : ∀ c ∈ Nat.toDigits 10 n, isDig c = true := by
  intro c h
  exact digit_isDig (Nat.isDigit_of_mem_toDigits (by decide) (by decide) h)

theorem toDigits_head (n : Nat) : ∃ c r, Nat.toDigits 10 n = c :: r ∧ (c = '0' → n = 0) := by
  induction n using Nat.strongRecOn with
  | _ n ih =>
    rw [Nat.toDigits_eq_if (by decide : 1 < 10)]
    split
    · rename_i h
      refine ⟨_, [], rfl, ?_⟩
      intro h0
      have : ∀ m, m < 10 → Nat.digitChar m = '0' → m = 0 := by decide
      exact this n h h0
    · rename_i h
      obtain ⟨c, r, hcr, h0⟩ := ih (n / 10) (by omega)
      refine ⟨c, r ++ [Nat.digitChar (n % 10)], by rw [hcr]; rfl, ?_⟩
      intro hc
      have := h0 hc
      omega

theorem digitChar_eq (d : Nat) (h : d < 10) : digitChar d = Nat.digitChar d := by
  have : ∀ d : Fin 10, digitChar d.val = Nat.digitChar d.val := by decide
  exact this ⟨d, h⟩

theorem natDigitsAux_eq (f : Nat) : ∀ n, n < f → natDigitsAux f n = Nat.toDigits 10 n := by
  induction f with
  | zero => intro n h; omega
  | succ f ih =>
    intro n h
    rw [natDigitsAux, Nat.toDigits_eq_if (by decide : 1 < 10)]
    split
    · rename_i hlt; rw [digitChar_eq n hlt]
    · rw [ih (n / 10) (by omega), digitChar_eq (n % 10) (by omega)]

theorem natRepr_eq (n : Nat) : natRepr n = Nat.toDigits 10 n :=
  natDigitsAux_eq (n + 1) n (by omega)

theorem natOfDigits_eq (ds : Str) : natOfDigits ds = Nat.ofDigitChars 10 ds 0 := by
  unfold natOfDigits Nat.ofDigitChars digitVal
  have : ∀ (a : Nat), List.foldl (fun a c => a * 10 + (c.toNat - '0'.toNat)) a ds
      = List.foldl (fun sofar c => 10 * sofar + (c.toNat - '0'.toNat)) a ds := by
    induction ds with
    | nil => intro a; rfl
    | cons c ds ih => intro a; simp only [List.foldl_cons]; rw [ih]; congr 1; omega
  exact this 0

theorem natOfDigits_natRepr (n : Nat) : natOfDigits (natRepr n) = n := by
  rw [natRepr_eq, natOfDigits_eq, Nat.ofDigitChars_ten_toDigits]

/-- scanning the decimal digits of a natural number from `start`/`minus` -/
theorem nscan_nat (n : Nat) (st : NSt) (hst : st = .start ∨ st = .minus) (k : Nat) (best) :
    nscan st (natRepr n) k best = some (k + (natRepr n).length, false) := by
  rw [natRepr_eq]
  obtain ⟨c, r, hcr, h0⟩ := toDigits_head n
  have hall := toDigits_all_isDig n
  rw [hcr] at hall ⊢
  have hc : isDig c = true := hall c (by simp)
  have hr : ∀ d ∈ r, isDig d = true := fun d h => hall d (by simp [h])
  have hne : c ≠ '-' := by intro h; subst h; simp [isDig] at hc
  by_cases hz : c = '0'
  · have hn := h0 hz
    subst hn
    have : Nat.toDigits 10 0 = ['0'] := by decide
    rw [this] at hcr
    cases hcr
    rcases hst with h | h <;> subst h <;> simp [nscan, nstep, naccept]
  · have step : nstep st c = some .int := by
      rcases hst with h | h <;> subst h <;> simp [nstep, hne, hz, hc]
    simp only [nscan, step, naccept]
    rw [nscan_int_digits r hr]
    cases r with
    | nil => simp
    | cons d r => simp; omega

theorem intRepr_scan (i : Int) :
    nscan .start (intRepr i) 0 Option.none = some ((intRepr i).length, false) := by
  cases i with
  | ofNat n =>
    simp only [intRepr]
    rw [nscan_nat n .start (Or.inl rfl)]; simp
  | negSucc n =>
    simp only [intRepr, nscan, nstep, if_true, naccept]
    rw [nscan_nat (n + 1) .minus (Or.inr rfl)]
    simp; omega

theorem natRepr_head_ne_minus (n : Nat) : ∀ r, natRepr n ≠ '-' :: r := by
  intro r h
  have := toDigits_all_isDig n '-' (by rw [← natRepr_eq, h]; simp)
  simp [isDig] at this

theorem intOfLex_intRepr (i : Int) : intOfLex (intRepr i) = i := by
  cases i with
  | ofNat n =>
    simp only [intRepr]
    unfold intOfLex
    split
    · rename_i ds h; exact absurd h (natRepr_head_ne_minus n ds)
    · rw [natOfDigits_natRepr]; rfl
  | negSucc n =>
    simp only [intRepr, intOfLex]
    rw [natOfDigits_natRepr]
    omega

theorem parseNumber_int (i : Int) {rest : Str} (hd : delim rest = true) :
    parseNumber (intRepr i ++ rest) = .ok (.int i, rest) := by
  unfold parseNumber
  rw [nscan_delim _ _ _ _ _ hd, intRepr_scan]
  simp [intOfLex_intRepr]

/-! ### renderings -/

mutual
/-- `Ren v s`: `s` is the JSON token sequence of `v` (class tags ignored) with arbitrary white
space after `[ { , :` and before `] } , :` -/
def Ren : Val → Str → Prop
  | .list _ xs, s => ∃ body, RenL xs body ∧ s = '[' :: (body ++ [']'])
  | .dict _ kvs, s => ∃ body, RenK kvs body ∧ s = '{' :: (body ++ ['}'])
  | .flt r, s => s = r ∧ fltOk r = true
  | .none, s => s = scalarText .none
  | .bool b, s => s = scalarText (.bool b)
  | .int i, s => s = scalarText (.int i)
  | .str x, s => s = scalarText (.str x)
def RenL : List Val → Str → Prop
  | [], b => Ws b
  | x :: xs, b => ∃ w r t, Ws w ∧ Ren x r ∧ RenTail xs t ∧ b = w ++ (r ++ t)
def RenTail : List Val → Str → Prop
  | [], t => Ws t
  | y :: ys, t => ∃ w1 w2 r t', Ws w1 ∧ Ws w2 ∧ Ren y r ∧ RenTail ys t' ∧ t = w1 ++ ',' :: (w2 ++ (r ++ t'))
def RenK : List (Str × Val) → Str → Prop
  | [], b => Ws b
  | (k, v) :: kvs, b => ∃ w w1 w2 r t, Ws w ∧ Ws w1 ∧ Ws w2 ∧ Ren v r ∧ RenTailK kvs t ∧
      b = w ++ (quoted k ++ (w1 ++ ':' :: (w2 ++ (r ++ t))))
def RenTailK : List (Str × Val) → Str → Prop
  | [], t => Ws t
  | (k, v) :: kvs, t => ∃ wa wb w1 w2 r t', Ws wa ∧ Ws wb ∧ Ws w1 ∧ Ws w2 ∧ Ren v r ∧ RenTailK kvs t' ∧
      t = wa ++ ',' :: (wb ++ (quoted k ++ (w1 ++ ':' :: (w2 ++ (r ++ t')))))
end

theorem Ren_startsOk : ∀ (v : Val) (s : Str), Ren v s → StartsOk s
  | .list _ xs, s, h => by
    simp only [Ren] at h; obtain ⟨b, _, rfl⟩ := h; exact ⟨'[', _, rfl, by decide⟩
  | .dict _ kvs, s, h => by
    simp only [Ren] at h; obtain ⟨b, _, rfl⟩ := h; exact ⟨'{', _, rfl, by decide⟩
  | .flt r, s, h => by
    simp only [Ren] at h
    obtain ⟨rfl, h⟩ := h
    unfold fltOk at h
    exact nscan_startsOk (x := (s.length, true)) (by simpa using h)
  | .none, s, h => by simp only [Ren] at h; subst h; exact ⟨'n', _, rfl, by decide⟩
  | .bool true, s, h => by simp only [Ren] at h; subst h; exact ⟨'t', _, rfl, by decide⟩
  | .bool false, s, h => by simp only [Ren] at h; subst h; exact ⟨'f', _, rfl, by decide⟩
  | .int i, s, h => by
    simp only [Ren] at h; subst h
    exact nscan_startsOk (intRepr_scan i)
  | .str x, s, h => by simp only [Ren] at h; subst h; exact ⟨'"', _, rfl, by decide⟩

theorem delim_tail {xs : List Val} {t : Str} (h : RenTail xs t) (c : Char) (hc : delim [c] = true)
    (rest : Str) : delim (t ++ c :: rest) = true := by
  cases xs with
  | nil => simp only [RenTail] at h; exact delim_ws_then h hc rest
  | cons y ys =>
    simp only [RenTail] at h
    obtain ⟨w1, w2, r, t', h1, _, _, _, rfl⟩ := h
    rw [List.append_assoc]
    exact delim_ws_then h1 (by decide) _

theorem delim_tailK {xs : List (Str × Val)} {t : Str} (h : RenTailK xs t) (c : Char) (hc : delim [c] = true)
    (rest : Str) : delim (t ++ c :: rest) = true := by
  cases xs with
  | nil => simp only [RenTailK] at h; exact delim_ws_then h hc rest
  | cons y ys =>
    obtain ⟨k, v⟩ := y
    simp only [RenTailK] at h
    obtain ⟨wa, wb, w1, w2, r, t', h1, _, _, _, _, _, rfl⟩ := h
    rw [List.append_assoc]
    exact delim_ws_then h1 (by decide) _

/-- `dict(pairs)` applied to a list of pairs -/
def insAll (acc : List (Str × Val)) : List (Str × Val) → List (Str × Val)
  | [] => acc
  | (k, v) :: rest => insAll (dictInsert acc k v) rest

/-- what the key/colon prefix of an object member does to `parseMembers` -/
theorem members_step (f : Nat) (k : Str) (w1 w2 : Str) (hw1 : Ws w1) (hw2 : Ws w2) (r : Str)
    (hr : StartsOk r) (tail : Str) (acc : List (Str × Val)) :
    parseMembers (f + 1) (quoted k ++ (w1 ++ ':' :: (w2 ++ (r ++ tail)))) acc =
      (do
        let (v, r3) ← parseValue f (r ++ tail)
        match skipWs r3 with
        | '}' :: r4 => pure (.dict .plain (dictInsert acc k v), r4)
        | ',' :: r4 => parseMembers f (skipWs r4) (dictInsert acc k v)
        | _ => bad) := by
  unfold quoted
  simp only [List.cons_append, parseMembers, List.append_assoc]
  rw [scan_quoted]
  simp only [bind, Except.bind, List.nil_append]
  rw [skipWs_ws_then hw1 (by decide)]
  simp only []
  rw [skipWs_append hw2, skipWs_startsOk hr]
  rfl

theorem parseValue_of_nscan {s : Str} {x : Nat × Bool} (h : nscan .start s 0 Option.none = some x)
    (f : Nat) : parseValue (f + 1) s = parseNumber s := by
  unfold parseValue
  split <;> first | rfl | (simp [nscan, nstep, naccept, isDig] at h)

theorem insAll_nil_right (acc : List (Str × Val)) : insAll acc [] = acc := rfl

/-! what the reader builds from a rendering of `v`: class tags dropped, every object passed
through `dict(pairs)` (identity when the keys are distinct, see `dec_eq_erase`) -/
mutual
def dec : Val → Val
  | .list _ xs => .list .plain (decL xs)
  | .dict _ kvs => .dict .plain (insAll [] (decK kvs))
  | v => v
def decL : List Val → List Val
  | [] => []
  | x :: xs => dec x :: decL xs
def decK : List (Str × Val) → List (Str × Val)
  | [] => []
  | (k, v) :: kvs => (k, dec v) :: decK kvs
end

mutual
theorem pv_ren : ∀ (v : Val) (s : Str), Ren v s → ∀ (f : Nat) (rest : Str), s.length ≤ f →
    delim rest = true → parseValue f (s ++ rest) = .ok (dec v, rest)
  | .none, s, h => by
    intro f rest hf hd
    simp only [Ren] at h; subst h
    cases f with
    | zero => simp [scalarText] at hf
    | succ f => rfl
  | .bool true, s, h => by
    intro f rest hf hd
    simp only [Ren] at h; subst h
    cases f with
    | zero => simp [scalarText] at hf
    | succ f => rfl
  | .bool false, s, h => by
    intro f rest hf hd
    simp only [Ren] at h; subst h
    cases f with
    | zero => simp [scalarText] at hf
    | succ f => rfl
  | .int i, s, h => by
    intro f rest hf hd
    simp only [Ren] at h; subst h
    have hs := intRepr_scan i
    have hpos : 0 < (scalarText (.int i)).length := by
      obtain ⟨c, r, hcr, _⟩ := nscan_startsOk hs
      simp [scalarText, hcr]
    cases f with
    | zero => omega
    | succ f =>
      simp only [scalarText]
      rw [parseValue_of_nscan (x := ((intRepr i).length, false)) (by rw [nscan_delim _ _ _ _ _ hd]; exact hs),
        parseNumber_int i hd]
      rfl
  | .flt r, s, h => by
    intro f rest hf hd
    simp only [Ren] at h
    obtain ⟨rfl, h⟩ := h
    have hs : nscan .start s 0 Option.none = some (s.length, true) := by
      unfold fltOk at h; simpa using h
    have hpos : 0 < s.length := by
      obtain ⟨c, r, hcr, _⟩ := nscan_startsOk hs
      simp [hcr]
    cases f with
    | zero => omega
    | succ f =>
      rw [parseValue_of_nscan (x := (s.length, true)) (by rw [nscan_delim _ _ _ _ _ hd]; exact hs),
        parseNumber_flt h hd]
      rfl
  | .str x, s, h => by
    intro f rest hf hd
    simp only [Ren] at h; subst h
    cases f with
    | zero => simp [scalarText, quoted] at hf
    | succ f =>
      simp only [scalarText, quoted, List.cons_append, List.append_assoc, parseValue]
      rw [scan_quoted]
      rfl
  | .list c xs, s, h => by
    intro f rest hf hd
    simp only [Ren] at h
    obtain ⟨body, hb, rfl⟩ := h
    cases f with
    | zero => simp at hf
    | succ f =>
      have := pl_ren xs body hb f rest (by simp at hf; omega)
      simpa [dec] using this
  | .dict c kvs, s, h => by
    intro f rest hf hd
    simp only [Ren] at h
    obtain ⟨body, hb, rfl⟩ := h
    cases f with
    | zero => simp at hf
    | succ f =>
      have := pk_ren kvs body hb f rest (by simp at hf; omega)
      simpa [dec] using this
theorem pl_ren : ∀ (xs : List Val) (body : Str), RenL xs body → ∀ (f : Nat) (rest : Str),
    body.length + 1 ≤ f →
    parseValue (f + 1) ('[' :: (body ++ (']' :: rest))) = .ok (.list .plain (decL xs), rest)
  | [], body, h => by
    intro f rest hf
    simp only [RenL] at h
    simp only [parseValue]
    rw [skipWs_ws_then h (by decide)]
    rfl
  | x :: xs, body, h => by
    intro f rest hf
    simp only [RenL] at h
    obtain ⟨w, r, t, hw, hr, ht, rfl⟩ := h
    have hso := Ren_startsOk x r hr
    simp only [parseValue]
    rw [List.append_assoc, skipWs_append hw, List.append_assoc, skipWs_startsOk hso]
    have key := pt_ren xs t ht r (dec x) (fun f' rest' => pv_ren x r hr f' rest') f [] rest
      (by simp only [List.length_append] at hf ⊢; omega)
    obtain ⟨c, r0, rfl, hc⟩ := hso
    simp only [List.cons_append] at key ⊢
    split
    · rename_i heq
      cases heq
      simp [startOk] at hc
    · simpa [decL] using key
theorem pt_ren : ∀ (ys : List Val) (t : Str), RenTail ys t → ∀ (r : Str) (ex : Val),
    (∀ f' rest', r.length ≤ f' → delim rest' = true → parseValue f' (r ++ rest') = .ok (ex, rest')) →
    ∀ (f : Nat) (acc : List Val) (rest : Str), (r ++ t).length + 1 ≤ f →
    parseItems f (r ++ (t ++ (']' :: rest))) acc = .ok (.list .plain (acc ++ ex :: decL ys), rest)
  | [], t, h => by
    intro r ex hx f acc rest hf
    simp only [RenTail] at h
    cases f with
    | zero => omega
    | succ f =>
      simp only [parseItems]
      rw [hx f _ (by simp only [List.length_append] at hf; omega) (delim_ws_then h (by decide) rest)]
      simp only [bind, Except.bind]
      rw [skipWs_ws_then h (by decide)]
      simp [decL, pure, Except.pure]
  | y :: ys, t, h => by
    intro r ex hx f acc rest hf
    simp only [RenTail] at h
    obtain ⟨w1, w2, r', t', hw1, hw2, hr', ht', rfl⟩ := h
    cases f with
    | zero => omega
    | succ f =>
      simp only [parseItems]
      rw [hx f _ (by simp only [List.length_append] at hf; omega)
        (by rw [List.append_assoc]; exact delim_ws_then hw1 (by decide) _)]
      simp only [bind, Except.bind]
      simp only [List.cons_append, List.append_assoc]
      rw [skipWs_ws_then hw1 (by decide)]
      simp only []
      rw [skipWs_append hw2, skipWs_startsOk (Ren_startsOk y r' hr')]
      have key := pt_ren ys t' ht' r' (dec y) (fun f' rest' => pv_ren y r' hr' f' rest') f (acc ++ [ex]) rest
        (by simp only [List.length_append, List.length_cons] at hf ⊢; omega)
      rw [key]
      simp [decL]
theorem pk_ren : ∀ (kvs : List (Str × Val)) (body : Str), RenK kvs body → ∀ (f : Nat) (rest : Str),
    body.length + 1 ≤ f →
    parseValue (f + 1) ('{' :: (body ++ ('}' :: rest))) = .ok (.dict .plain (insAll [] (decK kvs)), rest)
  | [], body, h => by
    intro f rest hf
    simp only [RenK] at h
    simp only [parseValue]
    rw [skipWs_ws_then h (by decide)]
    rfl
  | (k, v) :: kvs, body, h => by
    intro f rest hf
    simp only [RenK] at h
    obtain ⟨w, w1, w2, r, t, hw, hw1, hw2, hr, ht, rfl⟩ := h
    simp only [parseValue]
    rw [List.append_assoc, skipWs_append hw]
    have hq : skipWs ((quoted k ++ (w1 ++ ':' :: (w2 ++ (r ++ t)))) ++ '}' :: rest)
        = quoted k ++ (w1 ++ ':' :: (w2 ++ (r ++ (t ++ '}' :: rest)))) := by
      simp [quoted, skipWs, isWs]
    rw [hq]
    have key := ptk_ren kvs t ht k w1 w2 r (dec v) hw1 hw2 (Ren_startsOk v r hr)
      (fun f' rest' => pv_ren v r hr f' rest') f [] rest
      (by simp only [List.length_append, List.length_cons] at hf ⊢; omega)
    have hq2 : quoted k ++ (w1 ++ ':' :: (w2 ++ (r ++ (t ++ '}' :: rest))))
        = '"' :: (esc k ++ '"' :: (w1 ++ ':' :: (w2 ++ (r ++ (t ++ '}' :: rest))))) := by
      simp [quoted]
    rw [hq2] at key ⊢
    simpa [decK, insAll, dictInsert] using key
theorem ptk_ren : ∀ (kvs : List (Str × Val)) (t : Str), RenTailK kvs t →
    ∀ (k w1 w2 r : Str) (ev : Val), Ws w1 → Ws w2 → StartsOk r →
    (∀ f' rest', r.length ≤ f' → delim rest' = true → parseValue f' (r ++ rest') = .ok (ev, rest')) →
    ∀ (f : Nat) (acc : List (Str × Val)) (rest : Str), (r ++ t).length + 1 ≤ f →
    parseMembers f (quoted k ++ (w1 ++ ':' :: (w2 ++ (r ++ (t ++ ('}' :: rest)))))) acc
      = .ok (.dict .plain (insAll (dictInsert acc k ev) (decK kvs)), rest)
  | [], t, h => by
    intro k w1 w2 r ev hw1 hw2 hso hv f acc rest hf
    simp only [RenTailK] at h
    cases f with
    | zero => omega
    | succ f =>
      rw [members_step f k w1 w2 hw1 hw2 r hso]
      rw [hv f _ (by simp only [List.length_append] at hf; omega) (delim_ws_then h (by decide) rest)]
      simp only [bind, Except.bind]
      rw [skipWs_ws_then h (by decide)]
      simp [decK, insAll, pure, Except.pure]
  | (k', v') :: kvs, t, h => by
    intro k w1 w2 r ev hw1 hw2 hso hv f acc rest hf
    simp only [RenTailK] at h
    obtain ⟨wa, wb, w1', w2', r', t', hwa, hwb, hw1', hw2', hr', ht', rfl⟩ := h
    cases f with
    | zero => omega
    | succ f =>
      rw [members_step f k w1 w2 hw1 hw2 r hso]
      rw [hv f _ (by simp only [List.length_append] at hf; omega)
        (by rw [List.append_assoc]; exact delim_ws_then hwa (by decide) _)]
      simp only [bind, Except.bind]
      simp only [List.cons_append, List.append_assoc]
      rw [skipWs_ws_then hwa (by decide)]
      simp only []
      rw [skipWs_append hwb]
      have hq : skipWs (quoted k' ++ (w1' ++ ':' :: (w2' ++ (r' ++ (t' ++ '}' :: rest)))))
          = quoted k' ++ (w1' ++ ':' :: (w2' ++ (r' ++ (t' ++ '}' :: rest)))) := by
        simp [quoted, skipWs, isWs]
      rw [hq]
      have key := ptk_ren kvs t' ht' k' w1' w2' r' (dec v') hw1' hw2' (Ren_startsOk v' r' hr')
        (fun f' rest' => pv_ren v' r' hr' f' rest') f (dictInsert acc k ev) rest
        (by simp only [List.length_append, List.length_cons] at hf ⊢; omega)
      rw [key]
      simp [decK, insAll]
end

/-! ### Part 2: without the pair layout `pretty` is a rendering -/

def keysOf (kvs : List (Str × Val)) : List Str := kvs.map (·.1)

def nodupKeys : List (Str × Val) → Bool
  | [] => true
  | (k, _) :: kvs => !(keysOf kvs).contains k && nodupKeys kvs

mutual
/-- JSON-representable trees: keys unique in every dict, float lexemes are JSON float lexemes -/
def wf : Val → Bool
  | .list _ xs => wfL xs
  | .dict _ kvs => wfK kvs && nodupKeys kvs
  | .flt r => fltOk r
  | _ => true
def wfL : List Val → Bool
  | [] => true
  | x :: xs => wf x && wfL xs
def wfK : List (Str × Val) → Bool
  | [] => true
  | (_, v) :: kvs => wf v && wfK kvs
end

mutual
/-- nesting depth: a scalar has depth 0, a container one more than its deepest item -/
def depth : Val → Nat
  | .list _ xs => 1 + depthL xs
  | .dict _ kvs => 1 + depthK kvs
  | _ => 0
def depthL : List Val → Nat
  | [] => 0
  | x :: xs => max (depth x) (depthL xs)
def depthK : List (Str × Val) → Nat
  | [] => 0
  | (_, v) :: kvs => max (depth v) (depthK kvs)
end

theorem Ws_nlAt (o : Opts) (m : Nat) : Ws (nlAt o m) := by
  unfold nlAt
  split
  · exact Ws_nil
  · exact Ws_cons (by decide) (Ws_replicate _)

theorem Ws_sp (o : Opts) : Ws (sp o) := by
  unfold sp
  split
  · exact Ws_nil
  · exact Ws_cons (by decide) Ws_nil

theorem Ren_ne_nil {v : Val} {s : Str} (h : Ren v s) : s ≠ [] := by
  obtain ⟨c, r, rfl, _⟩ := Ren_startsOk v s h
  simp

theorem RenTail_ws : ∀ (xs : List Val) (t w : Str), RenTail xs t → Ws w → RenTail xs (t ++ w)
  | [], t, w, h, hw => by simp only [RenTail] at h ⊢; exact Ws_append h hw
  | y :: ys, t, w, h, hw => by
    simp only [RenTail] at h ⊢
    obtain ⟨w1, w2, r, t', h1, h2, hr, ht, rfl⟩ := h
    exact ⟨w1, w2, r, t' ++ w, h1, h2, hr, RenTail_ws ys t' w ht hw, by simp⟩

theorem RenTail_snoc : ∀ (xs : List Val) (t w r : Str) (y : Val), RenTail xs t → Ws w → Ren y r →
    RenTail (xs ++ [y]) (t ++ ',' :: (w ++ r))
  | [], t, w, r, y, h, hw, hr => by
    simp only [RenTail] at h
    simp only [List.nil_append, RenTail]
    exact ⟨t, w, r, [], h, hw, hr, Ws_nil, by simp⟩
  | z :: zs, t, w, r, y, h, hw, hr => by
    simp only [RenTail] at h
    obtain ⟨w1, w2, r0, t0, h1, h2, hr0, ht0, rfl⟩ := h
    simp only [List.cons_append, RenTail]
    exact ⟨w1, w2, r0, t0 ++ ',' :: (w ++ r), h1, h2, hr0, RenTail_snoc zs t0 w r y ht0 hw hr, by simp⟩

theorem RenTailK_ws : ∀ (xs : List (Str × Val)) (t w : Str), RenTailK xs t → Ws w → RenTailK xs (t ++ w)
  | [], t, w, h, hw => by simp only [RenTailK] at h ⊢; exact Ws_append h hw
  | (k, v) :: ys, t, w, h, hw => by
    simp only [RenTailK] at h ⊢
    obtain ⟨wa, wb, w1, w2, r, t', ha, hb, h1, h2, hr, ht, rfl⟩ := h
    exact ⟨wa, wb, w1, w2, r, t' ++ w, ha, hb, h1, h2, hr, RenTailK_ws ys t' w ht hw, by simp⟩

theorem RenTailK_snoc : ∀ (xs : List (Str × Val)) (t wb w2 r k : Str) (v : Val), RenTailK xs t →
    Ws wb → Ws w2 → Ren v r →
    RenTailK (xs ++ [(k, v)]) (t ++ ',' :: (wb ++ (quoted k ++ (':' :: (w2 ++ r)))))
  | [], t, wb, w2, r, k, v, h, hb, h2, hr => by
    simp only [RenTailK] at h
    simp only [List.nil_append, RenTailK]
    exact ⟨t, wb, [], w2, r, [], h, hb, Ws_nil, h2, hr, Ws_nil, by simp⟩
  | (k0, v0) :: zs, t, wb, w2, r, k, v, h, hb, h2, hr => by
    simp only [RenTailK] at h
    obtain ⟨wa', wb', w1', w2', r0, t0, ha', hb', h1', h2', hr0, ht0, rfl⟩ := h
    simp only [List.cons_append, RenTailK]
    exact ⟨wa', wb', w1', w2', r0, _, ha', hb', h1', h2', hr0,
      RenTailK_snoc zs t0 wb w2 r k v ht0 hb h2 hr, by simp⟩

/-- the accumulated body after the items `done` have been printed -/
def AccL : List Val → Str → Prop
  | [], acc => acc = []
  | x :: rest, acc => ∃ r t, Ren x r ∧ RenTail rest t ∧ acc = r ++ t

def AccK : List (Str × Val) → Str → Prop
  | [], acc => acc = []
  | (k, v) :: rest, acc => ∃ w1 w2 r t, Ws w1 ∧ Ws w2 ∧ Ren v r ∧ RenTailK rest t ∧
      acc = quoted k ++ (w1 ++ ':' :: (w2 ++ (r ++ t)))

theorem AccL_step {done : List Val} {acc : Str} (h : AccL done acc) {y : Val} {r w : Str}
    (hr : Ren y r) (hw : Ws w) :
    AccL (done ++ [y]) ((if !acc.isEmpty then acc ++ [','] ++ w else acc) ++ r) := by
  cases done with
  | nil =>
    simp only [AccL] at h; subst h
    simp only [List.nil_append, AccL]
    exact ⟨r, [], hr, Ws_nil, by simp⟩
  | cons x rest =>
    simp only [AccL] at h
    obtain ⟨r0, t0, hr0, ht0, rfl⟩ := h
    have hne : (r0 ++ t0).isEmpty = false := by
      obtain ⟨c, r1, rfl, _⟩ := Ren_startsOk x r0 hr0
      rfl
    simp only [hne, List.cons_append, AccL]
    exact ⟨r0, t0 ++ ',' :: (w ++ r), hr0, RenTail_snoc rest t0 w r y ht0 hw hr, by simp⟩

theorem AccK_step {done : List (Str × Val)} {acc : Str} (h : AccK done acc) {k : Str} {v : Val} {r w w2 : Str}
    (hr : Ren v r) (hw : Ws w) (hw2 : Ws w2) :
    AccK (done ++ [(k, v)]) ((if !acc.isEmpty then acc ++ [','] ++ w else acc) ++ (quoted k ++ [':'] ++ w2 ++ r)) := by
  cases done with
  | nil =>
    simp only [AccK] at h; subst h
    simp only [List.nil_append, AccK]
    exact ⟨[], w2, r, [], Ws_nil, hw2, hr, Ws_nil, by simp⟩
  | cons x rest =>
    obtain ⟨k0, v0⟩ := x
    simp only [AccK] at h
    obtain ⟨w1', w2', r0, t0, h1', h2', hr0, ht0, rfl⟩ := h
    have hne : (quoted k0 ++ (w1' ++ ':' :: (w2' ++ (r0 ++ t0)))).isEmpty = false := by
      simp [quoted]
    simp only [hne, List.cons_append, AccK]
    exact ⟨w1', w2', r0, _, h1', h2', hr0, RenTailK_snoc rest t0 w w2 r k v ht0 hw hw2 hr, by simp⟩

theorem closeUp_nil (o : Opts) (lvl : Nat) (l r : Char) :
    closeUp o lvl l r [] = if o.skipEmpty then [] else l :: (sp o ++ sp o ++ [r]) := by
  unfold closeUp
  cases o.skipEmpty <;> simp

theorem closeUp_ne (o : Opts) (lvl : Nat) (l r : Char) {body : Str} (h : body ≠ []) :
    ∃ w w', Ws w ∧ Ws w' ∧ closeUp o lvl l r body = l :: (w ++ (body ++ (w' ++ [r]))) := by
  unfold closeUp
  have : body.isEmpty = false := by cases body <;> simp at h ⊢
  simp only [this, Bool.not_false, Bool.true_or, if_true]
  split
  · exact ⟨_, _, Ws_nlAt o (lvl + 1), Ws_nlAt o lvl, by simp⟩
  · exact ⟨_, _, Ws_sp o, Ws_sp o, by simp⟩

def dropL (o : Opts) (xs : List Val) : List Val := if o.skipEmpty then pruneList xs else xs
def dropK (o : Opts) (kvs : List (Str × Val)) : List (Str × Val) := if o.skipEmpty then pruneKvs kvs else kvs

/-- what `pretty` returns for `t`: nothing when `skip_empty_arrays` drops it, else a rendering -/
def Out (o : Opts) (t : Val) (s : Str) : Prop :=
  (o.skipEmpty = true ∧ isEmptyContainer (prune t) = true ∧ s = []) ∨
  (¬ (o.skipEmpty = true ∧ isEmptyContainer (prune t) = true) ∧ Ren (dropEmptyIf o t) s)

theorem Out_of_AccL (o : Opts) (lvl : Nat) (c : Cls) (xs : List Val) {body : Str}
    (h : AccL (dropL o xs) body) : Out o (.list c xs) (closeUp o lvl '[' ']' body) := by
  unfold Out dropEmptyIf
  unfold dropL at h
  cases hs : o.skipEmpty
  · -- skip off
    simp only [hs, Bool.false_eq_true, if_false, false_and, not_false_eq_true, true_and, false_or] at h ⊢
    cases xs with
    | nil =>
      simp only [AccL] at h; subst h
      rw [closeUp_nil, hs]
      simp only [Bool.false_eq_true, if_false, Ren]
      exact ⟨sp o ++ sp o, Ws_append (Ws_sp o) (Ws_sp o), by simp⟩
    | cons x rest =>
      simp only [AccL] at h
      obtain ⟨r, t, hr, ht, rfl⟩ := h
      obtain ⟨w, w', hw, hw', he⟩ := closeUp_ne o lvl '[' ']' (body := r ++ t)
        (by have := Ren_ne_nil hr; simp [this])
      rw [he]
      simp only [Ren]
      exact ⟨w ++ (r ++ (t ++ w')), ⟨w, r, t ++ w', hw, hr, RenTail_ws rest t w' ht hw', rfl⟩, by simp⟩
  · simp only [hs, if_true, true_and, prune] at h ⊢
    cases hp : pruneList xs with
    | nil =>
      rw [hp] at h
      simp only [AccL] at h; subst h
      left
      rw [closeUp_nil, hs]
      simp [isEmptyContainer]
    | cons x rest =>
      rw [hp] at h
      right
      simp only [AccL] at h
      obtain ⟨r, t, hr, ht, rfl⟩ := h
      obtain ⟨w, w', hw, hw', he⟩ := closeUp_ne o lvl '[' ']' (body := r ++ t)
        (by have := Ren_ne_nil hr; simp [this])
      rw [he]
      refine ⟨by simp [isEmptyContainer], ?_⟩
      simp only [Ren]
      exact ⟨w ++ (r ++ (t ++ w')), ⟨w, r, t ++ w', hw, hr, RenTail_ws rest t w' ht hw', rfl⟩, by simp⟩

theorem Out_of_AccK (o : Opts) (lvl : Nat) (c : Cls) (kvs : List (Str × Val)) {body : Str}
    (h : AccK (dropK o kvs) body) : Out o (.dict c kvs) (closeUp o lvl '{' '}' body) := by
  unfold Out dropEmptyIf
  unfold dropK at h
  cases hs : o.skipEmpty
  · simp only [hs, Bool.false_eq_true, if_false, false_and, not_false_eq_true, true_and, false_or] at h ⊢
    cases kvs with
    | nil =>
      simp only [AccK] at h; subst h
      rw [closeUp_nil, hs]
      simp only [Bool.false_eq_true, if_false, Ren]
      exact ⟨sp o ++ sp o, Ws_append (Ws_sp o) (Ws_sp o), by simp⟩
    | cons x rest =>
      obtain ⟨k, v⟩ := x
      simp only [AccK] at h
      obtain ⟨w1, w2, r, t, h1, h2, hr, ht, rfl⟩ := h
      obtain ⟨w, w', hw, hw', he⟩ := closeUp_ne o lvl '{' '}' (body := quoted k ++ (w1 ++ ':' :: (w2 ++ (r ++ t))))
        (by simp [quoted])
      rw [he]
      simp only [Ren]
      exact ⟨w ++ (quoted k ++ (w1 ++ ':' :: (w2 ++ (r ++ (t ++ w'))))),
        ⟨w, w1, w2, r, t ++ w', hw, h1, h2, hr, RenTailK_ws rest t w' ht hw', rfl⟩, by simp⟩
  · simp only [hs, if_true, true_and, prune] at h ⊢
    cases hp : pruneKvs kvs with
    | nil =>
      rw [hp] at h
      simp only [AccK] at h; subst h
      left
      rw [closeUp_nil, hs]
      simp [isEmptyContainer]
    | cons x rest =>
      obtain ⟨k, v⟩ := x
      rw [hp] at h
      right
      simp only [AccK] at h
      obtain ⟨w1, w2, r, t, h1, h2, hr, ht, rfl⟩ := h
      obtain ⟨w, w', hw, hw', he⟩ := closeUp_ne o lvl '{' '}' (body := quoted k ++ (w1 ++ ':' :: (w2 ++ (r ++ t))))
        (by simp [quoted])
      rw [he]
      refine ⟨by simp [isEmptyContainer], ?_⟩
      simp only [Ren]
      exact ⟨w ++ (quoted k ++ (w1 ++ ':' :: (w2 ++ (r ++ (t ++ w'))))),
        ⟨w, w1, w2, r, t ++ w', hw, h1, h2, hr, RenTailK_ws rest t w' ht hw', rfl⟩, by simp⟩

theorem pretty_list_np {o : Opts} (h : o.pairsOn = false) (lvl : Nat) (c : Cls) (xs : List Val) :
    pretty o lvl (.list c xs) = closeUp o lvl '[' ']' (prettyItems o lvl xs []) := by
  simp [pretty, h]

theorem joinItem_eq (o : Opts) (lvl : Nat) (cond : Bool) (acc sub : Str) :
    joinItem o lvl cond acc sub
      = (if !acc.isEmpty then acc ++ [','] ++ (if cond then sp o else nlAt o (lvl + 1)) else acc) ++ sub := rfl

theorem dropL_cons_drop {o : Opts} {x : Val} (xs : List Val)
    (hs : o.skipEmpty = true) (he : isEmptyContainer (prune x) = true) :
    dropL o (x :: xs) = dropL o xs := by
  simp [dropL, hs, pruneList, he]

theorem dropL_cons_keep {o : Opts} {x : Val} (xs : List Val)
    (h : ¬ (o.skipEmpty = true ∧ isEmptyContainer (prune x) = true)) :
    dropL o (x :: xs) = dropEmptyIf o x :: dropL o xs := by
  unfold dropL dropEmptyIf
  cases hs : o.skipEmpty
  · simp
  · have : isEmptyContainer (prune x) = false := by
      cases he : isEmptyContainer (prune x)
      · rfl
      · exact absurd ⟨hs, he⟩ h
    simp [pruneList, this]

theorem dropK_cons_drop {o : Opts} {k : Str} {v : Val} (kvs : List (Str × Val))
    (hs : o.skipEmpty = true) (he : isEmptyContainer (prune v) = true) :
    dropK o ((k, v) :: kvs) = dropK o kvs := by
  simp [dropK, hs, pruneKvs, he]

theorem dropK_cons_keep {o : Opts} {k : Str} {v : Val} (kvs : List (Str × Val))
    (h : ¬ (o.skipEmpty = true ∧ isEmptyContainer (prune v) = true)) :
    dropK o ((k, v) :: kvs) = (k, dropEmptyIf o v) :: dropK o kvs := by
  unfold dropK dropEmptyIf
  cases hs : o.skipEmpty
  · simp
  · have : isEmptyContainer (prune v) = false := by
      cases he : isEmptyContainer (prune v)
      · rfl
      · exact absurd ⟨hs, he⟩ h
    simp [pruneKvs, this]

theorem Out_scalar (o : Opts) (v : Val) (hne : isEmptyContainer (prune v) = false)
    (hr : Ren (dropEmptyIf o v) (scalarText v)) : Out o v (scalarText v) :=
  Or.inr ⟨by simp [hne], hr⟩

/-- the depth guard `indent_ < 111 or json_convention` of the fixed code (C11-e) is always open in
a JSON export -/
theorem guard_json (lvl : Nat) : (decide (lvl < 111) || jsonConv) = true := by
  simp [jsonConv]

mutual
theorem pretty_ren (o : Opts) (hp : o.pairsOn = false) : ∀ (t : Val), wf t = true → ∀ (lvl : Nat),
    Out o t (pretty o lvl t)
  | .none, _, lvl => by
    simp only [pretty]
    exact Out_scalar o _ (by simp [prune, isEmptyContainer]) (by unfold dropEmptyIf; split <;> simp [prune, Ren])
  | .bool b, _, lvl => by
    simp only [pretty]
    exact Out_scalar o _ (by simp [prune, isEmptyContainer]) (by unfold dropEmptyIf; split <;> simp [prune, Ren])
  | .int i, _, lvl => by
    simp only [pretty]
    exact Out_scalar o _ (by simp [prune, isEmptyContainer]) (by unfold dropEmptyIf; split <;> simp [prune, Ren])
  | .str x, _, lvl => by
    simp only [pretty]
    exact Out_scalar o _ (by simp [prune, isEmptyContainer]) (by unfold dropEmptyIf; split <;> simp [prune, Ren])
  | .flt r, hw, lvl => by
    simp only [pretty]
    simp only [wf] at hw
    exact Out_scalar o _ (by simp [prune, isEmptyContainer])
      (by unfold dropEmptyIf; split <;> simp [prune, Ren, scalarText, hw])
  | .list c xs, hw, lvl => by
    rw [pretty_list_np hp]
    apply Out_of_AccL
    simp only [wf] at hw
    have := items_ren o hp xs hw lvl [] [] (by simp [AccL])
    simpa using this
  | .dict c kvs, hw, lvl => by
    simp only [pretty]
    apply Out_of_AccK
    simp only [wf, Bool.and_eq_true] at hw
    have := kvs_ren o hp kvs hw.1 lvl (condense kvs) [] [] (by simp [AccK])
    simpa using this
theorem items_ren (o : Opts) (hp : o.pairsOn = false) : ∀ (xs : List Val), wfL xs = true →
    ∀ (lvl : Nat) (acc : Str) (done : List Val),
    AccL done acc → AccL (done ++ dropL o xs) (prettyItems o lvl xs acc)
  | [], _, lvl, acc, done, ha => by
    have : dropL o [] = [] := by unfold dropL; split <;> simp [pruneList]
    simpa [prettyItems, this] using ha
  | x :: xs, hw, lvl, acc, done, ha => by
    simp only [wfL, Bool.and_eq_true] at hw
    have hx := pretty_ren o hp x hw.1 (lvl + 1)
    simp only [prettyItems, guard_json, ↓reduceIte]
    rcases hx with ⟨hs, he, hnil⟩ | ⟨hne, hr⟩
    · rw [hnil, dropL_cons_drop xs hs he]
      simp only [hs, List.isEmpty_nil, Bool.and_self, ↓reduceIte]
      exact items_ren o hp xs hw.2 lvl acc done ha
    · have hsub : (pretty o (lvl + 1) x).isEmpty = false := by
        have := Ren_ne_nil hr
        cases h : pretty o (lvl + 1) x <;> simp_all
      rw [dropL_cons_keep xs hne]
      simp only [hsub, Bool.and_false, Bool.false_eq_true, ↓reduceIte]
      have ha' := AccL_step ha hr (Ws_nlAt o (lvl + 1))
      have := items_ren o hp xs hw.2 lvl _ _ ha'
      simpa [joinItem_eq] using this
theorem kvs_ren (o : Opts) (hp : o.pairsOn = false) : ∀ (kvs : List (Str × Val)), wfK kvs = true →
    ∀ (lvl : Nat) (cond : Bool) (acc : Str) (done : List (Str × Val)),
    AccK done acc → AccK (done ++ dropK o kvs) (prettyKvs o lvl cond kvs acc)
  | [], _, lvl, cond, acc, done, ha => by
    have : dropK o [] = [] := by unfold dropK; split <;> simp [pruneKvs]
    simpa [prettyKvs, this] using ha
  | (k, v) :: kvs, hw, lvl, cond, acc, done, ha => by
    simp only [wfK, Bool.and_eq_true] at hw
    have hx := pretty_ren o hp v hw.1 (lvl + 1)
    simp only [prettyKvs, guard_json, ↓reduceIte]
    rcases hx with ⟨hs, he, hnil⟩ | ⟨hne, hr⟩
    · rw [hnil, dropK_cons_drop kvs hs he]
      simp only [hs, List.isEmpty_nil, Bool.and_self, ↓reduceIte]
      exact kvs_ren o hp kvs hw.2 lvl cond acc done ha
    · have hsub : (pretty o (lvl + 1) v).isEmpty = false := by
        have := Ren_ne_nil hr
        cases h : pretty o (lvl + 1) v <;> simp_all
      rw [dropK_cons_keep kvs hne]
      simp only [hsub, Bool.and_false, Bool.false_eq_true, ↓reduceIte]
      have hw' : Ws (if cond then sp o else nlAt o (lvl + 1)) := by
        split
        · exact Ws_sp o
        · exact Ws_nlAt o (lvl + 1)
      have ha' := AccK_step (k := k) ha hr hw' (Ws_sp o)
      have := kvs_ren o hp kvs hw.2 lvl cond _ _ ha'
      simpa [joinItem_eq] using this
end

/-! ### Part 3: `dict(pairs)` is the identity on distinct keys; `prune` keeps well-formedness -/

theorem dictInsert_notin {acc : List (Str × Val)} {k : Str} (v : Val) (h : k ∉ keysOf acc) :
    dictInsert acc k v = acc ++ [(k, v)] := by
  induction acc with
  | nil => rfl
  | cons p acc ih =>
    obtain ⟨k', v'⟩ := p
    simp only [keysOf, List.map_cons, List.mem_cons, not_or] at h
    simp only [dictInsert, h.1, if_false, List.cons_append]
    rw [ih (by simpa [keysOf] using h.2)]

theorem insAll_append : ∀ (kvs acc : List (Str × Val)), (∀ k ∈ keysOf kvs, k ∉ keysOf acc) →
    nodupKeys kvs = true → insAll acc kvs = acc ++ kvs
  | [], acc, _, _ => by simp [insAll]
  | (k, v) :: kvs, acc, h, hn => by
    simp only [nodupKeys, Bool.and_eq_true, Bool.not_eq_true', List.contains_eq_mem,
      decide_eq_false_iff_not] at hn
    simp only [insAll]
    rw [dictInsert_notin v (h k (by simp [keysOf])), insAll_append kvs _ _ hn.2]
    · simp
    · intro k' hk'
      simp only [keysOf, List.map_append, List.map_cons, List.map_nil, List.mem_append,
        List.mem_singleton, not_or]
      refine ⟨?_, ?_⟩
      · have := h k' (by simp only [keysOf, List.map_cons, List.mem_cons]; right; exact hk')
        simpa [keysOf] using this
      · intro e; subst e; exact hn.1 hk'

theorem keysOf_decK : ∀ (kvs : List (Str × Val)), keysOf (decK kvs) = keysOf kvs
  | [] => rfl
  | (k, v) :: kvs => by
    have := keysOf_decK kvs
    simp only [keysOf] at this
    simp [decK, keysOf, this]

theorem keysOf_eraseKvs : ∀ (kvs : List (Str × Val)), keysOf (eraseKvs kvs) = keysOf kvs
  | [] => rfl
  | (k, v) :: kvs => by
    have := keysOf_eraseKvs kvs
    simp only [keysOf] at this
    simp [eraseKvs, keysOf, this]

theorem nodupKeys_congr : ∀ (a b : List (Str × Val)), keysOf a = keysOf b → nodupKeys a = nodupKeys b
  | [], [], _ => rfl
  | [], _ :: _, h => by simp [keysOf] at h
  | _ :: _, [], h => by simp [keysOf] at h
  | (k, v) :: a, (k', v') :: b, h => by
    simp only [keysOf, List.map_cons, List.cons.injEq] at h
    obtain ⟨rfl, h⟩ := h
    have h' : keysOf a = keysOf b := h
    simp only [nodupKeys, h', nodupKeys_congr a b h']

mutual
theorem dec_erase : ∀ (v : Val), wf v = true → dec v = erase v
  | .none, _ => rfl
  | .bool _, _ => rfl
  | .int _, _ => rfl
  | .flt _, _ => rfl
  | .str _, _ => rfl
  | .list c xs, h => by
    simp only [wf] at h
    simp only [dec, erase, decL_erase xs h]
  | .dict c kvs, h => by
    simp only [wf, Bool.and_eq_true] at h
    have hk := decK_erase kvs h.1
    have hn : nodupKeys (decK kvs) = true := by
      rw [nodupKeys_congr _ _ (keysOf_decK kvs)]; exact h.2
    simp only [dec, erase]
    rw [insAll_append _ [] (by intro k _; simp [keysOf]) hn, hk]
    rfl
theorem decL_erase : ∀ (xs : List Val), wfL xs = true → decL xs = eraseList xs
  | [], _ => rfl
  | x :: xs, h => by
    simp only [wfL, Bool.and_eq_true] at h
    simp only [decL, eraseList, dec_erase x h.1, decL_erase xs h.2]
theorem decK_erase : ∀ (kvs : List (Str × Val)), wfK kvs = true → decK kvs = eraseKvs kvs
  | [], _ => rfl
  | (k, v) :: kvs, h => by
    simp only [wfK, Bool.and_eq_true] at h
    simp only [decK, eraseKvs, dec_erase v h.1, decK_erase kvs h.2]
end

theorem keysOf_pruneKvs_sub : ∀ (kvs : List (Str × Val)) (k : Str), k ∈ keysOf (pruneKvs kvs) → k ∈ keysOf kvs
  | [], k, h => by simp [pruneKvs, keysOf] at h
  | (k0, v) :: kvs, k, h => by
    simp only [pruneKvs] at h
    split at h
    · simp only [keysOf, List.map_cons, List.mem_cons]
      right; exact keysOf_pruneKvs_sub kvs k h
    · simp only [keysOf, List.map_cons, List.mem_cons] at h ⊢
      rcases h with h | h
      · left; exact h
      · right; exact keysOf_pruneKvs_sub kvs k h

theorem nodupKeys_pruneKvs : ∀ (kvs : List (Str × Val)), nodupKeys kvs = true → nodupKeys (pruneKvs kvs) = true
  | [], _ => by simp [pruneKvs, nodupKeys]
  | (k, v) :: kvs, h => by
    simp only [nodupKeys, Bool.and_eq_true, Bool.not_eq_true', List.contains_eq_mem,
      decide_eq_false_iff_not] at h
    simp only [pruneKvs]
    split
    · exact nodupKeys_pruneKvs kvs h.2
    · simp only [nodupKeys, Bool.and_eq_true, Bool.not_eq_true', List.contains_eq_mem,
        decide_eq_false_iff_not]
      exact ⟨fun hk => h.1 (keysOf_pruneKvs_sub kvs k hk), nodupKeys_pruneKvs kvs h.2⟩

mutual
theorem wf_prune : ∀ (v : Val), wf v = true → wf (prune v) = true
  | .none, h => h
  | .bool _, h => h
  | .int _, h => h
  | .flt _, h => h
  | .str _, h => h
  | .list c xs, h => by
    simp only [wf] at h
    simp only [prune, wf, wfL_prune xs h]
  | .dict c kvs, h => by
    simp only [wf, Bool.and_eq_true] at h
    simp only [prune, wf, Bool.and_eq_true]
    exact ⟨wfK_prune kvs h.1, nodupKeys_pruneKvs kvs h.2⟩
theorem wfL_prune : ∀ (xs : List Val), wfL xs = true → wfL (pruneList xs) = true
  | [], _ => by simp [pruneList, wfL]
  | x :: xs, h => by
    simp only [wfL, Bool.and_eq_true] at h
    simp only [pruneList]
    split
    · exact wfL_prune xs h.2
    · simp only [wfL, Bool.and_eq_true]
      exact ⟨wf_prune x h.1, wfL_prune xs h.2⟩
theorem wfK_prune : ∀ (kvs : List (Str × Val)), wfK kvs = true → wfK (pruneKvs kvs) = true
  | [], _ => by simp [pruneKvs, wfK]
  | (k, v) :: kvs, h => by
    simp only [wfK, Bool.and_eq_true] at h
    simp only [pruneKvs]
    split
    · exact wfK_prune kvs h.2
    · simp only [wfK, Bool.and_eq_true]
      exact ⟨wf_prune v h.1, wfK_prune kvs h.2⟩
end

theorem wf_dropEmptyIf (o : Opts) (t : Val) (h : wf t = true) : wf (dropEmptyIf o t) = true := by
  unfold dropEmptyIf
  split
  · exact wf_prune t h
  · exact h

/-- the reader on a rendering -/
theorem jsonDecode_ren {v : Val} {s : Str} (h : Ren v s) : jsonDecode s = some (dec v) := by
  unfold jsonDecode jsonDecodeE
  have hs := skipWs_startsOk (Ren_startsOk v s h) []
  simp only [List.append_nil] at hs
  have := pv_ren v s h (2 * s.length + 2) [] (by omega) rfl
  simp only [List.append_nil] at this
  rw [hs, this]
  rfl

end N0.Json
