import N0Verif.Model.Tlv
import N0Verif.Gen.TlvGenPy
/-!
  The definitions that `harness/translate_py_tlvgen.py` regenerates from the Python source of `generate_tlv`
  (`Gen/TlvGenPy.lean`) are equal to the hand-written model (`Model/Tlv.lean`): the element of the generator
  expression is `Tlv.genEntry`, the `''.join(… for …)` is `Tlv.genEntries`, the statements in front of the `return`
  are the probe `Tlv.lenPadOk`, and the function is `Tlv.generateTlv`.  The model counts field widths in `Nat` and
  takes the paddings as characters; the translated code has `Int` widths and `str` paddings: the theorems are about
  non-negative widths and one-character paddings (the scope the model declares).
-/
namespace N0.TlvGenWriterEq
open N0 N0.Py N0.Tlv N0.Gen.TlvGenPy

theorem pyStrInt_nat (n : Nat) : pyStrInt (n : Int) = Tlv.decimal n := by
  simp [pyStrInt, Tlv.decimal]

theorem entry_eq (d : List (Str × Str)) (tl ll : Nat) (tp lp : Char) (tag value : Str) :
    GenerateTlv.entry d tl ll [tp] [lp] tag value = Tlv.genEntry tl ll tp lp tag value := by
  simp only [GenerateTlv.entry, Tlv.genEntry, pyStrInt_nat, pyJust, pyLen, Int.ofNat_eq_natCast, Int.toNat_natCast,
    Int.ofNat_le, if_true, Bool.false_eq_true, if_false]
  by_cases h1 : tag.length ≤ tl
  · by_cases h2 : (Tlv.decimal value.length).length ≤ ll <;> simp [h1, h2]
  · simp [h1]

theorem entries_eq (d0 : List (Str × Str)) (tl ll : Nat) (tp lp : Char) : ∀ d : List (Str × Str),
    joinMapE (fun p => GenerateTlv.entry d0 tl ll [tp] [lp] p.1 p.2) d = Tlv.genEntries tl ll tp lp d := by
  have hf : (fun p : Str × Str => GenerateTlv.entry d0 tl ll [tp] [lp] p.1 p.2)
      = fun p => Tlv.genEntry tl ll tp lp p.1 p.2 := by
    funext p; exact entry_eq d0 tl ll tp lp p.1 p.2
  rw [hf]
  intro d
  induction d with
  | nil => simp [joinMapE, Tlv.genEntries]
  | cons p rest ih =>
    obtain ⟨t, v⟩ := p
    simp only [joinMapE, Tlv.genEntries, ih]
    cases Tlv.genEntry tl ll tp lp t v with
    | error e => rfl
    | ok s => cases Tlv.genEntries tl ll tp lp rest <;> rfl

theorem guard_eq (d : List (Str × Str)) (tl ll : Int) (tp : Str) (lp : Char) :
    GenerateTlv.guard d tl ll tp [lp] = if Tlv.lenPadOk lp then .ok () else .error .AssertionError := by
  have e1 : ∀ r, Tlv.pyInt [lp, lp, '1'] = r →
      pyIntE [lp, lp, '1'] = (match r with | some n => .ok n | none => .error .ValueError) := by
    intro r h; subst h; unfold pyIntE; cases Tlv.pyInt [lp, lp, '1'] <;> rfl
  rcases h : Tlv.pyInt [lp, lp, '1'] with _ | n
  · simp [GenerateTlv.guard, Tlv.lenPadOk, pyLen, e1 _ h, h, pyTry]
  · by_cases hn : n = 1 <;> simp [GenerateTlv.guard, Tlv.lenPadOk, pyLen, e1 _ h, h, pyTry, hn]

theorem generateTlv_eq (d : List (Str × Str)) (tl ll : Nat) (tp lp : Char) :
    Gen.TlvGenPy.generateTlv d tl ll [tp] [lp] = Tlv.generateTlv tl ll tp lp d := by
  simp only [Gen.TlvGenPy.generateTlv, Tlv.generateTlv, guard_eq, entries_eq]
  cases Tlv.lenPadOk lp <;> simp

/-- a padding of more than one character is not probed: the guard lets it through (`ljust`/`rjust` then raise
`TypeError` on the first entry) -/
theorem guard_skips (d : List (Str × Str)) (tl ll : Int) (tp lp : Str) (h : lp.length ≠ 1) :
    GenerateTlv.guard d tl ll tp lp = .ok () := by
  have h' : ¬ ((lp.length : Int) = 1) := by omega
  simp [GenerateTlv.guard, pyLen, h']

end N0.TlvGenWriterEq
