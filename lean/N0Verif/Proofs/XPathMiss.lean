import N0Verif.Proofs.XPathSpellings
import N0Verif.Proofs.XPathDelete
/-!
  Missing paths (C05, C01): the path of an existing node followed by
  (a) a name step whose key the dict node does not have, (b) a name step below a scalar leaf.
  `_find` walks along the existing prefix (`find_walk_c05m`) and then reports NOT FOUND at the dict (a) or raises
  `IndexError` (b); item access raises `IndexError` in both cases, `get` / `first` / `pop` give the default, `delete`
  raises `KeyError` (a: `del parent_node[None]`) / `IndexError` (b: the exception of `_find` passes through).
-/
namespace N0.XPath
open N0 N0.Py N0.Val

/-- token `tok` is a name step `name` or `name[index]` -/
structure NameTok (tok name : Str) (idx : Idx) : Prop where
  split : splitNameIndex tok = .ok (name, idx)
  ne : name ≠ []
  notUp : name ≠ ['.', '.']
  notStar : name ≠ ['*']

theorem KeyTok.nameTok {tok : Str} (h : KeyTok tok) : NameTok tok tok .none :=
  ⟨h.split, h.ne, h.notUp, h.notStar⟩

theorem KeyIdxTok.nameTok {tok k e : Str} {i : Int} (h : KeyIdxTok tok k e i) : NameTok tok k (.str e) :=
  ⟨h.split, h.kne, h.notUp, h.notStar⟩

/-- **walk along an existing prefix**: tokens that spell position `p` below the node at `q`, followed by at least one
more token, bring `_find` to the node at `q ++ p` with the remaining tokens. -/
theorem find_walk_c05m (root : Val) (rl : Bool) (rest : List Str) (hrest : rest ≠ []) {toks : List Str} {v : Val} {p : Pos}
    {c : Val} (h : Spells toks v p c) : ∀ (fuel : Nat) (q : Pos) (found : Str) (entry : Bool) (k : Nat),
      getAt root q = some v → fuel ≥ 2 * toks.length + k →
      ∃ f' found' entry', f' ≥ k ∧
        findD fuel root [] false entry (toks ++ rest) (.at q) rl found
          = findD f' root [] false entry' rest (.at (q ++ p)) rl found' := by
  induction h with
  | nil v =>
    intro fuel q found entry k _ hf
    exact ⟨fuel, found, entry, by simpa using hf, by simp⟩
  | @key tok rest' cls kvs c p d hk hl hs ih =>
    intro fuel q found entry k hq hf
    obtain ⟨f, rfl⟩ : ∃ f, fuel = f + 1 := ⟨fuel - 1, by simp at hf; omega⟩
    have hne : rest' ++ rest ≠ [] := by simp [hrest]
    rw [List.cons_append, find_key_step f root entry rl q found tok (rest' ++ rest) cls kvs c hne hq hk hl]
    have hq' : getAt root (q ++ [.key tok]) = some c := by
      rw [getAt_snoc, hq]; simp [child, hl]
    obtain ⟨f', found', entry', hf', he⟩ :=
      ih f (q ++ [.key tok]) (found ++ slash ++ tok) false k hq' (by simp at hf ⊢; omega)
    exact ⟨f', found', entry', hf', by simpa using he⟩
  | @idx tok e i rest' cls xs n c p d hk hn hx hs ih =>
    intro fuel q found entry k hq hf
    obtain ⟨f, rfl⟩ : ∃ f, fuel = f + 1 := ⟨fuel - 1, by simp at hf; omega⟩
    have hne : rest' ++ rest ≠ [] := by simp [hrest]
    rw [List.cons_append, find_idx_step f root entry rl q found tok e i (rest' ++ rest) hne cls xs n hq hk hn]
    have hq' : getAt root (q ++ [.idx n]) = some c := by
      rw [getAt_snoc, hq]; simp [child, hx]
    obtain ⟨f', found', entry', hf', he⟩ :=
      ih f (q ++ [.idx n]) _ false k hq' (by simp at hf ⊢; omega)
    exact ⟨f', found', entry', hf', by simpa using he⟩
  | @keyIdx tok k0 e i rest' cls kvs cls' xs n c p d hk hl hn hx hs ih =>
    intro fuel q found entry k hq hf
    obtain ⟨f, rfl⟩ : ∃ f, fuel = f + 2 := ⟨fuel - 2, by simp at hf; omega⟩
    have hne : rest' ++ rest ≠ [] := by simp [hrest]
    rw [List.cons_append, find_keyidx_step (f + 1) root entry rl q found tok k0 e i (rest' ++ rest) cls kvs _ hq hk hl]
    have hq1 : getAt root (q ++ [Seg.key k0]) = some (.list cls' xs) := by
      rw [getAt_snoc, hq]; simp [child, hl]
    rw [find_idx_step f root false rl (q ++ [Seg.key k0]) _ (bracket e) e i (rest' ++ rest) hne cls' xs n hq1 hk.inner hn]
    have hq' : getAt root (q ++ [Seg.key k0] ++ [Seg.idx n]) = some c := by
      rw [getAt_snoc, hq1]; simp [child, hx]
    obtain ⟨f', found', entry', hf', he⟩ :=
      ih f (q ++ [Seg.key k0] ++ [Seg.idx n]) _ false k hq' (by simp at hf ⊢; omega)
    exact ⟨f', found', entry', hf', by simpa using he⟩

/-- a name step on a dict that does not have the key: NOT FOUND, reported at that dict -/
theorem find_name_unknown (fuel : Nat) (root : Val) (entry rl : Bool) (q : Pos) (found tok name : Str) (idx : Idx)
    (rest : List Str) (cls : Cls) (kvs : List (Str × Val))
    (hq : getAt root q = some (.dict cls kvs)) (hk : NameTok tok name idx) (hl : lookup name kvs = Option.none) :
    findD (fuel + 1) root [] false entry (tok :: rest) (.at q) rl found
      = .ok (root, { parent := .at q, nameIdx := Option.none, value := Val.none, found := found,
                     notFound := some (tok :: rest) }) := by
  have hne : name.isEmpty = false := isEmpty_false_of_ne hk.ne
  rw [findD]
  simp only [Bool.false_and, Bool.false_eq_true, if_false, valOf_at, hq, hk.split, hne, Bool.not_false,
    hk.notUp, hk.notStar, isList, isDict, Bool.not_true, hl, if_true]

/-- a name step below a value that is neither a dict nor a list: `IndexError` -/
theorem find_name_leaf (fuel : Nat) (root : Val) (entry rl : Bool) (q : Pos) (found tok name : Str) (idx : Idx)
    (rest : List Str) (v : Val) (hq : getAt root q = some v) (hnl : isList v = false) (hnd : isDict v = false)
    (hk : NameTok tok name idx) :
    findD (fuel + 1) root [] false entry (tok :: rest) (.at q) rl found = .error .IndexError := by
  have hne : name.isEmpty = false := isEmpty_false_of_ne hk.ne
  rw [findD]
  simp only [Bool.false_and, Bool.false_eq_true, if_false, valOf_at, hq, hk.split, hne, Bool.not_false,
    hk.notUp, hnl, hnd, if_true]

/-- what `_find` answers for an unknown key below an existing dict node -/
def UnknownAt (_root : Val) (p : Pos) (toks : List Str) (r : Res) : Prop :=
  r.parent = .at p ∧ r.nameIdx = Option.none ∧ r.notFound = some toks

theorem find_miss_unknown (root : Val) (rl : Bool) {toks : List Str} {p : Pos} {cls : Cls} {kvs : List (Str × Val)}
    (h : Spells toks root p (.dict cls kvs)) {tok name : Str} {idx : Idx} (rest : List Str)
    (hk : NameTok tok name idx) (hl : lookup name kvs = Option.none) (fuel : Nat) (entry : Bool) (found : Str)
    (hf : fuel ≥ 2 * toks.length + 1) :
    ∃ r, findD fuel root [] false entry (toks ++ tok :: rest) (.at []) rl found = .ok (root, r) ∧
      UnknownAt root p (tok :: rest) r := by
  obtain ⟨f', found', entry', hf', he⟩ :=
    find_walk_c05m root rl (tok :: rest) (by simp) h fuel [] found entry 1 rfl hf
  obtain ⟨f, rfl⟩ : ∃ f, f' = f + 1 := ⟨f' - 1, by omega⟩
  rw [he, List.nil_append,
    find_name_unknown f root entry' rl p found' tok name idx rest cls kvs h.getAt hk hl]
  exact ⟨_, rfl, rfl, rfl, rfl⟩

theorem find_miss_leaf (root : Val) (rl : Bool) {toks : List Str} {p : Pos} {c : Val}
    (h : Spells toks root p c) (hnl : isList c = false) (hnd : isDict c = false)
    {tok name : Str} {idx : Idx} (rest : List Str) (hk : NameTok tok name idx)
    (fuel : Nat) (entry : Bool) (found : Str) (hf : fuel ≥ 2 * toks.length + 1) :
    findD fuel root [] false entry (toks ++ tok :: rest) (.at []) rl found = .error .IndexError := by
  obtain ⟨f', found', entry', hf', he⟩ :=
    find_walk_c05m root rl (tok :: rest) (by simp) h fuel [] found entry 1 rfl hf
  obtain ⟨f, rfl⟩ : ∃ f, f' = f + 1 := ⟨f' - 1, by omega⟩
  rw [he, List.nil_append, find_name_leaf f root entry' rl p found' tok name idx rest c h.getAt hnl hnd hk]

/-! ### `_get`, `delete`, `pop` on a token list of that kind -/

theorem getCore_dict_notFound (fuel : Nat) (cls : Cls) (kvs : List (Str × Val)) (xp : Str) (d : Val) (raise rl : Bool)
    (hq : startsWith xp ['?'] = false) (hpc : hasPathChar xp = true) (r : Res)
    (hfind : findD fuel (.dict cls kvs) [] false true (tokenize xp) (.at []) rl slash = .ok (.dict cls kvs, r))
    (hnf : r.isFound = false) :
    getCore fuel (.dict cls kvs) xp d raise rl = missResult (.dict cls kvs) d raise := by
  simp only [getCore, hq, Bool.false_eq_true, if_false, hpc, if_true]
  rw [hfind]
  simp only [hnf, Bool.false_eq_true, if_false, missResult]

theorem getCore_dict_indexError (fuel : Nat) (cls : Cls) (kvs : List (Str × Val)) (xp : Str) (d : Val) (raise rl : Bool)
    (hq : startsWith xp ['?'] = false) (hpc : hasPathChar xp = true)
    (hfind : findD fuel (.dict cls kvs) [] false true (tokenize xp) (.at []) rl slash = .error .IndexError) :
    getCore fuel (.dict cls kvs) xp d raise rl = missResult (.dict cls kvs) d raise := by
  simp only [getCore, hq, Bool.false_eq_true, if_false, hpc, if_true]
  rw [hfind]
  simp [caught, missResult]

theorem UnknownAt.isFound {root : Val} {p : Pos} {tok : Str} {rest : List Str} {r : Res}
    (h : UnknownAt root p (tok :: rest) r) : r.isFound = false :=
  isFound_notFound_cons r tok rest h.2.2

/-- `delete` whose first `_find` reports an unknown key below a dict: `del parent_node[None]` is a KeyError -/
theorem delete_unknown (fuel : Nat) (cls : Cls) (kvs : List (Str × Val)) (xp : Str) (rec : Bool)
    (hq : startsWith xp ['?'] = false) (p : Pos) (cls' : Cls) (kvs' : List (Str × Val))
    (hp : getAt (.dict cls kvs) p = some (.dict cls' kvs')) (tok : Str) (rest : List Str) (r : Res)
    (hne : tokenize xp ≠ [])
    (hfind : findD fuel (.dict cls kvs) [] false true (tokenize xp) (.at []) true slash = .ok (.dict cls kvs, r))
    (hr : UnknownAt (.dict cls kvs) p (tok :: rest) r) :
    delete fuel (.dict cls kvs) xp rec = (.dict cls kvs, .error .KeyError) := by
  obtain ⟨n, hn⟩ : ∃ n, (tokenize xp).length = n + 1 := ⟨(tokenize xp).length - 1, by
    have : (tokenize xp).length ≠ 0 := by intro h; exact hne (List.length_eq_zero_iff.mp h)
    omega⟩
  obtain ⟨hpar, hni, hnf⟩ := hr
  have hfd : r.isFound = false := isFound_notFound_cons r tok rest hnf
  unfold delete deleteTokens
  simp only [stripQ_noQ _ hq, hn]
  rw [deleteLoop]
  have htake : (tokenize xp).take (n + 1) = tokenize xp := by rw [← hn]; exact List.take_length
  rw [htake, hfind]
  simp only [delPlace, hpar, isWrap, Bool.false_and, Bool.false_eq_true, if_false, Bool.true_or, if_true,
    delThrough, hni, valOf_at, hp]

/-- `delete` whose first `_find` raises: the exception passes through, nothing is changed -/
theorem delete_find_error (fuel : Nat) (cls : Cls) (kvs : List (Str × Val)) (xp : Str) (rec : Bool) (e : PyErr)
    (hq : startsWith xp ['?'] = false) (hne : tokenize xp ≠ [])
    (hfind : findD fuel (.dict cls kvs) [] false true (tokenize xp) (.at []) true slash = .error e) :
    delete fuel (.dict cls kvs) xp rec = (.dict cls kvs, .error e) := by
  obtain ⟨n, hn⟩ : ∃ n, (tokenize xp).length = n + 1 := ⟨(tokenize xp).length - 1, by
    have : (tokenize xp).length ≠ 0 := by intro h; exact hne (List.length_eq_zero_iff.mp h)
    omega⟩
  unfold delete deleteTokens
  simp only [stripQ_noQ _ hq, hn]
  rw [deleteLoop]
  have htake : (tokenize xp).take (n + 1) = tokenize xp := by rw [← hn]; exact List.take_length
  rw [htake, hfind]

/-- `pop` when item access raises IndexError and leaves the tree alone -/
theorem pop_of_indexError (fuel : Nat) (t : Val) (xp : Str) (d : Val) (rec : Bool)
    (hq : startsWith xp ['?'] = false) (h : getItem fuel t xp = (t, .error .IndexError)) :
    pop fuel t xp d rec = .ok (t, d) := by
  unfold pop
  rw [stripQ_noQ _ hq, h]

/-! ### string level: spellings -/

theorem toksOf_append_key (k : Str) (tail : List StepSp) : ∀ steps : List StepSp,
    toksOf (steps ++ .key k :: tail) = toksOf steps ++ toksOf (.key k :: tail)
  | [] => by simp [toksOf]
  | [.key k0] => by
    rw [List.singleton_append, toksOf_key_cons k0 _ (by intro e r h; cases h),
      toksOf_key_cons k0 [] (by intro e r h; cases h)]
    simp [toksOf]
  | .key k0 :: .key k1 :: rest => by
    have ih := toksOf_append_key k tail (.key k1 :: rest)
    rw [List.cons_append, toksOf_key_cons k0 _ (by intro e r h; cases h),
      toksOf_key_cons k0 (.key k1 :: rest) (by intro e r h; cases h), ih]
    simp
  | .key k0 :: .idx e true :: rest => by
    have ih := toksOf_append_key k tail (.idx e true :: rest)
    rw [List.cons_append, toksOf_key_cons k0 _ (by intro e r h; cases h),
      toksOf_key_cons k0 (.idx e true :: rest) (by intro e r h; cases h), ih]
    simp
  | .key k0 :: .idx e false :: rest => by
    have ih := toksOf_append_key k tail rest
    simp only [List.cons_append, toksOf, ih]
  | .idx e sep :: rest => by
    have ih := toksOf_append_key k tail rest
    simp only [List.cons_append, toksOf, ih]

theorem plainSteps_append : ∀ (a b : List StepSp), PlainSteps (a ++ b) ↔ PlainSteps a ∧ PlainSteps b
  | [], b => by simp [PlainSteps]
  | .key k :: a, b => by
    simp only [List.cons_append, PlainSteps, plainSteps_append a b, and_assoc]
  | .idx _ _ :: a, b => by
    simp only [List.cons_append, PlainSteps, plainSteps_append a b]

/-- the first token of a key step and what follows it is a name token for that key -/
theorem toksOf_key_head (k : Str) (tail : List StepSp) (hk : PlainKey k) :
    ∃ tok idx rest, toksOf (.key k :: tail) = tok :: rest ∧ NameTok tok k idx := by
  cases tail with
  | nil => exact ⟨k, .none, [], by simp [toksOf], hk.keyTok.nameTok⟩
  | cons s r =>
    cases s with
    | key k2 => exact ⟨k, .none, _, toksOf_key_cons k _ (by intro e r h; cases h), hk.keyTok.nameTok⟩
    | idx e sep =>
      cases sep with
      | true => exact ⟨k, .none, _, toksOf_key_cons k _ (by intro e r h; cases h), hk.keyTok.nameTok⟩
      | false => exact ⟨k ++ bracket e.text, .str e.text, toksOf r, by simp only [toksOf], (e.keyIdxTok hk).nameTok⟩

/-- a spelling written with a leading `/` or `//`, or with at least two steps, goes through `_find` -/
theorem hasPathChar_renderSp (lead : Lead) (steps : List StepSp)
    (h : lead ≠ .rel ∨ ∃ s s2 r, steps = s :: s2 :: r) : hasPathChar (renderSp lead steps) = true := by
  cases lead with
  | one => exact hasPathChar_of_mem (ch := '/') (by simp [renderSp, leadStr]) (Or.inl rfl)
  | two => exact hasPathChar_of_mem (ch := '/') (by simp [renderSp, leadStr]) (Or.inl rfl)
  | rel =>
    rcases h with h | ⟨s, s2, r, rfl⟩
    · exact absurd rfl h
    · obtain ⟨c0, body, hs, _⟩ := renderStep_head s
      obtain ⟨ch, rs, hrs, hch⟩ := renderStep_head s2
      refine hasPathChar_of_mem (ch := ch) ?_ hch
      unfold renderSp
      rw [renderSteps_cons, renderSteps_cons, hs, hrs]
      simp only [leadStr, List.nil_append, dropSlash, List.cons_append, List.head?_cons]
      by_cases h0 : some c0 = some '/'
      · simp [h0]
      · simp [h0]

theorem two_steps_of (steps tail : List StepSp) (k : Str) (h : steps ≠ [] ∨ tail ≠ []) :
    ∃ s s2 r, steps ++ .key k :: tail = s :: s2 :: r := by
  cases steps with
  | nil =>
    cases tail with
    | nil => rcases h with h | h <;> exact absurd rfl h
    | cons s2 r => exact ⟨_, s2, r, rfl⟩
  | cons s st =>
    cases st with
    | nil => exact ⟨s, .key k, tail, rfl⟩
    | cons s2 r => exact ⟨s, s2, r ++ .key k :: tail, rfl⟩

/-- what the token list of `steps ++ key k :: tail` looks like -/
theorem toks_split (steps tail : List StepSp) (k : Str) (lead : Lead) (hp : PlainSteps (steps ++ .key k :: tail)) :
    ∃ tok idx rest, tokenize (renderSp lead (steps ++ .key k :: tail)) = toksOf steps ++ tok :: rest ∧
      NameTok tok k idx := by
  obtain ⟨_, hk, _⟩ : PlainSteps steps ∧ PlainKey k ∧ PlainSteps tail := by
    have := (plainSteps_append steps (.key k :: tail)).1 hp
    exact ⟨this.1, this.2.1, this.2.2⟩
  obtain ⟨tok, idx, rest, ht, hn⟩ := toksOf_key_head k tail hk
  exact ⟨tok, idx, rest, by rw [tokenize_renderSp lead _ hp, toksOf_append_key, ht], hn⟩

/-- **unknown key.**  `steps` lead (in any spelling of the family of C01) to an existing dict node, `k` is a key that node
does not have, `tail` is whatever follows: `_get` answers a miss (item access: IndexError; `get`: the default),
`delete` raises KeyError; the tree stays as it is. -/
theorem miss_unknown_key (fuel : Nat) (cls : Cls) (kvs : List (Str × Val)) (lead : Lead) (steps tail : List StepSp)
    (k : Str) (cls' : Cls) (kvs' : List (Str × Val)) (hp : PlainSteps (steps ++ .key k :: tail))
    (hget : stepsGet (.dict cls kvs) steps = some (.dict cls' kvs')) (hl : lookup k kvs' = Option.none)
    (hlead : lead ≠ .rel ∨ steps ≠ [] ∨ tail ≠ []) (hf : fuel ≥ 2 * steps.length + 1) :
    (∀ d raise rl, getCore fuel (.dict cls kvs) (renderSp lead (steps ++ .key k :: tail)) d raise rl
        = missResult (.dict cls kvs) d raise) ∧
    (∀ rec, delete fuel (.dict cls kvs) (renderSp lead (steps ++ .key k :: tail)) rec
        = (.dict cls kvs, .error .KeyError)) := by
  have hps : PlainSteps steps := ((plainSteps_append steps _).1 hp).1
  have hs := spells_steps steps _ _ hps hget
  have hlen := toksOf_length_le steps
  obtain ⟨tok, idx, rest, htok, hn⟩ := toks_split steps tail k lead hp
  have hq := renderSp_noQ lead (steps ++ .key k :: tail) hp (by simp)
  have hpc := hasPathChar_renderSp lead (steps ++ .key k :: tail)
    (hlead.imp_right (two_steps_of steps tail k))
  refine ⟨fun d raise rl => ?_, fun rec => ?_⟩
  · obtain ⟨r, hr, hu⟩ := find_miss_unknown (.dict cls kvs) rl hs rest hn hl fuel true slash (by omega)
    exact getCore_dict_notFound fuel cls kvs _ d raise rl hq hpc r (by rw [htok]; exact hr) hu.isFound
  · obtain ⟨r, hr, hu⟩ := find_miss_unknown (.dict cls kvs) true hs rest hn hl fuel true slash (by omega)
    exact delete_unknown fuel cls kvs _ rec hq _ cls' kvs' hs.getAt tok rest r (by rw [htok]; simp)
      (by rw [htok]; exact hr) hu

/-- **a name step below a leaf.**  `steps` lead to an existing node that is neither a dict nor a list, a name step `k`
(and whatever else) follows: `_find` raises IndexError — item access raises it, `get` gives the default, `delete` lets
it through; the tree stays as it is. -/
theorem miss_below_leaf (fuel : Nat) (cls : Cls) (kvs : List (Str × Val)) (lead : Lead) (steps tail : List StepSp)
    (k : Str) (c : Val) (hp : PlainSteps (steps ++ .key k :: tail))
    (hget : stepsGet (.dict cls kvs) steps = some c) (hnl : isList c = false) (hnd : isDict c = false)
    (hf : fuel ≥ 2 * steps.length + 1) :
    (∀ d raise rl, getCore fuel (.dict cls kvs) (renderSp lead (steps ++ .key k :: tail)) d raise rl
        = missResult (.dict cls kvs) d raise) ∧
    (∀ rec, delete fuel (.dict cls kvs) (renderSp lead (steps ++ .key k :: tail)) rec
        = (.dict cls kvs, .error .IndexError)) := by
  have hps : PlainSteps steps := ((plainSteps_append steps _).1 hp).1
  have hs := spells_steps steps _ _ hps hget
  have hlen := toksOf_length_le steps
  have hne : steps ≠ [] := by
    rintro rfl
    simp only [stepsGet, Option.some.injEq] at hget
    subst hget; simp [isDict] at hnd
  obtain ⟨tok, idx, rest, htok, hn⟩ := toks_split steps tail k lead hp
  have hq := renderSp_noQ lead (steps ++ .key k :: tail) hp (by simp)
  have hpc := hasPathChar_renderSp lead (steps ++ .key k :: tail) (Or.inr (two_steps_of steps tail k (Or.inl hne)))
  refine ⟨fun d raise rl => ?_, fun rec => ?_⟩
  · exact getCore_dict_indexError fuel cls kvs _ d raise rl hq hpc
      (by rw [htok]; exact find_miss_leaf (.dict cls kvs) rl hs hnl hnd rest hn fuel true slash (by omega))
  · exact delete_find_error fuel cls kvs _ rec _ hq (by rw [htok]; simp)
      (by rw [htok]; exact find_miss_leaf (.dict cls kvs) true hs hnl hnd rest hn fuel true slash (by omega))

/-- what the callers see of a `_get` miss on a dict root -/
theorem api_of_miss (fuel : Nat) (t : Val) (xp : Str) (hq : startsWith xp ['?'] = false)
    (h : ∀ d raise rl, getCore fuel t xp d raise rl = missResult t d raise) (d : Val) (rec : Bool) :
    getItem fuel t xp = (t, .error .IndexError) ∧ get fuel t xp d = (t, .ok d) ∧ first fuel t xp d = (t, .ok d) ∧
    pop fuel t xp d rec = .ok (t, d) := by
  have hgi : getItem fuel t xp = (t, .error .IndexError) := by rw [getItem, h]; rfl
  refine ⟨hgi, ?_, first_of_miss (fun d' => ?_) d, pop_of_indexError fuel t xp d rec hq hgi⟩
  · rw [XPath.get, h]; rfl
  · rw [h]; rfl

/-! ### index out of range: what `_find` reports, and `delete` -/

/-- what `_find` answers for an index that is out of range on an existing list -/
def OutAt (root : Val) (r : Res) : Prop :=
  ∃ q cls xs i, r.parent = .at q ∧ getAt root q = some (.list cls xs) ∧ r.nameIdx = some (bracket (intStr i)) ∧
    OutOfRange i xs.length ∧ r.isFound = false

/-- `find_miss_sp` with the place of the miss: the parent reported is the list, the name is the bracketed index -/
theorem find_miss_out (root : Val) (rl : Bool) {toks : List Str} {v : Val} (h : MissAt toks v) :
    ∀ (fuel : Nat) (q : Pos) (found : Str) (entry : Bool), getAt root q = some v → fuel ≥ 2 * toks.length →
      ∃ r, findD fuel root [] false entry toks (.at q) rl found = .ok (root, r) ∧ OutAt root r := by
  induction h with
  | @idx tok e i rest cls xs hk ho =>
    intro fuel q found entry hq hf
    obtain ⟨f, rfl⟩ : ∃ f, fuel = f + 1 := ⟨fuel - 1, by simp at hf; omega⟩
    rw [find_idx_miss_sp f root [] entry rl q found tok e i rest cls xs hq hk ho]
    exact ⟨_, rfl, q, cls, xs, i, rfl, hq, rfl, ho, isFound_notFound_cons _ _ _ rfl⟩
  | @keyIdx tok k e i rest cls kvs cls' xs hk hl ho =>
    intro fuel q found entry hq hf
    obtain ⟨f, rfl⟩ : ∃ f, fuel = f + 2 := ⟨fuel - 2, by simp at hf; omega⟩
    rw [find_keyidx_step_sp (f + 1) root [] entry rl q found tok k e i rest cls kvs _ hq hk hl]
    have hq1 : getAt root (q ++ [Seg.key k]) = some (.list cls' xs) := by
      rw [getAt_snoc, hq]; simp [child, hl]
    rw [find_idx_miss_sp f root [] false rl (q ++ [Seg.key k]) _ (bracket e) e i rest cls' xs hq1 hk.inner ho]
    exact ⟨_, rfl, _, cls', xs, i, rfl, hq1, rfl, ho, isFound_notFound_cons _ _ _ rfl⟩
  | @stepKey tok rest cls kvs c hk hl hm ih =>
    intro fuel q found entry hq hf
    obtain ⟨f, rfl⟩ : ∃ f, fuel = f + 1 := ⟨fuel - 1, by simp at hf; omega⟩
    rw [find_key_step_sp f root [] entry rl q found tok rest cls kvs c hm.ne_nil hq hk hl]
    have hq' : getAt root (q ++ [.key tok]) = some c := by
      rw [getAt_snoc, hq]; simp [child, hl]
    exact ih f _ _ false hq' (by simp at hf ⊢; omega)
  | @stepIdx tok e i rest cls xs n c hk hn hx hm ih =>
    intro fuel q found entry hq hf
    obtain ⟨f, rfl⟩ : ∃ f, fuel = f + 1 := ⟨fuel - 1, by simp at hf; omega⟩
    rw [find_idx_step_sp f root [] entry rl q found tok e i rest hm.ne_nil cls xs n hq hk hn]
    have hq' : getAt root (q ++ [.idx n]) = some c := by
      rw [getAt_snoc, hq]; simp [child, hx]
    exact ih f _ _ false hq' (by simp at hf ⊢; omega)
  | @stepKeyIdx tok k e i rest cls kvs cls' xs n c hk hl hn hx hm ih =>
    intro fuel q found entry hq hf
    obtain ⟨f, rfl⟩ : ∃ f, fuel = f + 2 := ⟨fuel - 2, by simp at hf; omega⟩
    rw [find_keyidx_step_sp (f + 1) root [] entry rl q found tok k e i rest cls kvs _ hq hk hl]
    have hq1 : getAt root (q ++ [Seg.key k]) = some (.list cls' xs) := by
      rw [getAt_snoc, hq]; simp [child, hl]
    rw [find_idx_step_sp f root [] false rl (q ++ [Seg.key k]) _ (bracket e) e i rest hm.ne_nil cls' xs n hq1 hk.inner hn]
    have hq' : getAt root (q ++ [Seg.key k] ++ [Seg.idx n]) = some c := by
      rw [getAt_snoc, hq1]; simp [child, hx]
    exact ih f _ _ false hq' (by simp at hf ⊢; omega)

theorem normIdx_none_of_outOfRange {i : Int} {len : Nat} (h : OutOfRange i len) : normIdx i len = Option.none := by
  cases hn : normIdx i len with
  | none => rfl
  | some n => exact absurd h (normIdx_range hn)

/-- **index out of range.**  `delete` of a path whose steps walk along existing nodes and then index a list out of range
(`stepsMiss`, the misses of `C01_out_of_range_miss`) raises IndexError - `del parent_node[i]` on the list - and changes
nothing, with and without `recursively`. -/
theorem delete_out_of_range (fuel : Nat) (cls : Cls) (kvs : List (Str × Val)) (lead : Lead) (steps : List StepSp)
    (rec : Bool) (hp : PlainSteps steps) (hmiss : stepsMiss (.dict cls kvs) steps = true)
    (hf : fuel ≥ 2 * steps.length) :
    delete fuel (.dict cls kvs) (renderSp lead steps) rec = (.dict cls kvs, .error .IndexError) := by
  have hm := missAt_steps steps _ hp hmiss
  have htok := tokenize_renderSp lead steps hp
  have hlen := toksOf_length_le steps
  have hne : steps ≠ [] := by rintro rfl; rw [stepsMiss_nil] at hmiss; cases hmiss
  have hq := renderSp_noQ lead steps hp hne
  obtain ⟨r, hr, q, lc, xs, i, hpar, hgq, hni, ho, hnf⟩ :=
    find_miss_out (.dict cls kvs) true hm fuel [] slash true rfl (by omega)
  obtain ⟨n, hn⟩ : ∃ n, (tokenize (renderSp lead steps)).length = n + 1 :=
    ⟨(tokenize (renderSp lead steps)).length - 1, by
      have : (tokenize (renderSp lead steps)).length ≠ 0 := by
        intro h; rw [htok] at h; exact hm.ne_nil (List.length_eq_zero_iff.mp h)
      omega⟩
  unfold delete deleteTokens
  simp only [stripQ_noQ _ hq, hn]
  rw [deleteLoop]
  have htake : (tokenize (renderSp lead steps)).take (n + 1) = tokenize (renderSp lead steps) := by
    rw [← hn]; exact List.take_length
  rw [htake, htok, hr]
  simp only [delPlace, hpar, isWrap, Bool.false_and, Bool.false_eq_true, if_false, Bool.true_or, if_true,
    delThrough, hni, valOf_at, hgq, startsWith_bracket, endsWith_bracket, Bool.and_self, Bool.not_true,
    bracket_inner, n0eval_intStr, normIdx_none_of_outOfRange ho]

/-! ### the canonical path of `xpath()` is a member of the family -/

/-- the steps of the canonical path of a position: keys, literal indexes attached to what precedes them -/
def canonSteps : Pos → List StepSp
  | [] => []
  | .key k :: p => .key k :: canonSteps p
  | .idx n :: p => .idx (.lit n) false :: canonSteps p

theorem canonSteps_length (p : Pos) : (canonSteps p).length = p.length := by
  induction p with
  | nil => rfl
  | cons s p ih => cases s <;> simp [canonSteps, ih]

theorem canonSteps_append (p q : Pos) : canonSteps (p ++ q) = canonSteps p ++ canonSteps q := by
  induction p with
  | nil => rfl
  | cons s p ih => cases s <;> simp [canonSteps, ih]

theorem renderSteps_canon (p : Pos) : renderSteps (canonSteps p) = renderPos p := by
  induction p with
  | nil => rfl
  | cons s p ih =>
    cases s with
    | key k => simp only [canonSteps, renderSteps_cons, ih, renderStep]; simp [renderPos, renderSeg]
    | idx n => simp only [canonSteps, renderSteps_cons, ih, renderStep, IdxSp.text]; simp [renderPos, renderSeg]

/-- `//a/b[0]/c`: the path `xpath()` enumerates is the spelling `renderSp .two` of the canonical steps -/
theorem renderSp_canon (k : Str) (p : Pos) :
    renderSp .two (canonSteps (.key k :: p)) = slash ++ renderPos (.key k :: p) := by
  unfold renderSp
  rw [renderSteps_canon]
  simp [renderPos, renderSeg, dropSlash, leadStr, slash]

theorem plainSteps_canon : ∀ p : Pos, PlainPos p → PlainSteps (canonSteps p)
  | [], _ => trivial
  | .key _ :: p, h => ⟨h.1, plainSteps_canon p h.2⟩
  | .idx _ :: p, h => plainSteps_canon p h

theorem stepsGet_canon : ∀ (p : Pos) (t c : Val), getAt t p = some c → stepsGet t (canonSteps p) = some c
  | [], t, c, h => by simpa [getAt, canonSteps, stepsGet] using h
  | .key k :: p, t, c, h => by
    cases t with
    | dict cls kvs =>
      simp only [getAt, child] at h
      cases hl : lookup k kvs with
      | none => simp [hl] at h
      | some x =>
        simp only [hl, Option.bind] at h
        simp only [canonSteps, stepsGet, hl, Option.bind]
        exact stepsGet_canon p x c h
    | _ => simp [getAt, child] at h
  | .idx n :: p, t, c, h => by
    cases t with
    | list cls xs =>
      simp only [getAt, child] at h
      cases hx : xs[n]? with
      | none => simp [hx] at h
      | some x =>
        simp only [hx, Option.bind] at h
        have hlt : n < xs.length := by
          rcases Nat.lt_or_ge n xs.length with h' | h'
          · exact h'
          · rw [List.getElem?_eq_none h'] at hx; cases hx
        simp only [canonSteps, stepsGet, pyIndex, IdxSp.val, normIdx_nat hlt, Option.bind, hx]
        exact stepsGet_canon p x c h
    | _ => simp [getAt, child] at h

/-- below a dict root every non-empty position of an existing node starts with a key -/
theorem pos_head_key {cls : Cls} {kvs : List (Str × Val)} {p : Pos} {c : Val}
    (h : getAt (.dict cls kvs) p = some c) (hne : p ≠ []) : ∃ k r, p = .key k :: r := by
  cases p with
  | nil => exact absurd rfl hne
  | cons s r =>
    cases s with
    | key k => exact ⟨k, r, rfl⟩
    | idx n => simp [getAt, child] at h

/-- the canonical path of the node at `p` followed by the name step `k` -/
theorem canon_path (cls : Cls) (kvs : List (Str × Val)) (p : Pos) (c : Val) (k : Str)
    (h : getAt (.dict cls kvs) p = some c) :
    renderSp .two (canonSteps p ++ .key k :: []) = slash ++ renderPos p ++ '/' :: k := by
  have h2 : ∃ k' r, p ++ [.key k] = .key k' :: r := by
    by_cases hne : p = []
    · subst hne; exact ⟨k, [], rfl⟩
    · obtain ⟨k', r, rfl⟩ := pos_head_key h hne
      exact ⟨k', r ++ [.key k], rfl⟩
  obtain ⟨k', r, he⟩ := h2
  have : canonSteps p ++ [.key k] = canonSteps (p ++ [.key k]) := by rw [canonSteps_append]; rfl
  rw [this, he, renderSp_canon, ← he]
  simp [renderPos, renderSeg]

end N0.XPath
