import N0Verif.Proofs.XPathSpellings

/-!
# Index tokens with blanks inside the brackets (`[ 1 ]`, `a[ -1 ]`, `[ last() ]`) (worker `c06spell`)

`split_name_index` strips the text between the brackets, so a padded index token is an index token for the same expression:
`IdxTok` / `KeyIdxTok` hold with the STRIPPED expression.  Every token-level theorem over `Spells` / `Sel3Spells` token lists
(`C06_star_spelled`, `C06_pred_spelled`, `C06_chained_spelled`, `xld_*_spelled`) therefore covers such spellings.
-/

namespace N0.XPath
open N0 N0.Py N0.Val

/-- `strip()` removes a whitespace padding around a text whose first and last characters are not whitespace -/
theorem stripWs_pad (wl wr e : Str) (hwl : ∀ c ∈ wl, isPySpace c = true) (hwr : ∀ c ∈ wr, isPySpace c = true) (hne : e ≠ [])
    (h1 : ∀ c, e.head? = some c → isPySpace c = false) (h2 : ∀ c, e.getLast? = some c → isPySpace c = false) :
    stripWs (wl ++ e ++ wr) = e := by
  unfold stripWs
  have hl : (wl ++ e ++ wr).dropWhile isPySpace = e ++ wr := by
    rw [List.append_assoc, List.dropWhile_append_of_pos hwl]
    apply dropWhile_eq_self
    intro x hx
    apply h1
    cases e with
    | nil => exact absurd rfl hne
    | cons a e' => simpa using hx
  rw [hl, List.reverse_append, List.dropWhile_append_of_pos (by simpa using hwr),
    dropWhile_eq_self _ e.reverse (by intro x hx; apply h2; rw [List.getLast?_eq_head?_reverse]; exact hx)]
  simp

/-- `split_name_index("k[ e ]") = ("k", "e")` -/
theorem split_bracket_pad (k e wl wr : Str) (hk : k = [] ∨ PlainKey k) (he : IdxExpr e)
    (hwl : ∀ c ∈ wl, isPySpace c = true) (hwr : ∀ c ∈ wr, isPySpace c = true) :
    splitNameIndex (k ++ bracket (wl ++ e ++ wr)) = .ok (k, .str e) := by
  have hkb : ∀ c ∈ k, c ≠ '[' := by
    rcases hk with hk | hk
    · subst hk; simp
    · exact fun c hc => (plainChar_ne (hk.chars c hc)).2.1
  have hks : stripWs k = k := by
    rcases hk with hk | hk
    · subst hk; rfl
    · exact hk.stripWs
  have hes : stripWs (wl ++ e ++ wr) = e := stripWs_pad wl wr e hwl hwr he.ne he.head he.last
  have hform : k ++ bracket (wl ++ e ++ wr) = (k ++ '[' :: (wl ++ e ++ wr)) ++ [']'] := by simp [bracket]
  have hcont : (k ++ bracket (wl ++ e ++ wr)).contains '[' = true := by simp [bracket]
  have hends : endsWith (k ++ bracket (wl ++ e ++ wr)) [']'] = true := by rw [hform]; exact endsWith_snoc _ _
  have hdrop : (k ++ bracket (wl ++ e ++ wr)).dropLast = k ++ '[' :: (wl ++ e ++ wr) := by
    rw [hform, List.dropLast_concat]
  have hne : e.isEmpty = false := isEmpty_false_of_ne he.ne
  unfold splitNameIndex
  simp only [hcont, hends, Bool.and_self, if_true, hdrop, splitOnce_bracket k (wl ++ e ++ wr) hkb, hks, hes, hne,
    Bool.false_eq_true, if_false, he.notContains, Bool.false_and, he.parseCond]
  rfl

/-- `[ e ]` is an index token for every index spelling `e`, whatever whitespace pads it -/
theorem IdxSp.idxTok_pad (e : IdxSp) (wl wr : Str) (hwl : ∀ c ∈ wl, isPySpace c = true) (hwr : ∀ c ∈ wr, isPySpace c = true) :
    IdxTok (bracket (wl ++ e.text ++ wr)) e.text e.val where
  split := by simpa using split_bracket_pad [] e.text wl wr (Or.inl rfl) (bare_idxExpr e.text_ne e.text_bare) hwl hwr
  ne := e.text_ne
  notNew := (bare_ne_special e.text_bare).1
  notStar := (bare_ne_special e.text_bare).2
  eval := e.eval

/-- `k[ e ]` is a key-with-index token -/
theorem IdxSp.keyIdxTok_pad (e : IdxSp) {k : Str} (hk : PlainKey k) (wl wr : Str) (hwl : ∀ c ∈ wl, isPySpace c = true)
    (hwr : ∀ c ∈ wr, isPySpace c = true) : KeyIdxTok (k ++ bracket (wl ++ e.text ++ wr)) k e.text e.val where
  split := split_bracket_pad k e.text wl wr (Or.inr hk) (bare_idxExpr e.text_ne e.text_bare) hwl hwr
  kne := hk.ne
  notUp := hk.notUp
  notStar := hk.keyTok.notStar
  inner := e.idxTok

end N0.XPath
