import N0Verif.Proofs.NXml
/-!
  C18, second layer of lemmas.

  Part 1 — `find_first=True` against `find_first=False` for **every** step list, including `'..'`
  (the `'..'` protocol of `recurse`: `return None` / `sought = sought[2:]; break`), for the code with
  fix C18-d applied (`return found + [(passed, items)]`).

  Part 2 — the string forms: `renderExpr`/`parseExpr` for the grammar of the property, the path
  split of `get` on rendered result paths, `get`/`findall` lifted from step lists to strings.

  Part 3 — `get_attrib`.
-/
namespace N0.NXml
open N0 N0.Py

/-! ## Part 1: `findfirst` / `in` against `findall`, with `'..'`

`kindL sought` is a *static* classification of the remaining steps of a `recurse` call:
`true`  — the call always returns a list,
`false` — the call returns `None` or the empty list (and never sets `first_found`).
A `'..'` at the head makes the call return `None`; a step whose continuation is of the second
kind can only `break` (`sought = sought[2:]`), so its kind is the kind of what follows the
step after it. -/

def kindL : List Str → Bool
  | [] => true
  | a :: rest => if a = dotdot then false else if kindL rest then true else kindL (rest.drop 1)
termination_by s => s.length
decreasing_by
  all_goals simp only [List.length_cons, List.length_drop]
  all_goals omega

theorem kindL_nil : kindL [] = true := by rw [kindL]

theorem kindL_cons (a : Str) (rest : List Str) :
    kindL (a :: rest) = if a = dotdot then false else if kindL rest then true else kindL (rest.drop 1) := by
  rw [kindL]

theorem kindL_up (rest : List Str) : kindL (dotdot :: rest) = false := by
  rw [kindL_cons]; simp

theorem kindL_of_rest (a : Str) (rest : List Str) (ha : a ≠ dotdot) (h : kindL rest = true) :
    kindL (a :: rest) = true := by
  rw [kindL_cons]; simp [ha, h]

theorem kindL_skip (a : Str) (rest : List Str) (ha : a ≠ dotdot) (h : kindL rest = false) :
    kindL (a :: rest) = kindL (rest.drop 1) := by
  rw [kindL_cons]; simp [ha, h]

theorem kindL_stars (s : List Str) (h : ∀ x ∈ s, x = star2) : kindL s = true := by
  induction s with
  | nil => exact kindL_nil
  | cons a rest ih =>
    have ha : a ≠ dotdot := by rw [h a (by simp)]; decide
    exact kindL_of_rest a rest ha (ih (fun x hx => h x (by simp [hx])))

theorem kindL_noUp (s : List Str) (h : NoUp s) : kindL s = true := by
  induction s with
  | nil => exact kindL_nil
  | cons a rest ih =>
    exact kindL_of_rest a rest (h a (by simp)) (ih (fun x hx => h x (by simp [hx])))

/-- a call of the second kind: `None` or `[]`, `first_found` untouched, and the `find_first=True`
run does exactly the same -/
def NSync (rF rT : Res) : Prop :=
  ∀ o, rF = .ok o → (o = ⟨none, false⟩ ∨ o = ⟨some [], false⟩) ∧ rT = .ok o

def CallSync (kd : Bool) (rF rT : Res) : Prop := if kd then Sync rF rT else NSync rF rT

/-- entry condition of a call: `any_xpath == 2` is only handed down with nothing but `**` left -/
def AnyOK (any : Nat) (sought : List Str) : Prop := any = 2 → ∀ x ∈ sought, x = star2

def FnSyncG (v : XVal) : Prop :=
  ∀ sought passed any, AnyOK any sought →
    CallSync (kindL sought) (recurse false v sought passed any false) (recurse true v sought passed any false)

/-- what one `recurse(...)` call inside the `for` loop does to the two runs -/
theorem guarded_syncG (kd c : Bool) (rF rT : Res) (found : List Hit) (any : Nat)
    (h : CallSync kd rF rT) (xF : LoopOut ⊕ (List Hit × Bool))
    (hF : guarded c (fun _ => rF) found false any = .ok xF) :
    (∃ f1, xF = .inr (f1, false) ∧ found <+: f1 ∧ (kd = false → f1 = found) ∧
      (guarded c (fun _ => rT) found false any = .ok (.inr (f1, false)) ∨
       ∃ f1', guarded c (fun _ => rT) found false any = .ok (.inl (.ret f1' true)) ∧
          f1' <+: f1 ∧ f1' ≠ [] ∧ kd = true)) ∨
    (xF = .inl (.brk found false any) ∧ kd = false ∧
      guarded c (fun _ => rT) found false any = .ok (.inl (.brk found false any))) := by
  cases kd with
  | true =>
    left
    obtain ⟨f1, h1, h2, h3⟩ := guarded_sync c rF rT found any (by simpa [CallSync] using h) xF hF
    refine ⟨f1, h1, h2, by simp, ?_⟩
    rcases h3 with h3 | ⟨f1', h3, h4, h5⟩
    · exact Or.inl h3
    · exact Or.inr ⟨f1', h3, h4, h5, rfl⟩
  | false =>
    have hN : NSync rF rT := by simpa [CallSync] using h
    cases c with
    | false =>
      simp [guarded] at hF; subst hF
      exact Or.inl ⟨found, rfl, List.prefix_refl _, fun _ => rfl, Or.inl (by simp [guarded])⟩
    | true =>
      cases hr : rF with
      | error e => rw [hr] at hF; simp [guarded, afterCall] at hF
      | ok o =>
        obtain ⟨ho, hT⟩ := hN o hr
        rw [hr] at hF
        rcases ho with ho | ho
        · subst ho
          simp [guarded, afterCall] at hF
          subst hF
          exact Or.inr ⟨rfl, rfl, by simp [guarded, hT, afterCall]⟩
        · subst ho
          simp [guarded, afterCall] at hF
          subst hF
          exact Or.inl ⟨found, rfl, List.prefix_refl _, fun _ => rfl, Or.inl (by simp [guarded, hT, afterCall])⟩

/-- the hits a pass of the `for` loop ends with extend the hits it started with -/
def LoopExt (found : List Hit) : LoopOut → Prop
  | .retNone _ => True
  | .ret f _ => found <+: f
  | .brk f _ _ => found <+: f

theorem forLoop_monoG (st : Step) (sought passed : List Str) (any : Nat) (kids : List Kid) :
    ∀ (found : List Hit) (idxs : List (Str × Nat)) (ff : Bool) (out : LoopOut),
    forLoop st sought passed any kids found idxs ff = .ok out → LoopExt found out := by
  induction kids with
  | nil =>
    intro found idxs ff out h
    simp [forLoop] at h; subst h; exact List.prefix_refl _
  | cons k kids ih =>
    obtain ⟨t, v, fn⟩ := k
    intro found idxs ff out h
    simp only [forLoop] at h
    have hg : ∀ (c : Bool) (r : Unit → Res) (fd : List Hit) (b : Bool) (x : LoopOut ⊕ (List Hit × Bool)),
        guarded c r fd b any = .ok x →
        (∀ f2 b2, x = .inr (f2, b2) → fd <+: f2) ∧ (∀ o, x = .inl o → LoopExt fd o) := by
      intro c r fd b x hx
      unfold guarded at hx
      split at hx
      · unfold afterCall at hx
        split at hx
        · simp at hx
        · simp at hx; subst hx; simp [LoopExt]
        · split at hx <;> (simp at hx; subst hx; simp [LoopExt])
      · simp at hx; subst hx; simp
    have hext : ∀ (a b : List Hit) (o : LoopOut), a <+: b → LoopExt b o → LoopExt a o := by
      intro a b o hab ho
      cases o with
      | retNone _ => trivial
      | ret f _ => exact List.IsPrefix.trans hab ho
      | brk f _ _ => exact List.IsPrefix.trans hab ho
    split at h
    · cases hg1 : guarded (idxOk st.idx (cnt idxs t) && condHolds st.cond v)
          (fun _ => fn (sought.drop 1) (passed ++ [stepName st t (cnt idxs t)]) any ff) found ff any with
      | error e => rw [hg1] at h; simp at h
      | ok x1 =>
        have h1 := hg _ _ _ _ _ hg1
        rw [hg1] at h
        cases x1 with
        | inl o1 => simp at h; subst h; exact h1.2 _ rfl
        | inr p1 =>
          obtain ⟨found1, ff1⟩ := p1
          simp only at h
          have hp1 := h1.1 _ _ rfl
          cases hg2 : guarded (any == 1)
              (fun _ => fn sought (passed ++ [stepName st t (cnt idxs t)]) any ff1) found1 ff1 any with
          | error e => rw [hg2] at h; simp at h
          | ok x2 =>
            have h2 := hg _ _ _ _ _ hg2
            rw [hg2] at h
            cases x2 with
            | inl o2 => simp at h; subst h; exact hext _ _ _ hp1 (h2.2 _ rfl)
            | inr p2 =>
              obtain ⟨found2, ff2⟩ := p2
              simp only at h
              exact hext _ _ _ hp1 (hext _ _ _ (h2.1 _ _ rfl) (ih _ _ _ _ h))
    · exact ih _ _ _ _ h

/-- how the two runs of one `for` pass relate when the loop can collect hits -/
def LoopSyncG (k1 : Bool) (any : Nat) (out : LoopOut) (rT : PyM LoopOut) : Prop :=
  (∃ f, out = .ret f false ∧ ∃ f' ff', rT = .ok (.ret f' ff') ∧
      f' <+: f ∧ (ff' = false → f' = f) ∧ (ff' = true → f' ≠ [])) ∨
  (k1 = false ∧ ∃ f, out = .brk f false any ∧
      (rT = .ok (.brk f false any) ∨ ∃ f', rT = .ok (.ret f' true) ∧ f' <+: f ∧ f' ≠ []))

theorem forLoop_syncL (st : Step) (sought passed : List Str) (any : Nat) (k1 : Bool)
    (post : List Item) :
    ∀ (found : List Hit) (idxs : List (Str × Nat)) (out : LoopOut),
    (∀ it ∈ post, ∀ p', CallSync k1 (recurse false it.2.2 (sought.drop 1) p' any false)
        (recurse true it.2.2 (sought.drop 1) p' any false)) →
    (any = 1 → ∀ it ∈ post, ∀ p', Sync (recurse false it.2.2 sought p' any false)
        (recurse true it.2.2 sought p' any false)) →
    forLoop st sought passed any (kidFns false post) found idxs false = .ok out →
    LoopSyncG k1 any out (forLoop st sought passed any (kidFns true post) found idxs false) := by
  induction post with
  | nil =>
    intro found idxs out _ _ h
    simp [kidFns, forLoop] at h
    subst h
    exact Or.inl ⟨found, rfl, found, false, by simp [kidFns, forLoop], List.prefix_refl _, fun _ => rfl, by simp⟩
  | cons it post ih =>
    obtain ⟨t, a, v⟩ := it
    intro found idxs out hK1 hK h
    have hK1' : ∀ it ∈ post, ∀ p', CallSync k1 (recurse false it.2.2 (sought.drop 1) p' any false)
        (recurse true it.2.2 (sought.drop 1) p' any false) := fun it hit => hK1 it (by simp [hit])
    have hK' : any = 1 → ∀ it ∈ post, ∀ p', Sync (recurse false it.2.2 sought p' any false)
        (recurse true it.2.2 sought p' any false) := fun ha it hit => hK ha it (by simp [hit])
    simp only [kidFns, forLoop] at h ⊢
    by_cases htt : tagTest st t any = true
    · simp only [htt, if_true] at h ⊢
      cases hg1 : guarded (idxOk st.idx (cnt idxs t) && condHolds st.cond v)
          (fun _ => recurse false v (sought.drop 1) (passed ++ [stepName st t (cnt idxs t)]) any false)
          found false any with
      | error e => rw [hg1] at h; simp at h
      | ok x1 =>
        rw [hg1] at h
        rcases guarded_syncG k1 _ _ _ found any (hK1 (t, a, v) (by simp) _) x1 hg1 with
          ⟨f1, hx1, hp1, _, hT1⟩ | ⟨hx1, hk1, hT1⟩
        · subst hx1
          simp only at h
          -- the "one more dive" call: Sync when it is made at all
          have hdive : CallSync true
              (recurse false v sought (passed ++ [stepName st t (cnt idxs t)]) any false)
              (recurse true v sought (passed ++ [stepName st t (cnt idxs t)]) any false) ∨ (any == 1) = false := by
            by_cases ha : any = 1
            · left; simpa [CallSync] using hK ha (t, a, v) (by simp) _
            · right; simpa using ha
          cases hg2 : guarded (any == 1)
              (fun _ => recurse false v sought (passed ++ [stepName st t (cnt idxs t)]) any false)
              f1 false any with
          | error e => rw [hg2] at h; simp at h
          | ok x2 =>
            rw [hg2] at h
            have hstep : ∃ f2, x2 = .inr (f2, false) ∧ f1 <+: f2 ∧
                (guarded (any == 1) (fun _ => recurse true v sought
                    (passed ++ [stepName st t (cnt idxs t)]) any false) f1 false any = .ok (.inr (f2, false)) ∨
                 ∃ f2', guarded (any == 1) (fun _ => recurse true v sought
                    (passed ++ [stepName st t (cnt idxs t)]) any false) f1 false any = .ok (.inl (.ret f2' true)) ∧
                    f2' <+: f2 ∧ f2' ≠ []) := by
              rcases hdive with hd | hd
              · rcases guarded_syncG true _ _ _ f1 any hd x2 hg2 with ⟨f2, hx2, hp2, _, hT2⟩ | ⟨_, hk, _⟩
                · refine ⟨f2, hx2, hp2, ?_⟩
                  rcases hT2 with hT2 | ⟨f2', hT2, hp2', hne2, _⟩
                  · exact Or.inl hT2
                  · exact Or.inr ⟨f2', hT2, hp2', hne2⟩
                · cases hk
              · rw [hd] at hg2
                simp [guarded] at hg2
                subst hg2
                exact ⟨f1, rfl, List.prefix_refl _, Or.inl (by simp [guarded, hd])⟩
            obtain ⟨f2, hx2, hp2, hT2⟩ := hstep
            subst hx2
            simp only at h
            have hrest := ih f2 (incr idxs t) out hK1' hK' h
            have hmono := forLoop_monoG _ _ _ _ _ _ _ _ _ h
            -- the True run: stopped in the first call, in the dive, or goes on
            rcases hT1 with hT1 | ⟨f1', hT1, hp1', hne1, _⟩
            · rw [hT1]
              simp only
              rcases hT2 with hT2 | ⟨f2', hT2, hp2', hne2⟩
              · rw [hT2]
                simp only
                exact hrest
              · rw [hT2]
                simp only
                rcases hrest with ⟨f, hout, _⟩ | ⟨hk, f, hout, _⟩
                · subst hout
                  exact Or.inl ⟨f, rfl, f2', true, rfl, List.IsPrefix.trans hp2' hmono, by simp, fun _ => hne2⟩
                · subst hout
                  exact Or.inr ⟨hk, f, rfl, Or.inr ⟨f2', rfl, List.IsPrefix.trans hp2' hmono, hne2⟩⟩
            · rw [hT1]
              simp only
              have hpre : f1' <+: f2 := List.IsPrefix.trans hp1' hp2
              rcases hrest with ⟨f, hout, _⟩ | ⟨hk, f, hout, _⟩
              · subst hout
                exact Or.inl ⟨f, rfl, f1', true, rfl, List.IsPrefix.trans hpre hmono, by simp, fun _ => hne1⟩
              · subst hout
                exact Or.inr ⟨hk, f, rfl, Or.inr ⟨f1', rfl, List.IsPrefix.trans hpre hmono, hne1⟩⟩
        · subst hx1
          simp at h
          subst h
          rw [hT1]
          exact Or.inr ⟨hk1, found, rfl, Or.inl rfl⟩
    · simp only [htt] at h ⊢
      exact ih found idxs out hK1' hK' h

/-- a `for` pass all of whose calls are of the second kind: nothing is collected, and the
`find_first=True` run is the same run -/
theorem forLoop_same (st : Step) (sought passed : List Str) (any : Nat) (post : List Item) :
    ∀ (found : List Hit) (idxs : List (Str × Nat)) (out : LoopOut),
    (∀ it ∈ post, ∀ p', NSync (recurse false it.2.2 (sought.drop 1) p' any false)
        (recurse true it.2.2 (sought.drop 1) p' any false)) →
    (any = 1 → ∀ it ∈ post, ∀ p', NSync (recurse false it.2.2 sought p' any false)
        (recurse true it.2.2 sought p' any false)) →
    forLoop st sought passed any (kidFns false post) found idxs false = .ok out →
    (out = .ret found false ∨ out = .brk found false any) ∧
      forLoop st sought passed any (kidFns true post) found idxs false = .ok out := by
  induction post with
  | nil =>
    intro found idxs out _ _ h
    simp [kidFns, forLoop] at h
    subst h
    exact ⟨Or.inl rfl, by simp [kidFns, forLoop]⟩
  | cons it post ih =>
    obtain ⟨t, a, v⟩ := it
    intro found idxs out hK1 hK h
    have hK1' : ∀ it ∈ post, ∀ p', NSync (recurse false it.2.2 (sought.drop 1) p' any false)
        (recurse true it.2.2 (sought.drop 1) p' any false) := fun it hit => hK1 it (by simp [hit])
    have hK' : any = 1 → ∀ it ∈ post, ∀ p', NSync (recurse false it.2.2 sought p' any false)
        (recurse true it.2.2 sought p' any false) := fun ha it hit => hK ha it (by simp [hit])
    simp only [kidFns, forLoop] at h ⊢
    by_cases htt : tagTest st t any = true
    · simp only [htt, if_true] at h ⊢
      cases hg1 : guarded (idxOk st.idx (cnt idxs t) && condHolds st.cond v)
          (fun _ => recurse false v (sought.drop 1) (passed ++ [stepName st t (cnt idxs t)]) any false)
          found false any with
      | error e => rw [hg1] at h; simp at h
      | ok x1 =>
        rw [hg1] at h
        rcases guarded_syncG false _
            (recurse false v (sought.drop 1) (passed ++ [stepName st t (cnt idxs t)]) any false)
            (recurse true v (sought.drop 1) (passed ++ [stepName st t (cnt idxs t)]) any false) found any
            (by simpa [CallSync] using hK1 (t, a, v) (by simp) _) x1 hg1 with
          ⟨f1, hx1, _, hf1, hT1⟩ | ⟨hx1, _, hT1⟩
        · subst hx1
          have := hf1 rfl
          subst this
          rcases hT1 with hT1 | ⟨_, _, _, _, hk⟩
          · rw [hT1]
            simp only at h ⊢
            by_cases ha : any = 1
            · cases hg2 : guarded (any == 1)
                  (fun _ => recurse false v sought (passed ++ [stepName st t (cnt idxs t)]) any false)
                  f1 false any with
              | error e => rw [hg2] at h; simp at h
              | ok x2 =>
                rw [hg2] at h
                rcases guarded_syncG false _
                    (recurse false v sought (passed ++ [stepName st t (cnt idxs t)]) any false)
                    (recurse true v sought (passed ++ [stepName st t (cnt idxs t)]) any false) f1 any
                    (by simpa [CallSync] using hK ha (t, a, v) (by simp) _) x2 hg2 with
                  ⟨f2, hx2, _, hf2, hT2⟩ | ⟨hx2, _, hT2⟩
                · subst hx2
                  have := hf2 rfl
                  subst this
                  rcases hT2 with hT2 | ⟨_, _, _, _, hk⟩
                  · rw [hT2]
                    simp only at h ⊢
                    exact ih f2 (incr idxs t) out hK1' hK' h
                  · cases hk
                · subst hx2
                  simp at h
                  subst h
                  rw [hT2]
                  exact ⟨Or.inr rfl, rfl⟩
            · have hd : (any == 1) = false := by simpa using ha
              rw [hd] at h ⊢
              simp only [guarded, Bool.false_eq_true, if_false] at h ⊢
              exact ih f1 (incr idxs t) out hK1' hK' h
          · cases hk
        · subst hx1
          simp at h
          subst h
          rw [hT1]
          exact ⟨Or.inr rfl, rfl⟩
    · simp only [htt] at h ⊢
      exact ih found idxs out hK1' hK' h

theorem anyAfter_two (st : Step) (sought : List Str) (h : anyAfter st sought = 2) :
    ∀ x ∈ sought.drop 1, x = star2 := by
  unfold anyAfter at h
  split at h
  · simp at h
  · split at h
    · simp at h
    · rename_i hno
      intro x hx
      simp only [List.any_eq_true, not_exists, not_and] at hno
      have := hno x hx
      simpa using this

/-- what is known about the children's closures in both runs -/
def KidsSync (v : XVal) (kidsF kidsT : List Kid) : Prop :=
  ∀ items, v = .nodes items →
    kidsF = kidFns false items ∧ kidsT = kidFns true items ∧ ∀ it ∈ items, FnSyncG it.2.2

/-- one pass of the `while` body on steps of the first kind -/
theorem iter_syncL (v : XVal) (kidsF kidsT : List Kid) (sought passed : List Str) (any : Nat)
    (found : List Hit) (hany : AnyOK any sought) (hk : KidsSync v kidsF kidsT)
    (hkind : kindL sought = true)
    (out : LoopOut) (h : iter v kidsF sought passed any found false = .ok out) :
    ∃ a', LoopSyncG (kindL (sought.drop 1)) a' out (iter v kidsT sought passed any found false) ∧
      (a' = 2 → kindL (sought.drop 1) = true) := by
  have hcur : (if any = 2 then star2 else sought.headD []) ≠ dotdot := by
    split
    · decide
    · cases sought with
      | nil => simp [dotdot]
      | cons a rest =>
        intro e
        simp at e
        subst e
        rw [kindL_up] at hkind
        cases hkind
  unfold iter at h ⊢
  simp only [hcur, if_false] at h ⊢
  cases hp : parseStep (if any = 2 then star2 else sought.headD []) with
  | none => rw [hp] at h; simp at h
  | some st =>
    rw [hp] at h
    simp only at h ⊢
    refine ⟨anyAfter st sought, ?_, fun h2 => kindL_stars _ (anyAfter_two st sought h2)⟩
    by_cases hne : isNonEmptyNodes v = true
    · simp only [hne, if_true] at h ⊢
      cases v with
      | text t => simp [isNonEmptyNodes] at hne
      | nodes items =>
        obtain ⟨hF, hT, hK⟩ := hk items rfl
        rw [hF] at h
        rw [hT]
        refine forLoop_syncL st sought passed _ _ items found [] out ?_ ?_ h
        · intro it hit p'
          exact hK it hit (sought.drop 1) p' _ (fun h2 => anyAfter_two st sought h2)
        · intro ha it hit p'
          have := hK it hit sought p' (anyAfter st sought) (by intro h2; omega)
          rw [hkind] at this
          simpa [CallSync] using this
    · simp only [hne] at h ⊢
      simp at h
      subst h
      exact Or.inl ⟨_, rfl, _, false, rfl, List.prefix_refl _, fun _ => rfl, by simp⟩

/-- one pass of the `while` body on steps of the second kind -/
theorem iter_same (v : XVal) (kidsF kidsT : List Kid) (sought passed : List Str) (any : Nat)
    (hany : AnyOK any sought) (hk : KidsSync v kidsF kidsT) (hkind : kindL sought = false)
    (out : LoopOut) (h : iter v kidsF sought passed any [] false = .ok out) :
    (out = .retNone false ∨ out = .ret [] false ∨
      ∃ a', a' ≠ 2 ∧ out = .brk [] false a' ∧ ∃ a rest, sought = a :: rest ∧ a ≠ dotdot ∧ kindL rest = false) ∧
    iter v kidsT sought passed any [] false = .ok out := by
  have hany2 : any ≠ 2 := by
    intro e
    rw [kindL_stars sought (hany e)] at hkind
    cases hkind
  cases sought with
  | nil => rw [kindL_nil] at hkind; cases hkind
  | cons a rest =>
    unfold iter at h ⊢
    simp only [hany2, if_false, List.headD_cons] at h ⊢
    by_cases ha : a = dotdot
    · simp only [ha, if_true] at h ⊢
      simp at h
      subst h
      exact ⟨Or.inl rfl, rfl⟩
    · simp only [ha, if_false] at h ⊢
      have hrest : kindL rest = false := by
        cases hr : kindL rest with
        | false => rfl
        | true => rw [kindL_of_rest a rest ha hr] at hkind; cases hkind
      cases hp : parseStep a with
      | none => rw [hp] at h; simp at h
      | some st =>
        rw [hp] at h
        simp only at h ⊢
        have hany' : anyAfter st (a :: rest) ≠ 2 := by
          intro e
          have := kindL_stars _ (anyAfter_two st (a :: rest) e)
          simp only [List.drop_succ_cons, List.drop_zero] at this
          rw [this] at hrest
          cases hrest
        by_cases hne : isNonEmptyNodes v = true
        · simp only [hne, if_true] at h ⊢
          cases v with
          | text t => simp [isNonEmptyNodes] at hne
          | nodes items =>
            obtain ⟨hF, hT, hK⟩ := hk items rfl
            rw [hF] at h
            rw [hT]
            have := forLoop_same st (a :: rest) passed _ items [] [] out ?_ ?_ h
            · refine ⟨?_, this.2⟩
              rcases this.1 with h1 | h1
              · exact Or.inr (Or.inl h1)
              · exact Or.inr (Or.inr ⟨_, hany', h1, a, rest, rfl, ha, hrest⟩)
            · intro it hit p'
              have := hK it hit ((a :: rest).drop 1) p' _ (fun h2 => anyAfter_two st (a :: rest) h2)
              simp only [List.drop_succ_cons, List.drop_zero] at this ⊢
              rw [hrest] at this
              simpa [CallSync] using this
            · intro ha1 it hit p'
              have := hK it hit (a :: rest) p' (anyAfter st (a :: rest)) (by intro h2; omega)
              rw [hkind] at this
              simpa [CallSync] using this
        · simp only [hne] at h ⊢
          simp [hany'] at h
          subst h
          simp [hany']

theorem iter_monoG (v : XVal) (kids : List Kid) (sought passed : List Str) (any : Nat)
    (found : List Hit) (ff : Bool) (out : LoopOut)
    (h : iter v kids sought passed any found ff = .ok out) : LoopExt found out := by
  unfold iter at h
  simp only at h
  generalize (if any = 2 then star2 else sought.headD []) = cur at h
  split at h
  · simp at h; subst h; trivial
  · split at h
    · simp at h
    · split at h
      · exact forLoop_monoG _ _ _ _ _ _ _ _ _ h
      · simp at h; subst h
        show found <+: _
        split
        · exact List.prefix_append _ _
        · exact List.prefix_refl _

/-- the two runs of the `while` loop from the same state, steps of the first kind: the
`find_first=False` run returns a list that extends what was collected so far, the `True` run a
prefix of it (all of it unless `first_found` got set, and then a non-empty one) -/
def WSync (found : List Hit) (rF rT : Res) : Prop :=
  ∀ o, rF = .ok o → ∃ hs, o = ⟨some hs, false⟩ ∧ found <+: hs ∧ ∃ hs' ff', rT = .ok ⟨some hs', ff'⟩ ∧
    hs' <+: hs ∧ (ff' = false → hs' = hs) ∧ (ff' = true → hs' ≠ [])

theorem loopEmpty_syncG (v : XVal) (kidsF kidsT : List Kid) (passed : List Str) (any : Nat)
    (found : List Hit) (hk : KidsSync v kidsF kidsT) :
    WSync found (loopEmpty false v kidsF passed any found false)
      (loopEmpty true v kidsT passed any found false) := by
  unfold loopEmpty
  split
  · intro o ho
    cases hi : iter v kidsF [] passed any found false with
    | error e => rw [hi] at ho; simp at ho
    | ok out =>
      have hmono := iter_monoG _ _ _ _ _ _ _ _ hi
      obtain ⟨a', hL, _⟩ := iter_syncL v kidsF kidsT [] passed any found
        (by intro _ x hx; cases hx) hk kindL_nil out hi
      rcases hL with ⟨f, hout, f', ff', hT, hpre, heq, hne⟩ | ⟨hk1, _⟩
      · subst hout
        rw [hi] at ho
        simp at ho
        subst ho
        exact ⟨f, rfl, hmono, f', ff', by rw [hT], hpre, heq, hne⟩
      · simp [kindL_nil] at hk1
  · intro o ho
    simp [finish] at ho
    subst ho
    exact ⟨found ++ [(passed, v)], rfl, List.prefix_append _ _, found ++ [(passed, v)], !passed.isEmpty,
      by simp [finish], List.prefix_refl _, fun _ => rfl, by simp⟩

theorem whileLoop_syncG (v : XVal) (kidsF kidsT : List Kid) (passed : List Str)
    (hk : KidsSync v kidsF kidsT) (n : Nat) :
    ∀ (sought : List Str) (any : Nat) (found : List Hit), sought.length ≤ n → AnyOK any sought →
    (kindL sought = true → WSync found (whileLoop false v kidsF passed sought any found false)
        (whileLoop true v kidsT passed sought any found false)) ∧
    (kindL sought = false → NSync (whileLoop false v kidsF passed sought any [] false)
        (whileLoop true v kidsT passed sought any [] false)) := by
  induction n with
  | zero =>
    intro sought any found hlen hany
    have : sought = [] := List.eq_nil_of_length_eq_zero (by omega)
    subst this
    refine ⟨fun _ => ?_, fun h => by rw [kindL_nil] at h; cases h⟩
    rw [whileLoop_nil, whileLoop_nil]
    exact loopEmpty_syncG v kidsF kidsT passed any found hk
  | succ n ih =>
    intro sought any found hlen hany
    cases sought with
    | nil =>
      refine ⟨fun _ => ?_, fun h => by rw [kindL_nil] at h; cases h⟩
      rw [whileLoop_nil, whileLoop_nil]
      exact loopEmpty_syncG v kidsF kidsT passed any found hk
    | cons a rest =>
      constructor
      · intro hkind o ho
        have ha : a ≠ dotdot := by
          intro e; subst e; rw [kindL_up] at hkind; cases hkind
        rw [whileLoop] at ho
        cases hi : iter v kidsF (a :: rest) passed any found false with
        | error e => rw [hi] at ho; simp at ho
        | ok out =>
          have hmono := iter_monoG _ _ _ _ _ _ _ _ hi
          obtain ⟨a', hL, ha'⟩ := iter_syncL v kidsF kidsT (a :: rest) passed any found hany hk hkind out hi
          simp only [List.drop_succ_cons, List.drop_zero] at hL ha'
          rw [hi] at ho
          rcases hL with ⟨f, hout, f', ff', hT, hpre, heq, hne⟩ | ⟨hk1, f, hout, hT⟩
          · subst hout
            simp at ho
            subst ho
            exact ⟨f, rfl, hmono, f', ff', by rw [whileLoop, hT], hpre, heq, hne⟩
          · subst hout
            have ha2 : a' ≠ 2 := by
              intro e; rw [ha' e] at hk1; cases hk1
            cases rest with
            | nil => rw [kindL_nil] at hk1; cases hk1
            | cons b rest' =>
              simp only at ho
              have hkr : kindL rest' = true := by
                rw [kindL_skip a (b :: rest') ha hk1] at hkind
                simpa using hkind
              have hIH := (ih rest' a' f (by simp at hlen; omega) (fun e => absurd e ha2)).1 hkr
              obtain ⟨hs, ho', hfh, hs', ff', hT', hpre, heq, hne⟩ := hIH o ho
              refine ⟨hs, ho', List.IsPrefix.trans hmono hfh, ?_⟩
              rcases hT with hT | ⟨f', hT, hp', hne'⟩
              · exact ⟨hs', ff', by rw [whileLoop, hT]; exact hT', hpre, heq, hne⟩
              · exact ⟨f', true, by rw [whileLoop, hT], List.IsPrefix.trans hp' hfh, by simp, fun _ => hne'⟩
      · intro hkind o ho
        rw [whileLoop] at ho
        cases hi : iter v kidsF (a :: rest) passed any [] false with
        | error e => rw [hi] at ho; simp at ho
        | ok out =>
          obtain ⟨hout, hT⟩ := iter_same v kidsF kidsT (a :: rest) passed any hany hk hkind out hi
          rw [hi] at ho
          rcases hout with hout | hout | ⟨a', ha2, hout, a0, rest0, hs0, ha0, hk0⟩
          · subst hout
            simp at ho
            subst ho
            exact ⟨Or.inl rfl, by rw [whileLoop, hT]⟩
          · subst hout
            simp at ho
            subst ho
            exact ⟨Or.inr rfl, by rw [whileLoop, hT]⟩
          · subst hout
            cases hs0
            cases rest with
            | nil => rw [kindL_nil] at hk0; cases hk0
            | cons b rest' =>
              simp only at ho
              have hkr : kindL rest' = false := by
                rw [kindL_skip a (b :: rest') ha0 hk0] at hkind
                simpa using hkind
              have hIH := (ih rest' a' [] (by simp at hlen; omega) (fun e => absurd e ha2)).2 hkr
              obtain ⟨ho', hT'⟩ := hIH o ho
              exact ⟨ho', by rw [whileLoop, hT]; exact hT'⟩

theorem WSync_nil (rF rT : Res) (h : WSync [] rF rT) : Sync rF rT := by
  intro o ho
  obtain ⟨hs, h1, _, h2⟩ := h o ho
  exact ⟨hs, h1, h2⟩

mutual
theorem recurse_syncG : ∀ (v : XVal), FnSyncG v
  | .text t => by
    intro sought passed any hany
    rw [recurse_text, recurse_text]
    have := whileLoop_syncG (.text t) [] [] passed (by intro items hi; cases hi) sought.length
      sought any [] (Nat.le_refl _) hany
    unfold CallSync
    cases hk : kindL sought with
    | true => simpa using WSync_nil _ _ (this.1 hk)
    | false => simpa using this.2 hk
  | .nodes items => by
    intro sought passed any hany
    rw [recurse_nodes, recurse_nodes]
    have := whileLoop_syncG (.nodes items) (kidFns false items) (kidFns true items) passed
      (by intro items' hi; cases hi; exact ⟨rfl, rfl, items_syncG items⟩) sought.length
      sought any [] (Nat.le_refl _) hany
    unfold CallSync
    cases hk : kindL sought with
    | true => simpa using WSync_nil _ _ (this.1 hk)
    | false => simpa using this.2 hk
theorem items_syncG : ∀ (items : List Item), ∀ it ∈ items, FnSyncG it.2.2
  | [], _, hit => by cases hit
  | (t, a, v) :: rest, it, hit => by
    rcases List.mem_cons.1 hit with h | h
    · subst h; exact recurse_syncG v
    · exact items_syncG rest it h
end

/-- **every** step list: `findfirst` is the first `findall` result, `in` is its non-emptiness, the
`find_first=True` result is a prefix of the full one; `findall` returns `None` only for step lists
of the second kind (`kindL = false`: a `'..'` that leaves the searched node) -/
theorem findfirst_all (root : XVal) (sought : List Str)
    (r : Option (List Hit)) (h : findallL false root sought = .ok r) :
    findfirstL root sought = .ok (firstOf r) ∧
    containsL root sought = .ok (firstOf r).isSome ∧
    (∃ r', findallL true root sought = .ok r' ∧
      ((∃ l l', r = some l ∧ r' = some l' ∧ l' <+: l) ∨ (r = none ∧ r' = none))) ∧
    (kindL sought = true → r ≠ none) ∧ (kindL sought = false → r = none ∨ r = some []) := by
  unfold findallL at h
  cases hr : recurse false root sought [] 0 false with
  | error e => rw [hr] at h; simp at h
  | ok o =>
    rw [hr] at h
    simp at h
    have hS := recurse_syncG root sought [] 0 (by intro e; cases e)
    unfold CallSync at hS
    cases hk : kindL sought with
    | true =>
      rw [hk] at hS
      simp only [if_true] at hS
      obtain ⟨hs0, ho, hs', ff', hT, hpre, heq, hne⟩ := hS o hr
      subst ho
      simp at h
      subst h
      have hfa : findallL true root sought = .ok (some hs') := by simp [findallL, hT]
      have hfirst : firstOf (some hs') = firstOf (some hs0) := by
        cases ff' with
        | false => rw [heq rfl]
        | true =>
          have hn := hne rfl
          obtain ⟨tl, htl⟩ := hpre
          cases hs' with
          | nil => exact absurd rfl hn
          | cons x xs => subst htl; simp [firstOf]
      refine ⟨?_, ?_, ⟨some hs', hfa, Or.inl ⟨hs0, hs', rfl, rfl, hpre⟩⟩, by simp, by simp⟩
      · simp [findfirstL, hfa, hfirst]
      · simp [containsL, hfa, hfirst]
    | false =>
      rw [hk] at hS
      simp only [Bool.false_eq_true, if_false] at hS
      obtain ⟨ho, hT⟩ := hS o hr
      have hfa : findallL true root sought = .ok r := by simp [findallL, hT, h]
      refine ⟨by simp [findfirstL, hfa], by simp [containsL, hfa], ⟨r, hfa, ?_⟩, by simp, ?_⟩
      · rcases ho with ho | ho
        · subst ho; simp at h; subst h; exact Or.inr ⟨rfl, rfl⟩
        · subst ho; simp at h; subst h; exact Or.inl ⟨[], [], rfl, rfl, List.prefix_refl _⟩
      · rcases ho with ho | ho
        · subst ho; simp at h; subst h; exact fun _ => Or.inl rfl
        · subst ho; simp at h; subst h; exact fun _ => Or.inr rfl

/-! ## Part 2: the string forms

### `'/'.join(steps)` split again by `xpath.replace("/[", "[").strip('/').split('/')` -/

/-- a step that survives `'/'.join` followed by the path split: no `/` inside, not empty, does not
begin with `[` (a leading `[` would be glued to the previous step by `replace("/[", "[")`) -/
def StepOK (s : Str) : Prop := (∀ c ∈ s, c ≠ '/') ∧ s ≠ [] ∧ s.head? ≠ some '['

theorem splitChar_noSep (c : Char) (a : Str) (h : ∀ x ∈ a, x ≠ c) : splitChar c a = [a] := by
  induction a with
  | nil => rfl
  | cons x a ih =>
    have hx : x ≠ c := h x (by simp)
    simp [splitChar, hx, ih (fun y hy => h y (by simp [hy]))]

theorem splitChar_append (c : Char) (a r : Str) (h : ∀ x ∈ a, x ≠ c) :
    splitChar c (a ++ c :: r) = a :: splitChar c r := by
  induction a with
  | nil => simp [splitChar]
  | cons x a ih =>
    have hx : x ≠ c := h x (by simp)
    simp [splitChar, hx, ih (fun y hy => h y (by simp [hy]))]

theorem splitChar_join (steps : List Str) (hne : steps ≠ []) (h : ∀ s ∈ steps, ∀ c ∈ s, c ≠ '/') :
    splitChar '/' (join ['/'] steps) = steps := by
  induction steps with
  | nil => exact absurd rfl hne
  | cons x rest ih =>
    cases rest with
    | nil => simpa [join] using splitChar_noSep '/' x (h x (by simp))
    | cons y ys =>
      have := ih (by simp) (fun s hs => h s (by simp [hs]))
      simp only [join, List.append_assoc, List.singleton_append]
      rw [splitChar_append '/' x _ (h x (by simp)), this]

theorem replSlashBr_cons (c : Char) (s : Str) (h : c ≠ '/') : replSlashBr (c :: s) = c :: replSlashBr s := by
  rw [replSlashBr]
  intro s' hc _
  exact absurd hc h

theorem replSlashBr_append (a r : Str) (h : ∀ x ∈ a, x ≠ '/') :
    replSlashBr (a ++ r) = a ++ replSlashBr r := by
  induction a with
  | nil => rfl
  | cons x a ih =>
    rw [List.cons_append, replSlashBr_cons x _ (h x (by simp)), ih (fun y hy => h y (by simp [hy]))]
    rfl

theorem replSlashBr_noSlash (a : Str) (h : ∀ x ∈ a, x ≠ '/') : replSlashBr a = a := by
  have := replSlashBr_append a [] h
  simpa [replSlashBr] using this

theorem replSlashBr_slash (y r : Str) (hy : y ≠ []) (hh : y.head? ≠ some '[') :
    replSlashBr ('/' :: (y ++ r)) = '/' :: replSlashBr (y ++ r) := by
  cases y with
  | nil => exact absurd rfl hy
  | cons c y =>
    have hc : c ≠ '[' := by simpa using hh
    rw [List.cons_append, replSlashBr]
    intro s' _ hs
    simp at hs
    exact absurd hs.1 hc

theorem replSlashBr_join (steps : List Str) (h : ∀ s ∈ steps, StepOK s) :
    replSlashBr (join ['/'] steps) = join ['/'] steps := by
  induction steps with
  | nil => simp [join, replSlashBr]
  | cons x rest ih =>
    cases rest with
    | nil => simpa [join] using replSlashBr_noSlash x (h x (by simp)).1
    | cons y ys =>
      have ihh := ih (fun s hs => h s (by simp [hs]))
      have hy := h y (by simp)
      simp only [join, List.append_assoc, List.singleton_append] at ihh ⊢
      rw [replSlashBr_append x _ (h x (by simp)).1]
      cases ys with
      | nil =>
        simp only [join] at ihh ⊢
        have := replSlashBr_slash y [] hy.2.1 hy.2.2
        simp only [List.append_nil] at this
        rw [this, ihh]
      | cons z zs =>
        simp only [join, List.append_assoc, List.singleton_append] at ihh ⊢
        rw [replSlashBr_slash y _ hy.2.1 hy.2.2, ihh]

theorem join_cons_ne_nil (sep x : Str) (rest : List Str) (hx : x ≠ []) : join sep (x :: rest) ≠ [] := by
  cases rest with
  | nil => simpa [join] using hx
  | cons y ys => simp [join, hx]

theorem join_head_ok (steps : List Str) (h : ∀ s ∈ steps, StepOK s) :
    ∀ c, (join ['/'] steps).head? = some c → c ≠ '/' := by
  intro c hc
  cases steps with
  | nil => simp [join] at hc
  | cons x rest =>
    obtain ⟨h1, h2, _⟩ := h x (by simp)
    cases x with
    | nil => exact absurd rfl h2
    | cons d x =>
      have : (join ['/'] ((d :: x) :: rest)).head? = some d := by
        cases rest <;> simp [join]
      rw [this] at hc
      cases hc
      exact h1 c (by simp)

theorem join_last_ok (steps : List Str) (h : ∀ s ∈ steps, StepOK s) :
    ∀ c, (join ['/'] steps).getLast? = some c → c ≠ '/' := by
  induction steps with
  | nil => intro c hc; simp [join] at hc
  | cons x rest ih =>
    intro c hc
    cases rest with
    | nil =>
      simp only [join] at hc
      exact (h x (by simp)).1 c (List.mem_of_getLast? hc)
    | cons y ys =>
      have ihh := ih (fun s hs => h s (by simp [hs]))
      have hne : join ['/'] (y :: ys) ≠ [] := join_cons_ne_nil _ _ _ (h y (by simp)).2.1
      simp only [join, List.append_assoc] at hc
      rw [List.getLast?_append, List.getLast?_append] at hc
      cases hl : (join ['/'] (y :: ys)).getLast? with
      | none => simp [List.getLast?_eq_none_iff] at hl; exact absurd hl hne
      | some d =>
        rw [hl] at hc
        simp at hc
        subst hc
        exact ihh d hl

theorem lstrip_keep (chars s : Str) (h : ∀ c, s.head? = some c → chars.contains c = false) :
    lstrip chars s = s := by
  unfold lstrip
  cases s with
  | nil => rfl
  | cons c s =>
    have := h c rfl
    rw [List.dropWhile_cons_of_neg (by rw [this]; simp)]

/-- the path split undoes `'/'.join` on steps without `/` that are not empty and do not begin with `[` -/
theorem splitPath_join (steps : List Str) (hne : steps ≠ []) (h : ∀ s ∈ steps, StepOK s) :
    splitPath (join ['/'] steps) = steps := by
  unfold splitPath
  rw [replSlashBr_join steps h]
  unfold strip
  rw [lstrip_keep ['/'] _ (by
    intro c hc
    have := join_head_ok steps h c hc
    simp [this])]
  rw [rstrip_keep ['/'] _ (by
    intro c hc
    have := join_last_ok steps h c hc
    simp [this])]
  exact splitChar_join steps hne (fun s hs => (h s hs).1)

theorem join_isEmpty (steps : List Str) (hne : steps ≠ []) (h : ∀ s ∈ steps, StepOK s) :
    (join ['/'] steps).isEmpty = false := by
  cases steps with
  | nil => exact absurd rfl hne
  | cons x rest =>
    have := join_cons_ne_nil ['/'] x rest (h x (by simp)).2.1
    cases hj : join ['/'] (x :: rest) with
    | nil => exact absurd hj this
    | cons _ _ => rfl

/-- string form of `get` on a joined path = list form on the steps -/
theorem getS_join (root : XVal) (steps : List Str) (h : ∀ s ∈ steps, StepOK s) :
    getS root (join ['/'] steps) = getL root steps := by
  cases steps with
  | nil => simp [getS, join, getL]
  | cons x rest =>
    unfold getS
    rw [join_isEmpty _ (by simp) h, splitPath_join _ (by simp) h]
    simp

/-! ### positional paths `t1[k1]/…/tn[kn]` as strings -/

/-- a tag that can be written into a path string: addressable (`goodTag`) and not empty -/
def goodTagS (t : Str) : Bool := goodTag t && !t.isEmpty

def renderIdxPath (p : List (Str × Nat)) : Str := join ['/'] (p.map renderStep)

theorem dec_noSlash (k : Nat) : ∀ c ∈ dec k, c ≠ '/' := by
  intro c hc e
  obtain ⟨n, hn⟩ := (dec_isDigits k).2 c hc
  have := (digitChar_spec n).1
  rw [← hn, e] at this
  revert this
  decide

theorem goodTag_noSlash (t : Str) (h : goodTag t = true) : ∀ c ∈ t, c ≠ '/' := by
  intro c hc heq
  subst heq
  simp [goodTag] at h
  exact h.1 hc

theorem stepOK_indexed (t : Str) (k : Nat) (h : goodTagS t = true) :
    StepOK (t ++ ('[' :: (dec k ++ [']']))) := by
  simp only [goodTagS, Bool.and_eq_true, Bool.not_eq_true', List.isEmpty_eq_false_iff] at h
  obtain ⟨hg, hne⟩ := h
  refine ⟨?_, by simp, ?_⟩
  · intro c hc
    simp only [List.mem_append, List.mem_cons, List.not_mem_nil, or_false] at hc
    rcases hc with hc | hc | hc | hc
    · exact goodTag_noSlash t hg c hc
    · subst hc; decide
    · exact dec_noSlash k c hc
    · subst hc; decide
  · cases t with
    | nil => exact absurd rfl hne
    | cons c t =>
      have := goodTag_noBr (c :: t) hg c (by simp)
      simpa using this

theorem stepOK_plain (t : Str) (h : goodTagS t = true) : StepOK t := by
  simp only [goodTagS, Bool.and_eq_true, Bool.not_eq_true', List.isEmpty_eq_false_iff] at h
  obtain ⟨hg, hne⟩ := h
  refine ⟨goodTag_noSlash t hg, hne, ?_⟩
  cases t with
  | nil => exact absurd rfl hne
  | cons c t =>
    have := goodTag_noBr (c :: t) hg c (by simp)
    simpa using this

theorem getS_renderIdxPath (root : XVal) (p : List (Str × Nat)) (hp : ∀ q ∈ p, goodTagS q.1 = true) :
    getS root (renderIdxPath p) = getL root (p.map renderStep) := by
  unfold renderIdxPath
  apply getS_join
  intro s hs
  obtain ⟨q, hq, rfl⟩ := List.mem_map.1 hs
  exact stepOK_indexed q.1 q.2 (hp q hq)

/-! ### every step list `_get` resolves in a document with good tags can be written as a string -/

mutual
/-- every tag below is addressable by `_get` and not empty -/
def goodVS : XVal → Bool
  | .text _ => true
  | .nodes items => goodItemsS items
def goodItemsS : List Item → Bool
  | [] => true
  | (t, _, v) :: rest => goodTagS t && goodVS v && goodItemsS rest
end

mutual
theorem goodVS_goodV : ∀ (v : XVal), goodVS v = true → goodV v = true
  | .text _, _ => by simp [goodV]
  | .nodes items, h => by
    simp only [goodVS] at h
    simpa [goodV] using goodItemsS_goodItems items h
theorem goodItemsS_goodItems : ∀ (items : List Item), goodItemsS items = true → goodItems items = true
  | [], _ => by simp [goodItems]
  | (t, a, v) :: rest, h => by
    simp only [goodItemsS, Bool.and_eq_true] at h
    have h1 : goodTag t = true := by
      have := h.1.1
      simp only [goodTagS, Bool.and_eq_true] at this
      exact this.1
    simp [goodItems, h1, goodVS_goodV v h.1.2, goodItemsS_goodItems rest h.2]
end

theorem scanItems_some (items : List Item) (name : Str) (idx : Int) (w : XVal)
    (hg : goodItemsS items = true) (h : scanItems items name idx = some w) :
    goodTagS name = true ∧ goodVS w = true := by
  induction items generalizing idx with
  | nil => simp [scanItems] at h
  | cons it rest ih =>
    obtain ⟨t, a, v⟩ := it
    simp only [goodItemsS, Bool.and_eq_true] at hg
    simp only [scanItems] at h
    split at h
    · rename_i ht
      split at h
      · simp at h; subst h; subst ht; exact ⟨hg.1.1, hg.1.2⟩
      · exact ih _ hg.2 h
    · exact ih _ hg.2 h

theorem mem_dropWhile_of_not {α} (p : α → Bool) (l : List α) (c : α) (hc : c ∈ l) (hp : p c = false) :
    c ∈ l.dropWhile p := by
  induction l with
  | nil => cases hc
  | cons x l ih =>
    by_cases hx : p x = true
    · rw [List.dropWhile_cons_of_pos hx]
      rcases List.mem_cons.1 hc with e | e
      · subst e; rw [hp] at hx; cases hx
      · exact ih e
    · rw [List.dropWhile_cons_of_neg hx]; exact hc

theorem mem_stripWs (s : Str) (c : Char) (hc : c ∈ s) (hp : isPySpace c = false) : c ∈ stripWs s := by
  unfold stripWs
  rw [List.mem_reverse]
  apply mem_dropWhile_of_not _ _ _ _ hp
  rw [List.mem_reverse]
  exact mem_dropWhile_of_not _ _ _ hc hp

theorem digitsUS_chars (r : Str) : ∀ (prev : Bool) (acc n : Nat), digitsUS prev acc r = some n →
    ∀ c ∈ r, isAsciiDigit c = true ∨ c = '_' := by
  induction r with
  | nil => intro _ _ _ _ c hc; cases hc
  | cons x r ih =>
    intro prev acc n h c hc
    rw [digitsUS] at h
    · split at h
      · rename_i hd
        rcases List.mem_cons.1 hc with e | e
        · subst e; exact Or.inl hd
        · exact ih _ _ _ h c e
      · split at h
        · rename_i hu
          rcases List.mem_cons.1 hc with e | e
          · subst e; exact Or.inr hu.1
          · exact ih _ _ _ h c e
        · cases h

/-- `int(text)` accepts no text with a `/` in it -/
theorem pyInt_ok_noSlash (s : Str) (i : Int) (h : pyInt s = .ok i) : ∀ c ∈ s, c ≠ '/' := by
  intro c hc e
  subst e
  have hin : '/' ∈ stripWs s := mem_stripWs s '/' hc (by decide)
  unfold pyInt at h
  split at h
  · cases h
  · have hno : ∀ r n, digitsUS false 0 r = some n → '/' ∈ r → False := by
      intro r n hr hm
      rcases digitsUS_chars r _ _ _ hr '/' hm with h1 | h1
      · revert h1; decide
      · revert h1; decide
    simp only at h
    split at h
    · rename_i r heq
      rw [heq] at hin
      have hm : '/' ∈ r := by simpa using hin
      cases hd : digitsUS false 0 r with
      | none => rw [hd] at h; cases h
      | some n => exact hno r n hd hm
    · rename_i r heq
      rw [heq] at hin
      have hm : '/' ∈ r := by simpa using hin
      cases hd : digitsUS false 0 r with
      | none => rw [hd] at h; cases h
      | some n => exact hno r n hd hm
    · cases hd : digitsUS false 0 (stripWs s) with
      | none => rw [hd] at h; cases h
      | some n => exact hno _ n hd hin

theorem nxml_mem_takeWhile {α} (p : α → Bool) (l : List α) (c : α) (h : c ∈ l.takeWhile p) : p c = true := by
  induction l with
  | nil => cases h
  | cons x l ih =>
    by_cases hx : p x = true
    · rw [List.takeWhile_cons_of_pos hx] at h
      rcases List.mem_cons.1 h with e | e
      · subst e; exact hx
      · exact ih e
    · rw [List.takeWhile_cons_of_neg hx] at h; cases h

theorem nxml_dropWhile_head {α} (p : α → Bool) (l : List α) (x : α) (d : List α)
    (h : l.dropWhile p = x :: d) : p x = false := by
  induction l with
  | nil => cases h
  | cons y l ih =>
    by_cases hy : p y = true
    · rw [List.dropWhile_cons_of_pos hy] at h; exact ih h
    · rw [List.dropWhile_cons_of_neg hy] at h
      cases h
      simpa using hy

theorem rstrip_decomp (chars s : Str) :
    ∃ tail, s = rstrip chars s ++ tail ∧ ∀ c ∈ tail, chars.contains c = true := by
  refine ⟨(s.reverse.takeWhile (fun c => chars.contains c)).reverse, ?_, ?_⟩
  · unfold rstrip
    rw [← List.reverse_append, List.takeWhile_append_dropWhile, List.reverse_reverse]
  · intro c hc
    rw [List.mem_reverse] at hc
    exact nxml_mem_takeWhile _ _ _ hc

/-- a step `_get` reads as `(name, idx)` with a good `name` survives the join/split round trip -/
theorem getStep_ok_shape (step name : Str) (idx : Int) (h : getStep step = .ok (name, idx))
    (hn : goodTagS name = true) : StepOK step := by
  unfold getStep at h
  split at h
  · simp only at h
    obtain ⟨tail, hdec, htail⟩ := rstrip_decomp [']'] step
    generalize rstrip [']'] step = t at h hdec
    cases hp : pyInt ((t.dropWhile (fun c => c ≠ '[')).drop 1) with
    | error e => rw [hp] at h; cases h
    | ok i =>
      rw [hp] at h
      simp only [Except.ok.injEq, Prod.mk.injEq] at h
      obtain ⟨hname, _⟩ := h
      have hsplit : t = name ++ t.dropWhile (fun c => c ≠ '[') := by
        rw [← hname, List.takeWhile_append_dropWhile]
      have hok := stepOK_plain name hn
      have hd : ∀ c ∈ t.dropWhile (fun c => c ≠ '['), c ≠ '/' := by
        intro c hc
        cases hdw : t.dropWhile (fun c => c ≠ '[') with
        | nil => rw [hdw] at hc; cases hc
        | cons x d' =>
          rw [hdw] at hc hp
          have hx : x = '[' := by
            have := nxml_dropWhile_head _ _ _ _ hdw
            simpa using this
          rcases List.mem_cons.1 hc with e | e
          · rw [e, hx]; decide
          · exact pyInt_ok_noSlash _ _ hp c (by simpa using e)
      rw [hdec, hsplit]
      refine ⟨?_, ?_, ?_⟩
      · intro c hc
        simp only [List.mem_append] at hc
        rcases hc with (hc | hc) | hc
        · exact hok.1 c hc
        · exact hd c hc
        · have := htail c hc
          intro e; subst e; simp at this
      · have := hok.2.1
        simp [this]
      · cases hnm : name with
        | nil => exact absurd hnm hok.2.1
        | cons c nm =>
          have := hok.2.2
          rw [hnm] at this
          simpa using this
  · simp only [Except.ok.injEq, Prod.mk.injEq] at h
    rw [h.1]
    exact stepOK_plain name hn

/-- every path `_get` resolves to a value in a document with good tags consists of steps that
survive `'/'.join` + the path split -/
theorem getL_ok_steps (root : XVal) (path : List Str) (v : XVal) (hg : goodVS root = true)
    (h : getL root path = .ok (some v)) : ∀ s ∈ path, StepOK s := by
  induction path generalizing root with
  | nil => intro s hs; cases hs
  | cons step rest ih =>
    rw [getL] at h
    cases hs : getStep step with
    | error e => rw [hs] at h; simp at h
    | ok ni =>
      obtain ⟨name, idx⟩ := ni
      rw [hs] at h
      simp only at h
      cases root with
      | text t => simp at h
      | nodes items =>
        simp only at h
        cases hsc : scanItems items name idx with
        | none => rw [hsc] at h; simp at h
        | some w =>
          rw [hsc] at h
          simp only at h
          have hgi : goodItemsS items = true := by simpa [goodVS] using hg
          obtain ⟨hn, hw⟩ := scanItems_some items name idx w hgi hsc
          intro s hs'
          rcases List.mem_cons.1 hs' with e | e
          · subst e; exact getStep_ok_shape _ name idx hs hn
          · exact ih w hw h s e

/-- **string form of "resolves through get"**: a `(path, value)` pair that resolves through the
list form of `get` also resolves through `get('/'.join(path))` -/
theorem getS_of_getL (root : XVal) (path : List Str) (v : XVal) (hg : goodVS root = true)
    (h : getL root path = .ok (some v)) : getS root (join ['/'] path) = .ok (some v) := by
  rw [getS_join root path (getL_ok_steps root path v hg h)]
  exact h

/-! ### the grammar of the property's expressions: render and parse

A token is `..` (`none`) or a step `tag [idx] [text() op v]` (the `Step` the regex groups give).
`renderTok` writes it the way the test-suite does (`a`, `*[1]`, `**[*]`, `b[text()=x]`,
`c[2][text()!=none]`); `parseTok` is the reading `recurse` applies to one path part (`'..'` test,
then the step parser that stands for the regex). -/

abbrev Tok := Option Step

def opEq : Str := ['=']
def opNe : Str := ['!', '=']

/-- a tag the grammar can write: `*`, `**`, or a name — a word character (letter, digit, `_`)
followed by word characters, `.` and `-` (`\w[\w.\-]*`; fix C18-e: the whole name is the tag) -/
def WfTag (t : Str) : Prop :=
  t = star ∨ t = star2 ∨
    (t ≠ [] ∧ (∀ c, t.head? = some c → isWord c = true) ∧ ∀ c ∈ t, isNameChar c = true)

/-- a condition the grammar can write: operator `=` or `!=`; the value is not empty, has no quote
and no `/` (the path split would cut it), and does not begin with `=` after the operator `=`
(`[text()==x]` reads as operator `==`) -/
def WfCond : Option (Str × Str) → Prop
  | none => True
  | some (op, v) => (op = opEq ∨ op = opNe) ∧ v ≠ [] ∧ (∀ c ∈ v, isQuote c = false ∧ c ≠ '/') ∧
      (op = opEq → v.head? ≠ some '=')

def WfStep (st : Step) : Prop := WfTag st.tag ∧ WfCond st.cond

def WfTok : Tok → Prop
  | none => True
  | some st => WfStep st

def renderIdx : Option (Option Nat) → Str
  | none => []
  | some none => ['[', '*', ']']
  | some (some k) => '[' :: (dec k ++ [']'])

def renderCond : Option (Str × Str) → Str
  | none => []
  | some (op, v) => ['[', 't', 'e', 'x', 't', '(', ')'] ++ op ++ v ++ [']']

def renderStepE (st : Step) : Str := st.tag ++ (renderIdx st.idx ++ renderCond st.cond)

def renderTok : Tok → Str
  | none => dotdot
  | some st => renderStepE st

def renderExpr (e : List Tok) : Str := join ['/'] (e.map renderTok)

/-- how `recurse` reads one path part -/
def parseTok (s : Str) : Option Tok := if s = dotdot then some none else (parseStep s).map some

/-- how `findall` reads an expression string: normalisation, path split, every part read by `parseTok` -/
def parseExpr (xp : Str) : Option (List Tok) := (xpSteps xp).mapM parseTok

theorem natOfDigits_dec (k : Nat) : natOfDigits (dec k) = k := dec_value k

theorem dec_digits (k : Nat) : ∀ c ∈ dec k, isAsciiDigit c = true := by
  intro c hc
  obtain ⟨n, hn⟩ := (dec_isDigits k).2 c hc
  rw [hn]; exact (digitChar_spec n).1

theorem takeWhile_all {α} (p : α → Bool) (a : List α) (h : ∀ c ∈ a, p c = true) :
    a.takeWhile p = a ∧ a.dropWhile p = [] := by
  induction a with
  | nil => simp
  | cons c a ih =>
    have hc := h c (by simp)
    have := ih (fun y hy => h y (by simp [hy]))
    simp [hc, this.1, this.2]

theorem dropQuote_noq (s : Str) (h : ∀ c, s.head? = some c → isQuote c = false) : dropQuote s = s := by
  cases s with
  | nil => rfl
  | cons c r => simp [dropQuote, h c rfl]

theorem condTail_value (v : Str) (hne : v ≠ []) (hq : ∀ c ∈ v, isQuote c = false) :
    condTail (v ++ [']']) = some v := by
  have h1 : dropQuote (v ++ [']']) = v ++ [']'] := by
    apply dropQuote_noq
    intro c hc
    cases v with
    | nil => exact absurd rfl hne
    | cons d v => simp at hc; subst hc; exact hq _ (by simp)
  have h2 : dropQuote v.reverse = v.reverse := by
    apply dropQuote_noq
    intro c hc
    exact hq c (by simpa using List.mem_of_mem_head? hc)
  have h3 : v.reverse.isEmpty = false := by
    cases v with
    | nil => exact absurd rfl hne
    | cons d v => simp
  have h4 : v.reverse.any isQuote = false := by
    rw [List.any_eq_false]
    intro c hc
    simp [hq c (by simpa using hc)]
  unfold condTail
  rw [h1]
  simp only [List.reverse_append, List.reverse_cons, List.reverse_nil, List.nil_append,
    List.singleton_append, h2, h3, h4, Bool.or_self, Bool.false_eq_true, if_false, List.reverse_reverse]

theorem parseCond_render (c : Option (Str × Str)) (h : WfCond c) : parseCond (renderCond c) = c := by
  cases c with
  | none => simp [renderCond, parseCond]
  | some ov =>
    obtain ⟨op, v⟩ := ov
    obtain ⟨hop, hne, hv, hhead⟩ := h
    have hct := condTail_value v hne (fun c hc => (hv c hc).1)
    rcases hop with hop | hop
    · subst hop
      cases v with
      | nil => exact absurd rfl hne
      | cons c v =>
        have hc : c ≠ '=' := by simpa using hhead rfl
        simp only [List.cons_append] at hct
        simp [renderCond, opEq, parseCond, hc, hct]
    · subst hop
      simp [renderCond, opNe, parseCond, hct]

/-- what may follow the tag / the index inside a step: nothing, or a `[` -/
def RestOK (rest : Str) : Prop := rest = [] ∨ ∃ r, rest = '[' :: r

theorem renderCond_rest (c : Option (Str × Str)) : RestOK (renderCond c) := by
  cases c with
  | none => exact Or.inl rfl
  | some ov => exact Or.inr ⟨_, rfl⟩

theorem renderIdxCond_rest (i : Option (Option Nat)) (c : Option (Str × Str)) :
    RestOK (renderIdx i ++ renderCond c) := by
  cases i with
  | none => simpa [renderIdx] using renderCond_rest c
  | some j => cases j <;> exact Or.inr ⟨_, rfl⟩

theorem parseIdx_render (i : Option (Option Nat)) (c : Option (Str × Str)) :
    parseIdx (renderIdx i ++ renderCond c) = (i, renderCond c) := by
  cases i with
  | none =>
    cases c with
    | none => simp [renderIdx, renderCond, parseIdx]
    | some ov => simp [renderIdx, renderCond, parseIdx, isAsciiDigit]
  | some j =>
    cases j with
    | none => simp [renderIdx, parseIdx]
    | some k =>
      have hsplit := takeWhile_append_stop isAsciiDigit (dec k) ']' (renderCond c) (dec_digits k) (by decide)
      have hne := (dec_isDigits k).1
      cases hd : dec k with
      | nil => exact absurd hd hne
      | cons d ds =>
        have hdd : isAsciiDigit d = true := dec_digits k d (by rw [hd]; simp)
        have hstar : d ≠ '*' := by intro e; subst e; revert hdd; decide
        rw [hd] at hsplit
        simp only [List.cons_append] at hsplit
        simp only [renderIdx, hd, List.cons_append, List.append_assoc]
        rw [parseIdx]
        · simp only [List.nil_append, hsplit.1, hsplit.2]
          rw [← hd, natOfDigits_dec]
        · intro r he
          simp at he
          exact absurd he.1 hstar

theorem parseTag_render (tag rest : Str) (h : WfTag tag) (hr : RestOK rest) :
    parseTag (tag ++ rest) = some (tag, rest) := by
  have hnw : isNameChar '[' = false := by decide
  have hns : isWord '*' = false := by decide
  rcases h with h | h | ⟨hne, hh, hw⟩
  · subst h
    rcases hr with hr | ⟨r, hr⟩ <;> subst hr <;> simp [star, parseTag, hns]
  · subst h
    rcases hr with hr | ⟨r, hr⟩ <;> subst hr <;> simp [star2, parseTag, hns]
  · cases tag with
    | nil => exact absurd rfl hne
    | cons c t =>
      have hc : isWord c = true := hh c rfl
      have hwt : ∀ x ∈ t, isNameChar x = true := fun x hx => hw x (by simp [hx])
      have hsplit : (t ++ rest).takeWhile isNameChar = t ∧ (t ++ rest).dropWhile isNameChar = rest := by
        rcases hr with hr | ⟨r, hr⟩
        · subst hr
          simpa using takeWhile_all isNameChar t hwt
        · subst hr
          exact takeWhile_append_stop isNameChar t '[' r hwt hnw
      simp only [List.cons_append, parseTag, hc, if_true, hsplit.1, hsplit.2]

/-- the step parser inverts rendering on the grammar -/
theorem parseStep_render (st : Step) (h : WfStep st) : parseStep (renderStepE st) = some st := by
  obtain ⟨ht, hc⟩ := h
  unfold parseStep renderStepE
  rw [parseTag_render st.tag _ ht (renderIdxCond_rest st.idx st.cond)]
  simp only [parseIdx_render]
  obtain ⟨tag, idx, cond⟩ := st
  cases cond with
  | none => simp [renderCond]
  | some ov =>
    have hp := parseCond_render (some ov) hc
    obtain ⟨op, v⟩ := ov
    simp only [renderCond, List.cons_append] at hp ⊢
    simp only [hp]

/-! #### the step is read whole (fix C18-e): what the parser accepts it has consumed -/

theorem parseTag_split (s tag r : Str) (h : parseTag s = some (tag, r)) : s = tag ++ r := by
  unfold parseTag at h
  cases s with
  | nil => cases h
  | cons c t =>
    simp only at h
    by_cases hc : isWord c = true
    · simp only [hc, if_true, Option.some.injEq, Prod.mk.injEq] at h
      rw [← h.1, ← h.2, List.cons_append, List.takeWhile_append_dropWhile]
    · have hc' : isWord c = false := by simpa using hc
      simp only [hc', Bool.false_eq_true, if_false] at h
      split at h
      · next r' e =>
        simp only [Option.some.injEq, Prod.mk.injEq] at h
        rw [e, ← h.1, ← h.2]; rfl
      · next r' _ e =>
        simp only [Option.some.injEq, Prod.mk.injEq] at h
        rw [e, ← h.1, ← h.2]; rfl
      · cases h

theorem parseIdx_rest (r : Str) (i : Option (Option Nat)) (r1 : Str) (h : parseIdx r = (i, r1)) :
    (i = none ∧ r1 = r) ∨ (i ≠ none ∧ r.head? = some '[') := by
  unfold parseIdx at h
  split at h
  · cases h; exact Or.inr ⟨by simp, rfl⟩
  · split at h
    · cases h; exact Or.inr ⟨by simp, rfl⟩
    · cases h; exact Or.inl ⟨rfl, rfl⟩
  · cases h; exact Or.inl ⟨rfl, rfl⟩

theorem parseCond_head (r : Str) (c : Str × Str) (h : parseCond r = some c) : r.head? = some '[' := by
  unfold parseCond at h
  split at h
  · rfl
  · cases h

/-- a step the parser accepts is its tag followed by what the index / condition groups read:
nothing between the tag and the first `[`, and a step read without index and condition is its tag -/
theorem parseStep_whole (step : Str) (st : Step) (h : parseStep step = some st) :
    ∃ mid, step = st.tag ++ mid ∧ (mid = [] ∨ mid.head? = some '[') ∧
      (st.idx = none → st.cond = none → mid = []) := by
  unfold parseStep at h
  cases ht : parseTag step with
  | none => rw [ht] at h; cases h
  | some tr =>
    obtain ⟨tag, r⟩ := tr
    rw [ht] at h
    simp only at h
    have hs := parseTag_split step tag r ht
    cases hi : parseIdx r with
    | mk i r1 =>
      rw [hi] at h
      have hr := parseIdx_rest r i r1 hi
      cases r1 with
      | nil =>
        simp only [Option.some.injEq] at h
        subst h
        refine ⟨r, hs, ?_, ?_⟩
        · rcases hr with ⟨_, e⟩ | ⟨_, e⟩
          · exact Or.inl e.symm
          · exact Or.inr e
        · intro hi0 _
          rcases hr with ⟨_, e⟩ | ⟨e, _⟩
          · exact e.symm
          · exact absurd hi0 e
      | cons c r1 =>
        simp only at h
        cases hc : parseCond (c :: r1) with
        | none => rw [hc] at h; cases h
        | some cd =>
          rw [hc] at h
          simp only [Option.some.injEq] at h
          subst h
          refine ⟨r, hs, Or.inr ?_, ?_⟩
          · rcases hr with ⟨_, e⟩ | ⟨_, e⟩
            · rw [← e]; exact parseCond_head _ _ hc
            · exact e
          · intro _ hc0; cases hc0

theorem renderStepE_ne_dotdot (st : Step) (h : WfStep st) : renderStepE st ≠ dotdot := by
  intro e
  have h1 := parseStep_render st h
  have hd : parseStep dotdot = none := by decide
  rw [e, hd] at h1
  cases h1

theorem parseTok_render (t : Tok) (h : WfTok t) : parseTok (renderTok t) = some t := by
  cases t with
  | none => simp [renderTok, parseTok]
  | some st =>
    simp only [renderTok, parseTok, renderStepE_ne_dotdot st h, if_false, parseStep_render st h]
    rfl

theorem isWord_noSlashBr (c : Char) (h : isNameChar c = true) : c ≠ '/' ∧ c ≠ '[' := by
  constructor <;> (intro e; subst e; revert h; decide)

theorem stepOK_renderTok (t : Tok) (h : WfTok t) : StepOK (renderTok t) := by
  cases t with
  | none => exact ⟨by decide, by decide, by decide⟩
  | some st =>
    obtain ⟨ht, hc⟩ := h
    have htag : (∀ c ∈ st.tag, c ≠ '/') ∧ st.tag ≠ [] ∧ st.tag.head? ≠ some '[' := by
      rcases ht with ht | ht | ⟨hne, _, hw⟩
      · rw [ht]; exact ⟨by decide, by decide, by decide⟩
      · rw [ht]; exact ⟨by decide, by decide, by decide⟩
      · refine ⟨fun c hc => (isWord_noSlashBr c (hw c hc)).1, hne, ?_⟩
        cases htg : st.tag with
        | nil => exact absurd htg hne
        | cons c t =>
          have := (isWord_noSlashBr c (hw c (by rw [htg]; simp))).2
          simpa using this
    have hidx : ∀ c ∈ renderIdx st.idx, c ≠ '/' := by
      cases st.idx with
      | none => intro c hc; cases hc
      | some j =>
        cases j with
        | none => decide
        | some k =>
          intro c hc
          simp only [renderIdx, List.mem_cons, List.mem_append, List.not_mem_nil, or_false] at hc
          rcases hc with hc | hc | hc
          · subst hc; decide
          · exact dec_noSlash k c hc
          · subst hc; decide
    have hcond : ∀ c ∈ renderCond st.cond, c ≠ '/' := by
      cases hcd : st.cond with
      | none => intro c hc; cases hc
      | some ov =>
        obtain ⟨op, v⟩ := ov
        rw [hcd] at hc
        obtain ⟨hop, _, hv, _⟩ := hc
        intro c hcm
        simp only [renderCond, List.mem_append, List.mem_cons, List.not_mem_nil, or_false] at hcm
        rcases hcm with ((hcm | hcm) | hcm) | hcm
        · rcases hcm with e | e | e | e | e | e | e <;> (subst e; decide)
        · rcases hop with e | e <;> subst e
          · simp [opEq] at hcm; subst hcm; decide
          · simp [opNe] at hcm; rcases hcm with e | e <;> (subst e; decide)
        · exact (hv c hcm).2
        · subst hcm; decide
    refine ⟨?_, ?_, ?_⟩
    · intro c hcm
      simp only [renderTok, renderStepE, List.mem_append] at hcm
      rcases hcm with hcm | hcm | hcm
      · exact htag.1 c hcm
      · exact hidx c hcm
      · exact hcond c hcm
    · simp [renderTok, renderStepE, htag.2.1]
    · cases htg : st.tag with
      | nil => exact absurd htg htag.2.1
      | cons c t =>
        have := htag.2.2
        rw [htg] at this
        simpa [renderTok, renderStepE, htg] using this

theorem splitAux_noSep (sep : Str) (n : Nat) : ∀ (s : Str) (f : Nat) (cur : Str), s.length < f →
    isInfix sep s = false → splitAux sep n f cur s = [cur.reverse ++ s] := by
  intro s
  induction s with
  | nil =>
    intro f cur hf _
    cases f with
    | zero => omega
    | succ f => simp [splitAux]
  | cons c s ih =>
    intro f cur hf hin
    cases f with
    | zero => omega
    | succ f =>
      simp only [isInfix, Bool.or_eq_false_iff] at hin
      rw [splitAux]
      simp only [hin.1, Bool.false_eq_true, if_false]
      rw [ih f (c :: cur) (by simp at hf; omega) hin.2]
      simp

theorem replace_noop (old new s : Str) (h : isInfix old s = false) : replace old new s = s := by
  unfold replace split
  rw [splitAux_noSep old _ s _ [] (Nat.lt_succ_self _) h]
  simp [join]

/-- without a `**/**` in it the normalisation loop leaves the expression alone -/
theorem normStars_noop (n : Nat) (s : Str) (h : isInfix starsPat s = false) : normStars n s = s := by
  cases n with
  | zero => rfl
  | succ n => simp [normStars, replace_noop starsPat star2 s h]

/-- **the expression split inverts rendering** (grammar tokens, no `**/**` in the text) -/
theorem xpSteps_render (e : List Tok) (hne : e ≠ []) (hwf : ∀ t ∈ e, WfTok t)
    (hN : isInfix starsPat (renderExpr e) = false) : xpSteps (renderExpr e) = e.map renderTok := by
  unfold xpSteps
  rw [normStars_noop _ _ hN]
  unfold renderExpr
  apply splitPath_join
  · simpa using hne
  · intro s hs
    obtain ⟨t, ht, rfl⟩ := List.mem_map.1 hs
    exact stepOK_renderTok t (hwf t ht)

theorem mapM_parseTok (e : List Tok) (hwf : ∀ t ∈ e, WfTok t) :
    (e.map renderTok).mapM parseTok = some e := by
  induction e with
  | nil => rfl
  | cons t e ih =>
    have h1 := parseTok_render t (hwf t (by simp))
    have h2 := ih (fun x hx => hwf x (by simp [hx]))
    simp [List.mapM_cons, h1, h2]

/-- **parse ∘ render = id** on the grammar of the property -/
theorem parseExpr_renderExpr (e : List Tok) (hne : e ≠ []) (hwf : ∀ t ∈ e, WfTok t)
    (hN : isInfix starsPat (renderExpr e) = false) : parseExpr (renderExpr e) = some e := by
  unfold parseExpr
  rw [xpSteps_render e hne hwf hN]
  exact mapM_parseTok e hwf

/-! ### when the rendered text contains no `**/**`: no plain `**` token directly before a `**…` token -/

theorem startsWith_mem (s p : Str) (h : startsWith s p = true) : ∀ c ∈ p, c ∈ s := by
  induction p generalizing s with
  | nil => intro c hc; cases hc
  | cons x p ih =>
    cases s with
    | nil => simp [startsWith] at h
    | cons y s =>
      simp only [startsWith, Bool.and_eq_true, beq_iff_eq] at h
      intro c hc
      rcases List.mem_cons.1 hc with e | e
      · subst e; rw [h.1]; simp
      · exact List.mem_cons_of_mem _ (ih s h.2 c e)

theorem isInfix_noSlash (a : Str) (ha : ∀ c ∈ a, c ≠ '/') : isInfix starsPat a = false := by
  induction a with
  | nil => rfl
  | cons c a ih =>
    simp only [isInfix, Bool.or_eq_false_iff]
    refine ⟨?_, ih (fun x hx => ha x (by simp [hx]))⟩
    cases hs : startsWith (c :: a) starsPat with
    | false => rfl
    | true =>
      have := startsWith_mem _ _ hs '/' (by decide)
      exact absurd rfl (ha '/' this)

theorem isInfix_append_slash (a R : Str) (ha : ∀ c ∈ a, c ≠ '/') (hR : isInfix starsPat R = false)
    (hpair : startsWith R star2 = true → ∀ pre, a ≠ pre ++ star2) :
    isInfix starsPat (a ++ '/' :: R) = false := by
  induction a with
  | nil =>
    simp only [List.nil_append, isInfix, Bool.or_eq_false_iff]
    exact ⟨by simp [startsWith, starsPat], hR⟩
  | cons c a ih =>
    have ih' := ih (fun x hx => ha x (by simp [hx]))
      (fun hs pre e => hpair hs (c :: pre) (by rw [e]; rfl))
    simp only [List.cons_append, isInfix, Bool.or_eq_false_iff]
    refine ⟨?_, ih'⟩
    cases hs : startsWith (c :: (a ++ '/' :: R)) starsPat with
    | false => rfl
    | true =>
      exfalso
      cases a with
      | nil => simp [startsWith, starsPat] at hs
      | cons d a =>
        cases a with
        | nil =>
          simp [startsWith, starsPat] at hs
          obtain ⟨hc, hd, hR1⟩ := hs
          subst hc; subst hd
          have hsw : startsWith R star2 = true := by
            cases R with
            | nil => simp [startsWith] at hR1
            | cons r1 R =>
              cases R with
              | nil => simp [startsWith] at hR1
              | cons r2 R => simp [startsWith] at hR1; simp [startsWith, star2, hR1.1, hR1.2]
          exact hpair hsw [] rfl
        | cons f a =>
          simp [startsWith, starsPat] at hs
          exact ha f (by simp) hs.2.2.1

/-- no plain `**` token directly followed by a token whose tag is `**` -/
def NoDD : List Tok → Prop
  | x :: y :: rest => ¬ (x = some stDeep ∧ ∃ st, y = some st ∧ st.tag = star2) ∧ NoDD (y :: rest)
  | _ => True

theorem renderTok_ends_stars (x : Tok) (h : WfTok x) (pre : Str) (e : renderTok x = pre ++ star2) :
    x = some stDeep := by
  have hlast : (renderTok x).getLast? = some '*' := by rw [e]; simp [star2]
  have hlen : 2 ≤ (renderTok x).length := by rw [e]; simp [star2]
  cases x with
  | none => simp [renderTok, dotdot] at hlast
  | some st =>
    obtain ⟨tag, idx, cond⟩ := st
    obtain ⟨ht, hc⟩ := h
    simp only [renderTok, renderStepE] at hlast hlen
    have hbr : ∀ X : Str, (X ++ [']']).getLast? = some '*' → False := by
      intro X hX
      rw [List.getLast?_concat] at hX
      simp at hX
    cases cond with
    | some ov =>
      obtain ⟨op, v⟩ := ov
      exfalso
      apply hbr (tag ++ renderIdx idx ++ (['[', 't', 'e', 'x', 't', '(', ')'] ++ op ++ v))
      rw [← hlast]
      simp [renderCond]
    | none =>
      cases idx with
      | some j =>
        exfalso
        cases j with
        | none =>
          apply hbr (tag ++ ['[', '*'])
          rw [← hlast]
          simp [renderIdx, renderCond]
        | some k =>
          apply hbr (tag ++ '[' :: dec k)
          rw [← hlast]
          simp [renderIdx, renderCond]
      | none =>
        simp only [renderIdx, renderCond, List.append_nil] at hlast hlen
        rcases ht with ht | ht | ⟨_, _, hw⟩
        · simp only at ht; subst ht; simp [star] at hlen
        · simp only at ht; subst ht; rfl
        · have := hw '*' (List.mem_of_getLast? hlast)
          have hns : isNameChar '*' = false := by decide
          rw [hns] at this
          cases this

theorem renderTok_starts_stars (y : Tok) (h : WfTok y) (rest : Str)
    (hr : rest = [] ∨ ∃ r, rest = '/' :: r) (hs : startsWith (renderTok y ++ rest) star2 = true) :
    ∃ st, y = some st ∧ st.tag = star2 := by
  cases y with
  | none => simp [renderTok, dotdot, startsWith, star2] at hs
  | some st =>
    obtain ⟨tag, idx, cond⟩ := st
    obtain ⟨ht, _⟩ := h
    rcases ht with ht | ht | ⟨hne, _, hw⟩
    · simp only at ht; subst ht
      exfalso
      rcases renderIdxCond_rest idx cond with h0 | ⟨r, h0⟩
      · simp only [renderTok, renderStepE, h0] at hs
        rcases hr with hr | ⟨r, hr⟩ <;> subst hr <;> simp [star, startsWith, star2] at hs
      · simp only [renderTok, renderStepE, h0] at hs
        simp [star, startsWith, star2] at hs
    · exact ⟨_, rfl, ht⟩
    · exfalso
      simp only at hne hw
      cases tag with
      | nil => exact absurd rfl hne
      | cons c t =>
        simp [renderTok, renderStepE, startsWith, star2] at hs
        have := hw c (by simp)
        have hns : isNameChar '*' = false := by decide
        rw [hs.1, hns] at this
        cases this

theorem join_render_cons (y : Tok) (ys : List Tok) :
    ∃ rest, join ['/'] ((y :: ys).map renderTok) = renderTok y ++ rest ∧ (rest = [] ∨ ∃ r, rest = '/' :: r) := by
  cases ys with
  | nil => exact ⟨[], by simp [join], Or.inl rfl⟩
  | cons z zs => exact ⟨'/' :: join ['/'] ((z :: zs).map renderTok), by simp [join], Or.inr ⟨_, rfl⟩⟩

/-- **the `**/**` hypothesis, structurally**: a rendered grammar expression contains `**/**` only
if a plain `**` token is directly followed by a `**…` token -/
theorem renderExpr_noStars (e : List Tok) (hwf : ∀ t ∈ e, WfTok t) (hdd : NoDD e) :
    isInfix starsPat (renderExpr e) = false := by
  unfold renderExpr
  induction e with
  | nil => rfl
  | cons x rest ih =>
    cases rest with
    | nil =>
      simp only [List.map_cons, List.map_nil, join]
      exact isInfix_noSlash _ (stepOK_renderTok x (hwf x (by simp))).1
    | cons y ys =>
      obtain ⟨hxy, hdd'⟩ := hdd
      have ihh := ih (fun t ht => hwf t (by simp [ht])) hdd'
      obtain ⟨r, hj, hr⟩ := join_render_cons y ys
      simp only [List.map_cons, join, List.append_assoc, List.singleton_append] at ihh ⊢
      simp only [List.map_cons] at hj
      apply isInfix_append_slash _ _ (stepOK_renderTok x (hwf x (by simp))).1 ihh
      intro hs pre epre
      rw [hj] at hs
      exact hxy ⟨renderTok_ends_stars x (hwf x (by simp)) pre epre,
        renderTok_starts_stars y (hwf y (by simp)) r hr hs⟩

/-! ## Part 3: `get_attrib` -/

def attribOf : Elem → Attr
  | .mk _ _ a _ => a

theorem parseElem_attrib (e : Elem) : (parseElem e).2.1 = attribOf e := by
  cases e with
  | mk tag text attrib kids => cases kids <;> rfl

theorem scanItemsA_parseKids (t : Str) (kids : List Elem) (k : Nat) :
    scanItemsA (parseKids kids) t (k : Int) = (kthTag t k kids).map (fun e => (attribOf e, valueOf e)) := by
  induction kids generalizing k with
  | nil => simp [parseKids, scanItemsA, kthTag]
  | cons e rest ih =>
    rw [parseKids_cons, parseElem_attrib]
    simp only [scanItemsA, kthTag]
    by_cases ht : e.tag = t
    · simp only [ht, if_true]
      cases k with
      | zero => simp
      | succ k' =>
        have : ((k' + 1 : Nat) : Int) ≠ 0 := by omega
        simp only [this, if_false]
        have e2 : ((k' + 1 : Nat) : Int) - 1 = (k' : Int) := by omega
        rw [e2, ih]
    · simp only [ht, if_false]
      exact ih k

/-- below the element `e`, `get_attrib` with explicit indexes walks the positions of the element
tree and returns the attributes of the element it arrives at (with or without children) -/
theorem getAttrL_valueOf (e : Elem) (s : Str × Nat) (p : List (Str × Nat))
    (hp : ∀ q ∈ s :: p, goodTag q.1 = true) :
    getAttrL (valueOf e) ((s :: p).map renderStep) = .ok ((elemAt e (s :: p)).map attribOf) := by
  induction p generalizing e s with
  | nil =>
    obtain ⟨t, k⟩ := s
    have hg := hp (t, k) (by simp)
    simp only [List.map_cons, List.map_nil, getAttrL, renderStep, getStep_indexed t hg k, elemAt]
    rw [valueOf_kids]
    cases hk : e.kids with
    | nil => simp [kthTag]
    | cons c cs =>
      simp only [scanItemsA_parseKids]
      cases kthTag t k (c :: cs) <;> simp
  | cons s2 p ih =>
    obtain ⟨t, k⟩ := s
    have hg := hp (t, k) (by simp)
    rw [List.map_cons, List.map_cons, getAttrL]
    simp only [renderStep, getStep_indexed t hg k]
    rw [elemAt, valueOf_kids]
    cases hk : e.kids with
    | nil => simp [kthTag]
    | cons c cs =>
      simp only [scanItemsA_parseKids]
      cases hkt : kthTag t k (c :: cs) with
      | none => simp
      | some w =>
        simp only [Option.map_some]
        have := ih w s2 (fun q hq => hp q (by simp [hq]))
        simpa [renderStep] using this

theorem getAttrL_parseNode (e : Elem) (st : Str × Nat) (p : List (Str × Nat))
    (hp : ∀ q ∈ st :: p, goodTag q.1 = true) :
    getAttrL (parseNode e) ((st :: p).map renderStep) = .ok ((elemAt e (st :: p)).map attribOf) := by
  have h := getAttrL_valueOf e st p hp
  cases e with
  | mk tag text attrib kids =>
    cases kids with
    | nil =>
      obtain ⟨t, k⟩ := st
      have hg := hp (t, k) (by simp)
      simp [parseNode, parseKids, getAttrL, renderStep, getStep_indexed t hg k, scanItemsA, elemAt,
        Elem.kids, kthTag]
    | cons c cs =>
      have : parseNode (.mk tag text attrib (c :: cs)) = valueOf (.mk tag text attrib (c :: cs)) := by
        simp [parseNode, valueOf, parseElem]
      rw [this]; exact h

theorem getAttrS_renderIdxPath (root : XVal) (p : List (Str × Nat)) (hne : p ≠ [])
    (hp : ∀ q ∈ p, goodTagS q.1 = true) :
    getAttrS root (renderIdxPath p) = getAttrL root (p.map renderStep) := by
  have hok : ∀ s ∈ p.map renderStep, StepOK s := by
    intro s hs
    obtain ⟨q, hq, rfl⟩ := List.mem_map.1 hs
    exact stepOK_indexed q.1 q.2 (hp q hq)
  unfold getAttrS renderIdxPath
  rw [join_isEmpty _ (by simpa using hne) hok, splitPath_join _ (by simpa using hne) hok]
  simp

theorem goodTagS_goodTag (t : Str) (h : goodTagS t = true) : goodTag t = true := by
  simp only [goodTagS, Bool.and_eq_true] at h
  exact h.1

end N0.NXml
