import N0Verif.Proofs.XPathAudit
import N0Verif.Proofs.XPathListRoot
/-!
  Selecting paths on an **n0list-rooted tree whose record list sits deeper** (worker `c06deep`): the canonical position `P` of the
  record list starts with an index (`[2]/a/b`, `[0][1]`, …).

  `n0list._find` walks the leading index tokens itself (`findL`, also through nested lists) and hands the first dict element to
  `n0dict._find` with `self` = the root list (`sp = []`, fix C06-f).  `xld_walk` is the analogue of `find_walk` for a walk that
  STARTS in `findL`: it ends either in the dict-side search (`findD`, some `entry`) or - when every token of `P` was an index
  below a list - still in `findL`, at the record list, with the text of the walk appended to `found`.  After the walk the
  tree-level lemmas of `Proofs/XPathSelect*.lean` (generic in the root) and the `findL` lemmas of `Proofs/XPathAudit.lean`
  (generic in the position) apply.
-/
namespace N0.XPath
open N0 N0.Py N0.Val

/-! ### the walk that starts in `n0list._find` -/

/-- **Walk from a list node.**  Tokens that spell `p` below the LIST at `q`, followed by further tokens: `n0list._find` arrives at
`q ++ p` with the remaining tokens, the same root and `found` extended by the text of the walk - in the dict-side search, or (only
when the node reached is a list) still in the list-side search. -/
theorem xld_walk (root : Val) (rl : Bool) {toks : List Str} {v : Val} {p : Pos} {c : Val} {w : Str}
    (h : SpellsF toks v p c w) (rest : List Str) (hrest : rest ≠ []) :
    toks ≠ [] → (∃ cls xs, v = .list cls xs) → (isList c = true ∨ isDict c = true) →
    ∀ (fuel : Nat) (q : Pos) (found : Str), getAt root q = some v → fuel ≥ 2 * toks.length →
      ∃ fuel', fuel ≤ fuel' + 2 * toks.length ∧ fuel' ≤ fuel ∧
        ((∃ e', findL fuel root [] (toks ++ rest) (.at q) rl found
            = findD fuel' root [] false e' rest (.at (q ++ p)) rl (found ++ w)) ∨
         (isList c = true ∧ findL fuel root [] (toks ++ rest) (.at q) rl found
            = findL fuel' root [] rest (.at (q ++ p)) rl (found ++ w))) := by
  induction h with
  | nil v => intro h; exact absurd rfl h
  | key _ _ _ _ => intro _ hl; obtain ⟨_, _, h⟩ := hl; cases h
  | keyIdx _ _ _ _ _ _ => intro _ hl; obtain ⟨_, _, h⟩ := hl; cases h
  | @idx tok e i rest0 cls xs n c0 p d w hk hn hx hs ih =>
    intro _ _ hc fuel q found hq hf
    obtain ⟨f, rfl⟩ : ∃ f, fuel = f + 1 := ⟨fuel - 1, by simp at hf; omega⟩
    have hne : rest0 ++ rest ≠ [] := by simp [hrest]
    have hq' : getAt root (q ++ [.idx n]) = some c0 := by
      rw [getAt_snoc, hq]; simp [child, hx]
    cases c0 with
    | dict dc kvs =>
      rw [List.cons_append, findL_idx_step_dict f root [] rl q found tok e i (rest0 ++ rest) hne cls xs n dc kvs hq hk hn hx]
      obtain ⟨f', e', h1, h2, heq⟩ := find_walk root rl hs rest hrest f (q ++ [.idx n]) (found ++ bracket (intStr i)) true hq'
        (by simp at hf ⊢; omega)
      refine ⟨f', by simp at h1 ⊢; omega, by omega, Or.inl ⟨e', ?_⟩⟩
      rw [heq]; simp [List.append_assoc]
    | list lc ys =>
      rw [List.cons_append, findL_idx_step_list f root [] rl q found tok e i (rest0 ++ rest) hne cls xs n lc ys hq hk hn hx]
      by_cases hr0 : rest0 = []
      · subst hr0
        cases hs
        refine ⟨f, by simp, by omega, Or.inr ⟨rfl, ?_⟩⟩
        simp
      · obtain ⟨f', h1, h2, hres⟩ := ih hr0 ⟨lc, ys, rfl⟩ hc f (q ++ [.idx n]) (found ++ bracket (intStr i)) hq'
          (by simp at hf ⊢; omega)
        refine ⟨f', by simp at h1 ⊢; omega, by omega, ?_⟩
        rcases hres with ⟨e', heq⟩ | ⟨hl, heq⟩
        · exact Or.inl ⟨e', by rw [heq]; simp [List.append_assoc]⟩
        · exact Or.inr ⟨hl, by rw [heq]; simp [List.append_assoc]⟩
    | _ =>
      cases hs
      rcases hc with hc | hc <;> simp [isList, isDict] at hc

/-- a name / condition token applied to the list at `p`: the list-side search hands over to the dict-side search -/
theorem xld_L_of_D (root : Val) (rl : Bool) (p : Pos) (pv : Val) (found tok nm : Str) (idx : Idx) (rest : List Str) (vals : List Val)
    (F : Nat) (hpv : getAt root p = some pv) (ht : splitNameIndex tok = .ok (nm, idx))
    (hni : nm ≠ [] ∨ ∃ k op v, nm = [] ∧ idx = .cond k op v)
    (hD : ∀ fu ≥ F, ∀ e, Sel2Coll root rl (findD fu root [] false e (tok :: rest) (.at p) rl found) vals) :
    ∀ fu ≥ F + 1, Sel2Coll root rl (findL fu root [] (tok :: rest) (.at p) rl found) vals := by
  intro fu hfu
  obtain ⟨g, rfl⟩ : ∃ g, fu = g + 1 := ⟨fu - 1, by omega⟩
  rcases hni with hne | ⟨k, op, v, rfl, rfl⟩
  · rw [xa_findL_name g root [] rl (.at p) pv found tok nm idx rest hpv ht hne]
    exact hD g (by omega) true
  · rw [xa_findL_cond g root [] rl (.at p) pv found tok k op v rest hpv ht]
    exact hD g (by omega) true

/-- **After the walk, record list reached.**  If the continuation `tail` selects `vals` at the record list - in the dict-side
search for every `entry`, and in the list-side search - then the whole token list selects `vals` from the list root. -/
theorem xld_tail (root : Val) (rl : Bool) {toksP : List Str} {p : Pos} {lc : Cls} {rs : List Val}
    (hs : Sel3Spells toksP root p (.list lc rs)) (hne : toksP ≠ []) (hroot : ∃ cls xs, root = .list cls xs)
    (tail : List Str) (htail : tail ≠ []) (vals : List Val) (F : Nat)
    (hD : ∀ gs, Sel3Norm gs root p (.list lc rs) → ∀ fu ≥ F, ∀ e,
      Sel2Coll root rl (findD fu root [] false e tail (.at p) rl ('/' :: sel2Render gs)) vals)
    (hL : ∀ gs, Sel3Norm gs root p (.list lc rs) → ∀ fu ≥ F,
      Sel2Coll root rl (findL fu root [] tail (.at p) rl ('/' :: sel2Render gs)) vals)
    (fuel : Nat) (hfuel : fuel ≥ F + 2 * toksP.length) :
    Sel2Coll root rl (findL fuel root [] (toksP ++ tail) (.at []) rl slash) vals := by
  obtain ⟨gs, hsf, hn⟩ := sel3_spells_norm hs
  obtain ⟨fuel', h1, h2, hres⟩ := xld_walk root rl hsf tail htail hne hroot (Or.inl rfl) fuel [] slash rfl (by omega)
  rcases hres with ⟨e', heq⟩ | ⟨_, heq⟩
  · rw [heq]; simp only [List.nil_append]
    exact hD gs hn fuel' (by omega) e'
  · rw [heq]; simp only [List.nil_append]
    exact hL gs hn fuel' (by omega)

/-- **After the walk, a dict reached** (the parent of the record list, for the merged tokens `name[…]`): the walk always ends in
the dict-side search. -/
theorem xld_tail_dict (root : Val) (rl : Bool) {toks' : List Str} {q : Pos} {cls : Cls} {kvs : List (Str × Val)}
    (hs : Sel3Spells toks' root q (.dict cls kvs)) (hne : toks' ≠ []) (hroot : ∃ cls xs, root = .list cls xs)
    (tail : List Str) (htail : tail ≠ []) (vals : List Val) (F : Nat)
    (hD : ∀ gs, Sel3Norm gs root q (.dict cls kvs) → ∀ fu ≥ F, ∀ e,
      Sel2Coll root rl (findD fu root [] false e tail (.at q) rl ('/' :: sel2Render gs)) vals)
    (fuel : Nat) (hfuel : fuel ≥ F + 2 * toks'.length) :
    Sel2Coll root rl (findL fuel root [] (toks' ++ tail) (.at []) rl slash) vals := by
  obtain ⟨gs, hsf, hn⟩ := sel3_spells_norm hs
  obtain ⟨fuel', h1, h2, hres⟩ := xld_walk root rl hsf tail htail hne hroot (Or.inr rfl) fuel [] slash rfl (by omega)
  rcases hres with ⟨e', heq⟩ | ⟨hl, _⟩
  · rw [heq]; simp only [List.nil_append]
    exact hD gs hn fuel' (by omega) e'
  · simp [isList] at hl

/-! ### the selecting forms below a list root, token level -/

/-- **Fan-out below a list root, token level.**  `t` is an n0list; `toksP` (plain keys, index steps in any spelling) spell the
position of a list of dict records below it.  `toksP ++ ["[*]", f]`, `toksP ++ [f]` and - when the last token of `toksP` is a key
`name` - the merged `… "name[*]", f` select `[r[f] for r in rs if f in r]`, for both values of `return_lists`. -/
theorem xld_star_spelled (t : Val) (rl : Bool) {toksP : List Str} {p : Pos} {lc : Cls} {rs : List Val} (f : Str)
    (hroot : ∃ cls xs, t = .list cls xs)
    (hs : Sel3Spells toksP t p (.list lc rs)) (hne : toksP ≠ []) (hrs : ∀ r ∈ rs, isDict r = true) (hf : PlainKey f)
    (fuel : Nat) (hfuel : fuel ≥ 2 * toksP.length + rs.length + 6) :
    (∀ tail ∈ [[bracket ['*'], f], [f]],
      Sel2Coll t rl (findL fuel t [] (toksP ++ tail) (.at []) rl slash) (somes (rs.map (fieldOf f)))) ∧
    (∀ toks' name, toksP = toks' ++ [name] → PlainKey name → toks' ≠ [] →
      Sel2Coll t rl (findL fuel t [] (toks' ++ [name ++ bracket ['*'], f]) (.at []) rl slash) (somes (rs.map (fieldOf f)))) := by
  have hq : getAt t p = some (.list lc rs) := hs.spells.getAt
  have hDstar : ∀ (found : Str), ∀ fu ≥ rs.length + 4, ∀ e,
      Sel2Coll t rl (findD fu t [] false e [bracket ['*'], f] (.at p) rl found) (somes (rs.map (fieldOf f))) :=
    fun found fu hfu e => star_records t rl p found _ f lc rs hq hrs hf.keyTok split_star fu e hfu
  have hDname : ∀ (found : Str), ∀ fu ≥ rs.length + 5, ∀ e,
      Sel2Coll t rl (findD fu t [] false e [f] (.at p) rl found) (somes (rs.map (fieldOf f))) := by
    intro found fu hfu e
    obtain ⟨g, rfl⟩ : ∃ g, fu = g + 1 := ⟨fu - 1, by omega⟩
    rw [find_name_on_list g t e rl p found f f .none [] lc rs hq hf.keyTok.split hf.ne hf.notUp]
    exact hDstar found g (by omega) false
  refine ⟨?_, ?_⟩
  · intro tail htail
    simp only [List.mem_cons, List.not_mem_nil, or_false] at htail
    rcases htail with rfl | rfl
    · refine xld_tail t rl hs hne hroot _ (by simp) _ (rs.length + 4) (fun gs _ fu hfu e => hDstar _ fu hfu e) ?_ fuel (by omega)
      intro gs _ fu hfu
      refine xa_findL_star t p rl _ _ [f] lc rs (fieldOf f) 1 hq hrs split_star ?_ fu (by omega)
      intro j rec hj fu' hfu'
      have hd := hrs rec (List.mem_of_getElem? hj)
      cases rec with
      | dict c kvs' =>
        obtain ⟨g, rfl⟩ : ∃ g, fu' = g + 1 := ⟨fu' - 1, by omega⟩
        have hq' : getAt t (p ++ [.idx j]) = some (.dict c kvs') := sel2_getAt_snoc_idx hq hj
        cases hl : lookup f kvs' with
        | none =>
          rw [find_key_missing g _ true rl _ _ f [] c kvs' hq' hf.keyTok hl]
          simpa [fieldOf, hl] using sel2Out_notFound t _ _ _ _ _ (by simp)
        | some v =>
          rw [find_key_last g _ true rl _ _ f c kvs' v hq' hf.keyTok hl]
          exact ⟨_, rfl, by simp [Res.isFound, fieldOf, hl], by intro v' hv'; simp [fieldOf, hl] at hv'; subst hv'; rfl⟩
      | _ => simp [isDict] at hd
    · refine xld_tail t rl hs hne hroot _ (by simp) _ (rs.length + 6) (fun gs _ fu hfu e => hDname _ fu (by omega) e) ?_ fuel (by omega)
      intro gs _ fu hfu
      exact xld_L_of_D t rl p _ _ f f .none [] _ (rs.length + 5) hq hf.keyTok.split (Or.inl hf.ne)
        (fun fu hfu e => hDname _ fu hfu e) fu (by omega)
  · intro toks' name htoks hname hne'
    subst htoks
    obtain ⟨p', cls, kvs, rfl, hs', hl⟩ := sel3_spells_snoc_key_inv name hname toks' _ _ _ hs
    refine xld_tail_dict t rl hs' hne' hroot _ (by simp) _ (rs.length + 5) ?_ fuel (by simp at hfuel ⊢; omega)
    intro gs hn fu hfu e
    obtain ⟨g, rfl⟩ : ∃ g, fu = g + 1 := ⟨fu - 1, by omega⟩
    rw [find_keybr_step g t e rl p' _ _ name ['*'] [f] cls kvs _ hn.getAt
      (split_bracket name ['*'] (Or.inr hname) star_idxExpr) hname.ne hname.notUp hname.keyTok.notStar hl]
    exact star_records t rl _ _ _ f lc rs hq hrs hf.keyTok split_star g false (by omega)

/-- **Predicates below a list root, token level.**  As `xld_star_spelled` for `toksP ++ ["[k op v]", f]`,
`toksP ++ ["k[text() op v]", "..", f]` and the merged `… "name[k op v]", f`: `f` of exactly the records whose `k` passes.  The
`'..'` of the (rewritten) condition re-resolves the `found` text - the canonical path of `P[j]/k`, starting with the index of
the root list - from `self` = the root list. -/
theorem xld_pred_spelled (t : Val) (rl : Bool) {toksP : List Str} {p : Pos} {lc : Cls} {rs : List Val} (k f opx op vq v : Str)
    (hroot : ∃ cls xs, t = .list cls xs)
    (hs : Sel3Spells toksP t p (.list lc rs)) (hne : toksP ≠ []) (hk : FieldKey k) (hf : PlainKey f) (hop : OpSpell opx op)
    (hlit : LitSpell vq v) (hv : PlainLit v) (hrs : ∀ r ∈ rs, isDict r = true)
    (hg : ∀ c kvs' kv, Val.dict c kvs' ∈ rs → lookup k kvs' = some kv → textGuard kv (.str v) = false)
    (fuel : Nat) (hfuel : fuel ≥ 6 * toksP.length + rs.length + 14) :
    (∀ tail ∈ [[bracket (k ++ opx ++ vq), f], [k ++ bracket (sTextFn ++ opx ++ vq), ['.', '.'], f]],
      Sel2Coll t rl (findL fuel t [] (toksP ++ tail) (.at []) rl slash) (somes (rs.map (condOutcome k f op (.str v))))) ∧
    (∀ toks' name, toksP = toks' ++ [name] → PlainKey name → toks' ≠ [] →
      Sel2Coll t rl (findL fuel t [] (toks' ++ [name ++ bracket (k ++ opx ++ vq), f]) (.at []) rl slash)
        (somes (rs.map (condOutcome k f op (.str v))))) := by
  have hq : getAt t p = some (.list lc rs) := hs.spells.getAt
  have hpl := hs.pos_length
  have hopc := opSpell_canon hop
  have hs1 : splitNameIndex (bracket (k ++ opx ++ vq)) = .ok ([], .cond k op (.str v)) := by
    simpa using split_cond [] k opx op vq v (Or.inl rfl) hk.cond hop hlit hv
  have hs1t := split_cond k sTextFn opx op vq v (Or.inr hk.plain) condKey_text hop hlit hv
  have hcont : ∀ (gs : List GSeg) (j : Nat) (c : Cls) (kvs' : List (Str × Val)), rs[j]? = some (.dict c kvs') → ∀ fu ≥ 1, Sel2Out t
      (findD fu t [] false false [f] (.at (p ++ [.idx j])) rl ('/' :: sel2Render (gs ++ [.br (natStr j)])))
      (fieldOf f (.dict c kvs')) :=
    fun gs j c kvs' hj fu hfu => sel2_field_cont t rl _ c kvs' f _ (sel2_getAt_snoc_idx hq hj) hf.keyTok fu hfu
  rw [← sel2Sel_fieldOf]
  have hDc : ∀ gs, Sel3Norm gs t p (.list lc rs) → ∀ fu ≥ 2 * p.length + rs.length + 10, ∀ e,
      Sel2Coll t rl (findD fu t [] false e [bracket (k ++ opx ++ vq), f] (.at p) rl ('/' :: sel2Render gs))
        (sel2Sel k op (.str v) (fieldOf f) rs) :=
    fun gs hn fu hfu e => sel3_cond_list t rl e gs p k op _ (.str v) lc rs [f] (fieldOf f) 1 hn hk.plain hk.notText hrs hs1
      (sel2_tok_text_bare op v hopc hv) hopc hg (by simp) (hcont gs) fu (by omega)
  have hDt : ∀ gs, Sel3Norm gs t p (.list lc rs) → ∀ fu ≥ 2 * p.length + rs.length + 10, ∀ e,
      Sel2Coll t rl (findD fu t [] false e [k ++ bracket (sTextFn ++ opx ++ vq), ['.', '.'], f] (.at p) rl ('/' :: sel2Render gs))
        (sel2Sel k op (.str v) (fieldOf f) rs) :=
    fun gs hn fu hfu e => sel3_textform_list t rl e gs p k op _ (.str v) lc rs [f] (fieldOf f) 1 hn hk.plain hrs hs1t
      (sel2_tok_text_quoted op v hopc hv) hopc hg (by simp) (hcont gs) fu (by omega)
  refine ⟨?_, ?_⟩
  · intro tail htail
    simp only [List.mem_cons, List.not_mem_nil, or_false] at htail
    rcases htail with rfl | rfl
    · refine xld_tail t rl hs hne hroot _ (by simp) _ (2 * p.length + rs.length + 11)
        (fun gs hn fu hfu e => hDc gs hn fu (by omega) e) ?_ fuel (by omega)
      intro gs hn fu hfu
      exact xld_L_of_D t rl p _ _ _ [] _ [f] _ _ hq hs1 (Or.inr ⟨k, op, .str v, rfl, rfl⟩) (hDc gs hn) fu hfu
    · refine xld_tail t rl hs hne hroot _ (by simp) _ (2 * p.length + rs.length + 11)
        (fun gs hn fu hfu e => hDt gs hn fu (by omega) e) ?_ fuel (by omega)
      intro gs hn fu hfu
      exact xld_L_of_D t rl p _ _ _ k _ [['.', '.'], f] _ _ hq hs1t (Or.inl hk.plain.ne) (hDt gs hn) fu hfu
  · intro toks' name htoks hname hne'
    subst htoks
    obtain ⟨p', cls, kvs, rfl, hs', hl⟩ := sel3_spells_snoc_key_inv name hname toks' _ _ _ hs
    have hpl' := hs'.pos_length
    refine xld_tail_dict t rl hs' hne' hroot _ (by simp) _ (2 * p'.length + rs.length + 13) ?_ fuel
      (by simp at hfuel ⊢; omega)
    intro gs hn fu hfu e
    exact sel3_keycond_list t rl e gs p' name k opx op vq v cls kvs lc rs [f] (fieldOf f) 1 hn hname hk hop hlit hv hl hrs hg
      (by simp) (fun j c kvs' hj fu hfu => hcont (gs ++ [.key name]) j c kvs' hj fu hfu) fu
      (by omega)

/-! ### API level: the canonical path `P` of the record list starts with an index -/

/-- the text `P ++ tail` (with or without a leading '/') of a position that starts with an index tokenises into its pieces;
it does not start with '?' and is a path -/
theorem xld_tokenize (p : Pos) (tailG : List GSeg) (hp : PlainPos p) (hhead : ∃ n rest, p = .idx n :: rest) (hg : GoodG tailG)
    (lead : Str) (hlead : lead ∈ [[], slash]) :
    tokenize (lead ++ renderPos p ++ sel2Render tailG) = sel2Toks (sel2Embed p ++ tailG) ∧
    startsWith (lead ++ renderPos p ++ sel2Render tailG) ['?'] = false ∧
    hasPathChar (lead ++ renderPos p ++ sel2Render tailG) = true := by
  have hgood : GoodG (sel2Embed p ++ tailG) := (sel2_good_embed p hp).append hg
  have hr : lead ++ renderPos p ++ sel2Render tailG = lead ++ sel2Render (sel2Embed p ++ tailG) := by
    rw [sel2_render_append, sel2_render_embed, List.append_assoc]
  rw [hr]
  simp only [List.mem_cons, List.not_mem_nil, or_false] at hlead
  rcases hlead with rfl | rfl
  · obtain ⟨n, rest, rfl⟩ := hhead
    have hb : sel2Render (sel2Embed (.idx n :: rest) ++ tailG)
        = '[' :: (natStr n ++ ']' :: sel2Render (sel2Embed rest ++ tailG)) := by
      simp [sel2Embed, sel2Render, sel2RenderSeg, bracket]
    simp only [List.nil_append]
    refine ⟨?_, ?_, ?_⟩
    · rw [hb]; exact sel3_tokenize_render_br (natStr n) _ hgood
    · rw [hb]; simp [startsWith]
    · rw [hb]; simp [hasPathChar]
  · exact ⟨sel2_tokenize _ hgood, sel2_noQ_cons _, sel2_hasPathChar_cons _⟩

theorem xld_head_snoc {p' : Pos} {s : Seg} (hhead : ∃ n rest, p' ++ [s] = .idx n :: rest) (hs : ∃ name, s = .key name) : p' ≠ [] := by
  rintro rfl
  obtain ⟨n, rest, h⟩ := hhead
  obtain ⟨name, rfl⟩ := hs
  simp at h

/-- **`P[*]/f` and `P/f` below a list root** (`P` canonical, starting with an index; with or without the leading '/') -/
theorem xld_star_api (cls : Cls) (xs : List Val) (p : Pos) (f : Str) (lc : Cls) (rs : List Val) (d : Val)
    (hp : PlainPos p) (hhead : ∃ n rest, p = .idx n :: rest) (hf : PlainKey f)
    (hget : getAt (.list cls xs) p = some (.list lc rs)) (hrs : ∀ r ∈ rs, isDict r = true)
    (fuel : Nat) (hfuel : fuel ≥ 2 * p.length + rs.length + 6) (lead : Str) (hlead : lead ∈ [[], slash]) :
    ∀ xp ∈ [lead ++ renderPos p ++ bracket ['*'] ++ slash ++ f, lead ++ renderPos p ++ slash ++ f],
      let vals := somes (rs.map (fieldOf f))
      get fuel (.list cls xs) xp d = (.list cls xs, .ok (if vals.isEmpty then d else .list .n0 vals)) ∧
      getItem fuel (.list cls xs) xp = (.list cls xs, if vals.isEmpty then .error .IndexError else .ok (.list .n0 vals)) ∧
      first fuel (.list cls xs) xp d = (.list cls xs, .ok (firstOf vals d)) := by
  intro xp hxp vals
  simp only [List.mem_cons, List.not_mem_nil, or_false] at hxp
  have hne : p ≠ [] := by obtain ⟨n, rest, rfl⟩ := hhead; simp
  have hsp := sel3_spells_merged p (.list cls xs) _ hp hget
  have hlen := mergedToks_length_le p
  have hsel := fun rl => xld_star_spelled (.list cls xs) rl f ⟨cls, xs, rfl⟩ hsp (mergedToks_ne_nil p hne) hrs hf fuel (by omega)
  rcases hxp with rfl | rfl
  · have hg : GoodG [.br ['*'], .key f] := ⟨sel2_gBr_star, hf.gKey, trivial⟩
    obtain ⟨htok0, hq, hpc⟩ := xld_tokenize p _ hp hhead hg lead hlead
    have hxp : lead ++ renderPos p ++ bracket ['*'] ++ slash ++ f = lead ++ renderPos p ++ sel2Render [.br ['*'], .key f] := by
      simp [sel2Render, sel2RenderSeg, slash, List.append_assoc]
    rw [hxp]
    obtain ⟨p', s, rfl⟩ : ∃ p' s, p = p' ++ [s] := ⟨p.dropLast, p.getLast hne, (List.dropLast_concat_getLast hne).symm⟩
    obtain ⟨hp', hs⟩ := sel2_plainPos_append hp
    cases s with
    | key name =>
      have hname : PlainKey name := hs.1
      have htok : sel2Toks (sel2Embed (p' ++ [.key name]) ++ [.br ['*'], .key f]) = mergedToks p' ++ [name ++ bracket ['*'], f] := by
        rw [sel2_embed_append]
        simp only [sel2Embed, List.append_assoc, List.cons_append, List.nil_append]
        rw [sel2_toks_append_key_br, sel2_toks_embed]
        simp [sel2Toks]
      refine xa_select_api cls xs _ _ vals d fuel hq hpc (htok0.trans htok) (fun rl => ?_)
      exact (hsel rl).2 (mergedToks p') name (mergedToks_snoc_key p' name) hname
        (mergedToks_ne_nil p' (xld_head_snoc hhead ⟨name, rfl⟩))
    | idx m =>
      have htok : sel2Toks (sel2Embed (p' ++ [.idx m]) ++ [.br ['*'], .key f]) = mergedToks (p' ++ [.idx m]) ++ [bracket ['*'], f] := by
        rw [sel2_embed_append]
        simp only [sel2Embed, List.append_assoc, List.cons_append, List.nil_append]
        rw [sel2_toks_append_br_br, ← sel2_toks_embed, sel2_embed_append]
        simp [sel2Toks, sel2Embed]
      refine xa_select_api cls xs _ _ vals d fuel hq hpc (htok0.trans htok) (fun rl => ?_)
      exact (hsel rl).1 _ (by simp)
  · have hg : GoodG [.key f] := ⟨hf.gKey, trivial⟩
    obtain ⟨htok0, hq, hpc⟩ := xld_tokenize p _ hp hhead hg lead hlead
    have hxp : lead ++ renderPos p ++ slash ++ f = lead ++ renderPos p ++ sel2Render [.key f] := by
      simp [sel2Render, sel2RenderSeg, slash, List.append_assoc]
    rw [hxp]
    have htok : sel2Toks (sel2Embed p ++ [.key f]) = mergedToks p ++ [f] := by
      rw [sel2_toks_append_key, sel2_toks_embed]; simp [sel2Toks]
    refine xa_select_api cls xs _ _ vals d fuel hq hpc (htok0.trans htok) (fun rl => ?_)
    exact (hsel rl).1 _ (by simp)

/-- **`P[k op v]/f` and `P/k[text() op v]/../f` below a list root** -/
theorem xld_pred_api (cls : Cls) (xs : List Val) (p : Pos) (k f opx op vq v : Str) (lc : Cls) (rs : List Val) (d : Val)
    (hp : PlainPos p) (hhead : ∃ n rest, p = .idx n :: rest) (hk : FieldKey k) (hf : PlainKey f) (hop : OpSpell opx op)
    (hlit : LitSpell vq v) (hv : PlainLit v)
    (hget : getAt (.list cls xs) p = some (.list lc rs)) (hrs : ∀ r ∈ rs, isDict r = true)
    (hg : ∀ c kvs' kv, Val.dict c kvs' ∈ rs → lookup k kvs' = some kv → textGuard kv (.str v) = false)
    (fuel : Nat) (hfuel : fuel ≥ 6 * p.length + rs.length + 14) (lead : Str) (hlead : lead ∈ [[], slash]) :
    ∀ xp ∈ [lead ++ renderPos p ++ bracket (k ++ opx ++ vq) ++ slash ++ f,
            lead ++ renderPos p ++ slash ++ k ++ bracket (sTextFn ++ opx ++ vq) ++ slash ++ ['.', '.'] ++ slash ++ f],
      let vals := somes (rs.map (condOutcome k f op (.str v)))
      get fuel (.list cls xs) xp d = (.list cls xs, .ok (if vals.isEmpty then d else .list .n0 vals)) ∧
      getItem fuel (.list cls xs) xp = (.list cls xs, if vals.isEmpty then .error .IndexError else .ok (.list .n0 vals)) ∧
      first fuel (.list cls xs) xp d = (.list cls xs, .ok (firstOf vals d)) := by
  intro xp hxp vals
  simp only [List.mem_cons, List.not_mem_nil, or_false] at hxp
  have hne : p ≠ [] := by obtain ⟨n, rest, rfl⟩ := hhead; simp
  have hsp := sel3_spells_merged p (.list cls xs) _ hp hget
  have hlen := mergedToks_length_le p
  have hsel := fun rl => xld_pred_spelled (.list cls xs) rl k f opx op vq v ⟨cls, xs, rfl⟩ hsp (mergedToks_ne_nil p hne) hk hf hop
    hlit hv hrs hg fuel (by omega)
  rcases hxp with rfl | rfl
  · have hgd : GoodG [.br (k ++ opx ++ vq), .key f] := ⟨sel2_gBr_cond k opx op vq v hk.cond hop hlit hv, hf.gKey, trivial⟩
    obtain ⟨htok0, hq, hpc⟩ := xld_tokenize p _ hp hhead hgd lead hlead
    have hxp : lead ++ renderPos p ++ bracket (k ++ opx ++ vq) ++ slash ++ f
        = lead ++ renderPos p ++ sel2Render [.br (k ++ opx ++ vq), .key f] := by
      simp [sel2Render, sel2RenderSeg, slash, List.append_assoc]
    rw [hxp]
    obtain ⟨p', s, rfl⟩ : ∃ p' s, p = p' ++ [s] := ⟨p.dropLast, p.getLast hne, (List.dropLast_concat_getLast hne).symm⟩
    obtain ⟨hp', hs⟩ := sel2_plainPos_append hp
    cases s with
    | key name =>
      have hname : PlainKey name := hs.1
      have htok : sel2Toks (sel2Embed (p' ++ [.key name]) ++ [.br (k ++ opx ++ vq), .key f])
          = mergedToks p' ++ [name ++ bracket (k ++ opx ++ vq), f] := by
        rw [sel2_embed_append]
        simp only [sel2Embed, List.append_assoc, List.cons_append, List.nil_append]
        rw [sel2_toks_append_key_br, sel2_toks_embed]
        simp [sel2Toks]
      refine xa_select_api cls xs _ _ vals d fuel hq hpc (htok0.trans htok) (fun rl => ?_)
      exact (hsel rl).2 (mergedToks p') name (mergedToks_snoc_key p' name) hname
        (mergedToks_ne_nil p' (xld_head_snoc hhead ⟨name, rfl⟩))
    | idx m =>
      have htok : sel2Toks (sel2Embed (p' ++ [.idx m]) ++ [.br (k ++ opx ++ vq), .key f])
          = mergedToks (p' ++ [.idx m]) ++ [bracket (k ++ opx ++ vq), f] := by
        rw [sel2_embed_append]
        simp only [sel2Embed, List.append_assoc, List.cons_append, List.nil_append]
        rw [sel2_toks_append_br_br, ← sel2_toks_embed, sel2_embed_append]
        simp [sel2Toks, sel2Embed]
      refine xa_select_api cls xs _ _ vals d fuel hq hpc (htok0.trans htok) (fun rl => ?_)
      exact (hsel rl).1 _ (by simp)
  · have hgd : GoodG [.key k, .br (sTextFn ++ opx ++ vq), .key ['.', '.'], .key f] :=
      ⟨hk.plain.gKey, sel2_gBr_cond sTextFn opx op vq v condKey_text hop hlit hv, sel2_gKey_up, hf.gKey, trivial⟩
    obtain ⟨htok0, hq, hpc⟩ := xld_tokenize p _ hp hhead hgd lead hlead
    have hxp : lead ++ renderPos p ++ slash ++ k ++ bracket (sTextFn ++ opx ++ vq) ++ slash ++ ['.', '.'] ++ slash ++ f
        = lead ++ renderPos p ++ sel2Render [.key k, .br (sTextFn ++ opx ++ vq), .key ['.', '.'], .key f] := by
      simp [sel2Render, sel2RenderSeg, slash, List.append_assoc]
    rw [hxp]
    have htok : sel2Toks (sel2Embed p ++ [.key k, .br (sTextFn ++ opx ++ vq), .key ['.', '.'], .key f])
        = mergedToks p ++ [k ++ bracket (sTextFn ++ opx ++ vq), ['.', '.'], f] := by
      rw [sel2_toks_append_key_br, sel2_toks_embed]
      simp [sel2Toks]
    refine xa_select_api cls xs _ _ vals d fuel hq hpc (htok0.trans htok) (fun rl => ?_)
    exact (hsel rl).1 _ (by simp)

/-! ### chained selections `P[k1 op v1]/items[k2 op v2]/f` in an n0list-rooted tree -/

/-- API layer, list receiver, when the two values of `return_lists` collect different lists (chained selections) -/
theorem xld_select_api2 (lc : Cls) (xs : List Val) (xp : Str) (toks : List Str) (valsT valsF : List Val) (d : Val)
    (fuel : Nat) (hq : startsWith xp ['?'] = false) (hpc : hasPathChar xp = true) (htok : tokenize xp = toks)
    (hT : Sel2Coll (.list lc xs) true (findL fuel (.list lc xs) [] toks (.at []) true slash) valsT)
    (hF : Sel2Coll (.list lc xs) false (findL fuel (.list lc xs) [] toks (.at []) false slash) valsF) :
    get fuel (.list lc xs) xp d = (.list lc xs, .ok (if valsT.isEmpty then d else .list .n0 valsT)) ∧
    getItem fuel (.list lc xs) xp = (.list lc xs, if valsT.isEmpty then .error .IndexError else .ok (.list .n0 valsT)) ∧
    first fuel (.list lc xs) xp d = (.list lc xs, .ok (firstOf valsF d)) := by
  obtain ⟨r1, hr1, hf1, hv1⟩ := hT
  obtain ⟨r0, hr0, hf0, hv0⟩ := hF
  refine ⟨?_, ?_, ?_⟩
  · rw [get, xa_getCore_of_findL lc xs xp toks d false true fuel r1 hq hpc htok hr1]
    cases he : valsT.isEmpty with
    | true => simp [hf1, he]
    | false =>
      have : r1.isFound = true := by simp [hf1, he]
      simp [this, hv1 this, collect]
  · rw [getItem, xa_getCore_of_findL lc xs xp toks Val.none true true fuel r1 hq hpc htok hr1]
    cases he : valsT.isEmpty with
    | true => simp [hf1, he]
    | false =>
      have : r1.isFound = true := by simp [hf1, he]
      simp [this, hv1 this, collect]
  · exact first_of_collect valsF
      (fun d' => xa_getCore_of_findL lc xs xp toks d' false false fuel r0 hq hpc htok hr0) hf0 hv0 d

/-- the inner steps `items[k2 op v2]`, `f` as a continuation of the outer predicate step, at the record list at `p` -/
theorem xld_inner_cont (t : Val) (rl : Bool) (p : Pos) (lc : Cls) (rs : List Val) (items k2 f opx2 op2 vq2 v2 : Str)
    (hitems : PlainKey items) (hk2 : FieldKey k2) (hop2 : OpSpell opx2 op2) (hlit2 : LitSpell vq2 v2)
    (hv2 : PlainLit v2) (hf : PlainKey f) (hin : Sel3InnerOK items k2 (.str v2) rs) :
    ∀ gs, Sel3Norm gs t p (.list lc rs) → ∀ (j : Nat) (c : Cls) (kvs' : List (Str × Val)),
      rs[j]? = some (.dict c kvs') → ∀ fu ≥ 2 * p.length + (rs.map (sel2InnerLen items)).sum + 15, Sel2Out t
        (findD fu t [] false false [items ++ bracket (k2 ++ opx2 ++ vq2), f] (.at (p ++ [.idx j])) rl
          ('/' :: sel2Render (gs ++ [.br (natStr j)])))
        (sel3Inner items k2 f op2 (.str v2) rl (.dict c kvs')) := by
  intro gs hn j c kvs' hj fu hfu
  exact sel3_inner_cont t rl _ _ c kvs' items k2 f opx2 op2 vq2 v2 _ (hn.snoc_idx hj) hitems hk2 hf hop2 hlit2 hv2
    (fun x hx => hin c kvs' x (List.mem_of_getElem? hj) hx) (sel2_le_sum (sel2InnerLen items) rs j _ hj) fu
    (by simp at hfu ⊢; omega)

/-- **Chained selection on a list root that is itself the outer record list, token level** -/
theorem xld_chained_root (lc : Cls) (rs : List Val) (rl : Bool) (k1 opx1 op1 vq1 v1 items k2 opx2 op2 vq2 v2 f : Str)
    (hk1 : FieldKey k1) (hop1 : OpSpell opx1 op1) (hlit1 : LitSpell vq1 v1)
    (hv1 : PlainLit v1) (hitems : PlainKey items) (hk2 : FieldKey k2) (hop2 : OpSpell opx2 op2) (hlit2 : LitSpell vq2 v2)
    (hv2 : PlainLit v2) (hf : PlainKey f) (hrs : ∀ r ∈ rs, isDict r = true)
    (hg : ∀ c kvs' kv, Val.dict c kvs' ∈ rs → lookup k1 kvs' = some kv → textGuard kv (.str v1) = false)
    (hin : Sel3InnerOK items k2 (.str v2) rs)
    (fuel : Nat) (hfuel : fuel ≥ rs.length + (rs.map (sel2InnerLen items)).sum + 26) :
    Sel2Coll (.list lc rs) rl
      (findL fuel (.list lc rs) [] [bracket (k1 ++ opx1 ++ vq1), items ++ bracket (k2 ++ opx2 ++ vq2), f] (.at []) rl slash)
      (sel3Chained k1 op1 (.str v1) items k2 f op2 (.str v2) rl rs) := by
  have hopc := opSpell_canon hop1
  have hs1 : splitNameIndex (bracket (k1 ++ opx1 ++ vq1)) = .ok ([], .cond k1 op1 (.str v1)) := by
    simpa using split_cond [] k1 opx1 op1 vq1 v1 (Or.inl rfl) hk1.cond hop1 hlit1 hv1
  obtain ⟨g, rfl⟩ : ∃ g, fuel = g + 1 := ⟨fuel - 1, by omega⟩
  rw [xa_findL_cond g _ [] rl (.at []) (.list lc rs) slash _ k1 op1 (.str v1) _ rfl hs1]
  have := sel3_cond_list (.list lc rs) rl true [] [] k1 op1 _ (.str v1) lc rs [items ++ bracket (k2 ++ opx2 ++ vq2), f]
    (sel3Inner items k2 f op2 (.str v2) rl) _ (.nil _) hk1.plain hk1.notText hrs hs1
    (sel2_tok_text_bare op1 v1 hopc hv1) hopc hg (by simp)
    (xld_inner_cont (.list lc rs) rl [] lc rs items k2 f opx2 op2 vq2 v2 hitems hk2 hop2 hlit2 hv2 hf hin [] (.nil _))
    g (by simp; omega)
  simpa [sel2Render, slash, sel3Chained] using this

/-- **Chained selection below a list root, token level** (`toksP` any spelling of the position of the outer record list; the
merged form when it ends in a key) -/
theorem xld_chained_spelled (t : Val) (rl : Bool) {toksP : List Str} {p : Pos} {lc : Cls} {rs : List Val}
    (k1 opx1 op1 vq1 v1 items k2 opx2 op2 vq2 v2 f : Str) (hroot : ∃ cls xs, t = .list cls xs)
    (hs : Sel3Spells toksP t p (.list lc rs)) (hne : toksP ≠ []) (hk1 : FieldKey k1) (hop1 : OpSpell opx1 op1)
    (hlit1 : LitSpell vq1 v1)
    (hv1 : PlainLit v1) (hitems : PlainKey items) (hk2 : FieldKey k2) (hop2 : OpSpell opx2 op2) (hlit2 : LitSpell vq2 v2)
    (hv2 : PlainLit v2) (hf : PlainKey f) (hrs : ∀ r ∈ rs, isDict r = true)
    (hg : ∀ c kvs' kv, Val.dict c kvs' ∈ rs → lookup k1 kvs' = some kv → textGuard kv (.str v1) = false)
    (hin : Sel3InnerOK items k2 (.str v2) rs)
    (fuel : Nat) (hfuel : fuel ≥ 10 * toksP.length + rs.length + (rs.map (sel2InnerLen items)).sum + 30) :
    Sel2Coll t rl
      (findL fuel t [] (toksP ++ [bracket (k1 ++ opx1 ++ vq1), items ++ bracket (k2 ++ opx2 ++ vq2), f]) (.at []) rl slash)
      (sel3Chained k1 op1 (.str v1) items k2 f op2 (.str v2) rl rs) ∧
    (∀ toks' name, toksP = toks' ++ [name] → PlainKey name → toks' ≠ [] →
      Sel2Coll t rl
        (findL fuel t [] (toks' ++ [name ++ bracket (k1 ++ opx1 ++ vq1), items ++ bracket (k2 ++ opx2 ++ vq2), f])
          (.at []) rl slash)
        (sel3Chained k1 op1 (.str v1) items k2 f op2 (.str v2) rl rs)) := by
  have hq : getAt t p = some (.list lc rs) := hs.spells.getAt
  have hpl := hs.pos_length
  have hopc := opSpell_canon hop1
  have hs1 : splitNameIndex (bracket (k1 ++ opx1 ++ vq1)) = .ok ([], .cond k1 op1 (.str v1)) := by
    simpa using split_cond [] k1 opx1 op1 vq1 v1 (Or.inl rfl) hk1.cond hop1 hlit1 hv1
  have hcont := xld_inner_cont t rl p lc rs items k2 f opx2 op2 vq2 v2 hitems hk2 hop2 hlit2 hv2 hf hin
  have hD : ∀ gs, Sel3Norm gs t p (.list lc rs) → ∀ fu ≥ 4 * p.length + (rs.map (sel2InnerLen items)).sum + rs.length + 24, ∀ e,
      Sel2Coll t rl (findD fu t [] false e [bracket (k1 ++ opx1 ++ vq1), items ++ bracket (k2 ++ opx2 ++ vq2), f] (.at p) rl
        ('/' :: sel2Render gs)) (sel3Chained k1 op1 (.str v1) items k2 f op2 (.str v2) rl rs) :=
    fun gs hn fu hfu e => sel3_cond_list t rl e gs p k1 op1 _ (.str v1) lc rs _ _ _ hn hk1.plain hk1.notText hrs hs1
      (sel2_tok_text_bare op1 v1 hopc hv1) hopc hg (by simp) (hcont gs hn) fu (by omega)
  refine ⟨?_, ?_⟩
  · refine xld_tail t rl hs hne hroot _ (by simp) _ (4 * p.length + (rs.map (sel2InnerLen items)).sum + rs.length + 25)
      (fun gs hn fu hfu e => hD gs hn fu (by omega) e) ?_ fuel (by omega)
    intro gs hn fu hfu
    exact xld_L_of_D t rl p _ _ _ [] _ _ _ _ hq hs1 (Or.inr ⟨k1, op1, .str v1, rfl, rfl⟩) (hD gs hn) fu hfu
  · intro toks' name htoks hname hne'
    subst htoks
    obtain ⟨p', cls, kvs, rfl, hs', hl⟩ := sel3_spells_snoc_key_inv name hname toks' _ _ _ hs
    have hpl' := hs'.pos_length
    refine xld_tail_dict t rl hs' hne' hroot _ (by simp) _
      (4 * p'.length + (rs.map (sel2InnerLen items)).sum + rs.length + 30) ?_ fuel (by simp at hfuel ⊢; omega)
    intro gs hn fu hfu e
    exact sel3_keycond_list t rl e gs p' name k1 opx1 op1 vq1 v1 cls kvs lc rs _ _
      (2 * (p' ++ [Seg.key name]).length + (rs.map (sel2InnerLen items)).sum + 15) hn hname hk1 hop1 hlit1 hv1 hl hrs hg
      (by simp) (fun j c kvs' hj fu hfu => hcont (gs ++ [.key name]) (hn.snoc_key hname hl) j c kvs' hj fu hfu) fu
      (by simp; omega)

/-- **`P[k1 op v1]/items[k2 op v2]/f` in an n0list-rooted tree** (`P` canonical: empty - the root is the outer record list - or
starting with an index; with or without the leading '/') through `get`, item access and `first` -/
theorem xld_chained_api (cls : Cls) (xs : List Val) (p : Pos)
    (k1 opx1 op1 vq1 v1 items k2 opx2 op2 vq2 v2 f : Str) (lc : Cls) (rs : List Val) (d : Val)
    (hp : PlainPos p) (hhead : ∃ n rest, p = .idx n :: rest) (hk1 : FieldKey k1) (hop1 : OpSpell opx1 op1)
    (hlit1 : LitSpell vq1 v1)
    (hv1 : PlainLit v1) (hitems : PlainKey items) (hk2 : FieldKey k2) (hop2 : OpSpell opx2 op2) (hlit2 : LitSpell vq2 v2)
    (hv2 : PlainLit v2) (hf : PlainKey f)
    (hget : getAt (.list cls xs) p = some (.list lc rs)) (hrs : ∀ r ∈ rs, isDict r = true)
    (hg : ∀ c kvs' kv, Val.dict c kvs' ∈ rs → lookup k1 kvs' = some kv → textGuard kv (.str v1) = false)
    (hin : Sel3InnerOK items k2 (.str v2) rs)
    (fuel : Nat) (hfuel : fuel ≥ 10 * p.length + rs.length + (rs.map (sel2InnerLen items)).sum + 30)
    (lead : Str) (hlead : lead ∈ [[], slash]) :
    let xp := lead ++ renderPos p ++ bracket (k1 ++ opx1 ++ vq1) ++ slash ++ items ++ bracket (k2 ++ opx2 ++ vq2) ++ slash ++ f
    let valsT := sel3Chained k1 op1 (.str v1) items k2 f op2 (.str v2) true rs
    let valsF := sel3Chained k1 op1 (.str v1) items k2 f op2 (.str v2) false rs
    get fuel (.list cls xs) xp d = (.list cls xs, .ok (if valsT.isEmpty then d else .list .n0 valsT)) ∧
    getItem fuel (.list cls xs) xp = (.list cls xs, if valsT.isEmpty then .error .IndexError else .ok (.list .n0 valsT)) ∧
    first fuel (.list cls xs) xp d = (.list cls xs, .ok (firstOf valsF d)) := by
  intro xp valsT valsF
  have hne : p ≠ [] := by obtain ⟨n, rest, rfl⟩ := hhead; simp
  have hsp := sel3_spells_merged p (.list cls xs) _ hp hget
  have hlen := mergedToks_length_le p
  have hsel := fun rl => xld_chained_spelled (.list cls xs) rl k1 opx1 op1 vq1 v1 items k2 opx2 op2 vq2 v2 f ⟨cls, xs, rfl⟩ hsp
    (mergedToks_ne_nil p hne) hk1 hop1 hlit1 hv1 hitems hk2 hop2 hlit2 hv2 hf hrs hg hin fuel (by omega)
  have hgd : GoodG [.br (k1 ++ opx1 ++ vq1), .key items, .br (k2 ++ opx2 ++ vq2), .key f] :=
    ⟨sel2_gBr_cond k1 opx1 op1 vq1 v1 hk1.cond hop1 hlit1 hv1, hitems.gKey,
      sel2_gBr_cond k2 opx2 op2 vq2 v2 hk2.cond hop2 hlit2 hv2, hf.gKey, trivial⟩
  obtain ⟨htok0, hq, hpc⟩ := xld_tokenize p _ hp hhead hgd lead hlead
  have hxp : xp = lead ++ renderPos p ++ sel2Render [.br (k1 ++ opx1 ++ vq1), .key items, .br (k2 ++ opx2 ++ vq2), .key f] := by
    simp [xp, sel2Render, sel2RenderSeg, slash, List.append_assoc]
  rw [hxp]
  obtain ⟨p', s, rfl⟩ : ∃ p' s, p = p' ++ [s] := ⟨p.dropLast, p.getLast hne, (List.dropLast_concat_getLast hne).symm⟩
  obtain ⟨hp', hs⟩ := sel2_plainPos_append hp
  cases s with
  | key name =>
    have hname : PlainKey name := hs.1
    have htok : sel2Toks (sel2Embed (p' ++ [.key name]) ++ [.br (k1 ++ opx1 ++ vq1), .key items, .br (k2 ++ opx2 ++ vq2), .key f])
        = mergedToks p' ++ [name ++ bracket (k1 ++ opx1 ++ vq1), items ++ bracket (k2 ++ opx2 ++ vq2), f] := by
      rw [sel2_embed_append]
      simp only [sel2Embed, List.append_assoc, List.cons_append, List.nil_append]
      rw [sel2_toks_append_key_br, sel2_toks_embed]
      simp [sel2Toks]
    have hne' := mergedToks_ne_nil p' (xld_head_snoc hhead ⟨name, rfl⟩)
    exact xld_select_api2 cls xs _ _ valsT valsF d fuel hq hpc (htok0.trans htok)
      ((hsel true).2 (mergedToks p') name (mergedToks_snoc_key p' name) hname hne')
      ((hsel false).2 (mergedToks p') name (mergedToks_snoc_key p' name) hname hne')
  | idx m =>
    have htok : sel2Toks (sel2Embed (p' ++ [.idx m]) ++ [.br (k1 ++ opx1 ++ vq1), .key items, .br (k2 ++ opx2 ++ vq2), .key f])
        = mergedToks (p' ++ [.idx m]) ++ [bracket (k1 ++ opx1 ++ vq1), items ++ bracket (k2 ++ opx2 ++ vq2), f] := by
      rw [sel2_embed_append]
      simp only [sel2Embed, List.append_assoc, List.cons_append, List.nil_append]
      rw [sel2_toks_append_br_br, ← sel2_toks_embed, sel2_embed_append]
      simp [sel2Toks, sel2Embed]
    exact xld_select_api2 cls xs _ _ valsT valsF d fuel hq hpc (htok0.trans htok) (hsel true).1 (hsel false).1

/-- the same for the root list being the outer record list itself: `[k1 op v1]/items[k2 op v2]/f`, `/[k1 op v1]/items[…]/f` -/
theorem xld_chained_root_api (lc : Cls) (rs : List Val)
    (k1 opx1 op1 vq1 v1 items k2 opx2 op2 vq2 v2 f : Str) (d : Val)
    (hk1 : FieldKey k1) (hop1 : OpSpell opx1 op1) (hlit1 : LitSpell vq1 v1)
    (hv1 : PlainLit v1) (hitems : PlainKey items) (hk2 : FieldKey k2) (hop2 : OpSpell opx2 op2) (hlit2 : LitSpell vq2 v2)
    (hv2 : PlainLit v2) (hf : PlainKey f) (hrs : ∀ r ∈ rs, isDict r = true)
    (hg : ∀ c kvs' kv, Val.dict c kvs' ∈ rs → lookup k1 kvs' = some kv → textGuard kv (.str v1) = false)
    (hin : Sel3InnerOK items k2 (.str v2) rs)
    (fuel : Nat) (hfuel : fuel ≥ rs.length + (rs.map (sel2InnerLen items)).sum + 26)
    (lead : Str) (hlead : lead ∈ [[], slash]) :
    let xp := lead ++ bracket (k1 ++ opx1 ++ vq1) ++ slash ++ items ++ bracket (k2 ++ opx2 ++ vq2) ++ slash ++ f
    let valsT := sel3Chained k1 op1 (.str v1) items k2 f op2 (.str v2) true rs
    let valsF := sel3Chained k1 op1 (.str v1) items k2 f op2 (.str v2) false rs
    get fuel (.list lc rs) xp d = (.list lc rs, .ok (if valsT.isEmpty then d else .list .n0 valsT)) ∧
    getItem fuel (.list lc rs) xp = (.list lc rs, if valsT.isEmpty then .error .IndexError else .ok (.list .n0 valsT)) ∧
    first fuel (.list lc rs) xp d = (.list lc rs, .ok (firstOf valsF d)) := by
  intro xp valsT valsF
  have hsel := fun rl => xld_chained_root lc rs rl k1 opx1 op1 vq1 v1 items k2 opx2 op2 vq2 v2 f hk1 hop1 hlit1 hv1 hitems hk2 hop2
    hlit2 hv2 hf hrs hg hin fuel hfuel
  have hgd : GoodG [.br (k1 ++ opx1 ++ vq1), .key items, .br (k2 ++ opx2 ++ vq2), .key f] :=
    ⟨sel2_gBr_cond k1 opx1 op1 vq1 v1 hk1.cond hop1 hlit1 hv1, hitems.gKey,
      sel2_gBr_cond k2 opx2 op2 vq2 v2 hk2.cond hop2 hlit2 hv2, hf.gKey, trivial⟩
  have hts : sel2Toks [.br (k1 ++ opx1 ++ vq1), .key items, .br (k2 ++ opx2 ++ vq2), .key f]
      = [bracket (k1 ++ opx1 ++ vq1), items ++ bracket (k2 ++ opx2 ++ vq2), f] := by simp [sel2Toks]
  simp only [List.mem_cons, List.not_mem_nil, or_false] at hlead
  rcases hlead with rfl | rfl
  · have hxp : xp = '[' :: ((k1 ++ opx1 ++ vq1) ++ ']' :: sel2Render [.key items, .br (k2 ++ opx2 ++ vq2), .key f]) := by
      simp [xp, sel2Render, sel2RenderSeg, slash, bracket, List.append_assoc]
    have htok := sel3_tokenize_render_br (k1 ++ opx1 ++ vq1) [.key items, .br (k2 ++ opx2 ++ vq2), .key f] hgd
    rw [← hxp, hts] at htok
    exact xld_select_api2 lc rs xp _ valsT valsF d fuel (by rw [hxp]; simp [startsWith]) (by rw [hxp]; simp [hasPathChar]) htok
      (hsel true) (hsel false)
  · have hxp : xp = '/' :: sel2Render [.br (k1 ++ opx1 ++ vq1), .key items, .br (k2 ++ opx2 ++ vq2), .key f] := by
      simp [xp, sel2Render, sel2RenderSeg, slash, bracket, List.append_assoc]
    have htok := sel2_tokenize _ hgd
    rw [← hxp, hts] at htok
    exact xld_select_api2 lc rs xp _ valsT valsF d fuel (by rw [hxp]; exact sel2_noQ_cons _) (by rw [hxp]; exact sel2_hasPathChar_cons _)
      htok (hsel true) (hsel false)

end N0.XPath
