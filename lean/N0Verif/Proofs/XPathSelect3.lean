import N0Verif.Proofs.XPathSelect2
import N0Verif.Proofs.XPathSpellings
import N0Verif.Proofs.XPathCreate2
/-!
  Selecting steps behind **any spelling** of the path to the record list, `first` on chained selections, and
  an inner `items` that is a single record ("hidden list").

  The walk along a spelled path writes the *evaluated* index of every index step into `xpath_found_str`
  (`a[last()]` → `/a[-1]`, `a/[1+1]` → `/a[2]`): a text made of `/key` and `[int]` pieces (`Sel3Norm`).  Whatever the
  spelling was, that text re-tokenises into tokens that spell the same position and write the same text again
  (`sel3_norm_spellsF`) — the invariant the `'..'` step of a predicate needs (`sel3_up_record`).  The element /
  loop lemmas of `XPathSelect2.lean` are restated over such a text (`sel3_text_up` … `sel3_keycond_list`), the
  continuation of a chained selection (`sel3_inner_cont`) also covers `items` that is one dict record, and the
  tokenisation of `spelling ++ selecting tail` is derived from `tokenize_renderSp` / `sel2_tokenize`.
-/
namespace N0.XPath
open N0 N0.Py N0.Val

/-! ### the text of a walk: `/key` and `[int]` pieces -/

theorem sel3_gBr_int (i : Int) : GBr (intStr i) := by
  rcases intStr_cases i with ⟨n, _, h⟩ | ⟨n, _, h⟩
  · rw [h]; exact sel2_gBr_nat n
  · rw [h]
    constructor
    · intro c hc
      simp only [List.mem_cons] at hc
      rcases hc with rfl | hc
      · decide
      · exact natStr_noRB _ c hc
    · intro c hc
      simp only [List.mem_cons] at hc
      rcases hc with rfl | hc
      · decide
      · exact natStr_noSlash _ c hc

theorem sel3_intStr_idxTok (i : Int) : IdxTok (bracket (intStr i)) (intStr i) i := by
  rcases intStr_cases i with ⟨n, hi, h⟩ | ⟨n, hi, h⟩
  · rw [h, hi]; exact natStr_idxTok n
  · rw [h, hi]; exact (IdxSp.neg (n + 1)).idxTok

theorem sel3_intStr_keyIdxTok (i : Int) {k : Str} (hk : PlainKey k) : KeyIdxTok (k ++ bracket (intStr i)) k (intStr i) i := by
  rcases intStr_cases i with ⟨n, hi, h⟩ | ⟨n, hi, h⟩
  · rw [h, hi]; exact (IdxSp.lit n).keyIdxTok hk
  · rw [h, hi]; exact (IdxSp.neg (n + 1)).keyIdxTok hk

/-- `gs` is the text of a walk from `v` along `p` to `c`: plain keys, evaluated indexes -/
inductive Sel3Norm : List GSeg → Val → Pos → Val → Prop
  | nil (v : Val) : Sel3Norm [] v [] v
  | key {k cls kvs c gs p d} : PlainKey k → lookup k kvs = some c → Sel3Norm gs c p d →
      Sel3Norm (.key k :: gs) (.dict cls kvs) (.key k :: p) d
  | idx {i cls xs n c gs p d} : normIdx i xs.length = some n → xs[n]? = some c → Sel3Norm gs c p d →
      Sel3Norm (.br (intStr i) :: gs) (.list cls xs) (.idx n :: p) d

theorem Sel3Norm.good {gs v p c} (h : Sel3Norm gs v p c) : GoodG gs := by
  induction h with
  | nil v => trivial
  | key hk _ _ ih => exact ⟨hk.gKey, ih⟩
  | idx _ _ _ ih => exact ⟨sel3_gBr_int _, ih⟩

theorem Sel3Norm.getAt {gs v p c} (h : Sel3Norm gs v p c) : Val.getAt v p = some c := by
  induction h with
  | nil v => rfl
  | key _ hl _ ih => simp [Val.getAt, child, hl, ih]
  | idx _ hx _ ih => simp [Val.getAt, child, hx, ih]

theorem Sel3Norm.length {gs v p c} (h : Sel3Norm gs v p c) : gs.length = p.length := by
  induction h with
  | nil v => rfl
  | key _ _ _ ih => simp [ih]
  | idx _ _ _ ih => simp [ih]

theorem Sel3Norm.snoc_key {gs v p cls kvs k c} (h : Sel3Norm gs v p (.dict cls kvs)) (hk : PlainKey k)
    (hl : lookup k kvs = some c) : Sel3Norm (gs ++ [.key k]) v (p ++ [.key k]) c := by
  generalize hd : Val.dict cls kvs = d at h
  induction h with
  | nil v => subst hd; exact .key hk hl (.nil c)
  | key hk' hl' _ ih => exact .key hk' hl' (ih hd)
  | idx hn hx _ ih => exact .idx hn hx (ih hd)

theorem Sel3Norm.snoc_idx {gs v p lc xs j c} (h : Sel3Norm gs v p (.list lc xs)) (hj : xs[j]? = some c) :
    Sel3Norm (gs ++ [.br (natStr j)]) v (p ++ [.idx j]) c := by
  generalize hd : Val.list lc xs = d at h
  induction h with
  | nil v =>
    subst hd
    exact .idx (i := (j : Int)) (normIdx_nat (sel2_lt_of_getElem? hj)) hj (.nil c)
  | key hk' hl' _ ih => exact .key hk' hl' (ih hd)
  | idx hn hx _ ih => exact .idx hn hx (ih hd)

theorem sel3_render_key (k : Str) (gs : List GSeg) : sel2Render (.key k :: gs) = slash ++ k ++ sel2Render gs := by
  simp [sel2Render, sel2RenderSeg, slash]

theorem sel3_render_br (e : Str) (gs : List GSeg) : sel2Render (.br e :: gs) = bracket e ++ sel2Render gs := by
  simp [sel2Render, sel2RenderSeg]

theorem sel3_render_key_br (k e : Str) (gs : List GSeg) :
    sel2Render (.key k :: .br e :: gs) = slash ++ k ++ bracket e ++ sel2Render gs := by
  simp [sel2Render, sel2RenderSeg, slash]

/-- **The text of a walk is a fixed point**: its tokens spell the same position and write the same text. -/
theorem sel3_norm_spellsF : ∀ (gs : List GSeg) (v : Val) (p : Pos) (c : Val), Sel3Norm gs v p c →
    SpellsF (sel2Toks gs) v p c (sel2Render gs)
  | [], v, p, c, h => by cases h; exact .nil v
  | [.key k], v, p, c, h => by
    cases h with
    | key hk hl hr =>
      cases hr
      rw [sel3_render_key]
      exact .key hk.keyTok hl (.nil _)
  | .key k :: .key k2 :: rest, v, p, c, h => by
    cases h with
    | key hk hl hr =>
      have ih := sel3_norm_spellsF (.key k2 :: rest) _ _ _ hr
      rw [sel2_toks_key_key, sel3_render_key]
      exact .key hk.keyTok hl ih
  | .key k :: .br e :: rest, v, p, c, h => by
    cases h with
    | key hk hl hr =>
      cases hr with
      | idx hn hx hr2 =>
        have ih := sel3_norm_spellsF rest _ _ _ hr2
        rw [sel3_render_key_br]
        exact .keyIdx (sel3_intStr_keyIdxTok _ hk) hl hn hx ih
  | .br e :: rest, v, p, c, h => by
    cases h with
    | idx hn hx hr =>
      have ih := sel3_norm_spellsF rest _ _ _ hr
      rw [sel3_render_br]
      exact .idx (sel3_intStr_idxTok _) hn hx ih

theorem sel3_toks_length_le (gs : List GSeg) : (sel2Toks gs).length ≤ gs.length := by
  induction gs using sel2Toks.induct with
  | case1 => simp [sel2Toks]
  | case2 k e r ih => simp [sel2Toks]; omega
  | case3 k r hne ih => rw [sel2Toks]; simp; omega; exact hne
  | case4 e r ih => simp [sel2Toks]; omega

theorem sel3_toks_ne_nil (gs : List GSeg) (h : gs ≠ []) : sel2Toks gs ≠ [] := by
  cases gs with
  | nil => exact absurd rfl h
  | cons s r =>
    cases s with
    | key k =>
      cases r with
      | nil => simp [sel2Toks]
      | cons s2 r2 => cases s2 <;> simp [sel2Toks]
    | br e => simp [sel2Toks]

/-- the canonical path is such a text -/
theorem sel3_norm_canon : ∀ (p : Pos) (v c : Val), PlainPos p → getAt v p = some c → Sel3Norm (sel2Embed p) v p c
  | [], v, c, _, h => by simp [getAt] at h; subst h; exact .nil v
  | .key k :: rest, v, c, hp, h => by
    obtain ⟨x, hc, hr⟩ := getAt_cons_some h
    obtain ⟨cls, kvs, rfl, hl⟩ := child_key_some hc
    exact .key hp.1 hl (sel3_norm_canon rest x c hp.2 hr)
  | .idx n :: rest, v, c, hp, h => by
    obtain ⟨y, hc2, hr2⟩ := getAt_cons_some h
    obtain ⟨cls', xs, rfl, hx, hlt⟩ := child_idx_some hc2
    exact .idx (i := (n : Int)) (normIdx_nat hlt) hx (sel3_norm_canon rest y c hp hr2)

/-! ### spelled token lists whose key steps are plain names -/

/-- `Spells` with plain key names (what the pieces of a '/'-split text are): the class of token lists the
`'..'` step can re-resolve -/
inductive Sel3Spells : List Str → Val → Pos → Val → Prop
  | nil (v : Val) : Sel3Spells [] v [] v
  | key {tok rest cls kvs c p d} :
      PlainKey tok → lookup tok kvs = some c → Sel3Spells rest c p d →
      Sel3Spells (tok :: rest) (.dict cls kvs) (.key tok :: p) d
  | idx {tok e i rest cls xs n c p d} :
      IdxTok tok e i → normIdx i xs.length = some n → xs[n]? = some c → Sel3Spells rest c p d →
      Sel3Spells (tok :: rest) (.list cls xs) (.idx n :: p) d
  | keyIdx {tok k e i rest cls kvs cls' xs n c p d} :
      KeyIdxTok tok k e i → PlainKey k → lookup k kvs = some (.list cls' xs) →
      normIdx i xs.length = some n → xs[n]? = some c → Sel3Spells rest c p d →
      Sel3Spells (tok :: rest) (.dict cls kvs) (.key k :: .idx n :: p) d

theorem Sel3Spells.spells {toks v p c} (h : Sel3Spells toks v p c) : Spells toks v p c := by
  induction h with
  | nil v => exact .nil v
  | key hk hl _ ih => exact .key hk.keyTok hl ih
  | idx hk hn hx _ ih => exact .idx hk hn hx ih
  | keyIdx hk _ hl hn hx _ ih => exact .keyIdx hk hl hn hx ih

theorem Sel3Spells.pos_length {toks v p c} (h : Sel3Spells toks v p c) : p.length ≤ 2 * toks.length := by
  induction h with
  | nil v => simp
  | key _ _ _ ih => simp; omega
  | idx _ _ _ _ ih => simp; omega
  | keyIdx _ _ _ _ _ _ ih => simp; omega

/-- the text the walk along spelled tokens writes -/
theorem sel3_spells_norm {toks v p c} (h : Sel3Spells toks v p c) :
    ∃ gs, SpellsF toks v p c (sel2Render gs) ∧ Sel3Norm gs v p c := by
  induction h with
  | nil v => exact ⟨[], .nil v, .nil v⟩
  | key hk hl _ ih =>
    obtain ⟨gs, hs, hn⟩ := ih
    refine ⟨.key _ :: gs, ?_, .key hk hl hn⟩
    rw [sel3_render_key]; exact .key hk.keyTok hl hs
  | idx hk hn' hx _ ih =>
    obtain ⟨gs, hs, hn⟩ := ih
    refine ⟨.br (intStr _) :: gs, ?_, .idx hn' hx hn⟩
    rw [sel3_render_br]; exact .idx hk hn' hx hs
  | keyIdx hk hpk hl hn' hx _ ih =>
    obtain ⟨gs, hs, hn⟩ := ih
    refine ⟨.key _ :: .br (intStr _) :: gs, ?_, .key hpk hl (.idx hn' hx hn)⟩
    rw [sel3_render_key_br]; exact .keyIdx hk hl hn' hx hs

/-- the canonical tokens of a plain position -/
theorem sel3_spells_merged : ∀ (p : Pos) (v c : Val), PlainPos p → getAt v p = some c → Sel3Spells (mergedToks p) v p c
  | [], v, c, _, h => by simp [getAt] at h; subst h; exact .nil v
  | [.key k], v, c, hp, h => by
    obtain ⟨x, hc, hr⟩ := getAt_cons_some h
    obtain ⟨cls, kvs, rfl, hl⟩ := child_key_some hc
    simp [getAt] at hr; subst hr
    exact .key hp.1 hl (.nil _)
  | .key k :: .key k2 :: rest, v, c, hp, h => by
    obtain ⟨x, hc, hr⟩ := getAt_cons_some h
    obtain ⟨cls, kvs, rfl, hl⟩ := child_key_some hc
    have ih := sel3_spells_merged (.key k2 :: rest) x c hp.2 hr
    rw [mergedToks]
    · exact .key hp.1 hl ih
    · intro n r h; cases h
  | .key k :: .idx n :: rest, v, c, hp, h => by
    obtain ⟨x, hc, hr⟩ := getAt_cons_some h
    obtain ⟨cls, kvs, rfl, hl⟩ := child_key_some hc
    obtain ⟨y, hc2, hr2⟩ := getAt_cons_some hr
    obtain ⟨cls', xs, rfl, hx, hlt⟩ := child_idx_some hc2
    have ih := sel3_spells_merged rest y c hp.2 hr2
    exact .keyIdx (keyIdxTok_of hp.1 (natStr_idxExpr n) (natStr_ne_special n).1 (natStr_ne_special n).2 (n0eval_nat n))
      hp.1 hl (normIdx_nat hlt) hx ih
  | .idx n :: rest, v, c, hp, h => by
    obtain ⟨y, hc2, hr2⟩ := getAt_cons_some h
    obtain ⟨cls', xs, rfl, hx, hlt⟩ := child_idx_some hc2
    have ih := sel3_spells_merged rest y c hp hr2
    exact .idx (natStr_idxTok n) (normIdx_nat hlt) hx ih

/-- the tokens of a rendered spelling -/
theorem sel3_spells_steps : ∀ (steps : List StepSp) (v c : Val), PlainSteps steps → stepsGet v steps = some c →
    Sel3Spells (toksOf steps) v (posOf v steps) c
  | [], v, c, _, h => by
    simp [stepsGet] at h; subst h; exact .nil v
  | [.key k], v, c, hp, h => by
    obtain ⟨cls, kvs, x, rfl, hl, hr⟩ := stepsGet_key_inv h
    simp [stepsGet] at hr; subst hr
    rw [posOf_key _ hl]
    exact .key hp.1 hl (.nil _)
  | .key k :: .key k2 :: rest, v, c, hp, h => by
    obtain ⟨cls, kvs, x, rfl, hl, hr⟩ := stepsGet_key_inv h
    have ih := sel3_spells_steps (.key k2 :: rest) x c hp.2 hr
    rw [toksOf_key_cons k _ (by intro e r h; cases h), posOf_key _ hl]
    exact .key hp.1 hl ih
  | .key k :: .idx e true :: rest, v, c, hp, h => by
    obtain ⟨cls, kvs, x, rfl, hl, hr⟩ := stepsGet_key_inv h
    have ih := sel3_spells_steps (.idx e true :: rest) x c hp.2 hr
    rw [toksOf_key_cons k _ (by intro e r h; cases h), posOf_key _ hl]
    exact .key hp.1 hl ih
  | .key k :: .idx e false :: rest, v, c, hp, h => by
    obtain ⟨cls, kvs, x, rfl, hl, hr⟩ := stepsGet_key_inv h
    obtain ⟨cls', xs, n, y, rfl, hn, hx, hr2⟩ := stepsGet_idx_inv hr
    have ih := sel3_spells_steps rest y c hp.2 hr2
    rw [posOf_key _ hl, posOf_idx _ hn hx]
    exact .keyIdx (e.keyIdxTok hp.1) hp.1 hl hn hx ih
  | .idx e sep :: rest, v, c, hp, h => by
    obtain ⟨cls', xs, n, y, rfl, hn, hx, hr2⟩ := stepsGet_idx_inv h
    have ih := sel3_spells_steps rest y c hp hr2
    rw [posOf_idx _ hn hx]
    exact .idx e.idxTok hn hx ih

/-- a spelled token list that ends in a plain name: the name is a key step of its own -/
theorem sel3_spells_snoc_key_inv (name : Str) (hname : PlainKey name) : ∀ (toks : List Str) (v : Val) (p : Pos) (c : Val),
    Sel3Spells (toks ++ [name]) v p c →
    ∃ p' cls kvs, p = p' ++ [.key name] ∧ Sel3Spells toks v p' (.dict cls kvs) ∧ lookup name kvs = some c
  | [], v, p, c, h => by
    have hsplit := hname.keyTok.split
    cases h with
    | key hk hl hr => cases hr; exact ⟨[], _, _, rfl, .nil _, hl⟩
    | idx hk _ _ _ =>
      have := hk.split
      rw [hsplit] at this
      simp only [Except.ok.injEq, Prod.mk.injEq] at this
      exact absurd this.2 (by simp)
    | keyIdx hk _ _ _ _ _ =>
      have := hk.split
      rw [hsplit] at this
      simp only [Except.ok.injEq, Prod.mk.injEq] at this
      exact absurd this.2 (by simp)
  | t :: ts, v, p, c, h => by
    cases h with
    | key hk hl hr =>
      obtain ⟨p', cls, kvs, rfl, hs, hl'⟩ := sel3_spells_snoc_key_inv name hname ts _ _ _ hr
      exact ⟨_ :: p', cls, kvs, rfl, .key hk hl hs, hl'⟩
    | idx hk hn hx hr =>
      obtain ⟨p', cls, kvs, rfl, hs, hl'⟩ := sel3_spells_snoc_key_inv name hname ts _ _ _ hr
      exact ⟨_ :: p', cls, kvs, rfl, .idx hk hn hx hs, hl'⟩
    | keyIdx hk hpk hl hn hx hr =>
      obtain ⟨p', cls, kvs, rfl, hs, hl'⟩ := sel3_spells_snoc_key_inv name hname ts _ _ _ hr
      exact ⟨_ :: _ :: p', cls, kvs, rfl, .keyIdx hk hpk hl hn hx hs, hl'⟩

/-! ### the `'..'` step over the text of a walk -/

theorem sel3_fnd_idx (gs : List GSeg) (j : Nat) :
    ('/' :: sel2Render gs) ++ bracket (intStr (j : Int)) = '/' :: sel2Render (gs ++ [.br (natStr j)]) := by
  rw [sel2_render_append]; simp [sel2Render, sel2RenderSeg, intStr_nat]

theorem sel3_fnd_idx_key (gs : List GSeg) (j : Nat) (k : Str) :
    '/' :: sel2Render (gs ++ [.br (natStr j)]) ++ slash ++ k = '/' :: sel2Render (gs ++ [.br (natStr j), .key k]) := by
  rw [sel2_render_append, sel2_render_append]; simp [sel2Render, sel2RenderSeg, slash]

theorem sel3_fnd_key (gs : List GSeg) (name : Str) :
    '/' :: sel2Render gs ++ slash ++ name = '/' :: sel2Render (gs ++ [.key name]) := by
  rw [sel2_render_append]; simp [sel2Render, sel2RenderSeg, slash]

/-- **`'..'` from the field `k` of record `j` of the list at `p`, any text of the walk.**  The `found` text is
the text of the walk to `p[j]/k`; its last piece is dropped, the rest resolves to `p[j]` again from the root
and writes the same text, with which the walk continues in that record. -/
theorem sel3_up_record (root : Val) (entry rl : Bool) (pp : Pos) (pv : Val) (gs : List GSeg) (p : Pos) (k : Str) (lc : Cls)
    (rs : List Val) (j : Nat) (rec : Val) (rest : List Str) (hn : Sel3Norm gs root p (.list lc rs)) (hk : PlainKey k)
    (hpar : getAt root pp = some pv) (hj : rs[j]? = some rec)
    (hrest : rest ≠ []) (fuel : Nat) (hfuel : fuel ≥ 2 * (p.length + 1)) :
    findD (fuel + 1) root [] false entry (['.', '.'] :: rest) (.at pp) rl ('/' :: sel2Render (gs ++ [.br (natStr j), .key k]))
      = findD fuel root [] false false rest (.at (p ++ [Seg.idx j])) rl ('/' :: sel2Render (gs ++ [.br (natStr j)])) := by
  have hq := hn.getAt
  have hn1 : Sel3Norm (gs ++ [.br (natStr j)]) root (p ++ [.idx j]) rec := hn.snoc_idx hj
  have hgood2 : GoodG (gs ++ [.br (natStr j), .key k]) := hn.good.append ⟨sel2_gBr_nat j, hk.gKey, trivial⟩
  have hup : ((splitChar '/' (fixBr ('/' :: sel2Render (gs ++ [.br (natStr j), .key k])))).filter (fun t => !t.isEmpty)).dropLast
      = sel2Toks (gs ++ [.br (natStr j)]) := by
    rw [sel2_upToks _ hgood2, show gs ++ [GSeg.br (natStr j), GSeg.key k] = (gs ++ [.br (natStr j)]) ++ .key k :: [] by simp,
      sel2_toks_append_key]
    simp [sel2Toks]
  have hs := sel3_norm_spellsF _ _ _ _ hn1
  have hlen := sel3_toks_length_le (gs ++ [.br (natStr j)])
  have hgl := hn.length
  obtain ⟨cur, hcur, ⟨_, _, pp', s, pv', ni, hsplit, hcp, hpv', hni, hname⟩, hupf⟩ :=
    sel2_find_spellsF root rl hs (sel3_toks_ne_nil _ (by simp)) fuel [] slash false rfl (by simp at hlen ⊢; omega)
  obtain ⟨rfl, hs'⟩ := List.append_inj' hsplit rfl
  have hs'' : s = .idx j := by simpa using hs'.symm
  subst hs''
  simp only [List.nil_append] at hcp hpv'
  rw [hq] at hpv'; cases hpv'
  rcases hname.inv with ⟨_, _, _, h, _, _⟩ | ⟨cls, xs, n, i, h1, h2, h3, h4⟩
  · cases h
  · cases h1; cases h2; subst h3
    rw [sel2_up_step fuel root entry rl pp pv _ rest _ cur p lc rs i j hpar hup hcur hcp hni hq h4 hrest, hupf]
    rfl

/-! ### one record of a predicate selection, any text of the walk, any continuation -/

/-- **`[text() op v]`, `'..'`, further steps** on the value of `k` of record `j` of the list at `p` -/
theorem sel3_text_up (root : Val) (entry rl : Bool) (gs : List GSeg) (p : Pos) (k op tok : Str) (v : CondVal) (lc : Cls)
    (rs : List Val) (j : Nat) (c : Cls) (kvs' : List (Str × Val)) (kv : Val) (rest : List Str) (out : Option Val) (F : Nat)
    (hn : Sel3Norm gs root p (.list lc rs)) (hk : PlainKey k)
    (hj : rs[j]? = some (.dict c kvs')) (hlk : lookup k kvs' = some kv)
    (hs : splitNameIndex tok = .ok ([], .cond sTextFn op v)) (hop : OpSpell op op) (hg : textGuard kv v = false)
    (hrest : rest ≠ [])
    (hcont : ∀ fu ≥ F, Sel2Out root
      (findD fu root [] false false rest (.at (p ++ [.idx j])) rl ('/' :: sel2Render (gs ++ [.br (natStr j)]))) out)
    (fuel : Nat) (hfuel : fuel ≥ F + 2 * p.length + 4) :
    Sel2Out root
      (findD fuel root [] false entry (tok :: ['.', '.'] :: rest) (.at (p ++ [.idx j] ++ [.key k])) rl
        ('/' :: sel2Render (gs ++ [.br (natStr j), .key k])))
      (if condTest op v kv then out else Option.none) := by
  obtain ⟨g, rfl⟩ : ∃ g, fuel = g + 2 := ⟨fuel - 2, by omega⟩
  have hq := hn.getAt
  have hq1 : getAt root (p ++ [.idx j]) = some (.dict c kvs') := sel2_getAt_snoc_idx hq hj
  have hq2 : getAt root (p ++ [.idx j] ++ [.key k]) = some kv := by
    rw [getAt_snoc, hq1]; simp [child, hlk]
  rw [find_text_step (g + 1) root entry rl _ kv _ tok op v _ hq2 hs hop hg]
  cases hc : condTest op v kv with
  | false =>
    simp only [Bool.false_eq_true, if_false]
    exact sel2Out_notFound root _ _ _ _ _ (by simp)
  | true =>
    simp only [if_true]
    rw [sel3_up_record root false rl _ kv gs p k lc rs j _ rest hn hk hq2 hj hrest g (by omega)]
    exact hcont g (by omega)

/-- record `j` of `P[k op v]/…` (inside the loop: `[j]`, `[k op 'v']`, further steps) -/
theorem sel3_cond_elem (root : Val) (rl : Bool) (gs : List GSeg) (p : Pos) (k op t1 t2 : Str) (v : CondVal) (lc : Cls)
    (rs : List Val) (j : Nat) (c : Cls) (kvs' : List (Str × Val)) (rest : List Str) (out : Option Val) (F : Nat)
    (hn : Sel3Norm gs root p (.list lc rs)) (hk : PlainKey k) (hkt : k ≠ sTextFn)
    (hj : rs[j]? = some (.dict c kvs'))
    (hs1 : splitNameIndex t1 = .ok ([], .cond k op v))
    (ht2 : t2 = bracket (sTextFn ++ op ++ condValStr v))
    (hs2 : splitNameIndex t2 = .ok ([], .cond sTextFn op v)) (hop : OpSpell op op)
    (hg : ∀ kv, lookup k kvs' = some kv → textGuard kv v = false) (hrest : rest ≠ [])
    (hcont : ∀ fu ≥ F, Sel2Out root
      (findD fu root [] false false rest (.at (p ++ [.idx j])) rl ('/' :: sel2Render (gs ++ [.br (natStr j)]))) out)
    (fuel : Nat) (hfuel : fuel ≥ F + 2 * p.length + 6) :
    Sel2Out root
      (findD fuel root [] false false (bracket (natStr j) :: t1 :: rest) (.at p) rl ('/' :: sel2Render gs))
      (sel2Gate k op v (.dict c kvs') out) := by
  obtain ⟨g, rfl⟩ : ∃ g, fuel = g + 2 := ⟨fuel - 2, by omega⟩
  have hq := hn.getAt
  have hlt := sel2_lt_of_getElem? hj
  have hq1 : getAt root (p ++ [.idx j]) = some (.dict c kvs') := sel2_getAt_snoc_idx hq hj
  rw [find_idx_step (g + 1) root false rl p _ _ (natStr j) (j : Int) (t1 :: rest) (by simp) lc rs j hq (natStr_idxTok j)
    (normIdx_nat hlt), sel3_fnd_idx]
  cases hlk : lookup k kvs' with
  | none =>
    rw [find_cond_missing g root false rl _ _ t1 k op v rest c kvs' hq1 hs1 hkt hlk]
    simpa [sel2Gate, hlk] using sel2Out_notFound root _ _ _ _ _ (by simp)
  | some kv =>
    rw [find_cond_step g root false rl _ _ t1 k op v rest c kvs' kv hq1 hs1 hkt hlk, ← ht2, sel3_fnd_idx_key]
    have := sel3_text_up root false rl gs p k op t2 v lc rs j c kvs' kv rest out F hn hk hj hlk hs2 hop (hg kv hlk) hrest hcont
      g (by omega)
    simpa [sel2Gate, hlk] using this

/-- record `j` of `P/k[text() op v]/../…` (inside the loop: `[j]`, `k[text() op v]`, `'..'`, further steps) -/
theorem sel3_textform_elem (root : Val) (rl : Bool) (gs : List GSeg) (p : Pos) (k op t1 t2 : Str) (v : CondVal) (lc : Cls)
    (rs : List Val) (j : Nat) (c : Cls) (kvs' : List (Str × Val)) (rest : List Str) (out : Option Val) (F : Nat)
    (hn : Sel3Norm gs root p (.list lc rs)) (hk : PlainKey k)
    (hj : rs[j]? = some (.dict c kvs'))
    (hs1 : splitNameIndex t1 = .ok (k, .cond sTextFn op v))
    (ht2 : t2 = bracket (sTextFn ++ op ++ ['\''] ++ condValStr v ++ ['\'']))
    (hs2 : splitNameIndex t2 = .ok ([], .cond sTextFn op v)) (hop : OpSpell op op)
    (hg : ∀ kv, lookup k kvs' = some kv → textGuard kv v = false) (hrest : rest ≠ [])
    (hcont : ∀ fu ≥ F, Sel2Out root
      (findD fu root [] false false rest (.at (p ++ [.idx j])) rl ('/' :: sel2Render (gs ++ [.br (natStr j)]))) out)
    (fuel : Nat) (hfuel : fuel ≥ F + 2 * p.length + 6) :
    Sel2Out root
      (findD fuel root [] false false (bracket (natStr j) :: t1 :: ['.', '.'] :: rest) (.at p) rl ('/' :: sel2Render gs))
      (sel2Gate k op v (.dict c kvs') out) := by
  obtain ⟨g, rfl⟩ : ∃ g, fuel = g + 2 := ⟨fuel - 2, by omega⟩
  have hq := hn.getAt
  have hlt := sel2_lt_of_getElem? hj
  have hq1 : getAt root (p ++ [.idx j]) = some (.dict c kvs') := sel2_getAt_snoc_idx hq hj
  rw [find_idx_step (g + 1) root false rl p _ _ (natStr j) (j : Int) (t1 :: ['.', '.'] :: rest) (by simp) lc rs j hq
    (natStr_idxTok j) (normIdx_nat hlt), sel3_fnd_idx]
  cases hlk : lookup k kvs' with
  | none =>
    rw [find_keycond_missing g root false rl _ _ t1 k _ (['.', '.'] :: rest) c kvs' hq1 hs1 hk.ne hk.notUp hk.keyTok.notStar hlk]
    simpa [sel2Gate, hlk] using sel2Out_notFound root _ _ _ _ _ (by simp)
  | some kv =>
    rw [find_keycond_step g root false rl _ _ t1 k sTextFn op v (['.', '.'] :: rest) c kvs' kv hq1 hs1 hk.ne hk.notUp
      hk.keyTok.notStar hlk, ← ht2, sel3_fnd_idx_key]
    have := sel3_text_up root false rl gs p k op t2 v lc rs j c kvs' kv rest out F hn hk hj hlk hs2 hop (hg kv hlk) hrest hcont
      g (by omega)
    simpa [sel2Gate, hlk] using this

/-- **The `[*]` loop of a predicate selection** over the records of the list at `p` (any `found` text) -/
theorem sel3_pred_loop (root : Val) (rl : Bool) (p : Pos) (fnd k op : Str) (v : CondVal) (rs : List Val)
    (per all : List Str) (o : Val → Option Val) (F : Nat) (hall : all ≠ [])
    (hrs : ∀ r ∈ rs, isDict r = true)
    (helem : ∀ (j : Nat) (c : Cls) (kvs' : List (Str × Val)), rs[j]? = some (.dict c kvs') → ∀ fu ≥ F,
      Sel2Out root (findD fu root [] false false (bracket (natStr j) :: per) (.at p) rl fnd)
        (sel2Gate k op v (.dict c kvs') (o (.dict c kvs'))))
    (fuel : Nat) (hfuel : fuel ≥ F + rs.length + 1) :
    ∃ r, starIdx fuel root [] false rs.length 0 per (.at p) rl fnd [] Option.none all = .ok (root, r) ∧
      r.isFound = !(somes (rs.map (fun rec => sel2Gate k op v rec (o rec)))).isEmpty ∧
      (r.isFound = true → r.value = collect rl (somes (rs.map (fun rec => sel2Gate k op v rec (o rec))))) := by
  have := starIdx_loop root [] false per (.at p) rl fnd all hall F
    (rs.map (fun rec => sel2Gate k op v rec (o rec))) 0 rs.length [] Option.none fuel (by simp) ?_ (by simp; omega) (by simp)
  · simpa using this
  · intro j hj fu hfu
    have hj' : j < rs.length := by simpa using hj
    have hd := hrs _ (List.getElem_mem hj')
    cases hrj : rs[j] with
    | dict c kvs' =>
      have hget : rs[j]? = some (.dict c kvs') := by rw [List.getElem?_eq_getElem hj', hrj]
      obtain ⟨r, hr, h1, h2⟩ := helem j c kvs' hget fu hfu
      refine ⟨r, by simpa using hr, ?_, ?_⟩
      · simp [hrj, h1]
      · intro x hx; apply h2; simpa [hrj] using hx
    | _ => rw [hrj] at hd; simp [isDict] at hd

/-! ### a predicate step on the list at the end of a walk, any continuation -/

/-- `[k op v] :: rest` on the list at `p` -/
theorem sel3_cond_list (root : Val) (rl entry : Bool) (gs : List GSeg) (p : Pos) (k op T : Str) (v : CondVal) (lc : Cls)
    (rs : List Val) (rest : List Str) (o : Val → Option Val) (F : Nat)
    (hn : Sel3Norm gs root p (.list lc rs)) (hk : PlainKey k) (hkt : k ≠ sTextFn)
    (hrs : ∀ r ∈ rs, isDict r = true)
    (hs1 : splitNameIndex T = .ok ([], .cond k op v))
    (hs2 : splitNameIndex (bracket (sTextFn ++ op ++ condValStr v)) = .ok ([], .cond sTextFn op v)) (hop : OpSpell op op)
    (hg : ∀ c kvs' kv, Val.dict c kvs' ∈ rs → lookup k kvs' = some kv → textGuard kv v = false) (hrest : rest ≠ [])
    (hcont : ∀ (j : Nat) (c : Cls) (kvs' : List (Str × Val)), rs[j]? = some (.dict c kvs') → ∀ fu ≥ F, Sel2Out root
      (findD fu root [] false false rest (.at (p ++ [.idx j])) rl ('/' :: sel2Render (gs ++ [.br (natStr j)]))) (o (.dict c kvs')))
    (fuel : Nat) (hfuel : fuel ≥ F + 2 * p.length + rs.length + 9) :
    Sel2Coll root rl (findD fuel root [] false entry (T :: rest) (.at p) rl ('/' :: sel2Render gs)) (sel2Sel k op v o rs) := by
  obtain ⟨g, rfl⟩ : ∃ g, fuel = g + 2 := ⟨fuel - 2, by omega⟩
  have hq := hn.getAt
  rw [find_cond_on_list (g + 1) root entry rl p _ T k op v rest lc rs hq hs1 hkt]
  rw [find_star_step g root false rl p _ _ _ lc rs hq split_star]
  apply sel3_pred_loop root rl p _ k op v rs (T :: rest) _ o (F + 2 * p.length + 6) (by simp) hrs _ g (by omega)
  intro j c kvs' hj fu hfu
  exact sel3_cond_elem root rl gs p k op T _ v lc rs j c kvs' rest _ F hn hk hkt hj hs1 rfl hs2 hop
    (fun kv hkv => hg c kvs' kv (List.mem_of_getElem? hj) hkv) hrest (hcont j c kvs' hj) fu hfu

/-- `k[text() op v] :: '..' :: rest` on the list at `p` (the `[*]` is supplied by the engine) -/
theorem sel3_textform_list (root : Val) (rl entry : Bool) (gs : List GSeg) (p : Pos) (k op T : Str) (v : CondVal) (lc : Cls)
    (rs : List Val) (rest : List Str) (o : Val → Option Val) (F : Nat)
    (hn : Sel3Norm gs root p (.list lc rs)) (hk : PlainKey k)
    (hrs : ∀ r ∈ rs, isDict r = true)
    (hs1 : splitNameIndex T = .ok (k, .cond sTextFn op v))
    (hs2 : splitNameIndex (bracket (sTextFn ++ op ++ ['\''] ++ condValStr v ++ ['\''])) = .ok ([], .cond sTextFn op v))
    (hop : OpSpell op op)
    (hg : ∀ c kvs' kv, Val.dict c kvs' ∈ rs → lookup k kvs' = some kv → textGuard kv v = false) (hrest : rest ≠ [])
    (hcont : ∀ (j : Nat) (c : Cls) (kvs' : List (Str × Val)), rs[j]? = some (.dict c kvs') → ∀ fu ≥ F, Sel2Out root
      (findD fu root [] false false rest (.at (p ++ [.idx j])) rl ('/' :: sel2Render (gs ++ [.br (natStr j)]))) (o (.dict c kvs')))
    (fuel : Nat) (hfuel : fuel ≥ F + 2 * p.length + rs.length + 9) :
    Sel2Coll root rl (findD fuel root [] false entry (T :: ['.', '.'] :: rest) (.at p) rl ('/' :: sel2Render gs))
      (sel2Sel k op v o rs) := by
  obtain ⟨g, rfl⟩ : ∃ g, fuel = g + 2 := ⟨fuel - 2, by omega⟩
  have hq := hn.getAt
  rw [find_name_on_list (g + 1) root entry rl p _ T k _ _ lc rs hq hs1 hk.ne hk.notUp]
  rw [find_star_step g root false rl p _ _ _ lc rs hq split_star]
  apply sel3_pred_loop root rl p _ k op v rs (T :: ['.', '.'] :: rest) _ o (F + 2 * p.length + 6) (by simp) hrs _ g (by omega)
  intro j c kvs' hj fu hfu
  exact sel3_textform_elem root rl gs p k op T _ v lc rs j c kvs' rest _ F hn hk hj hs1 rfl hs2 hop
    (fun kv hkv => hg c kvs' kv (List.mem_of_getElem? hj) hkv) hrest (hcont j c kvs' hj) fu hfu

/-- `name[k op v] :: rest` in the dict at `q` whose `name` is a list of records -/
theorem sel3_keycond_list (root : Val) (rl entry : Bool) (gs : List GSeg) (q : Pos) (name k opx op vq v : Str) (cls : Cls)
    (kvs : List (Str × Val)) (lc : Cls) (rs : List Val) (rest : List Str) (o : Val → Option Val) (F : Nat)
    (hn : Sel3Norm gs root q (.dict cls kvs)) (hname : PlainKey name) (hk : FieldKey k) (hop : OpSpell opx op)
    (hlit : LitSpell vq v) (hv : PlainLit v)
    (hl : lookup name kvs = some (.list lc rs))
    (hrs : ∀ r ∈ rs, isDict r = true)
    (hg : ∀ c kvs' kv, Val.dict c kvs' ∈ rs → lookup k kvs' = some kv → textGuard kv (.str v) = false) (hrest : rest ≠ [])
    (hcont : ∀ (j : Nat) (c : Cls) (kvs' : List (Str × Val)), rs[j]? = some (.dict c kvs') → ∀ fu ≥ F, Sel2Out root
      (findD fu root [] false false rest (.at (q ++ [.key name] ++ [.idx j])) rl
        ('/' :: sel2Render (gs ++ [.key name] ++ [.br (natStr j)])))
      (o (.dict c kvs')))
    (fuel : Nat) (hfuel : fuel ≥ F + 2 * q.length + rs.length + 12) :
    Sel2Coll root rl (findD fuel root [] false entry ((name ++ bracket (k ++ opx ++ vq)) :: rest) (.at q) rl ('/' :: sel2Render gs))
      (sel2Sel k op (.str v) o rs) := by
  obtain ⟨g, rfl⟩ : ∃ g, fuel = g + 1 := ⟨fuel - 1, by omega⟩
  have hqv := hn.getAt
  have hopc := opSpell_canon hop
  have hs0 := split_cond name k opx op vq v (Or.inr hname) hk.cond hop hlit hv
  rw [find_keycond_step g root entry rl q _ _ name k op (.str v) rest cls kvs _ hqv hs0 hname.ne hname.notUp
    hname.keyTok.notStar hl, sel3_fnd_key]
  exact sel3_cond_list root rl false (gs ++ [.key name]) (q ++ [.key name]) k op _ (.str v) lc rs rest o F
    (hn.snoc_key hname hl) hk.plain hk.notText hrs
    (sel2_tok_reemit k op v hk hopc hv) (sel2_tok_text_bare op v hopc hv) hopc hg hrest hcont g (by simp; omega)

/-! ### an inner `items` that is one dict record ("hidden list") -/

/-- the `'..'` step when the shortened `found` text resolves to the value of a key: the walk continues in that
value with the text of the resolution -/
theorem sel3_up_step_key (fuel : Nat) (root : Val) (entry rl : Bool) (pp : Pos) (pv : Val) (found : Str) (rest up : List Str)
    (cur : Res) (qq : Pos) (cls : Cls) (kvs : List (Str × Val)) (name : Str) (c : Val)
    (hpar : getAt root pp = some pv)
    (hup : ((splitChar '/' (fixBr found)).filter (fun t => !t.isEmpty)).dropLast = up)
    (hinner : findD fuel root [] false false up (.at []) rl slash = .ok (root, cur))
    (hcp : cur.parent = .at qq) (hni : cur.nameIdx = some name) (hname : KeyTok name)
    (hqq : getAt root qq = some (.dict cls kvs)) (hl : lookup name kvs = some c) (hrest : rest ≠ []) :
    findD (fuel + 1) root [] false entry (['.', '.'] :: rest) (.at pp) rl found
      = findD fuel root [] false false rest (.at (qq ++ [Seg.key name])) rl (upFound cur) := by
  have hr : rest.length ≥ 1 := by cases rest with | nil => exact absurd rfl hrest | cons _ _ => simp
  have hne : name.isEmpty = false := isEmpty_false_of_ne hname.ne
  rw [findD]
  simp only [Bool.false_and, Bool.false_eq_true, if_false, valOf_at, hpar, split_up, List.isEmpty_cons,
    Bool.not_false, Idx.truthy, if_true, hup, hinner, hcp, hni, hqq, hne, hname.split,
    pyGetKey, hl, childRef, hr, Bool.or_true, decide_true]

/-- **`'..'` from the field `k` of the dict under the key `name` of the dict at `q`** -/
theorem sel3_up_field (root : Val) (entry rl : Bool) (pp : Pos) (pv : Val) (gs : List GSeg) (q : Pos) (name k : Str) (cls : Cls)
    (kvs : List (Str × Val)) (inner : Val) (rest : List Str) (hn : Sel3Norm gs root q (.dict cls kvs)) (hname : PlainKey name)
    (hl : lookup name kvs = some inner) (hk : PlainKey k) (hpar : getAt root pp = some pv)
    (hrest : rest ≠ []) (fuel : Nat) (hfuel : fuel ≥ 2 * (q.length + 1)) :
    findD (fuel + 1) root [] false entry (['.', '.'] :: rest) (.at pp) rl ('/' :: sel2Render (gs ++ [.key name, .key k]))
      = findD fuel root [] false false rest (.at (q ++ [Seg.key name])) rl ('/' :: sel2Render (gs ++ [.key name])) := by
  have hq := hn.getAt
  have hn1 : Sel3Norm (gs ++ [.key name]) root (q ++ [.key name]) inner := hn.snoc_key hname hl
  have hgood2 : GoodG (gs ++ [.key name, .key k]) := hn.good.append ⟨hname.gKey, hk.gKey, trivial⟩
  have hup : ((splitChar '/' (fixBr ('/' :: sel2Render (gs ++ [.key name, .key k])))).filter (fun t => !t.isEmpty)).dropLast
      = sel2Toks (gs ++ [.key name]) := by
    rw [sel2_upToks _ hgood2, show gs ++ [GSeg.key name, GSeg.key k] = (gs ++ [.key name]) ++ .key k :: [] by simp,
      sel2_toks_append_key]
    simp [sel2Toks]
  have hs := sel3_norm_spellsF _ _ _ _ hn1
  have hlen := sel3_toks_length_le (gs ++ [.key name])
  have hgl := hn.length
  obtain ⟨cur, hcur, ⟨_, _, pp', s, pv', ni, hsplit, hcp, hpv', hni, hnm⟩, hupf⟩ :=
    sel2_find_spellsF root rl hs (sel3_toks_ne_nil _ (by simp)) fuel [] slash false rfl (by simp at hlen ⊢; omega)
  obtain ⟨rfl, hs'⟩ := List.append_inj' hsplit rfl
  have hs'' : s = .key name := by simpa using hs'.symm
  subst hs''
  simp only [List.nil_append] at hcp hpv'
  rw [hq] at hpv'; cases hpv'
  rcases hnm.inv with ⟨_, _, k', h1, h2, h3⟩ | ⟨_, _, _, _, _, h, _, _⟩
  · have hk' : name = k' := by cases h2; rfl
    subst hk'
    cases h1; rw [h3] at hni
    rw [sel3_up_step_key fuel root entry rl pp pv _ rest _ cur q cls kvs name inner hpar hup hcur hcp hni hname.keyTok hq hl hrest,
      hupf]
    rfl
  · cases h

/-- the steps `items[k2 op v2]`, `f` in an outer record whose `items` is ONE dict record: the predicate is applied to
that record and the value of `f` comes back un-listed -/
theorem sel3_hidden_cont (root : Val) (rl : Bool) (gs : List GSeg) (pos : Pos) (c : Cls) (kvs' : List (Str × Val))
    (items k2 f opx2 op2 vq2 v2 : Str) (c2 : Cls) (kvs2 : List (Str × Val))
    (hn : Sel3Norm gs root pos (.dict c kvs')) (hitems : PlainKey items) (hk2 : FieldKey k2) (hf : PlainKey f)
    (hop2 : OpSpell opx2 op2) (hlit2 : LitSpell vq2 v2) (hv2 : PlainLit v2)
    (hl : lookup items kvs' = some (.dict c2 kvs2))
    (hg : ∀ kv, lookup k2 kvs2 = some kv → textGuard kv (.str v2) = false)
    (fu : Nat) (hfu : fu ≥ 2 * pos.length + 8) :
    Sel2Out root
      (findD fu root [] false false [items ++ bracket (k2 ++ opx2 ++ vq2), f] (.at pos) rl ('/' :: sel2Render gs))
      (condOutcome k2 f op2 (.str v2) (.dict c2 kvs2)) := by
  obtain ⟨g, rfl⟩ : ∃ g, fu = g + 4 := ⟨fu - 4, by omega⟩
  have hq := hn.getAt
  have hopc := opSpell_canon hop2
  have hs0 := split_cond items k2 opx2 op2 vq2 v2 (Or.inr hitems) hk2.cond hop2 hlit2 hv2
  have hq1 : getAt root (pos ++ [.key items]) = some (.dict c2 kvs2) := by rw [getAt_snoc, hq]; simp [child, hl]
  rw [find_keycond_step (g + 3) root false rl pos _ _ items k2 op2 (.str v2) [f] c kvs' _ hq hs0 hitems.ne hitems.notUp
    hitems.keyTok.notStar hl, sel3_fnd_key]
  cases hlk : lookup k2 kvs2 with
  | none =>
    rw [find_cond_missing (g + 2) root false rl _ _ _ k2 op2 (.str v2) [f] c2 kvs2 hq1 (sel2_tok_reemit k2 op2 v2 hk2 hopc hv2)
      hk2.notText hlk]
    simpa [condOutcome, hlk] using sel2Out_notFound root _ _ _ _ _ (by simp)
  | some kv =>
    have hq2 : getAt root (pos ++ [.key items] ++ [.key k2]) = some kv := by rw [getAt_snoc, hq1]; simp [child, hlk]
    rw [find_cond_step (g + 2) root false rl _ _ _ k2 op2 (.str v2) [f] c2 kvs2 kv hq1 (sel2_tok_reemit k2 op2 v2 hk2 hopc hv2)
      hk2.notText hlk, sel3_fnd_key,
      find_text_step (g + 1) root false rl _ kv _ _ op2 (.str v2) _ hq2 (sel2_tok_text_bare op2 v2 hopc hv2) hopc (hg kv hlk)]
    cases hc : condTest op2 (.str v2) kv with
    | false =>
      simp only [Bool.false_eq_true, if_false]
      simpa [condOutcome, hlk, hc] using sel2Out_notFound root _ _ _ _ _ (by simp)
    | true =>
      simp only [if_true]
      rw [show gs ++ [GSeg.key items] ++ [GSeg.key k2] = gs ++ [.key items, .key k2] by simp,
        sel3_up_field root false rl _ kv gs pos items k2 c kvs' _ [f] hn hitems hl hk2.plain hq2 (by simp) g (by omega)]
      have := sel2_field_cont root rl _ c2 kvs2 f ('/' :: sel2Render (gs ++ [.key items])) hq1 hf.keyTok g (by omega)
      simpa [condOutcome, hlk, hc, fieldOf] using this

/-! ### chained selections: the continuation in one outer record -/

/-- what the steps `items[k2 op v2]`, `f` yield in an outer record: the collected inner selection when `items` is a
list (nothing when it is empty), the value of `f` of the record itself when `items` is one dict record that passes -/
def sel3Inner (items k2 f op2 : Str) (v2 : CondVal) (rl : Bool) (rec : Val) : Option Val :=
  match rec with
  | .dict _ kvs' =>
    match lookup items kvs' with
    | some (.list _ xs) =>
      if (somes (xs.map (condOutcome k2 f op2 v2))).isEmpty then Option.none
      else some (collect rl (somes (xs.map (condOutcome k2 f op2 v2))))
    | some (.dict c2 kvs2) => condOutcome k2 f op2 v2 (.dict c2 kvs2)
    | _ => Option.none
  | _ => Option.none

/-- an `items` value the chained theorems cover: a list of dict records, or one dict record -/
def Sel3ItemOK (k2 : Str) (v2 : CondVal) (x : Val) : Prop :=
  (∃ lc xs, x = .list lc xs ∧ (∀ y ∈ xs, isDict y = true) ∧
      ∀ c2 kvs2 kv, Val.dict c2 kvs2 ∈ xs → lookup k2 kvs2 = some kv → textGuard kv v2 = false) ∨
  (∃ c2 kvs2, x = .dict c2 kvs2 ∧ ∀ kv, lookup k2 kvs2 = some kv → textGuard kv v2 = false)

def Sel3InnerOK (items k2 : Str) (v2 : CondVal) (rs : List Val) : Prop :=
  ∀ c kvs' x, Val.dict c kvs' ∈ rs → lookup items kvs' = some x → Sel3ItemOK k2 v2 x

/-- the steps `items[k2 op v2]`, `f` in the outer record at `pos` -/
theorem sel3_inner_cont (root : Val) (rl : Bool) (gs : List GSeg) (pos : Pos) (c : Cls) (kvs' : List (Str × Val))
    (items k2 f opx2 op2 vq2 v2 : Str)
    (M : Nat) (hn : Sel3Norm gs root pos (.dict c kvs')) (hitems : PlainKey items) (hk2 : FieldKey k2) (hf : PlainKey f)
    (hop2 : OpSpell opx2 op2) (hlit2 : LitSpell vq2 v2) (hv2 : PlainLit v2)
    (hok : ∀ x, lookup items kvs' = some x → Sel3ItemOK k2 (.str v2) x)
    (hM : sel2InnerLen items (.dict c kvs') ≤ M)
    (fu : Nat) (hfu : fu ≥ 2 * pos.length + M + 13) :
    Sel2Out root
      (findD fu root [] false false [items ++ bracket (k2 ++ opx2 ++ vq2), f] (.at pos) rl ('/' :: sel2Render gs))
      (sel3Inner items k2 f op2 (.str v2) rl (.dict c kvs')) := by
  have hq := hn.getAt
  cases hl : lookup items kvs' with
  | none =>
    obtain ⟨g, rfl⟩ : ∃ g, fu = g + 1 := ⟨fu - 1, by omega⟩
    rw [find_keycond_missing g root false rl _ _ _ items _ [f] c kvs' hq
      (split_cond items k2 opx2 op2 vq2 v2 (Or.inr hitems) hk2.cond hop2 hlit2 hv2) hitems.ne hitems.notUp hitems.keyTok.notStar hl]
    simpa [sel3Inner, hl] using sel2Out_notFound root _ _ _ _ _ (by simp)
  | some x =>
    rcases hok x hl with ⟨lc, xs, rfl, hds, hg⟩ | ⟨c2, kvs2, rfl, hg⟩
    · have hlen : xs.length ≤ M := by simpa [sel2InnerLen, hl] using hM
      have hn2 := hn.snoc_key hitems hl
      have := (sel3_keycond_list root rl false gs pos items k2 opx2 op2 vq2 v2 c kvs' lc xs [f] (fieldOf f) 1 hn hitems hk2 hop2
        hlit2 hv2 hl hds hg (by simp)
        (fun j c2 kvs2 hj fu' hfu' => sel2_field_cont root rl _ c2 kvs2 f _ (sel2_getAt_snoc_idx hn2.getAt hj) hf.keyTok fu' hfu')
        fu (by omega)).out
      rw [sel2Sel_fieldOf] at this
      simpa [sel3Inner, hl] using this
    · have := sel3_hidden_cont root rl gs pos c kvs' items k2 f opx2 op2 vq2 v2 c2 kvs2 hn hitems hk2 hf hop2 hlit2 hv2 hl hg
        fu (by omega)
      simpa [sel3Inner, hl] using this

/-- the selection of a chained lookup (for `return_lists` = `rl`) -/
def sel3Chained (k1 op1 : Str) (v1 : CondVal) (items k2 f op2 : Str) (v2 : CondVal) (rl : Bool) (rs : List Val) : List Val :=
  sel2Sel k1 op1 v1 (sel3Inner items k2 f op2 v2 rl) rs

/-! ### the selecting forms behind spelled tokens, tree level -/

/-- `toksP ++ [k op v] :: rest`: `toksP` spell the position of the record list -/
theorem sel3_cond_find (root : Val) (rl : Bool) {toksP : List Str} {p : Pos} {lc : Cls} {rs : List Val} (k opx op vq v : Str)
    (rest : List Str) (o : Val → Option Val) (F : Nat)
    (hs : Sel3Spells toksP root p (.list lc rs)) (hk : FieldKey k) (hop : OpSpell opx op) (hlit : LitSpell vq v) (hv : PlainLit v)
    (hrs : ∀ r ∈ rs, isDict r = true)
    (hg : ∀ c kvs' kv, Val.dict c kvs' ∈ rs → lookup k kvs' = some kv → textGuard kv (.str v) = false) (hrest : rest ≠ [])
    (hcont : ∀ gs, Sel3Norm gs root p (.list lc rs) → ∀ (j : Nat) (c : Cls) (kvs' : List (Str × Val)),
      rs[j]? = some (.dict c kvs') → ∀ fu ≥ F, Sel2Out root
        (findD fu root [] false false rest (.at (p ++ [.idx j])) rl ('/' :: sel2Render (gs ++ [.br (natStr j)]))) (o (.dict c kvs')))
    (fuel : Nat) (hfuel : fuel ≥ F + 6 * toksP.length + rs.length + 9) :
    Sel2Coll root rl (findD fuel root [] false true (toksP ++ bracket (k ++ opx ++ vq) :: rest) (.at []) rl slash)
      (sel2Sel k op (.str v) o rs) := by
  obtain ⟨gs, hsf, hn⟩ := sel3_spells_norm hs
  have hpl := hs.pos_length
  obtain ⟨fuel', e', h1, h2, heq⟩ := find_walk root rl hsf (bracket (k ++ opx ++ vq) :: rest) (by simp) fuel [] slash true rfl
    (by omega)
  have hopc := opSpell_canon hop
  have hs1 : splitNameIndex (bracket (k ++ opx ++ vq)) = .ok ([], .cond k op (.str v)) := by
    simpa using split_cond [] k opx op vq v (Or.inl rfl) hk.cond hop hlit hv
  rw [heq]
  simp only [List.nil_append]
  exact sel3_cond_list root rl e' gs p k op _ (.str v) lc rs rest o F hn hk.plain hk.notText hrs hs1
    (sel2_tok_text_bare op v hopc hv) hopc hg hrest (hcont gs hn) fuel' (by omega)

/-- `toks' ++ name[k op v] :: rest`: `toks'` spell the position of the dict whose `name` is the record list -/
theorem sel3_keycond_find (root : Val) (rl : Bool) {toks' : List Str} {q : Pos} {cls : Cls} {kvs : List (Str × Val)}
    (name k opx op vq v : Str) (lc : Cls) (rs : List Val) (rest : List Str) (o : Val → Option Val) (F : Nat)
    (hs : Sel3Spells toks' root q (.dict cls kvs)) (hname : PlainKey name) (hl : lookup name kvs = some (.list lc rs))
    (hk : FieldKey k) (hop : OpSpell opx op) (hlit : LitSpell vq v) (hv : PlainLit v)
    (hrs : ∀ r ∈ rs, isDict r = true)
    (hg : ∀ c kvs' kv, Val.dict c kvs' ∈ rs → lookup k kvs' = some kv → textGuard kv (.str v) = false) (hrest : rest ≠ [])
    (hcont : ∀ gs, Sel3Norm gs root (q ++ [.key name]) (.list lc rs) → ∀ (j : Nat) (c : Cls) (kvs' : List (Str × Val)),
      rs[j]? = some (.dict c kvs') → ∀ fu ≥ F, Sel2Out root
        (findD fu root [] false false rest (.at (q ++ [.key name] ++ [.idx j])) rl ('/' :: sel2Render (gs ++ [.br (natStr j)])))
        (o (.dict c kvs')))
    (fuel : Nat) (hfuel : fuel ≥ F + 6 * toks'.length + rs.length + 12) :
    Sel2Coll root rl (findD fuel root [] false true (toks' ++ (name ++ bracket (k ++ opx ++ vq)) :: rest) (.at []) rl slash)
      (sel2Sel k op (.str v) o rs) := by
  obtain ⟨gs, hsf, hn⟩ := sel3_spells_norm hs
  have hpl := hs.pos_length
  obtain ⟨fuel', e', h1, h2, heq⟩ := find_walk root rl hsf ((name ++ bracket (k ++ opx ++ vq)) :: rest) (by simp) fuel [] slash true
    rfl (by omega)
  rw [heq]
  simp only [List.nil_append]
  exact sel3_keycond_list root rl e' gs q name k opx op vq v cls kvs lc rs rest o F hn hname hk hop hlit hv hl hrs hg hrest
    (hcont (gs ++ [.key name]) (hn.snoc_key hname hl)) fuel' (by omega)

/-- `toksP ++ k[text() op v] :: '..' :: rest` -/
theorem sel3_textform_find (root : Val) (rl : Bool) {toksP : List Str} {p : Pos} {lc : Cls} {rs : List Val} (k opx op vq v : Str)
    (rest : List Str) (o : Val → Option Val) (F : Nat)
    (hs : Sel3Spells toksP root p (.list lc rs)) (hk : FieldKey k) (hop : OpSpell opx op) (hlit : LitSpell vq v) (hv : PlainLit v)
    (hrs : ∀ r ∈ rs, isDict r = true)
    (hg : ∀ c kvs' kv, Val.dict c kvs' ∈ rs → lookup k kvs' = some kv → textGuard kv (.str v) = false) (hrest : rest ≠ [])
    (hcont : ∀ gs, Sel3Norm gs root p (.list lc rs) → ∀ (j : Nat) (c : Cls) (kvs' : List (Str × Val)),
      rs[j]? = some (.dict c kvs') → ∀ fu ≥ F, Sel2Out root
        (findD fu root [] false false rest (.at (p ++ [.idx j])) rl ('/' :: sel2Render (gs ++ [.br (natStr j)]))) (o (.dict c kvs')))
    (fuel : Nat) (hfuel : fuel ≥ F + 6 * toksP.length + rs.length + 9) :
    Sel2Coll root rl
      (findD fuel root [] false true (toksP ++ (k ++ bracket (sTextFn ++ opx ++ vq)) :: ['.', '.'] :: rest) (.at []) rl slash)
      (sel2Sel k op (.str v) o rs) := by
  obtain ⟨gs, hsf, hn⟩ := sel3_spells_norm hs
  have hpl := hs.pos_length
  obtain ⟨fuel', e', h1, h2, heq⟩ := find_walk root rl hsf ((k ++ bracket (sTextFn ++ opx ++ vq)) :: ['.', '.'] :: rest) (by simp)
    fuel [] slash true rfl (by omega)
  have hopc := opSpell_canon hop
  rw [heq]
  simp only [List.nil_append]
  exact sel3_textform_list root rl e' gs p k op _ (.str v) lc rs rest o F hn hk.plain hrs
    (split_cond k sTextFn opx op vq v (Or.inr hk.plain) condKey_text hop hlit hv) (sel2_tok_text_quoted op v hopc hv) hopc hg
    hrest (hcont gs hn) fuel' (by omega)

/-! ### token level: the predicate and chained forms behind any spelled path -/

/-- **Predicate forms, token level.**  `toksP` spell the position of the record list (plain key names, index steps in
any spelling).  `toksP ++ [[k op v], f]`, `toksP ++ [k[text() op v], '..', f]` and — when the last token of `toksP` is
a key `name` — the merged `… name[k op v], f` select `f` of exactly the records whose `k` passes. -/
theorem sel3_pred_spelled (t : Val) (rl : Bool) {toksP : List Str} {p : Pos} {lc : Cls} {rs : List Val} (k f opx op vq v : Str)
    (hs : Sel3Spells toksP t p (.list lc rs)) (hk : FieldKey k) (hf : PlainKey f) (hop : OpSpell opx op) (hlit : LitSpell vq v)
    (hv : PlainLit v) (hrs : ∀ r ∈ rs, isDict r = true)
    (hg : ∀ c kvs' kv, Val.dict c kvs' ∈ rs → lookup k kvs' = some kv → textGuard kv (.str v) = false)
    (fuel : Nat) (hfuel : fuel ≥ 6 * toksP.length + rs.length + 14) :
    (∀ tail ∈ [[bracket (k ++ opx ++ vq), f], [k ++ bracket (sTextFn ++ opx ++ vq), ['.', '.'], f]],
      Sel2Coll t rl (findD fuel t [] false true (toksP ++ tail) (.at []) rl slash) (somes (rs.map (condOutcome k f op (.str v))))) ∧
    (∀ toks' name, toksP = toks' ++ [name] → PlainKey name →
      Sel2Coll t rl (findD fuel t [] false true (toks' ++ [name ++ bracket (k ++ opx ++ vq), f]) (.at []) rl slash)
        (somes (rs.map (condOutcome k f op (.str v))))) := by
  have hget := hs.spells.getAt
  refine ⟨?_, ?_⟩
  · intro tail htail
    simp only [List.mem_cons, List.not_mem_nil, or_false] at htail
    rcases htail with rfl | rfl
    · rw [← sel2Sel_fieldOf]
      exact sel3_cond_find t rl k opx op vq v [f] (fieldOf f) 1 hs hk hop hlit hv hrs hg (by simp)
        (fun gs _ j c kvs' hj fu hfu => sel2_field_cont t rl _ c kvs' f _ (sel2_getAt_snoc_idx hget hj) hf.keyTok fu hfu)
        fuel (by omega)
    · rw [← sel2Sel_fieldOf]
      exact sel3_textform_find t rl k opx op vq v [f] (fieldOf f) 1 hs hk hop hlit hv hrs hg (by simp)
        (fun gs _ j c kvs' hj fu hfu => sel2_field_cont t rl _ c kvs' f _ (sel2_getAt_snoc_idx hget hj) hf.keyTok fu hfu)
        fuel (by omega)
  · intro toks' name htoks hname
    subst htoks
    obtain ⟨p', cls, kvs, rfl, hs', hl⟩ := sel3_spells_snoc_key_inv name hname toks' _ _ _ hs
    rw [← sel2Sel_fieldOf]
    exact sel3_keycond_find t rl name k opx op vq v lc rs [f] (fieldOf f) 1 hs' hname hl hk hop hlit hv hrs hg (by simp)
      (fun gs _ j c kvs' hj fu hfu => sel2_field_cont t rl _ c kvs' f _ (sel2_getAt_snoc_idx hget hj) hf.keyTok fu hfu)
      fuel (by simp at hfuel; omega)

/-- **Chained selection, token level**, for both values of `return_lists`; `items` of an outer record is a list of dict
records or one dict record (`Sel3InnerOK`). -/
theorem sel3_chained_spelled (t : Val) (rl : Bool) {toksP : List Str} {p : Pos} {lc : Cls} {rs : List Val}
    (k1 opx1 op1 vq1 v1 items k2 opx2 op2 vq2 v2 f : Str)
    (hs : Sel3Spells toksP t p (.list lc rs)) (hk1 : FieldKey k1) (hop1 : OpSpell opx1 op1) (hlit1 : LitSpell vq1 v1)
    (hv1 : PlainLit v1) (hitems : PlainKey items) (hk2 : FieldKey k2) (hop2 : OpSpell opx2 op2) (hlit2 : LitSpell vq2 v2)
    (hv2 : PlainLit v2) (hf : PlainKey f) (hrs : ∀ r ∈ rs, isDict r = true)
    (hg : ∀ c kvs' kv, Val.dict c kvs' ∈ rs → lookup k1 kvs' = some kv → textGuard kv (.str v1) = false)
    (hin : Sel3InnerOK items k2 (.str v2) rs)
    (fuel : Nat) (hfuel : fuel ≥ 10 * toksP.length + rs.length + (rs.map (sel2InnerLen items)).sum + 30) :
    Sel2Coll t rl
      (findD fuel t [] false true (toksP ++ [bracket (k1 ++ opx1 ++ vq1), items ++ bracket (k2 ++ opx2 ++ vq2), f]) (.at []) rl slash)
      (sel3Chained k1 op1 (.str v1) items k2 f op2 (.str v2) rl rs) ∧
    (∀ toks' name, toksP = toks' ++ [name] → PlainKey name →
      Sel2Coll t rl
        (findD fuel t [] false true (toks' ++ [name ++ bracket (k1 ++ opx1 ++ vq1), items ++ bracket (k2 ++ opx2 ++ vq2), f])
          (.at []) rl slash)
        (sel3Chained k1 op1 (.str v1) items k2 f op2 (.str v2) rl rs)) := by
  have hpl := hs.pos_length
  have hcont : ∀ gs, Sel3Norm gs t p (.list lc rs) → ∀ (j : Nat) (c : Cls) (kvs' : List (Str × Val)),
      rs[j]? = some (.dict c kvs') → ∀ fu ≥ 4 * toksP.length + (rs.map (sel2InnerLen items)).sum + 15, Sel2Out t
        (findD fu t [] false false [items ++ bracket (k2 ++ opx2 ++ vq2), f] (.at (p ++ [.idx j])) rl
          ('/' :: sel2Render (gs ++ [.br (natStr j)])))
        (sel3Inner items k2 f op2 (.str v2) rl (.dict c kvs')) := by
    intro gs hn j c kvs' hj fu hfu
    exact sel3_inner_cont t rl _ _ c kvs' items k2 f opx2 op2 vq2 v2 _ (hn.snoc_idx hj) hitems hk2 hf hop2 hlit2 hv2
      (fun x hx => hin c kvs' x (List.mem_of_getElem? hj) hx) (sel2_le_sum (sel2InnerLen items) rs j _ hj) fu
      (by simp at hfu ⊢; omega)
  refine ⟨?_, ?_⟩
  · exact sel3_cond_find t rl k1 opx1 op1 vq1 v1 _ _ _ hs hk1 hop1 hlit1 hv1 hrs hg (by simp) hcont fuel (by omega)
  · intro toks' name htoks hname
    subst htoks
    obtain ⟨p', cls, kvs, rfl, hs', hl⟩ := sel3_spells_snoc_key_inv name hname toks' _ _ _ hs
    exact sel3_keycond_find t rl name k1 opx1 op1 vq1 v1 lc rs _ _ _ hs' hname hl hk1 hop1 hlit1 hv1 hrs hg (by simp) hcont fuel
      (by simp at hfuel ⊢; omega)

/-! ### tokenisation of `spelling ++ selecting tail` -/

theorem sel3_tokenize_lead (lead : Lead) (s : Str) : tokenize (leadStr lead ++ s) = tokenize s := by
  cases lead <;> simp [leadStr, tokenize_slash]

theorem sel3_dropSlash_append (s Y : Str) (hs : s ≠ []) : dropSlash s ++ Y = dropSlash (s ++ Y) := by
  cases s with
  | nil => exact absurd rfl hs
  | cons c s' => by_cases h : c = '/' <;> simp [dropSlash, h]

theorem sel3_renderSteps_ne_nil (steps : List StepSp) (hne : steps ≠ []) : renderSteps steps ≠ [] := by
  cases steps with
  | nil => exact absurd rfl hne
  | cons s r =>
    obtain ⟨ch, rs, hrs, _⟩ := renderStep_head s
    rw [renderSteps_cons, hrs]; simp

/-- the prefix (none, `/`, `//`) of a spelling does not matter, whatever follows -/
theorem sel3_tokenize_sp (lead : Lead) (steps : List StepSp) (Y : Str) (hne : steps ≠ []) :
    tokenize (renderSp lead steps ++ Y) = tokenize (renderSteps steps ++ Y) := by
  unfold renderSp
  rw [List.append_assoc, sel3_tokenize_lead, sel3_dropSlash_append _ _ (sel3_renderSteps_ne_nil steps hne), tokenize_dropSlash]

theorem sel3_tokenize_rb_lb (X Y : Str) : tokenize (X ++ ']' :: '[' :: Y) = tokenize (X ++ [']']) ++ tokenize ('[' :: Y) := by
  unfold tokenize
  rw [fixBr_append_rb_lb, splitChar_append_sep, List.filter_append, List.map_append, fixBr_cons_ne '[' _ (by decide)]

theorem sel3_tokenize_render_key (k : Str) (gs : List GSeg) (hg : GoodG (.key k :: gs)) :
    tokenize (k ++ sel2Render gs) = sel2Toks (.key k :: gs) := by
  rw [← sel2_tokenize _ hg, show sel2Render (.key k :: gs) = '/' :: (k ++ sel2Render gs) by simp [sel2Render, sel2RenderSeg],
    tokenize_slash, tokenize_slash]

theorem sel3_tokenize_render_br (c : Str) (gs : List GSeg) (hg : GoodG (.br c :: gs)) :
    tokenize ('[' :: (c ++ ']' :: sel2Render gs)) = sel2Toks (.br c :: gs) := by
  rw [← sel2_tokenize _ hg, show sel2Render (.br c :: gs) = '[' :: (c ++ ']' :: sel2Render gs) by simp [sel2Render, sel2RenderSeg, bracket],
    tokenize_slash]

theorem sel3_renderSteps_snoc (steps : List StepSp) (s : StepSp) : renderSteps (steps ++ [s]) = renderSteps steps ++ renderStep s := by
  simp [renderSteps]

theorem sel3_plainSteps_append {a b : List StepSp} (h : PlainSteps (a ++ b)) : PlainSteps a ∧ PlainSteps b := by
  induction a with
  | nil => exact ⟨trivial, h⟩
  | cons s r ih =>
    cases s with
    | key k => exact ⟨⟨h.1, (ih h.2).1⟩, (ih h.2).2⟩
    | idx e sep => exact ⟨(ih h).1, (ih h).2⟩

/-- a key step always starts a token of its own -/
theorem sel3_toksOf_snoc_key (steps : List StepSp) (k : Str) : toksOf (steps ++ [.key k]) = toksOf steps ++ [k] := by
  induction steps using toksOf.induct with
  | case1 => simp [toksOf]
  | case2 k' e r ih => simp [toksOf, ih]
  | case3 k' r hne ih =>
    cases r with
    | nil => simp [toksOf]
    | cons s r' =>
      rw [List.cons_append, toksOf_key_cons k' _ (by
        intro e r'' h
        cases s with
        | key k2 => simp at h
        | idx e2 sep2 =>
          simp only [List.cons_append, List.cons.injEq, StepSp.idx.injEq] at h
          exact hne e r' (by rw [h.1.1, h.1.2])), ih, toksOf_key_cons k' _ hne]
      simp
  | case4 e sep r ih => simp [toksOf, ih]

/-- spelling followed by a tail that starts with a key piece (`P/k[text()…]/../f`) -/
theorem sel3_tokenize_sp_key (lead : Lead) (steps : List StepSp) (k : Str) (gs : List GSeg) (hp : PlainSteps steps)
    (hne : steps ≠ []) (hg : GoodG (.key k :: gs)) :
    tokenize (renderSp lead steps ++ sel2Render (.key k :: gs)) = toksOf steps ++ sel2Toks (.key k :: gs) := by
  rw [sel3_tokenize_sp _ _ _ hne, show sel2Render (.key k :: gs) = '/' :: (k ++ sel2Render gs) by simp [sel2Render, sel2RenderSeg],
    tokenize_append_slash, tokenize_steps steps hp, sel3_tokenize_render_key k gs hg]

/-- spelling that ends in a key, followed by a bracket piece: `… name[c]` is one token -/
theorem sel3_tokenize_sp_key_br (lead : Lead) (steps' : List StepSp) (name c : Str) (gs : List GSeg)
    (hp : PlainSteps (steps' ++ [.key name])) (hg : GoodG (.br c :: gs)) :
    tokenize (renderSp lead (steps' ++ [.key name]) ++ sel2Render (.br c :: gs))
      = toksOf steps' ++ (name ++ bracket c) :: sel2Toks gs := by
  obtain ⟨hp', hpn⟩ := sel3_plainSteps_append hp
  have hname : PlainKey name := hpn.1
  rw [sel3_tokenize_sp _ _ _ (by simp), sel3_renderSteps_snoc,
    show renderSteps steps' ++ renderStep (.key name) ++ sel2Render (.br c :: gs)
      = renderSteps steps' ++ '/' :: (name ++ sel2Render (.br c :: gs)) by simp [renderStep],
    tokenize_append_slash, tokenize_steps steps' hp', sel3_tokenize_render_key name _ ⟨hname.gKey, hg⟩]
  simp [sel2Toks]

/-- spelling that ends in an index, followed by a bracket piece: `[c]` is a token of its own -/
theorem sel3_tokenize_sp_idx_br (lead : Lead) (steps' : List StepSp) (e : IdxSp) (sep : Bool) (c : Str) (gs : List GSeg)
    (hp : PlainSteps (steps' ++ [.idx e sep])) (hg : GoodG (.br c :: gs)) :
    tokenize (renderSp lead (steps' ++ [.idx e sep]) ++ sel2Render (.br c :: gs))
      = toksOf (steps' ++ [.idx e sep]) ++ bracket c :: sel2Toks gs := by
  have hform : ∃ A0, renderStep (.idx e sep) = A0 ++ [']'] := by
    cases sep
    · exact ⟨'[' :: e.text, by simp [renderStep, bracket]⟩
    · exact ⟨'/' :: '[' :: e.text, by simp [renderStep, bracket]⟩
  obtain ⟨A0, hA0⟩ := hform
  have hsteps : renderSteps (steps' ++ [.idx e sep]) = (renderSteps steps' ++ A0) ++ [']'] := by
    rw [sel3_renderSteps_snoc, hA0, List.append_assoc]
  rw [sel3_tokenize_sp _ _ _ (by simp), hsteps,
    show sel2Render (.br c :: gs) = '[' :: (c ++ ']' :: sel2Render gs) by simp [sel2Render, sel2RenderSeg, bracket],
    show (renderSteps steps' ++ A0) ++ [']'] ++ '[' :: (c ++ ']' :: sel2Render gs)
      = (renderSteps steps' ++ A0) ++ ']' :: '[' :: (c ++ ']' :: sel2Render gs) by simp,
    sel3_tokenize_rb_lb, ← hsteps, tokenize_steps _ hp, sel3_tokenize_render_br c gs hg]
  simp [sel2Toks]

/-- a spelling followed by a bracket piece: the bracket joins the last token when that is a key, and is a token
of its own after an index -/
theorem sel3_tokenize_sp_br (lead : Lead) (steps : List StepSp) (c : Str) (gs : List GSeg) (hp : PlainSteps steps)
    (hne : steps ≠ []) (hg : GoodG (.br c :: gs)) :
    tokenize (renderSp lead steps ++ sel2Render (.br c :: gs)) = toksOf steps ++ bracket c :: sel2Toks gs ∨
    ∃ toks' name, toksOf steps = toks' ++ [name] ∧ PlainKey name ∧
      tokenize (renderSp lead steps ++ sel2Render (.br c :: gs)) = toks' ++ (name ++ bracket c) :: sel2Toks gs := by
  obtain ⟨steps', s, rfl⟩ : ∃ steps' s, steps = steps' ++ [s] :=
    ⟨steps.dropLast, steps.getLast hne, (List.dropLast_concat_getLast hne).symm⟩
  cases s with
  | key name =>
    right
    exact ⟨toksOf steps', name, sel3_toksOf_snoc_key steps' name, (sel3_plainSteps_append hp).2.1,
      sel3_tokenize_sp_key_br lead steps' name c gs hp hg⟩
  | idx e sep =>
    left
    exact sel3_tokenize_sp_idx_br lead steps' e sep c gs hp hg

/-! ### API level -/

/-- `first` from a `return_lists = False` selection -/
theorem sel3_api_first (cls : Cls) (kvs : List (Str × Val)) (xp : Str) (toks : List Str) (vals : List Val) (d : Val) (fuel : Nat)
    (hq : startsWith xp ['?'] = false) (hpc : hasPathChar xp = true) (htok : tokenize xp = toks)
    (hfind : Sel2Coll (.dict cls kvs) false (findD fuel (.dict cls kvs) [] false true toks (.at []) false slash) vals) :
    first fuel (.dict cls kvs) xp d = (.dict cls kvs, .ok (firstOf vals d)) := by
  obtain ⟨r0, hr0, hf0, hv0⟩ := hfind
  exact first_of_collect vals
    (fun d' => getCore_of_find cls kvs xp toks d' false false fuel r0 hq hpc htok hr0) hf0 hv0 d

theorem sel3_sp_noQ (cls : Cls) (kvs : List (Str × Val)) (lead : Lead) (steps : List StepSp) (c : Val) (Y : Str)
    (hp : PlainSteps steps) (hne : steps ≠ []) (hget : stepsGet (.dict cls kvs) steps = some c) :
    startsWith (renderSp lead steps ++ Y) ['?'] = false := by
  cases steps with
  | nil => exact absurd rfl hne
  | cons s r =>
    cases s with
    | idx e sep => simp [stepsGet] at hget
    | key k =>
      obtain ⟨hk, _⟩ := hp
      have hbody : dropSlash (renderSteps (.key k :: r)) = k ++ renderSteps r := by
        simp [renderSteps_cons, renderStep, dropSlash]
      obtain ⟨x, k', rfl⟩ : ∃ x k', k = x :: k' := by
        cases k with
        | nil => exact absurd rfl hk.ne
        | cons x k' => exact ⟨x, k', rfl⟩
      have hxq : x ≠ '?' := plainChar_ne_q (hk.chars x (by simp))
      unfold renderSp; rw [hbody]
      cases lead <;> simp [leadStr, startsWith, hxq]

theorem sel3_sp_pathChar (lead : Lead) (steps : List StepSp) (Y : Str) (ch : Char) (hm : ch ∈ Y) (h : ch = '/' ∨ ch = '[') :
    hasPathChar (renderSp lead steps ++ Y) = true :=
  hasPathChar_of_mem (ch := ch) (by simp [hm]) h

/-- **The predicate forms behind any spelling of the path to the record list**, string level -/
theorem sel3_pred_string (cls : Cls) (kvs : List (Str × Val)) (lead : Lead) (steps : List StepSp) (k f opx op vq v : Str) (lc : Cls)
    (rs : List Val) (d : Val) (hp : PlainSteps steps) (hne : steps ≠ [])
    (hget : stepsGet (.dict cls kvs) steps = some (.list lc rs)) (hk : FieldKey k) (hf : PlainKey f) (hop : OpSpell opx op)
    (hlit : LitSpell vq v) (hv : PlainLit v) (hrs : ∀ r ∈ rs, isDict r = true)
    (hg : ∀ c kvs' kv, Val.dict c kvs' ∈ rs → lookup k kvs' = some kv → textGuard kv (.str v) = false)
    (fuel : Nat) (hfuel : fuel ≥ 6 * steps.length + rs.length + 14) :
    ∀ xp ∈ [renderSp lead steps ++ bracket (k ++ opx ++ vq) ++ slash ++ f,
            renderSp lead steps ++ slash ++ k ++ bracket (sTextFn ++ opx ++ vq) ++ slash ++ ['.', '.'] ++ slash ++ f],
      get fuel (.dict cls kvs) xp d
        = (.dict cls kvs, .ok (if (somes (rs.map (condOutcome k f op (.str v)))).isEmpty then d
                               else .list .n0 (somes (rs.map (condOutcome k f op (.str v)))))) ∧
      getItem fuel (.dict cls kvs) xp
        = (.dict cls kvs, if (somes (rs.map (condOutcome k f op (.str v)))).isEmpty then .error .IndexError
                          else .ok (.list .n0 (somes (rs.map (condOutcome k f op (.str v)))))) ∧
      first fuel (.dict cls kvs) xp d = (.dict cls kvs, .ok (firstOf (somes (rs.map (condOutcome k f op (.str v)))) d)) := by
  have hs := sel3_spells_steps steps _ _ hp hget
  have hlen := toksOf_length_le steps
  have hsp := fun rl => sel3_pred_spelled (.dict cls kvs) rl k f opx op vq v hs hk hf hop hlit hv hrs hg fuel (by omega)
  intro xp hxp
  simp only [List.mem_cons, List.not_mem_nil, or_false] at hxp
  rcases hxp with rfl | rfl
  · have hxp : renderSp lead steps ++ bracket (k ++ opx ++ vq) ++ slash ++ f
        = renderSp lead steps ++ sel2Render [.br (k ++ opx ++ vq), .key f] := by
      simp [sel2Render, sel2RenderSeg, slash]
    have hgood : GoodG [.br (k ++ opx ++ vq), .key f] := ⟨sel2_gBr_cond k opx op vq v hk.cond hop hlit hv, hf.gKey, trivial⟩
    rw [hxp]
    have hq := sel3_sp_noQ cls kvs lead steps _ (sel2Render [.br (k ++ opx ++ vq), .key f]) hp hne hget
    have hpc := sel3_sp_pathChar lead steps (sel2Render [.br (k ++ opx ++ vq), .key f]) '[' (by simp [sel2Render, sel2RenderSeg, bracket])
      (Or.inr rfl)
    rcases sel3_tokenize_sp_br lead steps _ _ hp hne hgood with htok | ⟨toks', name, ht, hname, htok⟩
    · apply select_api cls kvs _ _ _ d fuel hq hpc htok
      intro rl
      exact (hsp rl).1 _ (by simp [sel2Toks])
    · apply select_api cls kvs _ _ _ d fuel hq hpc htok
      intro rl
      exact (hsp rl).2 toks' name ht hname
  · have hxp : renderSp lead steps ++ slash ++ k ++ bracket (sTextFn ++ opx ++ vq) ++ slash ++ ['.', '.'] ++ slash ++ f
        = renderSp lead steps ++ sel2Render [.key k, .br (sTextFn ++ opx ++ vq), .key ['.', '.'], .key f] := by
      simp [sel2Render, sel2RenderSeg, slash]
    have hgood : GoodG [.key k, .br (sTextFn ++ opx ++ vq), .key ['.', '.'], .key f] :=
      ⟨hk.plain.gKey, sel2_gBr_cond sTextFn opx op vq v condKey_text hop hlit hv, sel2_gKey_up, hf.gKey, trivial⟩
    rw [hxp]
    have hq := sel3_sp_noQ cls kvs lead steps _ (sel2Render [.key k, .br (sTextFn ++ opx ++ vq), .key ['.', '.'], .key f]) hp hne hget
    have hpc := sel3_sp_pathChar lead steps (sel2Render [.key k, .br (sTextFn ++ opx ++ vq), .key ['.', '.'], .key f]) '/'
      (by simp [sel2Render, sel2RenderSeg]) (Or.inl rfl)
    apply select_api cls kvs _ _ _ d fuel hq hpc (sel3_tokenize_sp_key lead steps _ _ hp hne hgood)
    intro rl
    exact (hsp rl).1 _ (by simp [sel2Toks])

/-- **Chained selection behind any spelling**, string level: `get` / item access return the `return_lists = True`
selection, `first` the unwrapped `return_lists = False` one -/
theorem sel3_chained_string (cls : Cls) (kvs : List (Str × Val)) (lead : Lead) (steps : List StepSp)
    (k1 opx1 op1 vq1 v1 items k2 opx2 op2 vq2 v2 f : Str) (lc : Cls) (rs : List Val) (d : Val)
    (hp : PlainSteps steps) (hne : steps ≠ []) (hget : stepsGet (.dict cls kvs) steps = some (.list lc rs))
    (hk1 : FieldKey k1) (hop1 : OpSpell opx1 op1) (hlit1 : LitSpell vq1 v1)
    (hv1 : PlainLit v1) (hitems : PlainKey items) (hk2 : FieldKey k2) (hop2 : OpSpell opx2 op2) (hlit2 : LitSpell vq2 v2)
    (hv2 : PlainLit v2) (hf : PlainKey f) (hrs : ∀ r ∈ rs, isDict r = true)
    (hg : ∀ c kvs' kv, Val.dict c kvs' ∈ rs → lookup k1 kvs' = some kv → textGuard kv (.str v1) = false)
    (hin : Sel3InnerOK items k2 (.str v2) rs)
    (fuel : Nat) (hfuel : fuel ≥ 10 * steps.length + rs.length + (rs.map (sel2InnerLen items)).sum + 30) :
    let xp := renderSp lead steps ++ bracket (k1 ++ opx1 ++ vq1) ++ slash ++ items ++ bracket (k2 ++ opx2 ++ vq2) ++ slash ++ f
    let valsT := sel3Chained k1 op1 (.str v1) items k2 f op2 (.str v2) true rs
    let valsF := sel3Chained k1 op1 (.str v1) items k2 f op2 (.str v2) false rs
    get fuel (.dict cls kvs) xp d = (.dict cls kvs, .ok (if valsT.isEmpty then d else .list .n0 valsT)) ∧
    getItem fuel (.dict cls kvs) xp = (.dict cls kvs, if valsT.isEmpty then .error .IndexError else .ok (.list .n0 valsT)) ∧
    first fuel (.dict cls kvs) xp d = (.dict cls kvs, .ok (firstOf valsF d)) := by
  intro xp valsT valsF
  have hs := sel3_spells_steps steps _ _ hp hget
  have hlen := toksOf_length_le steps
  have hsp := fun rl => sel3_chained_spelled (.dict cls kvs) rl k1 opx1 op1 vq1 v1 items k2 opx2 op2 vq2 v2 f hs hk1 hop1 hlit1 hv1
    hitems hk2 hop2 hlit2 hv2 hf hrs hg hin fuel (by omega)
  have hxp : xp = renderSp lead steps ++ sel2Render [.br (k1 ++ opx1 ++ vq1), .key items, .br (k2 ++ opx2 ++ vq2), .key f] := by
    simp [xp, sel2Render, sel2RenderSeg, slash]
  have hgood : GoodG [.br (k1 ++ opx1 ++ vq1), .key items, .br (k2 ++ opx2 ++ vq2), .key f] :=
    ⟨sel2_gBr_cond k1 opx1 op1 vq1 v1 hk1.cond hop1 hlit1 hv1, hitems.gKey,
      sel2_gBr_cond k2 opx2 op2 vq2 v2 hk2.cond hop2 hlit2 hv2, hf.gKey, trivial⟩
  have hq : startsWith xp ['?'] = false := by rw [hxp]; exact sel3_sp_noQ cls kvs lead steps _ _ hp hne hget
  have hpc : hasPathChar xp = true := by
    rw [hxp]; exact sel3_sp_pathChar lead steps _ '[' (by simp [sel2Render, sel2RenderSeg, bracket]) (Or.inr rfl)
  have hts : sel2Toks [.key items, .br (k2 ++ opx2 ++ vq2), .key f] = [items ++ bracket (k2 ++ opx2 ++ vq2), f] := by
    simp [sel2Toks]
  rcases sel3_tokenize_sp_br lead steps _ _ hp hne hgood with htok | ⟨toks', name, ht, hname, htok⟩
  · rw [← hxp, hts] at htok
    have hg' := sel2_api_get cls kvs xp _ valsT d fuel hq hpc htok (hsp true).1
    exact ⟨hg'.1, hg'.2, sel3_api_first cls kvs xp _ valsF d fuel hq hpc htok (hsp false).1⟩
  · rw [← hxp, hts] at htok
    have hg' := sel2_api_get cls kvs xp _ valsT d fuel hq hpc htok ((hsp true).2 toks' name ht hname)
    exact ⟨hg'.1, hg'.2, sel3_api_first cls kvs xp _ valsF d fuel hq hpc htok ((hsp false).2 toks' name ht hname)⟩

theorem sel3_filterMap_congr {α β : Type} {f g : α → Option β} : ∀ {l : List α}, (∀ x ∈ l, f x = g x) → l.filterMap f = l.filterMap g
  | [], _ => rfl
  | a :: l, h => by
    have ih := sel3_filterMap_congr (l := l) (fun x hx => h x (List.mem_cons_of_mem _ hx))
    simp [List.filterMap_cons, h a (by simp), ih]

/-! ### the canonical path is one of the spellings -/

def sel3StepsOf : Pos → List StepSp
  | [] => []
  | .key k :: r => .key k :: sel3StepsOf r
  | .idx n :: r => .idx (.lit n) false :: sel3StepsOf r

theorem sel3_stepsOf_render (p : Pos) : renderSteps (sel3StepsOf p) = renderPos p := by
  induction p with
  | nil => rfl
  | cons s r ih =>
    cases s with
    | key k => rw [sel3StepsOf, renderSteps_cons, ih]; simp [renderStep, renderPos, renderSeg]
    | idx n => rw [sel3StepsOf, renderSteps_cons, ih]; simp [renderStep, renderPos, renderSeg, IdxSp.text]

theorem sel3_stepsOf_plain (p : Pos) (hp : PlainPos p) : PlainSteps (sel3StepsOf p) := by
  induction p with
  | nil => trivial
  | cons s r ih =>
    cases s with
    | key k => exact ⟨hp.1, ih hp.2⟩
    | idx n => exact ih hp

theorem sel3_stepsOf_length (p : Pos) : (sel3StepsOf p).length = p.length := by
  induction p with
  | nil => rfl
  | cons s r ih => cases s <;> simp [sel3StepsOf, ih]

theorem sel3_stepsOf_get : ∀ (p : Pos) (v c : Val), getAt v p = some c → stepsGet v (sel3StepsOf p) = some c
  | [], v, c, h => by simp [getAt] at h; subst h; simp [sel3StepsOf, stepsGet]
  | .key k :: r, v, c, h => by
    obtain ⟨x, hc, hr⟩ := getAt_cons_some h
    obtain ⟨cls, kvs, rfl, hl⟩ := child_key_some hc
    simp [sel3StepsOf, stepsGet, hl, sel3_stepsOf_get r x c hr]
  | .idx n :: r, v, c, h => by
    obtain ⟨y, hc2, hr2⟩ := getAt_cons_some h
    obtain ⟨cls', xs, rfl, hx, hlt⟩ := child_idx_some hc2
    simp [sel3StepsOf, stepsGet, pyIndex, IdxSp.val, normIdx_nat hlt, hx, sel3_stepsOf_get r y c hr2]

/-- the canonical path `//a/b[0]…` of a position below a dict root is the spelling with prefix `//`, attached
indexes written as plain numbers -/
theorem sel3_stepsOf_canon (cls : Cls) (kvs : List (Str × Val)) (p : Pos) (c : Val) (hne : p ≠ [])
    (hget : getAt (.dict cls kvs) p = some c) : renderSp .two (sel3StepsOf p) = slash ++ renderPos p := by
  cases p with
  | nil => exact absurd rfl hne
  | cons s r =>
    cases s with
    | idx n => simp [getAt, child] at hget
    | key k =>
      unfold renderSp
      rw [sel3_stepsOf_render]
      simp [renderPos, renderSeg, dropSlash, leadStr, slash]

/-! ### the fan-out behind any spelling, string level -/

/-- `toks' ++ [name[*], f]`: `toks'` spell the position of the dict whose `name` is the record list -/
theorem sel3_star_find_key (root : Val) (rl : Bool) {toks' : List Str} {q : Pos} {cls : Cls} {kvs : List (Str × Val)}
    (name f : Str) (lc : Cls) (rs : List Val) (hs : Spells toks' root q (.dict cls kvs)) (hname : PlainKey name) (hf : PlainKey f)
    (hl : lookup name kvs = some (.list lc rs)) (hrs : ∀ r ∈ rs, isDict r = true)
    (fuel : Nat) (hfuel : fuel ≥ 2 * toks'.length + rs.length + 5) :
    Sel2Coll root rl (findD fuel root [] false true (toks' ++ [name ++ bracket ['*'], f]) (.at []) rl slash)
      (somes (rs.map (fieldOf f))) := by
  obtain ⟨w, hsf⟩ := hs.exF
  have hpv := hs.getAt
  obtain ⟨fuel', e', h1, h2, heq⟩ := find_walk root rl hsf [name ++ bracket ['*'], f] (by simp) fuel [] slash true rfl (by omega)
  rw [heq]
  obtain ⟨g, rfl⟩ : ∃ g, fuel' = g + 1 := ⟨fuel' - 1, by omega⟩
  have hget : getAt root ([] ++ q ++ [.key name]) = some (.list lc rs) := by
    rw [getAt_snoc]; simp [hpv, child, hl]
  rw [find_keybr_step g root e' rl ([] ++ q) _ _ name ['*'] [f] cls kvs _ (by simpa using hpv)
    (split_bracket name ['*'] (Or.inr hname) star_idxExpr) hname.ne hname.notUp hname.keyTok.notStar hl]
  exact star_records root rl _ _ _ f lc rs hget hrs hf.keyTok split_star g false (by omega)

/-- **`P[*]/f` and `P/f` behind any spelling of `P`**, string level -/
theorem sel3_star_string (cls : Cls) (kvs : List (Str × Val)) (lead : Lead) (steps : List StepSp) (f : Str) (lc : Cls)
    (rs : List Val) (d : Val) (hp : PlainSteps steps) (hne : steps ≠ [])
    (hget : stepsGet (.dict cls kvs) steps = some (.list lc rs)) (hf : PlainKey f) (hrs : ∀ r ∈ rs, isDict r = true)
    (fuel : Nat) (hfuel : fuel ≥ 2 * steps.length + rs.length + 5) :
    ∀ xp ∈ [renderSp lead steps ++ bracket ['*'] ++ slash ++ f, renderSp lead steps ++ slash ++ f],
      get fuel (.dict cls kvs) xp d
        = (.dict cls kvs, .ok (if (somes (rs.map (fieldOf f))).isEmpty then d else .list .n0 (somes (rs.map (fieldOf f))))) ∧
      getItem fuel (.dict cls kvs) xp
        = (.dict cls kvs, if (somes (rs.map (fieldOf f))).isEmpty then .error .IndexError
                          else .ok (.list .n0 (somes (rs.map (fieldOf f))))) ∧
      first fuel (.dict cls kvs) xp d = (.dict cls kvs, .ok (firstOf (somes (rs.map (fieldOf f))) d)) := by
  have hs3 := sel3_spells_steps steps _ _ hp hget
  have hs := hs3.spells
  have hlen := toksOf_length_le steps
  have htne := toksOf_ne_nil steps hne
  intro xp hxp
  simp only [List.mem_cons, List.not_mem_nil, or_false] at hxp
  rcases hxp with rfl | rfl
  · have hxp : renderSp lead steps ++ bracket ['*'] ++ slash ++ f = renderSp lead steps ++ sel2Render [.br ['*'], .key f] := by
      simp [sel2Render, sel2RenderSeg, slash]
    have hgood : GoodG [.br ['*'], .key f] := ⟨sel2_gBr_star, hf.gKey, trivial⟩
    rw [hxp]
    have hq := sel3_sp_noQ cls kvs lead steps _ (sel2Render [.br ['*'], .key f]) hp hne hget
    have hpc := sel3_sp_pathChar lead steps (sel2Render [.br ['*'], .key f]) '[' (by simp [sel2Render, sel2RenderSeg, bracket])
      (Or.inr rfl)
    rcases sel3_tokenize_sp_br lead steps _ _ hp hne hgood with htok | ⟨toks', name, ht, hname, htok⟩
    · apply select_api cls kvs _ _ _ d fuel hq hpc htok
      intro rl
      exact star_spelled (.dict cls kvs) rl f hs htne hrs hf fuel (by omega) _ (Or.inl (by simp [sel2Toks]))
    · apply select_api cls kvs _ _ _ d fuel hq hpc htok
      intro rl
      rw [ht] at hs3
      obtain ⟨p', c', kvs', _, hs', hl⟩ := sel3_spells_snoc_key_inv name hname toks' _ _ _ hs3
      have hl2 : toks'.length + 1 ≤ steps.length := by
        have := congrArg List.length ht; simp at this; omega
      have := sel3_star_find_key (.dict cls kvs) rl name f lc rs hs'.spells hname hf hl hrs fuel (by omega)
      simpa [sel2Toks, Sel2Coll] using this
  · have hxp : renderSp lead steps ++ slash ++ f = renderSp lead steps ++ sel2Render [.key f] := by
      simp [sel2Render, sel2RenderSeg, slash]
    have hgood : GoodG [.key f] := ⟨hf.gKey, trivial⟩
    rw [hxp]
    have hq := sel3_sp_noQ cls kvs lead steps _ (sel2Render [.key f]) hp hne hget
    have hpc := sel3_sp_pathChar lead steps (sel2Render [.key f]) '/' (by simp [sel2Render, sel2RenderSeg]) (Or.inl rfl)
    apply select_api cls kvs _ _ _ d fuel hq hpc (sel3_tokenize_sp_key lead steps _ _ hp hne hgood)
    intro rl
    exact star_spelled (.dict cls kvs) rl f hs htne hrs hf fuel (by omega) _ (Or.inr (by simp [sel2Toks]))

end N0.XPath
