import N0Verif.Proofs.FilesCodec
/-!
  Helper lemmas for the second part of C15 (`Props/C15.lean`):

  * `bytes.split(sep)` characterised by three equations, and what it returns on a file that was
    written one line per EOL (`files2_split_unlines`) — `load_lines(read_mode='b')`;
  * the manual path of `save_file` on a list of lines of any kind (`files2_saveFile_lines_manual`);
  * self-synchronising codecs (`Codec.Sync`: a character's code is a lead byte followed by non-lead
    bytes, and no code is a prefix of another one — utf-8, utf-8-sig, latin-1, cp1252): a byte-level
    `replace` of an encoded EOL is the encoding of the character-level `replace`
    (`files2_replace_enc`), i.e. an encoded EOL never straddles a character boundary.
-/
namespace N0.Files
open N0 N0.Py

/-! ### startsWith -/

theorem files2_startsWith_iff (s p : Str) : startsWith s p = true ↔ p <+: s := by
  induction p generalizing s with
  | nil => simp [startsWith_nil]
  | cons a p ih =>
    cases s with
    | nil => simp [startsWith]
    | cons c s =>
      simp only [startsWith, Bool.and_eq_true, beq_iff_eq, ih, List.cons_prefix_cons]
      constructor
      · rintro ⟨rfl, h⟩; exact ⟨rfl, h⟩
      · rintro ⟨rfl, h⟩; exact ⟨rfl, h⟩

/-- only the first `|p|` characters matter -/
theorem files2_startsWith_append (x rest p : Str) (h : p.length ≤ x.length) :
    startsWith (x ++ rest) p = startsWith x p := by
  induction p generalizing x with
  | nil => simp [startsWith_nil]
  | cons a p ih =>
    cases x with
    | nil => simp at h
    | cons c x =>
      simp only [List.cons_append, startsWith]
      rw [ih x (by simpa using h)]

theorem files2_startsWith_common (b x y : Str) : startsWith (b ++ x) (b ++ y) = startsWith x y := by
  induction b with
  | nil => rfl
  | cons c b ih => simp [startsWith, ih]

theorem files2_eq_of_startsWith (s p : Str) (h : startsWith s p = true) : s = p ++ s.drop p.length := by
  obtain ⟨t, rfl⟩ := (files2_startsWith_iff s p).mp h
  simp

/-! ### split: the three equations -/

/-- put `pre` in front of the first piece -/
def files2_consHead (pre : Str) : List Str → List Str
  | [] => [pre]
  | x :: xs => (pre ++ x) :: xs

theorem files2_splitAux_cur (sep : Str) (n f : Nat) (cur s : Str) :
    splitAux sep n f cur s = files2_consHead cur.reverse (splitAux sep n f [] s) := by
  induction f generalizing cur s with
  | zero => simp [splitAux, files2_consHead]
  | succ f ih =>
    cases s with
    | nil => simp [splitAux, files2_consHead]
    | cons c s =>
      simp only [splitAux]
      split
      · simp [files2_consHead]
      · rw [ih (c :: cur) s, ih [c] s]
        cases splitAux sep n f [] s <;> simp [files2_consHead]

theorem files2_split_nil (sep : Str) : split sep [] = [[]] := by
  simp [split, splitAux]

theorem files2_split_nomatch (sep : Str) (c : Char) (s : Str) (h : startsWith (c :: s) sep = false) :
    split sep (c :: s) = files2_consHead [c] (split sep s) := by
  unfold split
  simp only [List.length_cons, splitAux, h, Bool.false_eq_true, if_false]
  rw [files2_splitAux_cur sep sep.length (s.length + 1) [c] s]
  rfl

theorem files2_split_match (sep : Str) (hs : sep ≠ []) (c : Char) (s : Str) (h : startsWith (c :: s) sep = true) :
    split sep (c :: s) = [] :: split sep ((c :: s).drop sep.length) := by
  have hn : 0 < sep.length := List.length_pos_iff.mpr hs
  unfold split
  simp only [List.length_cons, splitAux, h, if_true, List.reverse_nil]
  rw [splitAux_fuel sep sep.length hn (s.length + 1) (((c :: s).drop sep.length).length + 1) []
    ((c :: s).drop sep.length) (by simp only [List.length_drop, List.length_cons]; omega) (by omega)]

theorem files2_split_sep_append (sep : Str) (hs : sep ≠ []) (r : Str) :
    split sep (sep ++ r) = [] :: split sep r := by
  cases sep with
  | nil => exact absurd rfl hs
  | cons o os =>
    have := files2_split_match (o :: os) hs o (os ++ r) (startsWith_append (o :: os) r)
    simp only [List.cons_append] at this ⊢
    rw [this]
    have hd : (o :: (os ++ r)).drop (o :: os).length = r := by simp
    rw [hd]

/-! ### lines written one per EOL -/

/-- `lineOk` is the statement about positions -/
theorem files2_lineOk_iff (e l : Bytes) :
    lineOk e l = true ↔ ∀ k, k < l.length → ¬ e <+: (l ++ e).drop k := by
  induction l with
  | nil => simp [lineOk]
  | cons c l ih =>
    simp only [lineOk, Bool.and_eq_true, Bool.not_eq_true', ih]
    constructor
    · rintro ⟨h0, h⟩ k hk
      cases k with
      | zero =>
        intro hp
        have := (files2_startsWith_iff _ _).mpr hp
        simp only [List.drop_zero] at this
        rw [this] at h0; cases h0
      | succ k => exact h k (by simpa using hk)
    · intro h
      refine ⟨?_, fun k hk => h (k + 1) (by simpa using hk)⟩
      cases hsw : startsWith (c :: l ++ e) e with
      | false => rfl
      | true => exact absurd ((files2_startsWith_iff _ _).mp hsw) (h 0 (by simp))

/-- a line whose bytes all differ from the first byte of the EOL (e.g. no `'\n'` for LF) is fine -/
theorem files2_lineOk_of_head (hd : Char) (tl l : Bytes) (h : hd ∉ l) : lineOk (hd :: tl) l = true := by
  induction l with
  | nil => rfl
  | cons c l ih =>
    have hc : c ≠ hd := fun e => h (by simp [e])
    simp only [lineOk, List.cons_append, startsWith_cons_ne c hd _ _ hc, Bool.not_false, Bool.true_and]
    exact ih (fun hm => h (by simp [hm]))

/-- a single-byte EOL: the condition is exactly "the byte does not occur in the line" -/
theorem files2_lineOk_single (b : Char) (l : Bytes) : lineOk [b] l = true ↔ b ∉ l := by
  induction l with
  | nil => simp [lineOk]
  | cons c l ih =>
    simp only [lineOk, List.cons_append, startsWith, Bool.and_eq_true, Bool.not_eq_true', ih, List.mem_cons, not_or]
    constructor
    · rintro ⟨h1, h2⟩
      refine ⟨fun e => ?_, h2⟩
      subst e
      cases l <;> simp at h1
    · rintro ⟨h1, h2⟩
      refine ⟨?_, h2⟩
      have : (c == b) = false := by simpa using fun e : c = b => h1 e.symm
      simp [this]

theorem files2_split_line (e : Bytes) (he : e ≠ []) (l rest : Bytes) (h : lineOk e l = true) :
    split e (l ++ e ++ rest) = l :: split e rest := by
  induction l with
  | nil => simp [files2_split_sep_append e he rest]
  | cons c l ih =>
    simp only [lineOk, Bool.and_eq_true, Bool.not_eq_true'] at h
    have hsw : startsWith (c :: (l ++ e ++ rest)) e = false := by
      have := files2_startsWith_append (c :: l ++ e) rest e (by simp; omega)
      simp only [List.cons_append, List.append_assoc] at this ⊢
      rw [this]; simpa using h.1
    simp only [List.cons_append]
    rw [files2_split_nomatch e c _ hsw, ih h.2]
    rfl

/-- **`split` of a file written one line per EOL**: the lines, and one empty piece after the last EOL -/
theorem files2_split_unlines (e : Bytes) (he : e ≠ []) (ls : List Bytes) (h : ∀ l ∈ ls, lineOk e l = true) :
    split e (unlinesB e ls) = ls ++ [[]] := by
  induction ls with
  | nil => simp [unlinesB, files2_split_nil]
  | cons l ls ih =>
    have := files2_split_line e he l (unlinesB e ls) (h l (by simp))
    simp only [unlinesB, List.flatMap_cons] at this ih ⊢
    rw [this, ih (fun x hx => h x (by simp [hx]))]
    rfl

theorem files2_dropLastEmpty_snoc (ls : List Bytes) : dropLastEmpty (ls ++ [[]]) = ls := by
  induction ls with
  | nil => rfl
  | cons l ls ih =>
    cases ls with
    | nil => rfl
    | cons l2 ls => simp only [List.cons_append, dropLastEmpty] at ih ⊢; rw [ih]

/-- a last line without terminator is kept -/
theorem files2_dropLastEmpty_snoc_ne (ls : List Bytes) (x : Bytes) (hx : x ≠ []) :
    dropLastEmpty (ls ++ [x]) = ls ++ [x] := by
  induction ls with
  | nil => cases x <;> simp_all [dropLastEmpty]
  | cons l ls ih =>
    cases ls with
    | nil => cases x <;> simp_all [dropLastEmpty]
    | cons l2 ls => simp only [List.cons_append, dropLastEmpty] at ih ⊢; rw [ih]

/-! ### the condition is also necessary -/

theorem files2_split_ne_nil (sep s : Str) : split sep s ≠ [] := splitAux_ne_nil _ _ _ _ _

/-- if the first piece of `line + EOL + rest` is the line, the line satisfies `lineOk` -/
theorem files2_lineOk_of_split_head (e : Bytes) (he : e ≠ []) (l rest : Bytes) (ps : List Bytes)
    (h : split e (l ++ e ++ rest) = l :: ps) : lineOk e l = true := by
  induction l generalizing ps with
  | nil => rfl
  | cons c l ih =>
    have hpre := files2_startsWith_append (c :: l ++ e) rest e (by simp; omega)
    simp only [List.cons_append, List.append_assoc] at hpre h
    cases hsw : startsWith (c :: (l ++ (e ++ rest))) e with
    | true =>
      rw [files2_split_match e he c _ hsw] at h
      cases h
    | false =>
      rw [files2_split_nomatch e c _ hsw] at h
      cases hsp : split e (l ++ (e ++ rest)) with
      | nil => exact absurd hsp (files2_split_ne_nil _ _)
      | cons x xs =>
        rw [hsp] at h
        simp only [files2_consHead, List.cons_append, List.nil_append, List.cons.injEq] at h
        obtain ⟨⟨_, hx⟩, _⟩ := h
        subst hx
        have := ih xs (by simpa using hsp)
        rw [hsw] at hpre
        simp only [lineOk, List.cons_append, ← hpre, Bool.not_false, Bool.true_and]
        exact this

/-- **`split` returns the lines (and whatever tail) only if every line satisfies `lineOk`** — and
then the tail is the single empty piece -/
theorem files2_split_unlines_conv (e : Bytes) (he : e ≠ []) (ls : List Bytes) (t : List Bytes)
    (h : split e (unlinesB e ls) = ls ++ t) : (∀ l ∈ ls, lineOk e l = true) ∧ t = [[]] := by
  induction ls with
  | nil =>
    simp only [unlinesB, List.flatMap_nil, files2_split_nil, List.nil_append] at h
    exact ⟨by simp, h.symm⟩
  | cons l ls ih =>
    have hcat : unlinesB e (l :: ls) = l ++ e ++ unlinesB e ls := by simp [unlinesB]
    rw [hcat, List.cons_append] at h
    have hok := files2_lineOk_of_split_head e he l _ _ h
    rw [files2_split_line e he l _ hok] at h
    obtain ⟨h1, h2⟩ := ih (List.cons.inj h).2
    refine ⟨?_, h2⟩
    intro x hx
    rcases List.mem_cons.mp hx with rfl | hx
    · exact hok
    · exact h1 x hx

theorem files2_dropLastEmpty_eq (xs ls : List Bytes) (hx : xs ≠ []) (h : dropLastEmpty xs = ls) :
    xs = ls ++ [[]] ∨ xs = ls := by
  induction xs generalizing ls with
  | nil => exact absurd rfl hx
  | cons x xs ih =>
    cases xs with
    | nil =>
      cases x with
      | nil => left; simp [dropLastEmpty] at h; simp [← h]
      | cons a x => right; simp [dropLastEmpty] at h; exact h
    | cons y xs =>
      simp only [dropLastEmpty] at h
      cases ls with
      | nil => cases h
      | cons l ls =>
        obtain ⟨rfl, h'⟩ := List.cons.inj h
        rcases ih ls (by simp) h' with h2 | h2
        · left; rw [h2]; rfl
        · right; rw [h2]

/-- **exactness**: binary `load_lines` of a file written one line per EOL returns the lines iff
every line satisfies `lineOk` -/
theorem files2_dropLastEmpty_split_iff (e : Bytes) (he : e ≠ []) (ls : List Bytes) :
    dropLastEmpty (split e (unlinesB e ls)) = ls ↔ ∀ l ∈ ls, lineOk e l = true := by
  constructor
  · intro h
    rcases files2_dropLastEmpty_eq _ _ (files2_split_ne_nil _ _) h with h2 | h2
    · exact (files2_split_unlines_conv e he ls [[]] h2).1
    · exact (files2_split_unlines_conv e he ls [] (by simpa using h2)).1
  · intro h
    rw [files2_split_unlines e he ls h, files2_dropLastEmpty_snoc]

/-! ### `save_file` of a list of lines on the manual path, any kind of line -/

theorem files2_unlinesB_markFirst (bom e : Bytes) (ls : List Bytes) :
    unlinesB e (markFirst bom ls) = (if ls.isEmpty then [] else bom) ++ unlinesB e ls := by
  cases ls <;> simp [markFirst, unlinesB]

/-- `ys` are the byte forms of the lines `xs` on the binary handle (`bytes` as they are, `str` and
other objects encoded) -/
def LinesConv (c : Codec) : List Line → List Bytes → Prop
  | [], [] => True
  | x :: xs, y :: ys => convLine c true x = .ok (.b y) ∧ LinesConv c xs ys
  | _, _ => False

theorem files2_linesConv_bytes (c : Codec) (ls : List Bytes) : LinesConv c (ls.map Line.bytes) ls := by
  induction ls with
  | nil => trivial
  | cons l ls ih => exact ⟨by simp [convLine], ih⟩

theorem files2_linesConv_str (c : Codec) (ls : List Str) (f : Str → Bytes)
    (h : ∀ l ∈ ls, c.enc l = some (f l)) : LinesConv c (ls.map Line.str) (ls.map f) := by
  induction ls with
  | nil => trivial
  | cons l ls ih =>
    exact ⟨by simp [convLine, h l (by simp)], ih (fun x hx => h x (by simp [hx]))⟩

/-- the `for line in output_buffer` loop on the binary handle -/
theorem files2_writeLines_manual (c : Codec) (e : Bytes) (xs : List Line) (ys : List Bytes) (h : LinesConv c xs ys) :
    ∀ (content : Bytes) (fresh : Bool) (nl : Str),
    writeLines c true (.b e) { content := content, binary := true, fresh := fresh, nl := nl } xs
      = ({ content := content ++ (if fresh && !ys.isEmpty then c.bom else []) ++ unlinesB e ys, binary := true,
           fresh := fresh && ys.isEmpty, nl := nl }, .ok ()) := by
  induction xs generalizing ys with
  | nil =>
    cases ys with
    | nil => intro content fresh nl; simp [writeLines, unlinesB]
    | cons y ys => exact absurd h (by simp [LinesConv])
  | cons x xs ih =>
    cases ys with
    | nil => exact absurd h (by simp [LinesConv])
    | cons y ys =>
      intro content fresh nl
      obtain ⟨h1, h2⟩ := h
      simp only [writeLines, h1, Out.write]
      rw [ih ys h2 _ false nl]
      simp [unlinesB]

/-- **`save_file` of a list of lines on the manual path** (binary mode, or a non-standard EOL) -/
theorem files2_saveFile_lines_manual (c : Codec) (fs : FS) (p : Str) (xs : List Line) (ys : List Bytes)
    (m eol tag : Str) (e : Bytes) (hm : SaveMode m) (hpath : textLayer m eol = false)
    (hc : LinesConv c xs ys) (heol : c.enc eol = some e) :
    saveFile c fs p (.lines xs) m eol tag
      = (fs.write p (startContent fs p m
          ++ (if (startContent fs p m).isEmpty && !ys.isEmpty then c.bom else []) ++ unlinesB e ys), .ok ()) := by
  rcases hm with rfl | rfl | rfl | rfl | rfl
  · have hstd : isStdEol eol = false := by simpa [textLayer] using hpath
    have hn : normMode ['t'] false = .ok ['w', 't'] := by decide
    simp only [saveFile, Payload.isBytes, hn, toBuf, hstd]
    simp only [Bool.not_false, Bool.or_true, if_true]
    rw [saveBinary_ls c fs p _ _ ['w', 'b'] eol _ [] e (by decide) parse_wb rfl heol]
    rw [show (['w', 'b'] : Str).contains 'b' = true by decide, files2_writeLines_manual c e xs ys hc]
    simp [finish, startContent]
  · have hn : normMode ['b'] false = .ok ['w', 'b'] := by decide
    simp only [saveFile, Payload.isBytes, hn, toBuf]
    rw [show (['w', 'b'] : Str).contains 'b' = true by decide]
    simp only [Bool.true_or, if_true]
    rw [saveBinary_ls c fs p _ _ ['w', 'b'] eol _ [] e (by decide) parse_wb rfl heol]
    rw [show (['w', 'b'] : Str).contains 'b' = true by decide, files2_writeLines_manual c e xs ys hc]
    simp [finish, startContent]
  · have hstd : isStdEol eol = false := by simpa [textLayer] using hpath
    have hn : normMode ['w', 't'] false = .ok ['w', 't'] := by decide
    simp only [saveFile, Payload.isBytes, hn, toBuf, hstd]
    simp only [Bool.not_false, Bool.or_true, if_true]
    rw [saveBinary_ls c fs p _ _ ['w', 'b'] eol _ [] e (by decide) parse_wb rfl heol]
    rw [show (['w', 'b'] : Str).contains 'b' = true by decide, files2_writeLines_manual c e xs ys hc]
    simp [finish, startContent]
  · have hn : normMode ['w', 'b'] false = .ok ['w', 'b'] := by decide
    simp only [saveFile, Payload.isBytes, hn, toBuf]
    rw [show (['w', 'b'] : Str).contains 'b' = true by decide]
    simp only [Bool.true_or, if_true]
    rw [saveBinary_ls c fs p _ _ ['w', 'b'] eol _ [] e (by decide) parse_wb rfl heol]
    rw [show (['w', 'b'] : Str).contains 'b' = true by decide, files2_writeLines_manual c e xs ys hc]
    simp [finish, startContent]
  · have hstd : isStdEol eol = false := by simpa [textLayer] using hpath
    have hn : normMode ['a', 't'] false = .ok ['a', 't'] := by decide
    simp only [saveFile, Payload.isBytes, hn, toBuf, hstd]
    simp only [Bool.not_false, Bool.or_true, if_true]
    rw [saveBinary_ls c fs p _ _ ['a', 'b'] eol _ ((fs p).getD []) e (by decide) parse_ab rfl heol]
    rw [show (['a', 'b'] : Str).contains 'b' = true by decide, files2_writeLines_manual c e xs ys hc]
    simp [finish, startContent]

/-! ### `load_lines` in binary mode -/

/-- `load_lines(…, read_mode, encoding, EOL)` with `'b' in read_mode` or a non-standard EOL -/
theorem files2_loadLines_split (c : Codec) (fs : FS) (p rm eol : Str) (data e : Bytes)
    (hrm : (rm.contains 'b' || !isStdEol eol) = true) (heol : c.enc eol = some e) (he : e ≠ [])
    (h : fs p = some data) :
    loadLines c fs p rm eol = .ok ((dropLastEmpty (split e data)).map Loaded.bytes) := by
  unfold loadLines
  have he' : e.isEmpty = false := by cases e <;> simp_all
  rw [if_pos hrm]
  simp [heol, loadFile_b c fs p lf data h, bind, Except.bind, he']

/-! ### self-synchronising codecs -/

/-- The code of every character is a `lead` byte followed by non-`lead` bytes, and no code is a
proper prefix of another one.  (utf-8: `lead` = "not a continuation byte"; single-byte codecs:
every byte.)  Consequence: an encoded string occurs in an encoded text only at character
boundaries, as the encoding of an occurrence of the string. -/
structure Codec.Sync (c : Codec) (lead : Char → Bool) : Prop where
  shape : ∀ ch b, c.enc [ch] = some b → ∃ h t, b = h :: t ∧ lead h = true ∧ ∀ x ∈ t, lead x = false
  prefix_free : ∀ ch1 ch2 b1 b2, c.enc [ch1] = some b1 → c.enc [ch2] = some b2 → b1 <+: b2 → ch1 = ch2

theorem files2_enc_cons_some {c : Codec} (g : c.Good) {ch : Char} {s : Str} {y : Bytes} (h : c.enc (ch :: s) = some y) :
    ∃ b ys, c.enc [ch] = some b ∧ c.enc s = some ys ∧ y = b ++ ys := by
  have h' : c.enc ([ch] ++ s) = some y := by simpa using h
  exact g.enc_append_some h'

/-- **an encoded string starts an encoded text iff the string starts the text** -/
theorem files2_startsWith_enc {c : Codec} (g : c.Good) {lead : Char → Bool} (sy : c.Sync lead) (e : Str) :
    ∀ (s : Str) (ys ye : Bytes), c.enc s = some ys → c.enc e = some ye → startsWith ys ye = startsWith s e := by
  induction e with
  | nil =>
    intro s ys ye _ he
    rw [g.enc_nil] at he; cases he
    simp [startsWith_nil]
  | cons ce e ih =>
    intro s ys ye hs he
    obtain ⟨be, ye', hbe, hye', rfl⟩ := files2_enc_cons_some g he
    obtain ⟨h0, t0, rfl, _, _⟩ := sy.shape ce be hbe
    cases s with
    | nil =>
      rw [g.enc_nil] at hs; cases hs
      simp [startsWith]
    | cons cs s =>
      obtain ⟨bs, ys', hbs, hys', rfl⟩ := files2_enc_cons_some g hs
      by_cases hc : cs = ce
      · subst hc
        rw [hbs] at hbe; cases hbe
        rw [files2_startsWith_common, ih s ys' ye' hys' hye']
        simp [startsWith]
      · have h1 : startsWith (cs :: s) (ce :: e) = false := startsWith_cons_ne cs ce _ _ hc
        rw [h1]
        cases hsw : startsWith (bs ++ ys') (h0 :: t0 ++ ye') with
        | false => rfl
        | true =>
          exfalso
          have hp : (h0 :: t0 ++ ye') <+: bs ++ ys' := (files2_startsWith_iff _ _).mp hsw
          have hp1 : (h0 :: t0) <+: bs ++ ys' := List.IsPrefix.trans (List.prefix_append _ _) hp
          have hp2 : bs <+: bs ++ ys' := List.prefix_append _ _
          rcases List.prefix_or_prefix_of_prefix hp1 hp2 with h | h
          · exact hc (sy.prefix_free ce cs _ _ hbe hbs h).symm
          · exact hc (sy.prefix_free cs ce _ _ hbs hbe h)

/-- **byte-level `replace` of encoded strings = encoding of the character-level `replace`**:
Python's `data.replace(old.encode(enc), new.encode(enc))` on encoded text never cuts a character. -/
theorem files2_replace_enc {c : Codec} (g : c.Good) {lead : Char → Bool} (sy : c.Sync lead)
    (e n : Str) (ye yn : Bytes) (hne : e ≠ []) (he : c.enc e = some ye) (hn : c.enc n = some yn) :
    ∀ (k : Nat) (s : Str) (ys : Bytes), s.length ≤ k → c.enc s = some ys →
      c.enc (replace e n s) = some (replace ye yn ys) := by
  -- the first byte of the encoded `e` is a lead byte
  obtain ⟨ce, e', rfl⟩ := List.exists_cons_of_ne_nil hne
  obtain ⟨be, ye', hbe, hye', rfl⟩ := files2_enc_cons_some g he
  obtain ⟨h0, t0, rfl, hl0, _⟩ := sy.shape ce be hbe
  intro k
  induction k with
  | zero =>
    intro s ys hk hs
    have : s = [] := List.eq_nil_of_length_eq_zero (by omega)
    subst this
    rw [g.enc_nil] at hs; cases hs
    rw [replace_nil, replace_nil]; exact g.enc_nil
  | succ k ih =>
    intro s ys hk hs
    cases s with
    | nil =>
      rw [g.enc_nil] at hs; cases hs
      rw [replace_nil, replace_nil]; exact g.enc_nil
    | cons cs s =>
      cases hsw : startsWith (cs :: s) (ce :: e') with
      | true =>
        have hsplit := files2_eq_of_startsWith _ _ hsw
        generalize hr : (cs :: s).drop (ce :: e').length = r at hsplit
        have hrl : r.length ≤ k := by
          rw [← hr]; simp only [List.length_drop, List.length_cons] at hk ⊢; omega
        rw [hsplit] at hs ⊢
        obtain ⟨y1, yr, h1, hyr, rfl⟩ := g.enc_append_some hs
        rw [he] at h1; cases h1
        rw [replace_append_old _ _ (by simp), replace_append_old _ _ (by simp)]
        exact g.enc_append_of hn (ih r yr hrl hyr)
      | false =>
        obtain ⟨bs, ys', hbs, hys', rfl⟩ := files2_enc_cons_some g hs
        obtain ⟨h1, t1, rfl, _, hnl⟩ := sy.shape cs bs hbs
        have hb : startsWith (h1 :: t1 ++ ys') (h0 :: t0 ++ ye') = false := by
          rw [files2_startsWith_enc g sy (ce :: e') (cs :: s) _ _ hs he]; exact hsw
        rw [replace_cons_nomatch _ _ _ _ hsw]
        have hb' : startsWith (h1 :: (t1 ++ ys')) (h0 :: (t0 ++ ye')) = false := by simpa using hb
        have : replace (h0 :: t0 ++ ye') yn (h1 :: t1 ++ ys') = (h1 :: t1) ++ replace (h0 :: t0 ++ ye') yn ys' := by
          simp only [List.cons_append]
          rw [replace_cons_nomatch _ _ _ _ hb', replace_skip h0 (t0 ++ ye') yn t1 ys' (by
            intro x hx hxe; subst hxe; rw [hnl x hx] at hl0; cases hl0)]
        rw [this]
        have := g.enc_append_of hbs (ih s ys' (by simp only [List.length_cons] at hk; omega) hys')
        simpa using this

/-- the same for `split`: the pieces of the encoded text are the encodings of the pieces -/
theorem files2_lineOk_enc {c : Codec} (g : c.Good) {lead : Char → Bool} (sy : c.Sync lead)
    (e : Str) (ye : Bytes) (he : c.enc e = some ye) :
    ∀ (l : Str) (yl : Bytes), c.enc l = some yl → lineOk e l = true → lineOk ye yl = true := by
  intro l
  induction l with
  | nil =>
    intro yl hl _
    rw [g.enc_nil] at hl; cases hl; rfl
  | cons ch l ih =>
    intro yl hl hok
    simp only [lineOk, Bool.and_eq_true, Bool.not_eq_true'] at hok
    obtain ⟨b, yl', hb, hyl', rfl⟩ := files2_enc_cons_some g hl
    have ihl := ih yl' hyl' hok.2
    cases e with
    | nil =>
      rw [g.enc_nil] at he; cases he
      simp [startsWith_nil] at hok
    | cons ce e' =>
      obtain ⟨be, ye', hbe, hye', rfl⟩ := files2_enc_cons_some g he
      obtain ⟨h0, t0, rfl, hl0, _⟩ := sy.shape ce be hbe
      obtain ⟨h1, t1, rfl, _, hnl⟩ := sy.shape ch b hb
      -- the first byte: a character boundary
      have hfull : c.enc (ch :: l ++ ce :: e') = some ((h1 :: t1 ++ yl') ++ (h0 :: t0 ++ ye')) :=
        g.enc_append_of hl he
      have h00 : startsWith ((h1 :: t1 ++ yl') ++ (h0 :: t0 ++ ye')) (h0 :: t0 ++ ye') = false := by
        rw [files2_startsWith_enc g sy (ce :: e') _ _ _ hfull he]; exact hok.1
      -- the other bytes of the character are not lead bytes
      have hrest : ∀ (t : Bytes), (∀ x ∈ t, lead x = false) →
          lineOk (h0 :: t0 ++ ye') (t ++ yl') = true := by
        intro t
        induction t with
        | nil => intro _; exact ihl
        | cons x t iht =>
          intro hx
          have hxh : x ≠ h0 := by
            intro e; subst e; rw [hx x (by simp)] at hl0; cases hl0
          simp only [List.cons_append, lineOk, startsWith_cons_ne x h0 _ _ hxh, Bool.not_false, Bool.true_and]
          exact iht (fun y hy => hx y (by simp [hy]))
      simp only [List.cons_append, lineOk, Bool.and_eq_true, Bool.not_eq_true']
      refine ⟨?_, hrest t1 hnl⟩
      simpa using h00

/-- the encoding of a non-empty string is not empty -/
theorem files2_enc_ne_nil {c : Codec} (g : c.Good) {lead : Char → Bool} (sy : c.Sync lead) (e : Str) (ye : Bytes)
    (hne : e ≠ []) (he : c.enc e = some ye) : ye ≠ [] := by
  obtain ⟨ce, e', rfl⟩ := List.exists_cons_of_ne_nil hne
  obtain ⟨be, ye', hbe, _, rfl⟩ := files2_enc_cons_some g he
  obtain ⟨h0, t0, rfl, _, _⟩ := sy.shape ce be hbe
  simp

/-- a start-of-stream mark none of whose bytes is the first byte of the encoded EOL is skipped -/
theorem files2_replace_bom (bom ye yn y : Bytes) (hne : ye ≠ []) (h : ∀ x ∈ bom, ye.head? ≠ some x) :
    replace ye yn (bom ++ y) = bom ++ replace ye yn y := by
  cases ye with
  | nil => exact absurd rfl hne
  | cons hd tl =>
    exact replace_skip hd tl yn bom y (fun x hx hxe => h x hx (by simp [hxe]))

/-! ### the four codecs are self-synchronising -/

def utf8Lead (b : Char) : Bool := !isCont b

theorem files2_utf8EncChar_shape (ch : Char) :
    ∃ h t, utf8EncChar ch = h :: t ∧ utf8Lead h = true ∧ ∀ x ∈ t, utf8Lead x = false := by
  have hv := filesChar_valid ch
  unfold utf8EncChar
  by_cases h1 : ch.toNat < 0x80
  · refine ⟨ch, [], by simp [h1], ?_, by simp⟩
    simp [utf8Lead, isCont] <;> omega
  · by_cases h2 : ch.toNat < 0x800
    · refine ⟨_, _, by simp only [h1, h2, if_true, if_false]; rfl, ?_, ?_⟩
      · simp only [utf8Lead, isCont]; rw [filesToNat_ofNat_byte _ (by omega)]; simp <;> omega
      · intro x hx
        simp only [List.mem_cons, List.not_mem_nil, or_false] at hx
        subst hx
        simp only [utf8Lead, isCont]; rw [filesToNat_ofNat_byte _ (by omega)]; simp <;> omega
    · by_cases h3 : ch.toNat < 0x10000
      · refine ⟨_, _, by simp only [h1, h2, h3, if_true, if_false]; rfl, ?_, ?_⟩
        · simp only [utf8Lead, isCont]; rw [filesToNat_ofNat_byte _ (by omega)]; simp <;> omega
        · intro x hx
          simp only [List.mem_cons, List.not_mem_nil, or_false] at hx
          rcases hx with rfl | rfl <;>
            (simp only [utf8Lead, isCont]; rw [filesToNat_ofNat_byte _ (by omega)]; simp <;> omega)
      · refine ⟨_, _, by simp only [h1, h2, h3, if_false]; rfl, ?_, ?_⟩
        · simp only [utf8Lead, isCont]; rw [filesToNat_ofNat_byte _ (by omega)]; simp <;> omega
        · intro x hx
          simp only [List.mem_cons, List.not_mem_nil, or_false] at hx
          rcases hx with rfl | rfl | rfl <;>
            (simp only [utf8Lead, isCont]; rw [filesToNat_ofNat_byte _ (by omega)]; simp <;> omega)

theorem files2_utf8EncChar_prefix (a b : Char) (h : utf8EncChar a <+: utf8EncChar b) : a = b := by
  obtain ⟨r, hr⟩ := h
  have h1 := utf8Dec_encChar a r
  have h2 := utf8Dec_encChar b []
  rw [hr] at h1
  simp only [List.append_nil] at h2
  rw [h2, show utf8Dec [] = some [] from rfl] at h1
  cases hd : utf8Dec r with
  | none => simp [hd] at h1
  | some s => simp [hd] at h1; exact h1.1.symm

theorem files2_utf8Body_sync (bom : Bytes) :
    Codec.Sync { bom := bom, enc := fun s => some (utf8Enc s), dec := utf8Dec } utf8Lead where
  shape := by
    intro ch b hb
    simp only [utf8Enc_single, Option.some.injEq] at hb
    subst hb
    exact files2_utf8EncChar_shape ch
  prefix_free := by
    intro a b b1 b2 h1 h2 hp
    simp only [utf8Enc_single, Option.some.injEq] at h1 h2
    subst h1; subst h2
    exact files2_utf8EncChar_prefix a b hp

theorem utf8_sync : utf8.Sync utf8Lead := files2_utf8Body_sync []
theorem utf8sig_sync : utf8sig.Sync utf8Lead := files2_utf8Body_sync bomUtf8

/-- a `Good` codec whose characters are single bytes is self-synchronising (every byte leads) -/
theorem files2_singleByte_sync (c : Codec) (g : c.Good)
    (h1 : ∀ ch b, c.enc [ch] = some b → ∃ x, b = [x]) : c.Sync (fun _ => true) where
  shape := by
    intro ch b hb
    obtain ⟨x, rfl⟩ := h1 ch b hb
    exact ⟨x, [], rfl, rfl, by simp⟩
  prefix_free := by
    intro a b b1 b2 ha hb hp
    obtain ⟨x, rfl⟩ := h1 a b1 ha
    obtain ⟨y, rfl⟩ := h1 b b2 hb
    have : x = y := by
      obtain ⟨r, hr⟩ := hp
      simp at hr; exact hr.1
    subst this
    have d1 := g.dec_enc _ _ ha
    have d2 := g.dec_enc _ _ hb
    rw [d1] at d2
    simpa using d2

theorem latin1_sync : latin1.Sync (fun _ => true) :=
  files2_singleByte_sync latin1 latin1_good (by
    intro ch b hb
    simp only [latin1, List.all_cons, List.all_nil, Bool.and_true] at hb
    split at hb
    · cases hb; exact ⟨ch, rfl⟩
    · cases hb)

theorem files2_tableCodec_sync (t : List (Option Nat)) (h : tableOk t = true) : (tableCodec t).Sync (fun _ => true) :=
  files2_singleByte_sync _ (tableCodec_good t h) (by
    intro ch b hb
    simp only [tableCodec, mapM_cons_opt, List.mapM_nil] at hb
    cases he : tableEncChar t ch with
    | none => simp [he] at hb
    | some b0 => simp [he] at hb; exact ⟨b0, hb.symm⟩)

theorem cp1252_sync : cp1252.Sync (fun _ => true) := files2_tableCodec_sync _ cp1252_tableOk

/-! ### `load_file` with a custom EOL, possibly non-ASCII -/

/-- **what `load_file` returns for a file holding an encoded text, custom EOL**: the byte-level
`replace(EOL.encode(enc), b'\n')` followed by `decode` is the character-level `replace(EOL, '\n')` -/
theorem files2_load_custom (c : Codec) (g : c.Good) {lead : Char → Bool} (sy : c.Sync lead) (fs : FS)
    (p t eol : Str) (y ye : Bytes) (hstd : isStdEol eol = false) (hne : eol ≠ [])
    (heol : c.enc eol = some ye) (hb : ∀ x ∈ c.bom, ye.head? ≠ some x)
    (henc : c.enc t = some y) (hdisk : fs p = some (c.bom ++ y)) :
    loadFile c fs p ['t'] eol = .ok (.str (replace eol lf t)) := by
  apply loadFile_custom c _ p eol _ _ hstd ye heol hne hdisk
  rw [files2_replace_bom c.bom ye lf y (files2_enc_ne_nil g sy eol ye hne heol) hb]
  have hlf : c.enc lf = some lf := g.ascii '\n' (by decide)
  exact g.decode_bom_enc (files2_replace_enc g sy eol lf ye lf hne heol hlf t.length t y (Nat.le_refl _) henc)

/-- utf-8-sig: the signature is the encoding of U+FEFF, so the exact condition is on the first
*character* of the EOL -/
theorem files2_load_custom_utf8sig (fs : FS) (p t eol : Str) (hstd : isStdEol eol = false) (hne : eol ≠ [])
    (hb : eol.head? ≠ some (Char.ofNat 0xFEFF)) (hdisk : fs p = some (bomUtf8 ++ utf8Enc t)) :
    loadFile utf8sig fs p ['t'] eol = .ok (.str (replace eol lf t)) := by
  apply loadFile_custom utf8sig _ p eol _ _ hstd (utf8Enc eol) rfl hne hdisk
  have hcat : bomUtf8 ++ utf8Enc t = utf8Enc (Char.ofNat 0xFEFF :: t) := by
    rw [utf8Enc_cons, bomUtf8_eq]
  have hlf : utf8.enc lf = some lf := utf8_good.ascii '\n' (by decide)
  have hr := files2_replace_enc utf8_good utf8_sync eol lf (utf8Enc eol) lf hne rfl hlf
    (Char.ofNat 0xFEFF :: t).length (Char.ofNat 0xFEFF :: t) _ (Nat.le_refl _) rfl
  have hr' : utf8Enc (replace eol lf (Char.ofNat 0xFEFF :: t)) = replace (utf8Enc eol) lf (utf8Enc (Char.ofNat 0xFEFF :: t)) :=
    Option.some.inj hr
  rw [hcat, ← hr']
  have hsw : startsWith (Char.ofNat 0xFEFF :: t) eol = false := by
    cases eol with
    | nil => exact absurd rfl hne
    | cons e0 es =>
      exact startsWith_cons_ne _ _ _ _ (fun e => hb (by simp [← e]))
  rw [replace_cons_nomatch _ _ _ _ hsw, utf8Enc_cons, ← bomUtf8_eq]
  exact utf8sig_decode_bom _

end N0.Files
