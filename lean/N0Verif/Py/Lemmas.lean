import N0Verif.Py.Basic
/-!
  Generic lemmas about the Python string primitives of `Py/Basic.lean`
  (`startsWith`, `split`, `join`, `replace`, `rstrip`).

  The three equations `replace_nil`, `replace_cons_match`, `replace_cons_nomatch` characterise
  `str.replace(old, new)` (left-to-right, non-overlapping) for a non-empty `old`; everything
  else is derived from them.
-/
namespace N0.Py

theorem startsWith_nil (s : Str) : startsWith s [] = true := by cases s <;> rfl

theorem startsWith_append (p s : Str) : startsWith (p ++ s) p = true := by
  induction p with
  | nil => exact startsWith_nil _
  | cons c p ih => simp [startsWith, ih]

theorem startsWith_cons_ne (c d : Char) (s p : Str) (h : c ≠ d) :
    startsWith (c :: s) (d :: p) = false := by
  simp [startsWith, h]

/-! ### split / join -/

theorem splitAux_ne_nil (sep : Str) (n f : Nat) (cur s : Str) : splitAux sep n f cur s ≠ [] := by
  induction f generalizing cur s with
  | zero => simp [splitAux]
  | succ f ih =>
    cases s with
    | nil => simp [splitAux]
    | cons c s =>
      simp only [splitAux]
      split
      · simp
      · exact ih _ _

theorem join_cons_of_ne_nil (sep x : Str) (l : List Str) (h : l ≠ []) :
    join sep (x :: l) = x ++ sep ++ join sep l := by
  cases l with
  | nil => exact absurd rfl h
  | cons y ys => rfl

/-- the accumulator of `splitAux` is a prefix of the first piece -/
theorem join_splitAux_cur (sep new : Str) (n : Nat) (f : Nat) (cur s : Str) :
    join new (splitAux sep n f cur s) = cur.reverse ++ join new (splitAux sep n f [] s) := by
  induction f generalizing cur s with
  | zero => simp [splitAux, join]
  | succ f ih =>
    cases s with
    | nil => simp [splitAux, join]
    | cons c s =>
      simp only [splitAux]
      split
      · rw [join_cons_of_ne_nil _ _ _ (splitAux_ne_nil _ _ _ _ _), join_cons_of_ne_nil _ _ _ (splitAux_ne_nil _ _ _ _ _)]
        simp
      · rw [ih (c :: cur) s, ih [c] s]
        simp

/-- more fuel than characters changes nothing -/
theorem splitAux_fuel (sep : Str) (n : Nat) (hn : 0 < n) (f1 f2 : Nat) (cur s : Str)
    (h1 : s.length ≤ f1) (h2 : s.length ≤ f2) :
    splitAux sep n f1 cur s = splitAux sep n f2 cur s := by
  induction f1 generalizing f2 cur s with
  | zero =>
    cases s with
    | nil => cases f2 <;> simp [splitAux]
    | cons c s => simp at h1
  | succ f1 ih =>
    cases s with
    | nil => cases f2 <;> simp [splitAux]
    | cons c s =>
      cases f2 with
      | zero => simp at h2
      | succ f2 =>
        simp only [splitAux]
        simp only [List.length_cons] at h1 h2
        split
        · congr 1
          apply ih
          · simp only [List.length_drop, List.length_cons]; omega
          · simp only [List.length_drop, List.length_cons]; omega
        · exact ih _ _ _ (by omega) (by omega)

/-! ### replace -/

theorem replace_nil (old new : Str) : replace old new [] = [] := by
  simp [replace, split, splitAux, join]

theorem replace_cons_nomatch (old new : Str) (c : Char) (s : Str)
    (h : startsWith (c :: s) old = false) :
    replace old new (c :: s) = c :: replace old new s := by
  unfold replace split
  simp only [List.length_cons, splitAux, h, Bool.false_eq_true, if_false]
  rw [join_splitAux_cur old new old.length (s.length + 1) [c] s]
  simp

theorem replace_cons_match (old new : Str) (hold : old ≠ []) (c : Char) (s : Str)
    (h : startsWith (c :: s) old = true) :
    replace old new (c :: s) = new ++ replace old new ((c :: s).drop old.length) := by
  have hn : 0 < old.length := List.length_pos_iff.mpr hold
  unfold replace split
  simp only [List.length_cons, splitAux, h, if_true]
  rw [join_cons_of_ne_nil _ _ _ (splitAux_ne_nil _ _ _ _ _)]
  rw [splitAux_fuel old old.length hn (s.length + 1) (((c :: s).drop old.length).length + 1) []
    ((c :: s).drop old.length) (by simp only [List.length_drop, List.length_cons]; omega) (by omega)]
  simp

/-- an occurrence of `old` at the front is replaced -/
theorem replace_append_old (old new : Str) (hold : old ≠ []) (r : Str) :
    replace old new (old ++ r) = new ++ replace old new r := by
  cases old with
  | nil => exact absurd rfl hold
  | cons o os =>
    have := replace_cons_match (o :: os) new hold o (os ++ r) (startsWith_append (o :: os) r)
    simp only [List.cons_append] at this ⊢
    rw [this]
    congr 1
    have : (o :: (os ++ r)).drop (o :: os).length = r := by
      have := List.drop_left (l₁ := o :: os) (l₂ := r)
      simp at this ⊢
    rw [this]

/-- characters different from the first character of `old` cannot start an occurrence -/
theorem replace_skip (hd : Char) (tl new bs r : Str) (h : ∀ x ∈ bs, x ≠ hd) :
    replace (hd :: tl) new (bs ++ r) = bs ++ replace (hd :: tl) new r := by
  induction bs with
  | nil => rfl
  | cons b bs ih =>
    have hb : b ≠ hd := h b (by simp)
    simp only [List.cons_append]
    rw [replace_cons_nomatch _ _ _ _ (startsWith_cons_ne b hd _ _ hb), ih (fun x hx => h x (by simp [hx]))]

theorem replace_of_not_mem (hd : Char) (tl new s : Str) (h : hd ∉ s) :
    replace (hd :: tl) new s = s := by
  have := replace_skip hd tl new s [] (fun x hx hxe => h (hxe ▸ hx))
  simpa [replace_nil] using this

/-- `'\n'.replace('\n', eol)` -/
theorem replace_lf_cons_lf (eol s : Str) :
    replace ['\n'] eol ('\n' :: s) = eol ++ replace ['\n'] eol s := by
  have := replace_append_old ['\n'] eol (by simp) s
  simpa using this

theorem replace_lf_cons_ne (eol : Str) (c : Char) (s : Str) (h : c ≠ '\n') :
    replace ['\n'] eol (c :: s) = c :: replace ['\n'] eol s :=
  replace_cons_nomatch _ _ _ _ (startsWith_cons_ne c '\n' _ _ h)

theorem replace_lf_append (eol a b : Str) :
    replace ['\n'] eol (a ++ b) = replace ['\n'] eol a ++ replace ['\n'] eol b := by
  induction a with
  | nil => simp [replace_nil]
  | cons c a ih =>
    by_cases hc : c = '\n'
    · subst hc
      simp only [List.cons_append]
      rw [replace_lf_cons_lf, replace_lf_cons_lf, ih]; simp
    · simp only [List.cons_append]
      rw [replace_lf_cons_ne _ _ _ hc, replace_lf_cons_ne _ _ _ hc, ih]; simp

/-- replacing `'\n'` by itself is the identity -/
theorem replace_lf_lf (s : Str) : replace ['\n'] ['\n'] s = s := by
  induction s with
  | nil => exact replace_nil _ _
  | cons c s ih =>
    by_cases hc : c = '\n'
    · subst hc; rw [replace_lf_cons_lf, ih]; rfl
    · rw [replace_lf_cons_ne _ _ _ hc, ih]

/-- The requested EOL and the text do not interfere: the EOL is not empty and its characters
other than `'\n'` do not occur in the text (whose `'\n'` are all going to be replaced). -/
def EolDisjoint (eol text : Str) : Prop := eol ≠ [] ∧ ∀ c ∈ eol, c ≠ '\n' → c ∉ text

theorem EolDisjoint.tail {eol : Str} {c : Char} {t : Str} (h : EolDisjoint eol (c :: t)) : EolDisjoint eol t :=
  ⟨h.1, fun x hx hn hm => h.2 x hx hn (by simp [hm])⟩

/-- the first character of the EOL differs from every non-newline character of the text -/
theorem EolDisjoint.head_ne {e : Char} {es : Str} {c : Char} {t : Str}
    (h : EolDisjoint (e :: es) (c :: t)) (hc : c ≠ '\n') : c ≠ e := by
  intro hce
  by_cases he : e = '\n'
  · exact hc (hce.trans he)
  · exact h.2 e (by simp) he (by simp [hce])

/-- **replace round trip**: putting the EOL in and taking it out again is the identity. -/
theorem replace_roundtrip (eol text : Str) (h : EolDisjoint eol text) :
    replace eol ['\n'] (replace ['\n'] eol text) = text := by
  induction text with
  | nil => rw [replace_nil, replace_nil]
  | cons c t ih =>
    have iht := ih h.tail
    by_cases hc : c = '\n'
    · subst hc
      rw [replace_lf_cons_lf, replace_append_old _ _ h.1, iht]; rfl
    · rw [replace_lf_cons_ne _ _ _ hc]
      cases eol with
      | nil => exact absurd rfl h.1
      | cons e es =>
        rw [replace_cons_nomatch _ _ _ _ (startsWith_cons_ne c e _ _ (h.head_ne hc)), iht]

/-! ### rstrip -/

theorem dropWhile_append_all {α} (p : α → Bool) (e s : List α) (h : ∀ x ∈ e, p x = true) :
    (e ++ s).dropWhile p = s.dropWhile p := by
  induction e with
  | nil => rfl
  | cons x e ih =>
    have hx : p x = true := h x (by simp)
    simp only [List.cons_append, List.dropWhile_cons, hx, if_true]
    exact ih (fun y hy => h y (by simp [hy]))

/-- `(s + e).rstrip(chars) == s` when `e` consists of `chars` and `s` does not end in one -/
theorem rstrip_append_of_all (chars s e : Str) (he : ∀ c ∈ e, chars.contains c = true)
    (hs : ∀ c, s.getLast? = some c → chars.contains c = false) :
    rstrip chars (s ++ e) = s := by
  unfold rstrip
  rw [List.reverse_append, dropWhile_append_all _ _ _ (by intro x hx; exact he x (by simpa using hx))]
  cases hrev : s.reverse with
  | nil => simp at hrev; simp [hrev]
  | cons c r =>
    have hl : s.getLast? = some c := by
      rw [List.getLast?_eq_head?_reverse, hrev]; rfl
    have := hs c hl
    rw [List.dropWhile_cons_of_neg (by rw [this]; simp)]
    rw [← hrev]; simp

end N0.Py
