/-
  Python primitives over `List Char`.  Model files import nothing outside this
  library, so that the driver can be compiled as a native executable.
-/
namespace N0

abbrev Str := List Char

/-- Exception classes that the modelled code can raise.  `OutOfFuel` is not a
Python exception: it marks a model run that exhausted its fuel. -/
inductive PyErr
  | KeyError | IndexError | TypeError | ValueError | SyntaxError
  | AttributeError | NameError | UnboundLocalError | AssertionError
  | NotImplementedError | ReferenceError | EOFError | RecursionError
  | OutOfFuel | Unsupported
  deriving DecidableEq, Repr, Inhabited

def PyErr.name : PyErr → String
  | .KeyError => "KeyError" | .IndexError => "IndexError" | .TypeError => "TypeError"
  | .ValueError => "ValueError" | .SyntaxError => "SyntaxError"
  | .AttributeError => "AttributeError" | .NameError => "NameError"
  | .UnboundLocalError => "UnboundLocalError" | .AssertionError => "AssertionError"
  | .NotImplementedError => "NotImplementedError" | .ReferenceError => "ReferenceError"
  | .EOFError => "EOFError" | .RecursionError => "RecursionError"
  | .OutOfFuel => "OutOfFuel" | .Unsupported => "Unsupported"

abbrev PyM := Except PyErr

instance {ε α} [DecidableEq ε] [DecidableEq α] : DecidableEq (Except ε α)
  | .ok a, .ok b => if h : a = b then isTrue (by rw [h]) else isFalse (by intro h'; cases h'; exact h rfl)
  | .error a, .error b => if h : a = b then isTrue (by rw [h]) else isFalse (by intro h'; cases h'; exact h rfl)
  | .ok _, .error _ => isFalse (by intro h; cases h)
  | .error _, .ok _ => isFalse (by intro h; cases h)

namespace Py

/-- `s.rstrip(chars)` -/
def rstrip (chars : Str) (s : Str) : Str :=
  (s.reverse.dropWhile (fun c => chars.contains c)).reverse

/-- `s.lstrip(chars)` -/
def lstrip (chars : Str) (s : Str) : Str :=
  s.dropWhile (fun c => chars.contains c)

/-- `s.strip(chars)` -/
def strip (chars : Str) (s : Str) : Str := rstrip chars (lstrip chars s)

/-- Python's default whitespace for `str.strip()` (`str.isspace`): the complete list of
code points for which CPython's `Py_UNICODE_ISSPACE` is true. -/
def isPySpace (c : Char) : Bool :=
  let n := c.toNat
  (9 ≤ n && n ≤ 13) || (28 ≤ n && n ≤ 32) || n = 0x85 || n = 0xA0 || n = 0x1680
  || (0x2000 ≤ n && n ≤ 0x200A) || n = 0x2028 || n = 0x2029 || n = 0x202F
  || n = 0x205F || n = 0x3000

def stripWs (s : Str) : Str :=
  ((s.dropWhile isPySpace).reverse.dropWhile isPySpace).reverse

/-- `s.startswith(p)` -/
def startsWith : Str → Str → Bool
  | _, [] => true
  | [], _ :: _ => false
  | c :: s, p :: ps => c == p && startsWith s ps

def endsWith (s p : Str) : Bool := startsWith s.reverse p.reverse

/-- `p in s` for strings (substring test). -/
def isInfix (p : Str) : Str → Bool
  | [] => p.isEmpty
  | c :: s => startsWith (c :: s) p || isInfix p s

/-- `s.split(sep)` for a non-empty separator (no maxsplit). Fuel = length. -/
def splitAux (sep : Str) (n : Nat) : Nat → Str → Str → List Str
  | 0, cur, _ => [cur.reverse]
  | _ + 1, cur, [] => [cur.reverse]
  | f + 1, cur, c :: s =>
      if startsWith (c :: s) sep then
        cur.reverse :: splitAux sep n f [] ((c :: s).drop n)
      else splitAux sep n f (c :: cur) s

def split (sep : Str) (s : Str) : List Str :=
  splitAux sep sep.length (s.length + 1) [] s

/-- single-character split: `s.split(c)` -/
def splitChar (c : Char) : Str → List Str
  | [] => [[]]
  | x :: s =>
    if x = c then [] :: splitChar c s
    else match splitChar c s with
      | [] => [[x]]   -- unreachable
      | h :: t => (x :: h) :: t

/-- `sep.join(xs)` -/
def join (sep : Str) : List Str → Str
  | [] => []
  | [x] => x
  | x :: y :: xs => x ++ sep ++ join sep (y :: xs)

/-- `s.replace(old, new)` for non-empty `old`. -/
def replace (old new : Str) (s : Str) : Str := join new (split old s)

def isAsciiDigit (c : Char) : Bool := '0' ≤ c && c ≤ '9'

def digitVal (c : Char) : Nat := c.toNat - '0'.toNat

def natOfDigits (s : Str) : Nat := s.foldl (fun a c => a * 10 + digitVal c) 0

def digitChar (d : Nat) : Char := Char.ofNat (48 + d)

/-- decimal digits of a natural number, most significant first (fuel = n + 1 suffices) -/
def natDigitsAux : Nat → Nat → List Char
  | 0, _ => []
  | f + 1, n => if n < 10 then [digitChar n] else natDigitsAux f (n / 10) ++ [digitChar (n % 10)]

def natDigits (n : Nat) : List Char := natDigitsAux (n + 1) n

/-- `str(n)` for a natural number -/
def natRepr (n : Nat) : Str := natDigits n

def intRepr : Int → Str
  | .ofNat n => natRepr n
  | .negSucc n => '-' :: natRepr (n + 1)

def toLowerAscii (c : Char) : Char :=
  if 'A' ≤ c && c ≤ 'Z' then Char.ofNat (c.toNat + 32) else c

def toUpperAscii (c : Char) : Char :=
  if 'a' ≤ c && c ≤ 'z' then Char.ofNat (c.toNat - 32) else c

def lower (s : Str) : Str := s.map toLowerAscii
def upper (s : Str) : Str := s.map toUpperAscii

/-- `s.ljust(n, fill)` -/
def ljust (n : Nat) (fill : Char) (s : Str) : Str := s ++ List.replicate (n - s.length) fill
/-- `s.rjust(n, fill)` -/
def rjust (n : Nat) (fill : Char) (s : Str) : Str := List.replicate (n - s.length) fill ++ s

end Py
end N0
