import N0Verif.Py.Basic
import N0Verif.Proto
/-!
  The value model: what `json.loads`, `xmltodict` and `convert_recursively` produce.
  `dict` is an insertion-ordered association list; the class tag distinguishes
  `dict`/`list` from `n0dict`/`n0list` because the code branches on it.
  Floats are opaque lexemes (their Python `repr`).
-/
namespace N0

inductive Cls | plain | n0
  deriving DecidableEq, Repr, Inhabited

inductive Val
  | none
  | bool (b : Bool)
  | int (i : Int)
  | flt (repr : Str)
  | str (s : Str)
  | list (c : Cls) (xs : List Val)
  | dict (c : Cls) (kvs : List (Str × Val))
  deriving Repr, Inhabited

namespace Val

mutual
def beq : Val → Val → Bool
  | .none, .none => true
  | .bool a, .bool b => a == b
  | .int a, .int b => a == b
  | .flt a, .flt b => a == b
  | .str a, .str b => a == b
  | .list c xs, .list c' ys => c == c' && beqList xs ys
  | .dict c xs, .dict c' ys => c == c' && beqKvs xs ys
  | _, _ => false
def beqList : List Val → List Val → Bool
  | [], [] => true
  | x :: xs, y :: ys => beq x y && beqList xs ys
  | _, _ => false
def beqKvs : List (Str × Val) → List (Str × Val) → Bool
  | [], [] => true
  | (k, x) :: xs, (k', y) :: ys => k == k' && beq x y && beqKvs xs ys
  | _, _ => false
end

instance : BEq Val := ⟨beq⟩

mutual
theorem beq_eq : ∀ (a b : Val), beq a b = true ↔ a = b
  | .none, b => by cases b <;> simp [beq]
  | .bool a, b => by cases b <;> simp [beq]
  | .int a, b => by cases b <;> simp [beq]
  | .flt a, b => by cases b <;> simp [beq]
  | .str a, b => by cases b <;> simp [beq]
  | .list c xs, b => by
      cases b <;> simp [beq]
      rename_i c' ys
      rw [beqList_eq xs ys]
      intro _; rfl
  | .dict c xs, b => by
      cases b <;> simp [beq]
      rename_i c' ys
      rw [beqKvs_eq xs ys]
      intro _; rfl
theorem beqList_eq : ∀ (a b : List Val), beqList a b = true ↔ a = b
  | [], b => by cases b <;> simp [beqList]
  | x :: xs, b => by
      cases b with
      | nil => simp [beqList]
      | cons y ys => simp [beqList, beq_eq x y, beqList_eq xs ys]
theorem beqKvs_eq : ∀ (a b : List (Str × Val)), beqKvs a b = true ↔ a = b
  | [], b => by cases b <;> simp [beqKvs]
  | (k, x) :: xs, b => by
      cases b with
      | nil => simp [beqKvs]
      | cons y ys =>
        obtain ⟨k', y⟩ := y
        simp [beqKvs, beq_eq x y, beqKvs_eq xs ys, and_assoc]
end

instance : DecidableEq Val := fun a b =>
  if h : beq a b = true then isTrue ((beq_eq a b).1 h)
  else isFalse (fun h' => h ((beq_eq a b).2 h'))

/-- Python truthiness -/
def truthy : Val → Bool
  | .none => false
  | .bool b => b
  | .int i => i != 0
  | .flt r => !(r == "0.0".toList || r == "-0.0".toList)
  | .str s => !s.isEmpty
  | .list _ xs => !xs.isEmpty
  | .dict _ kvs => !kvs.isEmpty

def isScalar : Val → Bool
  | .list .. => false
  | .dict .. => false
  | _ => true

/-- `dict.get(k)` on an association list -/
def lookup (k : Str) : List (Str × Val) → Option Val
  | [] => Option.none
  | (k', v) :: rest => if k = k' then some v else lookup k rest

end Val

/-! ### protocol: prefix encoding, one token per node -/
namespace Proto

def clsTag : Cls → String
  | .plain => "p" | .n0 => "n"

mutual
def encVal : Val → List String
  | .none => ["N"]
  | .bool true => ["T"]
  | .bool false => ["F"]
  | .int i => ["I" ++ toString i]
  | .flt r => ["R" ++ encStr r]
  | .str s => ["S" ++ encStr s]
  | .list c xs => ("L" ++ clsTag c ++ toString xs.length) :: encVals xs
  | .dict c kvs => ("D" ++ clsTag c ++ toString kvs.length) :: encKvs kvs
def encVals : List Val → List String
  | [] => []
  | x :: xs => encVal x ++ encVals xs
def encKvs : List (Str × Val) → List String
  | [] => []
  | (k, x) :: xs => encStr k :: (encVal x ++ encKvs xs)
end

def showVal (v : Val) : String := " ".intercalate (encVal v)

def parseInt (s : List Char) : Option Int :=
  match s with
  | '-' :: ds => if ds.all Py.isAsciiDigit && !ds.isEmpty then some (-(Py.natOfDigits ds : Int)) else none
  | ds => if ds.all Py.isAsciiDigit && !ds.isEmpty then some (Py.natOfDigits ds : Int) else none

def parseCls : Char → Option Cls
  | 'p' => some .plain | 'n' => some .n0 | _ => none

/-- decode one value from a token list (fuel = number of tokens) -/
def decVal : Nat → List String → Option (Val × List String)
  | 0, _ => none
  | _, [] => none
  | fuel + 1, t :: rest =>
    match t.toList with
    | ['N'] => some (.none, rest)
    | ['T'] => some (.bool true, rest)
    | ['F'] => some (.bool false, rest)
    | 'I' :: ds => (parseInt ds).map (fun i => (.int i, rest))
    | 'R' :: h => (decStr (String.ofList h)).map (fun s => (.flt s, rest))
    | 'S' :: h => (decStr (String.ofList h)).map (fun s => (.str s, rest))
    | 'L' :: c :: n => do
        let c ← parseCls c
        let n ← if n.all Py.isAsciiDigit && !n.isEmpty then some (Py.natOfDigits n) else none
        let rec items : Nat → List String → List Val → Option (List Val × List String)
          | 0, toks, acc => some (acc.reverse, toks)
          | k + 1, toks, acc => do
              let (v, toks') ← decVal fuel toks
              items k toks' (v :: acc)
        let (xs, rest') ← items n rest []
        pure (.list c xs, rest')
    | 'D' :: c :: n => do
        let c ← parseCls c
        let n ← if n.all Py.isAsciiDigit && !n.isEmpty then some (Py.natOfDigits n) else none
        let rec entries : Nat → List String → List (Str × Val) → Option (List (Str × Val) × List String)
          | 0, toks, acc => some (acc.reverse, toks)
          | k + 1, toks, acc =>
            match toks with
            | [] => none
            | kt :: toks1 => do
              let key ← decStr kt
              let (v, toks') ← decVal fuel toks1
              entries k toks' ((key, v) :: acc)
        let (kvs, rest') ← entries n rest []
        pure (.dict c kvs, rest')
    | _ => none

def readVal (toks : List String) : Option (Val × List String) := decVal (toks.length + 1) toks

end Proto
end N0
