import N0Verif.Proofs.XPathLeaves
import N0Verif.Proofs.XPathListRoot
import N0Verif.Proofs.XPathSpellings
import N0Verif.Proofs.XPathPrimGenEq
/-!
# C01 — every enumerated xpath resolves to exactly the leaf it names

Only property statements live here; the lemmas are in `Proofs/XPath*.lean`.
Reading: "that very value object" = the node at the same position of the tree and the
returned parent reference is the parent position (object identity is outside the value
model and is checked on the implementation by the harness).
-/
namespace N0.C01
open N0 N0.Py N0.Val N0.XPath

/-- **Enumeration.** `xpath()` lists exactly the scalar leaves, each once, in document order,
each under its canonical path `"/" ++ "/key"… "[i]"…`. -/
theorem C01_enum_is_leaves (t : Val) :
    xpathEnum t = (leaves t).map (fun pv => (slash ++ renderPos pv.1, pv.2)) :=
  enumVal_eq slash t

/-- every enumerated pair names a leaf that really sits at that position -/
theorem C01_enum_sound (t : Val) (ht : PlainTree t) (xp : Str) (v : Val)
    (h : (xp, v) ∈ xpathEnum t) :
    ∃ p, xp = slash ++ renderPos p ∧ getAt t p = some v ∧ v.isScalar = true := by
  rw [C01_enum_is_leaves] at h
  simp only [List.mem_map] at h
  obtain ⟨⟨p, c⟩, hm, heq⟩ := h
  simp only [Prod.mk.injEq] at heq
  obtain ⟨rfl, rfl⟩ := heq
  have := leaves_sound t ht p c hm
  exact ⟨p, rfl, this.1, this.2.2⟩

/-- **Tree layer, any spelling.**  If a token list spells position `p` of a dict-rooted tree
(plain keys; index steps in any spelling whose `n0eval` value denotes the element Python
indexing would give), `_find` returns exactly the node at `p`, and the parent reference is
the parent position. -/
theorem C01_find_spelled (t : Val) (rl : Bool) (toks : List Str) (p : Pos) (c : Val)
    (hs : Spells toks t p c) (hne : toks ≠ []) (fuel : Nat) (hf : fuel ≥ 2 * toks.length) :
    ∃ r, findD fuel t [] false true toks (.at []) rl slash = .ok (t, r) ∧ FoundAt t [] p c r :=
  find_spells t rl hs hne fuel [] slash true rfl hf

/-- the index spellings of the property denote the element Python indexing gives:
`i`, `i-len` (a negative literal), `last()`, `last()-k`, `i+j` -/
theorem C01_index_spellings (len n : Nat) (hn : n < len) :
    (∃ i, n0eval (natStr n) = .ok (.int i) ∧ normIdx i len = some n) ∧
    (∃ i, n0eval ('-' :: natStr (len - n)) = .ok (.int i) ∧ normIdx i len = some n) ∧
    (n = len - 1 → ∃ i, n0eval sLast = .ok (.int i) ∧ normIdx i len = some n) ∧
    (∃ i, n0eval (sLast ++ '-' :: natStr (len - 1 - n)) = .ok (.int i) ∧ normIdx i len = some n) ∧
    (∀ a b, a + b = n → ∃ i, n0eval (natStr a ++ '+' :: natStr b) = .ok (.int i) ∧ normIdx i len = some n) := by
  refine ⟨⟨n, n0eval_nat n, normIdx_nat hn⟩, ?_, ?_, ?_, ?_⟩
  · refine ⟨-((len - n : Nat) : Int), ?_, ?_⟩
    · have := n0eval_neg (natStr_digits (len - n))
      rwa [show natOfDigits (natStr (len - n)) = len - n from natOfDigits_natDigits _] at this
    · unfold normIdx
      have h1 : ¬ (0 ≤ -((len - n : Nat) : Int)) := by omega
      simp only [h1, if_false]
      have h2 : (- -((len - n : Nat) : Int)).toNat = len - n := by omega
      simp only [h2]
      have : len - n ≤ len := by omega
      simp [this]; omega
  · intro hlast
    refine ⟨-1, n0eval_last, ?_⟩
    unfold normIdx
    simp
    constructor
    · omega
    · omega
  · refine ⟨-1 - ((len - 1 - n : Nat) : Int), ?_, ?_⟩
    · have := n0eval_last_minus (natStr_digits (len - 1 - n))
      rwa [show natOfDigits (natStr (len - 1 - n)) = len - 1 - n from natOfDigits_natDigits _] at this
    · unfold normIdx
      have h1 : ¬ (0 ≤ -1 - ((len - 1 - n : Nat) : Int)) := by omega
      simp only [h1, if_false]
      have h2 : (-(-1 - ((len - 1 - n : Nat) : Int))).toNat = len - n := by omega
      simp only [h2]
      have : len - n ≤ len := by omega
      simp [this]; omega
  · intro a b hab
    refine ⟨(a : Int) + b, ?_, ?_⟩
    · have := n0eval_plus (natStr_digits a) (natStr_digits b)
      rwa [show natOfDigits (natStr a) = a from natOfDigits_natDigits _,
        show natOfDigits (natStr b) = b from natOfDigits_natDigits _] at this
    · have : ((a : Int) + b) = ((n : Nat) : Int) := by omega
      rw [this]; exact normIdx_nat hn

/-- **Resolution of every enumerated path (item access, get, first).**  For a dict-rooted tree
with plain keys, the canonical path of every node (leaf or inner) at a non-empty position
resolves to exactly that node, and the tree is unchanged. -/
theorem C01_resolves_node (cls : Cls) (kvs : List (Str × Val)) (p : Pos) (c : Val) (d : Val)
    (hp : PlainPos p) (hne : p ≠ []) (hget : getAt (.dict cls kvs) p = some c)
    (fuel : Nat) (hf : fuel ≥ 2 * p.length) :
    let t := Val.dict cls kvs
    getItem fuel t (slash ++ renderPos p) = (t, .ok c) ∧
    get fuel t (slash ++ renderPos p) d = (t, .ok c) := by
  intro t
  have hs := spells_merged p t c hp hget
  have hlen := mergedToks_length_le p
  obtain ⟨r, hr, hv, hnf, _⟩ := find_spells t true hs (mergedToks_ne_nil p hne) fuel [] slash true rfl (by omega)
  have htok : tokenize (slash ++ renderPos p) = mergedToks p := tokenize_render p hp
  have hq : startsWith (slash ++ renderPos p) ['?'] = false := by simp [slash, startsWith]
  have hpc : hasPathChar (slash ++ renderPos p) = true := by simp [hasPathChar, slash]
  have hfound : r.isFound = true := by simp [Res.isFound, hnf]
  constructor
  · simp only [getItem, getCore, t, hq, Bool.false_eq_true, if_false, hpc, if_true, htok]
    rw [show findD fuel (Val.dict cls kvs) [] false true (mergedToks p) (PRef.at []) true slash = .ok (t, r) from hr]
    simp [hfound, hv, t]
  · simp only [XPath.get, getCore, t, hq, Bool.false_eq_true, if_false, hpc, if_true, htok]
    rw [show findD fuel (Val.dict cls kvs) [] false true (mergedToks p) (PRef.at []) true slash = .ok (t, r) from hr]
    simp [hfound, hv, t]

/-- **C01 (headline).**  Every `(xpath, value)` pair listed by the enumeration of a dict-rooted
tree with plain keys resolves through item access and `get` to that value; the lookup does
not change the tree. -/
theorem C01_resolves (cls : Cls) (kvs : List (Str × Val)) (ht : PlainTree (.dict cls kvs))
    (xp : Str) (v d : Val) (h : (xp, v) ∈ xpathEnum (.dict cls kvs)) :
    ∃ n, ∀ fuel ≥ n,
      getItem fuel (.dict cls kvs) xp = (.dict cls kvs, .ok v) ∧
      get fuel (.dict cls kvs) xp d = (.dict cls kvs, .ok v) := by
  rw [C01_enum_is_leaves] at h
  simp only [List.mem_map] at h
  obtain ⟨⟨p, c⟩, hm, heq⟩ := h
  simp only [Prod.mk.injEq] at heq
  obtain ⟨rfl, rfl⟩ := heq
  obtain ⟨hg, hpp, _⟩ := leaves_sound _ ht p c hm
  have hne : p ≠ [] := by
    simp only [leaves] at hm
    obtain ⟨k, q, rfl, _⟩ := leavesKvs_sound kvs ht p c hm
    simp
  exact ⟨2 * p.length, fun fuel hf => C01_resolves_node cls kvs p c d hpp hne hg fuel hf⟩

/-! ### list-rooted containers addressed with a leading index -/

/-- **Tree layer, list root, any spelling.**  If a token list spells position `p` of a list-rooted
tree, `n0list._find` returns exactly the node at `p` (index tokens are walked by `n0list._find`,
also through nested lists; the first dict element is handed to `n0dict._find`). -/
theorem C01_findL_spelled (cls : Cls) (xs : List Val) (rl : Bool) (toks : List Str) (p : Pos) (c : Val)
    (hs : Spells toks (.list cls xs) p c) (hne : toks ≠ []) (fuel : Nat) (hf : fuel ≥ 2 * toks.length) :
    ∃ r, findL fuel (.list cls xs) [] toks (.at []) rl slash = .ok (.list cls xs, r) ∧
      FoundAt (.list cls xs) [] p c r :=
  findL_spells (.list cls xs) rl [] hs hne fuel [] slash ⟨cls, xs, rfl⟩ rfl hf

/-- **Resolution on a list root.**  For a list-rooted tree with plain keys the canonical path of
every node at a position `[n] ++ rest` — written without a leading '/' (`[0]/a/b[1]`) or with it
(`/[0]/a/b[1]`) — resolves through item access and `get` to exactly that node; the tree is
unchanged. -/
theorem C01_list_root_node (cls : Cls) (xs : List Val) (n : Nat) (rest : Pos) (c d : Val)
    (hp : PlainPos rest) (hget : getAt (.list cls xs) (.idx n :: rest) = some c)
    (fuel : Nat) (hf : fuel ≥ 2 * (rest.length + 1)) :
    let t := Val.list cls xs
    let p : Pos := .idx n :: rest
    getItem fuel t (renderPos p) = (t, .ok c) ∧ get fuel t (renderPos p) d = (t, .ok c) ∧
    getItem fuel t (slash ++ renderPos p) = (t, .ok c) ∧ get fuel t (slash ++ renderPos p) d = (t, .ok c) := by
  intro t p
  have hp' : PlainPos p := hp
  have hs := spells_merged p t c hp' hget
  have hlen := mergedToks_length_le p
  have hne := mergedToks_ne_nil p (by simp [p])
  have hpl : p.length = rest.length + 1 := by simp [p]
  have htok1 : tokenize (renderPos p) = mergedToks p := tokenize_render_idx n rest hp
  have htok2 : tokenize (slash ++ renderPos p) = mergedToks p := tokenize_render p hp'
  have hform : renderPos p = '[' :: (natStr n ++ ']' :: renderPos rest) := by
    simp [p, renderPos, renderSeg, bracket]
  have hq1 : startsWith (renderPos p) ['?'] = false := by rw [hform]; simp [startsWith]
  have hc1 : hasPathChar (renderPos p) = true := by rw [hform]; simp [hasPathChar]
  have hq2 : startsWith (slash ++ renderPos p) ['?'] = false := by simp [slash, startsWith]
  have hc2 : hasPathChar (slash ++ renderPos p) = true := by simp [hasPathChar, slash]
  refine ⟨?_, ?_, ?_, ?_⟩
  · exact getCore_list_path fuel cls xs _ _ true true p c hq1 hc1 (by rw [htok1]; exact hs) (by rw [htok1]; exact hne)
      (by rw [htok1]; omega)
  · exact getCore_list_path fuel cls xs _ _ false true p c hq1 hc1 (by rw [htok1]; exact hs) (by rw [htok1]; exact hne)
      (by rw [htok1]; omega)
  · exact getCore_list_path fuel cls xs _ _ true true p c hq2 hc2 (by rw [htok2]; exact hs) (by rw [htok2]; exact hne)
      (by rw [htok2]; omega)
  · exact getCore_list_path fuel cls xs _ _ false true p c hq2 hc2 (by rw [htok2]; exact hs) (by rw [htok2]; exact hne)
      (by rw [htok2]; omega)

/-- **Bare index on a list root.**  A text without '/' and '[' (`l['0']`, `l.get('-1')`,
`'last()'`, `'last()-k'`, `'i+j'`) is evaluated by `n0eval` and used as a Python index: every
index spelling of `C01_index_spellings` returns the element Python indexing gives. -/
theorem C01_list_root_bare (cls : Cls) (xs : List Val) (n : Nat) (c d : Val) (hx : xs[n]? = some c)
    (fuel : Nat) (s : Str)
    (hsp : s = natStr n ∨ s = '-' :: natStr (xs.length - n) ∨ (n = xs.length - 1 ∧ s = sLast) ∨
      s = sLast ++ '-' :: natStr (xs.length - 1 - n) ∨ ∃ a b, a + b = n ∧ s = natStr a ++ '+' :: natStr b) :
    getItem fuel (.list cls xs) s = (.list cls xs, .ok c) ∧ get fuel (.list cls xs) s d = (.list cls xs, .ok c) := by
  have hlt : n < xs.length := by
    rcases Nat.lt_or_ge n xs.length with h | h
    · exact h
    · rw [List.getElem?_eq_none h] at hx; cases hx
  obtain ⟨h1, h2, h3, h4, h5⟩ := C01_index_spellings xs.length n hlt
  have key : ∀ (s : Str) (i : Int), s ≠ [] → (∀ ch ∈ s, bareChar ch = true) → n0eval s = .ok (.int i) →
      normIdx i xs.length = some n →
      getItem fuel (.list cls xs) s = (.list cls xs, .ok c) ∧ get fuel (.list cls xs) s d = (.list cls xs, .ok c) := by
    intro s i hne hb hev hn
    obtain ⟨hq, hpc⟩ := bare_facts hne hb
    exact ⟨getCore_list_bare fuel cls xs s _ true true i n c hne hq hpc hev hn hx,
      getCore_list_bare fuel cls xs s _ false true i n c hne hq hpc hev hn hx⟩
  have hlastb : ∀ ch ∈ sLast, bareChar ch = true := by rw [sLast_eq]; decide
  rcases hsp with rfl | rfl | ⟨hn, rfl⟩ | rfl | ⟨a, b, hab, rfl⟩
  · obtain ⟨i, hev, hn⟩ := h1
    exact key _ i (natDigits_ne_nil n) (natStr_bare n) hev hn
  · obtain ⟨i, hev, hn⟩ := h2
    refine key _ i (by simp) ?_ hev hn
    intro ch hc
    simp only [List.mem_cons] at hc
    rcases hc with rfl | hc
    · decide
    · exact natStr_bare _ ch hc
  · obtain ⟨i, hev, hn'⟩ := h3 hn
    exact key _ i (by rw [sLast_eq]; simp) hlastb hev hn'
  · obtain ⟨i, hev, hn⟩ := h4
    refine key _ i (by rw [sLast_eq]; simp) ?_ hev hn
    intro ch hc
    simp only [List.mem_append, List.mem_cons] at hc
    rcases hc with hc | rfl | hc
    · exact hlastb ch hc
    · decide
    · exact natStr_bare _ ch hc
  · obtain ⟨i, hev, hn⟩ := h5 a b hab
    refine key _ i (by simp) ?_ hev hn
    intro ch hc
    simp only [List.mem_append, List.mem_cons] at hc
    rcases hc with hc | rfl | hc
    · exact natStr_bare _ ch hc
    · decide
    · exact natStr_bare _ ch hc

/-! ### every spelling of a path, at the string level

`renderSp lead steps` (defined in `Proofs/XPathSpellings.lean`) is the text of a spelling: prefix
none / `/` / `//` (`Lead`), each index step attached (`a[0]`, `[0][1]`) or written as a step of its
own (`a/[0]`, `[0]/[1]`) (`StepSp.idx e sep`), each index as `i`, `-k`, `last()`, `last()-k` or `i+j`
(`IdxSp`).  `stepsGet` is plain Python indexing along the steps (`xs[i]` with Python's treatment of
negative `i`: `pyIndex`). -/

/-- the integer an index spelling denotes is what `n0eval` computes from its text -/
theorem C01_idx_spelling_eval (e : IdxSp) : n0eval e.text = .ok (.int e.val) := e.eval

/-- **tokenisation of a spelling**: the prefix and the `][` / `]/[` choice do not change the tokens -/
theorem C01_spelling_tokens (lead : Lead) (steps : List StepSp) (hp : PlainSteps steps) :
    tokenize (renderSp lead steps) = toksOf steps :=
  tokenize_renderSp lead steps hp

/-- the tokens of a spelling spell the position Python indexing reaches (`posOf`: the steps with
every index normalised) -/
theorem C01_spelling_spells (steps : List StepSp) (v c : Val) (hp : PlainSteps steps)
    (hget : stepsGet v steps = some c) :
    Spells (toksOf steps) v (posOf v steps) c ∧ getAt v (posOf v steps) = some c :=
  ⟨spells_steps steps v c hp hget, (spells_steps steps v c hp hget).getAt⟩

/-- **C01 (equivalent spellings, string level, dict root).**  Whatever spelling of a path is used
(prefix none, `/` or `//`; `][` or `]/[`, `a[i]` or `a/[i]`; each index as `i`, `-k`, `last()`,
`last()-k` or `i+j`), item access and `get` return the element plain Python indexing returns, and
the tree is unchanged. -/
theorem C01_spellings_string (cls : Cls) (kvs : List (Str × Val)) (lead : Lead) (steps : List StepSp)
    (c d : Val) (hp : PlainSteps steps) (hne : steps ≠ [])
    (hget : stepsGet (.dict cls kvs) steps = some c) (fuel : Nat) (hf : fuel ≥ 2 * steps.length) :
    getItem fuel (.dict cls kvs) (renderSp lead steps) = (.dict cls kvs, .ok c) ∧
    get fuel (.dict cls kvs) (renderSp lead steps) d = (.dict cls kvs, .ok c) :=
  ⟨getCore_spelling_dict fuel cls kvs lead steps c _ true true hp hne hget hf,
   getCore_spelling_dict fuel cls kvs lead steps c _ false true hp hne hget hf⟩

/-- **C01 (equivalent spellings, string level, list root addressed with a leading index).** -/
theorem C01_spellings_string_list (cls : Cls) (xs : List Val) (lead : Lead) (steps : List StepSp)
    (c d : Val) (hp : PlainSteps steps) (hne : steps ≠ [])
    (hget : stepsGet (.list cls xs) steps = some c) (fuel : Nat) (hf : fuel ≥ 2 * steps.length) :
    getItem fuel (.list cls xs) (renderSp lead steps) = (.list cls xs, .ok c) ∧
    get fuel (.list cls xs) (renderSp lead steps) d = (.list cls xs, .ok c) :=
  ⟨getCore_spelling_list fuel cls xs lead steps c _ true true hp hne hget hf,
   getCore_spelling_list fuel cls xs lead steps c _ false true hp hne hget hf⟩

/-- **C01 (`first`, any spelling).**  `first` returns the same element, except that a one-element
list is unwrapped (that is what `first` is for); both roots. -/
theorem C01_spellings_first (t : Val) (hroot : (∃ cls kvs, t = .dict cls kvs) ∨ (∃ cls xs, t = .list cls xs))
    (lead : Lead) (steps : List StepSp) (c d : Val) (hp : PlainSteps steps) (hne : steps ≠ [])
    (hget : stepsGet t steps = some c) (fuel : Nat) (hf : fuel ≥ 2 * steps.length) :
    ((∀ cl x, c ≠ .list cl [x]) → first fuel t (renderSp lead steps) d = (t, .ok c)) ∧
    (∀ cl x, c = .list cl [x] → first fuel t (renderSp lead steps) d = (t, .ok x)) := by
  have hcore : ∀ d, getCore fuel t (renderSp lead steps) d false false = (t, .ok c) := by
    intro d
    rcases hroot with ⟨cls, kvs, rfl⟩ | ⟨cls, xs, rfl⟩
    · exact getCore_spelling_dict fuel cls kvs lead steps c d false false hp hne hget hf
    · exact getCore_spelling_list fuel cls xs lead steps c d false false hp hne hget hf
  refine ⟨fun hc => first_of_getCore hcore hc d, ?_⟩
  intro cl x hcx
  subst hcx
  exact first_of_getCore_single hcore d

/-- **C01 (headline, `first`).**  Every enumerated pair of a dict-rooted tree with plain keys also
resolves through `first` (a leaf is a scalar, so nothing is unwrapped). -/
theorem C01_resolves_first (cls : Cls) (kvs : List (Str × Val)) (ht : PlainTree (.dict cls kvs))
    (xp : Str) (v d : Val) (h : (xp, v) ∈ xpathEnum (.dict cls kvs)) :
    ∃ n, ∀ fuel ≥ n, first fuel (.dict cls kvs) xp d = (.dict cls kvs, .ok v) := by
  rw [C01_enum_is_leaves] at h
  simp only [List.mem_map] at h
  obtain ⟨⟨p, c⟩, hm, heq⟩ := h
  simp only [Prod.mk.injEq] at heq
  obtain ⟨rfl, rfl⟩ := heq
  obtain ⟨hg, hp0, hsc⟩ := leaves_sound _ ht p c hm
  have hpp : PlainPos p ∧ p ≠ [] := by
    refine ⟨hp0, ?_⟩
    simp only [leaves] at hm
    obtain ⟨k, q, rfl, _⟩ := leavesKvs_sound kvs ht p c hm
    simp
  refine ⟨2 * p.length, fun fuel hf => ?_⟩
  have hs := spells_merged p (.dict cls kvs) c hpp.1 hg
  have hlen := mergedToks_length_le p
  have htok : tokenize (slash ++ renderPos p) = mergedToks p := tokenize_render p hpp.1
  have hcore : ∀ d, getCore fuel (.dict cls kvs) (slash ++ renderPos p) d false false = (.dict cls kvs, .ok c) :=
    fun d => getCore_dict_path fuel cls kvs _ d false false p c (by simp [slash, startsWith]) (by simp [hasPathChar, slash])
      (by rw [htok]; exact hs) (by rw [htok]; exact mergedToks_ne_nil p hpp.2) (by rw [htok]; omega)
  refine first_of_getCore hcore ?_ d
  intro cl x hcx
  subst hcx
  simp [Val.isScalar] at hsc

/-- **C01 (an out-of-range index is a miss).**  `stepsMiss t steps`: the steps walk along existing
nodes and then index a list out of range (Python indexing would raise IndexError there, in any
of the index spellings; whatever follows).  Then, in every spelling and on both roots, item access
raises IndexError, `get` returns the default, `first` returns the default — as it is, whatever value it is
(since fix C04-f `first` unwraps only a found value) — and the tree is unchanged. -/
theorem C01_out_of_range_miss (t : Val) (hroot : (∃ cls kvs, t = .dict cls kvs) ∨ (∃ cls xs, t = .list cls xs))
    (lead : Lead) (steps : List StepSp) (d : Val) (hp : PlainSteps steps)
    (hmiss : stepsMiss t steps = true) (fuel : Nat) (hf : fuel ≥ 2 * steps.length) :
    getItem fuel t (renderSp lead steps) = (t, .error .IndexError) ∧
    get fuel t (renderSp lead steps) d = (t, .ok d) ∧
    first fuel t (renderSp lead steps) d = (t, .ok d) := by
  have hcore : ∀ (d : Val) (raise rl : Bool),
      getCore fuel t (renderSp lead steps) d raise rl = missResult t d raise := by
    intro d raise rl
    rcases hroot with ⟨cls, kvs, rfl⟩ | ⟨cls, xs, rfl⟩
    · exact getCore_miss_dict fuel cls kvs lead steps d raise rl hp hmiss hf
    · exact getCore_miss_list fuel cls xs lead steps d raise rl hp hmiss hf
  refine ⟨?_, ?_, first_of_miss (fun d' => ?_) d⟩
  · rw [getItem, hcore]; rfl
  · rw [XPath.get, hcore]; rfl
  · rw [hcore]; rfl

/-! Non-vacuity: a concrete tree with nested lists, a list in a list, empty containers. -/
def exTree : Val :=
  .dict .n0 [(['a'], .dict .plain [(['b'], .list .plain [.int 1, .list .n0 [.str ['x'], .none]]),
                                    (['e'], .dict .plain [])]),
             (['k'], .bool true)]

example : xpathEnum exTree =
    [(['/', '/', 'a', '/', 'b', '[', '0', ']'], .int 1), (['/', '/', 'a', '/', 'b', '[', '1', ']', '[', '0', ']'], .str ['x']), (['/', '/', 'a', '/', 'b', '[', '1', ']', '[', '1', ']'], .none), (['/', '/', 'k'], .bool true)] := by decide
example : (getItem 20 exTree ['/', '/', 'a', '/', 'b', '[', '1', ']', '[', '0', ']']).2 = .ok (.str ['x']) := by decide
example : (getItem 20 exTree ['/', 'a', '/', 'b', '[', 'l', 'a', 's', 't', '(', ')', ']', '/', '[', '-', '2', ']']).2 = .ok (.str ['x']) := by decide
example : (XPath.get 20 exTree ['a', '/', 'b', '[', '2', ']'] (.str ['D'])).2 = .ok (.str ['D']) := by decide


/-- a list root: a dict element, a nested list, a scalar -/
def exList : Val :=
  .list .n0 [.dict .plain [(['a'], .dict .plain [(['b'], .list .plain [.int 7, .int 8])])],
             .list .plain [.str ['x'], .list .n0 [.none, .bool false]],
             .int 5]

example : getAt exList [.idx 0, .key ['a'], .key ['b'], .idx 1] = some (.int 8) := by decide
example : (getItem 20 exList ['[', '0', ']', '/', 'a', '/', 'b', '[', '1', ']']) = (exList, .ok (.int 8)) := by decide
example : (XPath.get 20 exList ['/', '[', '0', ']', '/', 'a', '/', 'b', '[', '1', ']'] (.str ['D'])) = (exList, .ok (.int 8)) := by decide
-- a path that stays inside `n0list._find` (nested lists)
example : (getItem 20 exList ['[', '1', ']', '[', '1', ']', '[', '1', ']']) = (exList, .ok (.bool false)) := by decide
-- bare index texts
example : (getItem 20 exList ['2']) = (exList, .ok (.int 5)) := by decide
example : (getItem 20 exList ['-', '1']) = (exList, .ok (.int 5)) := by decide
example : (XPath.get 20 exList ['l', 'a', 's', 't', '(', ')', '-', '1'] (.str ['D'])).2
    = .ok (.list .plain [.str ['x'], .list .n0 [.none, .bool false]]) := by decide
example : (getItem 20 exList ['1', '+', '1']) = (exList, .ok (.int 5)) := by decide


/-- spellings: `//a/b[last()]/[-2]`, `a/b/[0+1][last()-1]`, `/[1][0]` on the list root -/
def exSteps1 : List StepSp := [.key ['a'], .key ['b'], .idx .last false, .idx (.neg 2) true]
def exSteps2 : List StepSp := [.key ['a'], .key ['b'], .idx (.plus 0 1) true, .idx (.lastMinus 1) false]

example : renderSp .two exSteps1 =
    ['/', '/', 'a', '/', 'b', '[', 'l', 'a', 's', 't', '(', ')', ']', '/', '[', '-', '2', ']'] := by decide
example : renderSp .rel exSteps2 =
    ['a', '/', 'b', '/', '[', '0', '+', '1', ']', '[', 'l', 'a', 's', 't', '(', ')', '-', '1', ']'] := by decide
example : toksOf exSteps1 = [['a'], ['b', '[', 'l', 'a', 's', 't', '(', ')', ']'], ['[', '-', '2', ']']] := by decide
example : stepsGet exTree exSteps1 = some (.str ['x']) ∧ stepsGet exTree exSteps2 = some (.str ['x']) := by decide
example : (getItem 20 exTree (renderSp .two exSteps1)) = (exTree, .ok (.str ['x'])) := by decide
example : (getItem 20 exTree (renderSp .rel exSteps2)) = (exTree, .ok (.str ['x'])) := by decide
example : renderSp .one [.idx (.lit 1) false, .idx (.lit 0) false] = ['/', '[', '1', ']', '[', '0', ']'] ∧
    stepsGet exList [.idx (.lit 1) false, .idx (.lit 0) false] = some (.str ['x']) := by decide
-- the relative one-key spelling goes through the plain dictionary lookup
example : renderSp .rel [.key ['k']] = ['k'] ∧ (getItem 20 exTree ['k']) = (exTree, .ok (.bool true)) := by decide

-- out of range: `/a/b[2]`, `a/b/[-3]/zz`, `[3]` and `[1][-3]` on the list root
example : stepsMiss exTree [.key ['a'], .key ['b'], .idx (.lit 2) false] = true ∧
    stepsMiss exTree [.key ['a'], .key ['b'], .idx (.neg 3) true, .key ['z', 'z']] = true ∧
    stepsMiss exList [.idx (.lit 3) false] = true ∧
    stepsMiss exList [.idx (.lit 1) false, .idx (.neg 3) false] = true := by decide
example : (getItem 20 exTree (renderSp .one [.key ['a'], .key ['b'], .idx (.lit 2) false])) = (exTree, .error .IndexError) := by
  decide
example : (XPath.get 20 exList (renderSp .rel [.idx (.lit 1) false, .idx (.neg 3) false]) (.str ['D'])) = (exList, .ok (.str ['D'])) := by
  decide

/-! ## BEGIN generated-primitives block (translator tie for `n0eval` and `split_name_index`)

`harness/translate_py_xp.py` re-translates the Python text of the two pure primitives every lookup goes through
into `Gen/XPathPrim.lean` on every run of `./check C01`; the theorems below are re-checked against the regenerated
text (proofs: `Proofs/XPathPrimGenEq.lean`).  They hold for *every* string, exception classes included
(`Unsupported` marks the inputs outside the modelled scope on both sides: float texts, non-ASCII digits, '%' inside
a quoted value).  See notes/C01-gen.md. -/

/-- **translated `n0eval` = model**, for every string -/
theorem C01_generated_n0eval_eq (s : Str) : Gen.XPathPrim.n0eval s = XPath.n0eval s :=
  XPathPrimGenEq.xpgen_n0eval_eq s

/-- **translated `split_name_index` = model**, for every string (name, `[index]`, conditions with the operator
table, quotes, `contains(text(), …)`, `true()`/`false()`; `ValueError`/`IndexError`/`SyntaxError` included) -/
theorem C01_generated_split_eq (s : Str) : Gen.XPathPrim.splitNameIndex s = XPath.splitNameIndex s :=
  XPathPrimGenEq.xpgen_split_eq s

/-- the index spellings of the property, evaluated by the translated `n0eval` -/
theorem C01_idx_spelling_eval_generated (e : IdxSp) : Gen.XPathPrim.n0eval e.text = .ok (.int e.val) := by
  rw [C01_generated_n0eval_eq]; exact e.eval

/-- a rendered step `k[e]` (plain or empty name, index expression) is split by the translated `split_name_index`
into exactly its name and its index text -/
theorem C01_step_split_generated (k e : Str) (hk : k = [] ∨ PlainKey k) (he : IdxExpr e) :
    Gen.XPathPrim.splitNameIndex (k ++ bracket e) = .ok (k, .str e) := by
  rw [C01_generated_split_eq]; exact split_bracket k e hk he

/-! Non-vacuity: the translated definitions compute, on every branch (they are separate definitions: a nested
function, two folds, a loop with `break`/`else`). -/
example : Gen.XPathPrim.n0eval [' ', 'L', 'a', 's', 't', '(', ')', ' ', '-', ' ', '1', '_', '0', '+', '2'] = .ok (.int (-9)) := by decide
example : Gen.XPathPrim.n0eval ['1', '+', 'n', 'e', 'w', '(', ')'] = .ok (.str ['1', '+', 'n', 'e', 'w', '(', ')']) := by decide
example : Gen.XPathPrim.n0eval ['1', '.', '5'] = .error .Unsupported ∧ Gen.XPathPrim.n0eval ['1', '.', 'x'] = .ok (.str ['1', '.', 'x'])
    ∧ Gen.XPathPrim.n0eval [] = .ok (.str []) ∧ Gen.XPathPrim.n0eval ['-', '-', '1'] = .ok (.int (-1)) ∧ Gen.XPathPrim.n0eval ['1', '-', 'x'] = .ok (.str ['1', '-', 'x']) := by decide
example : Gen.XPathPrim.splitNameIndex ['a', ' ', '[', ' ', 'k', ' ', '=', ' ', '\'', 'v', '\'', ']']
    = .ok (['a'], .cond ['k'] ['=', '='] (.str ['v'])) := by decide
example : Gen.XPathPrim.splitNameIndex ['[', 'k', '!', '~', 'T', 'r', 'u', 'e', '(', ')', ']']
    = .ok ([], .cond ['k'] ['!', '~'] (.bool true)) := by decide
example : Gen.XPathPrim.splitNameIndex ['[', 'c', 'o', 'n', 't', 'a', 'i', 'n', 's', '(', 't', 'e', 'x', 't', '(', ')', ',', 'v', ')', ']']
    = .ok ([], .cond ['t', 'e', 'x', 't', '(', ')'] ['~', '~'] (.str ['v'])) := by decide
example : Gen.XPathPrim.splitNameIndex ['[', 'c', 'o', 'n', 't', 'a', 'i', 'n', 's', ')', ']'] = .error .IndexError
    ∧ Gen.XPathPrim.splitNameIndex ['[', 'c', 'o', 'n', 't', 'a', 'i', 'n', 's', '(', ')', ']'] = .error .ValueError
    ∧ Gen.XPathPrim.splitNameIndex ['a', '[', ']'] = .ok (['a'], .str [])
    ∧ Gen.XPathPrim.splitNameIndex ['a', ']'] = .ok (['a', ']'], .none)
    ∧ Gen.XPathPrim.splitNameIndex ['[', '"', '%', '"', '=', '"', '%', '"', ']'] = .error .Unsupported := by decide

/-! ## END generated-primitives block -/

end N0.C01
