import N0Verif.Proofs.XPathLeaves
/-!
# C01 — every enumerated xpath resolves to exactly the leaf it names

Only property statements live here; the lemmas are in `Proofs/XPath*.lean`.
Reading: "that very value object" = the node at the same position of the tree and the
returned parent reference is the parent position (object identity is outside the value
model and is checked on the implementation by the harness).
-/
namespace N0.C01
open N0 N0.Py N0.Val N0.XPath

/-- **Enumeration.** `xpath()` lists exactly the scalar leaves, each once, in document order,
each under its canonical path `"/" ++ "/key"… "[i]"…`. -/
theorem C01_enum_is_leaves (t : Val) :
    xpathEnum t = (leaves t).map (fun pv => (slash ++ renderPos pv.1, pv.2)) :=
  enumVal_eq slash t

/-- every enumerated pair names a leaf that really sits at that position -/
theorem C01_enum_sound (t : Val) (ht : PlainTree t) (xp : Str) (v : Val)
    (h : (xp, v) ∈ xpathEnum t) :
    ∃ p, xp = slash ++ renderPos p ∧ getAt t p = some v ∧ v.isScalar = true := by
  rw [C01_enum_is_leaves] at h
  simp only [List.mem_map] at h
  obtain ⟨⟨p, c⟩, hm, heq⟩ := h
  simp only [Prod.mk.injEq] at heq
  obtain ⟨rfl, rfl⟩ := heq
  have := leaves_sound t ht p c hm
  exact ⟨p, rfl, this.1, this.2.2⟩

/-- **Tree layer, any spelling.**  If a token list spells position `p` of a dict-rooted tree
(plain keys; index steps in any spelling whose `n0eval` value denotes the element Python
indexing would give), `_find` returns exactly the node at `p`, and the parent reference is
the parent position. -/
theorem C01_find_spelled (t : Val) (rl : Bool) (toks : List Str) (p : Pos) (c : Val)
    (hs : Spells toks t p c) (hne : toks ≠ []) (fuel : Nat) (hf : fuel ≥ 2 * toks.length) :
    ∃ r, findD fuel t [] false true toks (.at []) rl slash = .ok (t, r) ∧ FoundAt t [] p c r :=
  find_spells t rl hs hne fuel [] slash true rfl hf

/-- the index spellings of the property denote the element Python indexing gives:
`i`, `i-len` (a negative literal), `last()`, `last()-k`, `i+j` -/
theorem C01_index_spellings (len n : Nat) (hn : n < len) :
    (∃ i, n0eval (natStr n) = .ok (.int i) ∧ normIdx i len = some n) ∧
    (∃ i, n0eval ('-' :: natStr (len - n)) = .ok (.int i) ∧ normIdx i len = some n) ∧
    (n = len - 1 → ∃ i, n0eval sLast = .ok (.int i) ∧ normIdx i len = some n) ∧
    (∃ i, n0eval (sLast ++ '-' :: natStr (len - 1 - n)) = .ok (.int i) ∧ normIdx i len = some n) ∧
    (∀ a b, a + b = n → ∃ i, n0eval (natStr a ++ '+' :: natStr b) = .ok (.int i) ∧ normIdx i len = some n) := by
  refine ⟨⟨n, n0eval_nat n, normIdx_nat hn⟩, ?_, ?_, ?_, ?_⟩
  · refine ⟨-((len - n : Nat) : Int), ?_, ?_⟩
    · have := n0eval_neg (natStr_digits (len - n))
      rwa [show natOfDigits (natStr (len - n)) = len - n from natOfDigits_natDigits _] at this
    · unfold normIdx
      have h1 : ¬ (0 ≤ -((len - n : Nat) : Int)) := by omega
      simp only [h1, if_false]
      have h2 : (- -((len - n : Nat) : Int)).toNat = len - n := by omega
      simp only [h2]
      have : len - n ≤ len := by omega
      simp [this]; omega
  · intro hlast
    refine ⟨-1, n0eval_last, ?_⟩
    unfold normIdx
    simp
    constructor
    · omega
    · omega
  · refine ⟨-1 - ((len - 1 - n : Nat) : Int), ?_, ?_⟩
    · have := n0eval_last_minus (natStr_digits (len - 1 - n))
      rwa [show natOfDigits (natStr (len - 1 - n)) = len - 1 - n from natOfDigits_natDigits _] at this
    · unfold normIdx
      have h1 : ¬ (0 ≤ -1 - ((len - 1 - n : Nat) : Int)) := by omega
      simp only [h1, if_false]
      have h2 : (-(-1 - ((len - 1 - n : Nat) : Int))).toNat = len - n := by omega
      simp only [h2]
      have : len - n ≤ len := by omega
      simp [this]; omega
  · intro a b hab
    refine ⟨(a : Int) + b, ?_, ?_⟩
    · have := n0eval_plus (natStr_digits a) (natStr_digits b)
      rwa [show natOfDigits (natStr a) = a from natOfDigits_natDigits _,
        show natOfDigits (natStr b) = b from natOfDigits_natDigits _] at this
    · have : ((a : Int) + b) = ((n : Nat) : Int) := by omega
      rw [this]; exact normIdx_nat hn

/-- **Resolution of every enumerated path (item access, get, first).**  For a dict-rooted tree
with plain keys, the canonical path of every node (leaf or inner) at a non-empty position
resolves to exactly that node, and the tree is unchanged. -/
theorem C01_resolves_node (cls : Cls) (kvs : List (Str × Val)) (p : Pos) (c : Val) (d : Val)
    (hp : PlainPos p) (hne : p ≠ []) (hget : getAt (.dict cls kvs) p = some c)
    (fuel : Nat) (hf : fuel ≥ 2 * p.length) :
    let t := Val.dict cls kvs
    getItem fuel t (slash ++ renderPos p) = (t, .ok c) ∧
    get fuel t (slash ++ renderPos p) d = (t, .ok c) := by
  intro t
  have hs := spells_merged p t c hp hget
  have hlen := mergedToks_length_le p
  obtain ⟨r, hr, hv, hnf, _⟩ := find_spells t true hs (mergedToks_ne_nil p hne) fuel [] slash true rfl (by omega)
  have htok : tokenize (slash ++ renderPos p) = mergedToks p := tokenize_render p hp
  have hq : startsWith (slash ++ renderPos p) ['?'] = false := by simp [slash, startsWith]
  have hpc : hasPathChar (slash ++ renderPos p) = true := by simp [hasPathChar, slash]
  have hfound : r.isFound = true := by simp [Res.isFound, hnf]
  constructor
  · simp only [getItem, getCore, t, hq, Bool.false_eq_true, if_false, hpc, if_true, htok]
    rw [show findD fuel (Val.dict cls kvs) [] false true (mergedToks p) (PRef.at []) true slash = .ok (t, r) from hr]
    simp [hfound, hv, t]
  · simp only [XPath.get, getCore, t, hq, Bool.false_eq_true, if_false, hpc, if_true, htok]
    rw [show findD fuel (Val.dict cls kvs) [] false true (mergedToks p) (PRef.at []) true slash = .ok (t, r) from hr]
    simp [hfound, hv, t]

/-- **C01 (headline).**  Every `(xpath, value)` pair listed by the enumeration of a dict-rooted
tree with plain keys resolves through item access and `get` to that value; the lookup does
not change the tree. -/
theorem C01_resolves (cls : Cls) (kvs : List (Str × Val)) (ht : PlainTree (.dict cls kvs))
    (xp : Str) (v d : Val) (h : (xp, v) ∈ xpathEnum (.dict cls kvs)) :
    ∃ n, ∀ fuel ≥ n,
      getItem fuel (.dict cls kvs) xp = (.dict cls kvs, .ok v) ∧
      get fuel (.dict cls kvs) xp d = (.dict cls kvs, .ok v) := by
  rw [C01_enum_is_leaves] at h
  simp only [List.mem_map] at h
  obtain ⟨⟨p, c⟩, hm, heq⟩ := h
  simp only [Prod.mk.injEq] at heq
  obtain ⟨rfl, rfl⟩ := heq
  obtain ⟨hg, hpp, _⟩ := leaves_sound _ ht p c hm
  have hne : p ≠ [] := by
    simp only [leaves] at hm
    obtain ⟨k, q, rfl, _⟩ := leavesKvs_sound kvs ht p c hm
    simp
  exact ⟨2 * p.length, fun fuel hf => C01_resolves_node cls kvs p c d hpp hne hg fuel hf⟩

/-! Non-vacuity: a concrete tree with nested lists, a list in a list, empty containers. -/
def exTree : Val :=
  .dict .n0 [(['a'], .dict .plain [(['b'], .list .plain [.int 1, .list .n0 [.str ['x'], .none]]),
                                    (['e'], .dict .plain [])]),
             (['k'], .bool true)]

example : xpathEnum exTree =
    [(['/', '/', 'a', '/', 'b', '[', '0', ']'], .int 1), (['/', '/', 'a', '/', 'b', '[', '1', ']', '[', '0', ']'], .str ['x']), (['/', '/', 'a', '/', 'b', '[', '1', ']', '[', '1', ']'], .none), (['/', '/', 'k'], .bool true)] := by decide
example : (getItem 20 exTree ['/', '/', 'a', '/', 'b', '[', '1', ']', '[', '0', ']']).2 = .ok (.str ['x']) := by decide
example : (getItem 20 exTree ['/', 'a', '/', 'b', '[', 'l', 'a', 's', 't', '(', ')', ']', '/', '[', '-', '2', ']']).2 = .ok (.str ['x']) := by decide
example : (XPath.get 20 exTree ['a', '/', 'b', '[', '2', ']'] (.str ['D'])).2 = .ok (.str ['D']) := by decide

end N0.C01
