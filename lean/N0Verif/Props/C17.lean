import N0Verif.Proofs.Esc
import N0Verif.Proofs.EscRef
import N0Verif.Proofs.Ini
import N0Verif.Proofs.EscGenEq
import N0Verif.Proofs.EscGenEq2
/-!
# C17 — delimited list / key=value text decodes to what was encoded

Only property statements live here; helper lemmas are in `Proofs/Esc.lean`, the model in
`Model/Esc.lean` (it follows the code with fix patches C17-a … C17-e, C17-h, C17-i, C17-j applied).
The INI part of the property (`parse_ini`, `load_ini`, `default_parse_value`, `split_pair`, `isnumber`,
the lines `save_file` writes for a mapping) is modelled in `Model/Ini.lean` (code with fix patches
C17-f and C17-g applied); its lemmas are in `Proofs/Ini.lean`.
-/
namespace N0.C17
open N0 N0.Py N0.Esc N0.Ini

/-! ## `split_with_escape` -/

/-- **Fuel adequacy.**  More `while` fuel than the text has characters is enough (the driver and the
theorems below use `fuelFor s = |s| + 2`): the loop ends and the answer does not depend on the fuel.
(Every round but the last joins two items over one delimiter occurrence of the text.  Restated with fix
C17-j: the function no longer calls itself, so the recursion depth is gone, and the bound is the length of
the text instead of the number of pieces of `str.split(d, maxsplit)` — a re-split piece may be joined again.) -/
theorem C17_fuel_adequate (fuel : Nat) (s d : Str) (m : Nat) (e : Char) (tr : Bool)
    (hd : d ≠ []) (hf : s.length < fuel) :
    splitWithEscapeD fuel s d m (some e) tr = splitWithEscape s d m (some e) tr := by
  unfold splitWithEscape
  rw [splitWithEscapeD_ref fuel s d m e tr hd hf,
    splitWithEscapeD_ref (fuelFor s) s d m e tr hd (by unfold fuelFor; omega)]

/-- the statement as the property reads: "with an escape character, a delimiter preceded by an odd run of
escapes stays inside its item and the result never depends on neighbouring items (maxsplit included)" — the
code IS the character-level reference `splitRef` (`Model/Esc.lean`: one pass, only REAL cuts are counted) -/
def C17_split_maxsplit_real_cuts_stmt : Prop :=
  ∀ (s d : Str) (m : Nat) (e : Char) (tr : Bool), d ≠ [] →
    splitWithEscape s d m (some e) tr = splitRef s d m (some e) tr

/-- **C17 (maxsplit counts real cuts; fix C17-j) — the full statement.**  For every text, non-empty
delimiter (those that contain or end with the escape character included), maxsplit, escape character and
trim flag `split_with_escape` returns what the one-pass reference returns: an escaped delimiter stays in
its item and uses up no split, exactly `maxsplit` real cuts are made when the text has that many, and what
follows the last one is the last item, raw.  Unbounded.  (Before the fix this was false: the statement had
the counter-example theorem `C17_split_maxsplit_real_cuts_cex` and held only outside the class `escWithin`,
`C17_split_real_cuts_partial`; both are replaced by this theorem.) -/
theorem C17_split_maxsplit_real_cuts : C17_split_maxsplit_real_cuts_stmt := by
  intro s d m e tr hd
  unfold splitWithEscape
  rw [splitWithEscapeD_ref (fuelFor s) s d m e tr hd (by unfold fuelFor; omega), splitRef, if_neg hd]

/-- the same as an equation with the reference scan -/
theorem C17_split_is_reference (s d : Str) (m : Nat) (e : Char) (tr : Bool) (hd : d ≠ []) :
    splitWithEscape s d m (some e) tr = .ok (refAux e d tr (limOf m) 0 [] s) := by
  rw [C17_split_maxsplit_real_cuts s d m e tr hd, splitRef, if_neg hd]

/-- **General reference over the pieces of the plain split.**  For every text, non-empty delimiter, maxsplit,
escape character and trim flag such that no escaped delimiter is met while real cuts are limited and still
allowed (`escWithin` false — in particular always without maxsplit, `C17_general_spec_no_maxsplit`) the
result is the one-pass walk `specG` over the pieces of `str.split(d, maxsplit)`.
(Restated with fix C17-j: before the fix this held for EVERY maxsplit — that was the defect, an escaped
delimiter used up one of the `maxsplit` pieces; inside the class the corrected general statement is
`C17_split_maxsplit_real_cuts`.) -/
theorem C17_general_spec (s d : Str) (m : Nat) (e : Char) (tr : Bool) (hd : d ≠ [])
    (h : escWithin e d (limOf m) 0 [] s = false) :
    splitWithEscape s d m (some e) tr = .ok (specG e d tr [] (splitMax d m s)) := by
  rw [C17_split_is_reference s d m e tr hd, refAux_eq_specG e d tr s (limOf m) 0 [] h]
  rfl

theorem C17_general_spec_no_maxsplit (s d : Str) (e : Char) (tr : Bool) (hd : d ≠ []) :
    splitWithEscape s d 0 (some e) tr = .ok (specG e d tr [] (splitMax d 0 s)) :=
  C17_general_spec s d 0 e tr hd (escWithin_none e d s 0 [])

/-- **C17 (odd run stays).**  When the delimiter does not end with the escape character (and outside the
class above: without maxsplit, or no escaped delimiter among the real cuts allowed), the
result is `splitSpec`: the delimiter after a piece stays inside the item exactly when that piece
ends with an odd run of escapes (the last escape is dropped), otherwise the item is closed, its
trailing run halved when trimming.  The decision looks at nothing but that piece.
(Restated with fix C17-j like `C17_general_spec`; for every maxsplit the decision is that of the reference,
`C17_split_maxsplit_real_cuts`.) -/
theorem C17_odd_run_stays (s d : Str) (m : Nat) (e : Char) (tr : Bool) (hd : d ≠ [])
    (hl : d.getLast? ≠ some e) (h : escWithin e d (limOf m) 0 [] s = false) :
    splitWithEscape s d m (some e) tr = .ok (splitSpec e d tr [] (splitMax d m s)) := by
  rw [C17_general_spec s d m e tr hd h, specG_eq_splitSpec e d tr hd hl _ [] (run_nil e)]

theorem C17_odd_run_stays_no_maxsplit (s d : Str) (e : Char) (tr : Bool) (hd : d ≠ [])
    (hl : d.getLast? ≠ some e) :
    splitWithEscape s d 0 (some e) tr = .ok (splitSpec e d tr [] (splitMax d 0 s)) :=
  C17_odd_run_stays s d 0 e tr hd hl (escWithin_none e d s 0 [])

/-- **C17 (independence of neighbours).**  A boundary after a piece with an even run cuts the
computation in two: what comes before and what comes after are decoded independently. -/
theorem C17_independent (e : Char) (d : Str) (tr : Bool) (ps : List Str) (p q : Str) (qs : List Str)
    (hev : run e p % 2 ≠ 1) :
    splitSpec e d tr [] (ps ++ p :: q :: qs)
      = splitSpec e d tr [] (ps ++ [p]) ++ splitSpec e d tr [] (q :: qs) :=
  splitSpec_append e d tr p q qs hev ps []

/-- **C17 (totality).**  No text, maxsplit, escape setting or trim flag makes `split_with_escape`
fail; the empty delimiter is the `ValueError` of `str.split` itself. -/
theorem C17_total (s d : Str) (m : Nat) (esc : Option Char) (tr : Bool) (hd : d ≠ []) :
    ∃ r, splitWithEscape s d m esc tr = .ok r := by
  cases esc with
  | none => exact ⟨splitMax d m s, by simp [splitWithEscape, splitWithEscapeD, hd]⟩
  | some e => exact ⟨_, C17_split_is_reference s d m e tr hd⟩

/-- **C17 (no escape = plain split).**  If the escape character does not occur in the text (or no
escape character is given) the result is `str.split(delimiter, maxsplit)` — the `ValueError` for
an empty delimiter included. -/
theorem C17_no_escape_is_split (s d : Str) (m : Nat) (esc : Option Char) (tr : Bool)
    (h : ∀ e, esc = some e → e ∉ s) :
    splitWithEscape s d m esc tr = pySplit d m s := by
  by_cases hd : d = []
  · simp [splitWithEscape, splitWithEscapeD, pySplit, hd]
  · cases esc with
    | none => simp [splitWithEscape, splitWithEscapeD, pySplit, hd]
    | some e =>
      rw [C17_general_spec s d m e tr hd (escWithin_no_escape e d s _ 0 [] (by simp) (h e rfl)), pySplit, if_neg hd]
      rw [specG_no_escape e d tr (splitMax d m s)
        (fun p hp hc => h e rfl (splitAux_mem d (limOf m) 0 s p hp e hc))]

/-! ## `deserialize_list` after `join` -/

/-- **C17 (join round trip, `parse_empty=True`).**  Items that contain no character of the
delimiter (and not the escape character, if one is given; the delimiter does not contain it
either) come back unchanged. -/
theorem C17_join_roundtrip (d : Str) (items : List Str) (esc : Option Char) (hd : d ≠ [])
    (hne : items ≠ []) (hc : ∀ it ∈ items, Clean d it)
    (he : ∀ e, esc = some e → e ∉ d ∧ ∀ it ∈ items, e ∉ it) :
    deserializeList (join d items) d true esc = .ok items := by
  unfold deserializeList
  rw [C17_no_escape_is_split _ _ _ _ _ (by
    intro e hee hmem
    rcases mem_join d items e hmem with h | ⟨it, hit, h⟩
    · exact (he e hee).1 h
    · exact (he e hee).2 it hit h)]
  simp only [pySplit, if_neg hd, splitMax, limOf, if_true, split_join d hd items hne hc, bind,
    Except.bind, pure, Except.pure]
  simp

/-- **C17 (join round trip, default `parse_empty=False`).**  The same, empty items dropped. -/
theorem C17_join_roundtrip_drop_empty (d : Str) (items : List Str) (esc : Option Char) (hd : d ≠ [])
    (hne : items ≠ []) (hc : ∀ it ∈ items, Clean d it)
    (he : ∀ e, esc = some e → e ∉ d ∧ ∀ it ∈ items, e ∉ it) :
    deserializeList (join d items) d false esc = .ok (items.filter (fun it => !it.isEmpty)) := by
  unfold deserializeList
  rw [C17_no_escape_is_split _ _ _ _ _ (by
    intro e hee hmem
    rcases mem_join d items e hmem with h | ⟨it, hit, h⟩
    · exact (he e hee).1 h
    · exact (he e hee).2 it hit h)]
  simp only [pySplit, if_neg hd, splitMax, limOf, if_true, split_join d hd items hne hc, bind,
    Except.bind, pure, Except.pure]
  simp

/-- **C17 (list of lists, join round trip; fix C17-i).**  Inner items joined with the inner
delimiter, the lists joined with the outer one; no item contains a character of either
delimiter, the inner delimiter contains no character of the outer one, there is at least one
list and every list has at least one item (`''.split(d) == ['']`, as in the flat theorem).
* `parse_empty=True`: `deserialize_list_of_lists` returns the lists — empty items included (before
  the fix the inner call ran with `parse_empty=False` and dropped them), the list `['']` included.
* `parse_empty=False` (the default): a list whose joined text is empty — exactly the list `['']`,
  `C17_sublist_text_empty_iff` — is dropped, and every other list loses its empty items (a list of
  several empty items comes back as `[]`). -/
theorem C17_list_of_lists_roundtrip (d ds : Str) (lists : List (List Str)) (hd : d ≠ []) (hds : ds ≠ [])
    (hne : lists ≠ []) (hine : ∀ l ∈ lists, l ≠ [])
    (hc : ∀ l ∈ lists, ∀ it ∈ l, Clean d it ∧ Clean ds it) (hdd : Clean d ds) :
    deserializeListOfLists (join d (lists.map (join ds))) d ds true = .ok lists
    ∧ deserializeListOfLists (join d (lists.map (join ds))) d ds false
        = .ok ((lists.filter (fun l => !(join ds l).isEmpty)).map (fun l => l.filter (fun it => !it.isEmpty))) := by
  have hne' : lists.map (join ds) ≠ [] := by cases lists <;> simp_all
  have hclean : ∀ t ∈ lists.map (join ds), Clean d t := by
    intro t ht
    obtain ⟨l, hl, rfl⟩ := List.mem_map.1 ht
    exact clean_join d ds l (fun it hit => (hc l hl it hit).1) hdd
  constructor
  · unfold deserializeListOfLists
    rw [C17_join_roundtrip d _ none hd hne' hclean (by intro e he; cases he)]
    simp only [bind, Except.bind]
    rw [List.mapM_map]
    have := mapM_ok (fun l => deserializeList (join ds l) ds true none) id lists (by
      intro l hl
      exact C17_join_roundtrip ds l none hds (hine l hl) (fun it hit => (hc l hl it hit).2)
        (by intro e he; cases he))
    have hfun : ((fun it => deserializeList it ds true none) ∘ join ds)
        = (fun l => deserializeList (join ds l) ds true none) := rfl
    rw [hfun, this]
    simp
  · unfold deserializeListOfLists
    rw [C17_join_roundtrip_drop_empty d _ none hd hne' hclean (by intro e he; cases he)]
    simp only [bind, Except.bind]
    rw [List.filter_map, List.mapM_map]
    apply mapM_ok
    intro l hl
    have hl' : l ∈ lists := (List.mem_filter.1 hl).1
    exact C17_join_roundtrip_drop_empty ds l none hds (hine l hl') (fun it hit => (hc l hl' it hit).2)
      (by intro e he; cases he)

/-- which lists the default `parse_empty=False` drops: the joined text of a non-empty list is empty
exactly for `['']` -/
theorem C17_sublist_text_empty_iff (ds : Str) (hds : ds ≠ []) (l : List Str) (hl : l ≠ []) :
    (join ds l).isEmpty = true ↔ l = [[]] := by
  rw [List.isEmpty_iff]
  exact join_eq_nil_iff ds hds l hl

/-- the audit's witness of C17-i and the corner cases, on the model of the fixed code -/
theorem C17_list_of_lists_witness :
    deserializeListOfLists ['a', ',', ',', 'b', ';', 'c'] [';'] [','] true = .ok [[['a'], [], ['b']], [['c']]]
    ∧ deserializeListOfLists ['a', ',', ',', 'b', ';', ';', 'c'] [';'] [','] true
        = .ok [[['a'], [], ['b']], [[]], [['c']]]
    ∧ deserializeListOfLists ['a', ',', ',', 'b', ';', ';', ',', ';', 'c'] [';'] [','] false
        = .ok [[['a'], ['b']], [], [['c']]] := by
  decide

/-- `deserialize_fixed_list`: the items, padded with the default item or cut to the fixed length -/
theorem C17_fixed_list (d : Str) (items : List Str) (n : Nat) (dflt : Option Str) (hd : d ≠ [])
    (hne : items ≠ []) (hc : ∀ it ∈ items, Clean d it) :
    deserializeFixedList (join d items) d n dflt true
        = .ok ((items.map some ++ List.replicate n dflt).take n)
    ∧ (deserializeFixedList (join d items) d n dflt true).toOption.map List.length = some n := by
  unfold deserializeFixedList
  rw [C17_join_roundtrip d items none hd hne hc (by intro e he; cases he)]
  refine ⟨rfl, ?_⟩
  simp [bind, Except.bind, pure, Except.pure, Except.toOption]

/-- `get_value_by_tag`: the value of `tag` in `k=v;…`; the default value when the tag is missing,
has no `=` (it then *holds* the default value) or has the empty value -/
theorem C17_value_by_tag_examples :
    getValueByTag ['b'] "a;b=1;c=".toList [';'] ['='] none none = .ok (some ['1'])
    ∧ getValueByTag ['a'] "a;b=1;c=".toList [';'] ['='] none (some ['D']) = .ok (some ['D'])
    ∧ getValueByTag ['c'] "a;b=1;c=".toList [';'] ['='] none (some ['D']) = .ok (some ['D'])
    ∧ getValueByTag ['z'] "a;b=1;c=".toList [';'] ['='] none none = .ok none := by
  decide

example : Clean [';'] [','] ∧ join [';'] ([[['a'], [], ['b']], [[]], [['c']]].map (join [','])) = "a,,b;;c".toList := by
  decide
example : deserializeFixedList "a;;b".toList [';'] 5 none true = .ok [some ['a'], some [], some ['b'], none, none] := by decide
example : deserializeFixedList "a;;b".toList [';'] 2 none false = .ok [some ['a'], some ['b']] := by decide

/-! ## key=value and mappings -/

/-- **C17 (default value).**  An item in which the equal tag does not occur yields
`(item, default_value)`. -/
theorem C17_default_value (eq s : Str) (dv : Option Str) (heq : eq ≠ []) (h : isInfix eq s = false) :
    keyValue eq none dv s = .ok (s, dv) := by
  simp [keyValue, heq, splitAux_no_occ eq _ s h, truthyKey]

/-- key=value: the first equal tag splits -/
theorem C17_key_value (eq k v : Str) (dk dv : Option Str) (heq : eq ≠ []) (hk : Clean eq k) :
    keyValue eq dk dv (k ++ eq ++ v) = .ok (k, some v) := by
  rw [keyValue, if_neg heq, splitAux_pair eq k v heq hk]

/-- `unescape(deserialize_dict(serialize_dict(v, d, eq), d, equal_tag=eq))` -/
def dictRoundTrip (d eq : Str) (v : Val) : Option (List (Str × Option Str)) :=
  match serializeDict d eq v with
  | .ok (some text) =>
    match deserializeDict text d eq false none none with
    | .ok ps =>
      match unescapeDict ps with
      | .ok r => some r
      | .error _ => none
    | .error _ => none
  | _ => none

/-- **C17 (flat mapping round trip).**  A flat mapping with unique keys that contain no separator
character and arbitrary string values — every character, inside and outside ASCII (fix C17-e), the
whole reserved alphabet included: delimiter, equal tag, backslash, braces, brackets, quote —
serialises to `k=v;…` and comes back unchanged through `deserialize_dict` and `unescape`.
Separators: non-empty, free of backslash, `x` and lower-case hex digits, sharing no character, and
(`WideOk`) free of `u`/`U` if one of their characters is above U+00FF. -/
theorem C17_dict_roundtrip (d eq : Str) (c : Cls) (m : List (Str × Str))
    (hd : d ≠ []) (heq : eq ≠ []) (hsd : SafeSep d) (hse : SafeSep eq) (hdis : ∀ ch ∈ eq, ch ∉ d)
    (hw : WideOk d eq)
    (hkeys : (m.map Prod.fst).Nodup) (hk : ∀ kv ∈ m, Clean d kv.1 ∧ Clean eq kv.1) :
    dictRoundTrip d eq (flatVal c m) = some (m.map (fun kv => (kv.1, some kv.2))) := by
  unfold dictRoundTrip
  rw [serializeDict_flat d eq heq c m]
  simp only
  have hb : '\\' ∈ dangerous d eq := by simp [dangerous]
  have hdsub : ∀ ch ∈ d, ch ∈ dangerous d eq := by intro ch h; simp [dangerous, h]
  have hesub : ∀ ch ∈ eq, ch ∈ dangerous d eq := by intro ch h; simp [dangerous, h]
  have hud : (∀ a ∈ dangerous d eq, a.toNat < 0x100) ∨ (∀ c ∈ d, c ≠ 'u' ∧ c ≠ 'U') :=
    wideOk_dangerous d eq d hw (fun c h => by simp [h])
  -- the list of items
  have hlist : deserializeList (join d (m.map (itemOf d eq))) d false none = .ok (m.map (itemOf d eq)) := by
    cases hm : m with
    | nil => simp [join, deserializeList, splitWithEscape, splitWithEscapeD, hd, splitMax, Esc.splitAux, bind,
        Except.bind, pure, Except.pure]
    | cons kv0 m' =>
      rw [← hm]
      have hne : m.map (itemOf d eq) ≠ [] := by rw [hm]; simp
      have hclean : ∀ it ∈ m.map (itemOf d eq), Clean d it := by
        intro it hit
        obtain ⟨kv, hkv, rfl⟩ := List.mem_map.1 hit
        intro ch hch
        simp only [itemOf, List.mem_append] at hch
        rcases hch with (hch | hch) | hch
        · exact (hk kv hkv).1 ch hch
        · exact hdis ch hch
        · exact escapeValue_clean _ d kv.2 hsd hdsub hud ch hch
      rw [C17_join_roundtrip_drop_empty d _ none hd hne hclean (by intro e he; cases he)]
      congr 1
      apply List.filter_eq_self.2
      intro it hit
      obtain ⟨kv, _, rfl⟩ := List.mem_map.1 hit
      cases eq with
      | nil => exact absurd rfl heq
      | cons a t => simp [itemOf]
  have hpairs : (m.map (itemOf d eq)).mapM (keyValue eq none none)
      = .ok ((m.map (itemOf d eq)).map (fun it =>
          match Esc.splitAux eq (some 1) 0 it with
          | [k, v] => (k, some v)
          | _ => (it, none))) := by
    apply mapM_ok
    intro it hit
    obtain ⟨kv, hkv, rfl⟩ := List.mem_map.1 hit
    rw [itemOf, C17_key_value eq _ _ none none heq (hk kv hkv).2, splitAux_pair eq _ _ heq (hk kv hkv).2]
  have hmap : (m.map (itemOf d eq)).map (fun it =>
          match Esc.splitAux eq (some 1) 0 it with
          | [k, v] => (k, some v)
          | _ => (it, none))
      = m.map (fun kv => (kv.1, some (escapeValue (dangerous d eq) kv.2))) := by
    rw [List.map_map]
    apply List.map_congr_left
    intro kv hkv
    simp only [Function.comp, itemOf]
    rw [splitAux_pair eq _ _ heq (hk kv hkv).2]
  simp only [deserializeDict, hlist, hpairs, hmap, bind, Except.bind, pure, Except.pure]
  rw [dictOfPairs_nodup _ (by rw [List.map_map]; exact hkeys)]
  rw [unescapeDict_ok m (escapeValue (dangerous d eq))
    (fun kv _ => unescape_escapeValue _ _ hb)]

/-- `unescape(deserialize_dict(serialize_dict(v, d, eq, generate_empty=ge, generate_none=gn), d,
equal_tag=eq, default_value=dv))` -/
def dictRoundTripF (d eq : Str) (ge gn : Bool) (dv : Option Str) (v : Val) :
    Option (List (Str × Option Str)) :=
  match ser ⟨d, eq, ge, gn, 0, 0⟩ 0 v with
  | .ok (some text) =>
    match deserializeDict text d eq false none dv with
    | .ok ps =>
      match unescapeDict ps with
      | .ok r => some r
      | .error _ => none
    | .error _ => none
  | _ => none

/-- **C17 (flat mapping round trip under `generate_empty` / `generate_none`, composed with the
default value; fix C17-h).**  A flat mapping whose values are strings or `None`, serialised with
any setting of the two flags, deserialised with any default value `dv` and unescaped, comes back
entry by entry, in order: an entry written with the equal tag (`writesEq`: a non-empty string
always, `''` iff `generate_empty`, `None` iff `generate_none or generate_empty`) comes back as its
string (`None` as `''`); an entry written as a bare key comes back with the — unescaped — default
value, `None` included: the call does not raise (before the fix `None.copy()` raised
`AttributeError` as soon as one key had got the default value).  A bare key must be non-empty
(the empty item is dropped by `parse_empty=False`).  Separators as in `C17_dict_roundtrip`. -/
theorem C17_dict_roundtrip_flags (d eq : Str) (c : Cls) (ge gn : Bool) (m : List (Str × Option Str))
    (dv dvu : Option Str)
    (hd : d ≠ []) (heq : eq ≠ []) (hsd : SafeSep d) (hse : SafeSep eq) (hdis : ∀ ch ∈ eq, ch ∉ d)
    (hw : WideOk d eq)
    (hkeys : (m.map Prod.fst).Nodup) (hk : ∀ kv ∈ m, Clean d kv.1 ∧ Clean eq kv.1)
    (hbare : ∀ kv ∈ m, writesEq ge gn kv.2 = false → kv.1 ≠ [])
    (hdv : unescapeOpt dv = .ok dvu) :
    dictRoundTripF d eq ge gn dv (flatValO c m)
      = some (m.map (fun kv => (kv.1, if writesEq ge gn kv.2 then some (kv.2.getD []) else dvu))) := by
  unfold dictRoundTripF
  have hitems : ∀ kv ∈ m, itemOfF d eq ge gn kv ≠ [] := by
    intro kv hkv
    unfold itemOfF
    cases hwq : writesEq ge gn kv.2 with
    | true =>
      cases eq with
      | nil => exact absurd rfl heq
      | cons a t => simp
    | false => simpa using hbare kv hkv hwq
  have hser := ser_flatF d eq ge gn c m hitems
  simp only [cF] at hser
  rw [hser]
  simp only
  have hb : '\\' ∈ dangerous d eq := by simp [dangerous]
  have hdsub : ∀ ch ∈ d, ch ∈ dangerous d eq := by intro ch h; simp [dangerous, h]
  have hud : (∀ a ∈ dangerous d eq, a.toNat < 0x100) ∨ (∀ c ∈ d, c ≠ 'u' ∧ c ≠ 'U') :=
    wideOk_dangerous d eq d hw (fun c h => by simp [h])
  have hlist : deserializeList (join d (m.map (itemOfF d eq ge gn))) d false none
      = .ok (m.map (itemOfF d eq ge gn)) := by
    cases hm : m with
    | nil => simp [join, deserializeList, splitWithEscape, splitWithEscapeD, hd, splitMax, Esc.splitAux, bind,
        Except.bind, pure, Except.pure]
    | cons kv0 m' =>
      rw [← hm]
      have hne : m.map (itemOfF d eq ge gn) ≠ [] := by rw [hm]; simp
      have hclean : ∀ it ∈ m.map (itemOfF d eq ge gn), Clean d it := by
        intro it hit
        obtain ⟨kv, hkv, rfl⟩ := List.mem_map.1 hit
        intro ch hch
        unfold itemOfF at hch
        split at hch
        · simp only [List.mem_append] at hch
          rcases hch with (hch | hch) | hch
          · exact (hk kv hkv).1 ch hch
          · exact hdis ch hch
          · exact escapeValue_clean _ d _ hsd hdsub hud ch hch
        · exact (hk kv hkv).1 ch hch
      rw [C17_join_roundtrip_drop_empty d _ none hd hne hclean (by intro e he; cases he)]
      congr 1
      apply List.filter_eq_self.2
      intro it hit
      obtain ⟨kv, hkv, rfl⟩ := List.mem_map.1 hit
      have := hitems kv hkv
      cases hi : itemOfF d eq ge gn kv with
      | nil => exact absurd hi this
      | cons _ _ => rfl
  have hpairs : (m.map (itemOfF d eq ge gn)).mapM (keyValue eq none dv)
      = .ok (m.map (fun kv => (kv.1,
          if writesEq ge gn kv.2 then some (escapeValue (dangerous d eq) (kv.2.getD [])) else dv))) := by
    rw [List.mapM_map]
    apply mapM_ok
    intro kv hkv
    simp only [Function.comp, itemOfF]
    cases hwq : writesEq ge gn kv.2 with
    | true =>
      simp only [if_true]
      exact C17_key_value eq _ _ none dv heq (hk kv hkv).2
    | false =>
      simp only [Bool.false_eq_true, if_false]
      simp [keyValue, heq, splitAux_clean eq (some 1) kv.1 heq (hk kv hkv).2, truthyKey]
  simp only [deserializeDict, hlist, hpairs, bind, Except.bind, pure, Except.pure]
  rw [dictOfPairs_nodup _ (by rw [List.map_map]; exact hkeys)]
  rw [unescapeDict_map m _ (fun kv => (kv.1, if writesEq ge gn kv.2 then some (kv.2.getD []) else dvu))]
  intro kv _
  refine ⟨rfl, ?_⟩
  cases writesEq ge gn kv.2 with
  | true => simp [unescapeOpt, unescape_escapeValue _ _ hb, Except.map]
  | false => simpa using hdv

/-- the statement's two clauses composed: with `default_value=''` a mapping of strings comes back
**the same** whatever the flags are (a value `''` that `generate_empty=False` left out is the
default value again) -/
theorem C17_dict_roundtrip_empty_default (d eq : Str) (c : Cls) (ge gn : Bool) (m : List (Str × Str))
    (hd : d ≠ []) (heq : eq ≠ []) (hsd : SafeSep d) (hse : SafeSep eq) (hdis : ∀ ch ∈ eq, ch ∉ d)
    (hw : WideOk d eq)
    (hkeys : (m.map Prod.fst).Nodup) (hk : ∀ kv ∈ m, Clean d kv.1 ∧ Clean eq kv.1)
    (hbare : ∀ kv ∈ m, ge = false → kv.2 = [] → kv.1 ≠ []) :
    dictRoundTripF d eq ge gn (some []) (flatValO c (m.map (fun kv => (kv.1, some kv.2))))
      = some (m.map (fun kv => (kv.1, some kv.2))) := by
  rw [C17_dict_roundtrip_flags d eq c ge gn _ (some []) (some []) hd heq hsd hse hdis hw
    (by rw [List.map_map]; exact hkeys)
    (by intro kv hkv; obtain ⟨x, hx, rfl⟩ := List.mem_map.1 hkv; exact hk x hx)
    (by
      intro kv hkv hwq
      obtain ⟨x, hx, rfl⟩ := List.mem_map.1 hkv
      cases hv : x.2 with
      | nil =>
        simp only [hv, writesEq] at hwq
        exact hbare x hx hwq hv
      | cons a t => simp [hv, writesEq] at hwq)
    (by decide)]
  rw [List.map_map]
  congr 1
  apply List.map_congr_left
  intro kv _
  simp only [Function.comp, Option.getD_some]
  cases hv : kv.2 with
  | nil => cases ge <;> simp [writesEq]
  | cons a t => simp [writesEq]

/-- `unescape(deserialize_dict(s, d, equal_tag=eq, default_value=dv))` -/
def deserUnescape (s d eq : Str) (dv : Option Str) : Option (List (Str × Option Str)) :=
  match deserializeDict s d eq false none dv with
  | .ok ps =>
    match unescapeDict ps with
    | .ok r => some r
    | .error _ => none
  | .error _ => none

/-- the audit's witnesses of C17-h on the model of the fixed code: `unescape(deserialize_dict('a;b=1'))`
is `{'a': None, 'b': '1'}`, and `{'a': '', 'b': 'x'}` written with `generate_empty=False` (`a;b=x`)
comes back with `a` holding the default value -/
theorem C17_default_unescape_witness :
    deserUnescape ['a', ';', 'b', '=', '1'] [';'] ['='] none = some [(['a'], none), (['b'], some ['1'])]
    ∧ dictRoundTripF [';'] ['='] false true none (flatValO .plain [(['a'], some []), (['b'], some ['x'])])
      = some [(['a'], none), (['b'], some ['x'])]
    ∧ dictRoundTripF [';'] ['='] false true (some []) (flatValO .plain [(['a'], some []), (['b'], some ['x'])])
      = some [(['a'], some []), (['b'], some ['x'])] := by
  decide

/-- **C17 (`unescape` of a mapping with default values; fix C17-h).**  `unescape` of a mapping whose
values are strings or `None` fails only because one of its *string* values is not decodable
(`UnicodeDecodeError`, or a `\\N{…}` escape outside the model); a `None` value never makes it
fail and is kept -/
theorem C17_unescape_none_kept (ps : List (Str × Option Str)) :
    (∀ e, unescapeDict ps = .error e → ∃ kv ∈ ps, ∃ s, kv.2 = some s ∧ unescape s = .error e)
    ∧ (∀ r, unescapeDict ps = .ok r →
        r.map Prod.fst = ps.map Prod.fst ∧ ∀ k, (k, none) ∈ ps ↔ (k, none) ∈ r) := by
  refine ⟨fun e h => unescapeDict_error ps e h, ?_⟩
  induction ps with
  | nil => intro r h; cases h; simp
  | cons p ps ih =>
    obtain ⟨k, v⟩ := p
    intro r h
    simp only [unescapeDict] at h
    cases hv : unescapeOpt v with
    | error e => rw [hv] at h; cases h
    | ok v' =>
      rw [hv] at h
      cases hr : unescapeDict ps with
      | error e => rw [hr] at h; cases h
      | ok r' =>
        rw [hr] at h
        simp only [Except.map] at h
        cases h
        obtain ⟨i1, i2⟩ := ih r' hr
        have hnone : v = none ↔ v' = none := by
          cases v with
          | none => simp [unescapeOpt] at hv; simp [hv.symm]
          | some s =>
            simp only [unescapeOpt] at hv
            cases hu : unescape s with
            | error e => rw [hu] at hv; cases hv
            | ok s' => rw [hu] at hv; simp only [Except.map] at hv; cases hv; simp
        refine ⟨by simp [i1], fun k' => ?_⟩
        simp only [List.mem_cons, Prod.mk.injEq, i2 k']
        constructor
        · rintro (⟨rfl, h⟩ | h)
          · exact .inl ⟨rfl, (hnone.mp h.symm).symm⟩
          · exact .inr h
        · rintro (⟨rfl, h⟩ | h)
          · exact .inl ⟨rfl, (hnone.mpr h.symm).symm⟩
          · exact .inr h

/-! Non-vacuity (flags): every way of writing an entry occurs -/
example : ser ⟨[';'], ['='], false, false, 0, 0⟩ 0
      (flatValO .plain [(['a'], some []), (['n'], none), (['b'], some ['x', ';'])])
    = .ok (some "a;n;b=x\\x3b".toList) := by decide
example : dictRoundTripF [';'] ['='] false false (some ['D']) (flatValO .plain [(['a'], some []), (['n'], none), (['b'], some ['x', ';'])])
    = some [(['a'], some ['D']), (['n'], some ['D']), (['b'], some ['x', ';'])] := by decide
example : dictRoundTripF [';'] ['='] false true none (flatValO .plain [(['a'], some []), (['n'], none), (['b'], some ['x', ';'])])
    = some [(['a'], none), (['n'], some []), (['b'], some ['x', ';'])] := by decide
example : dictRoundTripF [';'] ['='] true false none (flatValO .plain [(['a'], some []), (['n'], none)])
    = some [(['a'], some []), (['n'], some [])] := by decide
example : writesEq false false none = false ∧ writesEq false true none = true ∧ writesEq false true (some []) = false := by decide
example : unescapeOpt (some "\\x41".toList) = .ok (some ['A']) := by decide

/-- **C17 (reserved characters in values are protected).**  The text written for a value — any
text — contains no character of the delimiter or of the equal tag, no brace, bracket or double
quote; what it contains beyond the harmless characters of the value is the `\\xNN` (`\\uNNNN`,
`\\UNNNNNNNN` for a reserved character above U+00FF) notation. -/
theorem C17_values_protected (d eq v : Str) (hsd : SafeSep d) (hse : SafeSep eq) (hw : WideOk d eq) :
    Clean d (escapeValue (dangerous d eq) v) ∧ Clean eq (escapeValue (dangerous d eq) v)
      ∧ Clean ['{', '}', '[', ']', '"'] (escapeValue (dangerous d eq) v) :=
  ⟨escapeValue_clean _ d v hsd (by intro ch h; simp [dangerous, h])
     (wideOk_dangerous d eq d hw (fun c h => by simp [h])),
   escapeValue_clean _ eq v hse (by intro ch h; simp [dangerous, h])
     (wideOk_dangerous d eq eq hw (fun c h => by simp [h])),
   escapeValue_clean _ _ v (by decide) (by
     intro ch h
     simp only [List.mem_cons, List.not_mem_nil, or_false] at h
     rcases h with h | h | h | h | h <;> simp [dangerous, h]) (Or.inr (by decide))⟩

/-- **C17 (nested mappings serialise).**  On every tree of mappings, lists and scalars in which no
list directly contains `None`, with every setting of the flags, `serialize_dict` raises nothing.
(`capitalize_* ≠ 0` on text outside ASCII is outside the modelled case tables: the model then
answers `Unsupported`, never a Python exception.) -/
theorem C17_nested_serialises (c : SCfg) (v : Val) (lvl : Nat) (h : noNone v = true)
    (hcap : c.capK = 0 ∧ c.capV = 0) : ∃ r, ser c lvl v = .ok r := by
  cases hr : ser c lvl v with
  | ok r => exact ⟨r, rfl⟩
  | error e =>
    have := (ser_good c v lvl h e hr).2
    rcases this with h' | h'
    · exact absurd hcap.1 h'
    · exact absurd hcap.2 h'

theorem C17_nested_serialises_any_flags (c : SCfg) (v : Val) (lvl : Nat) (h : noNone v = true)
    (e : PyErr) (he : ser c lvl v = .error e) : e = .Unsupported :=
  (ser_good c v lvl h e he).1


/-! ## INI: `load_ini(save_file(mapping))`, typing of values, `+=`, comments -/

/-- **C17 (typed values).**  `default_parse_value` types a text as `typedSpec` describes its stripped
form, wherever the model answers (`Exact`: no numeric or white-space character outside ASCII, a
decimal has at most 15 significant digits, at most 7 of them after the point, and is zero or at
least `0.0001`). -/
theorem C17_ini_value_typing (raw : Str) (h : Exact (stripWs raw)) :
    parseValue raw = .ok (typedSpec (stripWs raw)) :=
  parseValue_spec raw h

/-- **C17 (which texts are numbers).**  A stripped text `t` comes back
* as the integer it spells when it is `[+-]digits`;
* as the decimal it spells (its `repr`: no superfluous zeros) when it is `[+-]digits.digits` with a
  digit on at least one side of the point;
* without its quotes when it starts and ends with the same quote (and is at least two characters long);
* unchanged otherwise — also when `isnumber` lets it through but it is no literal (`.`, `- 5`:
  fix C17-f). -/
theorem C17_ini_typing_cases (t : Str) :
    (isIntLit t = true → typedSpec t = .int (intVal t)) ∧
    (isIntLit t = false → ∀ ip fp, decParts t = some (ip, fp) →
        typedSpec t = .flt (decLexeme (isNeg t) ip fp)) ∧
    (isIntLit t = false → decParts t = none → isQuoted t = true →
        typedSpec t = .str (t.drop 1).dropLast) ∧
    (isIntLit t = false → decParts t = none → isQuoted t = false → typedSpec t = .str t) := by
  refine ⟨?_, ?_, ?_, ?_⟩
  · intro h; simp [typedSpec, h]
  · intro h ip fp hd; simp [typedSpec, h, hd]
  · intro h hd hq; simp [typedSpec, h, hd, textOf, hq]
  · intro h hd hq; simp [typedSpec, h, hd, textOf, hq]

/-- an integer value of the mapping is written as its digits and comes back as itself; a text value
comes back as its stripped text, typed -/
theorem C17_ini_loaded (i : Int) (s : Str) :
    loaded (.int i) = .int i ∧ loaded (.str s) = typedSpec (stripWs s) :=
  ⟨loaded_int i, rfl⟩

/-- **C17 (INI round trip, lines).**  For every non-empty equal tag and every mapping whose keys are
non-empty stripped ASCII names that contain no character of the equal tag, start no comment and do
not end with `+`, and whose values are scalars on whose printed form the model answers: parsing the
lines `key eq value` that `save_file` writes gives the dictionary built from the upper-cased keys
and the typed values (a later entry with the same upper-cased key replaces the value at the place
of the first, as `dict` does). -/
theorem C17_ini_roundtrip_scalars (eq : Str) (m : List (Str × Val)) (heq : eq ≠ [])
    (hm : ∀ kv ∈ m, IniKey eq kv.1 ∧ kv.1.getLast? ≠ some '+' ∧ Exact (stripWs (pyStr kv.2))) :
    parseIni eq (iniLines eq m) = .ok (dictOfPairs (m.map (fun kv => (upper kv.1, loaded kv.2)))) := by
  unfold parseIni dictOfPairs
  rw [parseFrom_iniLines eq heq m hm [], List.foldl_map]

/-- **C17 (INI round trip).**  The statement's case: text keys, values that are integers or texts.
The mapping loads back with upper-cased keys, integers as integers, and every text typed as
`C17_ini_typing_cases` says (a text that spells a number loads as that number). -/
theorem C17_ini_roundtrip (eq : Str) (m : List (Str × Val)) (heq : eq ≠ [])
    (hk : ∀ kv ∈ m, IniKey eq kv.1 ∧ kv.1.getLast? ≠ some '+') (hv : ∀ kv ∈ m, IniValue kv.2) :
    parseIni eq (iniLines eq m) = .ok (dictOfPairs (m.map (fun kv => (upper kv.1, loaded kv.2)))) :=
  C17_ini_roundtrip_scalars eq m heq
    (fun kv h => ⟨(hk kv h).1, (hk kv h).2, (hv kv h).exact⟩)

/-- the same when the upper-cased keys are pairwise different: entry by entry, in order -/
theorem C17_ini_roundtrip_unique (eq : Str) (m : List (Str × Val)) (heq : eq ≠ [])
    (hk : ∀ kv ∈ m, IniKey eq kv.1 ∧ kv.1.getLast? ≠ some '+') (hv : ∀ kv ∈ m, IniValue kv.2)
    (hu : (m.map (fun kv => upper kv.1)).Nodup) :
    parseIni eq (iniLines eq m) = .ok (m.map (fun kv => (upper kv.1, loaded kv.2))) := by
  rw [C17_ini_roundtrip eq m heq hk hv, dictOfPairs_nodup _ (by rw [List.map_map]; exact hu)]

/-- **C17 (INI round trip through the file).**  When moreover no key, no printed value and the equal
tag contain a line break, reading the text `save_file` writes (`'\n'.join(lines)`) line by line,
as `load_lines` does, gives those lines back, so `load_ini(save_file(m))` is the same dictionary. -/
theorem C17_ini_file_roundtrip (eq : Str) (m : List (Str × Val)) (heq : eq ≠ [])
    (hm : ∀ kv ∈ m, IniKey eq kv.1 ∧ kv.1.getLast? ≠ some '+' ∧ Exact (stripWs (pyStr kv.2)))
    (hkl : ∀ kv ∈ m, ∀ c ∈ kv.1, c ≠ '\n' ∧ c ≠ '\r') (hel : ∀ c ∈ eq, c ≠ '\n' ∧ c ≠ '\r')
    (hvl : ∀ kv ∈ m, ∀ c ∈ pyStr kv.2, c ≠ '\n' ∧ c ≠ '\r') :
    loadIni eq (iniText eq m) = .ok (dictOfPairs (m.map (fun kv => (upper kv.1, loaded kv.2)))) := by
  unfold loadIni iniText
  rw [readLines_join _ (iniLines_line_ok eq heq m hkl hel hvl)]
  exact C17_ini_roundtrip_scalars eq m heq hm

/-- **C17 (`+=` concatenation).**  After any lines that parsed to `acc`, a line `K+=value` — with or
without blanks between the key and `+` (fix C17-g) — appends the printed typed value to the printed
value already stored under `K` (the result is a text, also when both were numbers); on a key not
seen before it stores the value behind the marker character `\x16`. -/
theorem C17_ini_concat (eq k ws raw : Str) (lines : List Str) (acc : List (Str × Val)) (heq : eq ≠ [])
    (hk : IniKey eq k) (hws : Blanks eq ws) (hplus : '+' ∉ eq) (hv : Exact (stripWs raw))
    (hacc : parseIni eq lines = .ok acc) :
    parseIni eq (lines ++ [k ++ ws ++ ['+'] ++ eq ++ raw]) =
      .ok (match Val.lookup (upper k) acc with
           | some old => dictSet (upper k) (.str (pyStr old ++ pyStr (typedSpec (stripWs raw)))) acc
           | none => dictSet (upper k) (.str (marker :: pyStr (typedSpec (stripWs raw)))) acc) := by
  unfold parseIni at hacc ⊢
  rw [parseFrom_append, hacc]
  simp only [parseFrom]
  obtain ⟨hig, hpl⟩ := parseLine_key eq (k ++ ws ++ ['+']) raw heq (iniKey_plus eq k ws hk hws hplus) hv
  unfold stepLine
  rw [hig, hpl]
  simp only [Bool.false_eq_true, if_false]
  have hup : upper (k ++ ws ++ ['+']) = upper k ++ upper ws ++ ['+'] := by
    simp [upper, toUpperAscii]
  rw [hup, store_plus _ _ _ _ (upper_key_last k hk.stripped) (upper_blanks ws (fun c hc => (hws c hc).1))]
  cases Val.lookup (upper k) acc <;> rfl

/-- `K=a` followed by `K+=b` gives the printed `a` followed by the printed `b` -/
theorem C17_ini_concat_seen (eq k ws a b : Str) (heq : eq ≠ []) (hk : IniKey eq k)
    (hnp : k.getLast? ≠ some '+') (hws : Blanks eq ws) (hplus : '+' ∉ eq)
    (ha : Exact (stripWs a)) (hb : Exact (stripWs b)) :
    parseIni eq [k ++ eq ++ a, k ++ ws ++ ['+'] ++ eq ++ b] =
      .ok [(upper k, .str (pyStr (typedSpec (stripWs a)) ++ pyStr (typedSpec (stripWs b))))] := by
  have h1 : parseIni eq [k ++ eq ++ a] = .ok [(upper k, typedSpec (stripWs a))] := by
    have := C17_ini_roundtrip_scalars eq [(k, .str a)] heq (by
      intro kv hkv; simp only [List.mem_singleton] at hkv; subst hkv; exact ⟨hk, hnp, ha⟩)
    simpa [iniLines, pyStr, dictOfPairs, dictSet, loaded] using this
  have := C17_ini_concat eq k ws b [k ++ eq ++ a] _ heq hk hws hplus hb h1
  simp only [List.cons_append, List.nil_append] at this
  rw [this]
  simp [Val.lookup, dictSet]

/-- `K+=b` on a key not seen before gives the marker followed by the printed `b` -/
theorem C17_ini_concat_unseen (eq k ws b : Str) (heq : eq ≠ []) (hk : IniKey eq k)
    (hws : Blanks eq ws) (hplus : '+' ∉ eq) (hb : Exact (stripWs b)) :
    parseIni eq [k ++ ws ++ ['+'] ++ eq ++ b] =
      .ok [(upper k, .str (marker :: pyStr (typedSpec (stripWs b))))] := by
  have := C17_ini_concat eq k ws b [] [] heq hk hws hplus hb rfl
  simp only [List.nil_append] at this
  rw [this]
  simp [Val.lookup, dictSet]

/-- **C17 (comments and blank lines are ignored).**  Lines that are blank after `lstrip()` or start
(after leading white space) with `#` or `//` can be removed, wherever they stand, without changing
the result — errors of other lines included. -/
theorem C17_ini_comments_ignored (eq : Str) (lines : List Str) :
    parseIni eq (lines.filter (fun l => !isIgnored l)) = parseIni eq lines :=
  parseFrom_filter eq lines []

/-- the same for one comment line between any two groups of lines -/
theorem C17_ini_comment_line_ignored (eq : Str) (pre post : List Str) (c : Str) (hc : isIgnored c = true) :
    parseIni eq (pre ++ c :: post) = parseIni eq (pre ++ post) := by
  rw [← C17_ini_comments_ignored eq (pre ++ c :: post), ← C17_ini_comments_ignored eq (pre ++ post)]
  simp [List.filter_append, hc]

/-! ## counter-examples and limits (the model exhibits them; the harness replays them) -/

/-- fixed finding C17-e: text outside ASCII survives `unescape` (before the fix `{'k':'é'}` came
back as `{'k':'Ã©'}`), and so does a reserved character above U+00FF (it was written `\\x20ac`) -/
theorem C17_nonascii_example :
    dictRoundTrip [';'] ['='] (flatVal .plain [(['k'], ['é', '€', ';'])]) = some [(['k'], some ['é', '€', ';'])]
    ∧ serializeDict ['€'] ['='] (flatVal .plain [(['k'], ['a', '€', 'é'])])
        = .ok (some ['k', '=', 'a', '\\', 'u', '2', '0', 'a', 'c', 'é'])
    ∧ dictRoundTrip ['€'] ['='] (flatVal .plain [(['k'], ['a', '€', 'é'])]) = some [(['k'], some ['a', '€', 'é'])] := by
  decide

/-- a list that directly contains `None` makes `serialize_dict` raise `TypeError` (`str += None`);
outside the statement (it speaks of nested mappings), kept as the hypothesis `noNone` -/
theorem C17_list_none_cex :
    serializeDict [';'] ['='] (.dict .plain [(['a'], .list .plain [.none])]) = .error .TypeError := by
  decide

/-- fixed finding C17-j: with escapes *and* maxsplit the requested number of real cuts is made (before the
fix this text came back unsplit, `['a;b;c;d']`: the escaped delimiter had used up the only split) -/
theorem C17_maxsplit_escape_example :
    splitWithEscape "a\\;b;c;d".toList [';'] 1 (some '\\') true = .ok ["a;b".toList, "c;d".toList] := by
  decide

/-! ## maxsplit counts real cuts — finding C17-j, fixed

"With an escape character, a delimiter preceded by an odd run of escapes stays inside its item and
the result never depends on neighbouring items … (maxsplit included)".  The reference `splitRef`
(`Model/Esc.lean`) scans the characters once and counts only REAL cuts.  The code splits with
`str.split(delimiter, maxsplit)` first, so an *escaped* delimiter among the first `maxsplit`
occurrences used up one split (the repair the code had for this case, `if maxsplit and maxsplit+1 <
len(separated_items) and delimiter in separated_items[-1]`, could never fire).  Fix C17-j splits the raw
remainder once more before every join; the full statement is the theorem `C17_split_maxsplit_real_cuts`
(top of this file). -/

/-- **C17-j (fixed): the former witnesses.**  `'\;;'` with maxsplit 1 makes its one real cut (it came back
unsplit), `'a\;b;c;d'` is cut twice with maxsplit 2 and once with maxsplit 1 (it was `['a;b', 'c;d']` and
`['a;b;c;d']`): the boundary `c;d` no longer depends on the escape in the neighbouring item.  (Replaces
`C17_split_maxsplit_real_cuts_cex`, which recorded the defect.) -/
theorem C17_split_maxsplit_real_cuts_witnesses :
    splitWithEscape ['\\', ';', ';'] [';'] 1 (some '\\') true = .ok [[';'], []] ∧
    splitWithEscape [';'] [';'] 1 (some '\\') true = .ok [[], []] ∧
    splitWithEscape ['a', '\\', ';', 'b', ';', 'c', ';', 'd'] [';'] 2 (some '\\') true
      = .ok [['a', ';', 'b'], ['c'], ['d']] ∧
    splitWithEscape ['a', '\\', ';', 'b', ';', 'c', ';', 'd'] [';'] 1 (some '\\') true
      = .ok [['a', ';', 'b'], ['c', ';', 'd']] ∧
    splitWithEscape ['a', '\\', ';', 'b', '\\', ';', 'c', ';', 'd', ';', 'e'] [';'] 2 (some '\\') true
      = .ok [['a', ';', 'b', ';', 'c'], ['d'], ['e']] := by
  refine ⟨by decide, by decide, by decide, by decide, by decide⟩

/-- without maxsplit (`None` / `0`): a corollary now -/
theorem C17_split_real_cuts_no_maxsplit (s d : Str) (e : Char) (tr : Bool) (hd : d ≠ []) :
    splitWithEscape s d 0 (some e) tr = splitRef s d 0 (some e) tr :=
  C17_split_maxsplit_real_cuts s d 0 e tr hd

/-- inside the former class the result is NOT the walk over the pieces of `str.split(d, maxsplit)` any more
(the hypothesis of `C17_general_spec` is needed) -/
theorem C17_general_spec_needs_class :
    splitWithEscape ['\\', ';', ';'] [';'] 1 (some '\\') true
      ≠ .ok (specG '\\' [';'] true [] (splitMax [';'] 1 ['\\', ';', ';'])) := by
  decide

-- non-vacuity of the hypothesis of `C17_general_spec`: a limited split outside the class (the escaped delimiter comes
-- after the budget is used up / no escape at all), and the witnesses of the fixed finding inside it
example : escWithin '\\' [';'] (limOf 1) 0 [] ['a', ';', 'b', '\\', ';', 'c', ';', 'd'] = false := by decide
example : escWithin '\\' [';'] (limOf 2) 0 [] ['a', ';', 'b', ';', 'c'] = false := by decide
example : escWithin '\\' [';'] (limOf 1) 0 [] ['\\', ';', ';'] = true := by decide
example : escWithin '\\' [';'] (limOf 2) 0 [] ['a', '\\', ';', 'b', ';', 'c', ';', 'd'] = true := by decide

-- the code and the reference (no maxsplit; no escaped delimiter among the first maxsplit delimiters; inside the
-- former class; delimiter of two characters; escape-free text)
example : splitWithEscape ['a', '\\', ';', 'b', ';', 'c', ';', 'd'] [';'] 0 (some '\\') true
    = splitRef ['a', '\\', ';', 'b', ';', 'c', ';', 'd'] [';'] 0 (some '\\') true := by decide
example : splitWithEscape ['a', ';', 'b', '\\', ';', 'c', ';', 'd'] [';'] 1 (some '\\') true
    = splitRef ['a', ';', 'b', '\\', ';', 'c', ';', 'd'] [';'] 1 (some '\\') true := by decide
example : splitWithEscape ['a', '\\', ';', 'b', ';', 'c', ';', 'd'] [';'] 2 (some '\\') false
    = splitRef ['a', '\\', ';', 'b', ';', 'c', ';', 'd'] [';'] 2 (some '\\') false := by decide
example : splitWithEscape ['a', '!', '!', ':', 'b', '!', ':', 'c', '!', ':', 'd'] ['!', ':'] 1 (some '!') true
    = .ok [['a', '!', ':', 'b'], ['c', '!', ':', 'd']] := by decide
example : splitRef ['a', '!', '!', ':', ':', 'b', '!', ':', ':', 'c'] [':', ':'] 0 (some '!') true
    = .ok [['a', '!'], ['b', ':', ':', 'c']] := by decide
example : splitRef ['a', ';', 'b', ';', 'c'] [';'] 1 (some '\\') false = .ok [['a'], ['b', ';', 'c']] := by decide
example : splitRef ['a'] [] 1 (some '\\') false = .error .ValueError := by decide

/-! ## non-vacuity -/

example : splitWithEscape "\\\\IT\\EM1\\;\\\\IT\\EM2;\\ITE\\\\M3\\\\;ITE\\M4\\\\".toList [';'] 0 (some '\\') true
    = .ok ["\\\\IT\\EM1;\\\\IT\\EM2".toList, "\\ITE\\\\M3\\".toList, "ITE\\M4\\".toList] := by decide
example : splitWithEscape ['\\'] [';'] 0 (some '\\') true = .ok [['\\']] := by decide
example : splitWithEscape [';', '\\', '\\'] [';'] 0 (some '\\') true = .ok [[], ['\\']] := by decide
example : splitWithEscape "a!!;b!;c".toList [';'] 0 (some '!') true = .ok ["a!".toList, "b;c".toList] := by decide
example : ([';'] : Str).getLast? ≠ some '\\' := by decide
example : run '\\' "ab\\\\".toList % 2 ≠ 1 := by decide
example : splitWithEscape "a;b;c".toList [] 2 (some '\\') true = pySplit [] 2 "a;b;c".toList := by decide
example : pySplit [';'] 2 "a;b;c;d".toList = .ok ["a".toList, "b".toList, "c;d".toList] := by decide
example : deserializeList "a;;b c".toList [';'] true (some '\\') = .ok ["a".toList, [], "b c".toList] := by decide
example : Clean [';'] "b c".toList := by decide
example : keyValue ['='] none (some ['D']) "key".toList = .ok ("key".toList, some ['D']) := by decide
example : SafeSep [';'] ∧ SafeSep ['=', '>'] ∧ SafeSep ['€'] := by refine ⟨?_, ?_, ?_⟩ <;> decide
example : WideOk [';'] ['='] ∧ WideOk ['u'] ['é'] ∧ WideOk ['€', ';'] ['=', '>'] ∧ ¬ WideOk ['€'] ['u'] := by
  refine ⟨?_, ?_, ?_, ?_⟩ <;> decide
example : escapeValue (dangerous [';'] ['=']) "a=b;{".toList = "a\\x3db\\x3b\\x7b".toList := by decide
example : dictRoundTrip [';'] ['='] (flatVal .n0 [(['k'], "a;b={\\}\"".toList), ([], [])])
    = some [(['k'], some "a;b={\\}\"".toList), ([], some [])] := by decide
example : serializeDict [';'] ['='] (.dict .plain [(['k'], .str []), (['j'], .dict .plain [(['a'], .int 1)])])
    = .ok (some "k=;j={a=1}".toList) := by decide
example : noNone (.dict .plain [(['k'], .none), (['j'], .list .plain [.dict .plain []])]) = true := by decide

/-! ### non-vacuity, INI -/

-- the docstring of `parse_ini`
example : parseIni ['='] ["// Ini file".toList, "KEY1 =VALUE1".toList, "# KEY2=VALUE2".toList, "KEY3= VALUE3".toList]
    = .ok [("KEY1".toList, .str "VALUE1".toList), ("KEY3".toList, .str "VALUE3".toList)] := by decide +kernel
-- typing
example : parseValue [' ', '1', '2', ' '] = .ok (.int 12) := by decide +kernel
example : parseValue ['-', '0', '7'] = .ok (.int (-7)) := by decide +kernel
example : parseValue ['+', '1', '.', '5', '0'] = .ok (.flt ['1', '.', '5']) := by decide +kernel
example : parseValue ['-', '.', '5'] = .ok (.flt ['-', '0', '.', '5']) := by decide +kernel
example : parseValue ['5', '.'] = .ok (.flt ['5', '.', '0']) := by decide +kernel
example : parseValue ['"', ' ', 'q', '"'] = .ok (.str [' ', 'q']) := by decide +kernel
example : parseValue ['\'', '1', '\''] = .ok (.str ['1']) := by decide +kernel
example : parseValue ['.'] = .ok (.str ['.']) := by decide +kernel          -- fix C17-f
example : parseValue ['-', ' ', '5'] = .ok (.str ['-', ' ', '5']) := by decide +kernel
example : parseValue ['1', 'e', '3'] = .ok (.str ['1', 'e', '3']) := by decide +kernel
example : parseValue ['é'] = .ok (.str ['é']) := by decide +kernel
-- outside `Exact` the model does not answer: long decimals, digits outside ASCII
example : parseValue ['1', '.', '1', '2', '3', '4', '5', '6', '7', '8'] = .error .Unsupported := by decide +kernel
example : parseValue ['0', '.', '0', '0', '0', '0', '1'] = .error .Unsupported := by decide +kernel
example : parseValue ['²'] = .error .Unsupported := by decide +kernel
example : Exact (stripWs [' ', '1', '.', '5', '0']) := exact_of _ (by decide +kernel) (by decide +kernel)
example : Exact (stripWs ['é', '"']) := exact_of _ (by decide +kernel) (by decide +kernel)
example : isIntLit ['+', '5'] = true ∧ decParts ['-', '.', '5'] = some ([], ['5'])
    ∧ isQuoted ['"', '"'] = true ∧ isQuoted ['"'] = false := by decide +kernel
-- hypotheses of the round trip
example : IniKey ['='] "Key 1".toList ∧ IniKey ['=', '>'] "x.y/#".toList ∧ IniKey ['='] ['/'] :=
  ⟨⟨by decide +kernel, by decide +kernel, by decide +kernel, by decide +kernel, by decide +kernel, by decide +kernel⟩,
   ⟨by decide +kernel, by decide +kernel, by decide +kernel, by decide +kernel, by decide +kernel, by decide +kernel⟩,
   ⟨by decide +kernel, by decide +kernel, by decide +kernel, by decide +kernel, by decide +kernel, by decide +kernel⟩⟩
example : IniValue (.int (-3)) ∧ IniValue (.str " 1.50".toList) ∧ IniValue (.str "'x' ".toList) :=
  ⟨.int _, .text _ (exact_of _ (by decide +kernel) (by decide +kernel)),
   .text _ (exact_of _ (by decide +kernel) (by decide +kernel))⟩
example : parseIni ['='] (iniLines ['='] [("Key".toList, .int (-3)), ("b_1".toList, .str " 1.50".toList),
      ("n".toList, .str "'x' ".toList), ("key".toList, .str "12".toList)])
    = .ok [("KEY".toList, .int 12), ("B_1".toList, .flt "1.5".toList), ("N".toList, .str ['x'])] := by decide +kernel
example : loadIni ['='] (iniText ['='] [("a".toList, .int 1), ("b".toList, .str "x=y".toList)])
    = .ok [("A".toList, .int 1), ("B".toList, .str "x=y".toList)] := by decide +kernel
example : readLines "a=1\r\n\rb=2\n\nc".toList = ["a=1".toList, [], "b=2".toList, [], ['c']] := by decide +kernel
-- `+=`
example : Blanks ['='] [' ', '\t'] ∧ Blanks ['='] [] := by constructor <;> (unfold Blanks; decide +kernel)
example : parseIni ['='] ["k=a".toList, "k+=b".toList, "K +=c".toList] = .ok [(['K'], .str "abc".toList)] := by decide +kernel
example : parseIni ['='] ["k=1".toList, "k+=2.50".toList] = .ok [(['K'], .str "12.5".toList)] := by decide +kernel
example : parseIni ['='] ["k+= b".toList] = .ok [(['K'], .str [marker, 'b'])] := by decide +kernel
-- comments and blank lines
example : isIgnored "  # k=v".toList = true ∧ isIgnored "\t//k=v".toList = true ∧ isIgnored " \t".toList = true
    ∧ isIgnored "/ k=v".toList = false ∧ isIgnored "k#=v".toList = false := by decide +kernel

/-! ## second tie: the definitions regenerated from the source of `split_with_escape` (`Gen/EscPy.lean`) -/

/-- **generated `for` loop = model scan**: the `for … in enumerate(separated_items[start:-1])` over the translated loop
body is `Esc.forScan` (same `break` with the same glued list and new `start_from_item`, same exhaustion, same
exception), for every snapshot of a slice that lies inside the list (`hlen`; the translated item store `l[i] = v` raises
`IndexError` outside the list, the model's `List.set` does not — inside the `while` loop the slice always lies inside:
`C17_generated_while_eq` has no such hypothesis). -/
theorem C17_generated_for_eq (s d : Str) (m : Nat) (e : Char) (tr : Bool) (hd : d ≠ []) (start : Nat)
    (snap : List Str) (i : Nat) (items : List Str) (hlen : snap.length = 0 ∨ start + i + snap.length ≤ items.length) :
    Gen.EscPy.forEnum (Gen.EscPy.forBody s d m e tr) snap i ⟨items, start⟩
      = (forScan ⟨e, d, tr, m⟩ start snap i items).map (EscGenEq.viewFor start) :=
  EscGenEq.forEnum_eq s d m e tr hd start snap i items hlen

/-- **generated `else` block of the `for` = `Esc.finalTrim`** (trim of the last item, then the `break` out of the `while`) -/
theorem C17_generated_else_eq (s d : Str) (m : Nat) (e : Char) (tr : Bool) (items : List Str) (start : Nat) :
    Gen.EscPy.forElse s d m e tr ⟨items, start⟩
      = (finalTrim ⟨e, d, tr, m⟩ items).map (fun l => Gen.EscPy.Ctl.brk ⟨l, start⟩) :=
  EscGenEq.forElse_eq s d m e tr items start

/-- **generated `while True:` = `Esc.whileLoop`**, for every fuel -/
theorem C17_generated_while_eq (s d : Str) (m : Nat) (e : Char) (tr : Bool) (hd : d ≠ []) (fuel : Nat)
    (items : List Str) (start : Nat) :
    (Gen.EscPy.whileTrue (Gen.EscPy.round s d m e tr) fuel ⟨items, start⟩).map (·.f0)
      = whileLoop ⟨e, d, tr, m⟩ fuel items start :=
  EscGenEq.whileTrue_eq s d m e tr hd fuel items start

/-- **generated function = model**: the Lean text regenerated from the source of `split_with_escape` equals the
hand-written `Esc.splitWithEscapeD`, for every fuel, text, delimiter (the empty one included: `ValueError`),
maxsplit, escape character (`none` included) and trim flag. -/
theorem C17_generated_split_eq (s d : Str) (m : Nat) (esc : Option Char) (tr : Bool) (fuel : Nat) :
    Gen.EscPy.splitWithEscape s d m esc tr fuel = splitWithEscapeD fuel s d m esc tr :=
  EscGenEq.splitWithEscape_eq s d m esc tr fuel

/-- **C17 for the translated code**: with fuel `|s| + 2` the regenerated function is the character-level reference. -/
theorem C17_generated_split_is_reference (s d : Str) (m : Nat) (e : Char) (tr : Bool) (hd : d ≠ []) :
    Gen.EscPy.splitWithEscape s d m (some e) tr (fuelFor s) = .ok (refAux e d tr (limOf m) 0 [] s) := by
  rw [C17_generated_split_eq]; exact C17_split_is_reference s d m e tr hd

-- non-vacuity: an odd run glued (with the maxsplit re-split), an even run halved, the last item trimmed
example : Gen.EscPy.forEnum (Gen.EscPy.forBody [] [';'] 1 '\\' true) [['a', '\\']] 0 ⟨[['a', '\\'], ['b', ';', 'c']], 0⟩
    = .ok (.brk ⟨[['a', ';', 'b'], ['c']], 0⟩) := by decide +kernel
example : Gen.EscPy.forEnum (Gen.EscPy.forBody [] [';'] 0 '\\' true) [['a', '\\', '\\'], ['b']] 0 ⟨[['a', '\\', '\\'], ['b'], []], 0⟩
    = .ok (.cont ⟨[['a', '\\'], ['b'], []], 0⟩) := by decide +kernel
-- `hlen` holds on the first example (the slice `items[0:-1]`), and is needed: a store outside the list raises in the translated code
example : ([['a', '\\']] : List Str).length = 0 ∨ 0 + 0 + ([['a', '\\']] : List Str).length ≤ ([['a', '\\'], ['b', ';', 'c']] : List Str).length := by decide
example : Gen.EscPy.forEnum (Gen.EscPy.forBody [] [';'] 0 '\\' true) [['a', '\\', '\\']] 0 ⟨[], 0⟩ = .error .IndexError
    ∧ forScan ⟨'\\', [';'], true, 0⟩ 0 [['a', '\\', '\\']] 0 [] = .ok (.exhausted []) := ⟨by decide +kernel, rfl⟩
example : Gen.EscPy.forElse [] [';'] 0 '\\' true ⟨[['a'], ['b', '\\', '\\', '\\']], 1⟩ = .ok (.brk ⟨[['a'], ['b', '\\', '\\']], 1⟩) := by
  decide +kernel
example : (Gen.EscPy.whileTrue (Gen.EscPy.round [] [';'] 0 '\\' true) 3 ⟨[['a', '\\'], ['b', '\\'], ['c', '\\', '\\']], 0⟩).map (·.f0)
    = .ok [['a', ';', 'b', ';', 'c', '\\']] := by decide +kernel
example : Gen.EscPy.splitWithEscape "a\\;b;c;d".toList [';'] 1 (some '\\') true 10 = .ok ["a;b".toList, "c;d".toList]
    ∧ Gen.EscPy.splitWithEscape ['a'] [] 0 (some '\\') true 3 = .error .ValueError
    ∧ Gen.EscPy.splitWithEscape "a\\;b".toList [';'] 0 none true 3 = .ok ["a\\".toList, ['b']] := by decide +kernel

/-- **generated body of the escaping loop of `serialize_dict` = `Esc.escChar`**: one round of `for ch in in_buffer_str:`
(regenerated from the source) appends the escape notation of a reserved character / the character itself, for every
set of reserved characters, buffer and character. -/
theorem C17_generated_escape_body_eq (s d eq dang buf : Str) (c : Char) :
    Gen.EscPy.escBody s d eq dang buf c = buf ++ escChar dang c :=
  EscGenEq2.escBody_eq s d eq dang buf c

/-- **generated escaping loop = model**: the Lean text regenerated from the scalar branch of `serialize_dict` (after the
capitalisation: `dangerous_characters = …`, the `for` over the characters with the f-string formats, `return`) equals
`Esc.escapeValue (Esc.dangerous d eq) s`, for every text, delimiter and equal tag (no scope hypothesis: the region has no
other parameter). -/
theorem C17_generated_escape_eq (s d eq : Str) :
    Gen.EscPy.escapeLoop s d eq = escapeValue (dangerous d eq) s :=
  EscGenEq2.escapeLoop_eq s d eq

-- non-vacuity: a reserved ASCII character (\x3b), a reserved character above U+00FF used as equal tag (\u20ac), one
-- above U+FFFF used as delimiter (\U0001f600), an unreserved character kept
example : Gen.EscPy.escapeLoop "a;b{".toList [';'] ['='] = "a\\x3bb\\x7b".toList := by decide +kernel
example : Gen.EscPy.escapeLoop ['x', Char.ofNat 0x20ac, Char.ofNat 0x1f600, 'y'] [Char.ofNat 0x1f600] [Char.ofNat 0x20ac]
    = "x\\u20ac\\U0001f600y".toList := by decide +kernel
example : Gen.EscPy.escBody [] [] [] ['='] ['k'] '=' = "k\\x3d".toList
    ∧ Gen.EscPy.escBody [] [] [] ['='] ['k'] 'v' = ['k', 'v'] := by decide +kernel

end N0.C17
