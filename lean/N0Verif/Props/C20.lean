import N0Verif.Proofs.Names
import N0Verif.Gen.Symtab
/-!
# C20 — no public entry point can fail on a name the library never defined

`Gen.Symtab.table` is regenerated from the Python sources on every run of the check
(`harness/translate_names.py`).  The theorems below are therefore statements about the code as it
is *now*: when a function body starts to refer to a global name, an imported helper or an own
method that nothing defines, the corresponding instance theorem stops compiling.

Reading of the property (static, as its quantifier says):
* `C20_names_resolve`   every name the compiler treats as a global reference in any function,
                        method, lambda, comprehension, class body or module body of any module of
                        the package is bound at top level of that module, or star-imported from a
                        module that exports and defines it, or is a builtin;
* `C20_imports_resolve` every `from .m import x` (module level or function-local) finds `x` in `m`;
* `C20_attrs_resolve`   for every class the package exports, every `self.x` load in one of its
                        methods — own or inherited from a library base — finds `x` in the class
                        body / among the `self.x = …` stores of the class or of an ancestor, or
                        in `dir` of an external base (`dict`, `list`, `object`, …);
* `C20_exports_exist`   every name in every `__all__` exists in its module and is an attribute of
                        the package.
The generic parts (`checkX tbl = true → declarative statement`, for every table) are
`Proofs/Names.lean`; here they are instantiated with the generated table.
-/
namespace N0.C20
open N0.Names N0.Gen.Symtab

/-! ## instance theorems: the checkers accept the generated table (kernel evaluation) -/

theorem C20_refs : checkRefs table = true := by decide +kernel
theorem C20_imports : checkImports table = true := by decide +kernel
theorem C20_attrs : checkAttrs table = true := by decide +kernel
theorem C20_all : checkAll table = true := by decide +kernel

/-! ## the property, in declarative form -/

/-- every global-name reference in every function body of every module resolves -/
theorem C20_names_resolve :
    ∀ (m : Nat) (mi : Mod), table.mod? m = some mi →
    ∀ (f n : Nat), (f, n) ∈ mi.refs → Resolves table m n :=
  checkRefs_sound table C20_refs

/-- every `from .m import x` finds `x` -/
theorem C20_imports_resolve :
    ∀ (mi : Mod), mi ∈ table.mods →
    ∀ (f t n : Nat), (f, t, n) ∈ mi.imports → Defines table t n :=
  checkImports_sound table C20_imports

/-- every own-method / own-attribute reference through `self` resolves on every exported class -/
theorem C20_attrs_resolve :
    ∀ (m c : Nat), (m, c) ∈ table.concrete →
    ∀ (m' c' : Nat) (ci' : Cls), Ancestor table m c m' c' → table.cls? m' c' = some ci' →
    ∀ (f a : Nat), (f, a) ∈ ci'.loads → HasAttr table m c a :=
  checkAttrs_sound table C20_attrs

/-- every name of every export list exists, and the package namespace exposes it -/
theorem C20_exports_exist :
    ∀ (m : Nat) (mi : Mod) (l : List Nat), table.mod? m = some mi → mi.all = some l →
    ∀ n ∈ l, Defines table m n ∧ Defines table table.pkg n :=
  checkAll_sound table C20_all

/-- no open finding is excused: the exception list generated from `known_findings/C20.json` is empty -/
theorem C20_no_exceptions : known = [] := by decide

/-- the lists of offenders the driver prints are empty -/
theorem C20_no_offenders :
    badRefs table = [] ∧ badImports table = [] ∧ badAll table = [] :=
  ⟨(badRefs_nil_iff table).mpr C20_refs, (badImports_nil_iff table).mpr C20_imports,
   (badAll_nil_iff table).mpr C20_all⟩

/-! ## non-vacuity: the table is not empty and the checkers do reject defective tables -/

/-- the generated table has modules, references, export lists, exported classes and self loads -/
example : table.mods.length ≥ 2 ∧ (table.mods.map (fun mi => mi.refs.length)).sum ≥ 100 ∧
    table.concrete ≠ [] ∧ (table.mods.filter (fun mi => mi.all.isSome)).length ≥ 2 := by
  decide +kernel

/-- a two-module miniature: module 0 (package) star-imports module 1 which exports `5`, binds `5`
and `7`, and whose function `9` refers to `5` (bound), `6` (builtin) -/
def mini : Table where
  mods := [
    { name := 0, bound := [1], stars := [1], all := some [5], refs := [(8, 5)], imports := [(8, 1, 7)], classes := [] },
    { name := 1, bound := [5, 7], stars := [], all := some [5], refs := [(9, 5), (9, 6)], imports := [],
      classes := [{ name := 2, bases := [.ext 0], attrs := [3], loads := [(4, 3), (4, 10)] }] }]
  pkg := 0
  builtins := [6]
  ext := [[10]]
  priv := []
  concrete := [(1, 0)]

example : checkRefs mini = true ∧ checkImports mini = true ∧ checkAttrs mini = true ∧ checkAll mini = true := by
  decide

/-- hypotheses of `C20_names_resolve` are inhabited on the miniature and the conclusion is the
star-import case -/
example : Resolves mini 0 5 :=
  checkRefs_sound mini (by decide) 0 _ rfl 8 5 (by decide)

/-- the same miniature with the reference `7` from the package (module 1 does not export `7`):
the checker rejects it, and names the offender -/
def miniBad : Table := { mini with mods := [
    { name := 0, bound := [1], stars := [1], all := some [5], refs := [(8, 7)], imports := [], classes := [] },
    { name := 1, bound := [5, 7], stars := [], all := some [5, 11], refs := [], imports := [],
      classes := [{ name := 2, bases := [.ext 0], attrs := [3], loads := [(4, 12)] }] }] }

theorem C20_checker_rejects_cex :
    checkRefs miniBad = false ∧ badRefs miniBad = [(0, 8, 7)] ∧
    checkAttrs miniBad = false ∧ badAttrs miniBad = [(1, 0, 1, 0, 4, 12)] ∧
    checkAll miniBad = false ∧ badAll miniBad = [(1, 11, 0), (1, 11, 1)] := by
  decide

/-- … and the rejected reference is really unresolvable in the declarative sense (the checker is
not merely incomplete on it) -/
theorem C20_rejected_is_unresolvable_cex : ¬ Resolves miniBad 0 7 := by
  intro h
  rcases h with h | h
  · obtain ⟨fuel, hf⟩ := definesB_complete miniBad h
    have : ∀ fuel, definesB miniBad fuel 0 7 = false := by
      intro fuel
      match fuel with
      | 0 => rfl
      | 1 => decide
      | k + 2 => simp [definesB, Table.mod?, miniBad, mini, exportsB]
    rw [this fuel] at hf
    exact Bool.noConfusion hf
  · revert h; decide

end N0.C20
