import N0Verif.Model.Json
namespace N0.C11
end N0.C11
