import N0Verif.Proofs.Json
import N0Verif.Proofs.JsonPairs
/-!
# C11 — JSON export and load round-trip every JSON-representable tree

Only property statements live here; the model is `Model/Json.lean` (`toJson` = `n0dict_.to_json` /
`n0list_.to_json` through `n0pretty`, **with fix patches C11-a, C11-c, C11-d, C11-f, C11-e applied**;
`jsonDecode` = `json.loads`), helper lemmas are in `Proofs/Json.lean` (reader, general layout)
and `Proofs/JsonPairs.lean` (pair layout, `pyEq`, `pairOrder`).

Reading of the property.
* "JSON-representable tree" = `wf t`: keys are unique inside every dict and every float leaf
  carries a JSON float lexeme (`fltOk`; Python's `repr` of a finite float is one).
* "decodes to a value equal to the tree": `json.loads` builds plain `dict`/`list`, Python's `==`
  ignores the class and the order of dict entries.  `erase` forgets the class tags; `pyEq`
  (`Proofs/JsonPairs.lean`, next to `wf`/`depth` of `Proofs/Json.lean`) is equality up to the order
  of dict entries.  The theorems give the decoded value *exactly*: it is `erase …` of the tree whose
  pair-layout records are listed in column order (`pairOrder o t`; the tree itself outside the pair
  layout, and whenever every record already lists its keys in column order), which is `pyEq` to the
  tree.
* "skip_empty_arrays drops empty containers": `dropEmptyIf o t` = `prune t` when the option is
  on — containers that are empty, or become empty once their own empty containers are dropped,
  are removed from their parent (the root itself stays, as `{}` / `[]`).
* "for every tree": no bound on width or nesting depth.  (The interpreter's own recursion limit —
  `RecursionError` from `n0pretty` or `json.loads` near 1000 nested containers — is a limit of the
  environment, not of the code modelled; it is listed in the trusted base of the check.)
-/
namespace N0.C11
open N0 N0.Py N0.Json

/-- **C11, full statement** (proved below: `C11_roundtrip`): for every JSON-representable tree
— any width, any nesting depth — and every option record the exported text is accepted by the
reader and decodes to the tree (minus empty containers when `skip_empty_arrays` is on). -/
def C11_roundtrip_stmt : Prop :=
  ∀ (o : Opts) (t : Val), wf t = true →
    ∃ v, jsonDecode (toJson o t) = some v ∧ pyEq v (erase (dropEmptyIf o t)) = true

/-- **The reader decodes every JSON text of a value.**  Whatever white space stands between the
tokens (`Ren v s`), `json.loads` returns the value: all strings (quote, backslash, control and
non-ASCII characters through `esc`), all ints, float lexemes, `true/false/null`, any nesting. -/
theorem C11_decode_ren (v : Val) (s : Str) (h : Ren v s) (hw : wf v = true) :
    jsonDecode s = some (erase v) := by
  rw [jsonDecode_ren h, dec_erase v hw]

/-- a string survives export and load, whatever it contains -/
theorem C11_string_roundtrip (x : Str) : jsonDecode (quoted x) = some (.str x) := by
  have h : Ren (.str x) (quoted x) := by simp [Ren, scalarText]
  simpa [erase] using C11_decode_ren (.str x) (quoted x) h rfl

/-- an integer survives export and load -/
theorem C11_int_roundtrip (i : Int) : jsonDecode (intRepr i) = some (.int i) := by
  have h : Ren (.int i) (intRepr i) := by simp [Ren, scalarText]
  simpa [erase] using C11_decode_ren (.int i) (intRepr i) h rfl

/-- **C11 without the pair layout** (`compress`, `indent = 0` or `pairs_in_one_line = False`;
every indent, both values of `skip_empty_arrays`): the exported text decodes *exactly* to the
tree with class tags forgotten and, under `skip_empty_arrays`, empty containers dropped
(dict order included). -/
theorem C11_roundtrip_pairs_off (o : Opts) (hp : o.pairsOn = false) (t : Val)
    (hw : wf t = true) :
    jsonDecode (toJson o t) = some (erase (dropEmptyIf o t)) := by
  have hout := pretty_ren o hp t hw 0
  unfold toJson
  rcases hout with ⟨hs, he, hnil⟩ | ⟨_, hr⟩
  · -- everything was dropped: `to_json` answers `{}` / `[]`
    simp only [hnil, List.isEmpty_nil, if_true]
    unfold dropEmptyIf
    simp only [hs, if_true]
    cases t with
    | list c xs =>
      simp only [prune, isEmptyContainer] at he ⊢
      cases hpx : pruneList xs with
      | nil => simp [isDict, erase, eraseList]; decide
      | cons a b => rw [hpx] at he; simp at he
    | dict c kvs =>
      simp only [prune, isEmptyContainer] at he ⊢
      cases hpx : pruneKvs kvs with
      | nil => simp [isDict, erase, eraseKvs]; decide
      | cons a b => rw [hpx] at he; simp at he
    | none => simp [prune, isEmptyContainer] at he
    | bool b => simp [prune, isEmptyContainer] at he
    | int i => simp [prune, isEmptyContainer] at he
    | flt r => simp [prune, isEmptyContainer] at he
    | str x => simp [prune, isEmptyContainer] at he
  · have hne : (pretty o 0 t).isEmpty = false := by
      have := Ren_ne_nil hr
      cases h : pretty o 0 t <;> simp_all
    simp only [hne, Bool.false_eq_true, if_false]
    exact C11_decode_ren _ _ hr (wf_dropEmptyIf o t hw)

/-- stage 1: the compressed layout -/
theorem C11_roundtrip_compress (o : Opts) (hc : o.compress = true) (t : Val)
    (hw : wf t = true) :
    jsonDecode (toJson o t) = some (erase (dropEmptyIf o t)) :=
  C11_roundtrip_pairs_off o (by simp [Opts.pairsOn, Opts.isz, hc]) t hw

/-- stage 2: the indented layout, any indent, `pairs_in_one_line = False` -/
theorem C11_roundtrip_indented (o : Opts) (hpairs : o.pairs = false) (t : Val)
    (hw : wf t = true) :
    jsonDecode (toJson o t) = some (erase (dropEmptyIf o t)) :=
  C11_roundtrip_pairs_off o (by simp [Opts.pairsOn, hpairs]) t hw

/-- no formatting option (outside the pair layout) changes the decoded value:
two option records that agree on `skip_empty_arrays` decode to the same value -/
theorem C11_options_agree (o o' : Opts) (hp : o.pairsOn = false) (hp' : o'.pairsOn = false)
    (hs : o.skipEmpty = o'.skipEmpty) (t : Val) (hw : wf t = true) :
    jsonDecode (toJson o t) = jsonDecode (toJson o' t) := by
  rw [C11_roundtrip_pairs_off o hp t hw, C11_roundtrip_pairs_off o' hp' t hw]
  unfold dropEmptyIf
  rw [hs]

/-! ### every layout, the pair layout included (stage 3) -/

/-- **C11 for every option record, exact form**: the exported text decodes *exactly* to the tree
whose pair-layout records are listed in column order (`pairOrder o t`: nothing else differs from
`t`), with class tags forgotten and, under `skip_empty_arrays`, empty containers dropped.  Covers
compress, every indent, `pairs_in_one_line` on and off, both values of `skip_empty_arrays`, any
nesting depth. -/
theorem C11_roundtrip_ordered (o : Opts) (t : Val) (hw : wf t = true) :
    jsonDecode (toJson o t) = some (erase (dropEmptyIf o (pairOrder o t))) :=
  jsonDecode_toJson o t hw

/-- **C11, the full statement**: whatever the options and however deep the tree, the exported
text is accepted by `json.loads` and the decoded value equals the tree (minus the empty
containers when `skip_empty_arrays` is on) as Python compares values. -/
theorem C11_roundtrip : C11_roundtrip_stmt := by
  intro o t hw
  exact ⟨_, jsonDecode_toJson o t hw, pairOrder_pyEq o t hw⟩

/-- no formatting option changes the decoded value, the pair layout included: two option records
that agree on `skip_empty_arrays` both decode to values equal (as Python compares) to the same tree -/
theorem C11_options_agree_all (o o' : Opts) (hs : o.skipEmpty = o'.skipEmpty) (t : Val)
    (hw : wf t = true) :
    ∃ v v', jsonDecode (toJson o t) = some v ∧ jsonDecode (toJson o' t) = some v' ∧
      pyEq v (erase (dropEmptyIf o t)) = true ∧ pyEq v' (erase (dropEmptyIf o t)) = true := by
  obtain ⟨v, h1, h2⟩ := C11_roundtrip o t hw
  obtain ⟨v', h1', h2'⟩ := C11_roundtrip o' t hw
  refine ⟨v, v', h1, h1', h2, ?_⟩
  have : dropEmptyIf o t = dropEmptyIf o' t := by unfold dropEmptyIf; rw [hs]
  rw [this]; exact h2'

/-- exact equality (dict order included) in every layout when the records of the lists printed
in the pair layout already list their keys in column order (first appearance) -/
theorem C11_roundtrip_colorder (o : Opts) (t : Val) (hw : wf t = true)
    (hc : pairOrder o t = t) :
    jsonDecode (toJson o t) = some (erase (dropEmptyIf o t)) := by
  rw [jsonDecode_toJson o t hw, hc]

/-- the column-ordered tree is the tree as Python compares values (also after
`skip_empty_arrays`), and it is the tree itself when the pair layout is off -/
theorem C11_pairOrder_pyEq (o : Opts) (t : Val) (hw : wf t = true) :
    pyEq (erase (dropEmptyIf o (pairOrder o t))) (erase (dropEmptyIf o t)) = true ∧
    (o.pairsOn = false → pairOrder o t = t) :=
  ⟨pairOrder_pyEq o t hw, fun hp => pairOrder_off hp t⟩

/-- one record of the pair layout, whatever the column widths: the padded text
`{ "k": v   , "w": x }` is a JSON text (`Ren`) of the record listed in column order -/
theorem C11_pair_record (c : Cls) (cols : List (Str × Nat)) (kvs : List (Str × Val))
    (hs : ∀ p ∈ kvs, isPairScalar p.2 = true) (hw : wfK kvs = true) :
    Ren (.dict c (colOrder cols kvs)) (['{'] ++ pairRecord kvs cols [] ++ [' ', '}']) :=
  pairRecord_ren c cols kvs (fun p hp => scalar_ren (hs p hp) (wfK_mem kvs hw p hp))

/-! ### nesting deeper than the debug printer's guard (finding C11-e, fixed) -/

-- `nest n v` = `n` dicts around `v` (`Proofs/JsonPairs.lean`, with `wf_nest`, `depth_nest`, `pairOrder_nest`)

/-- **the guard of the debug printer does not reach the JSON export**: `n` nested dicts load back,
for every `n` (before fix C11-e the items of level 111 were printed as `{.......}`, so 112
nested dicts did not load) -/
theorem C11_depth_any (o : Opts) (n : Nat) :
    depth (nest n (.int 1)) = n ∧
    jsonDecode (toJson o (nest n (.int 1))) = some (erase (dropEmptyIf o (nest n (.int 1)))) := by
  refine ⟨by simp [depth_nest, depth], ?_⟩
  rw [C11_roundtrip_ordered o _ (wf_nest _ rfl n), pairOrder_nest]

/-- the former counter-example of C11-e, now an instance: 112 nested dicts, compressed -/
example : depth (nest 112 (.int 1)) = 112 ∧
    jsonDecode (toJson { compress := true } (nest 112 (.int 1))) = some (erase (nest 112 (.int 1))) := by
  have h := C11_depth_any { compress := true } 112
  exact ⟨h.1, by rw [h.2]; rfl⟩
-- the exported text really descends past level 111 (no `{.......}` in it)
example : toJson { compress := true } (nest 113 (.str [])) =
    (List.replicate 113 "{\"a\":".toList).flatten ++ ['"', '"'] ++ List.replicate 113 '}' := by decide +kernel

/-! ### the pair layout: why the full statement uses `pyEq` -/

def tPairs : Val :=
  .list .n0 [.dict .n0 [(['k'], .str ['1']), (['v'], .bool true)],
             .dict .plain [(['v'], .flt ['1', '.', '5']), (['k'], .int 3)],
             .dict .n0 [(['v'], .str ['"', '\\'])]]

/-- the pair layout prints the columns in first-appearance order, so a record written
`{v, k}` comes back as `{k, v}`: equal for Python, not identical as an ordered list -/
theorem C11_pairs_reorders :
    (Opts.pairsOn {} = true) ∧
    jsonDecode (toJson {} tPairs) ≠ some (erase tPairs) ∧
    (∃ v, jsonDecode (toJson {} tPairs) = some v ∧ pyEq v (erase tPairs) = true) := by
  refine ⟨by decide, by decide +kernel, ?_⟩
  refine ⟨.list .plain [.dict .plain [(['k'], .str ['1']), (['v'], .bool true)],
             .dict .plain [(['k'], .int 3), (['v'], .flt ['1', '.', '5'])],
             .dict .plain [(['v'], .str ['"', '\\'])]], by decide +kernel, by decide +kernel⟩

/-- `tPairs` through the theorems: the decoded value is the column-ordered tree -/
example : jsonDecode (toJson {} tPairs)
    = some (.list .plain [.dict .plain [(['k'], .str ['1']), (['v'], .bool true)],
             .dict .plain [(['k'], .int 3), (['v'], .flt ['1', '.', '5'])],
             .dict .plain [(['v'], .str ['"', '\\'])]]) := by
  rw [C11_roundtrip_ordered {} tPairs (by decide +kernel)]
  decide +kernel

/-! ### the constructor side: `n0dict(text)` / `n0list(text)` -/

/-- **C11, load**: `json.loads(text, object_pairs_hook=n0dict)` accepts exactly the texts
`json.loads(text)` accepts, fails with the same error otherwise, and builds the same value with
every object an n0dict (arrays stay plain lists): same keys, same order, same leaves -/
theorem C11_load_hook (s : Str) : jsonLoadsHookE s = (jsonDecodeE s).map tagN0 :=
  jsonLoadsHookE_eq s

/-- **`n0dict(text)` = `json.loads(text.strip())`** with nested objects as n0dicts, for every
non-empty text whose first non-blank character is `{` (also the error: a text that is not JSON
raises `JSONDecodeError` in both) -/
theorem C11_load (s r : Str) (hne : s ≠ []) (hs : stripWs s = '{' :: r) :
    n0dictOfText s = (jsonDecodeE (stripWs s)).map tagN0 := by
  rw [hs]; exact n0dictOfText_json hne hs

/-- **`n0list(text)` = `json.loads(text.strip())`**, the list itself an n0list, nested objects
n0dicts, nested arrays plain lists -/
theorem C11_load_list (s r : Str) (hne : s ≠ []) (hs : stripWs s = '[' :: r) :
    n0listOfText s = (jsonDecodeE (stripWs s)).map tagTop := by
  rw [hs]; exact n0listOfText_json hne hs

/-- the other branches: an empty text gives the empty container; a text that starts with
anything else (`<` = XML for `n0dict` aside) is a `TypeError` -/
theorem C11_load_dispatch (s : Str) :
    (s = [] → n0dictOfText s = .ok (.dict .n0 []) ∧ n0listOfText s = .ok (.list .n0 [])) ∧
    (s ≠ [] → (∀ r, stripWs s ≠ '{' :: r) → (∀ r, stripWs s ≠ '<' :: r) → n0dictOfText s = .error .TypeError) ∧
    (s ≠ [] → (∀ r, stripWs s ≠ '[' :: r) → n0listOfText s = .error .TypeError) :=
  ctor_dispatch s

/-- **export, then construct**: `n0dict(x.to_json(…))` / `n0list(x.to_json(…))` rebuild the
(column-ordered) tree for every option record and any nesting depth, with the class tags the
constructors give -/
theorem C11_export_construct (o : Opts) (c : Cls) :
    (∀ kvs, wf (.dict c kvs) = true →
      n0dictOfText (toJson o (.dict c kvs)) = .ok (tagN0 (erase (dropEmptyIf o (pairOrder o (.dict c kvs)))))) ∧
    (∀ xs, wf (.list c xs) = true →
      n0listOfText (toJson o (.list c xs)) = .ok (tagTop (erase (dropEmptyIf o (pairOrder o (.list c xs)))))) :=
  ⟨fun kvs hw => n0dictOfText_toJson o c kvs hw, fun xs hw => n0listOfText_toJson o c xs hw⟩

-- non-vacuity: blanks that `strip()` removes but JSON does not accept, a repeated key, nested
-- objects and arrays; an invalid text; the dispatch
example : n0dictOfText (Char.ofNat 12 :: "{\"a\": [1, {\"b\": null}], \"c\": {}, \"a\": [[]]}\n".toList)
    = .ok (.dict .n0 [(['a'], .list .plain [.list .plain []]), (['c'], .dict .n0 [])]) := by decide +kernel
example : jsonDecodeE (Char.ofNat 12 :: "{}".toList) = .error .ValueError := by decide +kernel
example : stripWs (Char.ofNat 12 :: "{\"a\": 1} ".toList) = "{\"a\": 1}".toList := by decide +kernel
example : n0dictOfText "{\"a\": 1,}".toList = .error .ValueError ∧ n0dictOfText "[1]".toList = .error .TypeError
    ∧ n0listOfText " [1, {\"k\": [2]}] ".toList = .ok (.list .n0 [.int 1, .dict .n0 [(['k'], .list .plain [.int 2])]])
    ∧ n0listOfText "{}".toList = .error .TypeError ∧ n0dictOfText [' '] = .error .TypeError := by decide +kernel
example : n0dictOfText (toJson {} (.dict .plain [(['r'], tPairs)]))
    = .ok (.dict .n0 [(['r'], .list .plain [.dict .n0 [(['k'], .str ['1']), (['v'], .bool true)],
             .dict .n0 [(['k'], .int 3), (['v'], .flt ['1', '.', '5'])],
             .dict .n0 [(['v'], .str ['"', '\\'])]])]) := by
  rw [(C11_export_construct {} .plain).1 _ (by decide +kernel)]
  decide +kernel

/-! ### non-vacuity -/

/-- a tree with two pair-layout lists (one nested in a dict of a general list), an empty record,
an absent first column, a record in the other order, escapes in keys and values -/
def tMixed : Val :=
  .dict .n0 [(['r'], .list .n0 [.dict .n0 [(['b', '"'], .int (-7))],
                                .dict .plain [],
                                .dict .n0 [(['b', '"'], .str ['\n', '"']), (['a'], .flt ['2', '.', '5'])],
                                .dict .plain [(['a'], .bool false)]]),
             (['g'], .list .plain [.int 1, .dict .n0 [(['q'], .list .n0 [.dict .n0 [(['x'], .str [])]])], .list .n0 []])]

example : wf tMixed = true ∧ depth tMixed = 5 := by decide +kernel
example : Opts.pairsOn { indent := 2, skipEmpty := true } = true := by decide
-- the pair layout really is used, and re-lists nothing here (first-appearance order = record order)
example : pairOrder { indent := 2, skipEmpty := true } tMixed = tMixed := by decide +kernel
example : pairOrder {} tPairs ≠ tPairs := by decide +kernel
example : jsonDecode (toJson { indent := 2, skipEmpty := true } tMixed)
    = some (.dict .plain [(['r'], .list .plain [.dict .plain [(['b', '"'], .int (-7))],
                                .dict .plain [(['b', '"'], .str ['\n', '"']), (['a'], .flt ['2', '.', '5'])],
                                .dict .plain [(['a'], .bool false)]]),
             (['g'], .list .plain [.int 1, .dict .plain [(['q'], .list .plain [.dict .plain [(['x'], .str [])]])]])]) := by
  rw [C11_roundtrip_colorder _ tMixed (by decide +kernel) (by decide +kernel)]
  decide +kernel
-- the text of the instance contains a padded record with an absent first column
example : pretty { indent := 2 } 0 (.list .n0 [.dict .n0 [(['k'], .int 1), (['v'], .int 22)], .dict .n0 [(['v'], .int 3)]])
    = "[\n  { \"k\": 1, \"v\": 22 },\n  {         \"v\": 3  }\n]".toList := by decide +kernel
example : ∃ o t, wf t = true ∧ o.pairsOn = true ∧ pairOrder o t ≠ t :=
  ⟨{}, tPairs, by decide +kernel, by decide, by decide +kernel⟩
example : isPairScalar (.str ['a']) = true ∧ isPairScalar .none = false ∧ isPairScalar (.list .n0 []) = false := by decide

def tDemo : Val :=
  .dict .n0 [(['a', '"'], .list .n0 [.str ['\\', '\n', '"', 'é', Char.ofNat 1], .int (-12), .flt ['1', 'e', '-', '0', '7'],
                                     .none, .bool false, .list .plain [], .dict .plain [(['x'], .dict .n0 [])]]),
             (['e'], .dict .plain []), ([], .str [])]

example : wf tDemo = true ∧ depth tDemo = 4 := by decide +kernel
example : Opts.pairsOn { indent := 2, pairs := false, skipEmpty := true } = false := by decide
-- the hypotheses of `C11_roundtrip_pairs_off` are met and the conclusion is a non-trivial value
example : jsonDecode (toJson { indent := 2, pairs := false, skipEmpty := true } tDemo)
    = some (.dict .plain [(['a', '"'], .list .plain [.str ['\\', '\n', '"', 'é', Char.ofNat 1], .int (-12),
        .flt ['1', 'e', '-', '0', '7'], .none, .bool false])
      , ([], .str [])]) := by
  rw [C11_roundtrip_pairs_off _ (by decide) tDemo (by decide +kernel)]
  decide +kernel
example : Ren (.list .n0 [.int 1, .str ['a']]) "[ 1 ,\n \"a\" ]".toList := by
  simp only [Ren, RenL, RenTail]
  exact ⟨" 1 ,\n \"a\" ".toList, ⟨[' '], ['1'], " ,\n \"a\" ".toList, by decide, by decide +kernel,
    ⟨[' '], ['\n', ' '], "\"a\"".toList, [' '], by decide, by decide, by decide +kernel, by decide, by decide +kernel⟩,
    by decide +kernel⟩, by decide +kernel⟩
example : fltOk "1e-07".toList = true ∧ fltOk "-2.5".toList = true ∧ fltOk "1".toList = false ∧ fltOk "nan".toList = false := by
  decide +kernel

end N0.C11
